/-
Helper lemmas and specification-level vocabulary for `Model/PanelGlue.lean`.  The property theorems are in
`Props/C02.lean` (calc_k0, calc_kA, calc_cA, placement, combination), `Props/C03.lean` (calc_kG0), `Props/C04.lean` (calc_kM), `Props/C08.lean` (calc_kT with a state, calc_fint).
-/
import CompmechVerif.Model.PanelGlue
import CompmechVerif.Model.SkewLemmas
import CompmechVerif.Spec.AssemblyJacobian
import Mathlib.Tactic.Ring
import Mathlib.Tactic.Linarith
import Mathlib.Algebra.Order.Field.Rat

namespace Compmech.PanelGlue
open Compmech.Asm

variable {K : Type} [Field K] [LinearOrder K]

set_option linter.unusedSectionVars false

/-! ### vocabulary of the property statements (independent of the model's own helper functions) -/

/-- `None` read as `0.` -/
def zeroIfNone : Option K → K
  | none => 0
  | some x => x

/-- both bounds of a strip are numbers (`0.0` IS a number) -/
def Panel.onStrip (P : Panel K) : Prop := ∃ y1 y2, P.y1 = some y1 ∧ P.y2 = some y2

/-- the bounds a kernel is handed: `y1, y2` on a strip, nothing on the full width -/
def boundsSpec (P : Panel K) : List (Arg K) :=
  match P.y1, P.y2 with
  | some y1, some y2 => [.q y1, .q y2]
  | _, _ => []

/-- `size, row0, col0` as the kernels must get them: what the caller passed, else `dofs·m·n`, `0`, `0` -/
def placeSpec (k : ModelKind) (P : Panel K) (A : Args K) : List (Arg K) :=
  [.nat (match A.size with | some s => s | none => k.dofs * P.m * P.n),
   .nat (match A.row0 with | some r => r | none => 0),
   .nat (match A.col0 with | some c => c | none => 0)]

/-- at least one component of the constant pre-load is a non-zero number -/
def Panel.nonzeroPreload (P : Panel K) : Prop :=
  (∃ x, P.NxxCte = some x ∧ x ≠ 0) ∨ (∃ x, P.NyyCte = some x ∧ x ≠ 0) ∨ (∃ x, P.NxyCte = some x ∧ x ≠ 0)

/-- the laminate table a state-based kernel is handed: the caller's `Fnxny` iff one was passed, else the panel's own `self.F` -/
def fSpec (A : Args K) : Arg K := if A.fnxny = true then .fGiven else .fOwn

/-- numbers of integration points a state-based kernel is handed: the arguments `nx, ny`, else the attributes `self.nx, self.ny` -/
def quadSpec (P : Panel K) (A : Args K) : List (Arg K) :=
  [.nat (match A.nx with | some n => n | none => P.nx), .nat (match A.ny with | some n => n | none => P.ny)]

/-- `col0` as passed, else `0` -/
def col0Spec (A : Args K) : Nat := match A.col0 with | some c => c | none => 0

/-- `row0` as passed, else `0` -/
def row0Spec (A : Args K) : Nat := match A.row0 with | some r => r | none => 0

/-- the attributes of the DEFINITION (as opposed to the derived ones `model, r, alpharad, size, lam, Mach, …`) agree -/
structure SameDef (Q P : Panel K) : Prop where
  a : Q.a = P.a
  b : Q.b = P.b
  alphadeg : Q.alphadeg = P.alphadeg
  y1 : Q.y1 = P.y1
  y2 : Q.y2 = P.y2
  offset : Q.offset = P.offset
  mu : Q.mu = P.mu
  Nxx : Q.Nxx = P.Nxx
  Nyy : Q.Nyy = P.Nyy
  Nxy : Q.Nxy = P.Nxy
  NxxCte : Q.NxxCte = P.NxxCte
  NyyCte : Q.NyyCte = P.NyyCte
  NxyCte : Q.NxyCte = P.NxyCte
  flow : Q.flow = P.flow
  m : Q.m = P.m
  n : Q.n = P.n
  nx : Q.nx = P.nx
  ny : Q.ny = P.ny

theorem SameDef.refl (P : Panel K) : SameDef P P := by constructor <;> rfl

theorem SameDef.trans {P Q R : Panel K} (h1 : SameDef R Q) (h2 : SameDef Q P) : SameDef R P := by
  constructor
  · exact h1.a.trans h2.a
  · exact h1.b.trans h2.b
  · exact h1.alphadeg.trans h2.alphadeg
  · exact h1.y1.trans h2.y1
  · exact h1.y2.trans h2.y2
  · exact h1.offset.trans h2.offset
  · exact h1.mu.trans h2.mu
  · exact h1.Nxx.trans h2.Nxx
  · exact h1.Nyy.trans h2.Nyy
  · exact h1.Nxy.trans h2.Nxy
  · exact h1.NxxCte.trans h2.NxxCte
  · exact h1.NyyCte.trans h2.NyyCte
  · exact h1.NxyCte.trans h2.NxyCte
  · exact h1.flow.trans h2.flow
  · exact h1.m.trans h2.m
  · exact h1.n.trans h2.n
  · exact h1.nx.trans h2.nx
  · exact h1.ny.trans h2.ny

/-! ### the steps of the glue keep the definition -/

theorem rebuild_sameDef (P : Panel K) : SameDef (rebuild P).1 P := by
  unfold rebuild
  cases hm : P.model <;> simp only [] <;> (try split) <;> (try split) <;> (try split) <;> (try split) <;>
    constructor <;> rfl


theorem rebuild_r (P : Panel K) : (rebuild P).1.r = P.r := by
  unfold rebuild
  cases hm : P.model <;> simp only [] <;> (try split) <;> (try split) <;> (try split) <;> (try split) <;> rfl

theorem rebuild_ok_kind (P : Panel K) (h : (rebuild P).2 = none) : ∃ k, (rebuild P).1.model = .kind k := by
  unfold rebuild at h ⊢
  cases hm : P.model <;> simp only [hm] at h ⊢
  · cases ha : autoModel P.r P.alphadeg <;> simp only [ha] at h ⊢ <;> (try (simp at h)) <;>
      (repeat' split) <;> first | exact ⟨_, rfl⟩ | simp_all
  · simp at h
  · (repeat' split) <;> first | exact ⟨_, rfl⟩ | simp_all

/-- the size the kernels are handed: what the caller passed, else `dofs·m·n` -/
def sizeSpec (k : ModelKind) (P : Panel K) (A : Args K) : Nat :=
  match A.size with
  | some s => s
  | none => k.dofs * P.m * P.n

theorem resolveSize_sameDef (k : ModelKind) (P : Panel K) (s : Option Nat) : SameDef (resolveSize k P s).1 P := by
  unfold resolveSize; cases s <;> constructor <;> rfl

theorem resolveSize_model (k : ModelKind) (P : Panel K) (s : Option Nat) : (resolveSize k P s).1.model = P.model := by
  unfold resolveSize; cases s <;> rfl

theorem resolveSize_r (k : ModelKind) (P : Panel K) (s : Option Nat) : (resolveSize k P s).1.r = P.r := by
  unfold resolveSize; cases s <;> rfl

theorem resolveSize_snd (k : ModelKind) (P P0 : Panel K) (A : Args K) (h : SameDef P P0) :
    (resolveSize k P A.size).2 = sizeSpec k P0 A := by
  unfold resolveSize sizeSpec getSize; cases A.size <;> simp [h.m, h.n]

theorem refreshGeom_sameDef (P : Panel K) : SameDef (refreshGeom P) P := by
  unfold refreshGeom; constructor <;> rfl

theorem placement_eq (k : ModelKind) (P : Panel K) (A : Args K) :
    placement A (sizeSpec k P A) = placeSpec k P A := by
  unfold placement placeSpec sizeSpec
  cases A.size <;> cases A.row0 <;> cases A.col0 <;> rfl

theorem lamRebuilt_sameDef (P : Panel K) : SameDef (lamRebuilt P) P := by
  unfold lamRebuilt; constructor <;> rfl

/-! ### `calc_k0` -/

/-- what a successful `calc_k0` is made of -/
theorem calcK0_ok {P : Panel K} {A : Args K} {R : Result K} (h : (calcK0 P A).res = .ok R) :
    ∃ k P3 c0, SameDef P3 P ∧ (calcK0 P A).post = P3 ∧ P3.model = .kind k ∧
      P3.r = some (P.r.getD 0) ∧ P3.alpharadFrom = some (P.alphadeg.getD 0) ∧
      k0Const k P3 A (sizeSpec k P A) = .ok c0 ∧
      R = { calls := c0 :: k0Prestress P3 A (sizeSpec k P A),
            comb := finWrap A.finalize (sumCalls ((c0 :: k0Prestress P3 A (sizeSpec k P A)).length - 1)),
            store := .k0, lamOffset := some P.offset } := by
  unfold calcK0 at h ⊢
  rcases hreb : rebuild P with ⟨P1, _ | e⟩
  · have hsd1 : SameDef P1 P := by simpa [hreb] using rebuild_sameDef P
    obtain ⟨k, hk⟩ : ∃ k, P1.model = .kind k := by simpa [hreb] using rebuild_ok_kind P (by simp [hreb])
    simp only [hreb, hk, ModelAttr.kind?] at h ⊢
    have hsize := resolveSize_snd k P1 P A hsd1
    have hsd2 := (resolveSize_sameDef k P1 A.size).trans hsd1
    have hm2 := resolveSize_model k P1 A.size
    have hr2 := resolveSize_r k P1 A.size
    have hr1 : P1.r = P.r := by simpa [hreb] using rebuild_r P
    rcases hrs : resolveSize k P1 A.size with ⟨P2, size⟩
    rw [hrs] at hsize hsd2 hm2 hr2
    simp only at hsize hsd2 hm2 hr2
    subst hsize
    simp only [hrs] at h ⊢
    cases hcc : checkC A.c (sizeSpec k P A) with
    | some e => simp [hcc] at h
    | none =>
      simp only [hcc] at h ⊢
      have hsd3 : SameDef (lamRebuilt (refreshGeom P2)) P :=
        ((lamRebuilt_sameDef _).trans (refreshGeom_sameDef P2)).trans hsd2
      cases hk0 : k0Const k (lamRebuilt (refreshGeom P2)) A (sizeSpec k P A) with
      | error e => simp [hk0] at h
      | ok c0 =>
        simp only [hk0] at h ⊢
        refine ⟨k, _, c0, hsd3, rfl, ?_, ?_, ?_, hk0, ?_⟩
        · show P2.model = _
          rw [hm2]; exact hk
        · show some (P2.r.getD 0) = _
          rw [hr2, hr1]
        · show some (P2.alphadeg.getD 0) = _
          rw [hsd2.alphadeg]
        · injection h with h
          rw [← h, hsd3.offset]
  · simp [hreb] at h


theorem onStrip_iff (P : Panel K) : P.onStrip ↔ (strip? P).isSome = true := by
  unfold Panel.onStrip strip?
  cases P.y1 <;> cases P.y2 <;> simp

theorem preloaded_iff (P : Panel K) : preloaded P = true ↔ P.nonzeroPreload := by
  unfold preloaded Panel.nonzeroPreload
  cases P.NxxCte <;> cases P.NyyCte <;> cases P.NxyCte <;> simp [or_assoc]

theorem getD_eq_zeroIfNone (o : Option K) : o.getD 0 = zeroIfNone o := by cases o <;> rfl

/-- analytic route: the constitutive kernel is chosen by the strip test alone and gets the bounds + the placement -/
theorem k0Const_analytic (k : ModelKind) (P : Panel K) (A : Args K) (size : Nat) (hc : A.c = none) (hF : A.fnxny = false) :
    k0Const k P A size =
      .ok (mkCall P false (match P.y1, P.y2 with | some _, some _ => .fk0y1y2 | _, _ => .fk0)
        (boundsSpec P ++ .panel :: placement A size)) := by
  unfold k0Const strip? boundsSpec
  cases P.y1 <;> cases P.y2 <;> simp [hc, hF]

theorem k0Prestress_spec (P : Panel K) (A : Args K) (size : Nat) :
    k0Prestress P A size =
      if preloaded P = true then
        [mkCall P false (match P.y1, P.y2 with | some _, some _ => .fkG0y1y2 | _, _ => .fkG0)
          (boundsSpec P ++ [.q (zeroIfNone P.NxxCte), .q (zeroIfNone P.NyyCte), .q (zeroIfNone P.NxyCte), .panel] ++
            placement A size)]
      else [] := by
  unfold k0Prestress strip? boundsSpec
  simp only [getD_eq_zeroIfNone]
  cases P.y1 <;> cases P.y2 <;> simp

/-! ### combination of kernel results -/

theorem skewComplete_eq (l : Coo K) : skewComplete l = makeSkewSymmetric l := rfl

/-- `finalize_symmetric_matrix` of a sum is the sum of the finalized parts (as matrices) -/
theorem toFun_finalize_append (a b : Coo K) (i j : Nat) :
    toFun (finalize (a ++ b)) i j = toFun (finalize a) i j + toFun (finalize b) i j := by
  unfold finalize
  simp only [toFun_makeSymmetric, toFun_append]
  split <;> rfl


/-! ### `calc_kG0`, `calc_kM` -/

theorem rebuild_model_of_kind (P : Panel K) (k : ModelKind) (h : P.model = .kind k) : (rebuild P).1.model = .kind k := by
  unfold rebuild
  simp only [h]
  (repeat' split) <;> first | rfl | simp_all

/-- analytic route of `calc_kG0` -/
theorem calcKG0_ok {P : Panel K} {A : Args K} {R : Result K} (hc : A.c = none) (h : (calcKG0 P A).res = .ok R) :
    ∃ k P3, SameDef P3 P ∧ (calcKG0 P A).post = P3 ∧ P3.model = .kind k ∧
      P3.r = some (P.r.getD 0) ∧ P3.alpharadFrom = some (P.alphadeg.getD 0) ∧
      R = { calls := [mkCall P3 false (match P.y1, P.y2 with | some _, some _ => .fkG0y1y2 | _, _ => .fkG0)
              (boundsSpec P ++ [.q (zeroIfNone P.Nxx), .q (zeroIfNone P.Nyy), .q (zeroIfNone P.Nxy), .panel] ++
                placement A (sizeSpec k P A))],
            comb := finWrap A.finalize (.call 0), store := .kG0 } := by
  unfold calcKG0 at h ⊢
  rcases hreb : rebuild P with ⟨P1, _ | e⟩
  · have hsd1 : SameDef P1 P := by simpa [hreb] using rebuild_sameDef P
    obtain ⟨k, hk⟩ : ∃ k, P1.model = .kind k := by simpa [hreb] using rebuild_ok_kind P (by simp [hreb])
    simp only [hreb, hk, ModelAttr.kind?] at h ⊢
    have hsize := resolveSize_snd k P1 P A hsd1
    have hsd2 := (resolveSize_sameDef k P1 A.size).trans hsd1
    have hm2 := resolveSize_model k P1 A.size
    have hr2 := resolveSize_r k P1 A.size
    have hr1 : P1.r = P.r := by simpa [hreb] using rebuild_r P
    rcases hrs : resolveSize k P1 A.size with ⟨P2, size⟩
    rw [hrs] at hsize hsd2 hm2 hr2
    simp only at hsize hsd2 hm2 hr2
    subst hsize
    simp only [hrs, hc] at h ⊢
    have hsd3 : SameDef (refreshGeom P2) P := (refreshGeom_sameDef P2).trans hsd2
    refine ⟨k, _, hsd3, rfl, ?_, ?_, ?_, ?_⟩
    · show P2.model = _
      rw [hm2]; exact hk
    · show some (P2.r.getD 0) = _
      rw [hr2, hr1]
    · show some (P2.alphadeg.getD 0) = _
      rw [hsd2.alphadeg]
    · injection h with h
      rw [← h]
      have hy1 : (refreshGeom P2).y1 = P.y1 := hsd3.y1
      have hy2 : (refreshGeom P2).y2 = P.y2 := hsd3.y2
      unfold strip? loadArgs boundsSpec
      simp only [hy1, hy2, hsd3.Nxx, hsd3.Nyy, hsd3.Nxy, getD_eq_zeroIfNone]
      cases P.y1 <;> cases P.y2 <;> simp
  · simp [hreb] at h

theorem calcKM_ok {P : Panel K} {A : Args K} {R : Result K} (h : (calcKM P A).res = .ok R) :
    ∃ k P2, SameDef P2 P ∧ (calcKM P A).post = P2 ∧ P.model = .kind k ∧ P.mu ≠ none ∧
      P2.r = some (P.r.getD 0) ∧ P2.alpharadFrom = some (P.alphadeg.getD 0) ∧
      R = { calls := [mkCall P2 false (match P.y1, P.y2 with | some _, some _ => .fkMy1y2 | _, _ => .fkM)
              (boundsSpec P ++ [.q (-P.offset), .panel] ++ placement A (sizeSpec k P A))],
            comb := finWrap A.finalize (.call 0), store := .kM } := by
  unfold calcKM at h ⊢
  cases hm : P.model with
  | unset => simp [hm, ModelAttr.kind?] at h
  | invalid => simp [hm, ModelAttr.kind?] at h
  | kind k =>
    simp only [hm, ModelAttr.kind?] at h ⊢
    have hsd1 := refreshGeom_sameDef P
    have hsize := resolveSize_snd k (refreshGeom P) P A hsd1
    have hsd2 := (resolveSize_sameDef k (refreshGeom P) A.size).trans hsd1
    have hr2 := resolveSize_r k (refreshGeom P) A.size
    have hal2 : (resolveSize k (refreshGeom P) A.size).1.alpharadFrom = (refreshGeom P).alpharadFrom := by
      unfold resolveSize; cases A.size <;> rfl
    rcases hrs : resolveSize k (refreshGeom P) A.size with ⟨P2, size⟩
    rw [hrs] at hsize hsd2 hr2 hal2
    simp only at hsize hsd2 hr2 hal2
    subst hsize
    simp only [hrs] at h ⊢
    cases hmu : P2.mu with
    | none => simp [hmu] at h
    | some mu =>
      simp only [hmu] at h ⊢
      refine ⟨k, P2, hsd2, rfl, rfl, ?_, ?_, ?_, ?_⟩
      · rw [← hsd2.mu, hmu]; simp
      · rw [hr2]; rfl
      · rw [hal2]; rfl
      · injection h with h
        rw [← h]
        unfold strip? boundsSpec
        simp only [hsd2.y1, hsd2.y2, hsd2.offset]
        cases P.y1 <;> cases P.y2 <;> simp


/-! ### placement: the three integers that follow the panel object in every kernel call -/

def afterPanel : List (Arg K) → List (Arg K)
  | [] => []
  | .panel :: t => t
  | _ :: t => afterPanel t

/-- `size, row0, col0` as a kernel call carries them -/
def KCall.placement (g : KCall K) : List (Arg K) := (afterPanel g.args).take 3

theorem k0Const_placement (k : ModelKind) (P : Panel K) (A : Args K) (size : Nat) (c0 : KCall K)
    (h : k0Const k P A size = .ok c0) : c0.placement = placement A size := by
  unfold k0Const at h
  rcases hs : strip? P with _ | ⟨y1, y2⟩ <;> cases hcc : A.c <;> cases hf : A.fnxny <;> cases hn : k.hasNum <;>
    cases hsz : P.sizeAttr <;> simp [hs, hcc, hf, hn, hsz] at h <;>
    (subst h; simp [KCall.placement, mkCall, afterPanel, placement])


/-! ### strip test, `calc_kA` -/

theorem name_strip_iff (P P3 : Panel K) (hsd : SameDef P3 P) (a b : KName) (hab : a ≠ b) :
    ((match P3.y1, P3.y2 with | some _, some _ => a | _, _ => b) = a ↔ P.onStrip) ∧
    ((match P3.y1, P3.y2 with | some _, some _ => a | _, _ => b) = b ↔ ¬ P.onStrip) := by
  unfold Panel.onStrip
  rw [hsd.y1, hsd.y2]
  cases P.y1 <;> cases P.y2 <;> simp [hab, hab.symm]


/-- name and arguments of the recorded calls -/
def sig (R : Result K) : List (KName × List (Arg K)) := R.calls.map fun g => (g.name, g.args)

theorem kaDispatch_ok {P : Panel K} {A : Args K} {size : Nat} {cf : Piston.Coefs K} {R : Result K}
    (h : kaDispatch P A size cf = .ok R) :
    P.flow ≠ .other ∧
      (∀ g ∈ R.calls, g.num = false ∧ g.r = P.r ∧ g.alpharadFrom = P.alpharadFrom ∧ g.placement = placement A size) ∧
      (P.flow = .y → sig R = [(.fkAy, [.q cf.beta, .panel] ++ placement A size)] ∧
        R.comb = if A.finalize = true then .skew (.call 0) else .call 0) ∧
      (P.flow = .x →
        (A.finalize = true ∧ cf.gamma ≠ 0 →
          sig R = [(.fkAx, [.q cf.beta, .q 0, .panel] ++ placement A size), (.fkAx, [.q 0, .q cf.gamma, .panel] ++ placement A size)] ∧
          R.comb = .add (.skew (.call 0)) (.fin (.call 1))) ∧
        (¬ (A.finalize = true ∧ cf.gamma ≠ 0) →
          sig R = [(.fkAx, [.q cf.beta, .q cf.gamma, .panel] ++ placement A size)] ∧
          R.comb = if A.finalize = true then .skew (.call 0) else .call 0)) := by
  unfold kaDispatch at h
  cases hf : P.flow with
  | other => simp [hf] at h
  | y =>
    simp only [hf] at h
    injection h with h
    subst h
    simp [sig, mkCall, KCall.placement, afterPanel, placement]
  | x =>
    simp only [hf] at h
    by_cases hg : A.finalize = true ∧ cf.gamma ≠ 0
    · have : (A.finalize && decide (cf.gamma ≠ 0)) = true := by simp [hg.1, hg.2]
      rw [if_pos this] at h
      injection h with h
      subst h
      simp [sig, mkCall, hg, KCall.placement, afterPanel, placement]
    · have : ¬ (A.finalize && decide (cf.gamma ≠ 0)) = true := by simpa using hg
      rw [if_neg this] at h
      injection h with h
      subst h
      simp [sig, mkCall, hg, KCall.placement, afterPanel, placement]

theorem calcKA_ok {P : Panel K} {A : Args K} {q : K} {R : Result K} (h : (calcKA P A q).res = .ok R) :
    ∃ k cf, P.model = .kind k ∧ k.conical = false ∧
      Piston.coefs P.beta P.gamma P.aeromu P.mach P.rhoAir P.V P.speedSound (zeroIfNone P.r) q = .ok cf ∧
      P.flow ≠ .other ∧
      (∀ g ∈ R.calls, g.num = false ∧ g.r = some (zeroIfNone P.r) ∧ g.alpharadFrom = P.alpharadFrom ∧
        g.placement = placeSpec k P A) ∧
      (P.flow = .y → sig R = [(.fkAy, [.q cf.beta, .panel] ++ placeSpec k P A)] ∧
        R.comb = if A.finalize = true then .skew (.call 0) else .call 0) ∧
      (P.flow = .x →
        (A.finalize = true ∧ cf.gamma ≠ 0 →
          sig R = [(.fkAx, [.q cf.beta, .q 0, .panel] ++ placeSpec k P A), (.fkAx, [.q 0, .q cf.gamma, .panel] ++ placeSpec k P A)] ∧
          R.comb = .add (.skew (.call 0)) (.fin (.call 1))) ∧
        (¬ (A.finalize = true ∧ cf.gamma ≠ 0) →
          sig R = [(.fkAx, [.q cf.beta, .q cf.gamma, .panel] ++ placeSpec k P A)] ∧
          R.comb = if A.finalize = true then .skew (.call 0) else .call 0)) := by
  unfold calcKA at h
  cases hm : P.model with
  | unset => simp [hm] at h
  | invalid => simp [hm] at h
  | kind k =>
    simp only [hm] at h
    cases hcon : k.conical with
    | true => simp [hcon] at h
    | false =>
      simp only [hcon] at h
      have hsize := resolveSize_snd k P P A (SameDef.refl P)
      have hsd := resolveSize_sameDef k P A.size
      have hr := resolveSize_r k P A.size
      have haero : (resolveSize k P A.size).1.beta = P.beta ∧ (resolveSize k P A.size).1.gamma = P.gamma ∧
          (resolveSize k P A.size).1.aeromu = P.aeromu ∧ (resolveSize k P A.size).1.mach = P.mach ∧
          (resolveSize k P A.size).1.rhoAir = P.rhoAir ∧ (resolveSize k P A.size).1.V = P.V ∧
          (resolveSize k P A.size).1.speedSound = P.speedSound ∧ (resolveSize k P A.size).1.alpharadFrom = P.alpharadFrom := by
        unfold resolveSize; cases A.size <;> simp
      rcases hrs : resolveSize k P A.size with ⟨P1, size⟩
      rw [hrs] at hsize hsd hr haero
      simp only at hsize hsd hr haero
      obtain ⟨h1, h2, h3, h4, h5, h6, h7, h8⟩ := haero
      subst hsize
      simp only [hrs, Bool.false_eq_true, if_false] at h
      have e : ((defaultR P1).r.getD 0) = zeroIfNone P.r := by
        show (some (P1.r.getD 0)).getD 0 = _
        rw [hr, Option.getD_some, getD_eq_zeroIfNone]
      have eb : (defaultR P1).beta = P.beta := h1
      have eg : (defaultR P1).gamma = P.gamma := h2
      have ea : (defaultR P1).aeromu = P.aeromu := h3
      have em : (defaultR P1).mach = P.mach := h4
      have er : (defaultR P1).rhoAir = P.rhoAir := h5
      have ev : (defaultR P1).V = P.V := h6
      have es : (defaultR P1).speedSound = P.speedSound := h7
      rw [e, eb, eg, ea, em, er, ev, es] at h
      cases hcf : Piston.coefs P.beta P.gamma P.aeromu P.mach P.rhoAir P.V P.speedSound (zeroIfNone P.r) q with
      | error ce => cases ce <;> simp [hcf] at h
      | ok cf =>
        simp only [hcf] at h
        obtain ⟨hfl, hcalls, hy, hx⟩ := kaDispatch_ok h
        have hflow : (machPatched (defaultR P1)).flow = P.flow := by
          unfold machPatched; rw [← hsd.flow]
          (repeat' split) <;> rfl
        have hrr : (machPatched (defaultR P1)).r = some (zeroIfNone P.r) := by
          unfold machPatched
          have : (defaultR P1).r = some (zeroIfNone P.r) := by
            show some (P1.r.getD 0) = _; rw [hr, getD_eq_zeroIfNone]
          (repeat' split) <;> exact this
        have hal : (machPatched (defaultR P1)).alpharadFrom = P.alpharadFrom := by
          unfold machPatched; rw [← h8]
          (repeat' split) <;> rfl
        rw [hflow] at hfl hy hx
        rw [placement_eq] at hy hx
        refine ⟨k, cf, rfl, hcon, rfl, hfl, ?_, hy, hx⟩
        intro g hg
        obtain ⟨a, b, c, d⟩ := hcalls g hg
        exact ⟨a, b.trans hrr, c.trans hal, by rw [d, placement_eq]⟩


/-! ### placement in the remaining routes -/

theorem k0Prestress_placement (P : Panel K) (A : Args K) (size : Nat) :
    ∀ g ∈ k0Prestress P A size, g.placement = placement A size := by
  intro g hg
  unfold k0Prestress at hg
  cases hp : preloaded P <;> rcases hs : strip? P with _ | ⟨y1, y2⟩ <;> simp [hp, hs] at hg <;>
    (subst hg; simp [KCall.placement, mkCall, afterPanel, placement])

theorem calcKG0_placement {P : Panel K} {A : Args K} {R : Result K} (h : (calcKG0 P A).res = .ok R) :
    ∃ k, (calcKG0 P A).post.model = .kind k ∧ ∀ g ∈ R.calls, g.placement = placeSpec k P A := by
  cases hc : A.c with
  | none =>
    obtain ⟨k, P3, _, hpost, hk, _, _, hR⟩ := calcKG0_ok hc h
    refine ⟨k, by rw [hpost]; exact hk, ?_⟩
    intro g hg
    rw [hR] at hg
    simp only [List.mem_singleton] at hg
    subst hg
    rw [← placement_eq]
    unfold boundsSpec
    cases P.y1 <;> cases P.y2 <;> simp [KCall.placement, mkCall, afterPanel, placement]
  | some cv =>
    unfold calcKG0 at h ⊢
    rcases hreb : rebuild P with ⟨P1, _ | e⟩
    · have hsd1 : SameDef P1 P := by simpa [hreb] using rebuild_sameDef P
      obtain ⟨k, hk⟩ : ∃ k, P1.model = .kind k := by simpa [hreb] using rebuild_ok_kind P (by simp [hreb])
      simp only [hreb, hk, ModelAttr.kind?] at h ⊢
      have hsize := resolveSize_snd k P1 P A hsd1
      have hm2 := resolveSize_model k P1 A.size
      rcases hrs : resolveSize k P1 A.size with ⟨P2, size⟩
      rw [hrs] at hsize hm2
      simp only at hsize hm2
      subst hsize
      simp only [hrs, hc] at h ⊢
      have hc' : checkC (some cv) (sizeSpec k P A) = checkC A.c (sizeSpec k P A) := by rw [hc]
      cases hcc : checkC (some cv) (sizeSpec k P A) with
      | some e => simp [hcc] at h
      | none =>
        simp only [hcc] at h ⊢
        cases hn : k.hasNum with
        | false => simp [hn] at h
        | true =>
          simp only [hn, Bool.not_true, Bool.false_eq_true, if_false] at h ⊢
          by_cases hy : ((refreshGeom P2).y1.isSome || (refreshGeom P2).y2.isSome) = true
          · simp [hy] at h
          · simp only [hy, if_false] at h ⊢
            by_cases hl : (!A.fnxny && !(refreshGeom P2).lamSet) = true
            · simp [hl] at h
            · simp only [hl, if_false] at h ⊢
              refine ⟨k, by show P2.model = _; rw [hm2]; exact hk, ?_⟩
              injection h with h
              subst h
              intro g hg
              simp only [List.mem_singleton] at hg
              subst hg
              rw [← placement_eq]
              cases A.fnxny <;> simp [KCall.placement, mkCall, afterPanel, placement]
    · simp [hreb] at h

/-! ### the matrix `calc_k0` returns, in terms of what the kernels returned -/

/-- the combination: with `finalize`, the matrix `calc_k0` returns is, entry by entry, the finalized result of the constitutive
kernel plus — exactly when a pre-load component is a non-zero number — the finalized result of the initial-stress kernel -/
theorem calc_k0_eval (P : Panel K) (A : Args K) (R : Result K) (kern : KCall K → Coo K)
    (hfin : A.finalize = true) (h : (calcK0 P A).res = .ok R) (r c : Nat) :
    ∃ c0 pre, R.calls = c0 :: pre ∧
      toFun (R.eval kern) r c = toFun (finalize (kern c0)) r c + (pre.map fun g => toFun (finalize (kern g)) r c).sum := by
  obtain ⟨k, P3, c0, _, _, _, _, _, _, hR⟩ := calcK0_ok h
  refine ⟨c0, k0Prestress P3 A (sizeSpec k P A), by rw [hR], ?_⟩
  rw [hR]
  unfold Result.eval
  simp only [hfin, finWrap, if_true]
  rw [k0Prestress_spec]
  by_cases hp : preloaded P3 = true
  · simp only [hp, if_true, List.length_cons, List.length_nil, Nat.add_one_sub_one, sumCalls, Comb.eval]
    rw [toFun_finalize_append]
    simp
  · simp [hp, sumCalls, Comb.eval]

/-! ### `calc_fint` (Props/C08.lean) -/

set_option linter.unusedSimpArgs false
set_option linter.unnecessarySeqFocus false

/-- the force-kernel arguments of `calc_fint` -/
def fintArgs (P : Panel K) (A : Args K) (size : Nat) : List (Arg K) :=
  [.cGiven, if A.fnxny then .fGiven else .fOwn, .panel, .nat size, .nat (A.col0.getD 0), .nat (A.nx.getD P.nx), .nat (A.ny.getD P.ny)]

theorem k0Prestress_isEmpty (P : Panel K) (A : Args K) (size : Nat) :
    (k0Prestress P A size).isEmpty = !preloaded P := by
  rw [k0Prestress_spec]
  cases preloaded P <;> simp

theorem calcFint_ok {P : Panel K} {A : Args K} {R : VResult K} (h : (calcFint P A).res = .ok R) :
    ∃ k cv P2, P.model = .kind k ∧ k.hasNum = true ∧ A.c = some cv ∧ cv.ndim ≤ 1 ∧ (A.fnxny = true ∨ P.lamSet = true) ∧
      SameDef P2 P ∧ (calcFint P A).post = P2 ∧ P2.r = some (P.r.getD 0) ∧ P2.alpharadFrom = some (P.alphadeg.getD 0) ∧
      (preloaded P2 = true → cv.len = sizeSpec k P A) ∧
      R = { calls := mkCall P2 true .calc_fint (fintArgs P A (sizeSpec k P A)) ::
              k0Prestress P2 { A with row0 := A.col0 } (sizeSpec k P A),
            prestress := preloaded P2 } := by
  unfold calcFint at h ⊢
  cases hc : A.c with
  | none => simp [hc] at h
  | some cv =>
    cases hm : P.model with
    | unset => simp [hc, hm] at h
    | invalid => simp [hc, hm] at h
    | kind k =>
      simp only [hc, hm] at h ⊢
      cases hn : k.hasNum with
      | false => simp [hn] at h
      | true =>
        simp only [hn, ModelKind.hasFint, Bool.not_true, Bool.false_eq_true, if_false] at h ⊢
        have hsize := resolveSize_snd k P P A (SameDef.refl P)
        have hsd1 := resolveSize_sameDef k P A.size
        have hr := resolveSize_r k P A.size
        have hlam : (resolveSize k P A.size).1.lamSet = P.lamSet := by unfold resolveSize; cases A.size <;> rfl
        rcases hrs : resolveSize k P A.size with ⟨P1, size⟩
        rw [hrs] at hsize hsd1 hr hlam
        simp only at hsize hsd1 hr hlam
        subst hsize
        simp only [hrs] at h ⊢
        have hsd2 : SameDef (refreshGeom P1) P := (refreshGeom_sameDef P1).trans hsd1
        by_cases hnd : 1 < cv.ndim
        · simp [hnd] at h
        · simp only [hnd, if_false] at h ⊢
          by_cases hF : (!A.fnxny && !(refreshGeom P1).lamSet) = true
          · simp [hF] at h
          · simp only [hF, if_false] at h ⊢
            have hF' : A.fnxny = true ∨ P.lamSet = true := by
              have : (refreshGeom P1).lamSet = P.lamSet := hlam
              rw [this] at hF
              cases hf : A.fnxny <;> cases hl : P.lamSet <;> simp_all
            rw [k0Prestress_isEmpty] at h ⊢
            have hnx : (refreshGeom P1).nx = P.nx := hsd2.nx
            have hny : (refreshGeom P1).ny = P.ny := hsd2.ny
            refine ⟨k, cv, refreshGeom P1, rfl, hn, rfl, by omega, hF', hsd2, ?_, ?_, ?_, ?_, ?_⟩
            · cases hp : preloaded (refreshGeom P1) <;> simp only [hp, Bool.not_true, Bool.not_false, Bool.false_eq_true, if_true, if_false] <;>
                (try split) <;> rfl
            · show some (P1.r.getD 0) = _; rw [hr]
            · show some (P1.alphadeg.getD 0) = _; rw [hsd1.alphadeg]
            · intro hp
              simp only [hp, Bool.not_true, Bool.false_eq_true, if_false] at h
              by_contra hlen
              simp [hlen] at h
            · cases hp : preloaded (refreshGeom P1) with
              | false =>
                simp only [hp, Bool.not_false, if_true] at h
                injection h with h
                rw [← h, k0Prestress_spec]
                simp [hp, fintArgs, hnx, hny]
              | true =>
                simp only [hp, Bool.not_true, Bool.false_eq_true, if_false] at h
                by_cases hlen : cv.len ≠ sizeSpec k P A
                · simp [hlen] at h
                · simp only [hlen, if_false] at h
                  injection h with h
                  rw [← h]
                  simp [fintArgs, hnx, hny]

/-! ### `calc_kT` (state-based route) -/

/-- the arguments of the two state-based matrix kernels -/
def numArgs (P : Panel K) (A : Args K) (size : Nat) : List (Arg K) :=
  [.cGiven, if A.fnxny then .fGiven else .fOwn, .panel] ++ placement A size ++
    [.nat (A.nx.getD P.nx), .nat (A.ny.getD P.ny), .kwNL (if A.nlgeom then 1 else 0)]

theorem k0Const_num {k : ModelKind} {P : Panel K} {A : Args K} {size : Nat} {cv : CArg} {c0 : KCall K}
    (hc : A.c = some cv) (h : k0Const k P A size = .ok c0) :
    strip? P = none ∧ k.hasNum = true ∧ c0 = mkCall P true .fkL_num (numArgs P A size) := by
  unfold k0Const at h
  rcases hs : strip? P with _ | ⟨y1, y2⟩
  · simp only [hs, hc, Option.isNone_some, Bool.false_and, Bool.false_eq_true, if_false] at h
    cases hn : k.hasNum with
    | false => simp [hn] at h
    | true =>
      simp only [hn, Bool.not_true, Bool.false_eq_true, if_false] at h
      injection h with h
      exact ⟨rfl, rfl, by rw [← h]; simp [numArgs]⟩
  · simp [hs, hc] at h

theorem sizeSpec_sameDef (k : ModelKind) {Q P : Panel K} (A : Args K) (h : SameDef Q P) : sizeSpec k Q A = sizeSpec k P A := by
  unfold sizeSpec; rw [h.m, h.n]

theorem strip?_none_iff (P : Panel K) : strip? P = none ↔ ¬ P.onStrip := by
  rw [onStrip_iff]; cases strip? P <;> simp

/-- numerical route of `calc_kG0` (a Ritz vector is given) -/
theorem calcKG0_num_ok {P : Panel K} {A : Args K} {R : Result K} {cv : CArg} (hc : A.c = some cv)
    (h : (calcKG0 P A).res = .ok R) :
    ∃ k P3, SameDef P3 P ∧ (calcKG0 P A).post = P3 ∧ P3.model = .kind k ∧ (rebuild P).1.model = .kind k ∧ k.hasNum = true ∧
      P3.r = some (P.r.getD 0) ∧ P3.alpharadFrom = some (P.alphadeg.getD 0) ∧ P.y1 = none ∧ P.y2 = none ∧
      checkC (some cv) (sizeSpec k P A) = none ∧
      R = { calls := [mkCall P3 true .fkG_num (numArgs P A (sizeSpec k P A))],
            comb := finWrap A.finalize (.call 0), store := .kG0 } := by
  unfold calcKG0 at h ⊢
  rcases hreb : rebuild P with ⟨P1, _ | e⟩
  · have hsd1 : SameDef P1 P := by simpa [hreb] using rebuild_sameDef P
    obtain ⟨k, hk⟩ : ∃ k, P1.model = .kind k := by simpa [hreb] using rebuild_ok_kind P (by simp [hreb])
    simp only [hreb, hk, ModelAttr.kind?] at h ⊢
    have hsize := resolveSize_snd k P1 P A hsd1
    have hsd2 := (resolveSize_sameDef k P1 A.size).trans hsd1
    have hm2 := resolveSize_model k P1 A.size
    have hr2 := resolveSize_r k P1 A.size
    have hr1 : P1.r = P.r := by simpa [hreb] using rebuild_r P
    rcases hrs : resolveSize k P1 A.size with ⟨P2, size⟩
    rw [hrs] at hsize hsd2 hm2 hr2
    simp only at hsize hsd2 hm2 hr2
    subst hsize
    simp only [hrs, hc] at h ⊢
    cases hcc : checkC (some cv) (sizeSpec k P A) with
    | some e => simp [hcc] at h
    | none =>
      simp only [hcc] at h ⊢
      cases hn : k.hasNum with
      | false => simp [hn] at h
      | true =>
        simp only [hn, Bool.not_true, Bool.false_eq_true, if_false] at h ⊢
        have hsd3 : SameDef (refreshGeom P2) P := (refreshGeom_sameDef P2).trans hsd2
        by_cases hy : ((refreshGeom P2).y1.isSome || (refreshGeom P2).y2.isSome) = true
        · simp [hy] at h
        · simp only [hy, if_false] at h ⊢
          by_cases hl : (!A.fnxny && !(refreshGeom P2).lamSet) = true
          · simp [hl] at h
          · simp only [hl, if_false] at h ⊢
            have hy1 : (refreshGeom P2).y1 = P.y1 := hsd3.y1
            have hy2 : (refreshGeom P2).y2 = P.y2 := hsd3.y2
            rw [hy1, hy2] at hy
            have hnx : (refreshGeom P2).nx = P.nx := hsd3.nx
            have hny : (refreshGeom P2).ny = P.ny := hsd3.ny
            refine ⟨k, refreshGeom P2, hsd3, rfl, ?_, rfl, hn, ?_, ?_, ?_, ?_, hcc, ?_⟩
            · show P2.model = _; rw [hm2]; exact hk
            · show some (P2.r.getD 0) = _; rw [hr2, hr1]
            · show some (P2.alphadeg.getD 0) = _; rw [hsd2.alphadeg]
            · cases h1 : P.y1 <;> simp_all
            · cases h2 : P.y2 <;> simp_all
            · injection h with h
              rw [← h]
              simp [numArgs, hnx, hny]
  · simp [hreb] at h

theorem placement_nl (A : Args K) (size : Nat) :
    placement { A with nlgeom := true, row0 := some (A.row0.getD 0), col0 := some (A.col0.getD 0) } size = placement A size := by
  simp [placement]

theorem shift_finWrap (fin : Bool) (c : Comb) (n : Nat) : (finWrap fin c).shift n = finWrap fin (c.shift n) := by
  cases fin <;> rfl

/-- what a successful `calc_kT(c=…)` is made of: `fkL_num`, the pre-stress kernel of `calc_k0` (if any), `fkG_num` -/
theorem calcKT_ok {P : Panel K} {A : Args K} {R : Result K} {cv : CArg} (hc : A.c = some cv)
    (h : (calcKT P A).res = .ok R) :
    ∃ k P3 P4, SameDef P3 P ∧ SameDef P4 P ∧ (calcKT P A).post = P4 ∧ P4.model = .kind k ∧ k.hasNum = true ∧
      P.y1 = none ∧ P.y2 = none ∧ checkC (some cv) (sizeSpec k P A) = none ∧
      P3.r = some (P.r.getD 0) ∧ P3.alpharadFrom = some (P.alphadeg.getD 0) ∧
      P4.r = some (P.r.getD 0) ∧ P4.alpharadFrom = some (P.alphadeg.getD 0) ∧
      R = { calls := mkCall P3 true .fkL_num (numArgs P { A with nlgeom := true } (sizeSpec k P A)) ::
              (k0Prestress P3 A (sizeSpec k P A) ++
                [mkCall P4 true .fkG_num (numArgs P { A with nlgeom := true } (sizeSpec k P A))]),
            comb := .add (finWrap A.finalize (sumCalls (k0Prestress P3 A (sizeSpec k P A)).length))
              (finWrap A.finalize (.call ((k0Prestress P3 A (sizeSpec k P A)).length + 1))),
            store := .kT, lamOffset := some P.offset } := by
  unfold calcKT at h ⊢
  set A' : Args K := { A with nlgeom := true, row0 := some (A.row0.getD 0), col0 := some (A.col0.getD 0) } with hA'
  have hc' : A'.c = some cv := hc
  rcases h1 : calcK0 P A' with ⟨Q1, _ | R1⟩
  · simp [h1] at h
  · have h1r : (calcK0 P A').res = .ok R1 := by rw [h1]
    obtain ⟨k, P3, c0, hsd3, hpost3, hk3, hr3, hal3, hc0, hR1⟩ := calcK0_ok h1r
    have hQ1 : Q1 = P3 := by rw [← hpost3, h1]
    subst hQ1
    obtain ⟨hs3, hn, hc0e⟩ := k0Const_num hc' hc0
    simp only [h1] at h ⊢
    rcases h2 : calcKG0 Q1 A' with ⟨Q2, _ | R2⟩
    · simp [h2] at h
    · have h2r : (calcKG0 Q1 A').res = .ok R2 := by rw [h2]
      obtain ⟨k', P4, hsd4, hpost4, hk4, hreb4, _, hr4, hal4, hy1, hy2, hcc, hR2⟩ := calcKG0_num_ok hc' h2r
      have hkk : k' = k := by
        have := rebuild_model_of_kind Q1 k hk3
        rw [this] at hreb4
        injection hreb4 with e
        exact e.symm
      subst hkk
      have hQ2 : Q2 = P4 := by rw [← hpost4, h2]
      subst hQ2
      simp only [h2] at h ⊢
      have hs : sizeSpec k' Q1 A' = sizeSpec k' P A := sizeSpec_sameDef k' A' hsd3
      have hs' : sizeSpec k' P A' = sizeSpec k' P A := rfl
      refine ⟨k', Q1, Q2, hsd3, hsd4.trans hsd3, rfl, hk4, hn, ?_, ?_, ?_, hr3, hal3, ?_, ?_, ?_⟩
      · rw [← hsd3.y1]; exact hy1
      · rw [← hsd3.y2]; exact hy2
      · rw [← hs]; exact hcc
      · rw [hr4, hr3]; rfl
      · rw [hal4, hsd3.alphadeg]
      · injection h with h
        rw [← h, hR1, hR2, hc0e, hs, hs']
        have e1 : k0Prestress Q1 A' (sizeSpec k' P A) = k0Prestress Q1 A (sizeSpec k' P A) := by
          unfold k0Prestress; rw [placement_nl]
        have e2 : numArgs Q1 A' (sizeSpec k' P A) = numArgs P { A with nlgeom := true } (sizeSpec k' P A) := by
          unfold numArgs; rw [placement_nl, hsd3.nx, hsd3.ny]; rfl
        rw [e1, e2]
        have e3 : A'.finalize = A.finalize := rfl
        simp [shift_finWrap, Comb.shift, e3]

theorem checkC_none {cv : CArg} {size : Nat} (h : checkC (some cv) size = none) :
    cv.isArray = true ∧ cv.ndim = 1 ∧ cv.len = size := by
  unfold checkC at h
  cases ha : cv.isArray <;> simp [ha] at h ⊢
  by_cases hn : cv.ndim = 1 <;> by_cases hl : cv.len = size <;> simp_all

theorem hasNum_iff (k : ModelKind) : k.hasNum = true ↔ (k = .plate ∨ k = .cpanel) := by
  cases k <;> simp [ModelKind.hasNum]

theorem numArgs_spec (k : ModelKind) (P : Panel K) (A : Args K) :
    numArgs P { A with nlgeom := true } (sizeSpec k P A) =
      [.cGiven, fSpec A, .panel] ++ placeSpec k P A ++ quadSpec P A ++ [.kwNL 1] := by
  rw [← placement_eq]
  unfold numArgs fSpec quadSpec placement
  cases A.nx <;> cases A.ny <;> simp

theorem fintArgs_spec (k : ModelKind) (P : Panel K) (A : Args K) :
    fintArgs P A (sizeSpec k P A) =
      [.cGiven, fSpec A, .panel, .nat (sizeSpec k P A), .nat (col0Spec A)] ++ quadSpec P A := by
  unfold fintArgs fSpec quadSpec col0Spec
  cases A.nx <;> cases A.ny <;> cases A.col0 <;> simp

/-- the pre-stress call depends on the panel only through the pre-load, the strip bounds, `r` and `alpharad`, and on the arguments
only through the placement -/
theorem k0Prestress_congr {P Q : Panel K} {A B : Args K} (size : Nat) (hsd : SameDef Q P) (hr : Q.r = P.r)
    (hal : Q.alpharadFrom = P.alpharadFrom) (hpl : placement B size = placement A size) :
    k0Prestress Q B size = k0Prestress P A size := by
  unfold k0Prestress preloaded strip? mkCall
  rw [hsd.NxxCte, hsd.NyyCte, hsd.NxyCte, hsd.y1, hsd.y2, hr, hal, hpl]

theorem mulVecAt_unitVec (l : Coo K) (n a b : Nat) (hb : b < n) : mulVecAt l (unitVec n b) a = toFun l a b := by
  rw [mulVecAt_eq_sum l (unitVec n b) n (by rw [length_unitVec]) a]
  rw [Finset.sum_eq_single b]
  · rw [getD_unitVec]; simp [hb]
  · intro j _ hj; rw [getD_unitVec]; simp [hj]
  · intro h; exact absurd (Finset.mem_range.mpr hb) h

theorem getD_map_range {α : Type} (n i : Nat) (f : Nat → α) (d : α) (hi : i < n) : ((List.range n).map f).getD i d = f i := by
  rw [List.getD_eq_getElem _ _ (by simpa using hi)]
  simp

/-! ### a concrete panel for the non-vacuity examples of the property files

flat plate (model left to `_rebuild`), strip starting exactly at the edge `y1 = 0.0`, equal and opposite constant pre-load
(`Nxx_cte + Nyy_cte = 0`), loads with `Nyy = None`, offset laminate, user-supplied aerodynamic coefficients -/
def exPanel : Panel ℚ :=
  { model := .unset, a := 1, b := 2, r := none, alphadeg := none, alpharadFrom := none, y1 := some 0, y2 := some (1 / 2),
    offset := 1 / 10, mu := some 1, Nxx := some 3, Nyy := none, Nxy := some (-3), NxxCte := some 5, NyyCte := some (-5),
    NxyCte := none, flow := .x, beta := some 2, gamma := some 3, aeromu := none, mach := none, rhoAir := 0, V := 0,
    speedSound := 1, m := 2, n := 3, nx := 2, ny := 3, sizeAttr := none, forceOrtho := false, stackLen := 2,
    laminapropsSet := false, laminapropSet := true, plytsSet := false, plytSet := true, lamSet := false }

end Compmech.PanelGlue
