/-
Lemmas about `Model/ConnLoop.lean`: what the COO list of a coupling kernel denotes, where it lives, and that a kernel called with
`(row0, col0)` returns its stand-alone result shifted there.
-/
import CompmechVerif.Model.ConnLoop
import CompmechVerif.Model.PanelLoopLemmas

namespace Compmech.PanelLoop
open Compmech.Asm

variable {K : Type} [Field K]

theorem mem_rectBlock {num m1 m2 row0 col0 : Nat} {e : Fin num → Fin num → Nat → Nat → Nat → Nat → K} {i k j l : Nat}
    {x : Nat × Nat × K} (hx : x ∈ rectBlock num m1 m2 row0 col0 e i k j l) :
    ∃ ro co : Fin num, x.1 = row0 + num * (j * m1 + i) + ro.val ∧ x.2.1 = col0 + num * (l * m2 + k) + co.val := by
  unfold rectBlock at hx
  simp only [List.mem_flatMap, List.mem_map, List.mem_finRange, true_and] at hx
  obtain ⟨ro, co, rfl⟩ := hx
  exact ⟨ro, co, rfl, rfl⟩

theorem toFun_rectBlock (num m1 m2 row0 col0 : Nat) (e : Fin num → Fin num → Nat → Nat → Nat → Nat → K) (i k j l : Nat)
    (α β : Fin num) :
    toFun (rectBlock num m1 m2 row0 col0 e i k j l) (row0 + num * (j * m1 + i) + α.val) (col0 + num * (l * m2 + k) + β.val)
      = e α β i k j l := by
  unfold rectBlock
  rw [toFun_flatMap, sum_map_single _ (List.nodup_finRange num) α (List.mem_finRange α)]
  · rw [toFun_map_sum, sum_map_single _ (List.nodup_finRange num) β (List.mem_finRange β)]
    · simp [toFun_cons]
    · intro co _ hne
      have : ¬ (co.val = β.val) := fun hh => hne (Fin.ext hh)
      simp [toFun_cons, this]
  · intro ro _ hne
    apply toFun_eq_zero_of_forall
    intro x hx
    simp only [List.mem_map, List.mem_finRange, true_and] at hx
    obtain ⟨co, rfl⟩ := hx
    left
    intro hh
    exact hne (Fin.ext (by simpa using hh))

/-- WHAT A COUPLING KERNEL'S COO LIST DENOTES: at the position of `(α, i, j)` of panel 1 × `(β, k, l)` of panel 2 the accumulated value
is the entry expression of exactly those two degrees of freedom -/
theorem toFun_rectNest (num m1 n1 m2 n2 row0 col0 : Nat) (e : Fin num → Fin num → Nat → Nat → Nat → Nat → K)
    {i k j l : Nat} (hi : i < m1) (hk : k < m2) (hj : j < n1) (hl : l < n2) (α β : Fin num) :
    toFun (rectNest num m1 n1 m2 n2 row0 col0 e) (row0 + num * (j * m1 + i) + α.val) (col0 + num * (l * m2 + k) + β.val)
      = e α β i k j l := by
  unfold rectNest
  rw [toFun_flatMap, sum_map_single _ (List.nodup_range) i (List.mem_range.mpr hi)]
  · rw [toFun_flatMap, sum_map_single _ (List.nodup_range) k (List.mem_range.mpr hk)]
    · rw [toFun_flatMap, sum_map_single _ (List.nodup_range) j (List.mem_range.mpr hj)]
      · rw [toFun_flatMap, sum_map_single _ (List.nodup_range) l (List.mem_range.mpr hl)]
        · exact toFun_rectBlock num m1 m2 row0 col0 e i k j l α β
        · intro l' hl' hne
          apply toFun_eq_zero_of_forall
          intro x hx
          obtain ⟨ro, co, _, h2⟩ := mem_rectBlock hx
          right
          intro hh
          rw [h2] at hh
          exact hne (dof_unique co.isLt β.isLt hk hk (by omega)).2.2
      · intro j' hj' hne
        apply toFun_eq_zero_of_forall
        intro x hx
        simp only [List.mem_flatMap, List.mem_range] at hx
        obtain ⟨l', _, hx⟩ := hx
        obtain ⟨ro, co, h1, _⟩ := mem_rectBlock hx
        left
        intro hh
        rw [h1] at hh
        exact hne (dof_unique ro.isLt α.isLt hi hi (by omega)).2.2
    · intro k' hk' hne
      apply toFun_eq_zero_of_forall
      intro x hx
      simp only [List.mem_flatMap, List.mem_range] at hx
      obtain ⟨j', _, l', _, hx⟩ := hx
      obtain ⟨ro, co, _, h2⟩ := mem_rectBlock hx
      right
      intro hh
      rw [h2] at hh
      exact hne (dof_unique (j := l') (j' := l) co.isLt β.isLt (List.mem_range.mp hk') hk (by omega)).2.1
  · intro i' hi' hne
    apply toFun_eq_zero_of_forall
    intro x hx
    simp only [List.mem_flatMap, List.mem_range] at hx
    obtain ⟨k', _, j', _, l', _, hx⟩ := hx
    obtain ⟨ro, co, h1, _⟩ := mem_rectBlock hx
    left
    intro hh
    rw [h1] at hh
    exact hne (dof_unique (j := j') (j' := j) ro.isLt α.isLt (List.mem_range.mp hi') hi (by omega)).2.1

/-- the order in which the four loops are nested does not change what the COO list denotes -/
theorem toFun_rectNestYX (num m1 n1 m2 n2 row0 col0 : Nat) (e : Fin num → Fin num → Nat → Nat → Nat → Nat → K) (r c : Nat) :
    toFun (rectNestYX num m1 n1 m2 n2 row0 col0 e) r c = toFun (rectNest num m1 n1 m2 n2 row0 col0 e) r c := by
  unfold rectNestYX rectNest
  simp only [toFun_flatMap]
  have s1 : ∀ (g : Nat → Nat → Nat → Nat → K),
      ((List.range n1).map fun j => ((List.range n2).map fun l => ((List.range m1).map fun i =>
        ((List.range m2).map fun k => g i k j l).sum).sum).sum).sum =
      ((List.range m1).map fun i => ((List.range m2).map fun k => ((List.range n1).map fun j =>
        ((List.range n2).map fun l => g i k j l).sum).sum).sum).sum := by
    intro g
    calc _ = ((List.range n1).map fun j => ((List.range m1).map fun i => ((List.range n2).map fun l =>
              ((List.range m2).map fun k => g i k j l).sum).sum).sum).sum := by
            refine congrArg List.sum (List.map_congr_left fun j _ => ?_)
            exact Compmech.Panel.list_sum_comm _ _ _
      _ = ((List.range m1).map fun i => ((List.range n1).map fun j => ((List.range n2).map fun l =>
              ((List.range m2).map fun k => g i k j l).sum).sum).sum).sum := Compmech.Panel.list_sum_comm _ _ _
      _ = ((List.range m1).map fun i => ((List.range n1).map fun j => ((List.range m2).map fun k =>
              ((List.range n2).map fun l => g i k j l).sum).sum).sum).sum := by
            refine congrArg List.sum (List.map_congr_left fun i _ => ?_)
            refine congrArg List.sum (List.map_congr_left fun j _ => ?_)
            exact Compmech.Panel.list_sum_comm _ _ _
      _ = _ := by
            refine congrArg List.sum (List.map_congr_left fun i _ => ?_)
            exact Compmech.Panel.list_sum_comm _ _ _
  exact s1 fun i k j l => toFun (rectBlock num m1 m2 row0 col0 e i k j l) r c

/-! ### where the triplets live -/

theorem dofpos_lt {num m n ro i j : Nat} (hro : ro < num) (hi : i < m) (hj : j < n) :
    num * (j * m + i) + ro < num * m * n := by
  have h1 : j * m + i + 1 ≤ n * m := by
    have : (j + 1) * m ≤ n * m := Nat.mul_le_mul_right m hj
    rw [Nat.add_mul, Nat.one_mul] at this
    omega
  have h2 : num * (j * m + i + 1) ≤ num * (n * m) := Nat.mul_le_mul_left num h1
  rw [Nat.mul_add, Nat.mul_one] at h2
  have h3 : num * (n * m) = num * m * n := by rw [Nat.mul_comm n m, Nat.mul_assoc]
  omega

theorem rectNest_within (num m1 n1 m2 n2 : Nat) (e : Fin num → Fin num → Nat → Nat → Nat → Nat → K) :
    Within (num * m1 * n1) (num * m2 * n2) (rectNest num m1 n1 m2 n2 0 0 e) := by
  intro x hx
  unfold rectNest at hx
  simp only [List.mem_flatMap, List.mem_range] at hx
  obtain ⟨i, hi, k, hk, j, hj, l, hl, hx⟩ := hx
  obtain ⟨ro, co, h1, h2⟩ := mem_rectBlock hx
  rw [h1, h2, Nat.zero_add, Nat.zero_add]
  exact ⟨dofpos_lt ro.isLt hi hj, dofpos_lt co.isLt hk hl⟩

theorem loopNest_within (num m n : Nat) (e : Fin num → Fin num → Nat → Nat → Nat → Nat → K) :
    Within (num * m * n) (num * m * n) (loopNest num m n 0 0 e) := by
  intro x hx
  unfold loopNest at hx
  simp only [List.mem_flatMap, List.mem_range] at hx
  obtain ⟨i, hi, k, hk, j, hj, l, hl, hx⟩ := hx
  obtain ⟨ro, co, h1, h2⟩ := mem_block hx
  rw [h1, h2, Nat.zero_add, Nat.zero_add]
  exact ⟨dofpos_lt ro.isLt hi hj, dofpos_lt co.isLt hk hl⟩

/-- vanishing outside the box is a property of what the list denotes -/
theorem toFun_zero_outside_of_congr {nr nc : Nat} {a b : Coo K} (hb : Within nr nc b)
    (h : ∀ r c, toFun a r c = toFun b r c) (r c : Nat) (hrc : nr ≤ r ∨ nc ≤ c) : toFun a r c = 0 := by
  rw [h]; exact toFun_eq_zero_of_within hb r c hrc

/-! ### placement: a coupling kernel called with `(row0, col0)` returns its stand-alone result shifted there -/

theorem rectBlock_shift (num m1 m2 r0 c0 : Nat) (e : Fin num → Fin num → Nat → Nat → Nat → Nat → K) (i k j l : Nat) :
    rectBlock num m1 m2 r0 c0 e i k j l = shift r0 c0 (rectBlock num m1 m2 0 0 e i k j l) := by
  unfold rectBlock
  rw [shift_flatMap]
  refine List.flatMap_congr fun ro _ => ?_
  unfold shift
  rw [List.map_map]
  refine List.map_congr_left fun co _ => ?_
  simp only [Function.comp, Nat.zero_add, Nat.add_assoc]

theorem rectNest_shift (num m1 n1 m2 n2 r0 c0 : Nat) (e : Fin num → Fin num → Nat → Nat → Nat → Nat → K) :
    rectNest num m1 n1 m2 n2 r0 c0 e = shift r0 c0 (rectNest num m1 n1 m2 n2 0 0 e) := by
  unfold rectNest
  rw [shift_flatMap]
  refine List.flatMap_congr fun i _ => ?_
  rw [shift_flatMap]
  refine List.flatMap_congr fun k _ => ?_
  rw [shift_flatMap]
  refine List.flatMap_congr fun j _ => ?_
  rw [shift_flatMap]
  refine List.flatMap_congr fun l _ => ?_
  exact rectBlock_shift num m1 m2 r0 c0 e i k j l

theorem rectNestYX_shift (num m1 n1 m2 n2 r0 c0 : Nat) (e : Fin num → Fin num → Nat → Nat → Nat → Nat → K) :
    rectNestYX num m1 n1 m2 n2 r0 c0 e = shift r0 c0 (rectNestYX num m1 n1 m2 n2 0 0 e) := by
  unfold rectNestYX
  rw [shift_flatMap]
  refine List.flatMap_congr fun j _ => ?_
  rw [shift_flatMap]
  refine List.flatMap_congr fun l _ => ?_
  rw [shift_flatMap]
  refine List.flatMap_congr fun i _ => ?_
  rw [shift_flatMap]
  refine List.flatMap_congr fun k _ => ?_
  exact rectBlock_shift num m1 m2 r0 c0 e i k j l

theorem loopNestYX_shift (num m n r0 : Nat) (e : Fin num → Fin num → Nat → Nat → Nat → Nat → K) :
    loopNestYX num m n r0 r0 e = shift r0 r0 (loopNestYX num m n 0 0 e) := by
  unfold loopNestYX
  rw [shift_flatMap]
  refine List.flatMap_congr fun j _ => ?_
  rw [shift_flatMap]
  refine List.flatMap_congr fun l _ => ?_
  rw [shift_flatMap]
  refine List.flatMap_congr fun i _ => ?_
  rw [shift_flatMap]
  refine List.flatMap_congr fun k _ => ?_
  exact block_shift num m r0 e i k j l

theorem connNest12_shift (yx : Bool) (m1 n1 m2 n2 r0 c0 : Nat) (e : Fin 3 → Fin 3 → Nat → Nat → Nat → Nat → K) :
    connNest12 yx m1 n1 m2 n2 r0 c0 e = shift r0 c0 (connNest12 yx m1 n1 m2 n2 0 0 e) := by
  unfold connNest12
  cases yx
  · simp only [Bool.false_eq_true, if_false]; exact rectNest_shift 3 m1 n1 m2 n2 r0 c0 e
  · simp only [if_true]; exact rectNestYX_shift 3 m1 n1 m2 n2 r0 c0 e

theorem connNestDiag_shift (yx : Bool) (m n r0 : Nat) (e : Fin 3 → Fin 3 → Nat → Nat → Nat → Nat → K) :
    connNestDiag yx m n r0 e = shift r0 r0 (connNestDiag yx m n 0 e) := by
  unfold connNestDiag
  cases yx
  · simp only [Bool.false_eq_true, if_false]; exact loopNest_shift 3 m n r0 e
  · simp only [if_true]; exact loopNestYX_shift 3 m n r0 e

/-- what the stand-alone lists denote does not depend on the loop order -/
theorem toFun_connNestDiag (yx : Bool) (m n : Nat) (e : Fin 3 → Fin 3 → Nat → Nat → Nat → Nat → K) (r c : Nat) :
    toFun (connNestDiag yx m n 0 e) r c = toFun (loopNest 3 m n 0 0 e) r c := by
  unfold connNestDiag
  cases yx
  · simp
  · simp only [if_true]; exact toFun_loopNestYX 3 m n 0 0 e r c

theorem toFun_connNest12 (yx : Bool) (m1 n1 m2 n2 : Nat) (e : Fin 3 → Fin 3 → Nat → Nat → Nat → Nat → K) (r c : Nat) :
    toFun (connNest12 yx m1 n1 m2 n2 0 0 e) r c = toFun (rectNest 3 m1 n1 m2 n2 0 0 e) r c := by
  unfold connNest12
  cases yx
  · simp
  · simp only [if_true]; exact toFun_rectNestYX 3 m1 n1 m2 n2 0 0 e r c

end Compmech.PanelLoop
