/-
Theorems about the model `Model/Integrate.lean` of `integrate.pyx` — for **all** grid sizes, by induction:

* `trapz_quad_exact_linear`   : `Σ w_i·(a + b·ξ_i) = 2a = ∫_{-1}^{1}(a + bξ)dξ`  (`nx ≥ 2`)
* `trapz2d_exact_bilinear`    : `quad (trapz2d_points …) (a + bx + cy + dxy)` = the exact integral over the rectangle
* `trapz2d_weights_sum_area`  : weights sum to `(xmax−xmin)(ymax−ymin)`
* `simps2d_eq_tensor`         : the 9-group enumeration of `simps2d_points` is the tensor product of two composite
                                Simpson rules (for product integrands `p(x)·q(y)`)
* `simps2d_exact_cubic`       : exact for `p(x)·q(y)`, `p, q` cubic (hence, by `quad_add`/`quad_smul`, for every
                                bicubic polynomial); `simps2d_weights_sum_area`.
-/
import Mathlib.Algebra.BigOperators.Group.List.Basic
import Mathlib.Algebra.CharZero.Defs
import Mathlib.Tactic.Ring
import Mathlib.Tactic.FieldSimp
import Mathlib.Tactic.LinearCombination
import Mathlib.Tactic.NormNum
import CompmechVerif.Model.Integrate

set_option linter.unusedSectionVars false
set_option linter.unusedSimpArgs false
set_option linter.unusedVariables false

namespace Compmech.Integrate

variable {K : Type} [Field K]

/-- `Σ_{i<n} g i` -/
def sumTo : Nat → (Nat → K) → K
  | 0, _ => 0
  | n + 1, g => sumTo n g + g n

theorem sum_map_range (g : Nat → K) : ∀ n, ((List.range n).map g).sum = sumTo n g
  | 0 => rfl
  | n + 1 => by simp [List.range_succ, sum_map_range g n, sumTo]

theorem sum_flatMap_range (g : Nat → List K) : ∀ n,
    ((List.range n).flatMap g).sum = sumTo n (fun i => (g i).sum)
  | 0 => rfl
  | n + 1 => by simp [List.range_succ, List.flatMap_append, sum_flatMap_range g n, sumTo]

theorem sumTo_congr {g h : Nat → K} : ∀ n, (∀ i, i < n → g i = h i) → sumTo n g = sumTo n h
  | 0, _ => rfl
  | n + 1, hh => by
    simp only [sumTo]
    rw [sumTo_congr n (fun i hi => hh i (Nat.lt_succ_of_lt hi)), hh n (Nat.lt_succ_self n)]

theorem sumTo_add (g h : Nat → K) : ∀ n, sumTo n (fun i => g i + h i) = sumTo n g + sumTo n h
  | 0 => by simp [sumTo]
  | n + 1 => by simp only [sumTo, sumTo_add g h n]; ring

theorem sumTo_mul_left (c : K) (g : Nat → K) : ∀ n, sumTo n (fun i => c * g i) = c * sumTo n g
  | 0 => by simp [sumTo]
  | n + 1 => by simp only [sumTo, sumTo_mul_left c g n]; ring

theorem sumTo_const (c : K) : ∀ n, sumTo n (fun _ => c) = (n : K) * c
  | 0 => by simp [sumTo]
  | n + 1 => by simp only [sumTo, sumTo_const c n]; push_cast; ring

theorem sumTo_id : ∀ n : Nat, 2 * sumTo n (fun i => (i : K)) = (n : K) * ((n : K) - 1)
  | 0 => by simp [sumTo]
  | n + 1 => by
    have ih : 2 * sumTo n (fun i => (i : K)) = (n : K) * ((n : K) - 1) := sumTo_id n
    simp only [sumTo]; push_cast; linear_combination ih

/-! ### trapezoid -/

variable [CharZero K]

/-- end-point weights: `Σ_{i<n} (if i = 0 ∨ i = e then h/2 else h)·g i` -/
theorem sumTo_endweights (h : K) (g : Nat → K) (e : Nat) (he : e ≠ 0) : ∀ n,
    sumTo n (fun i => (if i = 0 ∨ i = e then h / 2 else h) * g i)
      = h * sumTo n g - (if 0 < n then h / 2 * g 0 else 0) - (if e < n then h / 2 * g e else 0)
  | 0 => by simp [sumTo]
  | n + 1 => by
    have ih := sumTo_endweights h g e he n
    simp only [sumTo, ih]
    by_cases hn0 : n = 0
    · subst hn0
      have : ¬ e < 1 := by omega
      have h2 : (2 : K) ≠ 0 := by norm_num
      simp [this, sumTo]; field_simp; ring
    · have hpos : 0 < n := Nat.pos_of_ne_zero hn0
      by_cases hne : n = e
      · subst hne
        have h2 : (2 : K) ≠ 0 := by norm_num
        simp [hpos, hn0]; field_simp; ring
      · have h1 : (e < n + 1) = (e < n) := by
          apply propext; constructor <;> intro hh <;> omega
        simp only [hpos, Nat.succ_pos, if_true, hn0, hne, false_or, if_false, h1]; ring

/-- `trapz_quad` integrates `a + b·ξ` exactly over `[−1, 1]` and its weights sum to `2` (`b = 0`, `a = 1`) -/
theorem trapz_quad_exact_linear (nx : Nat) (hnx : 2 ≤ nx) (a b : K) :
    sumTo nx (fun i => trapzW nx i * (a + b * trapzXi nx i)) = 2 * a := by
  have hm : ((nx : K) - 1) ≠ 0 := by
    have : ((nx - 1 : Nat) : K) ≠ 0 := by exact_mod_cast (by omega : nx - 1 ≠ 0)
    rwa [Nat.cast_sub (by omega), Nat.cast_one] at this
  have hw : ∀ i, trapzW (K := K) nx i * (a + b * trapzXi nx i)
      = (if i = 0 ∨ i = nx - 1 then (2 / ((nx : K) - 1)) / 2 else 2 / ((nx : K) - 1)) * (a + b * trapzXi nx i) := by
    intro i; simp only [trapzW]
  simp only [hw]
  rw [sumTo_endweights (2 / ((nx : K) - 1)) (fun i => a + b * trapzXi nx i) (nx - 1) (by omega) nx]
  have h0 : 0 < nx := by omega
  have h1 : nx - 1 < nx := by omega
  simp only [h0, h1, if_true]
  have hs : sumTo nx (fun i => a + b * trapzXi (K := K) nx i)
      = (nx : K) * a + b * (-(nx : K) + 2 / ((nx : K) - 1) * sumTo nx (fun i => (i : K))) := by
    have : ∀ i, a + b * trapzXi (K := K) nx i = (a - b) + (b * (2 / ((nx : K) - 1))) * (i : K) := by
      intro i; simp only [trapzXi]; field_simp; ring
    simp only [this]
    rw [sumTo_add, sumTo_const, sumTo_mul_left]; ring
  have hid := sumTo_id (K := K) nx
  have hlast : trapzXi (K := K) nx (nx - 1) = 1 := by
    simp only [trapzXi]
    rw [Nat.cast_sub (by omega), Nat.cast_one]; field_simp; ring
  have hfirst : trapzXi (K := K) nx 0 = -1 := by simp [trapzXi]
  rw [hs, hlast, hfirst]
  field_simp
  linear_combination (2 * b) * hid

theorem quad_trapz2d (xmin xmax : K) (nx : Nat) (ymin ymax : K) (ny : Nat) (f : K → K → K) :
    quad (trapz2dPoints xmin xmax nx ymin ymax ny) f =
      sumTo nx (fun i => sumTo ny (fun j =>
        (xmax - xmin) / 2 * ((ymax - ymin) / 2) * trapzW nx i * trapzW ny j * 1 *
          f ((xmax - xmin) / 2 * (trapzXi nx i + 1) + xmin) ((ymax - ymin) / 2 * (trapzXi ny j + 1) + ymin))) := by
  simp only [quad, trapz2dPoints, List.map_flatMap, List.map_map, Function.comp_def]
  rw [sum_flatMap_range]
  apply sumTo_congr; intro i _
  rw [sum_map_range]

/-- `trapz2d_points` integrates every bilinear integrand `a + b·x + c·y + d·x·y` exactly over the rectangle -/
theorem trapz2d_exact_bilinear (xmin xmax : K) (nx : Nat) (ymin ymax : K) (ny : Nat) (hnx : 2 ≤ nx) (hny : 2 ≤ ny)
    (a b c d : K) :
    quad (trapz2dPoints xmin xmax nx ymin ymax ny) (fun x y => a + b * x + c * y + d * x * y) =
      (xmax - xmin) * (ymax - ymin) *
        (a + b * ((xmin + xmax) / 2) + c * ((ymin + ymax) / 2) + d * ((xmin + xmax) / 2) * ((ymin + ymax) / 2)) := by
  rw [quad_trapz2d]
  -- inner sum over j: linear in eta
  have inner : ∀ i, sumTo ny (fun j =>
        (xmax - xmin) / 2 * ((ymax - ymin) / 2) * trapzW nx i * trapzW ny j * 1 *
          (a + b * ((xmax - xmin) / 2 * (trapzXi nx i + 1) + xmin) + c * ((ymax - ymin) / 2 * (trapzXi ny j + 1) + ymin)
            + d * ((xmax - xmin) / 2 * (trapzXi nx i + 1) + xmin) * ((ymax - ymin) / 2 * (trapzXi ny j + 1) + ymin)))
      = trapzW nx i * ((xmax - xmin) / 2 * ((ymax - ymin) / 2) * 2 *
          ((a + c * ((ymin + ymax) / 2)) + (b + d * ((ymin + ymax) / 2)) * ((xmax - xmin) / 2 * (trapzXi nx i + 1) + xmin))) := by
    intro i
    set X : K := (xmax - xmin) / 2 * (trapzXi nx i + 1) + xmin
    have e : ∀ j, (xmax - xmin) / 2 * ((ymax - ymin) / 2) * trapzW nx i * trapzW ny j * 1 *
          (a + b * X + c * ((ymax - ymin) / 2 * (trapzXi ny j + 1) + ymin) + d * X * ((ymax - ymin) / 2 * (trapzXi ny j + 1) + ymin))
        = ((xmax - xmin) / 2 * ((ymax - ymin) / 2) * trapzW nx i) *
            (trapzW ny j * ((a + b * X + (c + d * X) * ((ymin + ymax) / 2)) + ((c + d * X) * ((ymax - ymin) / 2)) * trapzXi ny j)) := by
      intro j; ring
    simp only [e]
    rw [sumTo_mul_left, trapz_quad_exact_linear ny hny]; ring
  simp only [inner]
  have outer : ∀ i, trapzW (K := K) nx i * ((xmax - xmin) / 2 * ((ymax - ymin) / 2) * 2 *
          ((a + c * ((ymin + ymax) / 2)) + (b + d * ((ymin + ymax) / 2)) * ((xmax - xmin) / 2 * (trapzXi nx i + 1) + xmin)))
      = ((xmax - xmin) / 2 * ((ymax - ymin) / 2) * 2) *
          (trapzW nx i * (((a + c * ((ymin + ymax) / 2)) + (b + d * ((ymin + ymax) / 2)) * ((xmin + xmax) / 2))
            + ((b + d * ((ymin + ymax) / 2)) * ((xmax - xmin) / 2)) * trapzXi nx i)) := by
    intro i; ring
  simp only [outer]
  rw [sumTo_mul_left, trapz_quad_exact_linear nx hnx]; ring

/-- the weights `alphas·betas` of `trapz2d_points` sum to the area of the rectangle -/
theorem trapz2d_weights_sum_area (xmin xmax : K) (nx : Nat) (ymin ymax : K) (ny : Nat) (hnx : 2 ≤ nx) (hny : 2 ≤ ny) :
    quad (trapz2dPoints xmin xmax nx ymin ymax ny) (fun _ _ => 1) = (xmax - xmin) * (ymax - ymin) := by
  have := trapz2d_exact_bilinear xmin xmax nx ymin ymax ny hnx hny 1 0 0 0
  simpa using this

/-! ### linearity of the quadrature sum (so product integrands suffice) -/

omit [CharZero K] in
theorem quad_add (pts : List (Pt K)) (f g : K → K → K) :
    quad pts (fun x y => f x y + g x y) = quad pts f + quad pts g := by
  induction pts with
  | nil => simp [quad]
  | cons p ps ih =>
    simp only [quad, List.map_cons, List.sum_cons] at ih ⊢
    rw [ih]; ring

omit [CharZero K] in
theorem quad_smul (pts : List (Pt K)) (c : K) (f : K → K → K) :
    quad pts (fun x y => c * f x y) = c * quad pts f := by
  induction pts with
  | nil => simp [quad]
  | cons p ps ih =>
    simp only [quad, List.map_cons, List.sum_cons] at ih ⊢
    rw [ih]; ring

/-! ### Simpson -/

/-- composite Simpson sum over `2n` panels in the grouped form the code enumerates:
`g 0 + g (2n) + 4·Σ_{i<n} g (2i+1) + 2·Σ_{i<n-1} g (2i+2)` -/
def simpS (n : Nat) (g : Nat → K) : K :=
  g 0 + g (2 * n) + 4 * sumTo n (fun i => g (2 * i + 1)) + 2 * sumTo (n - 1) (fun i => g (2 * i + 2))

omit [CharZero K] in
theorem sumTo_fac1 (k A : K) (b : Nat → K) : ∀ n, sumTo n (fun j => k * 1 * (A * b j)) = k * A * sumTo n b
  | 0 => by simp [sumTo]
  | n + 1 => by simp only [sumTo, sumTo_fac1 k A b n]; ring

omit [CharZero K] in
theorem sumTo_fac2 (k B B' : K) (a : Nat → K) : ∀ n,
    sumTo n (fun i => k * 1 * (a i * B) + (k * 1 * (a i * B') + 0)) = k * (B + B') * sumTo n a
  | 0 => by simp [sumTo]
  | n + 1 => by simp only [sumTo, sumTo_fac2 k B B' a n]; ring

omit [CharZero K] in
theorem sumTo_fac3 (k : K) (a b : Nat → K) (m n : Nat) :
    sumTo n (fun i => sumTo m (fun j => k * 1 * (a i * b j))) = k * sumTo n a * sumTo m b := by
  have h : ∀ i, sumTo m (fun j => k * 1 * (a i * b j)) = (k * sumTo m b) * a i := by
    intro i; rw [sumTo_fac1]; ring
  simp only [h]
  rw [sumTo_mul_left]; ring

omit [CharZero K] in
theorem simpsPts_eq_tensor (xs ys : Nat → K) (nx ny : Nat) (c : K) (p q : K → K) :
    quad (simpsPts xs ys nx ny c) (fun x y => p x * q y) =
      c * simpS nx (fun i => p (xs i)) * simpS ny (fun j => q (ys j)) := by
  simp only [quad, simpsPts, List.map_append, List.sum_append, List.map_flatMap, List.map_map, List.map_cons,
    List.map_nil, List.flatMap_cons, List.flatMap_nil, List.sum_cons, List.sum_nil, sum_flatMap_range, sum_map_range,
    Function.comp_def, List.append_nil]
  simp only [sumTo_fac3]
  simp only [sumTo_fac1, sumTo_fac2, simpS]
  ring

omit [CharZero K] in
/-- **the enumeration of `simps2d_points` is the tensor product of two composite Simpson rules**
(corners, the four edge families and the four interior families are exactly the nine products of the
groups `{ends, odd, even}` in `x` and in `y`, with weights `1·1, 1·4, 1·2, 4·1, 2·1, 4·4, 4·2, 2·4, 2·2`) -/
theorem simps2d_eq_tensor (xmin xmax : K) (nx0 : Nat) (ymin ymax : K) (ny0 : Nat) (p q : K → K) :
    quad (simps2dPoints xmin xmax nx0 ymin ymax ny0) (fun x y => p x * q y) =
      (1 / 9 * ((xmax - xmin) / (2 * (halfUp nx0 : K))) * ((ymax - ymin) / (2 * (halfUp ny0 : K)))) *
        simpS (halfUp nx0) (fun i => p (linspace xmin xmax (halfUp nx0) i)) *
        simpS (halfUp ny0) (fun j => q (linspace ymin ymax (halfUp ny0) j)) := by
  simp only [simps2dPoints, simpsPts_eq_tensor]

/-- a cubic and its antiderivative -/
def cubic (a0 a1 a2 a3 x : K) : K := a0 + a1 * x + a2 * x ^ 2 + a3 * x ^ 3

def quartic (a0 a1 a2 a3 x : K) : K := a0 * x + a1 * x ^ 2 / 2 + a2 * x ^ 3 / 3 + a3 * x ^ 4 / 4

/-- one Simpson panel is exact for cubics -/
theorem simpson_panel (a0 a1 a2 a3 x h : K) :
    h / 3 * (cubic a0 a1 a2 a3 x + 4 * cubic a0 a1 a2 a3 (x + h) + cubic a0 a1 a2 a3 (x + 2 * h))
      = quartic a0 a1 a2 a3 (x + 2 * h) - quartic a0 a1 a2 a3 x := by
  simp only [cubic, quartic]; field_simp; ring

/-- the composite rule over `2(m+1)` panels of width `h` from `lo` is exact for cubics (induction on `m`) -/
theorem simpS_exact_cubic (a0 a1 a2 a3 lo h : K) : ∀ m : Nat,
    h / 3 * simpS (m + 1) (fun i => cubic a0 a1 a2 a3 (lo + (i : K) * h))
      = quartic a0 a1 a2 a3 (lo + (2 * ((m : K) + 1)) * h) - quartic a0 a1 a2 a3 lo
  | 0 => by
    have := simpson_panel a0 a1 a2 a3 lo h
    simp only [simpS, sumTo, Nat.sub_self]
    norm_num
    rw [← this]; ring_nf
  | m + 1 => by
    have ih := simpS_exact_cubic a0 a1 a2 a3 lo h m
    have hp := simpson_panel a0 a1 a2 a3 (lo + (2 * ((m : K) + 1)) * h) h
    have e : simpS (m + 1 + 1) (fun i => cubic a0 a1 a2 a3 (lo + (i : K) * h))
        = simpS (m + 1) (fun i => cubic a0 a1 a2 a3 (lo + (i : K) * h))
          + (cubic a0 a1 a2 a3 (lo + (2 * ((m : K) + 1)) * h) + 4 * cubic a0 a1 a2 a3 (lo + (2 * ((m : K) + 1)) * h + h)
            + cubic a0 a1 a2 a3 (lo + (2 * ((m : K) + 1)) * h + 2 * h)) := by
      simp only [simpS, Nat.add_sub_cancel, sumTo]
      push_cast
      ring_nf
    rw [e, mul_add, ih, hp]
    push_cast
    ring_nf

/-- `2·halfUp n ≥ n ≥ 1`: the bumped half-count is positive -/
theorem halfUp_pos (n : Nat) (h : 1 ≤ n) : 1 ≤ halfUp n := by
  unfold halfUp
  split <;> omega

/-- **`simps2d_points` integrates `p(x)·q(y)` exactly for cubic `p`, `q`** — for every requested
`nx0, ny0 ≥ 1` (odd values are bumped to the next even number first); by `quad_add`, `quad_smul` hence
every bicubic polynomial. -/
theorem simps2d_exact_cubic (xmin xmax : K) (nx0 : Nat) (ymin ymax : K) (ny0 : Nat) (hnx : 1 ≤ nx0) (hny : 1 ≤ ny0)
    (a0 a1 a2 a3 b0 b1 b2 b3 : K) :
    quad (simps2dPoints xmin xmax nx0 ymin ymax ny0) (fun x y => cubic a0 a1 a2 a3 x * cubic b0 b1 b2 b3 y) =
      (quartic a0 a1 a2 a3 xmax - quartic a0 a1 a2 a3 xmin) * (quartic b0 b1 b2 b3 ymax - quartic b0 b1 b2 b3 ymin) := by
  rw [simps2d_eq_tensor]
  obtain ⟨mx, hmx⟩ : ∃ m, halfUp nx0 = m + 1 := ⟨halfUp nx0 - 1, by have := halfUp_pos nx0 hnx; omega⟩
  obtain ⟨my, hmy⟩ : ∃ m, halfUp ny0 = m + 1 := ⟨halfUp ny0 - 1, by have := halfUp_pos ny0 hny; omega⟩
  rw [hmx, hmy]
  have hx := simpS_exact_cubic a0 a1 a2 a3 xmin ((xmax - xmin) / (2 * ((mx + 1 : Nat) : K))) mx
  have hy := simpS_exact_cubic b0 b1 b2 b3 ymin ((ymax - ymin) / (2 * ((my + 1 : Nat) : K))) my
  have hx0 : ((mx + 1 : Nat) : K) ≠ 0 := by exact_mod_cast Nat.succ_ne_zero mx
  have hy0 : ((my + 1 : Nat) : K) ≠ 0 := by exact_mod_cast Nat.succ_ne_zero my
  have ex : xmin + (2 * ((mx : K) + 1)) * ((xmax - xmin) / (2 * ((mx + 1 : Nat) : K))) = xmax := by
    push_cast at hx0 ⊢; field_simp; ring
  have ey : ymin + (2 * ((my : K) + 1)) * ((ymax - ymin) / (2 * ((my + 1 : Nat) : K))) = ymax := by
    push_cast at hy0 ⊢; field_simp; ring
  rw [ex] at hx
  rw [ey] at hy
  simp only [linspace]
  rw [← hx, ← hy]; ring

/-- the weights of `simps2d_points` sum to the area of the rectangle -/
theorem simps2d_weights_sum_area (xmin xmax : K) (nx0 : Nat) (ymin ymax : K) (ny0 : Nat) (hnx : 1 ≤ nx0) (hny : 1 ≤ ny0) :
    quad (simps2dPoints xmin xmax nx0 ymin ymax ny0) (fun _ _ => 1) = (xmax - xmin) * (ymax - ymin) := by
  have := simps2d_exact_cubic xmin xmax nx0 ymin ymax ny0 hnx hny 1 0 0 0 1 0 0 0
  simpa [cubic, quartic] using this

end Compmech.Integrate
