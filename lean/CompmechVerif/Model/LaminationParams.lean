/-
Hand-written executable model of the parts of compmech/composite that `Model/Laminate.lean` leaves out and that
report / overwrite `lam.A, lam.B, lam.D, lam.E, lam.ABD, lam.ABDE`:

  compmech/composite/matlamina.py : MatLamina.rebuild            (`matobj.c`, `matobj.q..`, the invariants `matobj.u`)
  compmech/composite/laminate.py  : Laminate.__init__, Laminate.rebuild, Laminate.calc_constitutive_matrix (as a method
                                    of ONE object, with the numpy views it creates), Laminate.calc_lamination_parameters,
                                    Laminate.calc_ABDE_from_lamination_parameters, read_lamination_parameters,
                                    Laminate.force_balanced_LP, force_symmetric_LP, force_orthotropic, force_symmetric,
                                    Laminate.calc_equivalent_modulus

A `Laminate` object is the record `Lam`; every method is a total function `Lam → Lam × Option LamError`: the object as
the method leaves it (also when it raises: Python keeps the assignments made before the exception) and the exception
class, if any.  Attributes that hold `None` (or, for `xiE`, do not exist: `__init__` never creates it) are `none`.

Trigonometry never enters: `cos θ, sin θ` are the pairs `(c, s)` of `Model/Laminate.lean`; `calc_lamination_parameters`
reads the ply ATTRIBUTES `ply.cos2t, ply.sin2t, ply.cos4t, ply.sin4t`, which `Lamina.rebuild` never sets (it only has
a local `sin2t`), so they are modelled as optional per-ply data (`LPly.trig`), `none` for every ply the package builds.

`np.linalg.inv` is a parameter (`inv`) of `calcEquivalentModulus`, like every external solver in this project.
Only the algebraic hierarchy of Mathlib is imported; everything runs at `K = ℚ` in the driver.
-/
import CompmechVerif.Model.Laminate

namespace Compmech.Laminate

variable {K : Type} [Field K]

/-! ## `MatLamina.rebuild` -/

/-- `matlam.nu31 = matlam.nu13 * matlam.e3 / matlam.e1` (`read_laminaprop`) -/
def MatProps.nu31 (m : MatProps K) : K := m.nu13 * m.e3 / m.e1
/-- `matlam.nu32 = matlam.nu23 * matlam.e3 / matlam.e2` (`read_laminaprop`) -/
def MatProps.nu32 (m : MatProps K) : K := m.nu23 * m.e3 / m.e2

/-- The nine independent entries of `matobj.c` (3-D stiffness, Reddy). -/
structure C3D (K : Type) where
  c11 : K
  c12 : K
  c13 : K
  c22 : K
  c23 : K
  c33 : K
  c44 : K
  c55 : K
  c66 : K
deriving Repr

/-- `delta`, `c11 … c66` of `MatLamina.rebuild`, verbatim (note `nu23*nu23` in `c11`, as in the source). -/
def matC (m : MatProps K) : C3D K :=
  let e1 := m.e1
  let e2 := m.e2
  let e3 := m.e3
  let nu12 := m.nu12
  let nu21 := m.nu21
  let nu13 := m.nu13
  let nu31 := m.nu31
  let nu23 := m.nu23
  let nu32 := m.nu32
  let delta := (1 - nu12 * nu21 - nu23 * nu32 - nu31 * nu13 - 2 * nu21 * nu32 * nu13) / (e1 * e2)
  { c11 := (1 - nu23 * nu23) / (delta * e2)
    c12 := (nu21 + nu31 * nu23) / (delta * e2)
    c13 := (nu31 + nu21 * nu32) / (delta * e2)
    c22 := (1 - nu13 * nu31) / (delta * e1)
    c23 := (nu32 + nu12 * nu31) / (delta * e1)
    c33 := e3 * (1 - nu12 * nu21) / (delta * e1 * e2)
    c44 := m.g23
    c55 := m.g13
    c66 := m.g12 }

/-- `den` of `MatLamina.rebuild`. -/
def MatProps.den (m : MatProps K) : K :=
  1 - m.nu12 * m.nu21 - m.nu13 * m.nu31 - m.nu23 * m.nu32 - m.nu12 * m.nu23 * m.nu31 - m.nu13 * m.nu21 * m.nu32

/-- `matobj.q11 … matobj.q66` of `MatLamina.rebuild`: the THREE-dimensional stiffnesses
(`q11 = e1 (1 - nu23 nu32)/den`, …), and `q44 = g12`, `q55 = g23`, `q66 = g13`. -/
structure MatQ (K : Type) where
  q11 : K
  q12 : K
  q13 : K
  q21 : K
  q22 : K
  q23 : K
  q31 : K
  q32 : K
  q33 : K
  q44 : K
  q55 : K
  q66 : K
deriving Repr

def matQ (m : MatProps K) : MatQ K :=
  let den := m.den
  { q11 := m.e1 * (1 - m.nu23 * m.nu32) / den
    q12 := m.e1 * (m.nu21 + m.nu23 * m.nu31) / den
    q13 := m.e1 * (m.nu31 + m.nu21 * m.nu32) / den
    q21 := m.e2 * (m.nu12 + m.nu13 * m.nu32) / den
    q22 := m.e2 * (1 - m.nu13 * m.nu31) / den
    q23 := m.e2 * (m.nu32 + m.nu12 * m.nu31) / den
    q31 := m.e3 * (m.nu13 + m.nu12 * m.nu32) / den
    q32 := m.e3 * (m.nu23 + m.nu13 * m.nu21) / den
    q33 := m.e3 * (1 - m.nu12 * m.nu21) / den
    q44 := m.g12
    q55 := m.g23
    q66 := m.g13 }

/-- The invariants `u1 … u7` of `MatLamina.rebuild`. -/
structure Invariants (K : Type) where
  u1 : K
  u2 : K
  u3 : K
  u4 : K
  u5 : K
  u6 : K
  u7 : K
deriving Repr

def invariantsOfQ (q : MatQ K) : Invariants K :=
  let u1 := (3 * q.q11 + 3 * q.q22 + 2 * q.q12 + 4 * q.q44) / 8
  let u2 := (q.q11 - q.q22) / 2
  let u3 := (q.q11 + q.q22 - 2 * q.q12 - 4 * q.q44) / 8
  let u4 := (q.q11 + q.q22 + 6 * q.q12 - 4 * q.q44) / 8
  let u5 := (u1 - u4) / 2
  let u6 := (q.q55 + q.q66) / 2
  let u7 := (q.q55 - q.q66) / 2
  ⟨u1, u2, u3, u4, u5, u6, u7⟩

def invariants (m : MatProps K) : Invariants K := invariantsOfQ (matQ m)

/-- A vector of five: a row of `matobj.u`, or one of `lam.xiA, xiB, xiD, xiE`. -/
@[ext] structure Xi (K : Type) where
  x0 : K
  x1 : K
  x2 : K
  x3 : K
  x4 : K
deriving Repr

/-- one entry of `np.dot(u, xi)` -/
def Xi.dot (r x : Xi K) : K := r.x0 * x.x0 + r.x1 * x.x1 + r.x2 * x.x2 + r.x3 * x.x3 + r.x4 * x.x4

/-- The 9×5 array `matobj.u`; rows in the order of the source
(commented there `q11, q22, q12, q55, q66, q56, q44, q14, q24`). -/
structure UMat (K : Type) where
  r0 : Xi K
  r1 : Xi K
  r2 : Xi K
  r3 : Xi K
  r4 : Xi K
  r5 : Xi K
  r6 : Xi K
  r7 : Xi K
  r8 : Xi K
deriving Repr

def uMatOfInvariants (u : Invariants K) : UMat K :=
  { r0 := ⟨u.u1, u.u2, 0, u.u3, 0⟩
    r1 := ⟨u.u1, -u.u2, 0, u.u3, 0⟩
    r2 := ⟨u.u4, 0, 0, -u.u3, 0⟩
    r3 := ⟨u.u6, u.u7, 0, 0, 0⟩
    r4 := ⟨u.u6, -u.u7, 0, 0, 0⟩
    r5 := ⟨0, 0, -u.u7, 0, 0⟩
    r6 := ⟨u.u5, 0, 0, -u.u3, 0⟩
    r7 := ⟨0, 0, u.u2 / 2, 0, u.u3⟩
    r8 := ⟨0, 0, u.u2 / 2, 0, -u.u3⟩ }

/-- `matobj.u` -/
def uMat (m : MatProps K) : UMat K := uMatOfInvariants (invariants m)

/-! ## Small dense matrices as functions (`numpy` arrays of fixed shape) -/

abbrev Mat (n : Nat) (K : Type) := Fin n → Fin n → K

def mat2 (a b c d : K) : Mat 2 K := fun i j =>
  match i.val, j.val with
  | 0, 0 => a
  | 0, _ => b
  | _, 0 => c
  | _, _ => d

def mat3 (a11 a12 a13 a21 a22 a23 a31 a32 a33 : K) : Mat 3 K := fun i j =>
  match i.val, j.val with
  | 0, 0 => a11
  | 0, 1 => a12
  | 0, _ => a13
  | 1, 0 => a21
  | 1, 1 => a22
  | 1, _ => a23
  | _, 0 => a31
  | _, 1 => a32
  | _, _ => a33

/-- the symmetric 3×3 array `[[q11,q12,q16],[q12,q22,q26],[q16,q26,q66]]` -/
def sym3 (q : Q9 K) : Mat 3 K := mat3 q.q11 q.q12 q.q16 q.q12 q.q22 q.q26 q.q16 q.q26 q.q66

/-- the 5×5 array with the zero pattern of `QL` (`A_general`, `B_general`, `D_general`) -/
def gen5 (q : Q9 K) : Mat 5 K := fun i j =>
  match i.val, j.val with
  | 0, 0 => q.q11
  | 0, 1 => q.q12
  | 0, 2 => q.q16
  | 1, 0 => q.q12
  | 1, 1 => q.q22
  | 1, 2 => q.q26
  | 2, 0 => q.q16
  | 2, 1 => q.q26
  | 2, 2 => q.q66
  | 3, 3 => q.q44
  | 3, 4 => q.q45
  | 4, 3 => q.q45
  | 4, 4 => q.q55
  | _, _ => 0

/-- `G[0:3, 0:3]` -/
def sub3 (G : Mat 5 K) : Mat 3 K := fun i j => G ⟨i.val, by omega⟩ ⟨j.val, by omega⟩
/-- `G[3:5, 3:5]` -/
def sub2 (G : Mat 5 K) : Mat 2 K := fun i j => G ⟨i.val + 3, by omega⟩ ⟨j.val + 3, by omega⟩

/-- `np.concatenate([np.concatenate([A, B], axis=1), np.concatenate([C, D], axis=1)], axis=0)` for 3×3 blocks. -/
def block6 (A B C D : Mat 3 K) : Mat 6 K := fun i j =>
  if hi : i.val < 3 then
    if hj : j.val < 3 then A ⟨i.val, hi⟩ ⟨j.val, hj⟩ else B ⟨i.val, hi⟩ ⟨j.val - 3, by omega⟩
  else
    if hj : j.val < 3 then C ⟨i.val - 3, by omega⟩ ⟨j.val, hj⟩ else D ⟨i.val - 3, by omega⟩ ⟨j.val - 3, by omega⟩

/-- `ABDE = zeros((8,8)); ABDE[0:6,0:6] = ABD; ABDE[6:8,6:8] = E` -/
def block8 (M : Mat 6 K) (E : Mat 2 K) : Mat 8 K := fun i j =>
  if hi : i.val < 6 then
    if hj : j.val < 6 then M ⟨i.val, hi⟩ ⟨j.val, hj⟩ else 0
  else
    if j.val < 6 then 0 else E ⟨i.val - 6, by omega⟩ ⟨j.val - 6, by omega⟩

/-- a sequence of assignments `M[i, j] = 0.` -/
def zeroAt {n : Nat} (ps : List (Nat × Nat)) (M : Mat n K) : Mat n K := fun i j =>
  if (i.val, j.val) ∈ ps then 0 else M i j

/-- `M[0:3, 3:6] = 0; M[3:6, 0:3] = 0` -/
def zeroCoupling {n : Nat} (M : Mat n K) : Mat n K := fun i j =>
  if (i.val < 3 ∧ 3 ≤ j.val ∧ j.val < 6) ∨ (3 ≤ i.val ∧ i.val < 6 ∧ j.val < 3) then 0 else M i j

/-- the index pairs `force_orthotropic` assigns in `A`, `B`, `D`, in source order -/
def orthoPos3 : List (Nat × Nat) := [(0, 2), (1, 2), (2, 0), (2, 1)]

/-- the index pairs `force_orthotropic` assigns in `ABD` and again in `ABDE`, in source order -/
def orthoPos6 : List (Nat × Nat) :=
  [(0, 2), (1, 2), (2, 0), (2, 1), (0, 5), (5, 0), (1, 5), (5, 1),
   (3, 2), (2, 3), (4, 2), (2, 4), (3, 5), (4, 5), (5, 3), (5, 4)]

/-! ## The `Laminate` object -/

/-- The ply attributes `cos2t, sin2t, cos4t, sin4t` that `calc_lamination_parameters` reads. -/
structure Trig (K : Type) where
  cos2t : K
  sin2t : K
  cos4t : K
  sin4t : K
deriving Repr

/-- A `Lamina` as the `Laminate` methods see it: `ply.t`, `ply.QL` and — if somebody has set them — the four
trigonometric attributes. -/
structure LPly (K : Type) where
  t : K
  QL : Q9 K
  trig : Option (Trig K)

def LPly.toPly (p : LPly K) : Ply K := ⟨p.t, p.QL⟩

/-- Python exception classes the modelled methods can raise. -/
inductive LamError where
  | attributeError
  | typeError
  | runtimeError
  | linAlgError
  | zeroDivisionError
deriving Repr, DecidableEq

/-- The attributes of a `Laminate` that the modelled functions read or write.
`viewA/B/D`: `lam.A` (`B`, `D`) is a numpy VIEW of `lam.A_general[0:3,0:3]` (as `calc_constitutive_matrix` leaves it),
so that item assignment to it also changes `A_general`. -/
structure Lam (K : Type) where
  plies : List (LPly K)
  matobj : Option (MatProps K)
  t : Option K
  offset : K
  e1 : Option K
  e2 : Option K
  g12 : Option K
  nu12 : Option K
  nu21 : Option K
  xiA : Option (Xi K)
  xiB : Option (Xi K)
  xiD : Option (Xi K)
  xiE : Option (Xi K)
  A : Option (Mat 3 K)
  B : Option (Mat 3 K)
  D : Option (Mat 3 K)
  E : Option (Mat 2 K)
  ABD : Option (Mat 6 K)
  ABDE : Option (Mat 8 K)
  AG : Option (Mat 5 K)
  BG : Option (Mat 5 K)
  DG : Option (Mat 5 K)
  viewA : Bool
  viewB : Bool
  viewD : Bool

/-- `Laminate.__init__` -/
def Lam.fresh : Lam K :=
  { plies := [], matobj := none, t := none, offset := 0, e1 := none, e2 := none, g12 := none, nu12 := none,
    nu21 := none, xiA := none, xiB := none, xiD := none, xiE := none, A := none, B := none, D := none, E := none,
    ABD := none, ABDE := none, AG := none, BG := none, DG := none, viewA := false, viewB := false, viewD := false }

/-- `sum([ply.t for ply in self.plies])` -/
def lthickness (plies : List (LPly K)) : K := (plies.map (·.t)).sum

/-- `Laminate.rebuild`: `ply.rebuild()` recomputes the same `QL`; `self.t = Σ ply.t`. -/
def Lam.rebuild (L : Lam K) : Lam K := { L with t := some (lthickness L.plies) }

/-- `Laminate.calc_constitutive_matrix`: overwrites `A_general, B_general, D_general, t, A, B, D, E, ABD, ABDE`;
`A, B, D, E` are views of the `_general` arrays, `ABD` and `ABDE` fresh copies.  Never raises. -/
def Lam.calcConstitutiveMatrix (L : Lam K) : Lam K :=
  let acc := abd (L.plies.map LPly.toPly) L.offset
  let AG := gen5 acc.A
  let BG := gen5 acc.B
  let DG := gen5 acc.D
  let A := sub3 AG
  let B := sub3 BG
  let D := sub3 DG
  let E := sub2 AG
  let ABD := block6 A B B D
  { L with
    AG := some AG, BG := some BG, DG := some DG
    t := some (thickness (L.plies.map LPly.toPly))
    A := some A, B := some B, D := some D, E := some E
    viewA := true, viewB := true, viewD := true
    ABD := some ABD
    ABDE := some (block8 ABD E) }

/-- the four running sums `xi?1 … xi?4` -/
@[ext] structure Xi4 (K : Type) where
  x1 : K
  x2 : K
  x3 : K
  x4 : K

def Xi4.zero : Xi4 K := ⟨0, 0, 0, 0⟩

/-- `xi?1 += fac*cos2t; xi?2 += fac*sin2t; xi?3 += fac*cos4t; xi?4 += fac*sin4t` -/
def Xi4.addTrig (x : Xi4 K) (fac : K) (g : Trig K) : Xi4 K :=
  ⟨x.x1 + fac * g.cos2t, x.x2 + fac * g.sin2t, x.x3 + fac * g.cos4t, x.x4 + fac * g.sin4t⟩

/-- loop state of `calc_lamination_parameters` -/
@[ext] structure LPAcc (K : Type) where
  h0 : K
  A : Xi4 K
  B : Xi4 K
  D : Xi4 K
  E : Xi4 K

/-- one pass of the loop body of `calc_lamination_parameters` (`T = lam_thick`), for a ply of thickness `t` with the
four attributes `g`. -/
def lpStep (T : K) (acc : LPAcc K) (p : K × Trig K) : LPAcc K :=
  let hk_1 := acc.h0
  let hk := acc.h0 + p.1
  let Afac := p.1 / T
  let Bfac := (2 / T ^ 2) * (hk ^ 2 - hk_1 ^ 2)
  let Dfac := (4 / T ^ 3) * (hk ^ 3 - hk_1 ^ 3)
  let Efac := (1 / T) * (hk - hk_1)
  { h0 := hk
    A := acc.A.addTrig Afac p.2
    B := acc.B.addTrig Bfac p.2
    D := acc.D.addTrig Dfac p.2
    E := acc.E.addTrig Efac p.2 }

/-- `ply.t` with the four attributes, `none` as soon as one ply has no such attributes -/
def plyTrigs : List (LPly K) → Option (List (K × Trig K))
  | [] => some []
  | p :: ps =>
    match p.trig, plyTrigs ps with
    | some g, some r => some ((p.t, g) :: r)
    | _, _ => none

/-- `Laminate.calc_lamination_parameters`.  `self.t` is overwritten first; with at least one ply, `lam_thick = 0`
raises `ZeroDivisionError` (`ply.t / lam_thick`, Python floats) and a ply without the attribute `cos2t` raises
`AttributeError` — in both cases before any `xi` is assigned. -/
def Lam.calcLaminationParameters [DecidableEq K] (L : Lam K) : Lam K × Option LamError :=
  let T := lthickness L.plies
  let L1 := { L with t := some T }
  if L.plies.isEmpty then
    ({ L1 with xiA := some ⟨1, 0, 0, 0, 0⟩, xiB := some ⟨0, 0, 0, 0, 0⟩, xiD := some ⟨1, 0, 0, 0, 0⟩,
               xiE := some ⟨1, 0, 0, 0, 0⟩ }, none)
  else if T = 0 then (L1, some .zeroDivisionError)
  else
    match plyTrigs L.plies with
    | none => (L1, some .attributeError)
    | some ts =>
      let r := ts.foldl (lpStep T) ⟨-T / 2 + L.offset, Xi4.zero, Xi4.zero, Xi4.zero, Xi4.zero⟩
      ({ L1 with
          xiA := some ⟨1, r.A.x1, r.A.x2, r.A.x3, r.A.x4⟩
          xiB := some ⟨0, r.B.x1, r.B.x2, r.B.x3, r.B.x4⟩
          xiD := some ⟨1, r.D.x1, r.D.x2, r.D.x3, r.D.x4⟩
          xiE := some ⟨1, r.E.x1, r.E.x2, r.E.x3, r.E.x4⟩ }, none)

/-- `fac * np.dot(self.matobj.u, xi)` unpacked into nine names -/
structure V9 (K : Type) where
  v0 : K
  v1 : K
  v2 : K
  v3 : K
  v4 : K
  v5 : K
  v6 : K
  v7 : K
  v8 : K

def facDot (fac : K) (U : UMat K) (xi : Xi K) : V9 K :=
  ⟨fac * U.r0.dot xi, fac * U.r1.dot xi, fac * U.r2.dot xi, fac * U.r3.dot xi, fac * U.r4.dot xi,
   fac * U.r5.dot xi, fac * U.r6.dot xi, fac * U.r7.dot xi, fac * U.r8.dot xi⟩

/-- `A11,A22,A12, du1,du2,du3, A66,A16,A26 = v`, then `np.array([[A11,A12,A16],[A12,A22,A26],[A16,A26,A66]])` -/
def V9.inplane (v : V9 K) : Mat 3 K := mat3 v.v0 v.v2 v.v7 v.v2 v.v1 v.v8 v.v7 v.v8 v.v6

/-- `du1,du2,du3, E44,E55,E45, du4,du5,du6 = v`, then `np.array([[E55, E45],[E45, E44]])` -/
def V9.shear (v : V9 K) : Mat 2 K := mat2 v.v4 v.v5 v.v5 v.v3

/-- `Laminate.calc_ABDE_from_lamination_parameters`: reads `t, matobj.u, xiA, xiB, xiD, xiE`; overwrites
`A, B, D, E, ABD, ABDE` with fresh arrays (nothing is assigned before the last possible exception).
`matobj = None` → `AttributeError`; `t`, `xiA`, `xiB`, `xiD` `None` → `TypeError`; attribute `xiE` missing →
`AttributeError`. -/
def Lam.calcABDEFromLP (L : Lam K) : Lam K × Option LamError :=
  match L.matobj with
  | none => (L, some .attributeError)
  | some m =>
    let U := uMat m
    match L.t, L.xiA, L.xiB, L.xiD with
    | some t, some xiA, some xiB, some xiD =>
      match L.xiE with
      | none => (L, some .attributeError)
      | some xiE =>
        let A := (facDot t U xiA).inplane
        let B := (facDot (t ^ 2 / 4) U xiB).inplane
        let D := (facDot (t ^ 3 / 12) U xiD).inplane
        let E := (facDot t U xiE).shear
        let ABD := block6 A B B D
        ({ L with A := some A, B := some B, D := some D, E := some E, ABD := some ABD,
                  ABDE := some (block8 ABD E), viewA := false, viewB := false, viewD := false }, none)
    | _, _, _, _ => (L, some .typeError)

/-- `read_lamination_parameters(thickness, laminaprop, xiA1 … xiE4)`; `none` if `read_laminaprop` raises. -/
def readLaminationParameters (thickness : K) (laminaprop : List K) (a b d e : Xi4 K) : Option (Lam K × Option LamError) :=
  match readLaminaprop laminaprop with
  | none => none
  | some m =>
    some (Lam.calcABDEFromLP
      { (Lam.fresh : Lam K) with
        t := some thickness, matobj := some m
        xiA := some ⟨1, a.x1, a.x2, a.x3, a.x4⟩
        xiB := some ⟨0, b.x1, b.x2, b.x3, b.x4⟩
        xiD := some ⟨1, d.x1, d.x2, d.x3, d.x4⟩
        xiE := some ⟨1, e.x1, e.x2, e.x3, e.x4⟩ })

/-- `Laminate.force_balanced_LP`: `dummy, xiA1, xiA2, xiA3, xiA4 = self.xiA` (`TypeError` on `None`), then
`xiA = [1, xiA1, 0, xiA3, 0]` and `calc_ABDE_from_lamination_parameters()`. -/
def Lam.forceBalancedLP (L : Lam K) : Lam K × Option LamError :=
  match L.xiA with
  | none => (L, some .typeError)
  | some x => Lam.calcABDEFromLP { L with xiA := some ⟨1, x.x1, 0, x.x3, 0⟩ }

/-- `Laminate.force_symmetric_LP`: `xiB = zeros(5)`, then `calc_ABDE_from_lamination_parameters()`. -/
def Lam.forceSymmetricLP (L : Lam K) : Lam K × Option LamError :=
  Lam.calcABDEFromLP { L with xiB := some ⟨0, 0, 0, 0, 0⟩ }

/-- `Laminate.force_orthotropic`: `RuntimeError` unless `offset == 0`; then four item assignments in each of `A`, `B`,
`D` (writing through to the `_general` array where the attribute is a view), sixteen in `ABD`, sixteen in `ABDE`;
item assignment to `None` raises `TypeError` and leaves the earlier assignments in place.  `E` is not touched. -/
def Lam.forceOrthotropic [DecidableEq K] (L : Lam K) : Lam K × Option LamError :=
  if L.offset ≠ 0 then (L, some .runtimeError)
  else
    match L.A with
    | none => (L, some .typeError)
    | some A =>
      let L := { L with A := some (zeroAt orthoPos3 A),
                        AG := if L.viewA then L.AG.map (zeroAt orthoPos3) else L.AG }
      match L.B with
      | none => (L, some .typeError)
      | some B =>
        let L := { L with B := some (zeroAt orthoPos3 B),
                          BG := if L.viewB then L.BG.map (zeroAt orthoPos3) else L.BG }
        match L.D with
        | none => (L, some .typeError)
        | some D =>
          let L := { L with D := some (zeroAt orthoPos3 D),
                            DG := if L.viewD then L.DG.map (zeroAt orthoPos3) else L.DG }
          match L.ABD with
          | none => (L, some .typeError)
          | some M =>
            let L := { L with ABD := some (zeroAt orthoPos6 M) }
            match L.ABDE with
            | none => (L, some .typeError)
            | some M8 => ({ L with ABDE := some (zeroAt orthoPos6 M8) }, none)

/-- `Laminate.force_symmetric`: `RuntimeError` unless `offset == 0`; `self.B = np.zeros((3,3))` (a NEW array:
`B_general` keeps its values), then the two coupling blocks of `ABD` and of `ABDE` are zeroed. -/
def Lam.forceSymmetric [DecidableEq K] (L : Lam K) : Lam K × Option LamError :=
  if L.offset ≠ 0 then (L, some .runtimeError)
  else
    let L := { L with B := some (fun _ _ => 0), viewB := false }
    match L.ABD with
    | none => (L, some .typeError)
    | some M =>
      let L := { L with ABD := some (zeroCoupling M) }
      match L.ABDE with
      | none => (L, some .typeError)
      | some M8 => ({ L with ABDE := some (zeroCoupling M8) }, none)

/-- `Laminate.calc_equivalent_modulus`; `inv` is `np.linalg.inv` (`none` = `LinAlgError`, also raised for `None`).
`AI = inv(ABD)` — the inverse of the full 6×6 matrix, not of `A` —, `a11, a12, a22, a33 = AI[0,0], AI[0,1], AI[1,1],
AI[2,2]`, `e1 = 1/(t a11)`, `e2 = 1/(t a22)`, `g12 = 1/(t a33)`, `nu12 = -a12/a11`, `nu21 = -a12/a22`. -/
def Lam.calcEquivalentModulus (inv : Mat 6 K → Option (Mat 6 K)) (L : Lam K) : Lam K × Option LamError :=
  match L.ABD with
  | none => (L, some .linAlgError)
  | some M =>
    match inv M with
    | none => (L, some .linAlgError)
    | some AI =>
      let a11 := AI 0 0
      let a12 := AI 0 1
      let a22 := AI 1 1
      let a33 := AI 2 2
      match L.t with
      | none => (L, some .typeError)
      | some t =>
        ({ L with e1 := some (1 / (t * a11)), e2 := some (1 / (t * a22)), g12 := some (1 / (t * a33)),
                  nu12 := some (-a12 / a11), nu21 := some (-a12 / a22) }, none)

/-! ## `read_stack` returning the object -/

/-- The ply list `read_stack` builds (the part of `readStack` before `lam.rebuild()`); `plies` without the four
trigonometric attributes. -/
def readStackPlies [DecidableEq K] (cs : List (K × K)) (plyt : Option K) (laminaprop : Option (List K))
    (plyts : List K) (laminaprops : List (List K)) : Except StackError (List (Ply K)) :=
  let plyts' : Except StackError (List K) :=
    if plyts.isEmpty then
      match plyt with
      | none => .error .noThickness
      | some t => if t = 0 then .error .noThickness else .ok (cs.map fun _ => t)
    else .ok plyts
  match plyts' with
  | .error e => .error e
  | .ok ts =>
    let props' : Except StackError (List (List K)) :=
      if laminaprops.isEmpty then
        match laminaprop with
        | none => .error .noLaminaprop
        | some p => if p.isEmpty then .error .noLaminaprop else .ok (cs.map fun _ => p)
      else .ok laminaprops
    match props' with
    | .error e => .error e
    | .ok ps =>
      let zipped : List (PlyIn K) :=
        (List.zip ts (List.zip ps cs)).map fun x => ⟨x.2.2.1, x.2.2.2, x.1, x.2.1⟩
      match mkPlies zipped with
      | none => .error .badLaminaprop
      | some plies => .ok plies

/-- `read_stack` as the constructor of the object: `lam.offset = offset`, the plies, `lam.rebuild()`,
`lam.calc_constitutive_matrix()`.  (`lam.matobj` stays `None`.) -/
def readStackLam [DecidableEq K] (cs : List (K × K)) (plyt : Option K) (laminaprop : Option (List K))
    (plyts : List K) (laminaprops : List (List K)) (offset : K) : Except StackError (Lam K) :=
  match readStackPlies cs plyt laminaprop plyts laminaprops with
  | .error e => .error e
  | .ok plies =>
    .ok (Lam.calcConstitutiveMatrix
      (Lam.rebuild { (Lam.fresh : Lam K) with offset := offset, plies := plies.map fun p => ⟨p.t, p.QL, none⟩ }))

end Compmech.Laminate
