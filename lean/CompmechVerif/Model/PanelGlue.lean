/-
Hand-written executable model of the PYTHON GLUE of `compmech/panel/_panel.py`:

    Panel._rebuild, Panel.get_size, check_c, Panel._get_lam_F (which matrix, which entries are zeroed),
    Panel.calc_k0, Panel.calc_kG0, Panel.calc_kT, Panel.calc_kM, Panel.calc_kA, Panel.calc_cA, Panel.calc_fint

i.e. everything between the user's panel definition and the compiled kernels: WHICH kernel of
`modelDB.db[model]['matrices' / 'matrices_num']` is called with WHICH scalar arguments in which order, what the panel
object looks like at that moment (`r`, `alpharad` are written by the glue just before), how the kernel results are combined
(`+=`, `finalize_symmetric_matrix`, `make_skew_symmetric`, `*1j`), which exception is raised for which input, and which
attributes the call leaves behind.  The kernels themselves are PARAMETERS (`Result.eval kern`); their models are the
regenerated `Gen/Panel/*` files (Props C02, C03, C04, C19).

A `Panel K` is the state of the Python object as far as these five methods read it (exactly the attributes they read);
`None` is `none`, so `y1 = 0.0` is `some 0` and is NOT `none`.  `Args` are the call arguments; an argument that the caller
did not pass is `none` and takes the default of the signature (`size=None`, `row0=0`, `col0=0`).

`alpharad = deg2rad(alphadeg)` is represented by its pre-image: `alpharadFrom = some x` means "the attribute `alpharad`
holds `numpy.deg2rad(x)`", `none` that the attribute does not exist (yet).  `(Mach**2 - 1)**0.5` enters `calcKA` as the
parameter `q`, as in `Model/Piston.lean` (whose `coefs` is re-used).

Tied to the running Python by the recorded-kernel-call correspondence `tools/props/C02.py : glue_correspondence` through
`Drv/C02.lean`; no Mathlib beyond the field / order hierarchy, so the same definitions run at ℚ in the driver and are
reasoned about over any linearly ordered field in `Props/C02.lean`, `Props/C03.lean`, `Props/C04.lean`.
-/
import Mathlib.Algebra.Field.Defs
import Mathlib.Order.Defs.LinearOrder
import CompmechVerif.Model.Assembly
import CompmechVerif.Model.Piston

namespace Compmech.PanelGlue
open Compmech.Asm

/-! ## the panel definition -/

/-- the four entries of `modelDB.db` -/
inductive ModelKind where
  | plate | plateW | cpanel | kpanel
deriving DecidableEq, Repr

/-- `modelDB.db[model]['num']` (degrees of freedom per pair of series indices) -/
def ModelKind.dofs : ModelKind → Nat
  | .plateW => 1
  | _ => 3

/-- `'kpanel' in self.model` -/
def ModelKind.conical : ModelKind → Bool
  | .kpanel => true
  | _ => false

/-- `'matrices_num' in modelDB.db[model]` -/
def ModelKind.hasNum : ModelKind → Bool
  | .plate | .cpanel => true
  | _ => false

/-- the module `db[model]['matrices']` defines `fkAx, fkAy, fcA` -/
def ModelKind.hasAero : ModelKind → Bool
  | .kpanel => false
  | _ => true

/-- the attribute `Panel.model`: `None`, a key of `modelDB.db`, or any other string -/
inductive ModelAttr where
  | unset | invalid | kind (k : ModelKind)
deriving DecidableEq, Repr

/-- `self.flow.lower()` -/
inductive Flow where
  | x | y | other
deriving DecidableEq, Repr

structure Panel (K : Type) where
  model : ModelAttr
  a : K
  b : K
  r : Option K
  alphadeg : Option K
  /-- pre-image under `deg2rad` of the attribute `alpharad`; `none`: no such attribute -/
  alpharadFrom : Option K
  y1 : Option K
  y2 : Option K
  offset : K
  mu : Option K
  Nxx : Option K
  Nyy : Option K
  Nxy : Option K
  NxxCte : Option K
  NyyCte : Option K
  NxyCte : Option K
  flow : Flow
  beta : Option K
  gamma : Option K
  aeromu : Option K
  mach : Option K
  rhoAir : K
  V : K
  speedSound : K
  m : Nat
  n : Nat
  /-- `self.nx, self.ny`: default numbers of integration points -/
  nx : Nat
  ny : Nat
  /-- the attribute `size`, which only `get_size()` creates -/
  sizeAttr : Option Nat
  forceOrtho : Bool
  /-- `len(self.stack)` (0: `None` or empty) -/
  stackLen : Nat
  /-- `bool(self.laminaprops)`, `bool(self.laminaprop)`, `bool(self.plyts)`, `self.plyt is not None` -/
  laminapropsSet : Bool
  laminapropSet : Bool
  plytsSet : Bool
  plytSet : Bool
  /-- `self.lam is not None` -/
  lamSet : Bool

/-- what `check_c` looks at -/
structure CArg where
  isArray : Bool
  ndim : Nat
  len : Nat
deriving DecidableEq, Repr

structure Args (K : Type) where
  size : Option Nat := none
  row0 : Option Nat := none
  col0 : Option Nat := none
  finalize : Bool := true
  c : Option CArg := none
  nx : Option Nat := none
  ny : Option Nat := none
  /-- `Fnxny is not None` -/
  fnxny : Bool := false
  nlgeom : Bool := false

/-! ## kernel calls, results, errors -/

inductive KName where
  | fk0 | fk0y1y2 | fkG0 | fkG0y1y2 | fkM | fkMy1y2 | fkAx | fkAy | fcA | fkL_num | fkG_num
  /-- `matrices_num.calc_fint(c, Fnxny, panel, size, col0, nx, ny)`: returns a VECTOR (typed memoryview) -/
  | calc_fint
deriving DecidableEq, Repr

/-- one positional (or the keyword `NLgeom=`) argument of a kernel call -/
inductive Arg (K : Type) where
  /-- a `double` -/
  | q (x : K)
  /-- an `int` -/
  | nat (n : Nat)
  /-- the panel object itself -/
  | panel
  /-- the caller's Ritz vector (made contiguous) -/
  | cGiven
  /-- `np.zeros(self.size)` -/
  | cZeros (len : Nat)
  /-- the panel's own laminate matrix (`self.F` / `self._get_lam_F()`: the same array object) -/
  | fOwn
  /-- the caller's `Fnxny` -/
  | fGiven
  /-- `NLgeom=int(NLgeom)` -/
  | kwNL (v : Nat)
deriving DecidableEq, Repr

structure KCall (K : Type) where
  /-- `false`: `db[model]['matrices']`, `true`: `db[model]['matrices_num']` -/
  num : Bool
  name : KName
  args : List (Arg K)
  /-- `panel.r` and the pre-image of `panel.alpharad` at the moment of the call -/
  r : Option K
  alpharadFrom : Option K
deriving DecidableEq, Repr

/-- how the kernel results become the returned matrix -/
inductive Comb where
  /-- the result of the `i`-th kernel call -/
  | call (i : Nat)
  /-- sparse `+` / `+=` -/
  | add (a b : Comb)
  /-- `finalize_symmetric_matrix` -/
  | fin (a : Comb)
  /-- `csr_matrix(make_skew_symmetric(·))` -/
  | skew (a : Comb)
deriving DecidableEq, Repr

inductive Store where
  | k0 | kG0 | kM | kA | cA | kT
deriving DecidableEq, Repr

structure Result (K : Type) where
  calls : List (KCall K)
  comb : Comb
  /-- the matrix is `1j` times the real matrix `comb` describes (`calc_cA`) -/
  imag : Bool := false
  /-- the attribute the matrix is stored in -/
  store : Store
  /-- `false`: the method returns `None` (`calc_cA`) -/
  returned : Bool := true
  /-- `offset=` handed to `laminate.read_stack` when the laminate is rebuilt -/
  lamOffset : Option K := none
deriving Repr

inductive Err where
  /-- ValueError `ERROR - valid models are` -/
  | rebuildModel
  /-- ValueError `stack must be defined` -/
  | rebuildStack
  /-- ValueError `laminaprop must be defined` -/
  | rebuildLaminaprop
  /-- ValueError `plyt must be defined` -/
  | rebuildPlyt
  /-- TypeError `"c" must be a NumPy ndarray object` -/
  | cNotArray
  /-- ValueError `"c" must be a 1-D ndarray object` -/
  | cNdim
  /-- ValueError `"c" must have the same size as the global stiffness matrix` -/
  | cSize
  /-- NotImplementedError `Partial domain from y1 to y2 not implemented for kL` -/
  | stripK0State
  /-- NotImplementedError `Only y1=0, y2=b is implemented!` -/
  | stripKGState
  /-- KeyError `matrices_num` -/
  | noNumModule
  /-- KeyError: `modelDB.db[self.model]` for a model that is `None` or no key -/
  | noModel
  /-- ValueError `Attribute "mu" (density) must be defined` -/
  | muMissing
  /-- NotImplementedError `Conical panels not supported` -/
  | conical
  /-- TypeError: `'kpanel' in None` -/
  | modelNoneIn
  /-- ValueError `Mach number cannot be a NoneValue` -/
  | machNone
  /-- ValueError `Mach number must be >= 1` -/
  | machBelowOne
  /-- ValueError `Invalid flow value, must be x or y` -/
  | flowInvalid
  /-- AttributeError: the panel has no attribute `size` -/
  | noSizeAttr
  /-- AttributeError: the kernel module has no such function -/
  | noKernel
  /-- RuntimeError `lam object is None!` -/
  | lamNone
  /-- ValueError `… is not a valid model option` (`calc_fint`: `self.model` is `None` or no key of `modelDB.db`) -/
  | fintModel
  /-- ValueError `matrices_num not implemented for model …` (`calc_fint` on a model without a numerical module) -/
  | fintNoNum
  /-- ValueError `calc_fint not implemented for model …` (a numerical module without `calc_fint`: none in `modelDB`) -/
  | fintNoKernel
  /-- TypeError: `calc_fint()` called without its required positional argument `c` -/
  | cMissing
  /-- ValueError `Buffer has wrong number of dimensions`: raised at the ENTRY of the compiled `calc_fint(double [:] cs, …)` -
  `Panel.calc_fint` itself does not call `check_c` -/
  | cBufferNdim
  /-- ValueError `Invalid shape for Finput!`: first statement of the compiled `calc_fint` on `np.asarray(None)`, i.e. when no
  `Fnxny` was passed and `self.F` is still `None` -/
  | finputShape
  /-- ValueError `dimension mismatch`: `finalize_symmetric_matrix(kG0_cte).dot(c)` with `len(c) != size` -/
  | dotMismatch
deriving DecidableEq, Repr

/-- the Python exception class -/
def Err.pyType : Err → String
  | .rebuildModel | .rebuildStack | .rebuildLaminaprop | .rebuildPlyt | .cNdim | .cSize | .muMissing | .machNone
  | .machBelowOne | .flowInvalid | .fintModel | .fintNoNum | .fintNoKernel | .cBufferNdim | .finputShape
  | .dotMismatch => "ValueError"
  | .cNotArray | .modelNoneIn | .cMissing => "TypeError"
  | .stripK0State | .stripKGState | .conical => "NotImplementedError"
  | .noNumModule | .noModel => "KeyError"
  | .noSizeAttr | .noKernel => "AttributeError"
  | .lamNone => "RuntimeError"

/-- the state the call leaves behind + its result or exception -/
structure Outcome (K : Type) where
  post : Panel K
  res : Except Err (Result K)

/-! ## combination of kernel results -/

section comb
variable {K : Type} [Field K]

/-- `sparse.make_skew_symmetric` (same definition as `Asm.makeSkewSymmetric` of Model/SkewLemmas.lean, repeated here so
that the driver does not import the lemma files; `PanelGlueLemmas.skewComplete_eq`) -/
def skewComplete (l : Coo K) : Coo K :=
  let u := l.filter fun e => decide (e.1 ≤ e.2.1)
  u ++ u.map fun e => if e.1 < e.2.1 then (e.2.1, e.1, -e.2.2) else (0, 0, 0)

/-- the matrix a combination denotes, given what every kernel call returned -/
def Comb.eval (res : Nat → Coo K) : Comb → Coo K
  | .call i => res i
  | .add a b => a.eval res ++ b.eval res
  | .fin a => finalize (a.eval res)
  | .skew a => skewComplete (a.eval res)

/-- the (real part of `-1j·`) matrix a method returns when the kernels are the function `kern` of the recorded call -/
def Result.eval (kern : KCall K → Coo K) (R : Result K) : Coo K :=
  R.comb.eval fun i => match R.calls[i]? with
    | some c => kern c
    | none => []

end comb

/-- `a + b + …` over the calls `0 … n` (left-nested, as `k0 += …` does) -/
def sumCalls : Nat → Comb
  | 0 => .call 0
  | n + 1 => .add (sumCalls n) (.call (n + 1))

def finWrap (fin : Bool) (c : Comb) : Comb := if fin then .fin c else c

/-- the same combination over calls numbered from `n` on -/
def Comb.shift (n : Nat) : Comb → Comb
  | .call i => .call (i + n)
  | .add a b => .add (a.shift n) (b.shift n)
  | .fin a => .fin (a.shift n)
  | .skew a => .skew (a.shift n)

/-! ## `_rebuild`, `get_size`, `check_c`, `_get_lam_F` -/

section glue
variable {K : Type} [Field K] [LinearOrder K]

/-- the model `_rebuild` selects when `self.model is None` (the combination `r is None, alphadeg given` selects nothing) -/
def autoModel (r alphadeg : Option K) : ModelAttr :=
  match r, alphadeg with
  | none, none => .kind .plate
  | some _, none => .kind .cpanel
  | some _, some _ => .kind .kpanel
  | none, some _ => .unset

/-- `Panel._rebuild`: the state it leaves and the exception it raises, if any -/
def rebuild (P : Panel K) : Panel K × Option Err :=
  let P1 : Panel K := match P.model with
    | .unset => { P with model := autoModel P.r P.alphadeg }
    | _ => P
  match P1.model with
  | .kind _ =>
    if P1.stackLen = 0 then (P1, some .rebuildStack)
    else if !P1.laminapropsSet && !P1.laminapropSet then (P1, some .rebuildLaminaprop)
    else
      let P2 : Panel K := { P1 with laminapropsSet := true }
      if !P2.plytsSet && !P2.plytSet then (P2, some .rebuildPlyt)
      else ({ P2 with plytsSet := true }, none)
  | _ => (P1, some .rebuildModel)

/-- the key of `modelDB.db` the attribute names -/
def ModelAttr.kind? : ModelAttr → Option ModelKind
  | .kind k => some k
  | _ => none

/-- `get_size()`: `num * m * n` -/
def getSize (k : ModelKind) (P : Panel K) : Nat := k.dofs * P.m * P.n

/-- `if size is None: size = self.get_size()` (which also creates the attribute `size`) -/
def resolveSize (k : ModelKind) (P : Panel K) (size : Option Nat) : Panel K × Nat :=
  match size with
  | some s => (P, s)
  | none => ({ P with sizeAttr := some (getSize k P) }, getSize k P)

def checkC (c : Option CArg) (size : Nat) : Option Err :=
  match c with
  | none => none
  | some c =>
    if !c.isArray then some .cNotArray
    else if c.ndim ≠ 1 then some .cNdim
    else if c.len ≠ size then some .cSize
    else none

/-- `alphadeg = self.alphadeg if … is not None else 0.; self.alpharad = deg2rad(alphadeg); self.r = self.r if … else 0.` -/
def refreshGeom (P : Panel K) : Panel K :=
  { P with alpharadFrom := some (P.alphadeg.getD 0), r := some (P.r.getD 0) }

/-- `self.lam = laminate.read_stack(…); self.F = self._get_lam_F()` -/
def lamRebuilt (P : Panel K) : Panel K := { P with lamSet := true }

/-- `row0=0, col0=0` of the signatures -/
def placement (A : Args K) (size : Nat) : List (Arg K) :=
  [.nat size, .nat (A.row0.getD 0), .nat (A.col0.getD 0)]

def mkCall (P : Panel K) (num : Bool) (name : KName) (args : List (Arg K)) : KCall K :=
  ⟨num, name, args, P.r, P.alpharadFrom⟩

/-- `self.y1 is not None and self.y2 is not None`: the bounds of the strip, if the panel is one -/
def strip? (P : Panel K) : Option (K × K) :=
  match P.y1, P.y2 with
  | some y1, some y2 => some (y1, y2)
  | _, _ => none

/-- entries `_get_lam_F` sets to zero under `force_orthotropic_laminate` (6×6 `ABD` of the CLT models) -/
def orthoZeros : List (Nat × Nat) :=
  [(0, 2), (1, 2), (2, 0), (2, 1), (0, 5), (5, 0), (1, 5), (5, 1), (3, 2), (2, 3), (4, 2), (2, 4), (3, 5), (4, 5), (5, 3), (5, 4)]

/-- `_get_lam_F` for the CLT models: `lam.ABD`, with the entries above zeroed when the option is set -/
def getLamF (forceOrtho : Bool) (ABD : Nat → Nat → K) (i j : Nat) : K :=
  if forceOrtho && orthoZeros.contains (i, j) then 0 else ABD i j

/-! ## `calc_k0` -/

/-- the constitutive-kernel call (`c`, `Fnxny`, `y1`, `y2` dispatch) -/
def k0Const (k : ModelKind) (P : Panel K) (A : Args K) (size : Nat) : Except Err (KCall K) :=
  match strip? P with
  | some (y1, y2) =>
    if A.c.isSome || A.fnxny then .error .stripK0State
    else .ok (mkCall P false .fk0y1y2 ([.q y1, .q y2, .panel] ++ placement A size))
  | none =>
    if A.c.isNone && !A.fnxny then .ok (mkCall P false .fk0 (.panel :: placement A size))
    else if !k.hasNum then .error .noNumModule
    else
      let tail : List (Arg K) := [if A.fnxny then .fGiven else .fOwn, .panel] ++ placement A size ++
        [.nat (A.nx.getD P.nx), .nat (A.ny.getD P.ny), .kwNL (if A.nlgeom then 1 else 0)]
      match A.c with
      | some _ => .ok (mkCall P true .fkL_num (.cGiven :: tail))
      | none =>
        match P.sizeAttr with
        | none => .error .noSizeAttr
        | some s => .ok (mkCall P true .fkL_num (.cZeros s :: tail))

/-- `Nxx_cte != 0. or Nyy_cte != 0. or Nxy_cte != 0.` with `None` read as `0.` -/
def preloaded (P : Panel K) : Bool :=
  decide (P.NxxCte.getD 0 ≠ 0) || decide (P.NyyCte.getD 0 ≠ 0) || decide (P.NxyCte.getD 0 ≠ 0)

/-- the initial-stress kernel call of the constant pre-load (none when every component is `None` or `0.`) -/
def k0Prestress (P : Panel K) (A : Args K) (size : Nat) : List (KCall K) :=
  if preloaded P then
    let N : List (Arg K) := [.q (P.NxxCte.getD 0), .q (P.NyyCte.getD 0), .q (P.NxyCte.getD 0), .panel]
    match strip? P with
    | some (y1, y2) => [mkCall P false .fkG0y1y2 ([.q y1, .q y2] ++ N ++ placement A size)]
    | none => [mkCall P false .fkG0 (N ++ placement A size)]
  else []

def calcK0 (P : Panel K) (A : Args K) : Outcome K :=
  match rebuild P with
  | (P1, some e) => ⟨P1, .error e⟩
  | (P1, none) =>
    match P1.model.kind? with
    | none => ⟨P1, .error .rebuildModel⟩          -- unreachable: `rebuild` succeeded
    | some k =>
      let (P2, size) := resolveSize k P1 A.size
      match checkC A.c size with
      | some e => ⟨P2, .error e⟩
      | none =>
        -- `self.stack is not None` holds after `_rebuild`: the laminate is always rebuilt, with `offset=self.offset`
        let P3 : Panel K := lamRebuilt (refreshGeom P2)
        match k0Const k P3 A size with
        | .error e => ⟨P3, .error e⟩
        | .ok c0 =>
          let calls := c0 :: k0Prestress P3 A size
          ⟨P3, .ok { calls := calls, comb := finWrap A.finalize (sumCalls (calls.length - 1)), store := .k0,
                     lamOffset := some P3.offset }⟩

/-! ## `calc_kG0` -/

def loadArgs (P : Panel K) : List (Arg K) :=
  [.q (P.Nxx.getD 0), .q (P.Nyy.getD 0), .q (P.Nxy.getD 0), .panel]

def calcKG0 (P : Panel K) (A : Args K) : Outcome K :=
  match rebuild P with
  | (P1, some e) => ⟨P1, .error e⟩
  | (P1, none) =>
    match P1.model.kind? with
    | none => ⟨P1, .error .rebuildModel⟩
    | some k =>
      let (P2, size) := resolveSize k P1 A.size
      match A.c with
      | none =>
        let P3 := refreshGeom P2
        let call := match strip? P3 with
          | some (y1, y2) => mkCall P3 false .fkG0y1y2 ([.q y1, .q y2] ++ loadArgs P3 ++ placement A size)
          | none => mkCall P3 false .fkG0 (loadArgs P3 ++ placement A size)
        ⟨P3, .ok { calls := [call], comb := finWrap A.finalize (.call 0), store := .kG0 }⟩
      | some _ =>
        match checkC A.c size with
        | some e => ⟨P2, .error e⟩
        | none =>
          if !k.hasNum then ⟨P2, .error .noNumModule⟩
          else
            let P3 := refreshGeom P2
            if P3.y1.isSome || P3.y2.isSome then ⟨P3, .error .stripKGState⟩
            else if !A.fnxny && !P3.lamSet then ⟨P3, .error .lamNone⟩
            else
              let call := mkCall P3 true .fkG_num
                ([.cGiven, if A.fnxny then .fGiven else .fOwn, .panel] ++ placement A size ++
                 [.nat (A.nx.getD P3.nx), .nat (A.ny.getD P3.ny), .kwNL (if A.nlgeom then 1 else 0)])
              ⟨P3, .ok { calls := [call], comb := finWrap A.finalize (.call 0), store := .kG0 }⟩

/-! ## `calc_kT` -/

/-- `calc_kT = calc_k0(…, NLgeom=True) + calc_kG0(…, NLgeom=True)` with every argument (`c`, `nx`, `ny`, `Fnxny`,
placement, `finalize`) forwarded to both; the second call sees the state the first one left -/
def calcKT (P : Panel K) (A : Args K) : Outcome K :=
  let A' : Args K := { A with nlgeom := true, row0 := some (A.row0.getD 0), col0 := some (A.col0.getD 0) }
  match calcK0 P A' with
  | ⟨P1, .error e⟩ => ⟨P1, .error e⟩
  | ⟨P1, .ok R1⟩ =>
    match calcKG0 P1 A' with
    | ⟨P2, .error e⟩ => ⟨P2, .error e⟩
    | ⟨P2, .ok R2⟩ =>
      ⟨P2, .ok { calls := R1.calls ++ R2.calls, comb := .add R1.comb (R2.comb.shift R1.calls.length), store := .kT,
                 lamOffset := R1.lamOffset }⟩

/-! ## `calc_fint`

`Panel.calc_fint(c, size=None, col0=0, silent, nx=None, ny=None, Fnxny=None, inc=None)`.  Unlike `calc_k0 / calc_kG0` it neither
calls `_rebuild` nor `check_c` nor rebuilds the laminate: it validates the MODEL itself (three `ValueError`s), refreshes `size`
(only when not passed), `alpharad`, `r`, hands `c` (made contiguous - a list is converted), `Fnxny` or else the attribute `self.F`
AS IT IS (`None` before the first `calc_k0`; `lamSet` stands for "`self.lam` and `self.F` are set": the glue only ever sets them
together), the panel, `size, col0` and `nx, ny` (argument, else `self.nx, self.ny`) to `matrices_num.calc_fint`, and - exactly under the
guard of `calc_k0` (`k0Prestress`: some `N*_cte` is a number different from 0) - adds
`finalize_symmetric_matrix(fkG0[y1y2](…N_cte…, self, size, col0, col0)).dot(c)`; the method has no `row0`, the pre-stress matrix is placed
at `(col0, col0)`.  The strip bounds are NOT looked at for the force kernel (no `NotImplementedError` as in `calc_k0(c=…)`); `finalize`,
`row0`, `NLgeom` of `Args` do not exist for this method and are ignored.  Nothing is stored on the panel. -/

/-- `getattr(matrices_num, 'calc_fint', None) is not None`: both numerical modules of `modelDB` define it -/
def ModelKind.hasFint (k : ModelKind) : Bool := k.hasNum

/-- the returned VECTOR in terms of the kernel results -/
structure VResult (K : Type) where
  /-- call 0: the internal-force kernel; call 1, if present: the initial-stress kernel of the constant pre-load -/
  calls : List (KCall K)
  /-- `true`: the method returns the ndarray `np.asarray(call 0) + finalize_symmetric_matrix(call 1).dot(c)`;
  `false`: it returns what the kernel returned (a typed memoryview), untouched -/
  prestress : Bool
deriving Repr

/-- the state the call leaves behind + the vector or exception -/
structure VOutcome (K : Type) where
  post : Panel K
  res : Except Err (VResult K)

/-- the vector `calc_fint` returns when `kernV` says what the force kernel returned, `kern` what the matrix kernels returned and
`c` is the caller's Ritz vector -/
def VResult.eval (kernV : KCall K → List K) (kern : KCall K → Coo K) (c : List K) (R : VResult K) : List K :=
  match R.calls with
  | [f] => kernV f
  | [f, g] => (List.range (kernV f).length).map fun i => (kernV f).getD i 0 + mulVecAt (finalize (kern g)) c i
  | _ => []

def calcFint (P : Panel K) (A : Args K) : VOutcome K :=
  match A.c with
  | none => ⟨P, .error .cMissing⟩
  | some cv =>
    match P.model with
    | .unset | .invalid => ⟨P, .error .fintModel⟩
    | .kind k =>
      if !k.hasNum then ⟨P, .error .fintNoNum⟩
      else if !k.hasFint then ⟨P, .error .fintNoKernel⟩
      else
        let (P1, size) := resolveSize k P A.size
        let P2 := refreshGeom P1
        -- entry of the compiled function: typed-memoryview conversion of `c`, then the shape test of `Finput`
        if 1 < cv.ndim then ⟨P2, .error .cBufferNdim⟩
        else if !A.fnxny && !P2.lamSet then ⟨P2, .error .finputShape⟩
        else
          let f := mkCall P2 true .calc_fint
            [.cGiven, if A.fnxny then .fGiven else .fOwn, .panel, .nat size, .nat (A.col0.getD 0),
             .nat (A.nx.getD P2.nx), .nat (A.ny.getD P2.ny)]
          -- the pre-stress kernel call of `calc_k0`, placed at `(col0, col0)`
          let pre := k0Prestress P2 { A with row0 := A.col0 } size
          if pre.isEmpty then ⟨P2, .ok { calls := [f], prestress := false }⟩
          else if cv.len ≠ size then ⟨P2, .error .dotMismatch⟩
          else ⟨P2, .ok { calls := f :: pre, prestress := true }⟩

/-! ## `calc_kM` -/

def calcKM (P : Panel K) (A : Args K) : Outcome K :=
  match P.model.kind? with
  | none => ⟨P, .error .noModel⟩
  | some k =>
    let P1 := refreshGeom P
    let (P2, size) := resolveSize k P1 A.size
    match P2.mu with
    | none => ⟨P2, .error .muMissing⟩
    | some _ =>
      let call := match strip? P2 with
        | some (y1, y2) => mkCall P2 false .fkMy1y2 ([.q y1, .q y2, .q (-P2.offset), .panel] ++ placement A size)
        | none => mkCall P2 false .fkM ([.q (-P2.offset), .panel] ++ placement A size)
      ⟨P2, .ok { calls := [call], comb := finWrap A.finalize (.call 0), store := .kM }⟩

/-! ## `calc_kA`, `calc_cA` -/

/-- `self.Mach = 1.0001` when the Mach route is taken with `Mach == 1` -/
def machPatched (P : Panel K) : Panel K :=
  match P.beta, P.mach with
  | none, some m => if m = 1 then { P with mach := some (10001 / 10000) } else P
  | _, _ => P

/-- `self.r = self.r if self.r is not None else 0.` (`calc_kA` does not touch `alpharad`) -/
def defaultR (P : Panel K) : Panel K := { P with r := some (P.r.getD 0) }

/-- the flow-direction dispatch of `calc_kA` once the coefficients are known -/
def kaDispatch (P : Panel K) (A : Args K) (size : Nat) (cf : Piston.Coefs K) : Except Err (Result K) :=
  match P.flow with
  | .x =>
    if A.finalize && decide (cf.gamma ≠ 0) then
      -- the flow term is completed skew-symmetrically, the curvature term symmetrically: two kernel calls
      .ok { calls := [mkCall P false .fkAx ([.q cf.beta, .q 0, .panel] ++ placement A size),
                      mkCall P false .fkAx ([.q 0, .q cf.gamma, .panel] ++ placement A size)],
            comb := .add (.skew (.call 0)) (.fin (.call 1)), store := .kA }
    else
      .ok { calls := [mkCall P false .fkAx ([.q cf.beta, .q cf.gamma, .panel] ++ placement A size)],
            comb := if A.finalize then .skew (.call 0) else .call 0, store := .kA }
  | .y =>
    .ok { calls := [mkCall P false .fkAy ([.q cf.beta, .panel] ++ placement A size)],
          comb := if A.finalize then .skew (.call 0) else .call 0, store := .kA }
  | .other => .error .flowInvalid

/-- `q` stands for `(Mach**2 - 1)**0.5` of the effective Mach number -/
def calcKA (P : Panel K) (A : Args K) (q : K) : Outcome K :=
  match P.model with
  | .unset => ⟨P, .error .modelNoneIn⟩
  | .invalid => ⟨P, .error .noModel⟩
  | .kind k =>
    if k.conical then ⟨P, .error .conical⟩
    else
      let (P1, size) := resolveSize k P A.size
      let P2 := defaultR P1
      match Piston.coefs P2.beta P2.gamma P2.aeromu P2.mach P2.rhoAir P2.V P2.speedSound (P2.r.getD 0) q with
      | .error .machNone => ⟨P2, .error .machNone⟩
      | .error .machBelowOne => ⟨P2, .error .machBelowOne⟩
      | .ok cf => ⟨machPatched P2, kaDispatch (machPatched P2) A size cf⟩

/-- `calc_cA(aeromu, finalize)`: no `size/row0/col0` arguments, no refresh of the geometry, returns `None` -/
def calcCA (P : Panel K) (aeromu : K) (fin : Bool) : Outcome K :=
  match P.model.kind? with
  | none => ⟨P, .error .noModel⟩
  | some k =>
    if !k.hasAero then ⟨P, .error .noKernel⟩
    else
      match P.sizeAttr with
      | none => ⟨P, .error .noSizeAttr⟩
      | some s =>
        ⟨P, .ok { calls := [mkCall P false .fcA [.q aeromu, .panel, .nat s, .nat 0, .nat 0]],
                  comb := finWrap fin (.call 0), imag := true, store := .cA, returned := false }⟩

end glue

end Compmech.PanelGlue
