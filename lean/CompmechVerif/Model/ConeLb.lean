/-
Hand-written executable model of the eigen-solver glue of `ConeCyl.lb` (compmech/conecyl/conecyl.py), the third copy of the
linear-buckling glue:

    A = A[pos:, pos:];  M = M[pos:, pos:]                      # the `pos = num0` prescribed amplitudes are cut off
    try:    eigvals, eigvecs = eigsh(A=A, k=num, which='SM', M=M, tol=tol, sigma=1., mode='cayley')
    except: size22 = M.shape[0];  M, A, used_cols = remove_null_cols(M, A)
            try:    eigvals, peigvecs = eigsh(A=A, k=num, ..., mode='cayley')
            except: eigvals, peigvecs = eigsh(A=A, k=num, ..., mode='buckling')
            eigvecs = np.zeros((size22, num));  eigvecs[used_cols, :] = peigvecs
    eigvals = -1./eigvals
    self.eigvecs = np.vstack((np.zeros((pos, num)), eigvecs))

`Mc` is the sliced stiffness-side matrix `M` (`k0`, or `k0 + kG0_T / kG0_P / kG0_Fc` for a combined load case) with `nred`
rows; which matrices are `M` and `A` for each `combined_load_case` is the function `coneLbPencil`.  The solvers are
parameters (`first`, `second`, `third` = what each `eigsh` call returned, `none` = it raised).
Differences from `lb` (Model/EigPost.lean): the request is never capped (`k = num_eigvalues`), the mode array of the
fallback is allocated with `num` columns, a third attempt in `buckling` mode exists, and `pos` zero rows are stacked on top.
-/
import CompmechVerif.Model.EigPost

namespace Compmech.EigPost

section conelb
variable {K : Type} [Field K] [DecidableEq K]

/-- `np.vstack((np.zeros((pos, num)), eigvecs))`: numpy insists on equal column counts -/
def vstackZeros (pos num : Nat) (e : Block K) : Except Err (Block K) :=
  if e.ncols = num then .ok ⟨pos + e.rows, e.cols.map fun col => List.replicate pos 0 ++ col⟩
  else .error (.columnStack num e.ncols)

def coneLb (nred pos num : Nat) (Mc : Coo K) (first second third : Option (Out K K)) :
    List Req × Except Err (Out (Option K) K) :=
  let r1 := eigshReq (num : Int) (fullRef .KG) (fullRef .K)
  match first with
  | some o => ([r1], (vstackZeros pos num o.vecs).map fun e => ⟨negInvVals o.vals, e⟩)
  | none =>
    let used := usedCols nred Mc
    let r2 := eigshReq (num : Int) (subRef .KG used false) (subRef .K used false)
    let r3 : Req := { r2 with mode := some "buckling" }
    let fin (o : Out K K) : Except Err (Out (Option K) K) :=
      (assignRows nred num used o.vecs).bind fun e => (vstackZeros pos num e).map fun e' => ⟨negInvVals o.vals, e'⟩
    match second with
    | some o => ([r1, r2], fin o)
    | none =>
      match third with
      | some o => ([r1, r2, r3], fin o)
      | none => ([r1, r2, r3], .error (.solverRaised 3))

/-- which of the linear matrices play the roles `M` (stiffness side) and `A` (load side) of the pencil `A v = μ M v`,
`λ = -1/μ`: `0` = no combined load case -/
inductive ConeMat where
  | k0 | kG0 | kG0_Fc | kG0_P | kG0_T
deriving Repr, DecidableEq

def coneLbPencil : Nat → Option (List ConeMat × ConeMat)
  | 0 => some ([.k0], .kG0)
  | 1 => some ([.k0, .kG0_T], .kG0_Fc)
  | 2 => some ([.k0, .kG0_P], .kG0_Fc)
  | 3 => some ([.k0, .kG0_Fc], .kG0_T)
  | _ => none

end conelb

end Compmech.EigPost
