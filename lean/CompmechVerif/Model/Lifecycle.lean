/-
Hand-written executable model of the *object life-cycle* of the public evaluation calls of

  compmech/panel/_panel.py          class Panel            (namespace `Lifecycle.Panel`, complete)
  compmech/panel/connections/penalty_constants.py  calc_kt_kr  (op `ktkr` of the Panel machine)
  compmech/panel/assembly/assembly.py  class PanelAssembly (namespace `Lifecycle.Asm`,  abstract)
  compmech/stiffpanelbay/stiffpanelbay.py  StiffPanelBay   (namespace `Lifecycle.Bay`,  abstract)
  compmech/conecyl/conecyl.py       class ConeCyl          (namespace `Lifecycle.Cone`, abstract)

What is modelled.  Numbers are *not* modelled.  A definition (`Def`) records which user attributes
are present and which branch-deciding classes they fall into; the hidden state (`Hidden`) records
the lazily derived attributes (`model, r, alpharad, plyts, laminaprops, lam, F, size, Mach`) as
*provenance tokens* ("None", "user value", "[plyt for i in stack]", "read_stack(plyts, laminaprops,
offset)" ...).  Every public method is transcribed, statement by statement, into a list of
micro-instructions (`prog`): each instruction reads some hidden attributes, may raise an exception
class, may write attributes, and kernel calls record *which provenance tokens they consumed*.  The
result of a call is the list of kernel tokens it returned (`Tok` = kernel names + consumed
provenances); "same result" in the theorems means equality of these tokens.

The tie to the code is the differential correspondence of tools/props/C20.py: for random
definitions and random call sequences the real object (wrapped so that every attribute read and
write is logged) must show, call by call, the same outcome class, the same ordered set of
attributes written and the same set of hidden attributes read as this model.
-/

namespace Compmech.Lifecycle

/-- exception classes distinguished by the correspondence -/
inductive Err where
  | ValueError | KeyError | TypeError | RuntimeError | AttributeError | NotImplementedError
  | NameError | AssertionError
deriving DecidableEq, Repr, Inhabited

namespace Panel

/-! ### values -/

/-- keys of `compmech.panel.modelDB.db` -/
inductive MName where
  | plate | plateW | cpanel | kpanel
deriving DecidableEq, Repr

/-- `self.model`: `None`, a key of the data base, or any other string -/
inductive MVal where
  | none | valid (m : MName) | bogus
deriving DecidableEq, Repr

/-- `self.r`: `None`, the literal `0.` written by the methods, or the user's radius -/
inductive RVal where
  | none | zero | given
deriving DecidableEq, Repr

/-- `self.plyts` / `self.laminaprops`: falsy, the user's list, or `[x for i in self.stack]` -/
inductive Seq where
  | none | given | rep
deriving DecidableEq, Repr

/-- laminate offset handed to `laminate.read_stack`: the literal default `0.` or `self.offset` (≠ 0) -/
inductive OffTok where
  | zero | own
deriving DecidableEq, Repr

/-- `self.lam` -/
inductive LamVal where
  | none | built (plyts lps : Seq) (off : OffTok)
deriving DecidableEq, Repr

/-- `self.F` (the `ABD` array of the laminate object it was taken from) -/
inductive FVal where
  | none | abd (l : LamVal)
deriving DecidableEq, Repr

/-- `self.size` (the attribute does not exist before the first `get_size`) -/
inductive SizeVal where
  | missing | of (m : MName)
deriving DecidableEq, Repr

/-- `self.Mach`: `None`, `< 1`, `== 1`, the `1.0001` written by `calc_kA`, `> 1` -/
inductive MachVal where
  | none | lt1 | eq1 | bumped | gt1
deriving DecidableEq, Repr

inductive Y12 where
  | none | one | both
deriving DecidableEq, Repr

inductive Flow where
  | x | y | bad
deriving DecidableEq, Repr

/-- `freq(atype=1..4)` -/
inductive AType where
  | a1 | a2 | a3 | a4
deriving DecidableEq, Repr

/-- The definition: what the caller supplied to `Panel(...)` / set before the first evaluation. -/
structure Def where
  model : MVal          -- keyword `model`
  rGiven : Bool         -- `r is not None`
  alphaGiven : Bool     -- `alphadeg is not None`
  stack : Bool          -- `stack` truthy
  laminaprop : Bool     -- `laminaprop` truthy
  laminaprops : Bool    -- keyword `laminaprops` truthy
  plyt : Bool           -- `plyt is not None`
  plyts : Bool          -- keyword `plyts` truthy
  mu : Bool             -- `mu is not None`
  y12 : Y12             -- which of `y1`, `y2` are given
  offsetZero : Bool     -- `offset == 0.`
  cte : Bool            -- one of `Nxx_cte, Nyy_cte, Nxy_cte` is non-zero
  betaGiven : Bool      -- `beta is not None`
  mach : MachVal        -- class of the user's `Mach` (never `bumped`)
  flow : Flow
  forces : Bool         -- `forces` or `forces_inc` non-empty
deriving DecidableEq, Repr

/-- the lazily derived attributes -/
structure Hidden where
  model : MVal
  r : RVal
  alpha : Bool          -- attribute `alpharad` exists
  plyts : Seq
  lps : Seq
  lam : LamVal
  F : FVal
  size : SizeVal
  mach : MachVal
deriving DecidableEq, Repr

def RVal.isSet : RVal → Bool
  | .none => false
  | _ => true

def initR (d : Def) : RVal := if d.rGiven then .given else .none
def initSeq (b : Bool) : Seq := if b then .given else .none

/-- state of a freshly constructed `Panel` -/
def init (d : Def) : Hidden :=
  { model := d.model, r := initR d, alpha := false, plyts := initSeq d.plyts, lps := initSeq d.laminaprops,
    lam := .none, F := .none, size := .missing, mach := d.mach }

/-- `_rebuild`, model selection from `(r is not None, alphadeg is not None)` -/
def derive (rSet aGiven : Bool) : MVal :=
  match rSet, aGiven with
  | false, false => .valid .plate
  | true, false => .valid .cpanel
  | true, true => .valid .kpanel
  | false, true => .none

/-! ### canonical ("function of the definition only") values of the hidden attributes -/

def cModel (d : Def) : MVal :=
  match d.model with
  | .none => derive d.rGiven d.alphaGiven
  | m => m
def cR (d : Def) : RVal := if d.rGiven then .given else .zero
def cSeq (b : Bool) : Seq := if b then .given else .rep
def offTok (d : Def) : OffTok := if d.offsetZero then .zero else .own
def cLam (d : Def) : LamVal := .built (cSeq d.plyts) (cSeq d.laminaprops) (offTok d)
def cF (d : Def) : FVal := .abd (cLam d)
def cSize (d : Def) : SizeVal :=
  match cModel d with
  | .valid m => .of m
  | _ => .missing
def cMach (d : Def) : MachVal := if d.mach = .eq1 then .bumped else d.mach

/-- the fully derived state -/
def canonH (d : Def) : Hidden :=
  { model := cModel d, r := cR d, alpha := true, plyts := cSeq d.plyts, lps := cSeq d.laminaprops,
    lam := cLam d, F := cF d, size := cSize d, mach := cMach d }

/-! ### instructions -/

/-- attributes whose reads / writes are compared with the implementation -/
inductive Attr where
  | model | r | alpharad | plyts | laminaprops | lam | F | size | Mach
  | k0 | kG0 | kT | kM | kA | cA | eigvals | eigvecs | u | v | w | phix | phiy | Xs | Ys | increments
deriving DecidableEq, Repr

/-- output attributes that some method reads back (`lb`, `freq`) -/
inductive Reg where
  | k0 | kG0 | kM | kA
deriving DecidableEq, Repr

def Reg.attr : Reg → Attr
  | .k0 => .k0 | .kG0 => .kG0 | .kM => .kM | .kA => .kA

inductive Kern where
  | fk0 | fk0y1y2 | fkG0 | fkG0y1y2 | fkM | fkMy1y2 | fkAx | fkAy | fcA
  | fkLnum | fkGnum | fint | fuvw | fstrain | stressMul | fg | fextAcc
  | eigLb | eigFreq | solve | ktkr | sizeVal
deriving DecidableEq, Repr

/-- hidden attributes a compiled kernel reads from the panel object, in source order -/
inductive Need where
  | r | alpha | lam | plyts | size
deriving DecidableEq, Repr

def needs : MName → Kern → List Need
  | .kpanel, .fk0 | .kpanel, .fk0y1y2 => [.r, .alpha, .lam]
  | .cpanel, .fk0 | .cpanel, .fk0y1y2 => [.r, .lam]
  | _, .fk0 | _, .fk0y1y2 => [.lam]
  | .kpanel, .fkG0 | .kpanel, .fkG0y1y2 => [.r, .alpha]
  | .kpanel, .fkM | .kpanel, .fkMy1y2 => [.r, .alpha, .plyts]
  | _, .fkM | _, .fkMy1y2 => [.plyts]
  | .cpanel, .fkLnum | .cpanel, .fkGnum | .cpanel, .fint => [.r]
  | _, .fstrain => [.r, .alpha]
  | _, .ktkr => [.lam]
  | _, .sizeVal => [.size]
  | _, _ => []

/-- what a kernel (or the glue on its behalf) consumed -/
inductive V where
  | model (m : MName) | r (x : RVal) | alpha | plyts (s : Seq) | lam (l : LamVal) | F (f : FVal)
  | size (z : SizeVal) | mach (m : MachVal)
deriving DecidableEq, Repr

/-- static conditions on the definition -/
inductive Cond where
  | stack | mu | notY12both | y12none | cte | forces | notBeta | alphaZero
deriving DecidableEq, Repr

def Cond.holds (d : Def) : Cond → Bool
  | .stack => d.stack
  | .mu => d.mu
  | .notY12both => (match d.y12 with | .both => false | _ => true)
  | .y12none => (match d.y12 with | .none => true | _ => false)
  | .cte => d.cte
  | .forces => d.forces
  | .notBeta => !d.betaGiven
  | .alphaZero => !d.alphaGiven     -- `alpharad == 0` (a given `alphadeg` is assumed non-zero)

/-- optional features of the model data base entries -/
inductive Feat where
  | matricesNum   -- key 'matrices_num' (plate, cpanel)
  | fstrain       -- field module has `fstrain` (all but plate_w)
  | aero          -- `calc_kA` refuses conical panels
  | fcA           -- matrices module has `fcA` (all but kpanel)
deriving DecidableEq, Repr

def Feat.has : Feat → MName → Bool
  | .matricesNum, .plate | .matricesNum, .cpanel => true
  | .matricesNum, _ => false
  | .fstrain, .plateW => false
  | .aero, .kpanel => false
  | .fcA, .kpanel => false
  | _, _ => true

inductive Instr where
  | deriveModel                           -- `_rebuild`: `if self.model is None: ...`
  | modelCheck (eNone eBogus : Err)       -- a use of `self.model` that needs a data-base key
  | failUnless (c : Cond) (e : Err)
  | deriveLps | derivePlyts               -- `_rebuild`: `if not self.laminaprops: ...`
  | setSize                               -- `get_size()`
  | setAlpha                              -- `self.alpharad = deg2rad(alphadeg or 0.)`
  | setR                                  -- `self.r = self.r if self.r is not None else 0.`
  | buildLam                              -- `self.lam = read_stack(stack, plyts, laminaprops, offset=self.offset)`
  | buildLamIfNone                        -- `calc_kt_kr.build_panel_lam`: read_stack *without* offset
  | setF                                  -- `self.F = self._get_lam_F()`
  | supports (f : Feat) (e : Err)
  | needLamF                              -- `Fnxny = self._get_lam_F()`
  | needF (e : Err)                       -- `self.F` consumed; `e` if it is `None`
  | mach                                  -- Mach branch of `calc_kA`
  | kern (k : Kern)
  | kernY (full part : Kern)              -- `y1`/`y2` variant
  | kernFlow                              -- `fkAx` / `fkAy` / ValueError
  | push | drop
  | out (a : Attr)                        -- `self.<a> = <last result>`
  | readReg (r : Reg)                     -- `self.k0` ... read back
  | touch (a : Attr)                      -- attribute write without a modelled value
  | when (c : Cond) (i : Instr)
deriving DecidableEq, Repr

/-! ### semantics on the hidden attributes -/

def needFail (h : Hidden) : Need → Option Err
  | .r => if h.r = .none then some .TypeError else none
  | .alpha => if h.alpha then none else some .AttributeError
  | .lam => if h.lam = .none then some .AttributeError else none
  | .plyts => if h.plyts = .none then some .TypeError else none
  | .size => if h.size = .missing then some .AttributeError else none

def needVal (h : Hidden) : Need → V
  | .r => .r h.r
  | .alpha => .alpha
  | .lam => .lam h.lam
  | .plyts => .plyts h.plyts
  | .size => .size h.size

def firstFail (h : Hidden) : List Need → Option Err
  | [] => none
  | n :: ns => match needFail h n with
    | some e => some e
    | none => firstFail h ns

def kernStep (h : Hidden) (k : Kern) : Except Err Hidden :=
  match h.model with
  | .valid m => match firstFail h (needs m k) with
    | some e => .error e
    | none => .ok h
  | _ => .error .KeyError

def ySel (d : Def) (full part : Kern) : Kern := if d.y12 = .both then part else full

/-- effect of one instruction on the hidden attributes (`.error e`: raises `e`, nothing written) -/
def hstep (d : Def) : Instr → Hidden → Except Err Hidden
  | .deriveModel, h =>
      if h.model = .none then .ok { h with model := derive h.r.isSet d.alphaGiven } else .ok h
  | .modelCheck eNone eBogus, h =>
      match h.model with
      | .none => .error eNone
      | .bogus => .error eBogus
      | .valid _ => .ok h
  | .failUnless c e, h => if c.holds d then .ok h else .error e
  | .deriveLps, h =>
      if h.lps = .none then (if d.laminaprop then .ok { h with lps := .rep } else .error .ValueError) else .ok h
  | .derivePlyts, h =>
      if h.plyts = .none then (if d.plyt then .ok { h with plyts := .rep } else .error .ValueError) else .ok h
  | .setSize, h =>
      match h.model with
      | .valid m => .ok { h with size := .of m }
      | _ => .error .KeyError
  | .setAlpha, h => .ok { h with alpha := true }
  | .setR, h => .ok { h with r := if h.r = .none then .zero else h.r }
  | .buildLam, h =>
      if h.plyts = .none ∨ h.lps = .none then .error .TypeError
      else .ok { h with lam := .built h.plyts h.lps (offTok d) }
  | .buildLamIfNone, h =>
      if h.lam = .none then
        (if h.plyts = .none ∨ h.lps = .none then .error .ValueError
         else .ok { h with lam := .built h.plyts h.lps .zero })
      else .ok h
  | .setF, h =>
      if h.lam = .none then .error .RuntimeError
      else match h.model with
        | .valid _ => .ok { h with F := .abd h.lam }
        | _ => .error .TypeError
  | .supports f e, h =>
      match h.model with
      | .valid m => if f.has m then .ok h else .error e
      | _ => .error .KeyError
  | .needLamF, h =>
      if h.lam = .none then .error .RuntimeError
      else match h.model with
        | .valid _ => .ok h
        | _ => .error .TypeError
  | .needF e, h => if h.F = .none then .error e else .ok h
  | .mach, h =>
      match h.mach with
      | .none => .error .ValueError
      | .lt1 => .error .ValueError
      | .eq1 => .ok { h with mach := .bumped }
      | _ => .ok h
  | .kern k, h => kernStep h k
  | .kernY full part, h => kernStep h (ySel d full part)
  | .kernFlow, h =>
      match d.flow with
      | .x => kernStep h .fkAx
      | .y => kernStep h .fkAy
      | .bad => .error .ValueError
  | .when c i, h => if c.holds d then hstep d i h else .ok h
  | _, h => .ok h

/-- provenance tokens consumed by an instruction, read off the state *before* it -/
def kernRec (h : Hidden) (k : Kern) : List V :=
  match h.model with
  | .valid m => .model m :: (needs m k).map (needVal h)
  | _ => []

def record (d : Def) : Instr → Hidden → List V
  | .needLamF, h => [.lam h.lam]
  | .needF _, h => [.F h.F]
  | .mach, h => [.mach (if h.mach = .eq1 then .bumped else h.mach)]
  | .kern k, h => kernRec h k
  | .kernY full part, h => kernRec h (ySel d full part)
  | .kernFlow, h => kernRec h (if d.flow = .x then .fkAx else .fkAy)
  | .when c i, h => if c.holds d then record d i h else []
  | _, _ => []

/-! ### semantics on results and output attributes -/

/-- result token: kernels invoked and provenances consumed -/
abbrev Tok := List Kern × List V

structure Regs where
  k0 : Option Tok
  kG0 : Option Tok
  kM : Option Tok
  kA : Option Tok
deriving DecidableEq, Repr

def Regs.empty : Regs := ⟨none, none, none, none⟩

def Regs.get (g : Regs) : Reg → Option Tok
  | .k0 => g.k0 | .kG0 => g.kG0 | .kM => g.kM | .kA => g.kA

def Regs.set (g : Regs) (r : Reg) (t : Option Tok) : Regs :=
  match r with
  | .k0 => { g with k0 := t } | .kG0 => { g with kG0 := t }
  | .kM => { g with kM := t } | .kA => { g with kA := t }

def Attr.reg? : Attr → Option Reg
  | .k0 => some .k0 | .kG0 => some .kG0 | .kM => some .kM | .kA => some .kA
  | _ => none

/-- working data of one call: consumed-so-far, the value being built, values kept in locals -/
structure Work where
  cur : List V
  last : Option Tok
  locals : List Tok
deriving DecidableEq, Repr

def Work.start : Work := ⟨[], none, []⟩

def Work.kernel (x : Work) (k : Kern) (vs : List V) : Work :=
  match x.last with
  | none => { x with cur := [], last := some ([k], x.cur ++ vs) }
  | some (ks, ws) => { x with cur := [], last := some (ks ++ [k], ws ++ x.cur ++ vs) }

/-- effect of an instruction on the working data, given the tokens `vs` it consumed -/
def wstep (d : Def) : Instr → List V → Work → Work
  | .needLamF, vs, x | .needF _, vs, x | .mach, vs, x => { x with cur := x.cur ++ vs }
  | .kern k, vs, x => x.kernel k vs
  | .kernY full part, vs, x => x.kernel (ySel d full part) vs
  | .kernFlow, vs, x => x.kernel (if d.flow = .x then .fkAx else .fkAy) vs
  | .push, _, x => { x with locals := x.locals ++ x.last.toList, last := none, cur := [] }
  | .drop, _, x => { x with last := none, cur := [] }
  | .when c i, vs, x => if c.holds d then wstep d i vs x else x
  | _, _, x => x

/-- registers: `out` stores the value being built, `readReg` copies a register into the locals -/
def rstep : Instr → Work × Regs → Work × Regs
  | .out a, (x, g) => match a.reg? with
    | some r => (x, g.set r x.last)
    | none => (x, g)
  | .readReg r, (x, g) => ({ x with locals := x.locals ++ (g.get r).toList }, g)
  | _, p => p

structure St where
  h : Hidden
  x : Work
  g : Regs
deriving DecidableEq, Repr

def exec (d : Def) (i : Instr) (s : St) : Except Err St :=
  match hstep d i s.h with
  | .error e => .error e
  | .ok h' =>
    let p := rstep i (wstep d i (record d i s.h) s.x, s.g)
    .ok ⟨h', p.1, p.2⟩

/-- run a program; on an exception the state reached so far is kept -/
def run (d : Def) : List Instr → St → St × Option Err
  | [], s => (s, none)
  | i :: is, s => match exec d i s with
    | .error e => (s, some e)
    | .ok s' => run d is s'

/-! ### read / write footprints (compared with the logged attribute accesses) -/

def Need.attr : Need → Attr
  | .r => .r | .alpha => .alpharad | .lam => .lam | .plyts => .plyts | .size => .size

/-- attributes a kernel reads up to and including the first unusable one -/
def needReads (h : Hidden) : List Need → List Attr
  | [] => []
  | n :: ns => n.attr :: (match needFail h n with
    | some _ => []
    | none => needReads h ns)

def kernReads (h : Hidden) (k : Kern) : List Attr :=
  match h.model with
  | .valid m => needReads h (needs m k)
  | _ => []

/-- hidden attributes read by an instruction executed in state `h` (whether or not it raises) -/
def reads (d : Def) : Instr → Hidden → List Attr
  | .deriveModel, h => if h.model = .none then [.model, .r] else [.model]
  | .modelCheck _ _, _ => [.model]
  | .deriveLps, _ => [.laminaprops]
  | .derivePlyts, _ => [.plyts]
  | .setSize, h => (match h.model with | .valid _ => [.model, .size] | _ => [.model])
  | .setR, _ => [.r]
  | .buildLam, _ => [.plyts, .laminaprops]
  | .buildLamIfNone, h => if h.lam = .none then [.lam, .plyts, .laminaprops] else [.lam]
  | .setF, h => if h.lam = .none then [.lam] else [.lam, .model]
  | .supports _ _, _ => [.model]
  | .needLamF, h => if h.lam = .none then [.lam] else [.lam, .model]
  | .needF _, _ => [.F]
  | .mach, _ => [.Mach]
  | .kern k, h => kernReads h k
  | .kernY full part, h => kernReads h (ySel d full part)
  | .kernFlow, h => (match d.flow with | .x => kernReads h .fkAx | .y => kernReads h .fkAy | .bad => [])
  | .readReg r, _ => [r.attr]
  | .when c i, h => if c.holds d then reads d i h else []
  | _, _ => []

/-- attributes written by an instruction that did not raise -/
def writes (d : Def) : Instr → Hidden → List Attr
  | .deriveModel, h => if h.model = .none ∧ derive h.r.isSet d.alphaGiven ≠ .none then [.model] else []
  | .deriveLps, h => if h.lps = .none then [.laminaprops] else []
  | .derivePlyts, h => if h.plyts = .none then [.plyts] else []
  | .setSize, _ => [.size]
  | .setAlpha, _ => [.alpharad]
  | .setR, _ => [.r]
  | .buildLam, _ => [.lam]
  | .buildLamIfNone, h => if h.lam = .none then [.lam] else []
  | .setF, _ => [.F]
  | .mach, h => if h.mach = .eq1 then [.Mach] else []
  | .out a, _ => [a]
  | .touch a, _ => [a]
  | .when c i, h => if c.holds d then writes d i h else []
  | _, _ => []

structure Log where
  rd : List Attr
  wr : List Attr
deriving DecidableEq, Repr

def footprint (d : Def) : List Instr → Hidden → Log
  | [], _ => ⟨[], []⟩
  | i :: is, h => match hstep d i h with
    | .error _ => ⟨reads d i h, []⟩
    | .ok h' =>
      let l := footprint d is h'
      ⟨reads d i h ++ l.rd, writes d i h ++ l.wr⟩

/-! ### the public calls -/

inductive Op where
  | getSize
  | k0 (sizeArg : Bool)      -- `calc_k0()` / `calc_k0(size=N)`
  | kL (fGiven : Bool)       -- `calc_k0(c=c)` / `calc_k0(c=c, Fnxny=F)`
  | kG0 (sizeArg : Bool)
  | kG (fGiven : Bool)       -- `calc_kG0(c=c[, Fnxny=F])`
  | kT (fGiven : Bool)       -- `calc_kT(c=c[, Fnxny=F])`
  | kM (sizeArg : Bool)
  | kA (sizeArg : Bool)
  | cA
  | lb
  | freq (atype : AType)
  | fext (sizeArg : Bool)
  | fint (fGiven : Bool)
  | static
  | uvw
  | strain
  | stress (fGiven : Bool)
  | ktkr                     -- `connections.calc_kt_kr(p, ·, ·)`, as far as it concerns `p`
deriving DecidableEq, Repr

def rebuild : List Instr :=
  [.deriveModel, .modelCheck .ValueError .ValueError, .failUnless .stack .ValueError, .deriveLps, .derivePlyts]

def lookup : Instr := .modelCheck .KeyError .KeyError

def sizeUnless (sizeArg : Bool) : List Instr := if sizeArg then [] else [.setSize]

def progK0 (sizeArg : Bool) : List Instr :=
  rebuild ++ sizeUnless sizeArg ++
  [lookup, .setAlpha, .setR, .buildLam, .setF, .kernY .fk0 .fk0y1y2,
   .when .cte (.kernY .fkG0 .fkG0y1y2), .out .k0]

def progKL (sizeArg fGiven : Bool) : List Instr :=
  rebuild ++ sizeUnless sizeArg ++
  [lookup, .setAlpha, .setR, .buildLam, .setF, .failUnless .notY12both .NotImplementedError,
   .supports .matricesNum .KeyError] ++
  (if fGiven then [] else [.needF .ValueError]) ++
  [.kern .fkLnum, .when .cte (.kern .fkG0), .out .k0]

def progKG0 (sizeArg : Bool) : List Instr :=
  rebuild ++ sizeUnless sizeArg ++ [lookup, .setAlpha, .setR, .kernY .fkG0 .fkG0y1y2, .out .kG0]

def progKG (sizeArg fGiven : Bool) : List Instr :=
  rebuild ++ sizeUnless sizeArg ++
  [.supports .matricesNum .KeyError, .setAlpha, .setR, .failUnless .y12none .NotImplementedError] ++
  (if fGiven then [] else [.needLamF]) ++
  [.kern .fkGnum, .out .kG0]

def progKM (sizeArg : Bool) : List Instr :=
  [lookup, .setAlpha, .setR] ++ sizeUnless sizeArg ++
  [.failUnless .mu .ValueError, .kernY .fkM .fkMy1y2, .out .kM]

def progKA (sizeArg : Bool) : List Instr :=
  [.modelCheck .TypeError .KeyError, .supports .aero .NotImplementedError, lookup] ++ sizeUnless sizeArg ++
  [.setR, .when .notBeta .mach, .kernFlow, .out .kA]

def progFext (sizeArg : Bool) : List Instr :=
  rebuild ++ [.modelCheck .ValueError .ValueError, lookup] ++ sizeUnless sizeArg ++
  [.setSize, .when .forces (.kern .fg), .kern .fextAcc]

def progFint (sizeArg fGiven : Bool) : List Instr :=
  [.modelCheck .ValueError .ValueError, .supports .matricesNum .ValueError] ++ sizeUnless sizeArg ++
  [.setAlpha, .setR] ++ (if fGiven then [] else [.needF .ValueError]) ++ [.kern .fint]

def progStrain : List Instr :=
  [.touch .Xs, .touch .Ys, lookup, .supports .fstrain .AttributeError, .kern .fstrain,
   .failUnless .alphaZero .NotImplementedError]

def prog : Op → List Instr
  | .getSize => [.setSize, .kern .sizeVal]
  | .k0 sa => progK0 sa
  | .kL fg => progKL false fg
  | .kG0 sa => progKG0 sa
  | .kG fg => progKG false fg
  | .kT fg => progKL false fg ++ [.push] ++ progKG false fg ++ [.push, .touch .kT]
  | .kM sa => progKM sa
  | .kA sa => progKA sa
  | .cA => [lookup, .supports .fcA .AttributeError, .kern .sizeVal, .kern .fcA, .out .cA]
  | .lb => progK0 false ++ [.drop] ++ progKG0 false ++
      [.drop, .readReg .k0, .readReg .kG0, .kern .eigLb, .touch .eigvals, .touch .eigvecs]
  | .freq a => progK0 false ++ [.drop] ++ progKM false ++ [.drop] ++
      (match a with
       | .a1 => progKG0 false ++ [.drop] ++ progKA false ++ [.drop, .readReg .k0, .readReg .kA, .readReg .kG0]
       | .a2 => progKA false ++ [.drop, .readReg .k0, .readReg .kA]
       | .a3 => progKG0 false ++ [.drop, .readReg .k0, .readReg .kG0]
       | .a4 => [.readReg .k0]) ++
      [.readReg .kM, .kern .eigFreq, .touch .eigvals, .touch .eigvecs]
  | .fext sa => progFext sa
  | .fint fg => progFint false fg
  | .static => rebuild ++ [lookup] ++ progFext false ++ [.push] ++ progK0 false ++
      [.push, .kern .solve, .touch .increments]
  | .uvw => [.touch .Xs, .touch .Ys, lookup, .kern .fuvw, .touch .u, .touch .v, .touch .w, .touch .phix, .touch .phiy]
  | .strain => progStrain
  | .stress fg => progStrain ++ (if fg then [] else [.needF .ValueError]) ++ [.kern .stressMul]
  | .ktkr => rebuild ++ [.buildLamIfNone, .kern .ktkr]

/-! ### the object state machine -/

/-- persistent object state: hidden attributes and the output attributes that are read back -/
structure State where
  h : Hidden
  g : Regs
deriving DecidableEq, Repr

def fresh (d : Def) : State := ⟨init d, Regs.empty⟩

inductive Outcome where
  | ok (res : List Tok)
  | err (e : Err)
deriving DecidableEq, Repr

def Outcome.isOk : Outcome → Bool
  | .ok _ => true
  | .err _ => false

def result (x : Work) : List Tok := x.locals ++ x.last.toList

/-- one public call -/
def step (d : Def) (s : State) (op : Op) : State × Outcome :=
  let r := run d (prog op) ⟨s.h, Work.start, s.g⟩
  (⟨r.1.h, r.1.g⟩, match r.2 with
    | none => .ok (result r.1.x)
    | some e => .err e)

/-- a sequence of public calls -/
def runOps (d : Def) : State → List Op → State
  | s, [] => s
  | s, op :: ops => runOps d (step d s op).1 ops

def stepLog (d : Def) (s : State) (op : Op) : Log := footprint d (prog op) s.h

end Panel

/-! ## PanelAssembly (two panels, one connection), built on the Panel machine

Modelled: `get_size, calc_k0(conn=…, finalize=…), calc_kG0(), calc_kG0(c=c), calc_kM, calc_kT(c=c), calc_fint,
calc_fext, get_k0_conn(conn=…, finalize=…), uvw, strain, stress` as the per-panel programs they run (explicit
`size=`) in panel order, the cache `self.k0_conn` and `calc_kt_kr` (per panel: `_rebuild`, laminate without offset
if there is none).  The cache is read and filled only by a request for the assembly's OWN connection list
(`conn is None` or `conn is self.conn`) with `finalize=True`; every other request (`conn=` another list, or
`finalize=False`) is computed and returned without touching it.  `calc_k0(conn=…)` adds the matrix that
`get_k0_conn(conn=conn)` returned (always `finalize=True`: the `finalize` flag of `calc_k0` only decides whether the
sum of the panel matrices is symmetrised, it is not forwarded).  Connection kernels read only geometry / flags of
the panels and are folded into the connection token. -/
namespace Asm
open Panel

structure ADef where
  d1 : Def
  d2 : Def
  connGiven : Bool          -- `PanelAssembly(panels, conn=...)`
deriving DecidableEq, Repr

/-- which connection list a connection matrix was built from -/
inductive ConnId where
  | own | other
deriving DecidableEq, Repr

structure ConnTok where
  id : ConnId
  fin : Bool                -- `finalize_symmetric_matrix` applied (`finalize=True`)
  t1 : List Tok             -- what `calc_kt_kr` consumed from panel 1
  t2 : List Tok
deriving DecidableEq, Repr

structure AState where
  p1 : State
  p2 : State
  cache : Option ConnTok    -- `self.k0_conn`
deriving DecidableEq, Repr

def afresh (a : ADef) : AState := ⟨fresh a.d1, fresh a.d2, none⟩

inductive AOp where
  | size
  | k0 (other fin : Bool)     -- `calc_k0([conn=B][, finalize=False])`
  | kG0 | kG | kM | kT | fint | fext
  | conn (other fin : Bool)   -- `get_k0_conn([conn=B][, finalize=False])`
  | uvw | strain | stress
deriving DecidableEq, Repr

inductive AOutcome where
  | ok (r1 r2 : List Tok) (conn : Option ConnTok)
  | err (e : Err)
deriving DecidableEq, Repr

def AOutcome.isOk : AOutcome → Bool
  | .ok .. => true
  | .err _ => false

/-- run a Panel program on one panel of the assembly -/
def pstep (d : Def) (s : State) (p : List Instr) : State × Option Err × List Tok :=
  let r := run d p ⟨s.h, Work.start, s.g⟩
  (⟨r.1.h, r.1.g⟩, r.2, result r.1.x)

/-- the same program on panel 1, then on panel 2 (the loop `for p in self.panels`) -/
def both (a : ADef) (s : AState) (p : List Instr) : AState × Option Err × List Tok × List Tok :=
  let r1 := pstep a.d1 s.p1 p
  match r1.2.1 with
  | some e => ({ s with p1 := r1.1 }, some e, [], [])
  | none =>
    let r2 := pstep a.d2 s.p2 p
    ({ s with p1 := r1.1, p2 := r2.1 }, r2.2.1, r1.2.2, r2.2.2)

/-- `use_cache = finalize and conn is self.conn` -/
def useCache (other fin : Bool) : Bool := fin && !other

/-- `get_k0_conn(conn, finalize)`: `other` — a list that is not `self.conn` is passed -/
def getConn (a : ADef) (s : AState) (other fin : Bool) : AState × Except Err ConnTok :=
  if !other && !a.connGiven then (s, .error .RuntimeError)
  else match (if useCache other fin then s.cache else none) with
    | some t => (s, .ok t)
    | none =>
      let r := both a s (prog .ktkr)
      match r.2.1 with
      | some e => (r.1, .error e)
      | none =>
        let t : ConnTok := ⟨if other then .other else .own, fin, r.2.2.1, r.2.2.2⟩
        (if useCache other fin then { r.1 with cache := some t } else r.1, .ok t)

def uvwProg : List Instr := [lookup, .kern .fuvw]
def strainProg : List Instr :=
  [lookup, .supports .fstrain .AttributeError, .kern .fstrain, .failUnless .alphaZero .NotImplementedError]
def stressProg : List Instr := strainProg ++ [.needF .ValueError, .kern .stressMul]
def kTProg : List Instr := progKL true false ++ [.push] ++ progKG true false ++ [.push]

def panelProg : AOp → List Instr
  | .k0 _ _ => progK0 true
  | .kG0 => progKG0 true
  | .kG => progKG true false
  | .kM => progKM true
  | .kT => kTProg
  | .fint => progFint true false
  | .fext => progFext true
  | .uvw => uvwProg
  | .strain => strainProg
  | .stress => stressProg
  | _ => []

def astep (a : ADef) (s : AState) (op : AOp) : AState × AOutcome :=
  match op with
  | .size => (s, .ok [] [] none)
  | .conn other fin =>
    let r := getConn a s other fin
    (r.1, match r.2 with
      | .ok t => .ok [] [] (some t)
      | .error e => .err e)
  | op =>
    let r := both a s (panelProg op)
    match r.2.1 with
    | some e => (r.1, .err e)
    | none =>
      match op with
      | .k0 other _ =>                       -- `k0 += self.get_k0_conn(conn=conn)`
        let c := getConn a r.1 other true
        (c.1, match c.2 with
          | .ok t => .ok r.2.2.1 r.2.2.2 (some t)
          | .error e => .err e)
      | .kT | .fint =>                       -- `kT += k0_conn`, `fint += k0_conn*c`
        let c := getConn a r.1 false true
        (c.1, match c.2 with
          | .ok t => .ok r.2.2.1 r.2.2.2 (some t)
          | .error e => .err e)
      | _ => (r.1, .ok r.2.2.1 r.2.2.2 none)

def arunOps (a : ADef) : AState → List AOp → AState
  | s, [] => s
  | s, op :: ops => arunOps a (astep a s op).1 ops

/-- per-panel footprints of one assembly call (for the correspondence) -/
def alog (a : ADef) (s : AState) (op : AOp) : Log × Log :=
  let fp (p : List Instr) : Log × Log :=
    let r1 := pstep a.d1 s.p1 p
    (footprint a.d1 p s.p1.h, match r1.2.1 with
      | some _ => ⟨[], []⟩
      | none => footprint a.d2 p s.p2.h)
  let connLog (s : AState) (other fin : Bool) : Log × Log :=
    if (!other && !a.connGiven) || (useCache other fin && s.cache.isSome) then (⟨[], []⟩, ⟨[], []⟩)
    else
      let r1 := pstep a.d1 s.p1 (prog .ktkr)
      (footprint a.d1 (prog .ktkr) s.p1.h, match r1.2.1 with
        | some _ => ⟨[], []⟩
        | none => footprint a.d2 (prog .ktkr) s.p2.h)
  let cat (x y : Log × Log) : Log × Log := (⟨x.1.rd ++ y.1.rd, x.1.wr ++ y.1.wr⟩, ⟨x.2.rd ++ y.2.rd, x.2.wr ++ y.2.wr⟩)
  match op with
  | .size => (⟨[], []⟩, ⟨[], []⟩)
  | .conn other fin => connLog s other fin
  | .k0 other _ =>
    let r := both a s (panelProg op)
    (match r.2.1 with
     | some _ => fp (panelProg op)
     | none => cat (fp (panelProg op)) (connLog r.1 other true))
  | .kT | .fint =>
    let r := both a s (panelProg op)
    (match r.2.1 with
     | some _ => fp (panelProg op)
     | none => cat (fp (panelProg op)) (connLog r.1 false true))
  | op => fp (panelProg op)

end Asm

/-! ## StiffPanelBay (skin panels, optional stiffeners) — coarse

Modelled: the two bay-level lazily derived attributes `model` (copied from the first skin panel by `_rebuild`) and
`size` (created by `get_size`), and which skin panels had `r = None` normalised to `0.` (the stiffeners' `_rebuild`
asserts `panel1.r == panel2.r`; `calc_kA` normalises `panels[0]` only), for `calc_k0, calc_kG0, calc_kM, calc_kA, calc_cA, calc_fext, uvw_skin, get_size`.
The panels' own life cycle is the Panel machine (the bay always passes an explicit `size=`). -/
namespace Bay

structure BDef where
  modelGiven : Bool     -- `bay.model` set by the caller
  stiffFlat : Bool      -- flat bay (`r is None`) with a stiffener between the first two skin panels
deriving DecidableEq, Repr

structure BState where
  model : Bool          -- `bay.model is not None`
  size : Bool           -- attribute `size` exists
  r0 : Bool             -- `panels[0].r` was normalised from `None` to `0.`
  rAll : Bool           -- every skin panel's `r` was normalised
deriving DecidableEq, Repr

def bfresh (d : BDef) : BState := ⟨d.modelGiven, false, false, false⟩

inductive BOp where
  | size | k0 | kG0 | kM | kA | cA | fext | uvw
deriving DecidableEq, Repr

/-- a bay result depends on nothing hidden at bay level: the token is the call itself -/
inductive BOutcome where
  | ok (op : BOp)
  | err (e : Err)
deriving DecidableEq, Repr

def BOutcome.isOk : BOutcome → Bool
  | .ok _ => true
  | .err _ => false

/-- `_rebuild`: the stiffeners assert `panel1.r == panel2.r` -/
def rebuildOk (d : BDef) (s : BState) : Bool := !(d.stiffFlat && s.r0 && !s.rAll)

def bstep (d : BDef) (s : BState) : BOp → BState × BOutcome
  | .size => if s.model then ({ s with size := true }, .ok .size) else (s, .err .KeyError)
  | .k0 => if rebuildOk d s then (⟨true, true, true, true⟩, .ok .k0) else (s, .err .AssertionError)
  | .kG0 => if rebuildOk d s then (⟨true, true, true, true⟩, .ok .kG0) else (s, .err .AssertionError)
  | .kM => if rebuildOk d s then (⟨true, true, true, true⟩, .ok .kM) else (s, .err .AssertionError)
  | .kA =>
    if rebuildOk d s then
      (if s.size then ({ s with model := true, r0 := true }, .ok .kA)        -- `p = self.panels[0]; p.r = self.r; p.calc_kA()`
       else ({ s with model := true }, .err .AttributeError))                -- `p.size = self.size`
    else (s, .err .AssertionError)
  | .cA =>
    if rebuildOk d s then ({ s with model := true, size := true }, .err .TypeError)   -- unexpected keyword, always
    else (s, .err .AssertionError)
  | .fext => if s.model then (s, .ok .fext) else (s, .err .KeyError)       -- `panelmDB.db[self.model]`
  | .uvw => if s.model then ({ s with size := true }, .ok .uvw) else (s, .err .KeyError)  -- `self.get_size()`

def brunOps (d : BDef) : BState → List BOp → BState
  | s, [] => s
  | s, op :: ops => brunOps d (bstep d s op).1 ops

def ballOps : List BOp := [.size, .k0, .kG0, .kM, .kA, .cA, .fext, .uvw]

end Bay

/-! ## ConeCyl — coarse

Modelled: the axial-load life cycle (`Fc`, `Nxxtop`, `_load_rebuilt`), the linear-matrix cache
(`k0`, `k0uu`, `F`, `lam`) and the geometry derived by `_rebuild` (`L`, `alpharad`, …), for
`calc_k0, lb, static, calc_fext, calc_fint, calc_kT, uvw, strain, stress, get_size`.
`lb` writes `self.Fc = 1.` when neither `Fc` nor `Nxxtop` is set — but `Nxxtop` is created (zeros) by the first
`_rebuild`, and once `_load_rebuilt` is set `_rebuild` never looks at `Fc` again. -/
namespace Cone

structure CDef where
  fcGiven : Bool        -- the caller set an axial load `Fc`
  rebuilt : Bool        -- the definition itself ran `_rebuild` (`add_SPL` does)
deriving DecidableEq, Repr

/-- `self.Fc` -/
inductive Fc where
  | none | user | one
deriving DecidableEq, Repr

/-- `self.Nxxtop[0]` as provenance: attribute still `None`, zeros, from the user's `Fc`, from `Fc = 1.` -/
inductive Nxx where
  | unset | zero | user | one
deriving DecidableEq, Repr

structure CState where
  fc : Fc
  nxx : Nxx             -- `Nxxtop` (`unset` ⇔ `_load_rebuilt = False`)
  geo : Bool            -- `_rebuild` ran: `L`, `H`, `r1`, `alpharad`, `excluded_dofs` derived
  lin : Bool            -- linear matrices exist: `k0`, `k0uu`, `F`, `lam`
deriving DecidableEq, Repr

def rebuildC (s : CState) : CState :=
  { s with geo := true, nxx := match s.nxx with
      | .unset => (match s.fc with | .none => .zero | .user => .user | .one => .one)
      | n => n }

def cfresh (d : CDef) : CState :=
  let s : CState := ⟨if d.fcGiven then .user else .none, .unset, false, false⟩
  if d.rebuilt then rebuildC s else s

inductive COp where
  | size | k0 | lb | static | fext | fint | kT | uvw | strain | stress
deriving DecidableEq, Repr

inductive CErr where
  | TypeError | SEGV
deriving DecidableEq, Repr

/-- result token: the call and the axial-load provenance it consumed (if any) -/
inductive COutcome where
  | ok (op : COp) (load : Option Nxx)
  | err (e : CErr)
deriving DecidableEq, Repr

def COutcome.isOk : COutcome → Bool
  | .ok .. => true
  | .err _ => false

/-- `_calc_linear_matrices` -/
def linear (s : CState) : CState := { rebuildC s with lin := true }

def cstep (s : CState) : COp → CState × COutcome
  | .size => (s, .ok .size none)
  | .k0 => let s' := if s.lin then s else linear s; (s', .ok .k0 none)
  | .lb =>
    -- `if self.Fc is None and self.Nxxtop is None: self.Fc = 1.`
    let s1 := if s.fc = .none ∧ s.nxx = .unset then { s with fc := .one } else s
    let s2 := linear s1
    (s2, .ok .lb (some s2.nxx))
  | .fext =>
    let s1 := rebuildC s
    let s2 := if s1.lin then s1 else linear s1
    (s2, .ok .fext (some s2.nxx))
  | .static =>
    let s1 := rebuildC s
    let s2 := if s1.lin then s1 else linear s1
    (s2, .ok .static (some s2.nxx))
  | .kT => let s' := if s.lin then s else linear s; (s', .ok .kT none)
  | .fint =>      -- `self.L is None`: TypeError at the kernel boundary; `self.F is None` goes INTO the kernel
    if s.geo then (if s.lin then (s, .ok .fint none) else (s, .err .SEGV)) else (s, .err .TypeError)
  | .uvw => if s.geo then (s, .ok .uvw none) else (s, .err .TypeError)      -- `linspace(0, self.L)`
  | .strain => if s.geo then (s, .ok .strain none) else (s, .err .TypeError)
  | .stress => if s.geo then (if s.lin then (s, .ok .stress none) else (s, .err .SEGV)) else (s, .err .TypeError)

def crunOps : CState → List COp → CState
  | s, [] => s
  | s, op :: ops => crunOps (cstep s op).1 ops

def callOps : List COp := [.size, .k0, .lb, .static, .fext, .fint, .kT, .uvw, .strain, .stress]

end Cone

end Compmech.Lifecycle
