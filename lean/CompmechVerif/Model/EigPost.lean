/-
Hand-written executable model of the GLUE around the external eigen-solvers in

* `compmech/analysis/linear_buckling.py : lb`   (and its copy `Panel.lb`, which requests `k = num_eigvalues`)
* `compmech/analysis/freq.py : freq`            (and its copy `Panel.freq`, `damping=False`)
* `compmech/sparse.py : remove_null_cols`

The solvers `eigsh / eigh / eigs / eig` and `numpy.sqrt` are PARAMETERS: what they returned (or that they
raised) is an input of the model; the model produces the ordered list of requests made to them and the final
`(eigvals, eigvecs)` or the exception of the glue itself (numpy shape mismatch, `column_stack` mismatch).

Representation
* input matrices: canonical COO lists `(row, col, value)` (what `csr_matrix(·)` holds after summing
  duplicates); only their zero pattern / column sums steer the glue;
* 2-D arrays (`eigvecs`): `Block` = explicit row count + list of COLUMNS (the glue permutes, selects and
  slices columns and scatters rows, uniformly in every column);
* index lists (`used_cols`, the boolean mask `check`, `take`) are strictly ascending lists of naturals; the
  scatter `out[idx, :] = v` is modelled by one merge-like walk (`scatterFrom`), which coincides with numpy's
  semantics for strictly ascending in-range index lists (proved in `EigPostLemmas`: `usedCols_sorted` …).
* scalars: `lb` is real (`K`, a field); `freq` is complex: the scalar type `F` is abstract with the operations
  the glue applies to it as parameters (`negInv x = -1/x`, `sqrtV = numpy.sqrt` vectorised, `re`, `im`).

Decimal constants (`1e-6`, the factor `10` of `round(·, 1)`) are exact; binary rounding is outside the model:
the model reports the smallest margin of every comparison it makes on computed values and the harness discards
cases whose margin is below 1e-9.
-/
import Mathlib.Algebra.Field.Defs
import Mathlib.Order.Defs.LinearOrder
import Mathlib.Algebra.Order.Floor.Defs

namespace Compmech.EigPost

/-! ## data -/

/-- canonical COO matrix: `(row, col, value)`, no duplicate positions -/
abbrev Coo (K : Type) := List (Nat × Nat × K)

/-- a 2-D array stored by columns; `rows` is kept explicitly so that `(r, 0)` arrays exist -/
structure Block (α : Type) where
  rows : Nat
  cols : List (List α)
deriving Repr, DecidableEq

def Block.ncols {α : Type} (b : Block α) : Nat := b.cols.length
def Block.shape {α : Type} (b : Block α) : Nat × Nat := (b.rows, b.ncols)

/-- what one external solver call returned: `(eigvals, eigvecs)` -/
structure Out (σ α : Type) where
  vals : List σ
  vecs : Block α
deriving Repr, DecidableEq

inductive Err where
  /-- the exception of the `call`-th external solver call propagates out of the glue -/
  | solverRaised (call : Nat)
  /-- numpy: "shape mismatch: value array of shape `value` could not be broadcast to indexing result of shape `target`" -/
  | shapeMismatch (value target : Nat × Nat)
  /-- `np.column_stack` of 1-D arrays of different lengths -/
  | columnStack (a b : Nat)
  /-- fancy index / boolean mask outside the indexed axis -/
  | indexError
deriving Repr, DecidableEq

inductive Solver where
  | eigsh | eigh | eigs | eig
deriving Repr, DecidableEq

inductive MatName where
  | K | KG | M
deriving Repr, DecidableEq

/-- the matrix handed to a solver: `±name[idx][:, idx]` (`idx = none`: the matrix as passed in) -/
structure MatRef where
  name : MatName
  neg : Bool
  idx : Option (List Nat)
  dense : Bool
deriving Repr, DecidableEq

structure Req where
  solver : Solver
  /-- `A=` of `eigsh/eigs`, `a=` of `eigh/eig` -/
  a : MatRef
  /-- `M=` of `eigsh/eigs`, `b=` of `eigh/eig` -/
  b : MatRef
  k : Option Int
  which : Option String
  sigma : Option Int
  mode : Option String
deriving Repr, DecidableEq

/-! ## `remove_null_cols`, the boolean mask of dense `freq` -/

section index
variable {K : Type} [Zero K] [DecidableEq K]

/-- column `j` holds a non-zero value (`m.nonzero()` ignores explicitly stored zeros) -/
def colUsed (l : Coo K) (j : Nat) : Bool := l.any fun t => t.2.1 == j && decide (t.2.2 ≠ 0)

/-- `used_cols = np.unique(m.nonzero()[1])` of `remove_null_cols`, for an `n`-column matrix -/
def usedCols (n : Nat) (l : Coo K) : List Nat := (List.range n).filter (colUsed l)

end index

section colsum
variable {K : Type} [AddMonoid K] [DecidableEq K]

/-- `M.toarray().sum(axis=0)[j]` -/
def colSum (l : Coo K) (j : Nat) : K := ((l.filter fun t => t.2.1 == j).map fun t => t.2.2).sum

/-- `np.arange(n)[col_sum != 0]` -/
def checkCols (n : Nat) (l : Coo K) : List Nat := (List.range n).filter fun j => decide (colSum l j ≠ 0)

end colsum

/-- `i = arange(r); take = column_stack((i[1::3], i[2::3])).flatten()` -/
def takeIdx (r : Nat) : Except Err (List Nat) :=
  let a := (List.range r).filter (· % 3 == 1)
  let b := (List.range r).filter (· % 3 == 2)
  if a.length = b.length then .ok ((a.zip b).flatMap fun p => [p.1, p.2])
  else .error (.columnStack a.length b.length)

/-! ## scatter / gather -/

section scatter
variable {α : Type} [Zero α]

/-- positions `i, i+1, …, i+fuel-1` of `out = zeros(…); out[idx] = w` for a strictly ascending `idx ≥ i` -/
def scatterFrom : List Nat → List α → Nat → Nat → List α
  | _, _, _, 0 => []
  | [], _, i, fuel + 1 => 0 :: scatterFrom [] [] (i + 1) fuel
  | _ :: _, [], i, fuel + 1 => 0 :: scatterFrom [] [] (i + 1) fuel
  | u :: us, x :: xs, i, fuel + 1 =>
    if u = i then x :: scatterFrom us xs (i + 1) fuel
    else 0 :: scatterFrom (u :: us) (x :: xs) (i + 1) fuel

/-- `v[idx]` -/
def gather (idx : List Nat) (v : List α) : List α := idx.map fun i => v.getD i 0

def Block.zeros (r c : Nat) : Block α := ⟨r, List.replicate c (List.replicate r 0)⟩

/-- `target = np.zeros((n, c)); target[idx, :] = v` with numpy's broadcasting rules -/
def assignRows (n c : Nat) (idx : List Nat) (v : Block α) : Except Err (Block α) :=
  if (v.rows = idx.length ∨ v.rows = 1) ∧ (v.ncols = c ∨ v.ncols = 1) then
    let cols0 := if v.ncols = c then v.cols else List.replicate c (v.cols.headD [])
    let cols1 := if v.rows = idx.length then cols0
                 else cols0.map fun col => List.replicate idx.length (col.headD 0)
    if idx.all (· < n) then .ok ⟨n, cols1.map fun col => scatterFrom idx col 0 n⟩
    else .error .indexError
  else .error (.shapeMismatch (v.rows, v.ncols) (idx.length, c))

/-- `b[:, :m]` -/
def Block.takeCols (b : Block α) (m : Nat) : Block α := ⟨b.rows, b.cols.take m⟩

end scatter

/-! ## linear buckling glue -/

section lb
variable {K : Type} [Field K] [DecidableEq K]

/-- `eigvals = -1./eigvals`; `none` stands for numpy's `±inf` at `μ = 0` -/
def negInvVals (vals : List K) : List (Option K) := vals.map fun μ => if μ = 0 then none else some (-1 / μ)

def fullRef (nm : MatName) : MatRef := ⟨nm, false, none, false⟩
def subRef (nm : MatName) (idx : List Nat) (dense : Bool) : MatRef := ⟨nm, false, some idx, dense⟩

def eigshReq (k : Int) (a b : MatRef) : Req := ⟨.eigsh, a, b, some k, some "SM", some 1, some "cayley"⟩

/-- `k = min(num_eigvalues, n-2)` (`analysis.lb`, `kMin = true`) or `k = num_eigvalues` (`Panel.lb`) -/
def lbK (n num : Nat) (kMin : Bool) : Int := if kMin then min (num : Int) ((n : Int) - 2) else (num : Int)

/-- the re-capped request after `remove_null_cols`: `k = min(k, N-1)` for `N` active amplitudes -/
def lbK2 (n num : Nat) (kMin : Bool) (nred : Nat) : Int := min (lbK n num kMin) ((nred : Int) - 1)

/-- `lb(K, KG, sparse_solver, num_eigvalues)` (as of /repo commits 3692045, d870371).
`kMin = true`: `analysis.lb` (`k = min(num_eigvalues, n-2)`); `kMin = false`: `Panel.lb` (`k = num_eigvalues`).
`first`, `second`: results of the first and (sparse path only, after an exception of the first) second solver
call; `none` = the call raised.  The mode array is allocated with the number of columns delivered
(`zeros((n, peigvecs.shape[1]))`), and the second request is capped by the reduced size. -/
def lb (n num : Nat) (kMin sparse : Bool) (Kc : Coo K) (first second : Option (Out K K)) :
    List Req × Except Err (Out (Option K) K) :=
  if sparse then
    let r1 := eigshReq (lbK n num kMin) (fullRef .KG) (fullRef .K)
    match first with
    | some o => ([r1], .ok ⟨negInvVals o.vals, o.vecs⟩)
    | none =>
      let used := usedCols n Kc
      let r2 := eigshReq (lbK2 n num kMin used.length) (subRef .KG used false) (subRef .K used false)
      match second with
      | none => ([r1, r2], .error (.solverRaised 2))
      | some o =>
        ([r1, r2], (assignRows n o.vecs.ncols used o.vecs).map fun e => ⟨negInvVals o.vals, e⟩)
  else
    let used := usedCols n Kc
    let r1 : Req := ⟨.eigh, subRef .KG used true, subRef .K used true, none, none, none, none⟩
    match first with
    | none => ([r1], .error (.solverRaised 1))
    | some o =>
      let v := o.vecs.takeCols num
      ([r1], (assignRows n v.ncols used v).map fun e => ⟨negInvVals o.vals, e⟩)

end lb

/-! ## the `sort` step of `freq` -/

section sort
variable {K : Type} [Field K] [LinearOrder K] [FloorRing K]

/-- `numpy.rint`: round half to even -/
def rint (x : K) : Int :=
  let f := Int.floor x
  let r := x - (f : K)
  if r < 1 / 2 then f else if 1 / 2 < r then f + 1 else if f % 2 = 0 then f else f + 1

/-- distance of `x` from the nearest rounding boundary (`…, -1/2, 1/2, 3/2, …`) -/
def rintMargin (x : K) : K :=
  let r := x - (Int.floor x : K)
  if r < 1 / 2 then 1 / 2 - r else r - 1 / 2

/-- ordering of `np.lexsort((k2, k1))`: by `k1`, ties by `k2` -/
def lexLE (a b : Int × Int) : Bool := a.1 < b.1 || (a.1 == b.1 && a.2 ≤ b.2)

end sort

section isort
variable {α : Type}

/-- stable insertion: `a` goes in front of the first element it is `≤` to -/
def insertBy (le : α → α → Bool) (a : α) : List α → List α
  | [] => [a]
  | b :: l => if le a b then a :: b :: l else b :: insertBy le a l

/-- stable sort (`np.lexsort` is a stable indirect sort) -/
def isort (le : α → α → Bool) : List α → List α
  | [] => []
  | a :: l => insertBy le a (isort le l)

end isort

section freq
variable {K : Type} [Field K] [LinearOrder K] [FloorRing K] [DecidableEq K]
variable {F : Type} [Zero F]

/-- the sort key of one eigenvalue: `(rint(10·re), rint(10·im))` (`np.round(x, 1) = rint(x·10)/10`) -/
def sortKey (re im : F → K) (w : F) : Int × Int := (rint (re w * 10), rint (im w * 10))

/-- entries of `(key, eigenvalue, eigenvector column)` in the order produced by
`sort_ind = np.lexsort((round(imag, 1), round(real, 1)))` -/
def sortTriples (re im : F → K) (vals : List F) (cols : List (List F)) : List ((Int × Int) × F × List F) :=
  isort (fun a b => lexLE a.1 b.1) ((vals.zip cols).map fun p => (sortKey re im p.1, p.1, p.2))

/-- `if sort:` block of `freq`: permute by `sort_ind`, then keep the entries with `real > 1e-6` -/
def sortStep (re im : F → K) (vals : List F) (vecs : Block F) : Except Err (Out F F) :=
  if vecs.ncols < vals.length then .error .indexError       -- eigvecs[:, sort_ind]
  else
    let kept := (sortTriples re im vals vecs.cols).filter fun t => decide ((1 : K) / 1000000 < re t.2.1)
    .ok ⟨kept.map (·.2.1), ⟨vecs.rows, kept.map (·.2.2)⟩⟩

/-- smallest distance of a compared quantity from its decision boundary in `sortStep` -/
def sortMargin (re im : F → K) (vals : List F) : K :=
  vals.foldl (fun m w =>
    let d := re w - 1 / 1000000
    min (min (min m (rintMargin (re w * 10))) (rintMargin (im w * 10))) (if d < 0 then -d else d)) 1

/-- `new_eigvecs = zeros((3*rows//2, ncols)); new_eigvecs[take, :] = eigvecs` -/
def reExpand (take : List Nat) (vecs : Block F) : Except Err (Block F) :=
  assignRows (3 * vecs.rows / 2) vecs.ncols take vecs

/-- the `if sort:` block, or nothing -/
def sortOrNot (sort : Bool) (re im : F → K) (vals : List F) (e : Block F) : Except Err (Out F F) :=
  if sort then sortStep re im vals e else .ok ⟨vals, e⟩

/-- `take`, when `reduced_dof` is on -/
def takeOpt (reduced : Bool) (r : Nat) : Except Err (Option (List Nat)) :=
  if reduced then (takeIdx r).map some else .ok none

/-- the `if not sparse_solver and reduced_dof:` block -/
def freqPost (take? : Option (List Nat)) (s : Out F F) : Except Err (Out F F) :=
  match take? with
  | some take => (reExpand take s.vecs).map fun e' => ⟨s.vals, e'⟩
  | none => .ok s

/-- `k = min(min(num_eigvalues, n-2), N-2)` for `N` active amplitudes (`eigs` needs `k < N-1`) -/
def freqK (n num nred : Nat) : Int := min (min (num : Int) ((n : Int) - 2)) ((nred : Int) - 2)

/-- `freq(K, M, sparse_solver, sort, reduced_dof, num_eigvalues)` (as of /repo commits 3692045, d870371:
sparse path allocates `zeros((n, peigvecs.shape[1]))` and re-caps `k` after `remove_null_cols`); `res` = what `eigs` / `eig` returned
(`none`: it raised); `sqrtV` = `numpy.sqrt` (vectorised); `negInv x = -1./x`. -/
def freq (n num : Nat) (sparse sort reduced : Bool) (Kc Mc : Coo K)
    (sqrtV : List F → List F) (negInv : F → F) (re im : F → K) (res : Option (Out F F)) :
    List Req × Except Err (Out F F) :=
  if sparse then
    let used := usedCols n Kc
    let r : Req := ⟨.eigs, subRef .K used false, subRef .M used false, some (freqK n num used.length), some "LM",
      some (-1), none⟩
    match res with
    | none => ([r], .error (.solverRaised 1))
    | some o =>
      ([r], (assignRows n o.vecs.ncols used o.vecs).bind fun e => sortOrNot sort re im (sqrtV o.vals) e)
  else
    let check := checkCols n Mc
    match takeOpt reduced check.length with
    | .error e => ([], .error e)
    | .ok take? =>
      let idx := match take? with
        | some take => gather take check
        | none => check
      let r : Req := ⟨.eig, ⟨.M, true, some idx, true⟩, subRef .K idx true, none, none, none, none⟩
      match res with
      | none => ([r], .error (.solverRaised 1))
      | some o =>
        ([r], (assignRows n idx.length check o.vecs).bind fun e =>
          (sortOrNot sort re im (sqrtV (o.vals.map negInv)) e).bind (freqPost take?))

end freq

/-! ## specification vocabulary (what the property theorems are stated in) -/

section spec
variable {R : Type} [Semiring R]

/-- `Σₖ f (i+k) · v[k]` -/
def dotFrom (f : Nat → R) : Nat → List R → R
  | _, [] => 0
  | i, x :: xs => f i * x + dotFrom f (i + 1) xs

/-- `Σ_q f idx[q] · w[q]`: one row of a matrix restricted to the columns `idx` applied to `w` -/
def dotIdx (f : Nat → R) (idx : List Nat) (w : List R) : R := (List.zipWith (fun u x => f u * x) idx w).sum

/-- the matrix a canonical COO list denotes (repeated positions add, as scipy does) -/
def Coo.toFun (l : Coo R) (i j : Nat) : R :=
  ((l.filter fun t => t.1 == i && t.2.1 == j).map fun t => t.2.2).sum

/-- `(μ, w)` solves the pencil `A w = μ B w` restricted to rows/columns `idx` (`w` indexed like `idx`) -/
def PencilSol (A B : Nat → Nat → R) (idx : List Nat) (μ : R) (w : List R) : Prop :=
  w.length = idx.length ∧ ∀ u ∈ idx, dotIdx (A u) idx w = μ * dotIdx (B u) idx w

/-- the recorded contract of one external solver call on the pencil `(A, B)` restricted to `idx`:
as many values as vectors, vectors of the right length, and every returned pair solves the pencil -/
structure SolverOK (A B : Nat → Nat → R) (idx : List Nat) (o : Out R R) : Prop where
  nvals : o.vals.length = o.vecs.ncols
  rows_eq : o.vecs.rows = idx.length
  pairs : ∀ (c : Nat) μ w, o.vals[c]? = some μ → o.vecs.cols[c]? = some w → PencilSol A B idx μ w

end spec

section source
variable {K : Type} [Zero K] [DecidableEq K]

/-- which raw solver output, on which index list, the arrays returned by `lb` are built from -/
def lbSource (n : Nat) (sparse : Bool) (Kc : Coo K) (first second : Option (Out K K)) :
    Option (List Nat × Out K K) :=
  if sparse then
    match first with
    | some o => some (List.range n, o)
    | none => second.map fun o => (usedCols n Kc, o)
  else first.map fun o => (usedCols n Kc, o)

end source

end Compmech.EigPost
