/-
Hand-written model of the non-linear GLUE of `compmech/conecyl/conecyl.py` (C17) and of the work split of
`compmech/integrate/integratev.pyx`.

* `integratev`  : the integration points `(x, y, alpha, beta)` of the chosen rule are cut into `num_cores` consecutive chunks of
                  `npts / num_cores` points (C integer division), chunk `i` is accumulated into row `i` of a zeroed
                  `(num_cores, fdim)` array by ONE call of the integrand (`out[c] = beta*out[c] + alpha*g_c(x, y)` point after
                  point - the form every `cf*` integrand of the non-linear kernels has), the remaining `npts - k*num_cores`
                  points are accumulated into row 0, and the rows are summed.  Modelled per component `c`.
* `_calc_NL_matrices` : `kT = k0 + k0L + k0Lᵀ + kLL + kG` with `kLL`, `kG` passed through `make_symmetric`, the flags
                  `with_k0L`, `with_kLL`, evaluated at `calc_full_c(c, inc)`.
* `calc_fint`   : `calc_fint_0L_L0_LL(calc_full_c(c, inc)) + k0·calc_full_c(c, inc)`.
Kernels are PARAMETERS.  Dense matrices are functions `Nat → Nat → K`, vectors `Nat → K`, sums `Σ_{j<n}`.
-/
import CompmechVerif.Model.Integrate

namespace Compmech.ShellNL
open Compmech.Integrate

variable {K : Type} [Field K]

/-! ## `integratev` -/

/-- one call of an integrand on a chunk of points, starting from the current content `out` of its output slot -/
def callF (g : K → K → K) (pts : List (Pt K)) (out : K) : K :=
  pts.foldl (fun acc p => p.beta * acc + p.alpha * g p.x p.y) out

/-- `integratev(f, …, num_cores, method)` for one component of the vector-valued integrand -/
def integratev (g : K → K → K) (pts : List (Pt K)) (cores : Nat) : K :=
  let k := pts.length / cores
  let outs := (List.range cores).map fun i => callF g ((pts.drop (k * i)).take k) 0
  let rest := pts.length - k * cores
  let outs' := if rest > 0 then outs.modify 0 (fun o => callF g ((pts.drop (k * cores)).take rest) o) else outs
  outs'.sum

/-! ## `_calc_NL_matrices`, `calc_fint` -/

abbrev Mat (K : Type) := Nat → Nat → K
abbrev Vec (K : Type) := Nat → K

def sumTo (n : Nat) (f : Nat → K) : K := ((List.range n).map f).sum

/-- `make_symmetric` on the dense meaning of a matrix: upper triangle mirrored -/
def sym (a : Mat K) : Mat K := fun i j => if i ≤ j then a i j else a j i

/-- raw outputs of the compiled kernels at one state (k0 as stored by `_calc_linear_matrices`) -/
structure Parts (K : Type) where
  k0 : Mat K
  k0L : Mat K
  kLL : Mat K
  kG : Mat K

/-- `kT = k0 + k0L + k0L.T + kLL + kG` (`k0L = kG*0` / `kLL = kG*0` when the flags are off) -/
def kT (p : Parts K) (withK0L withKLL : Bool) : Mat K := fun i j =>
  p.k0 i j + (if withK0L then p.k0L i j else 0) + (if withK0L then p.k0L j i else 0)
    + (if withKLL then sym p.kLL i j else 0) + sym p.kG i j

/-- `kL = k0 + k0L + k0L.T + kLL` (stored for the non-linear eigenvalue analyses) -/
def kL (p : Parts K) (withK0L withKLL : Bool) : Mat K := fun i j =>
  p.k0 i j + (if withK0L then p.k0L i j else 0) + (if withK0L then p.k0L j i else 0)
    + (if withKLL then sym p.kLL i j else 0)

/-- `fint = calc_fint_0L_L0_LL(c) + k0*c` for a vector of `n` amplitudes -/
def fint (n : Nat) (k0 : Mat K) (fNL : Vec K → Vec K) (c : Vec K) : Vec K :=
  fun i => fNL c i + sumTo n (fun j => k0 i j * c j)

/-- `calc_full_c(cu, inc)` on a full-size vector: prescribed entries scaled by `inc` (the reduced branch is `ConeCylGlue.calcFullC`) -/
def fullC (E : List Nat) (inc : K) (c : Vec K) : Vec K := fun i => if i ∈ E then c i * inc else c i

/-- the state at which `calc_kT(c, inc)` evaluates every kernel -/
def kTState (E : List Nat) (inc : K) (c : Vec K) : Vec K := fullC E inc c

/-- the state at which `calc_fint(c, inc)` evaluates the kernel and multiplies `k0` -/
def fintState (E : List Nat) (inc : K) (c : Vec K) : Vec K := fullC E inc c

end Compmech.ShellNL
