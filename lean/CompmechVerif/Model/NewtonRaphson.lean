/-
Hand-written executable model of `compmech/analysis/newton_raphson.py : _solver_NR`
(and of `Analysis.static(NLgeom=True)`'s `maxInc := max(initialInc, maxInc)`).

The user callables are abstracted to what the control flow can observe:
* `rmax k`  — the residual norm `np.abs(fext - fint).max()` of the k-th *main* `calc_fint` call;
* `ls k`    — the pair `(s1, s2) = (delta_c·R1, delta_c·R2)` of the k-th line-search pass.
Amplitude vectors are abstract identities (`CId`): `init inc` is `solve(k0, calc_fext(inc))`,
`upd n` is the n-th value produced by `c = c + eta2*delta_c`.
The model emits the ordered list of externally visible events (calls of the user callables,
solves, reports); the correspondence check compares that trace with the real solver driven by
scripted callables.  Decimal constants (`1.1`, `0.3`, `1e-3`, `0.2`, `10`, `0.01`, `1e6`) are the
exact decimals; binary rounding is outside the model (the harness discards cases whose smallest
comparison margin is below 1e-9).
-/
import Mathlib.Algebra.Field.Defs
import Mathlib.Order.Defs.LinearOrder

namespace Compmech.NR

inductive CId (K : Type) where
  | init (inc : K)
  | upd (n : Nat)
deriving DecidableEq, Repr

inductive Ev (K : Type) where
  | fext (inc : K)
  | k0
  | solve0 (inc : K)                       -- c = solve(k0, fext)
  | kT (c : CId K) (total : K) (id : Nat)  -- calc_kT(c, inc=total) -> tangent number `id` (k0 is 0)
  | fint (c : CId K) (total : K) (iteration : Nat) (r : K)   -- main calc_fint; `r` = Rmax observed
  | solveD (kt : Nat)                      -- delta_c = solve(kT, R) with tangent number kt
  | ls (eta1 eta2 : K)                     -- one line-search pass: calc_fint at c+eta1*dc and c+eta2*dc
  | update (eta2 : K) (c' : CId K)         -- c = c + eta2*delta_c
  | report (total : K) (c : CId K)         -- increments.append(total); cs.append(c.copy())
  | restart (c : CId K)                    -- c = cs[-1].copy()
  | stopMin                                -- 'Stopping solver: minimum step size achieved!'
deriving Repr

structure Cfg (K : Type) where
  initialInc : K
  minInc : K
  maxInc : K
  absTOL : K
  tooSlowTOL : K
  maxNumIter : Nat
  lineSearch : Bool
  maxIterLS : Nat
  modifiedNR : Bool
  computeEveryN : Int
  kTInitialState : Bool

structure Env (K : Type) where
  rmax : Nat → K
  ls : Nat → K × K

/-- counters, event log (newest first) and the smallest margin of any comparison on computed values -/
structure Log (K : Type) where
  evs : List (Ev K)
  nR : Nat
  nLS : Nat
  nC : Nat
  nKT : Nat
  margin : K

variable {K : Type} [Field K] [LinearOrder K]

def absK (x : K) : K := if x < 0 then -x else x

def Log.push (l : Log K) (e : Ev K) : Log K := { l with evs := e :: l.evs }
def Log.note (l : Log K) (a b : K) : Log K := { l with margin := min l.margin (absK (a - b)) }

/-- The line-search loop (`while True:` at newton_raphson.py:101).  `rem` = passes still allowed
before `iter_line_search == max_iter_line_search`; returns the final `eta2`. -/
def lineSearch (env : Env K) : Nat → K → K → Log K → K × Log K
  | 0, _, _, l => (1, l)        -- unreachable from `lineSearchStart` when maxIterLS ≥ 1
  | rem + 1, eta1, eta2, l =>
    let l := l.push (.ls eta1 eta2)
    let (s1, s2) := env.ls l.nLS
    let l := { l with nLS := l.nLS + 1 }
    let etaNew := (eta2 - eta1) * (-s1 / (s2 - s1)) + eta1
    let eta1' := eta2
    let l := (l.note etaNew (2 / 10)).note etaNew 10
    let eta2' := min (max etaNew (2 / 10)) 10
    let l := l.note (absK (eta2' - eta1')) (1 / 100)
    if absK (eta2' - eta1') < 1 / 100 then (eta2', l)
    else if rem = 0 then (1, l)                -- iter_line_search == max_iter_line_search: eta2 = 1
    else lineSearch env rem eta1' eta2' l

inductive InnerExit where
  | converged | diverged | tooSlow | maxIter
deriving DecidableEq, Repr

/-- loop-carried variables of the inner `while True:` -/
structure Inner (K : Type) where
  c : CId K
  kT : Nat
  computeKT : Bool
  iterNR : Int
  minR : K
  prevR : K

/-- The Newton iteration loop for one attempted load level.  `rem` = iterations still allowed
(`iteration = maxNumIter - rem + 1`). -/
def innerLoop (cfg : Cfg K) (env : Env K) (total : K) (stepNum : Nat) :
    Nat → Inner K → Log K → InnerExit × Inner K × Log K
  | 0, s, l => (.maxIter, s, l)
  | rem + 1, s, l =>
    let iteration := cfg.maxNumIter - rem
    -- tangent refresh logic
    let refresh := s.computeKT || (cfg.kTInitialState && stepNum == 1 && iteration == 1)
                    || s.iterNR == cfg.computeEveryN - 1
    let (s, l) :=
      if refresh then
        let l := { l with nKT := l.nKT + 1 }
        let l := l.push (.kT s.c total l.nKT)
        ({ s with iterNR := 0, kT := l.nKT }, l)
      else
        ({ s with iterNR := s.iterNR + 1, computeKT := if cfg.modifiedNR then s.computeKT else true }, l)
    -- residual
    let r := env.rmax l.nR
    let l := { l with nR := l.nR + 1 }
    let l := l.push (.fint s.c total iteration r)
    if iteration ≥ 2 ∧ r < cfg.absTOL then (.converged, s, l)
    else if r > s.prevR ∧ r > s.minR ∧ iteration > 2 then (.diverged, s, l)
    else
      let s := { s with minR := min s.minR r }
      -- abs(prev_Rmax-Rmax)/abs(prev_Rmax): a zero denominator gives inf/nan in numpy, never `<`
      if iteration > 2 ∧ s.prevR ≠ 0 ∧ absK (s.prevR - r) / absK s.prevR < cfg.tooSlowTOL then (.tooSlow, s, l)
      else
        let s := { s with prevR := r }
        let l := l.push (.solveD s.kT)
        let (eta2, l) := if cfg.lineSearch then lineSearch env cfg.maxIterLS 0 1 l else (1, l)
        let l := { l with nC := l.nC + 1 }
        let c' := CId.upd l.nC
        let l := l.push (.update eta2 c')
        innerLoop cfg env total stepNum rem { s with c := c' } l

/-- loop-carried variables of the outer `while True:` -/
structure Outer (K : Type) where
  inc : K
  total : K
  onceAtTotal : Bool
  maxTotal : K
  computeKT : Bool
  stepNum : Nat
  kTLast : Nat
  c : CId K
  reports : List (K × CId K)     -- newest first: (increments[i], cs[i])

inductive Outcome where
  | finished        -- a step converged with |total - 1| < 1e-3
  | minInc          -- the increment fell below minInc
  | outOfFuel
deriving DecidableEq, Repr

/-- the bisection `while True:` at newton_raphson.py:146 — exact arithmetic version with the
`continue` kept: `fuelB` bounds the (in exact arithmetic never taken) repetitions. -/
def bisect (cfg : Cfg K) : Nat → K → K → Bool → K → Log K → K × K × Bool × Log K
  | 0, inc, total, once, _, l => (inc, total, once, l)
  | fuelB + 1, inc, total, once, maxTotal, l =>
    let l := l.note (absK (total - 1)) (1 / 1000)
    let once := if absK (total - 1) < 1 / 1000 then true else once
    let total := total - inc
    let inc := inc * (3 / 10)
    let l := l.note inc cfg.minInc
    if inc < cfg.minInc then (inc, total, once, l)
    else
      let total := total + inc
      let l := l.note total maxTotal
      if total ≥ maxTotal then bisect cfg fuelB inc total once maxTotal l
      else (inc, total, once, l)

def outerLoop (cfg : Cfg K) (env : Env K) : Nat → Outer K → Log K → Outcome × Outer K × Log K
  | 0, o, l => (.outOfFuel, o, l)
  | fuel + 1, o, l =>
    let l := l.push (.fext o.total)
    let s0 : Inner K := ⟨o.c, o.kTLast, o.computeKT, 0, 1000000, 1000000⟩
    let (ex, s, l) := innerLoop cfg env o.total o.stepNum cfg.maxNumIter s0 l
    let o := { o with computeKT := s.computeKT, c := s.c }
    if ex = .converged then
      let l := l.push (.report o.total o.c)
      let o := { o with reports := (o.total, o.c) :: o.reports }
      let l := l.note (absK (o.total - 1)) (1 / 1000)
      if absK (o.total - 1) < 1 / 1000 then (.finished, o, l)
      else
        let lim := if o.onceAtTotal then (1 - o.total) / 2 else 1 - o.total
        let l := ((l.note (11 / 10 * o.inc) cfg.maxInc).note (11 / 10 * o.inc) lim).note cfg.maxInc lim
        let incNew := min (min (11 / 10 * o.inc) cfg.maxInc) lim
        let total := min 1 (o.total + incNew)
        let o := { o with inc := incNew, total := total, stepNum := o.stepNum + 1 }
        let (kT, l) :=
          if cfg.modifiedNR then
            let l := { l with nKT := l.nKT + 1 }
            (l.nKT, l.push (.kT o.c o.total l.nKT))
          else (s.kT, l)
        let o := { o with computeKT := false, kTLast := kT }
        -- `c = run.cs[-1].copy()`
        let l := l.push (.restart o.c)
        outerLoop cfg env fuel o l
    else
      let maxTotal := max o.maxTotal o.total
      let (inc, total, once, l) := bisect cfg 64 o.inc o.total o.onceAtTotal maxTotal l
      let o := { o with inc := inc, total := total, onceAtTotal := once, maxTotal := maxTotal }
      if inc < cfg.minInc then (.minInc, o, l.push .stopMin)
      else
        match o.reports with
        | (_, c) :: _ =>
          let l := l.push (.restart c)
          outerLoop cfg env fuel { o with c := c } l
        | [] =>
          let l := (l.push (.fext inc)).push (.solve0 inc)
          outerLoop cfg env fuel { o with c := .init inc } l

/-- `_solver_NR(run)` after `Analysis.static` replaced `maxInc` by `max(initialInc, maxInc)`. -/
def solverNR (cfg0 : Cfg K) (env : Env K) (fuel : Nat) : Outcome × Outer K × Log K :=
  let cfg := { cfg0 with maxInc := max cfg0.initialInc cfg0.maxInc }
  let inc := cfg.initialInc
  let l : Log K := ⟨[.solve0 inc, .k0, .fext inc], 0, 0, 0, 0, 1⟩
  let o : Outer K := ⟨inc, inc, false, 0, !cfg.modifiedNR, 1, 0, .init inc, []⟩
  outerLoop cfg env fuel o l

/-- the configurations C09 quantifies over (`max_iter_line_search = 0` would make the line-search loop
unbounded and is excluded by name; `absTOL > 0`). -/
def Admissible (cfg : Cfg K) : Prop :=
  0 < cfg.initialInc ∧ cfg.initialInc ≤ 1 ∧ 0 < cfg.minInc ∧ 0 < cfg.maxInc ∧ 1 ≤ cfg.maxNumIter ∧
    1 ≤ cfg.maxIterLS ∧ 0 < cfg.absTOL

/-- what the user gets back: `run.increments`, `run.cs` (oldest first) -/
def reported (r : Outcome × Outer K × Log K) : List (K × CId K) := r.2.1.reports.reverse

def events (r : Outcome × Outer K × Log K) : List (Ev K) := r.2.2.evs.reverse

end Compmech.NR
