import CompmechVerif.Model.ShellNL
import Mathlib.Tactic.Ring
import Mathlib.Algebra.Field.Rat
import Mathlib.Tactic.NormNum

namespace Compmech.ShellNL
open Compmech.Integrate

variable {K : Type} [Field K]

theorem callF_beta_one (g : K → K → K) (pts : List (Pt K)) (h : ∀ p ∈ pts, p.beta = 1) (out : K) :
    callF g pts out = out + (pts.map fun p => p.alpha * g p.x p.y).sum := by
  unfold callF
  induction pts generalizing out with
  | nil => simp
  | cons p ps ih =>
    rw [List.foldl_cons, ih (fun q hq => h q (List.mem_cons_of_mem _ hq)), h p (by simp)]
    simp only [List.map_cons, List.sum_cons]
    ring

/-- consecutive chunks of length `k` tile the prefix of length `k*n` -/
theorem sum_chunks {α : Type} (w : α → K) (l : List α) (k : Nat) : ∀ n : Nat,
    ((List.range n).map fun i => (((l.drop (k * i)).take k).map w).sum).sum = ((l.take (k * n)).map w).sum := by
  intro n
  induction n with
  | zero => simp
  | succ n ih =>
    rw [List.range_succ, List.map_append, List.sum_append, ih]
    simp only [List.map_cons, List.map_nil, List.sum_cons, List.sum_nil, add_zero]
    rw [Nat.mul_succ, List.take_add, List.map_append, List.sum_append]

theorem sum_modify_zero (l : List K) (f : K → K) (h : 0 < l.length) :
    (l.modify 0 f).sum = l.sum - l.headD 0 + f (l.headD 0) := by
  cases l with
  | nil => simp at h
  | cons a t => simp [List.modify_cons]; ring

/-- `integratev` does not depend on the number of threads (exact arithmetic): for every point list whose `beta` are 1, every
integrand of the accumulate form and every `num_cores ≥ 1` the result is the plain quadrature sum. -/
theorem integratev_eq_sum (g : K → K → K) (pts : List (Pt K)) (h : ∀ p ∈ pts, p.beta = 1) (cores : Nat) (hc : 1 ≤ cores) :
    integratev g pts cores = (pts.map fun p => p.alpha * g p.x p.y).sum := by
  unfold integratev
  set k := pts.length / cores with hk
  set w : Pt K → K := fun p => p.alpha * g p.x p.y with hw
  have hsub : ∀ (a b : Nat), ∀ p ∈ (pts.drop a).take b, p.beta = 1 := fun a b p hp =>
    h p (List.mem_of_mem_drop (List.mem_of_mem_take hp))
  have houts : ((List.range cores).map fun i => callF g ((pts.drop (k * i)).take k) 0)
      = (List.range cores).map fun i => (((pts.drop (k * i)).take k).map w).sum := by
    apply List.map_congr_left
    intro i _
    rw [callF_beta_one g _ (hsub _ _), zero_add]
  have hle : k * cores ≤ pts.length := by rw [hk, Nat.mul_comm]; exact Nat.mul_div_le _ _
  have hsplit : (pts.map w).sum = ((pts.take (k * cores)).map w).sum + ((pts.drop (k * cores)).map w).sum := by
    conv_lhs => rw [← List.take_append_drop (k * cores) pts]
    rw [List.map_append, List.sum_append]
  simp only []
  rw [houts]
  split_ifs with hrest
  · have hlen : 0 < ((List.range cores).map fun i => (((pts.drop (k * i)).take k).map w).sum).length := by
      simp; omega
    rw [sum_modify_zero _ _ hlen, callF_beta_one g _ (hsub _ _), sum_chunks w pts k cores, hsplit]
    have htake : (pts.drop (k * cores)).take (pts.length - k * cores) = pts.drop (k * cores) := by
      apply List.take_of_length_le; simp
    rw [htake]
    ring
  · have hz : pts.length - k * cores = 0 := by omega
    have hd : pts.drop (k * cores) = [] := by
      apply List.drop_eq_nil_of_le; omega
    rw [sum_chunks w pts k cores, hsplit, hd]
    simp

theorem trapz2d_beta_one (xmin xmax : K) (nx : Nat) (ymin ymax : K) (ny : Nat) :
    ∀ p ∈ trapz2dPoints xmin xmax nx ymin ymax ny, p.beta = 1 := by
  intro p hp
  unfold trapz2dPoints at hp
  simp only [List.mem_flatMap, List.mem_map, List.mem_range] at hp
  obtain ⟨i, _, j, _, rfl⟩ := hp
  rfl

theorem simpsPts_beta_one (xs ys : Nat → K) (nx ny : Nat) (c : K) : ∀ p ∈ simpsPts xs ys nx ny c, p.beta = 1 := by
  intro p hp
  unfold simpsPts at hp
  simp only [List.mem_append, List.mem_map, List.mem_flatMap, List.mem_range, List.mem_cons] at hp
  rcases hp with ((((((((h | h) | h) | h) | h) | h) | h) | h) | h)
  all_goals (first
    | (obtain ⟨_, _, rfl⟩ := h; rfl)
    | (obtain ⟨_, _, _, _, rfl⟩ := h; rfl))

theorem simps2d_beta_one (xmin xmax : K) (nx : Nat) (ymin ymax : K) (ny : Nat) :
    ∀ p ∈ simps2dPoints xmin xmax nx ymin ymax ny, p.beta = 1 :=
  simpsPts_beta_one _ _ _ _ _

/-! ## glue -/

theorem sym_symm (a : Mat K) (i j : Nat) : sym a i j = sym a j i := by
  unfold sym
  rcases Nat.lt_trichotomy i j with h | h | h
  · rw [if_pos (Nat.le_of_lt h), if_neg (Nat.not_le_of_gt h)]
  · subst h; rfl
  · rw [if_neg (Nat.not_le_of_gt h), if_pos (Nat.le_of_lt h)]

theorem kT_symm_aux (p : Parts K) (a b : Bool) (h0 : ∀ i j, p.k0 i j = p.k0 j i) (i j : Nat) :
    kT p a b i j = kT p a b j i := by
  unfold kT
  rw [h0 i j, sym_symm p.kLL i j, sym_symm p.kG i j]
  ring

theorem sumTo_add (n : Nat) (f g : Nat → K) : sumTo n (fun j => f j + g j) = sumTo n f + sumTo n g := by
  unfold sumTo
  induction n with
  | zero => simp
  | succ n ih => simp only [List.range_succ, List.map_append, List.sum_append, ih]; simp; ring

theorem sumTo_mul (n : Nat) (t : K) (f : Nat → K) : sumTo n (fun j => t * f j) = t * sumTo n f := by
  unfold sumTo
  induction n with
  | zero => simp
  | succ n ih => simp only [List.range_succ, List.map_append, List.sum_append, ih]; simp; ring

end Compmech.ShellNL
