/-
Hand-written executable model of the INDEX BOOK-KEEPING of

* `compmech/sparse.py : make_symmetric, finalize_symmetric_matrix`
* `compmech/panel/assembly/assembly.py : PanelAssembly.__init__, get_size, get_k0_conn (placement only),
   calc_k0, calc_kG0, calc_kM, calc_kT, calc_fint, calc_fext`
* `compmech/stiffpanelbay/stiffpanelbay.py : StiffPanelBay.get_size, calc_k0, calc_kG0, calc_kM, calc_fext`
* `compmech/stiffener/bladestiff1d.py, bladestiff2d.py, tstiff2d.py : calc_k0, calc_kG0, calc_kM`
  (which blocks a stiffener produces and at which `row0/col0` each kernel is asked to write).

The kernels (`Panel.calc_k0(size, row0, col0, finalize=False)`, `fk0f`, `fkCss`, `fkCBFycte12`, …) are PARAMETERS:
what a kernel returns for `row0 = col0 = 0` (its stand-alone, local matrix) is an input of the model, as a COO list;
the model decides where it goes.  A kernel called with `(row0, col0)` writes `row = row0 + …`, `col = col0 + …`,
i.e. returns `shift row0 col0 local` — that the running binaries do so is checked on the implementation by
`tools/props/C13.py` (stand-alone matrix vs matrix recorded inside the global call).

Representation
* sparse matrix: `Coo K = List (ℕ × ℕ × K)` with semantics `toFun` (duplicates add, as `scipy.sparse` does on
  conversion / addition); the sparse `+=` accumulation is list concatenation;
* dense vectors: `List K`; a vector placed in a longer one is the function `placeVec`;
* `Option` results: `none` would be a python exception of the glue itself (there is none left: a flange-less
  `BladeStiff2D` is skipped by `get_size` and `calc_fext`).
-/
import Mathlib.Algebra.Field.Defs

namespace Compmech.Asm

/-- COO triplets `(row, col, value)` -/
abbrev Coo (K : Type) := List (Nat × Nat × K)

/-- the three matrices whose assembly is modelled (`kT` of an assembly is `k0`-like: panels + connections) -/
inductive MatKind where
  | k0 | kG0 | kM
deriving DecidableEq, Repr

section
variable {K : Type} [Field K]

/-- what a COO list denotes: entry `(i, j)` is the sum of all triplets at `(i, j)` -/
def toFun (l : Coo K) (i j : Nat) : K :=
  (l.map fun e => if e.1 = i ∧ e.2.1 = j then e.2.2 else 0).sum

/-- a kernel asked to write at `(row0, col0)` -/
def shift (row0 col0 : Nat) (l : Coo K) : Coo K :=
  l.map fun e => (row0 + e.1, col0 + e.2.1, e.2.2)

/-- `k12.T` -/
def transpose (l : Coo K) : Coo K := l.map fun e => (e.2.1, e.1, e.2.2)

/-- `sparse.make_symmetric`: `triu = c >= r` is kept; a second copy of the kept triplets is appended in which the
strictly upper ones are mirrored and the diagonal ones are zeroed (`r*0, c*0, v*0`). -/
def makeSymmetric (l : Coo K) : Coo K :=
  let u := l.filter fun e => decide (e.1 ≤ e.2.1)
  u ++ u.map fun e => if e.1 < e.2.1 then (e.2.1, e.1, e.2.2) else (0, 0, 0)

/-- `sparse.finalize_symmetric_matrix` (the NaN/inf asserts and the CSR conversion do not change the matrix) -/
def finalize (l : Coo K) : Coo K := makeSymmetric l

/-- one kernel call of a global method: which kernel (`tag`), the `row0, col0` it is handed, its local result -/
structure Block (K : Type) where
  tag : Nat
  row0 : Nat
  col0 : Nat
  coo : Coo K

def Block.placed (b : Block K) : Coo K := shift b.row0 b.col0 b.coo

/-- `k += kernel(…, row0, col0)` over all calls, in order -/
def placeAll (bs : List (Block K)) : Coo K := bs.flatMap Block.placed

/-! ### PanelAssembly -/

structure Span where
  rowStart : Nat
  colStart : Nat
  rowEnd : Nat
  colEnd : Nat
deriving DecidableEq, Repr, Inhabited

/-- the loop of `PanelAssembly.__init__` over `(p.m, p.n)` with its running `row0, col0` -/
def initLoop : List (Nat × Nat) → Nat → Nat → List Span
  | [], _, _ => []
  | p :: ps, row0, col0 =>
    ⟨row0, col0, row0 + 3 * p.1 * p.2, col0 + 3 * p.1 * p.2⟩ ::
      initLoop ps (row0 + 3 * p.1 * p.2) (col0 + 3 * p.1 * p.2)

def init (ps : List (Nat × Nat)) : List Span := initLoop ps 0 0

/-- `PanelAssembly.get_size` -/
def getSize (ps : List (Nat × Nat)) : Nat := (ps.map fun p => 3 * p.1 * p.2).sum

/-- one entry of the connectivity list: positions of `p1`, `p2` in `panels`, and the local results of the three
kernels `fkC…11, fkC…12, fkC…22` -/
structure Conn (K : Type) where
  p1 : Nat
  p2 : Nat
  k11 : Coo K
  k12 : Coo K
  k22 : Coo K

/-- tags of the blocks -/
def tagPanel : Nat := 0
def tagBase : Nat := 1
def tagFlange : Nat := 2
def tagCss : Nat := 3
def tagCsf : Nat := 4
def tagCff : Nat := 5
def tagCpp : Nat := 6
def tagCpb : Nat := 7
def tagCbb : Nat := 8
def tagBF11 : Nat := 9
def tagBF12 : Nat := 10
def tagBF22 : Nat := 11
def tagBeam : Nat := 12
def tagC11 : Nat := 13
def tagC12 : Nat := 14
def tagC22 : Nat := 15

/-- one connection of `get_k0_conn`: `11` at `(p1.row_start, p1.col_start)`, `upper12(12 at (p1.row_start,
p2.col_start))` — transposed when `p1.row_start > p2.col_start` — and `22` at `(p2.row_start, p2.col_start)` -/
def connBlocks (spans : List Span) (c : Conn K) : List (Block K) :=
  let s1 := spans.getD c.p1 default
  let s2 := spans.getD c.p2 default
  [⟨tagC11, s1.rowStart, s1.colStart, c.k11⟩,
   if s1.rowStart > s2.colStart then ⟨tagC12, s2.colStart, s1.rowStart, transpose c.k12⟩
   else ⟨tagC12, s1.rowStart, s2.colStart, c.k12⟩,
   ⟨tagC22, s2.rowStart, s2.colStart, c.k22⟩]

def connAllBlocks (ps : List (Nat × Nat)) (conns : List (Conn K)) : List (Block K) :=
  conns.flatMap (connBlocks (init ps))

/-- `get_k0_conn(finalize=True)` -/
def k0Conn (ps : List (Nat × Nat)) (conns : List (Conn K)) : Coo K :=
  finalize (placeAll (connAllBlocks ps conns))

/-- `p.calc_k0(size, row0=p.row_start, col0=p.col_start, finalize=False)` for every panel, in order -/
def panelBlocks (ps : List (Nat × Nat)) (comps : List (Coo K)) : List (Block K) :=
  List.zipWith (fun s c => ⟨tagPanel, s.rowStart, s.colStart, c⟩) (init ps) comps

/-- `calc_kG0`, `calc_kM`: accumulate, then `finalize_symmetric_matrix` when `finalize` -/
def calcNoConn (fin : Bool) (ps : List (Nat × Nat)) (comps : List (Coo K)) : Coo K :=
  if fin then finalize (placeAll (panelBlocks ps comps)) else placeAll (panelBlocks ps comps)

/-- `calc_k0` (and `calc_kT` with `comps p = kL_p ++ kG_p`): as above, then `k0 += self.k0_conn` -/
def calcK0 (fin : Bool) (ps : List (Nat × Nat)) (comps : List (Coo K)) (conns : List (Conn K)) : Coo K :=
  calcNoConn fin ps comps ++ k0Conn ps conns

/-- a panel's `fext[col0:col1] += local` inside a longer zero vector -/
def placeVec (col0 : Nat) (v : List K) (i : Nat) : K :=
  if col0 ≤ i then v.getD (i - col0) 0 else 0

/-- `PanelAssembly.calc_fext`: `fext += p.calc_fext(size=size, col0=p.col_start)`, entry `i` -/
def calcFextAt (ps : List (Nat × Nat)) (vs : List (List K)) (i : Nat) : K :=
  (List.zipWith (fun s v => placeVec s.colStart v i) (init ps) vs).sum

def calcFext (ps : List (Nat × Nat)) (vs : List (List K)) : List K :=
  (List.range (getSize ps)).map (calcFextAt ps vs)

/-- sparse matrix times dense vector, entry `i` -/
def mulVecAt (l : Coo K) (c : List K) (i : Nat) : K :=
  (l.map fun e => if e.1 = i then e.2.2 * c.getD e.2.1 0 else 0).sum

/-- `PanelAssembly.calc_fint`: panel parts placed like `calc_fext`, plus `k0_conn*c` -/
def calcFint (ps : List (Nat × Nat)) (vs : List (List K)) (conns : List (Conn K)) (c : List K) : List K :=
  (List.range (getSize ps)).map fun i => calcFextAt ps vs i + mulVecAt (k0Conn ps conns) c i

/-! ### StiffPanelBay and its stiffeners -/

/-- `BladeStiff1D`: optional base (same series and range as the skin), optional 1-D flange (`fk0f/fkG0f/fkMf`) -/
structure Blade1D (K : Type) where
  base : Option (Coo K)
  flange : Option (Coo K)

/-- `BladeStiff1D.calc_k0/kG0/kM(size, row0, col0)`; `calc_kG0` skips the base -/
def Blade1D.blocks (kind : MatKind) (s : Blade1D K) (row0 col0 : Nat) : List (Block K) :=
  (match s.base with
    | some b => if kind = MatKind.kG0 then [] else [⟨tagBase, row0, col0, b⟩]
    | none => []) ++
  (match s.flange with
    | some f => [⟨tagBeam, row0, col0, f⟩]
    | none => [])

/-- `BladeStiff2D`: optional base in the skin's range, optional flange `(flange.get_size(), matrix)` with its own
range, and for `k0` the three connection kernels `fkCss, fkCsf, fkCff` -/
structure Blade2D (K : Type) where
  base : Option (Coo K)
  flange : Option (Nat × Coo K)
  css : Coo K
  csf : Coo K
  cff : Coo K

def Blade2D.flangeSize (s : Blade2D K) : Nat :=
  match s.flange with
  | some f => f.1
  | none => 0

/-- `BladeStiff2D.calc_k0/kG0/kM(size, row0, col0)`: base always at `(0, 0)` (not for `kG0`), flange at
`(row0, col0)`, `fkCss` at `(0, 0)`, `fkCsf` at `(0, col0)`, `fkCff` at `(row0, col0)` -/
def Blade2D.blocks (kind : MatKind) (s : Blade2D K) (row0 col0 : Nat) : List (Block K) :=
  (match s.base with
    | some b => if kind = MatKind.kG0 then [] else [⟨tagBase, 0, 0, b⟩]
    | none => []) ++
  (match s.flange with
    | some f =>
      ⟨tagFlange, row0, col0, f.2⟩ ::
        (if kind = MatKind.k0 then
          [⟨tagCss, 0, 0, s.css⟩, ⟨tagCsf, 0, col0, s.csf⟩, ⟨tagCff, row0, col0, s.cff⟩]
        else [])
    | none => [])

/-- `TStiff2D`: base and flange with their own ranges; for `k0` the skin-base penalty kernels and the three
base-flange kernels -/
structure TStiff (K : Type) where
  baseSize : Nat
  flangeSize : Nat
  base : Coo K
  flange : Coo K
  cpp : Coo K
  cpb : Coo K
  cbb : Coo K
  bf11 : Coo K
  bf12 : Coo K
  bf22 : Coo K

/-- `TStiff2D.calc_k0/kG0/kM(size, row0, col0)` with `rowf = row0 + base.get_size()` -/
def TStiff.blocks (kind : MatKind) (s : TStiff K) (row0 col0 : Nat) : List (Block K) :=
  let rowf := row0 + s.baseSize
  let colf := col0 + s.baseSize
  [⟨tagBase, row0, col0, s.base⟩, ⟨tagFlange, rowf, colf, s.flange⟩] ++
    (if kind = MatKind.k0 then
      [⟨tagCpp, 0, 0, s.cpp⟩, ⟨tagCpb, 0, col0, s.cpb⟩, ⟨tagCbb, row0, col0, s.cbb⟩,
       ⟨tagBF11, row0, col0, s.bf11⟩, ⟨tagBF12, row0, colf, s.bf12⟩, ⟨tagBF22, rowf, colf, s.bf22⟩]
    else [])

/-- the loop over `bay.bladestiff2ds` with its running `row0, col0` (advanced only `if s.flange is not None`);
returns the blocks and the final `row0, col0` -/
def blade2dLoop (kind : MatKind) : List (Blade2D K) → Nat → Nat → List (Block K) × Nat × Nat
  | [], row0, col0 => ([], row0, col0)
  | s :: t, row0, col0 =>
    let bl := s.blocks kind row0 col0
    let r := match s.flange with
      | some f => blade2dLoop kind t (row0 + f.1) (col0 + f.1)
      | none => blade2dLoop kind t row0 col0
    (bl ++ r.1, r.2.1, r.2.2)

/-- the loop over `bay.tstiff2ds`, continuing with the same `row0, col0` -/
def tLoop (kind : MatKind) : List (TStiff K) → Nat → Nat → List (Block K) × Nat × Nat
  | [], row0, col0 => ([], row0, col0)
  | s :: t, row0, col0 =>
    let bl := s.blocks kind row0 col0
    let r := tLoop kind t (row0 + (s.baseSize + s.flangeSize)) (col0 + (s.baseSize + s.flangeSize))
    (bl ++ r.1, r.2.1, r.2.2)

structure Bay (K : Type) where
  num : Nat
  m : Nat
  n : Nat
  skins : List (Coo K)
  b1 : List (Blade1D K)
  b2 : List (Blade2D K)
  ts : List (TStiff K)

def Bay.skinSize (b : Bay K) : Nat := b.num * b.m * b.n

/-- all kernel calls of `StiffPanelBay.calc_k0/kG0/kM`, in the order the code makes them -/
def bayBlocks (kind : MatKind) (b : Bay K) : List (Block K) :=
  let sk := b.skins.map fun c => (⟨tagPanel, 0, 0, c⟩ : Block K)
  let s1 := b.b1.flatMap fun s => s.blocks kind 0 0
  let r2 := blade2dLoop kind b.b2 b.skinSize b.skinSize
  let r3 := tLoop kind b.ts r2.2.1 r2.2.2
  sk ++ s1 ++ r2.1 ++ r3.1

/-- `StiffPanelBay.calc_k0/kG0/kM` -/
def bayCalc (kind : MatKind) (b : Bay K) : Coo K := finalize (placeAll (bayBlocks kind b))

/-- `StiffPanelBay.get_size`: a flange-less `BladeStiff2D` is skipped (`if s.flange is not None`) -/
def bayGetSize (b : Bay K) : Option Nat :=
  let s2 := b.b2.foldl (fun acc s => acc.map fun z => z + s.flangeSize) (some b.skinSize)
  b.ts.foldl (fun acc s => acc.map fun z => z + (s.baseSize + s.flangeSize)) s2

/-- `StiffPanelBay.calc_fext`: skin vector, then per `BladeStiff2D` its flange vector (a flange-less one is skipped),
then per `TStiff2D` base and flange vectors, concatenated -/
def bayFext (skin : List K) (b2 : List (Option (List K))) (ts : List (List K × List K)) : Option (List K) :=
  let s2 := b2.foldl (fun acc s => acc.map fun z => z ++ s.getD []) (some skin)
  ts.foldl (fun acc s => acc.map fun z => z ++ s.1 ++ s.2) s2

end

end Compmech.Asm
