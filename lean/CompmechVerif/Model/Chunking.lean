/-
Hand-written model of the point-chunking logic of `fuvw` / `fstrain`
(compmech/panel/models/clt_bardell_field.pyx:47-98) and of `integratev`'s work split:
pad the point list with zeros to a multiple of `num_cores`, reshape to `(num_cores, -1)`, let every
"core" map its row, ravel, keep the first `size` results.

Second part: hand model of `Panel.strain` / `Panel.stress` (compmech/panel/_panel.py:992-1092, plain Python): `strain` hands
`int(NLterms)` to the field kernel `fstrain` (a PARAMETER here; its per-point, per-degree-of-freedom content is regenerated in
`Gen/Field/Clt.lean`), `stress` calls `self.strain(c, xs, ys, gridx, gridy, NLterms=NLterms)` and multiplies the six strain components of
every point by the rows of the laminate matrix (`F` argument, else `self.F`, else `ValueError`).  This part has no driver: it is tied
to the running code by the numerical clause "stress = F * strain of the same option" of `tools/props/C11.py` (both `NLterms` values,
every generated case) — not by a recorded-trace correspondence.
-/
namespace Compmech.Chunking

/-- `add_size = num_cores - (size % num_cores); if add_size == num_cores: add_size = 0` -/
def addSize (size cores : Nat) : Nat :=
  let a := cores - size % cores
  if a = cores then 0 else a

/-- `reshape(k, -1)` of a list whose length is `k * w`: `k` consecutive rows of length `w` -/
def rows {α : Type} : Nat → Nat → List α → List (List α)
  | 0, _, _ => []
  | k + 1, w, l => l.take w :: rows k w (l.drop w)

/-- the whole pipeline for a per-point function `f` (the C-level `cfuvw`, `cfstrain`, … act point by point) -/
def chunkedMap {α β : Type} (f : α → β) (z : α) (xs : List α) (cores : Nat) : List β :=
  let padded := xs ++ List.replicate (addSize xs.length cores) z
  let w := padded.length / cores
  (((rows cores w padded).map (List.map f)).flatten).take xs.length

/-! ### `Panel.strain` / `Panel.stress` -/

/-- the six arrays `exx, eyy, gxy, kxx, kyy, kxy` of `fstrain`, at one point -/
structure Strain6 (K : Type) where
  exx : K
  eyy : K
  gxy : K
  kxx : K
  kyy : K
  kxy : K

/-- the six arrays `Nxx, Nyy, Nxy, Mxx, Myy, Mxy` of `Panel.stress`, at one point -/
structure Res6 (K : Type) where
  Nxx : K
  Nyy : K
  Nxy : K
  Mxx : K
  Myy : K
  Mxy : K

/-- `int(NLterms)` -/
def nlFlag (NLterms : Bool) : Nat := if NLterms then 1 else 0

/-- `Panel.strain(c, xs, ys, NLterms)`: `fstrain(c, self, xs, ys, self.out_num_cores, int(NLterms))` — the wrapper `fstrain` pads,
chunks, lets every core run the C kernel (`kernel flag point`) on its chunk, ravels and trims (`chunkedMap`) -/
def panelStrain {α K : Type} (kernel : Nat → α → Strain6 K) (z : α) (cores : Nat) (NLterms : Bool) (pts : List α) :
    List (Strain6 K) :=
  chunkedMap (kernel (nlFlag NLterms)) z pts cores

/-- `exx*F[r, 0] + eyy*F[r, 1] + gxy*F[r, 2] + kxx*F[r, 3] + kyy*F[r, 4] + kxy*F[r, 5]` -/
def stressRow {K : Type} [Add K] [Mul K] (F : Fin 6 → Fin 6 → K) (r : Fin 6) (e : Strain6 K) : K :=
  e.exx * F r 0 + e.eyy * F r 1 + e.gxy * F r 2 + e.kxx * F r 3 + e.kyy * F r 4 + e.kxy * F r 5

/-- the six resultants of one point -/
def applyF {K : Type} [Add K] [Mul K] (F : Fin 6 → Fin 6 → K) (e : Strain6 K) : Res6 K :=
  ⟨stressRow F 0 e, stressRow F 1 e, stressRow F 2 e, stressRow F 3 e, stressRow F 4 e, stressRow F 5 e⟩

/-- components by index, in the order of the laminate matrix -/
def Strain6.vec {K : Type} (e : Strain6 K) : Fin 6 → K
  | 0 => e.exx | 1 => e.eyy | 2 => e.gxy | 3 => e.kxx | 4 => e.kyy | 5 => e.kxy

def Res6.vec {K : Type} (s : Res6 K) : Fin 6 → K
  | 0 => s.Nxx | 1 => s.Nyy | 2 => s.Nxy | 3 => s.Mxx | 4 => s.Myy | 5 => s.Mxy

/-- `Panel.stress(c, F, xs, ys, NLterms)`: `res_strain = self.strain(c, xs, ys, gridx, gridy, NLterms=NLterms)`;
`if F is None: F = self.F`; `if F is None: raise ValueError` (`none`); then the six products, point by point -/
def panelStress {α K : Type} [Add K] [Mul K] (selfF Farg : Option (Fin 6 → Fin 6 → K))
    (kernel : Nat → α → Strain6 K) (z : α) (cores : Nat) (NLterms : Bool) (pts : List α) : Option (List (Res6 K)) :=
  let res_strain := panelStrain kernel z cores NLterms pts
  match (match Farg with | some F => some F | none => selfF) with
  | none => none
  | some F => some (res_strain.map (applyF F))

end Compmech.Chunking
