/-
Hand-written model of the point-chunking logic of `fuvw` / `fstrain`
(compmech/panel/models/clt_bardell_field.pyx:47-98) and of `integratev`'s work split:
pad the point list with zeros to a multiple of `num_cores`, reshape to `(num_cores, -1)`, let every
"core" map its row, ravel, keep the first `size` results.
-/
namespace Compmech.Chunking

/-- `add_size = num_cores - (size % num_cores); if add_size == num_cores: add_size = 0` -/
def addSize (size cores : Nat) : Nat :=
  let a := cores - size % cores
  if a = cores then 0 else a

/-- `reshape(k, -1)` of a list whose length is `k * w`: `k` consecutive rows of length `w` -/
def rows {α : Type} : Nat → Nat → List α → List (List α)
  | 0, _, _ => []
  | k + 1, w, l => l.take w :: rows k w (l.drop w)

/-- the whole pipeline for a per-point function `f` (the C-level `cfuvw`, `cfstrain`, … act point by point) -/
def chunkedMap {α β : Type} (f : α → β) (z : α) (xs : List α) (cores : Nat) : List β :=
  let padded := xs ++ List.replicate (addSize xs.length cores) z
  let w := padded.length / cores
  (((rows cores w padded).map (List.map f)).flatten).take xs.length

end Compmech.Chunking
