/-
Hand-written executable model of the PYTHON GLUE of the field queries

    compmech/panel/_panel.py            : Panel._default_field, Panel.uvw, Panel.strain, Panel.stress
    compmech/panel/assembly/assembly.py : default_field, PanelAssembly.__init__ (col_start / col_end), get_size,
                                          PanelAssembly.uvw, .strain, .stress

i.e. everything between the user's arguments (`c`, `xs, ys` or `gridx, gridy`, `group`, `NLterms`, `F`) and the compiled field
functions `modelDB.db[model]['field'].fuvw / .fstrain`: how the evaluation points are built (`linspace` + `meshgrid` (default
`indexing='xy'`), `atleast_1d`, the shape check, `ravel`), WHICH compiled function of WHICH module is called with WHICH amplitude
vector / point arrays / core count / `NLterms` flag, how its results are reshaped and stored (`self.Xs, self.Ys, self.u, …, self.phiy`),
the loop of an assembly over its panels with the `group` filter and the slice `c[panel.col_start: panel.col_end]`, the running sums that
`PanelAssembly.__init__` stores as `col_start, col_end`, the products with the laminate matrix, and which exception is raised for which
input, in which order.

THE COMPILED KERNELS ARE PARAMETERS (`Kernels`): `uvw fm p c (x, y)` is what `cfuvw / cfwx / cfwy` (+ the `*= -1` loop of `fuvw`) of
the field module `fm` compute at ONE point from the panel attributes they read (`PanelDef`: `a, b, m, n`, and — inside `rest` — the 24
edge flags, `r`, `alpharad`) and from the memory `&c[0]` points to; `strain p c flag (x, y)` the same for `cfstrain`.  The def-level
wrappers `fuvw / fstrain` (pad the point arrays with zeros to a multiple of `num_cores`, reshape, `prange`, ravel, trim) are NOT
parameters: they are `Chunking.chunkedMap` of Model/Chunking.lean with the padding point `(0, 0)`.
"POINTWISE" — the wrapper returns at position `k` the kernel's value at the `k`-th point, whatever `num_cores ≥ 1` — is therefore not
an assumption of this model but `Chunking.chunkedMap_eq_map` (= Props/C11 `chunking_invariant`; tie: driver op `chunk`); that the
C-level `cf*` routines treat the points one by one (`for pti in range(size)`) and what they compute there is the regenerated
`Gen/Field/Clt.lean`, `Gen/Field/CltW.lean` (per point, per degree of freedom; Props/C11 `uvw_eq_series`, `slopes_eq_series`,
`strain_linear_eq_donnell`, `strain_nl_partial`; tie: V of tools/props/C11.py and the source reading `source_field_predicate`).

What is NOT checked by the code and hence not by the model: the LENGTH of `c`.  Neither `Panel.uvw / strain / stress` nor the
assembly methods call `check_c`; the compiled wrappers take `double [:] c` (one dimension is enforced: `ValueError: Buffer has wrong
number of dimensions`) and are compiled with `boundscheck=False`, so a vector that is too short is read out of bounds.  The model hands
the vector over as it is (`KCall.c`); `c[col_start:col_end]` of a short vector is the clamped numpy slice (`pySlice`).

Representation
* `Arr α`: a numpy array as far as the glue can tell — its shape and its elements in C order (what `.ravel()` returns); a 0-d array /
  python scalar has shape `[]`.  Well-formed inputs have `data.length = shape.prod`; nothing here depends on it.
* `Option (Arr K)`: an argument `xs` / `ys` (`None` = not given).
* `CArg K`: the argument `c` — 0-d, 1-d (a python list is treated alike), or of higher dimension.
* a result of five / six / six equally shaped arrays is ONE array of records (`Arr (Uvw5 K)`, `Arr (Strain6 K)`, `Arr (Res6 K)`);
  the individual numpy arrays are its projections (`Arr.map (·.u)` …) — this is how `self.u … self.phiy` are stored.
* exact arithmetic: `numpy.linspace(0, stop, num)[k] = k * (stop / (num - 1))` (`num = 1`: `[0]`).

Panels are values here: a panel object that sits in two assemblies (the second `PanelAssembly.__init__` overwrites its `col_start`) or
twice in one list is outside the model, like attributes overwritten by the user after the assembly was built — except that
`col_start / col_end` are read from the panel (`Option`: `None` before any assembly), as the code does.

NOT modelled: the `plot` methods, which only dispatch on `vec` to the three queries (`Panel.plot`: `uvw(c, xs, ys, gridx, gridy)`,
`strain(…)` with the default `NLterms=True`, `stress(…, NLterms=True)`; `PanelAssembly.plot` ignores its `xs, ys` arguments and uses
`gridx, gridy` only) and then draw; `Panel.calc_fint` does not use these queries (it calls the `*_num` integrators).

Tied to the running Python by `tools/props/C11.py : field_glue_correspondence` (recorded calls of the compiled functions, result
shapes, stored attributes, exceptions) through `Drv/C11.lean`; no Mathlib beyond the field hierarchy.
-/
import Mathlib.Algebra.Field.Defs
import CompmechVerif.Model.Chunking
import CompmechVerif.Model.PanelGlue

namespace Compmech.FieldGlue
open Compmech.Chunking

/-! ## arrays -/

/-- a numpy array: shape and elements in C order -/
structure Arr (α : Type) where
  shape : List Nat
  data : List α

/-- elementwise operation (shape preserved) -/
def Arr.map {α β : Type} (f : α → β) (A : Arr α) : Arr β := ⟨A.shape, A.data.map f⟩

/-- `numpy.reshape(l, shape)` of a flat result -/
def reshape {α : Type} (shape : List Nat) (l : List α) : Arr α := ⟨shape, l⟩

/-- `numpy.atleast_1d`: a 0-d array becomes shape `(1,)` -/
def Arr.atleast1d {α : Type} (A : Arr α) : Arr α := if A.shape = [] then ⟨[1], A.data⟩ else A

/-- the 1-d array of a list -/
def arr1 {α : Type} (l : List α) : Arr α := ⟨[l.length], l⟩

/-- entry at flat (C order) position `j` -/
def Arr.flat? {α : Type} (A : Arr α) (j : Nat) : Option α := A.data[j]?

/-! ## what the glue reads of a panel -/

/-- `modelDB.db[model]['field']` -/
inductive FieldModule where
  | clt    -- compmech.panel.models.clt_bardell_field   (fuvw, fstrain)
  | cltW   -- compmech.panel.models.clt_bardell_field_w (fuvw only)
deriving DecidableEq, Repr

/-- the `'field'` entry of the four models of `modelDB.db` -/
def fieldModuleOf : PanelGlue.ModelKind → FieldModule
  | .plateW => .cltW
  | _ => .clt

/-- the attributes of a panel that the glue and the compiled field functions READ; `rest` stands for everything only the compiled code
looks at (edge flags, `r`, `alpharad`) and identifies the object in the recorded calls -/
structure PanelDef (K R : Type) where
  model : PanelGlue.ModelAttr
  a : K
  b : K
  m : Nat
  n : Nat
  /-- `self.F` (`None` until a laminate was built or assigned) -/
  F : Option (Fin 6 → Fin 6 → K)
  /-- `self.out_num_cores` -/
  outNumCores : Nat
  rest : R

/-- `(u, v, w, phix, phiy)` at one point -/
structure Uvw5 (K : Type) where
  u : K
  v : K
  w : K
  phix : K
  phiy : K

/-- the output attributes `Panel.uvw` / `_default_field` write -/
structure Stored (K : Type) where
  Xs : Option (Arr K) := none
  Ys : Option (Arr K) := none
  u : Option (Arr K) := none
  v : Option (Arr K) := none
  w : Option (Arr K) := none
  phix : Option (Arr K) := none
  phiy : Option (Arr K) := none

/-- a `Panel` object: definition, assembly book-keeping, outputs -/
structure Panel (K R G : Type) where
  d : PanelDef K R
  /-- `self.group` (any label; `None` is one) -/
  group : G
  /-- `self.col_start`, `self.col_end`: `None` until `PanelAssembly.__init__` ran -/
  colStart : Option Nat := none
  colEnd : Option Nat := none
  out : Stored K := {}

/-- the compiled C kernels at ONE point (see the header) -/
structure Kernels (K R : Type) where
  uvw : FieldModule → PanelDef K R → List K → K × K → Uvw5 K
  strain : PanelDef K R → List K → Nat → K × K → Strain6 K

/-- one call of a compiled def-level function as the glue makes it: `fuvw(c, p, xs, ys, num_cores)` /
`fstrain(c, p, xs, ys, num_cores, NLterms)` of the module `fm` -/
structure KCall (K R : Type) where
  isStrain : Bool
  fm : FieldModule
  p : PanelDef K R
  c : List K
  /-- `(xs[k], ys[k])`, in order -/
  pts : List (K × K)
  cores : Nat
  /-- the `NLterms` argument (`0` for `fuvw`, which has none) -/
  nl : Nat

inductive Err where
  | gridNegative    -- numpy.linspace: `Number of samples, -1, must be non-negative.`
  | shapeMismatch   -- `Arrays xs and ys must have the same shape`
  | modelKey        -- `modelDB.db[self.model]` with `model` `None` or not a key
  | noFstrain       -- `module 'compmech.panel.models.clt_bardell_field_w' has no attribute 'fstrain'`
  | cNdim           -- `Buffer has wrong number of dimensions (expected 1, got 2)` (raised by the compiled wrapper's signature)
  | cScalarIndex    -- `c[a:b]` on a 0-d array (assembly)
  | noLaminate      -- `Laminate ABD matrix not defined for panel`
deriving DecidableEq, Repr

def Err.pyType : Err → String
  | .gridNegative | .shapeMismatch | .cNdim | .noLaminate => "ValueError"
  | .modelKey => "KeyError"
  | .noFstrain => "AttributeError"
  | .cScalarIndex => "IndexError"

/-- the argument `c` -/
inductive CArg (K : Type) where
  | scalar (x : K)      -- 0-d array
  | vec (l : List K)    -- 1-d array or python list
  | nd                  -- ndim ≥ 2

/-- `np.ascontiguousarray(c, dtype=DOUBLE)` as the compiled signature `double [:] c` will see it: `none` = not one-dimensional
(`ascontiguousarray` returns `ndim ≥ 1`: a 0-d `c` becomes a vector of length 1) -/
def CArg.contig {K : Type} : CArg K → Option (List K)
  | .scalar x => some [x]
  | .vec l => some l
  | .nd => none

/-- python / numpy `l[s:e]` for non-negative or absent bounds (clamped to the length) -/
def pySlice {α : Type} (s e : Option Nat) (l : List α) : List α :=
  ((l.take (e.getD l.length)).drop (s.getD 0))

/-- `np.ascontiguousarray(c[panel.col_start: panel.col_end], dtype=DOUBLE)`: indexing a 0-d array raises; a matrix is sliced along its
first axis and stays a matrix -/
def CArg.slice {K : Type} (c : CArg K) (s e : Option Nat) : Except Err (Option (List K)) :=
  match c with
  | .scalar _ => .error .cScalarIndex
  | .vec l => .ok (some (pySlice s e l))
  | .nd => .ok none

section field
variable {K : Type} [Field K]

/-! ## evaluation points -/

/-- `numpy.linspace(0, stop, num)` in exact arithmetic -/
def linspace0 (stop : K) (num : Nat) : List K :=
  (List.range num).map fun (k : Nat) => (k : K) * (stop / ((num - 1 : Nat) : K))

/-- `X` of `X, Y = numpy.meshgrid(x, y)` (`indexing='xy'`): shape `(len(y), len(x))`, `X[i, j] = x[j]` -/
def meshX (x y : List K) : Arr K := ⟨[y.length, x.length], (List.replicate y.length x).flatten⟩

/-- `Y` of `X, Y = numpy.meshgrid(x, y)`: `Y[i, j] = y[i]` -/
def meshY (x y : List K) : Arr K := ⟨[y.length, x.length], (y.map fun v => List.replicate x.length v).flatten⟩

/-- the grid branch: `linspace(0, a, gridx)`, `linspace(0, b, gridy)`, `meshgrid`; a negative count makes `linspace` raise -/
def gridArrays (a b : K) (gridx gridy : Int) : Except Err (Arr K × Arr K) :=
  if gridx < 0 ∨ gridy < 0 then .error .gridNegative
  else .ok (meshX (linspace0 a gridx.toNat) (linspace0 b gridy.toNat), meshY (linspace0 a gridx.toNat) (linspace0 b gridy.toNat))

/-- what `_default_field` returns and stores: `Xs`, `Ys` (`xshape = Xs.shape`, `yshape = Ys.shape`, equal) -/
structure FieldPts (K : Type) where
  Xs : Arr K
  Ys : Arr K

/-- the raveled arrays as the compiled function pairs them -/
def FieldPts.pts {K : Type} (f : FieldPts K) : List (K × K) := List.zip f.Xs.data f.Ys.data

/-- `Panel._default_field(xs, ys, gridx, gridy)`: the grid is used when `xs` OR `ys` is `None` -/
def defaultField (a b : K) (xs ys : Option (Arr K)) (gridx gridy : Int) : Except Err (FieldPts K) :=
  let given : Except Err (Arr K × Arr K) :=
    match xs, ys with
    | some X, some Y => .ok (X, Y)
    | _, _ => gridArrays a b gridx gridy
  match given with
  | .error e => .error e
  | .ok (X, Y) =>
    if X.atleast1d.shape = Y.atleast1d.shape then .ok ⟨X.atleast1d, Y.atleast1d⟩ else .error .shapeMismatch

/-- `assembly.default_field(panel, gridx, gridy)` (always the grid; `atleast_1d` leaves a 2-d array alone) -/
def asmDefaultField (a b : K) (gridx gridy : Int) : Except Err (FieldPts K) :=
  match gridArrays a b gridx gridy with
  | .error e => .error e
  | .ok (X, Y) => .ok ⟨X.atleast1d, Y.atleast1d⟩

/-- the def-level wrapper `fuvw` / `fstrain` around a point kernel `f`: pad with `(0, 0)`, chunk, map, ravel, trim -/
def wrapper {V : Type} (f : K × K → V) (pts : List (K × K)) (cores : Nat) : List V :=
  chunkedMap f ((0 : K), (0 : K)) pts cores

/-! ## `Panel.uvw`, `Panel.strain`, `Panel.stress` -/

/-- result or exception, the object afterwards, the compiled calls made -/
structure Outcome (K R G α : Type) where
  res : Except Err α
  post : Panel K R G
  calls : List (KCall K R)

/-- the part `Panel.uvw` and `Panel.strain` share, in the order of the source: (`c` made contiguous,) `_default_field` — which stores
`Xs, Ys` even if what follows raises —, `modelDB.db[self.model]['field']`, the attribute `fuvw` / `fstrain` of that module (`fn fm =
none`: the module has none), the call with `self.out_num_cores` (where a `c` that is not one-dimensional is rejected), `reshape(xshape)` -/
def Panel.evalField {R G V : Type} (P : Panel K R G) (c : CArg K) (xs ys : Option (Arr K)) (gridx gridy : Int)
    (fn : FieldModule → Option (PanelDef K R → List K → K × K → V)) (isStrain : Bool) (nl : Nat) :
    Outcome K R G (FieldPts K × Arr V) :=
  match defaultField P.d.a P.d.b xs ys gridx gridy with
  | .error e => ⟨.error e, P, []⟩
  | .ok f =>
    let P1 : Panel K R G := { P with out := { P.out with Xs := some f.Xs, Ys := some f.Ys } }
    match P.d.model with
    | .kind k =>
      match fn (fieldModuleOf k) with
      | none => ⟨.error .noFstrain, P1, []⟩
      | some g =>
        match c.contig with
        | none => ⟨.error .cNdim, P1, []⟩
        | some cv =>
          ⟨.ok (f, reshape f.Xs.shape (wrapper (g P.d cv) f.pts P.d.outNumCores)), P1,
            [⟨isStrain, fieldModuleOf k, P.d, cv, f.pts, P.d.outNumCores, nl⟩]⟩
    | _ => ⟨.error .modelKey, P1, []⟩

/-- `Panel.uvw(c, xs, ys, gridx, gridy)`: the five arrays are returned and stored as `self.u, …, self.phiy` -/
def Panel.uvw {R G : Type} (kern : Kernels K R) (P : Panel K R G) (c : CArg K) (xs ys : Option (Arr K)) (gridx gridy : Int) :
    Outcome K R G (Arr (Uvw5 K)) :=
  let o := P.evalField c xs ys gridx gridy (fun fm => some (kern.uvw fm)) false 0
  match o.res with
  | .error e => ⟨.error e, o.post, o.calls⟩
  | .ok (_, r) =>
    ⟨.ok r, { o.post with out := { o.post.out with u := some (r.map (·.u)), v := some (r.map (·.v)), w := some (r.map (·.w)),
                                                     phix := some (r.map (·.phix)), phiy := some (r.map (·.phiy)) } }, o.calls⟩

/-- the attribute `fstrain` of the field module, as `Panel.strain` / `PanelAssembly.strain / stress` look it up and call it
(`int(NLterms)` as last argument): only `clt_bardell_field` has one -/
def strainFn {R : Type} (kern : Kernels K R) (NLterms : Bool) : FieldModule → Option (PanelDef K R → List K → K × K → Strain6 K)
  | .clt => some fun p cv => kern.strain p cv (nlFlag NLterms)
  | .cltW => none

/-- `if F is None: F = self.F` -/
def resolveF (Farg selfF : Option (Fin 6 → Fin 6 → K)) : Option (Fin 6 → Fin 6 → K) :=
  match Farg with
  | some F => some F
  | none => selfF

/-- the dictionary `Panel.strain` returns: `x`, `y` and the six strain arrays -/
structure StrainRes (K : Type) where
  x : Arr K
  y : Arr K
  e : Arr (Strain6 K)

/-- the dictionary `Panel.stress` returns -/
structure StressRes (K : Type) where
  x : Arr K
  y : Arr K
  N : Arr (Res6 K)

/-- `Panel.strain(c, xs, ys, gridx, gridy, NLterms)`: `fstrain(c, self, xs, ys, self.out_num_cores, int(NLterms))`; only the module
`clt_bardell_field` has `fstrain`; nothing but `Xs, Ys` is stored -/
def Panel.strain {R G : Type} (kern : Kernels K R) (P : Panel K R G) (c : CArg K) (xs ys : Option (Arr K)) (gridx gridy : Int)
    (NLterms : Bool) : Outcome K R G (StrainRes K) :=
  let o := P.evalField c xs ys gridx gridy
    (strainFn kern NLterms) true (nlFlag NLterms)
  match o.res with
  | .error e => ⟨.error e, o.post, o.calls⟩
  | .ok (f, r) => ⟨.ok ⟨f.Xs, f.Ys, r⟩, o.post, o.calls⟩

/-- `Panel.stress(c, F, xs, ys, gridx, gridy, NLterms)`: `self.strain(…, NLterms=NLterms)` FIRST (so the compiled call is made and
`Xs, Ys` are stored), then `F` (argument, else `self.F`, else `ValueError`), then the six products of every point -/
def Panel.stress {R G : Type} (kern : Kernels K R) (P : Panel K R G) (c : CArg K) (Farg : Option (Fin 6 → Fin 6 → K))
    (xs ys : Option (Arr K)) (gridx gridy : Int) (NLterms : Bool) : Outcome K R G (StressRes K) :=
  let o := P.strain kern c xs ys gridx gridy NLterms
  match o.res with
  | .error e => ⟨.error e, o.post, o.calls⟩
  | .ok s =>
    match resolveF Farg P.d.F with
    | none => ⟨.error .noLaminate, o.post, o.calls⟩
    | some F => ⟨.ok ⟨s.x, s.y, s.e.map (applyF F)⟩, o.post, o.calls⟩

/-! ## `PanelAssembly` -/

/-- the loop of `PanelAssembly.__init__`: `p.col_start = col0; col0 += 3*p.m*p.n; p.col_end = col0` (the factor 3 is literal there,
whatever the model of the panel) -/
def assignFrom {R G : Type} : Nat → List (Panel K R G) → List (Panel K R G)
  | _, [] => []
  | col0, p :: ps =>
    { p with colStart := some col0, colEnd := some (col0 + 3 * p.d.m * p.d.n) } :: assignFrom (col0 + 3 * p.d.m * p.d.n) ps

structure Assembly (K R G : Type) where
  panels : List (Panel K R G)
  /-- `self.out_num_cores` of the ASSEMBLY (4 after `__init__`); the panels' own `out_num_cores` are not used -/
  outNumCores : Nat
  size : Option Nat

/-- `PanelAssembly(panels)` -/
def Assembly.new {R G : Type} (panels : List (Panel K R G)) : Assembly K R G := ⟨assignFrom 0 panels, 4, none⟩

/-- `PanelAssembly.get_size()`: `sum([3*p.m*p.n for p in self.panels])`, stored -/
def Assembly.getSize {R G : Type} (A : Assembly K R G) : Nat × Assembly K R G :=
  let s := (A.panels.map fun p => 3 * p.d.m * p.d.n).sum
  (s, { A with size := some s })

/-- one entry of each list of the dictionary an assembly query returns (plus the compiled call that produced it) -/
structure PanelField (K R V : Type) where
  call : KCall K R
  x : Arr K
  y : Arr K
  vals : Arr V

/-- `Except` version of `map`: the first exception, in list order, wins -/
def mapE {α β ε : Type} (f : α → Except ε β) : List α → Except ε (List β)
  | [] => .ok []
  | a :: l =>
    match f a with
    | .error e => .error e
    | .ok b =>
      match mapE f l with
      | .error e => .error e
      | .ok bs => .ok (b :: bs)

/-- the body of the loops of `PanelAssembly.uvw / strain / stress` for one panel of the group, in the order of the source: the slice
`c[panel.col_start: panel.col_end]` made contiguous, `modelDB.db[panel.model]['field']`, its attribute `fuvw` / `fstrain`,
`default_field(panel, gridx, gridy)`, the compiled call with the ASSEMBLY's `out_num_cores`, `reshape(…, shape)` -/
def Assembly.evalPanel {R G V : Type} (A : Assembly K R G) (c : CArg K) (gridx gridy : Int)
    (fn : FieldModule → Option (PanelDef K R → List K → K × K → V)) (isStrain : Bool) (nl : Nat) (p : Panel K R G) :
    Except Err (PanelField K R V) :=
  match c.slice p.colStart p.colEnd with
  | .error e => .error e
  | .ok cp =>
    match p.d.model with
    | .kind k =>
      match fn (fieldModuleOf k) with
      | none => .error .noFstrain
      | some g =>
        match asmDefaultField p.d.a p.d.b gridx gridy with
        | .error e => .error e
        | .ok f =>
          match cp with
          | none => .error .cNdim
          | some cv =>
            .ok ⟨⟨isStrain, fieldModuleOf k, p.d, cv, f.pts, A.outNumCores, nl⟩, f.Xs, f.Ys,
              reshape f.Xs.shape (wrapper (g p.d cv) f.pts A.outNumCores)⟩
    | _ => .error .modelKey

/-- `for panel in self.panels: if panel.group != group: continue` -/
def Assembly.members {R G : Type} [DecidableEq G] (A : Assembly K R G) (group : G) : List (Panel K R G) :=
  A.panels.filter fun p => decide (p.group = group)

/-- `PanelAssembly.uvw(c, group, gridx, gridy)`: one entry per panel of the group, in the order of `self.panels` -/
def Assembly.uvw {R G : Type} [DecidableEq G] (kern : Kernels K R) (A : Assembly K R G) (c : CArg K) (group : G)
    (gridx gridy : Int) : Except Err (List (PanelField K R (Uvw5 K))) :=
  mapE (A.evalPanel c gridx gridy (fun fm => some (kern.uvw fm)) false 0) (A.members group)

/-- `PanelAssembly.strain(c, group, gridx, gridy, NLterms)`: `fstrain(c_panel, panel, x, y, self.out_num_cores, NLterms=int(NLterms))` -/
def Assembly.strain {R G : Type} [DecidableEq G] (kern : Kernels K R) (A : Assembly K R G) (c : CArg K) (group : G)
    (gridx gridy : Int) (NLterms : Bool) : Except Err (List (PanelField K R (Strain6 K))) :=
  mapE (A.evalPanel c gridx gridy
    (strainFn kern NLterms) true (nlFlag NLterms))
    (A.members group)

/-- `PanelAssembly.stress(c, group, gridx, gridy, NLterms)`: the same compiled call as `strain`, THEN `F = panel.F` (`None`:
`ValueError`), then the six products -/
def Assembly.stress {R G : Type} [DecidableEq G] (kern : Kernels K R) (A : Assembly K R G) (c : CArg K) (group : G)
    (gridx gridy : Int) (NLterms : Bool) : Except Err (List (PanelField K R (Res6 K))) :=
  mapE (fun p =>
    match A.evalPanel c gridx gridy
      (strainFn kern NLterms) true (nlFlag NLterms) p with
    | .error e => .error e
    | .ok r =>
      match p.d.F with
      | none => .error .noLaminate
      | some F => .ok ⟨r.call, r.x, r.y, r.vals.map (applyF F)⟩)
    (A.members group)

end field

end Compmech.FieldGlue
