/-
Helper lemmas about the eigen-solver glue model `Model/EigPost.lean`.
The property theorems of `Props/C05.lean` and `Props/C06.lean` are the `*_aux` lemmas of this file.
-/
import CompmechVerif.Model.EigPost
import Mathlib.Algebra.Order.Field.Basic
import Mathlib.Algebra.Order.Floor.Ring
import Mathlib.Data.Rat.Floor
import Mathlib.Data.List.Basic
import Mathlib.Tactic.Linarith
import Mathlib.Tactic.NormNum
import Mathlib.Tactic.Ring
import Mathlib.Tactic.FieldSimp
import Mathlib.Tactic.Positivity

namespace Compmech.EigPost

/-! ### scatter / gather -/

section scatter
variable {α : Type} [Zero α]

theorem scatterFrom_length (fuel : Nat) : ∀ (idx : List Nat) (w : List α) (i : Nat),
    (scatterFrom idx w i fuel).length = fuel := by
  induction fuel with
  | zero => intro idx w i; simp [scatterFrom]
  | succ f ih =>
    intro idx w i
    cases idx with
    | nil => simp [scatterFrom, ih]
    | cons u us =>
      cases w with
      | nil => simp [scatterFrom, ih]
      | cons x xs =>
        simp only [scatterFrom]
        split_ifs <;> simp [ih]

/-- positions outside the index list stay zero -/
theorem scatterFrom_getD_of_not_mem (fuel : Nat) : ∀ (idx : List Nat) (w : List α) (i k : Nat),
    i + k ∉ idx → (scatterFrom idx w i fuel).getD k 0 = 0 := by
  induction fuel with
  | zero => intro idx w i k _; simp [scatterFrom]
  | succ f ih =>
    intro idx w i k hk
    cases idx with
    | nil =>
      cases k with
      | zero => simp [scatterFrom]
      | succ k => simp only [scatterFrom, List.getD_cons_succ]; exact ih _ _ _ _ (by simp)
    | cons u us =>
      cases w with
      | nil =>
        cases k with
        | zero => simp [scatterFrom]
        | succ k => simp only [scatterFrom, List.getD_cons_succ]; exact ih _ _ _ _ (by simp)
      | cons x xs =>
        simp only [scatterFrom]
        split_ifs with hu
        · cases k with
          | zero => exact absurd (by simp [hu]) hk
          | succ k =>
            simp only [List.getD_cons_succ]
            refine ih _ _ _ _ ?_
            intro hm
            exact hk (by rw [show i + (k + 1) = i + 1 + k by omega]; exact List.mem_cons_of_mem _ hm)
        · cases k with
          | zero => simp
          | succ k =>
            simp only [List.getD_cons_succ]
            refine ih _ _ _ _ ?_
            rw [show i + 1 + k = i + (k + 1) by omega]; exact hk

/-- reading the scattered vector back at the index list returns the data (`v[idx] = w`) -/
theorem map_getD_scatterFrom (fuel : Nat) : ∀ (idx : List Nat) (w : List α) (i : Nat),
    idx.Pairwise (· < ·) → (∀ u ∈ idx, i ≤ u ∧ u < i + fuel) → w.length = idx.length →
    idx.map (fun u => (scatterFrom idx w i fuel).getD (u - i) 0) = w := by
  induction fuel with
  | zero =>
    intro idx w i _ hb hl
    cases idx with
    | nil => simpa using hl
    | cons u us => have := hb u (by simp); omega
  | succ f ih =>
    intro idx w i hp hb hl
    cases idx with
    | nil => simpa using hl
    | cons u us =>
      cases w with
      | nil => simp at hl
      | cons x xs =>
        have hp' := List.pairwise_cons.1 hp
        simp only [scatterFrom]
        split_ifs with hu
        · subst hu
          have hus : ∀ v ∈ us, u + 1 ≤ v ∧ v < u + 1 + f := fun v hv =>
            ⟨hp'.1 v hv, by have := (hb v (List.mem_cons_of_mem _ hv)).2; omega⟩
          simp only [List.map_cons, Nat.sub_self, List.getD_cons_zero, List.cons.injEq, true_and]
          rw [← ih us xs (u + 1) hp'.2 hus (by simpa using hl)]
          refine List.map_congr_left fun v hv => ?_
          have := (hus v hv).1
          rw [show v - u = (v - (u + 1)) + 1 by omega, List.getD_cons_succ]
          rw [ih us xs (u + 1) hp'.2 hus (by simpa using hl)]
        · have hiu : i < u := lt_of_le_of_ne (hb u (by simp)).1 (Ne.symm hu)
          have hall : ∀ v ∈ u :: us, i + 1 ≤ v ∧ v < i + 1 + f := by
            intro v hv
            have hb' := hb v hv
            rcases List.mem_cons.1 hv with rfl | hv'
            · omega
            · have := hp'.1 v hv'; omega
          rw [← ih (u :: us) (x :: xs) (i + 1) hp hall hl]
          refine List.map_congr_left fun v hv => ?_
          have := (hall v hv).1
          rw [show v - i = (v - (i + 1)) + 1 by omega, List.getD_cons_succ]
          rw [ih (u :: us) (x :: xs) (i + 1) hp hall hl]

theorem gather_scatterFrom (n : Nat) (idx : List Nat) (w : List α)
    (hp : idx.Pairwise (· < ·)) (hb : ∀ u ∈ idx, u < n) (hl : w.length = idx.length) :
    gather idx (scatterFrom idx w 0 n) = w := by
  have := map_getD_scatterFrom n idx w 0 hp (fun u hu => ⟨Nat.zero_le _, by simpa using hb u hu⟩) hl
  simpa [gather] using this

end scatter

section dot
variable {R : Type} [Semiring R]

theorem dotIdx_nil_left (f : Nat → R) (w : List R) : dotIdx f [] w = 0 := by simp [dotIdx]
theorem dotIdx_nil_right (f : Nat → R) (idx : List Nat) : dotIdx f idx [] = 0 := by simp [dotIdx]
theorem dotIdx_cons (f : Nat → R) (u : Nat) (us : List Nat) (x : R) (xs : List R) :
    dotIdx f (u :: us) (x :: xs) = f u * x + dotIdx f us xs := by simp [dotIdx]

/-- the full-size product with a scattered vector only sees the columns of the index list -/
theorem dotFrom_scatterFrom (f : Nat → R) (fuel : Nat) : ∀ (idx : List Nat) (w : List R) (i : Nat),
    idx.Pairwise (· < ·) → (∀ u ∈ idx, i ≤ u ∧ u < i + fuel) → w.length = idx.length →
    dotFrom f i (scatterFrom idx w i fuel) = dotIdx f idx w := by
  induction fuel with
  | zero =>
    intro idx w i _ hb _
    cases idx with
    | nil => simp [scatterFrom, dotFrom, dotIdx]
    | cons u us => have := hb u (by simp); omega
  | succ n ih =>
    intro idx w i hp hb hl
    cases idx with
    | nil =>
      simp only [scatterFrom, dotFrom, mul_zero, zero_add, dotIdx_nil_left]
      rw [ih [] [] (i + 1) List.Pairwise.nil (by simp) rfl, dotIdx_nil_left]
    | cons u us =>
      cases w with
      | nil => simp at hl
      | cons x xs =>
        have hp' := List.pairwise_cons.1 hp
        simp only [scatterFrom]
        split_ifs with hu
        · subst hu
          have hus : ∀ v ∈ us, u + 1 ≤ v ∧ v < u + 1 + n := fun v hv =>
            ⟨hp'.1 v hv, by have := (hb v (List.mem_cons_of_mem _ hv)).2; omega⟩
          simp only [dotFrom, dotIdx_cons]
          rw [ih us xs (u + 1) hp'.2 hus (by simpa using hl)]
        · have hiu : i < u := lt_of_le_of_ne (hb u (by simp)).1 (Ne.symm hu)
          have hall : ∀ v ∈ u :: us, i + 1 ≤ v ∧ v < i + 1 + n := by
            intro v hv
            have hb' := hb v hv
            rcases List.mem_cons.1 hv with rfl | hv'
            · omega
            · have := hp'.1 v hv'; omega
          simp only [dotFrom, mul_zero, zero_add]
          rw [ih (u :: us) (x :: xs) (i + 1) hp hall hl]

theorem dotIdx_add_mul {R : Type} [CommSemiring R] (f g : Nat → R) (c : R) : ∀ (idx : List Nat) (w : List R),
    dotIdx (fun j => f j + c * g j) idx w = dotIdx f idx w + c * dotIdx g idx w := by
  intro idx
  induction idx with
  | nil => intro w; simp [dotIdx]
  | cons u us ih =>
    intro w
    cases w with
    | nil => simp [dotIdx]
    | cons x xs => rw [dotIdx_cons, dotIdx_cons, dotIdx_cons, ih]; ring

theorem dotIdx_eq_zero (f : Nat → R) (idx : List Nat) (w : List R) (h : ∀ u ∈ idx, f u = 0) :
    dotIdx f idx w = 0 := by
  induction idx generalizing w with
  | nil => simp [dotIdx]
  | cons u us ih =>
    cases w with
    | nil => simp [dotIdx]
    | cons x xs =>
      rw [dotIdx_cons, h u (by simp), zero_mul, zero_add]
      exact ih xs fun v hv => h v (List.mem_cons_of_mem _ hv)

theorem dotIdx_congr (f g : Nat → R) (idx : List Nat) (w : List R) (h : ∀ u ∈ idx, f u = g u) :
    dotIdx f idx w = dotIdx g idx w := by
  induction idx generalizing w with
  | nil => simp [dotIdx]
  | cons u us ih =>
    cases w with
    | nil => simp [dotIdx]
    | cons x xs =>
      rw [dotIdx_cons, dotIdx_cons, h u (by simp), ih xs fun v hv => h v (List.mem_cons_of_mem _ hv)]

/-- `dotIdx` over the full index list `i, i+1, …` is the plain product -/
theorem dotIdx_range' (f : Nat → R) : ∀ (w : List R) (i : Nat),
    dotIdx f (List.range' i w.length) w = dotFrom f i w := by
  intro w
  induction w with
  | nil => intro i; simp [dotIdx, dotFrom]
  | cons x xs ih => intro i; simp only [List.length_cons, List.range'_succ, dotIdx_cons, dotFrom, ih]

end dot

/-! ### `remove_null_cols` -/

section used
variable {K : Type} [Zero K] [DecidableEq K]

theorem pairwise_lt_filter_range (n : Nat) (p : Nat → Bool) : ((List.range n).filter p).Pairwise (· < ·) :=
  List.Pairwise.filter _ List.pairwise_lt_range

theorem usedCols_sorted (n : Nat) (l : Coo K) : (usedCols n l).Pairwise (· < ·) :=
  pairwise_lt_filter_range n _

theorem mem_usedCols (n : Nat) (l : Coo K) (j : Nat) :
    j ∈ usedCols n l ↔ j < n ∧ ∃ t ∈ l, t.2.1 = j ∧ t.2.2 ≠ 0 := by
  simp [usedCols, colUsed]

theorem usedCols_lt (n : Nat) (l : Coo K) : ∀ u ∈ usedCols n l, u < n := fun u hu =>
  ((mem_usedCols n l u).1 hu).1

theorem usedCols_length_le (n : Nat) (l : Coo K) : (usedCols n l).length ≤ n := by
  unfold usedCols
  exact (List.length_filter_le _ _).trans (by simp)

end used

section tofun
variable {K : Type} [Semiring K] [DecidableEq K]

/-- a column that `remove_null_cols` removes is a zero column of the matrix -/
theorem toFun_eq_zero_of_not_used (n : Nat) (l : Coo K) (i j : Nat) (hj : j < n) (h : j ∉ usedCols n l) :
    l.toFun i j = 0 := by
  unfold Coo.toFun
  apply List.sum_eq_zero
  intro x hx
  obtain ⟨t, ht, rfl⟩ := List.mem_map.1 hx
  have ht' := List.mem_filter.1 ht
  by_contra hne
  apply h
  rw [mem_usedCols]
  refine ⟨hj, t, ht'.1, ?_, hne⟩
  have := ht'.2
  simp only [Bool.and_eq_true, beq_iff_eq] at this
  exact this.2

end tofun

/-! ### numpy row assignment -/

section assign
variable {α : Type} [Zero α]

theorem assignRows_ok_iff (n c : Nat) (idx : List Nat) (v : Block α) (hidx : ∀ u ∈ idx, u < n) :
    (∃ e, assignRows n c idx v = .ok e) ↔
      (v.rows = idx.length ∨ v.rows = 1) ∧ (v.ncols = c ∨ v.ncols = 1) := by
  unfold assignRows
  have hall : idx.all (· < n) = true := by simpa using hidx
  by_cases h : (v.rows = idx.length ∨ v.rows = 1) ∧ (v.ncols = c ∨ v.ncols = 1)
  · rw [if_pos h]
    dsimp only
    rw [if_pos hall]
    exact ⟨fun _ => h, fun _ => ⟨_, rfl⟩⟩
  · rw [if_neg h]
    exact ⟨fun ⟨e, he⟩ => (by cases he), fun h' => absurd h' h⟩

theorem assignRows_error (n c : Nat) (idx : List Nat) (v : Block α)
    (h : ¬ ((v.rows = idx.length ∨ v.rows = 1) ∧ (v.ncols = c ∨ v.ncols = 1))) :
    assignRows n c idx v = .error (.shapeMismatch (v.rows, v.ncols) (idx.length, c)) := by
  unfold assignRows
  rw [if_neg h]

/-- without row broadcasting, column `j` of the result is the scatter of column `j` of the value -/
theorem assignRows_col (n c : Nat) (idx : List Nat) (v e : Block α) (hrows : v.rows = idx.length)
    (h : assignRows n c idx v = .ok e) (j : Nat) (x : List α) (hx : e.cols[j]? = some x)
    (hj : j < v.ncols) :
    e.rows = n ∧ e.ncols = c ∧ ∃ w, v.cols[j]? = some w ∧ x = scatterFrom idx w 0 n := by
  unfold assignRows at h
  by_cases h1 : (v.rows = idx.length ∨ v.rows = 1) ∧ (v.ncols = c ∨ v.ncols = 1)
  swap
  · rw [if_neg h1] at h; cases h
  rw [if_pos h1] at h
  dsimp only at h
  rw [if_pos hrows] at h
  by_cases h2 : idx.all (· < n) = true
  swap
  · rw [if_neg h2] at h; cases h
  rw [if_pos h2] at h
  injection h with h
  subst h
  unfold Block.ncols at *
  by_cases hc : v.cols.length = c
  · rw [if_pos hc] at hx ⊢
    simp only [List.getElem?_map, Option.map_eq_some_iff, List.length_map] at hx ⊢
    obtain ⟨w, hw, rfl⟩ := hx
    exact ⟨trivial, hc, w, hw, rfl⟩
  · have h1' : v.cols.length = 1 := h1.2.resolve_left hc
    rw [if_neg hc] at hx ⊢
    simp only [List.getElem?_map, Option.map_eq_some_iff, List.length_map, List.length_replicate] at hx ⊢
    obtain ⟨w, hw, rfl⟩ := hx
    have hj0 : j = 0 := by omega
    subst hj0
    refine ⟨trivial, trivial, w, ?_, rfl⟩
    rw [List.getElem?_replicate] at hw
    split_ifs at hw with hc0
    · match hv : v.cols, h1' with
      | [a], _ => simp [hv] at hw ⊢; exact hw

end assign

/-! ### the pencil equation on the full space -/

section pencil
variable {K : Type} [Field K]

/-- Scatter correctness.  If `(μ, w)` solves `G w = μ K w` on the rows/columns `idx`, `λ μ = -1`, and the
rows of `K` and `G` outside `idx` vanish on `idx`, then the scattered `v` satisfies `(K + λ G) v = 0` on all
`n` rows. -/
theorem pencil_scatter (Kf Gf : Nat → Nat → K) (n : Nat) (idx : List Nat) (w : List K) (μ lam : K)
    (hp : idx.Pairwise (· < ·)) (hb : ∀ u ∈ idx, u < n) (hlam : lam * μ = -1)
    (hsol : PencilSol Gf Kf idx μ w)
    (hK : ∀ i, i < n → i ∉ idx → ∀ u ∈ idx, Kf i u = 0)
    (hG : ∀ i, i < n → i ∉ idx → ∀ u ∈ idx, Gf i u = 0) :
    ∀ i < n, dotFrom (fun j => Kf i j + lam * Gf i j) 0 (scatterFrom idx w 0 n) = 0 := by
  intro i hi
  rw [dotFrom_scatterFrom _ n idx w 0 hp (fun u hu => ⟨Nat.zero_le _, by simpa using hb u hu⟩) hsol.1,
    dotIdx_add_mul]
  by_cases hmem : i ∈ idx
  · rw [hsol.2 i hmem]
    have : dotIdx (Kf i) idx w + lam * (μ * dotIdx (Kf i) idx w) = (1 + lam * μ) * dotIdx (Kf i) idx w := by ring
    rw [this, hlam]; ring
  · rw [dotIdx_eq_zero _ idx w (hK i hi hmem), dotIdx_eq_zero _ idx w (hG i hi hmem)]; ring

end pencil

end Compmech.EigPost
