/-
Helper lemmas about the eigen-solver glue model `Model/EigPost.lean`.
The property theorems of `Props/C05.lean` and `Props/C06.lean` are the `*_aux` lemmas of this file.
-/
import CompmechVerif.Model.EigPost
import Mathlib.Algebra.Order.Field.Basic
import Mathlib.Algebra.Order.Floor.Ring
import Mathlib.Data.Rat.Floor
import Mathlib.Data.List.Basic
import Mathlib.Tactic.Linarith
import Mathlib.Tactic.NormNum
import Mathlib.Tactic.Ring
import Mathlib.Tactic.FieldSimp
import Mathlib.Tactic.Positivity

set_option linter.unusedSectionVars false

namespace Compmech.EigPost

/-! ### scatter / gather -/

section scatter
variable {α : Type} [Zero α]

theorem scatterFrom_length (fuel : Nat) : ∀ (idx : List Nat) (w : List α) (i : Nat),
    (scatterFrom idx w i fuel).length = fuel := by
  induction fuel with
  | zero => intro idx w i; simp [scatterFrom]
  | succ f ih =>
    intro idx w i
    cases idx with
    | nil => simp [scatterFrom, ih]
    | cons u us =>
      cases w with
      | nil => simp [scatterFrom, ih]
      | cons x xs =>
        simp only [scatterFrom]
        split_ifs <;> simp [ih]

/-- positions outside the index list stay zero -/
theorem scatterFrom_getD_of_not_mem (fuel : Nat) : ∀ (idx : List Nat) (w : List α) (i k : Nat),
    i + k ∉ idx → (scatterFrom idx w i fuel).getD k 0 = 0 := by
  induction fuel with
  | zero => intro idx w i k _; simp [scatterFrom]
  | succ f ih =>
    intro idx w i k hk
    cases idx with
    | nil =>
      cases k with
      | zero => simp [scatterFrom]
      | succ k => simp only [scatterFrom, List.getD_cons_succ]; exact ih _ _ _ _ (by simp)
    | cons u us =>
      cases w with
      | nil =>
        cases k with
        | zero => simp [scatterFrom]
        | succ k => simp only [scatterFrom, List.getD_cons_succ]; exact ih _ _ _ _ (by simp)
      | cons x xs =>
        simp only [scatterFrom]
        split_ifs with hu
        · cases k with
          | zero => exact absurd (by simp [hu]) hk
          | succ k =>
            simp only [List.getD_cons_succ]
            refine ih _ _ _ _ ?_
            intro hm
            exact hk (by rw [show i + (k + 1) = i + 1 + k by omega]; exact List.mem_cons_of_mem _ hm)
        · cases k with
          | zero => simp
          | succ k =>
            simp only [List.getD_cons_succ]
            refine ih _ _ _ _ ?_
            rw [show i + 1 + k = i + (k + 1) by omega]; exact hk

/-- reading the scattered vector back at the index list returns the data (`v[idx] = w`) -/
theorem map_getD_scatterFrom (fuel : Nat) : ∀ (idx : List Nat) (w : List α) (i : Nat),
    idx.Pairwise (· < ·) → (∀ u ∈ idx, i ≤ u ∧ u < i + fuel) → w.length = idx.length →
    idx.map (fun u => (scatterFrom idx w i fuel).getD (u - i) 0) = w := by
  induction fuel with
  | zero =>
    intro idx w i _ hb hl
    cases idx with
    | nil => simpa using hl
    | cons u us => have := hb u (by simp); omega
  | succ f ih =>
    intro idx w i hp hb hl
    cases idx with
    | nil => simpa using hl
    | cons u us =>
      cases w with
      | nil => simp at hl
      | cons x xs =>
        have hp' := List.pairwise_cons.1 hp
        simp only [scatterFrom]
        split_ifs with hu
        · subst hu
          have hus : ∀ v ∈ us, u + 1 ≤ v ∧ v < u + 1 + f := fun v hv =>
            ⟨hp'.1 v hv, by have := (hb v (List.mem_cons_of_mem _ hv)).2; omega⟩
          simp only [List.map_cons, Nat.sub_self, List.getD_cons_zero, List.cons.injEq, true_and]
          rw [← ih us xs (u + 1) hp'.2 hus (by simpa using hl)]
          refine List.map_congr_left fun v hv => ?_
          have := (hus v hv).1
          rw [show v - u = (v - (u + 1)) + 1 by omega, List.getD_cons_succ]
          rw [ih us xs (u + 1) hp'.2 hus (by simpa using hl)]
        · have hiu : i < u := lt_of_le_of_ne (hb u (by simp)).1 (Ne.symm hu)
          have hall : ∀ v ∈ u :: us, i + 1 ≤ v ∧ v < i + 1 + f := by
            intro v hv
            have hb' := hb v hv
            rcases List.mem_cons.1 hv with rfl | hv'
            · omega
            · have := hp'.1 v hv'; omega
          rw [← ih (u :: us) (x :: xs) (i + 1) hp hall hl]
          refine List.map_congr_left fun v hv => ?_
          have := (hall v hv).1
          rw [show v - i = (v - (i + 1)) + 1 by omega, List.getD_cons_succ]
          rw [ih (u :: us) (x :: xs) (i + 1) hp hall hl]

theorem gather_scatterFrom (n : Nat) (idx : List Nat) (w : List α)
    (hp : idx.Pairwise (· < ·)) (hb : ∀ u ∈ idx, u < n) (hl : w.length = idx.length) :
    gather idx (scatterFrom idx w 0 n) = w := by
  have := map_getD_scatterFrom n idx w 0 hp (fun u hu => ⟨Nat.zero_le _, by simpa using hb u hu⟩) hl
  simpa [gather] using this

end scatter

section dot
variable {R : Type} [Semiring R]

theorem dotIdx_nil_left (f : Nat → R) (w : List R) : dotIdx f [] w = 0 := by simp [dotIdx]
theorem dotIdx_nil_right (f : Nat → R) (idx : List Nat) : dotIdx f idx [] = 0 := by simp [dotIdx]
theorem dotIdx_cons (f : Nat → R) (u : Nat) (us : List Nat) (x : R) (xs : List R) :
    dotIdx f (u :: us) (x :: xs) = f u * x + dotIdx f us xs := by simp [dotIdx]

/-- the full-size product with a scattered vector only sees the columns of the index list -/
theorem dotFrom_scatterFrom (f : Nat → R) (fuel : Nat) : ∀ (idx : List Nat) (w : List R) (i : Nat),
    idx.Pairwise (· < ·) → (∀ u ∈ idx, i ≤ u ∧ u < i + fuel) → w.length = idx.length →
    dotFrom f i (scatterFrom idx w i fuel) = dotIdx f idx w := by
  induction fuel with
  | zero =>
    intro idx w i _ hb _
    cases idx with
    | nil => simp [scatterFrom, dotFrom, dotIdx]
    | cons u us => have := hb u (by simp); omega
  | succ n ih =>
    intro idx w i hp hb hl
    cases idx with
    | nil =>
      simp only [scatterFrom, dotFrom, mul_zero, zero_add, dotIdx_nil_left]
      rw [ih [] [] (i + 1) List.Pairwise.nil (by simp) rfl, dotIdx_nil_left]
    | cons u us =>
      cases w with
      | nil => simp at hl
      | cons x xs =>
        have hp' := List.pairwise_cons.1 hp
        simp only [scatterFrom]
        split_ifs with hu
        · subst hu
          have hus : ∀ v ∈ us, u + 1 ≤ v ∧ v < u + 1 + n := fun v hv =>
            ⟨hp'.1 v hv, by have := (hb v (List.mem_cons_of_mem _ hv)).2; omega⟩
          simp only [dotFrom, dotIdx_cons]
          rw [ih us xs (u + 1) hp'.2 hus (by simpa using hl)]
        · have hiu : i < u := lt_of_le_of_ne (hb u (by simp)).1 (Ne.symm hu)
          have hall : ∀ v ∈ u :: us, i + 1 ≤ v ∧ v < i + 1 + n := by
            intro v hv
            have hb' := hb v hv
            rcases List.mem_cons.1 hv with rfl | hv'
            · omega
            · have := hp'.1 v hv'; omega
          simp only [dotFrom, mul_zero, zero_add]
          rw [ih (u :: us) (x :: xs) (i + 1) hp hall hl]

theorem dotIdx_add_mul {R : Type} [CommSemiring R] (f g : Nat → R) (c : R) : ∀ (idx : List Nat) (w : List R),
    dotIdx (fun j => f j + c * g j) idx w = dotIdx f idx w + c * dotIdx g idx w := by
  intro idx
  induction idx with
  | nil => intro w; simp [dotIdx]
  | cons u us ih =>
    intro w
    cases w with
    | nil => simp [dotIdx]
    | cons x xs => rw [dotIdx_cons, dotIdx_cons, dotIdx_cons, ih]; ring

theorem dotIdx_eq_zero (f : Nat → R) (idx : List Nat) (w : List R) (h : ∀ u ∈ idx, f u = 0) :
    dotIdx f idx w = 0 := by
  induction idx generalizing w with
  | nil => simp [dotIdx]
  | cons u us ih =>
    cases w with
    | nil => simp [dotIdx]
    | cons x xs =>
      rw [dotIdx_cons, h u (by simp), zero_mul, zero_add]
      exact ih xs fun v hv => h v (List.mem_cons_of_mem _ hv)

theorem dotIdx_congr (f g : Nat → R) (idx : List Nat) (w : List R) (h : ∀ u ∈ idx, f u = g u) :
    dotIdx f idx w = dotIdx g idx w := by
  induction idx generalizing w with
  | nil => simp [dotIdx]
  | cons u us ih =>
    cases w with
    | nil => simp [dotIdx]
    | cons x xs =>
      rw [dotIdx_cons, dotIdx_cons, h u (by simp), ih xs fun v hv => h v (List.mem_cons_of_mem _ hv)]

/-- `dotIdx` over the full index list `i, i+1, …` is the plain product -/
theorem dotIdx_range' (f : Nat → R) : ∀ (w : List R) (i : Nat),
    dotIdx f (List.range' i w.length) w = dotFrom f i w := by
  intro w
  induction w with
  | nil => intro i; simp [dotIdx, dotFrom]
  | cons x xs ih => intro i; simp only [List.length_cons, List.range'_succ, dotIdx_cons, dotFrom, ih]

end dot

/-! ### `remove_null_cols` -/

section used
variable {K : Type} [Zero K] [DecidableEq K]

theorem pairwise_lt_filter_range (n : Nat) (p : Nat → Bool) : ((List.range n).filter p).Pairwise (· < ·) :=
  List.Pairwise.filter _ List.pairwise_lt_range

theorem usedCols_sorted (n : Nat) (l : Coo K) : (usedCols n l).Pairwise (· < ·) :=
  pairwise_lt_filter_range n _

theorem mem_usedCols (n : Nat) (l : Coo K) (j : Nat) :
    j ∈ usedCols n l ↔ j < n ∧ ∃ t ∈ l, t.2.1 = j ∧ t.2.2 ≠ 0 := by
  simp [usedCols, colUsed]

theorem usedCols_lt (n : Nat) (l : Coo K) : ∀ u ∈ usedCols n l, u < n := fun u hu =>
  ((mem_usedCols n l u).1 hu).1

theorem usedCols_length_le (n : Nat) (l : Coo K) : (usedCols n l).length ≤ n := by
  unfold usedCols
  exact (List.length_filter_le _ _).trans (by simp)

end used

section tofun
variable {K : Type} [Semiring K] [DecidableEq K]

/-- a column that `remove_null_cols` removes is a zero column of the matrix -/
theorem toFun_eq_zero_of_not_used (n : Nat) (l : Coo K) (i j : Nat) (hj : j < n) (h : j ∉ usedCols n l) :
    l.toFun i j = 0 := by
  unfold Coo.toFun
  apply List.sum_eq_zero
  intro x hx
  obtain ⟨t, ht, rfl⟩ := List.mem_map.1 hx
  have ht' := List.mem_filter.1 ht
  by_contra hne
  apply h
  rw [mem_usedCols]
  refine ⟨hj, t, ht'.1, ?_, hne⟩
  have := ht'.2
  simp only [Bool.and_eq_true, beq_iff_eq] at this
  exact this.2

end tofun

/-! ### numpy row assignment -/

section assign
variable {α : Type} [Zero α]

theorem assignRows_ok_iff (n c : Nat) (idx : List Nat) (v : Block α) (hidx : ∀ u ∈ idx, u < n) :
    (∃ e, assignRows n c idx v = .ok e) ↔
      (v.rows = idx.length ∨ v.rows = 1) ∧ (v.ncols = c ∨ v.ncols = 1) := by
  unfold assignRows
  have hall : idx.all (· < n) = true := by simpa using hidx
  by_cases h : (v.rows = idx.length ∨ v.rows = 1) ∧ (v.ncols = c ∨ v.ncols = 1)
  · rw [if_pos h]
    dsimp only
    rw [if_pos hall]
    exact ⟨fun _ => h, fun _ => ⟨_, rfl⟩⟩
  · rw [if_neg h]
    exact ⟨fun ⟨e, he⟩ => (by cases he), fun h' => absurd h' h⟩

theorem assignRows_error (n c : Nat) (idx : List Nat) (v : Block α)
    (h : ¬ ((v.rows = idx.length ∨ v.rows = 1) ∧ (v.ncols = c ∨ v.ncols = 1))) :
    assignRows n c idx v = .error (.shapeMismatch (v.rows, v.ncols) (idx.length, c)) := by
  unfold assignRows
  rw [if_neg h]

theorem assignRows_shape (n c : Nat) (idx : List Nat) (v e : Block α)
    (h : assignRows n c idx v = .ok e) : e.rows = n ∧ e.ncols = c := by
  unfold assignRows at h
  by_cases h1 : (v.rows = idx.length ∨ v.rows = 1) ∧ (v.ncols = c ∨ v.ncols = 1)
  swap
  · rw [if_neg h1] at h; cases h
  rw [if_pos h1] at h
  dsimp only at h
  by_cases h2 : idx.all (· < n) = true
  swap
  · rw [if_neg h2] at h; cases h
  rw [if_pos h2] at h
  injection h with h
  subst h
  refine ⟨rfl, ?_⟩
  unfold Block.ncols at *
  split_ifs <;> simp_all

/-- without row broadcasting, column `j` of the result is the scatter of column `j` of the value -/
theorem assignRows_col (n c : Nat) (idx : List Nat) (v e : Block α) (hrows : v.rows = idx.length)
    (h : assignRows n c idx v = .ok e) (j : Nat) (x : List α) (hx : e.cols[j]? = some x)
    (hj : j < v.ncols) :
    e.rows = n ∧ e.ncols = c ∧ ∃ w, v.cols[j]? = some w ∧ x = scatterFrom idx w 0 n := by
  unfold assignRows at h
  by_cases h1 : (v.rows = idx.length ∨ v.rows = 1) ∧ (v.ncols = c ∨ v.ncols = 1)
  swap
  · rw [if_neg h1] at h; cases h
  rw [if_pos h1] at h
  dsimp only at h
  rw [if_pos hrows] at h
  by_cases h2 : idx.all (· < n) = true
  swap
  · rw [if_neg h2] at h; cases h
  rw [if_pos h2] at h
  injection h with h
  subst h
  unfold Block.ncols at *
  by_cases hc : v.cols.length = c
  · rw [if_pos hc] at hx ⊢
    simp only [List.getElem?_map, Option.map_eq_some_iff, List.length_map] at hx ⊢
    obtain ⟨w, hw, rfl⟩ := hx
    exact ⟨trivial, hc, w, hw, rfl⟩
  · have h1' : v.cols.length = 1 := h1.2.resolve_left hc
    rw [if_neg hc] at hx ⊢
    simp only [List.getElem?_map, Option.map_eq_some_iff, List.length_map, List.length_replicate] at hx ⊢
    obtain ⟨w, hw, rfl⟩ := hx
    have hj0 : j = 0 := by omega
    subst hj0
    refine ⟨trivial, trivial, w, ?_, rfl⟩
    rw [List.getElem?_replicate] at hw
    split_ifs at hw with hc0
    · match hv : v.cols, h1' with
      | [a], _ => simp [hv] at hw ⊢; exact hw

end assign

/-! ### the pencil equation on the full space -/

section pencil
variable {K : Type} [Field K]

/-- Scatter correctness.  If `(μ, w)` solves `G w = μ K w` on the rows/columns `idx`, `λ μ = -1`, and the
rows of `K` and `G` outside `idx` vanish on `idx`, then the scattered `v` satisfies `(K + λ G) v = 0` on all
`n` rows. -/
theorem pencil_scatter (Kf Gf : Nat → Nat → K) (n : Nat) (idx : List Nat) (w : List K) (μ lam : K)
    (hp : idx.Pairwise (· < ·)) (hb : ∀ u ∈ idx, u < n) (hlam : lam * μ = -1)
    (hsol : PencilSol Gf Kf idx μ w)
    (hK : ∀ i, i < n → i ∉ idx → ∀ u ∈ idx, Kf i u = 0)
    (hG : ∀ i, i < n → i ∉ idx → ∀ u ∈ idx, Gf i u = 0) :
    ∀ i < n, dotFrom (fun j => Kf i j + lam * Gf i j) 0 (scatterFrom idx w 0 n) = 0 := by
  intro i hi
  rw [dotFrom_scatterFrom _ n idx w 0 hp (fun u hu => ⟨Nat.zero_le _, by simpa using hb u hu⟩) hsol.1,
    dotIdx_add_mul]
  by_cases hmem : i ∈ idx
  · rw [hsol.2 i hmem]
    have : dotIdx (Kf i) idx w + lam * (μ * dotIdx (Kf i) idx w) = (1 + lam * μ) * dotIdx (Kf i) idx w := by ring
    rw [this, hlam]; ring
  · rw [dotIdx_eq_zero _ idx w (hK i hi hmem), dotIdx_eq_zero _ idx w (hG i hi hmem)]; ring

end pencil

/-! ### `lb`: every returned pair solves the full-size problem -/

section lbthm
variable {K : Type} [Field K] [DecidableEq K]

theorem negInvVals_getElem? (vals : List K) (c : Nat) (lam : K)
    (h : (negInvVals vals)[c]? = some (some lam)) : ∃ μ, vals[c]? = some μ ∧ lam * μ = -1 := by
  unfold negInvVals at h
  rw [List.getElem?_map] at h
  obtain ⟨μ, hμ, h'⟩ := Option.map_eq_some_iff.1 h
  refine ⟨μ, hμ, ?_⟩
  by_cases h0 : μ = 0
  · rw [if_pos h0] at h'; cases h'
  · rw [if_neg h0] at h'
    injection h' with h'
    subst h'
    field_simp

theorem getElem?_lt_of_eq_some {β : Type} (l : List β) (c : Nat) (x : β) (h : l[c]? = some x) : c < l.length := by
  by_contra hc
  rw [List.getElem?_eq_none (by omega)] at h
  cases h

/-- the reduced paths (`remove_null_cols`, solve, scatter) -/
theorem lb_reduced_pairs (n : Nat) (Kc : Coo K) (Gf : Nat → Nat → K) (raw : Out K K) (v e : Block K)
    (hsym : ∀ i j, Kc.toFun i j = Kc.toFun j i)
    (hnull : ∀ i j, i < n → i ∉ usedCols n Kc → Gf i j = 0)
    (hok : SolverOK Gf Kc.toFun (usedCols n Kc) raw)
    (hvr : v.rows = raw.vecs.rows)
    (hvc : ∀ (j : Nat) w, v.cols[j]? = some w → raw.vecs.cols[j]? = some w)
    (he : assignRows n v.ncols (usedCols n Kc) v = .ok e) :
    ∀ (c : Nat) (lam : K) (x : List K), (negInvVals raw.vals)[c]? = some (some lam) → e.cols[c]? = some x →
      x.length = n ∧ (∀ i < n, dotFrom (fun j => Kc.toFun i j + lam * Gf i j) 0 x = 0) ∧
      (∀ i < n, i ∉ usedCols n Kc → x.getD i 0 = 0) := by
  intro c lam x hlam hx
  obtain ⟨μ, hμ, hlm⟩ := negInvVals_getElem? _ _ _ hlam
  have hrows : v.rows = (usedCols n Kc).length := hvr.trans hok.rows_eq
  -- the result has as many columns as the value
  have hc2 : c < v.ncols := by
    have hlen := getElem?_lt_of_eq_some _ _ _ hx
    have hen : e.ncols = v.ncols := (assignRows_shape _ _ _ _ _ he).2
    unfold Block.ncols at hen ⊢; omega
  obtain ⟨-, -, w, hw, rfl⟩ := assignRows_col n v.ncols _ v e hrows he c x hx hc2
  have hsol := hok.pairs c μ w hμ (hvc c w hw)
  refine ⟨scatterFrom_length _ _ _ _, ?_, ?_⟩
  · refine pencil_scatter Kc.toFun Gf n _ w μ lam (usedCols_sorted n Kc) (usedCols_lt n Kc) hlm hsol ?_ ?_
    · intro i hi hni u _
      rw [hsym]; exact toFun_eq_zero_of_not_used n Kc u i hi hni
    · intro i hi hni u _
      exact hnull i u hi hni
  · intro i _ hni
    exact scatterFrom_getD_of_not_mem n _ w 0 i (by simpa using hni)

theorem except_map_eq_ok {ε α β : Type} (f : α → β) (x : Except ε α) (b : β) (h : x.map f = .ok b) :
    ∃ a, x = .ok a ∧ f a = b := by
  cases x with
  | error e => cases h
  | ok a => exact ⟨a, rfl, by injection h⟩

theorem lb_pairs_aux (n num : Nat) (kMin sparse : Bool) (Kc : Coo K) (Gf : Nat → Nat → K)
    (first second : Option (Out K K)) (o : Out (Option K) K)
    (hret : (lb n num kMin sparse Kc first second).2 = .ok o)
    (hsym : ∀ i j, Kc.toFun i j = Kc.toFun j i)
    (hnull : ∀ i j, i < n → i ∉ usedCols n Kc → Gf i j = 0)
    (hdirect : sparse = true → first.isSome → usedCols n Kc = List.range n)
    (hsolver : ∀ idx raw, lbSource n sparse Kc first second = some (idx, raw) →
      SolverOK Gf Kc.toFun idx raw) :
    ∀ (c : Nat) (lam : K) (x : List K), o.vals[c]? = some (some lam) → o.vecs.cols[c]? = some x →
      x.length = n ∧ (∀ i < n, dotFrom (fun j => Kc.toFun i j + lam * Gf i j) 0 x = 0) ∧
      (∀ i < n, i ∉ usedCols n Kc → x.getD i 0 = 0) := by
  unfold lb at hret
  cases sparse with
  | true =>
    simp only [if_true] at hret
    cases first with
    | some o1 =>
      simp only at hret
      injection hret with hret
      subst hret
      have hok := hsolver (List.range n) o1 (by simp [lbSource])
      intro c lam x hlam hx
      obtain ⟨μ, hμ, hlm⟩ := negInvVals_getElem? _ _ _ hlam
      have hsol := hok.pairs c μ x hμ hx
      have hxl : x.length = n := by simpa using hsol.1
      refine ⟨hxl, ?_, ?_⟩
      · intro i hi
        have hr : List.range n = List.range' 0 x.length := by rw [hxl, List.range_eq_range']
        rw [← dotIdx_range', ← hr, dotIdx_add_mul, hsol.2 i (by simpa using hi)]
        have : dotIdx (Kc.toFun i) (List.range n) x + lam * (μ * dotIdx (Kc.toFun i) (List.range n) x)
            = (1 + lam * μ) * dotIdx (Kc.toFun i) (List.range n) x := by ring
        rw [this, hlm]; ring
      · intro i hi hni
        rw [hdirect rfl rfl] at hni
        exact absurd (by simpa using hi) hni
    | none =>
      cases second with
      | none => simp only at hret; cases hret
      | some o2 =>
        simp only at hret
        obtain ⟨e, he, rfl⟩ := except_map_eq_ok _ _ _ hret
        have hok := hsolver (usedCols n Kc) o2 (by simp [lbSource])
        exact lb_reduced_pairs n Kc Gf o2 o2.vecs e hsym hnull hok rfl (fun _ _ h => h) he
  | false =>
    simp only [Bool.false_eq_true, if_false] at hret
    cases first with
    | none => simp only at hret; cases hret
    | some o1 =>
      simp only at hret
      obtain ⟨e, he, rfl⟩ := except_map_eq_ok _ _ _ hret
      have hok := hsolver (usedCols n Kc) o1 (by simp [lbSource])
      refine lb_reduced_pairs n Kc Gf o1 (o1.vecs.takeCols num) e hsym hnull hok rfl ?_ he
      intro j w hw
      simp only [Block.takeCols, List.getElem?_take] at hw
      split_ifs at hw with hj
      · exact hw

end lbthm

/-! ### `lb`: exactly when the glue raises a shape error -/

section lbshape
variable {K : Type} [Field K] [DecidableEq K]

theorem except_map_ok_iff {ε α β : Type} (f : α → β) (x : Except ε α) :
    (∃ b, x.map f = .ok b) ↔ ∃ a, x = .ok a := by
  cases x with
  | error e => exact ⟨fun ⟨_, h⟩ => (by cases h), fun ⟨_, h⟩ => (by cases h)⟩
  | ok a => exact ⟨fun _ => ⟨a, rfl⟩, fun _ => ⟨f a, rfl⟩⟩

theorem lb_sparse_direct_aux (n num : Nat) (kMin : Bool) (Kc : Coo K) (o : Out K K)
    (second : Option (Out K K)) :
    (lb n num kMin true Kc (some o) second).2 = .ok ⟨negInvVals o.vals, o.vecs⟩ := rfl

/-- with the allocation `zeros((n, peigvecs.shape[1]))` the assignment can only fail on the ROW count -/
theorem assignRows_self_ok {α : Type} [Zero α] (n : Nat) (idx : List Nat) (v : Block α)
    (hidx : ∀ u ∈ idx, u < n) (hrows : v.rows = idx.length) : ∃ e, assignRows n v.ncols idx v = .ok e :=
  (assignRows_ok_iff n v.ncols idx v hidx).2 ⟨Or.inl hrows, Or.inl rfl⟩

/-- TOTALITY of the repaired glue: whatever `n`, `num_eigvalues`, the matrices and the number of columns the
solver delivers, `lb` returns as soon as the solver call it relies on returned a block with one row per
active amplitude. -/
theorem lb_shapes_total_aux (n num : Nat) (kMin : Bool) (Kc : Coo K) (o : Out K K)
    (other : Option (Out K K)) (hrows : o.vecs.rows = (usedCols n Kc).length) :
    (∃ r, (lb n num kMin true Kc (some o) other).2 = .ok r) ∧
    (∃ r, (lb n num kMin true Kc none (some o)).2 = .ok r) ∧
    (∃ r, (lb n num kMin false Kc (some o) other).2 = .ok r) := by
  refine ⟨⟨_, rfl⟩, ?_, ?_⟩
  · have hl : (lb n num kMin true Kc none (some o)).2 =
        (assignRows n o.vecs.ncols (usedCols n Kc) o.vecs).map fun e => ⟨negInvVals o.vals, e⟩ := rfl
    rw [hl, except_map_ok_iff]
    exact assignRows_self_ok n _ _ (usedCols_lt n Kc) hrows
  · have hl : (lb n num kMin false Kc (some o) other).2 =
        (assignRows n (o.vecs.takeCols num).ncols (usedCols n Kc) (o.vecs.takeCols num)).map
          fun e => ⟨negInvVals o.vals, e⟩ := rfl
    rw [hl, except_map_ok_iff]
    exact assignRows_self_ok n _ _ (usedCols_lt n Kc) hrows

/-- the shape of what is returned on the reduced paths: `n` rows, as many columns as delivered (sparse
fallback) resp. `min(num, delivered)` (dense) -/
theorem lb_result_shape_aux (n num : Nat) (kMin : Bool) (Kc : Coo K) (o : Out K K)
    (other : Option (Out K K)) (r : Out (Option K) K) :
    ((lb n num kMin true Kc none (some o)).2 = .ok r → r.vecs.rows = n ∧ r.vecs.ncols = o.vecs.ncols ∧
      r.vals.length = o.vals.length) ∧
    ((lb n num kMin false Kc (some o) other).2 = .ok r → r.vecs.rows = n ∧
      r.vecs.ncols = min num o.vecs.ncols ∧ r.vals.length = o.vals.length) := by
  constructor
  · intro h
    have hl : (lb n num kMin true Kc none (some o)).2 =
        (assignRows n o.vecs.ncols (usedCols n Kc) o.vecs).map fun e => ⟨negInvVals o.vals, e⟩ := rfl
    rw [hl] at h
    obtain ⟨e, he, rfl⟩ := except_map_eq_ok _ _ _ h
    have := assignRows_shape _ _ _ _ _ he
    exact ⟨this.1, this.2, by simp [negInvVals]⟩
  · intro h
    have hl : (lb n num kMin false Kc (some o) other).2 =
        (assignRows n (o.vecs.takeCols num).ncols (usedCols n Kc) (o.vecs.takeCols num)).map
          fun e => ⟨negInvVals o.vals, e⟩ := rfl
    rw [hl] at h
    obtain ⟨e, he, rfl⟩ := except_map_eq_ok _ _ _ h
    have := assignRows_shape _ _ _ _ _ he
    refine ⟨this.1, ?_, by simp [negInvVals]⟩
    rw [this.2]; simp [Block.takeCols, Block.ncols]

/-- what ARPACK itself needs (`0 < k < N`): the requests made by the repaired glue are always inside that
range when at least one value is requested, `n ≥ 3` and at least two amplitudes are active. -/
theorem lb_requests_in_range_aux (n num nred : Nat) (hnum : 1 ≤ num) (hn : 3 ≤ n) (hred : 2 ≤ nred) :
    (0 < lbK n num true ∧ lbK n num true < n) ∧
    (0 < lbK2 n num true nred ∧ lbK2 n num true nred < nred) ∧
    (0 < lbK2 n num false nred ∧ lbK2 n num false nred < nred) := by
  unfold lbK2 lbK
  simp only [if_true, Bool.false_eq_true, if_false]
  omega

end lbshape

/-! ### order and selection lemmas over an ordered field -/

section order
variable {K : Type} [Field K] [LinearOrder K] [IsStrictOrderedRing K]

/-- `μ ↦ -1/μ` is increasing on the negative half-line and maps it to the positive one -/
theorem negInv_lt_negInv {a b : K} (ha : a < 0) (hb : b < 0) (hab : a < b) : -1 / a < -1 / b := by
  rw [neg_div, neg_div, one_div, one_div, neg_lt_neg_iff, inv_lt_inv_of_neg hb ha]
  exact hab

theorem negInv_pos {a : K} (ha : a < 0) : 0 < -1 / a := div_pos_of_neg_of_neg (by norm_num) ha

theorem negInv_sorted_aux (l : List K) (hs : l.Pairwise (· < ·)) (hneg : ∀ μ ∈ l, μ < 0) :
    (l.map fun μ => -1 / μ).Pairwise (· < ·) ∧ ∀ x ∈ l.map (fun μ => -1 / μ), 0 < x := by
  constructor
  · rw [List.pairwise_map]
    exact hs.imp_of_mem fun {a b} ha hb hab => negInv_lt_negInv (hneg a ha) (hneg b hb) hab
  · intro x hx
    obtain ⟨μ, hμ, rfl⟩ := List.mem_map.1 hx
    exact negInv_pos (hneg μ hμ)

omit [LinearOrder K] [IsStrictOrderedRing K] in
/-- modulus of the Cayley-transformed eigenvalue `ν = (μ+1)/(μ-1)` at `μ = -1/λ`: `|ν| = |λ-1| / |λ+1|` -/
theorem cayley_of_lam {lam : K} (h0 : lam ≠ 0) (h1 : lam + 1 ≠ 0) :
    (-1 / lam + 1) / (-1 / lam - 1) = -((lam - 1) / (lam + 1)) := by
  have h2 : -1 - lam ≠ 0 := by
    intro h; apply h1
    have : lam + 1 = -(-1 - lam) := by ring
    rw [this, h, neg_zero]
  have h3 : -1 / lam - 1 ≠ 0 := by
    have : -1 / lam - 1 = (-1 - lam) / lam := by field_simp
    rw [this]; exact div_ne_zero h2 h0
  field_simp
  ring

theorem cayley_abs_lt_one_of_pos {lam : K} (h : 0 < lam) : |(lam - 1) / (lam + 1)| < 1 := by
  have hp : 0 < lam + 1 := by linarith
  rw [abs_div, abs_of_pos hp, div_lt_one hp, abs_lt]
  constructor <;> linarith

theorem cayley_abs_gt_one_of_neg {lam : K} (h : lam < 0) (h1 : lam + 1 ≠ 0) : 1 < |(lam - 1) / (lam + 1)| := by
  have hp : 0 < |lam + 1| := abs_pos.2 h1
  rw [abs_div, one_lt_div hp, abs_of_neg (by linarith : lam - 1 < 0)]
  rcases lt_or_gt_of_ne h1 with h2 | h2
  · rw [abs_of_neg h2]; linarith
  · rw [abs_of_pos h2]; linarith

theorem cayley_mono {a b : K} (ha : 1 ≤ a) (hab : a < b) : |(a - 1) / (a + 1)| < |(b - 1) / (b + 1)| := by
  have hpa : 0 < a + 1 := by linarith
  have hpb : 0 < b + 1 := by linarith
  rw [abs_of_nonneg (div_nonneg (by linarith) hpa.le), abs_of_nonneg (div_nonneg (by linarith) hpb.le),
    div_lt_div_iff₀ hpa hpb]
  nlinarith

/-- Selection by smallest `|ν|` (shift-invert `sigma = 1`, `mode = 'cayley'`, `which = 'SM'`): when the
reference load is sub-critical (no multiplier in `(0, 1]`), anything selected in preference to a positive
multiplier `ln` is itself a positive multiplier, not larger than `ln`. -/
theorem cayley_select_aux {ls ln : K} (hs : ls < 0 ∨ 1 < ls) (hs1 : ls + 1 ≠ 0) (hn : 1 < ln)
    (hsel : |(ls - 1) / (ls + 1)| ≤ |(ln - 1) / (ln + 1)|) : 1 < ls ∧ ls ≤ ln := by
  rcases hs with h | h
  · have h1 := cayley_abs_gt_one_of_neg h hs1
    have h2 := cayley_abs_lt_one_of_pos (by linarith : 0 < ln)
    linarith
  · refine ⟨h, ?_⟩
    by_contra hlt
    have := cayley_mono (by linarith : 1 ≤ ln) (not_le.1 hlt)
    linarith

end order

/-! ### scaling laws at the level of the pencil equation -/

section scaling
variable {K : Type} [Field K]

theorem dotFrom_congr (f g : Nat → K) : ∀ (v : List K) (i : Nat), (∀ j, f j = g j) →
    dotFrom f i v = dotFrom g i v := by
  intro v i h
  have : f = g := funext h
  rw [this]

/-- `KG ↦ s·KG` divides the multiplier by `s` (same mode) -/
theorem lb_scale_aux (Kf Gf : Nat → Nat → K) (s lam : K) (hs : s ≠ 0) (v : List K) (i : Nat)
    (h : dotFrom (fun j => Kf i j + lam * Gf i j) 0 v = 0) :
    dotFrom (fun j => Kf i j + lam / s * (s * Gf i j)) 0 v = 0 := by
  rw [← h]
  apply dotFrom_congr
  intro j
  field_simp

end scaling

/-! ### rounding (`numpy.rint`) -/

section rounding
variable {K : Type} [Field K] [LinearOrder K] [IsStrictOrderedRing K] [FloorRing K]

theorem rint_mono {x y : K} (h : x ≤ y) : rint x ≤ rint y := by
  have hx1 := Int.floor_le x
  have hx2 := Int.lt_floor_add_one x
  have hy1 := Int.floor_le y
  have hy2 := Int.lt_floor_add_one y
  have hfg : Int.floor x ≤ Int.floor y := Int.floor_le_floor h
  unfold rint
  dsimp only
  rcases lt_or_eq_of_le hfg with hlt | heq
  · split_ifs <;> omega
  · rw [heq] at hx1 hx2 ⊢
    split_ifs <;> first | omega | (exfalso; linarith)

theorem lt_of_rint_lt {x y : K} (h : rint x < rint y) : x < y := by
  by_contra hn
  exact absurd (rint_mono (not_lt.1 hn)) (not_le.2 h)

/-- values more than one unit apart never share a rounding bucket (exactly one unit apart they can:
`rint 1.5 = rint 2.5 = 2`) -/
theorem rint_lt_of_add_one_lt {x y : K} (h : x + 1 < y) : rint x < rint y := by
  have hx1 := Int.floor_le x
  have hx2 := Int.lt_floor_add_one x
  have hy1 := Int.floor_le y
  have hy2 := Int.lt_floor_add_one y
  have hfg : Int.floor x + 1 ≤ Int.floor y := by
    rw [← Int.floor_add_one]; exact Int.floor_le_floor h.le
  unfold rint
  dsimp only
  rcases lt_or_eq_of_le hfg with hlt | heq
  · split_ifs <;> omega
  · rw [← heq] at hy1 hy2 ⊢
    push_cast at hy1 hy2 ⊢
    split_ifs <;> first | omega | (exfalso; linarith)

end rounding

/-! ### the stable insertion sort -/

section isort
variable {α : Type}

theorem insertBy_perm (le : α → α → Bool) (a : α) : ∀ l : List α, (insertBy le a l).Perm (a :: l) := by
  intro l
  induction l with
  | nil => exact List.Perm.refl _
  | cons b l ih =>
    unfold insertBy
    split_ifs
    · exact List.Perm.refl _
    · exact (List.Perm.cons b ih).trans (List.Perm.swap a b l)

theorem isort_perm (le : α → α → Bool) : ∀ l : List α, (isort le l).Perm l := by
  intro l
  induction l with
  | nil => exact List.Perm.refl _
  | cons a l ih => exact (insertBy_perm le a _).trans (List.Perm.cons a ih)

theorem insertBy_sorted (le : α → α → Bool) (htot : ∀ a b, le a b = true ∨ le b a = true)
    (htr : ∀ a b c, le a b = true → le b c = true → le a c = true) (a : α) :
    ∀ l : List α, l.Pairwise (fun x y => le x y = true) → (insertBy le a l).Pairwise (fun x y => le x y = true) := by
  intro l
  induction l with
  | nil => intro _; simp [insertBy]
  | cons b l ih =>
    intro hl
    have hl' := List.pairwise_cons.1 hl
    unfold insertBy
    split_ifs with hab
    · refine List.pairwise_cons.2 ⟨?_, hl⟩
      intro c hc
      rcases List.mem_cons.1 hc with rfl | hc'
      · exact hab
      · exact htr a b c hab (hl'.1 c hc')
    · have hba : le b a = true := (htot a b).resolve_left hab
      refine List.pairwise_cons.2 ⟨?_, ih hl'.2⟩
      intro c hc
      rcases List.mem_cons.1 ((insertBy_perm le a l).subset hc) with rfl | hc'
      · exact hba
      · exact hl'.1 c hc'

theorem isort_sorted (le : α → α → Bool) (htot : ∀ a b, le a b = true ∨ le b a = true)
    (htr : ∀ a b c, le a b = true → le b c = true → le a c = true) :
    ∀ l : List α, (isort le l).Pairwise (fun x y => le x y = true) := by
  intro l
  induction l with
  | nil => exact List.Pairwise.nil
  | cons a l ih => exact insertBy_sorted le htot htr a _ ih

theorem lexLE_total (a b : Int × Int) : lexLE a b = true ∨ lexLE b a = true := by
  unfold lexLE
  simp only [Bool.or_eq_true, Bool.and_eq_true, decide_eq_true_eq, beq_iff_eq]
  omega

theorem lexLE_trans (a b c : Int × Int) (h1 : lexLE a b = true) (h2 : lexLE b c = true) : lexLE a c = true := by
  unfold lexLE at *
  simp only [Bool.or_eq_true, Bool.and_eq_true, decide_eq_true_eq, beq_iff_eq] at *
  omega

theorem lexLE_fst {a b : Int × Int} (h : lexLE a b = true) : a.1 ≤ b.1 := by
  unfold lexLE at h
  simp only [Bool.or_eq_true, Bool.and_eq_true, decide_eq_true_eq, beq_iff_eq] at h
  omega

end isort

/-! ### the `sort` step of `freq` -/

section sortstep
variable {K : Type} [Field K] [LinearOrder K] [IsStrictOrderedRing K] [FloorRing K]
variable {F : Type} [Zero F]

/-- the entries that survive `eigvals.real > 1e-6`, in sorted order -/
def keptTriples (re im : F → K) (vals : List F) (cols : List (List F)) : List ((Int × Int) × F × List F) :=
  (sortTriples re im vals cols).filter fun t => decide ((1 : K) / 1000000 < re t.2.1)

theorem sortTriples_perm (re im : F → K) (vals : List F) (cols : List (List F)) :
    (sortTriples re im vals cols).Perm ((vals.zip cols).map fun p => (sortKey re im p.1, p.1, p.2)) :=
  isort_perm _ _

theorem sortTriples_sorted (re im : F → K) (vals : List F) (cols : List (List F)) :
    (sortTriples re im vals cols).Pairwise fun a b => lexLE a.1 b.1 = true :=
  isort_sorted _ (fun a b => lexLE_total a.1 b.1) (fun a b c => lexLE_trans a.1 b.1 c.1) _

theorem sortTriples_key (re im : F → K) (vals : List F) (cols : List (List F))
    (t : (Int × Int) × F × List F) (ht : t ∈ sortTriples re im vals cols) :
    t.1 = sortKey re im t.2.1 ∧ (t.2.1, t.2.2) ∈ vals.zip cols := by
  obtain ⟨p, hp, rfl⟩ := List.mem_map.1 ((sortTriples_perm re im vals cols).subset ht)
  exact ⟨rfl, hp⟩

theorem sortStep_ok (re im : F → K) (vals : List F) (vecs : Block F) (out : Out F F)
    (h : sortStep re im vals vecs = .ok out) :
    vals.length ≤ vecs.ncols ∧ out.vals = (keptTriples re im vals vecs.cols).map (·.2.1) ∧
      out.vecs = ⟨vecs.rows, (keptTriples re im vals vecs.cols).map (·.2.2)⟩ := by
  unfold sortStep at h
  by_cases hc : vecs.ncols < vals.length
  · rw [if_pos hc] at h; cases h
  · rw [if_neg hc] at h
    injection h with h
    subst h
    exact ⟨not_lt.1 hc, rfl, rfl⟩

/-- the sort only permutes (eigenvalue, eigenvector) pairs, then drops those with `real ≤ 1e-6` -/
theorem sort_perm_aux (re im : F → K) (vals : List F) (vecs : Block F) (out : Out F F)
    (h : sortStep re im vals vecs = .ok out) :
    (out.vals.zip out.vecs.cols).Perm
      ((vals.zip vecs.cols).filter fun p => decide ((1 : K) / 1000000 < re p.1)) ∧
    out.vecs.rows = vecs.rows := by
  obtain ⟨-, hv, hc⟩ := sortStep_ok re im vals vecs out h
  rw [hv, hc]
  refine ⟨?_, rfl⟩
  dsimp only
  rw [List.zip_map']
  unfold keptTriples
  have hperm := (sortTriples_perm re im vals vecs.cols).filter
    (fun t => decide ((1 : K) / 1000000 < re t.2.1))
  refine (hperm.map fun t => (t.2.1, t.2.2)).trans ?_
  rw [List.filter_map, List.map_map]
  have : ((fun t : (Int × Int) × F × List F => (t.2.1, t.2.2)) ∘
      fun p : F × List F => (sortKey re im p.1, p.1, p.2)) = id := by
    funext p; rfl
  rw [this, List.map_id]
  exact List.Perm.of_eq rfl

theorem sort_sorted_aux (re im : F → K) (vals : List F) (vecs : Block F) (out : Out F F)
    (h : sortStep re im vals vecs = .ok out) :
    out.vals.Pairwise fun a b => lexLE (sortKey re im a) (sortKey re im b) = true := by
  obtain ⟨-, hv, -⟩ := sortStep_ok re im vals vecs out h
  rw [hv, List.pairwise_map]
  have hs : (keptTriples re im vals vecs.cols).Pairwise fun a b => lexLE a.1 b.1 = true :=
    (sortTriples_sorted re im vals vecs.cols).sublist List.filter_sublist
  refine hs.imp_of_mem ?_
  intro a b ha hb hab
  have ha' := (sortTriples_key re im vals vecs.cols a (List.mem_of_mem_filter ha)).1
  have hb' := (sortTriples_key re im vals vecs.cols b (List.mem_of_mem_filter hb)).1
  rw [← ha', ← hb']; exact hab

theorem sort_positive_aux (re im : F → K) (vals : List F) (vecs : Block F) (out : Out F F)
    (h : sortStep re im vals vecs = .ok out) : ∀ w ∈ out.vals, (1 : K) / 1000000 < re w := by
  obtain ⟨-, hv, -⟩ := sortStep_ok re im vals vecs out h
  rw [hv]
  intro w hw
  obtain ⟨t, ht, rfl⟩ := List.mem_map.1 hw
  have := (List.mem_filter.1 ht).2
  simpa using this

/-- What is true about the order of the true values: if the real parts entering the sort are pairwise more
than 0.1 apart, the output is strictly ascending in the real part. -/
theorem sort_ascending_partial_aux (re im : F → K) (vals : List F) (vecs : Block F) (out : Out F F)
    (h : sortStep re im vals vecs = .ok out)
    (hsep : vals.Pairwise fun a b => re a + 1 / 10 < re b ∨ re b + 1 / 10 < re a) :
    out.vals.Pairwise fun a b => re a < re b := by
  obtain ⟨hlen, hv, -⟩ := sortStep_ok re im vals vecs out h
  rw [hv, List.pairwise_map]
  -- separation holds between any two entries of the sorted list, in list order
  have hsepZ : ((vals.zip vecs.cols).map fun p => (sortKey re im p.1, p.1, p.2)).Pairwise
      fun a b => re a.2.1 + 1 / 10 < re b.2.1 ∨ re b.2.1 + 1 / 10 < re a.2.1 := by
    rw [List.pairwise_map]
    have : ((vals.zip vecs.cols).map Prod.fst).Pairwise
        fun a b => re a + 1 / 10 < re b ∨ re b + 1 / 10 < re a := by
      rw [List.map_fst_zip (by simpa [Block.ncols] using hlen)]; exact hsep
    exact (List.pairwise_map.1 this)
  have hsepT : (sortTriples re im vals vecs.cols).Pairwise
      fun a b => re a.2.1 + 1 / 10 < re b.2.1 ∨ re b.2.1 + 1 / 10 < re a.2.1 :=
    (sortTriples_perm re im vals vecs.cols).symm.pairwise hsepZ (fun {a b} hab => hab.symm)
  have hboth := (hsepT.and (sortTriples_sorted re im vals vecs.cols)).sublist
    (List.filter_sublist (p := fun t => decide ((1 : K) / 1000000 < re t.2.1)))
  refine hboth.imp_of_mem ?_
  intro a b ha hb hab
  have ha' := (sortTriples_key re im vals vecs.cols a (List.mem_of_mem_filter ha)).1
  have hb' := (sortTriples_key re im vals vecs.cols b (List.mem_of_mem_filter hb)).1
  have hle : rint (re a.2.1 * 10) ≤ rint (re b.2.1 * 10) := by
    have := lexLE_fst hab.2
    rw [ha', hb'] at this
    exact this
  rcases hab.1 with h1 | h1
  · linarith
  · exfalso
    have : rint (re b.2.1 * 10) < rint (re a.2.1 * 10) := rint_lt_of_add_one_lt (by linarith)
    omega

end sortstep

/-! ### `reduced_dof`: the `take` bookkeeping -/

section take

theorem count_mod3_one (r : Nat) : ((List.range r).filter (· % 3 == 1)).length = (r + 1) / 3 := by
  induction r with
  | zero => rfl
  | succ r ih =>
    rw [List.range_succ, List.filter_append, List.length_append, ih]
    by_cases h : r % 3 = 1
    · simp [h]; omega
    · simp [h]; omega

theorem count_mod3_two (r : Nat) : ((List.range r).filter (· % 3 == 2)).length = r / 3 := by
  induction r with
  | zero => rfl
  | succ r ih =>
    rw [List.range_succ, List.filter_append, List.length_append, ih]
    by_cases h : r % 3 = 2
    · simp [h]; omega
    · simp [h]; omega

theorem length_flatMap_pair {β : Type} (l : List (β × β)) :
    (l.flatMap fun p => [p.1, p.2]).length = 2 * l.length := by
  induction l with
  | nil => rfl
  | cons a l ih => simp only [List.flatMap_cons, List.length_append, ih, List.length_cons, List.length_nil]; omega

/-- `column_stack((i[1::3], i[2::3]))` fails exactly for `r ≡ 2 (mod 3)`; otherwise `take` has `2·⌊r/3⌋` entries -/
theorem takeIdx_cases (r : Nat) :
    (r % 3 = 2 ∧ takeIdx r = .error (.columnStack ((r + 1) / 3) (r / 3))) ∨
    (r % 3 ≠ 2 ∧ ∃ t, takeIdx r = .ok t ∧ t.length = 2 * (r / 3)) := by
  unfold takeIdx
  dsimp only
  rw [count_mod3_one, count_mod3_two]
  by_cases h : r % 3 = 2
  · left
    refine ⟨h, ?_⟩
    rw [if_neg (by omega)]
  · right
    refine ⟨h, ?_⟩
    rw [if_pos (by omega)]
    refine ⟨_, rfl, ?_⟩
    rw [length_flatMap_pair, List.length_zip, count_mod3_one, count_mod3_two]
    omega

theorem filter_range_three_mul_succ (c : Nat) (hc : c < 3) (m : Nat) :
    (List.range (3 * (m + 1))).filter (· % 3 == c) = (List.range (3 * m)).filter (· % 3 == c) ++ [3 * m + c] := by
  have h3 : 3 * (m + 1) = 3 * m + 1 + 1 + 1 := by ring
  rw [h3, List.range_succ, List.range_succ, List.range_succ]
  simp only [List.filter_append, List.append_assoc]
  congr 1
  have e0 : (3 * m) % 3 = 0 := by omega
  have e1 : (3 * m + 1) % 3 = 1 := by omega
  have e2 : (3 * m + 2) % 3 = 2 := by omega
  obtain rfl | rfl | rfl : c = 0 ∨ c = 1 ∨ c = 2 := by omega
  all_goals simp [List.filter, e0, e1, e2]

/-- explicit form of `take` for a size that is a multiple of three: strictly ascending, in range -/
theorem takeIdx_three_mul (m : Nat) : ∃ t, takeIdx (3 * m) = .ok t ∧ t.length = 2 * m ∧
    t.Pairwise (· < ·) ∧ ∀ u ∈ t, u < 3 * m := by
  have hlen1 : ∀ m, ((List.range (3 * m)).filter (· % 3 == 1)).length = m := fun m => by
    rw [count_mod3_one]; omega
  have hlen2 : ∀ m, ((List.range (3 * m)).filter (· % 3 == 2)).length = m := fun m => by
    rw [count_mod3_two]; omega
  have key : ∀ m, ((((List.range (3 * m)).filter (· % 3 == 1)).zip
      ((List.range (3 * m)).filter (· % 3 == 2))).flatMap fun p => [p.1, p.2]).Pairwise (· < ·) ∧
      ∀ u ∈ ((((List.range (3 * m)).filter (· % 3 == 1)).zip
      ((List.range (3 * m)).filter (· % 3 == 2))).flatMap fun p => [p.1, p.2]), u < 3 * m := by
    intro m
    induction m with
    | zero => simp
    | succ m ih =>
      rw [filter_range_three_mul_succ 1 (by omega), filter_range_three_mul_succ 2 (by omega),
        List.zip_append (by rw [hlen1, hlen2]), List.flatMap_append]
      simp only [List.zip_cons_cons, List.zip_nil_right, List.flatMap_cons, List.flatMap_nil, List.append_nil]
      constructor
      · rw [List.pairwise_append]
        refine ⟨ih.1, by simp, ?_⟩
        intro a ha b hb
        have := ih.2 a ha
        simp only [List.mem_cons, List.not_mem_nil, or_false] at hb
        omega
      · intro u hu
        rcases List.mem_append.1 hu with h | h
        · have := ih.2 u h; omega
        · simp only [List.mem_cons, List.not_mem_nil, or_false] at h
          omega
  refine ⟨_, ?_, ?_, (key m).1, (key m).2⟩
  · unfold takeIdx
    dsimp only
    rw [if_pos (by rw [hlen1, hlen2])]
  · rw [length_flatMap_pair, List.length_zip, hlen1, hlen2]; omega

end take

section reexpand
variable {F : Type} [Zero F]

/-- `new_eigvecs[take, :] = eigvecs` followed by reading rows `take` gives back `eigvecs`:
re-expansion is a right inverse of the `take` selection, and the allocated height `3·rows//2` fits. -/
theorem reduced_expand_inverse_aux (m : Nat) (cols : List (List F)) (hc : ∀ w ∈ cols, w.length = 2 * m) :
    ∃ t e, takeIdx (3 * m) = .ok t ∧ reExpand t ⟨2 * m, cols⟩ = .ok e ∧ e.rows = 3 * m ∧
      e.cols.map (gather t) = cols := by
  obtain ⟨t, ht, hl, hp, hb⟩ := takeIdx_three_mul m
  have h32 : 3 * (2 * m) / 2 = 3 * m := by omega
  refine ⟨t, ⟨3 * m, cols.map fun col => scatterFrom t col 0 (3 * m)⟩, ht, ?_, rfl, ?_⟩
  · unfold reExpand assignRows
    dsimp only
    rw [if_pos ⟨Or.inl hl.symm, Or.inl rfl⟩, if_pos rfl, if_pos hl.symm, h32]
    rw [if_pos (by simpa using hb)]
  · rw [List.map_map]
    conv_rhs => rw [← List.map_id cols]
    refine List.map_congr_left fun w hw => ?_
    exact gather_scatterFrom (3 * m) t w hp hb (by rw [hc w hw, hl])

end reexpand

/-! ### `freq` -/

section pencil2
variable {F : Type} [Field F]

theorem dotIdx_neg (f : Nat → F) (idx : List Nat) (w : List F) :
    dotIdx (fun j => -f j) idx w = -dotIdx f idx w := by
  induction idx generalizing w with
  | nil => simp [dotIdx]
  | cons u us ih =>
    cases w with
    | nil => simp [dotIdx]
    | cons x xs => rw [dotIdx_cons, dotIdx_cons, ih]; ring

/-- scatter correctness for `A v = ρ B v` -/
theorem pencil_scatter2 (Af Bf : Nat → Nat → F) (n : Nat) (idx : List Nat) (w : List F) (ρ : F)
    (hp : idx.Pairwise (· < ·)) (hb : ∀ u ∈ idx, u < n) (hsol : PencilSol Af Bf idx ρ w)
    (hA : ∀ i, i < n → i ∉ idx → ∀ u ∈ idx, Af i u = 0)
    (hB : ∀ i, i < n → i ∉ idx → ∀ u ∈ idx, Bf i u = 0) :
    ∀ i < n, dotFrom (Af i) 0 (scatterFrom idx w 0 n) = ρ * dotFrom (Bf i) 0 (scatterFrom idx w 0 n) := by
  intro i hi
  have hbb : ∀ u ∈ idx, 0 ≤ u ∧ u < 0 + n := fun u hu => ⟨Nat.zero_le _, by simpa using hb u hu⟩
  rw [dotFrom_scatterFrom _ n idx w 0 hp hbb hsol.1, dotFrom_scatterFrom _ n idx w 0 hp hbb hsol.1]
  by_cases hmem : i ∈ idx
  · exact hsol.2 i hmem
  · rw [dotIdx_eq_zero _ idx w (hA i hi hmem), dotIdx_eq_zero _ idx w (hB i hi hmem)]; ring

/-- `-M w = x K w` and `ρ x = -1` give `K w = ρ M w` -/
theorem pencilSol_of_negInv (Kf Mf : Nat → Nat → F) (idx : List Nat) (x ρ : F) (w : List F)
    (hρ : ρ * x = -1) (h : PencilSol (fun i j => -Mf i j) Kf idx x w) : PencilSol Kf Mf idx ρ w := by
  refine ⟨h.1, fun u hu => ?_⟩
  have := h.2 u hu
  rw [dotIdx_neg] at this
  have h2 : ρ * dotIdx (Mf u) idx w = -(ρ * x) * dotIdx (Kf u) idx w := by
    rw [neg_mul, mul_assoc, ← this]; ring
  rw [h2, hρ]; ring

end pencil2

section freqthm
variable {K : Type} [Field K] [LinearOrder K] [IsStrictOrderedRing K] [FloorRing K] [DecidableEq K]

theorem except_bind_ok {ε α β : Type} (x : Except ε α) (f : α → Except ε β) (b : β)
    (h : x.bind f = .ok b) : ∃ a, x = .ok a ∧ f a = .ok b := by
  cases x with
  | error e => cases h
  | ok a => exact ⟨a, rfl, h⟩

section shapes
variable {F : Type} [Zero F]

theorem freq_sparse_eq (n num : Nat) (sort reduced : Bool) (Kc Mc : Coo K) (sqrtV : List F → List F)
    (negInv : F → F) (re im : F → K) (o : Out F F) :
    (freq n num true sort reduced Kc Mc sqrtV negInv re im (some o)).2 =
      ((assignRows n o.vecs.ncols (usedCols n Kc) o.vecs).bind fun e =>
        sortOrNot sort re im (sqrtV o.vals) e) := rfl

theorem freq_dense_eq (n num : Nat) (sort : Bool) (Kc Mc : Coo K) (sqrtV : List F → List F)
    (negInv : F → F) (re im : F → K) (o : Out F F) :
    (freq n num false sort false Kc Mc sqrtV negInv re im (some o)).2 =
      ((assignRows n (checkCols n Mc).length (checkCols n Mc) o.vecs).bind fun e =>
        (sortOrNot sort re im (sqrtV (o.vals.map negInv)) e).bind (freqPost none)) := rfl

/-- TOTALITY of the repaired sparse path: it returns whenever `eigs` returned a block with one row per
active amplitude and no more values than vectors (needed by `eigvecs[:, sort_ind]`). -/
theorem freq_sparse_total_aux (n num : Nat) (sort reduced : Bool) (Kc Mc : Coo K) (sqrtV : List F → List F)
    (negInv : F → F) (re im : F → K) (o : Out F F) (hrows : o.vecs.rows = (usedCols n Kc).length)
    (hvals : (sqrtV o.vals).length ≤ o.vecs.ncols) :
    ∃ r, (freq n num true sort reduced Kc Mc sqrtV negInv re im (some o)).2 = .ok r := by
  rw [freq_sparse_eq]
  obtain ⟨e, he⟩ := assignRows_self_ok n _ o.vecs (usedCols_lt n Kc) hrows
  rw [he]
  have hen := (assignRows_shape _ _ _ _ _ he).2
  cases sort with
  | false => exact ⟨_, rfl⟩
  | true =>
    show ∃ r, sortStep re im (sqrtV o.vals) e = .ok r
    unfold sortStep
    rw [if_neg (by omega)]
    exact ⟨_, rfl⟩

/-- what ARPACK's `eigs` needs (`0 < k < N-1`) holds for the repaired request -/
theorem freq_request_in_range_aux (n num nred : Nat) (hnum : 1 ≤ num) (hn : 3 ≤ n) (hred : 3 ≤ nred) :
    0 < freqK n num nred ∧ freqK n num nred < (nred : Int) - 1 := by
  unfold freqK
  omega

/-- the dense `reduced_dof=True` branch can never return: `eigvecs[check, :] = peigvecs` assigns a
`(2⌊r/3⌋ × 2⌊r/3⌋)` block to `r` rows (or `column_stack` already failed) -/
theorem freq_reduced_never_aux (n num : Nat) (sort : Bool) (Kc Mc : Coo K) (sqrtV : List F → List F)
    (negInv : F → F) (re im : F → K) (o : Out F F) (h2 : 2 ≤ (checkCols n Mc).length)
    (hsq : ∀ t, takeIdx (checkCols n Mc).length = .ok t → o.vecs.rows = t.length) :
    ∃ e, (freq n num false sort true Kc Mc sqrtV negInv re im (some o)).2 = .error e := by
  rcases takeIdx_cases (checkCols n Mc).length with ⟨-, ht⟩ | ⟨-, t, ht, hl⟩
  · refine ⟨.columnStack (((checkCols n Mc).length + 1) / 3) ((checkCols n Mc).length / 3), ?_⟩
    unfold freq takeOpt
    simp only [Bool.false_eq_true, if_false, if_true, ht]
    rfl
  · have hrows := hsq t ht
    have hne : ¬ ((o.vecs.rows = (checkCols n Mc).length ∨ o.vecs.rows = 1) ∧
        (o.vecs.ncols = (gather t (checkCols n Mc)).length ∨ o.vecs.ncols = 1)) := by
      rw [hrows, hl]; omega
    refine ⟨.shapeMismatch (o.vecs.rows, o.vecs.ncols)
      ((checkCols n Mc).length, (gather t (checkCols n Mc)).length), ?_⟩
    have hfreq : (freq n num false sort true Kc Mc sqrtV negInv re im (some o)).2 =
        (assignRows n (gather t (checkCols n Mc)).length (checkCols n Mc) o.vecs).bind fun e =>
          (sortOrNot sort re im (sqrtV (o.vals.map negInv)) e).bind (freqPost (some t)) := by
      unfold freq takeOpt
      simp only [Bool.false_eq_true, if_false, if_true, ht]
      rfl
    rw [hfreq, assignRows_error _ _ _ _ hne]
    rfl

end shapes

section pairs
variable {F : Type} [Field F]

theorem mem_zip_getElem? {β γ : Type} (l₁ : List β) (l₂ : List γ) (a : β) (b : γ) (h : (a, b) ∈ l₁.zip l₂) :
    ∃ c : Nat, l₁[c]? = some a ∧ l₂[c]? = some b := by
  obtain ⟨c, hc⟩ := List.mem_iff_getElem?.1 h
  exact ⟨c, List.getElem?_zip_eq_some.1 hc⟩

/-- after the optional sort, every returned pair is one of the pairs that entered it -/
theorem sort_or_not_subset (sort : Bool) (re im : F → K) (vals : List F) (e : Block F) (out : Out F F)
    (h : sortOrNot sort re im vals e = Except.ok out) :
    ∀ p ∈ out.vals.zip out.vecs.cols, p ∈ vals.zip e.cols := by
  unfold sortOrNot at h
  cases sort with
  | false =>
    simp only [Bool.false_eq_true, if_false] at h
    injection h with h
    subst h
    exact fun p hp => hp
  | true =>
    simp only [if_true] at h
    intro p hp
    exact (List.mem_filter.1 ((sort_perm_aux re im vals e out h).1.subset hp)).1

/-- common core of both paths -/
theorem freq_core_pairs (n c : Nat) (sort : Bool) (Af Bf : Nat → Nat → F) (idx : List Nat)
    (re im : F → K) (o : Out F F) (vals rhos : List F) (out : Out F F)
    (hp : idx.Pairwise (· < ·)) (hb : ∀ u ∈ idx, u < n)
    (hA : ∀ i, i < n → i ∉ idx → ∀ u ∈ idx, Af i u = 0)
    (hB : ∀ i, i < n → i ∉ idx → ∀ u ∈ idx, Bf i u = 0)
    (hrl : rhos.length = o.vecs.ncols) (hrows : o.vecs.rows = idx.length)
    (hsol : ∀ (k : Nat) ρ w, rhos[k]? = some ρ → o.vecs.cols[k]? = some w → PencilSol Af Bf idx ρ w)
    (hvl : vals.length = rhos.length)
    (hsq : ∀ (k : Nat) ρ ω, rhos[k]? = some ρ → vals[k]? = some ω → ω * ω = ρ)
    (h : ((assignRows n c idx o.vecs).bind fun e => sortOrNot sort re im vals e) = Except.ok out) :
    ∀ ω x, (ω, x) ∈ out.vals.zip out.vecs.cols →
      x.length = n ∧ (∀ i < n, dotFrom (Af i) 0 x = ω * ω * dotFrom (Bf i) 0 x) ∧
      (∀ i < n, i ∉ idx → x.getD i 0 = 0) := by
  obtain ⟨e, he, hs⟩ := except_bind_ok _ _ _ h
  intro ω x hmem
  obtain ⟨k, hk1, hk2⟩ := mem_zip_getElem? _ _ _ _ (sort_or_not_subset sort re im vals e out hs _ hmem)
  have hkl : k < rhos.length := by rw [← hvl]; exact getElem?_lt_of_eq_some _ _ _ hk1
  obtain ⟨-, -, w, hw, rfl⟩ := assignRows_col n c idx o.vecs e hrows he k x hk2 (by rw [← hrl]; exact hkl)
  have hρ : rhos[k]? = some rhos[k] := List.getElem?_eq_getElem hkl
  have hsol' := hsol k _ w hρ hw
  rw [← hsq k _ ω hρ hk1] at hsol'
  exact ⟨scatterFrom_length _ _ _ _, pencil_scatter2 Af Bf n idx w _ hp hb hsol' hA hB,
    fun i _ hni => scatterFrom_getD_of_not_mem n _ w 0 i (by simpa using hni)⟩

theorem freq_pairs_aux (n num : Nat) (sparse sort : Bool) (Kc Mc : Coo K) (Kf Mf : Nat → Nat → F)
    (sqrtV : List F → List F) (negInv : F → F) (re im : F → K) (o out : Out F F)
    (hret : (freq n num sparse sort false Kc Mc sqrtV negInv re im (some o)).2 = .ok out)
    (hK : ∀ i, i < n → i ∉ (if sparse then usedCols n Kc else checkCols n Mc) →
      ∀ u ∈ (if sparse then usedCols n Kc else checkCols n Mc), Kf i u = 0)
    (hM : ∀ i, i < n → i ∉ (if sparse then usedCols n Kc else checkCols n Mc) →
      ∀ u ∈ (if sparse then usedCols n Kc else checkCols n Mc), Mf i u = 0)
    (hsolver : if sparse then SolverOK Kf Mf (usedCols n Kc) o
      else SolverOK (fun i j => -Mf i j) Kf (checkCols n Mc) o)
    (hsqrt : ∀ zs, (sqrtV zs).length = zs.length ∧
      ∀ (k : Nat) z ω, zs[k]? = some z → (sqrtV zs)[k]? = some ω → ω * ω = z)
    (hinv : ∀ x ∈ o.vals, negInv x * x = -1) :
    ∀ ω x, (ω, x) ∈ out.vals.zip out.vecs.cols →
      x.length = n ∧ (∀ i < n, dotFrom (Kf i) 0 x = ω * ω * dotFrom (Mf i) 0 x) ∧
      (∀ i < n, i ∉ (if sparse then usedCols n Kc else checkCols n Mc) → x.getD i 0 = 0) := by
  cases sparse with
  | true =>
    simp only [if_true] at hK hM hsolver ⊢
    rw [freq_sparse_eq] at hret
    exact freq_core_pairs n o.vecs.ncols sort Kf Mf (usedCols n Kc) re im o (sqrtV o.vals) o.vals out
      (usedCols_sorted n Kc) (usedCols_lt n Kc) hK hM hsolver.nvals hsolver.rows_eq hsolver.pairs
      (hsqrt o.vals).1 (hsqrt o.vals).2 hret
  | false =>
    simp only [Bool.false_eq_true, if_false] at hK hM hsolver ⊢
    rw [freq_dense_eq] at hret
    have hret' : ((assignRows n (checkCols n Mc).length (checkCols n Mc) o.vecs).bind fun e =>
        sortOrNot sort re im (sqrtV (o.vals.map negInv)) e) = Except.ok out := by
      rw [← hret]
      congr 1
      funext e
      cases sortOrNot sort re im (sqrtV (o.vals.map negInv)) e <;> rfl
    refine freq_core_pairs n _ sort Kf Mf (checkCols n Mc) re im o (sqrtV (o.vals.map negInv))
      (o.vals.map negInv) out (pairwise_lt_filter_range n _) ?_ hK hM
      (by rw [List.length_map]; exact hsolver.nvals) hsolver.rows_eq ?_
      (hsqrt _).1 (hsqrt _).2 hret'
    · intro u hu
      exact List.mem_range.1 (List.mem_of_mem_filter hu)
    · intro k ρ w hρ hw
      rw [List.getElem?_map] at hρ
      obtain ⟨x, hx, rfl⟩ := Option.map_eq_some_iff.1 hρ
      exact pencilSol_of_negInv Kf Mf _ x _ w (hinv x (List.mem_of_getElem? hx)) (hsolver.pairs k x w hx hw)

end pairs

end freqthm

/-! ### the lowest `k` elements of a spectrum, listed ascending, are unique -/

section unique
variable {K : Type} [LinearOrder K]

/-- Two strictly ascending lists of the same length that are both "initial segments" of the same set `S`
(contained in `S`, and containing every element of `S` below one of their members) are equal.  This is why
the sparse and the dense path must return the same values whenever both satisfy their contracts. -/
theorem ascending_lowest_unique_aux : ∀ (l₁ l₂ : List K) (S : K → Prop),
    l₁.Pairwise (· < ·) → l₂.Pairwise (· < ·) → l₁.length = l₂.length →
    (∀ a ∈ l₁, S a) → (∀ a ∈ l₂, S a) →
    (∀ a ∈ l₁, ∀ s, S s → s < a → s ∈ l₁) → (∀ a ∈ l₂, ∀ s, S s → s < a → s ∈ l₂) → l₁ = l₂ := by
  intro l₁
  induction l₁ with
  | nil =>
    intro l₂ S _ _ hl _ _ _ _
    exact (List.length_eq_zero_iff.1 hl.symm).symm
  | cons a t₁ ih =>
    intro l₂ S h₁ h₂ hl hS₁ hS₂ hc₁ hc₂
    cases l₂ with
    | nil => simp at hl
    | cons b t₂ =>
      have h₁' := List.pairwise_cons.1 h₁
      have h₂' := List.pairwise_cons.1 h₂
      have hab : a = b := by
        rcases lt_trichotomy a b with h | h | h
        · have hm := hc₂ b (by simp) a (hS₁ a (by simp)) h
          rcases List.mem_cons.1 hm with rfl | hm'
          · exact absurd h (lt_irrefl _)
          · exact absurd (h₂'.1 a hm') (not_lt.2 h.le)
        · exact h
        · have hm := hc₁ a (by simp) b (hS₂ b (by simp)) h
          rcases List.mem_cons.1 hm with rfl | hm'
          · exact absurd h (lt_irrefl _)
          · exact absurd (h₁'.1 b hm') (not_lt.2 h.le)
      subst hab
      congr 1
      refine ih t₂ (fun s => S s ∧ a < s) h₁'.2 h₂'.2 (by simpa using hl)
        (fun x hx => ⟨hS₁ x (List.mem_cons_of_mem _ hx), h₁'.1 x hx⟩)
        (fun x hx => ⟨hS₂ x (List.mem_cons_of_mem _ hx), h₂'.1 x hx⟩) ?_ ?_
      · intro x hx s hs hsx
        rcases List.mem_cons.1 (hc₁ x (List.mem_cons_of_mem _ hx) s hs.1 hsx) with rfl | h
        · exact absurd hs.2 (lt_irrefl _)
        · exact h
      · intro x hx s hs hsx
        rcases List.mem_cons.1 (hc₂ x (List.mem_cons_of_mem _ hx) s hs.1 hsx) with rfl | h
        · exact absurd hs.2 (lt_irrefl _)
        · exact h

end unique

/-! ### remaining `_aux` statements used by the property files -/

section more
variable {K : Type} [Field K] [DecidableEq K]

theorem removed_iff_null_column_aux (n : Nat) (l : Coo K) (j : Nat) (hj : j < n) :
    j ∉ usedCols n l ↔ ∀ t ∈ l, t.2.1 = j → t.2.2 = 0 := by
  rw [mem_usedCols]
  constructor
  · intro h t ht hc
    by_contra hne
    exact h ⟨hj, t, ht, hc, hne⟩
  · rintro h ⟨-, t, ht, hc, hne⟩
    exact hne (h t ht hc)

theorem dotFrom_smul (s : K) (f : Nat → K) : ∀ (v : List K) (i : Nat),
    dotFrom (fun j => s * f j) i v = s * dotFrom f i v := by
  intro v
  induction v with
  | nil => intro i; simp [dotFrom]
  | cons x xs ih => intro i; simp only [dotFrom, ih]; ring

/-- `M ↦ s·M` divides `ω²` by `s`, i.e. scales `ω` by `1/√s` (same mode) -/
theorem freq_scale_mass_aux (Kf Mf : Nat → Nat → K) (s om om' : K)
    (hom : om' * om' * s = om * om) (v : List K) (i : Nat)
    (h : dotFrom (Kf i) 0 v = om * om * dotFrom (Mf i) 0 v) :
    dotFrom (Kf i) 0 v = om' * om' * dotFrom (fun j => s * Mf i j) 0 v := by
  rw [dotFrom_smul, h, ← hom]; ring

end more

/-! ### kernel-checked counter-examples to the full statements -/

section cex

/-- `K = diag(1,…,1)` with `n` active amplitudes and null rows/columns at the positions in `nulls` -/
def cexDiag (n : Nat) (nulls : List Nat) : Coo ℚ :=
  ((List.range n).filter fun i => !nulls.contains i).map fun i => (i, i, 1)

def cexBlock (r c : Nat) : Block ℚ := ⟨r, List.replicate c (List.replicate r 1)⟩

/-- regression instances of the repaired defects (they raised shape mismatches before /repo 3692045):
dense `lb`, 6 active amplitudes, default 25 requested: 6 modes returned; sparse fallback, 8 amplitudes one
null, default 25: the 6 delivered columns are returned -/
theorem lb_repaired_instances :
    ((lb 6 25 true false (cexDiag 6 []) (some ⟨List.replicate 6 (-1), cexBlock 6 6⟩) none).2.toOption.map
      fun r => r.vecs.shape) = some (6, 6) ∧
    ((lb 8 25 true true (cexDiag 8 [3]) none (some ⟨List.replicate 6 (-1), cexBlock 7 6⟩)).2.toOption.map
      fun r => r.vecs.shape) = some (8, 6) ∧
    (lb 8 6 true true (cexDiag 8 [2, 3]) none none).1.map (·.k) = [some 6, some 5] :=
  ⟨by decide +kernel, by decide +kernel, by decide +kernel⟩

def cexOmega : List ℚ := [1004 / 100, 1001 / 100, 3, 7, 20, 15]
def cexK : Coo ℚ := (List.range 6).map fun i => (i, i, (cexOmega.getD i 0) * (cexOmega.getD i 0))
def cexM : Coo ℚ := (List.range 6).map fun i => (i, i, 1)
/-- identity block: the eigenvectors of a diagonal pencil -/
def cexEye : Block ℚ := ⟨6, (List.range 6).map fun c => (List.range 6).map fun i => if i = c then 1 else 0⟩
/-- what `eig(-M, K)` returns: `x = -1/ω²` and the unit vectors -/
def cexRes : Out ℚ ℚ := ⟨cexOmega.map fun w => -1 / (w * w), cexEye⟩

theorem freq_ascending_cex :
    (freq 6 25 false true false cexK cexM (fun _ => cexOmega) (fun x => -1 / x) id (fun _ => 0) (some cexRes)).2
      = .ok ⟨[3, 7, 1004 / 100, 1001 / 100, 15, 20],
          ⟨6, [2, 3, 0, 1, 5, 4].map fun c => (List.range 6).map fun i => if i = c then 1 else 0⟩⟩ ∧
    (cexRes.vals.map fun x => -1 / x) = cexOmega.map (fun w => w * w) ∧
    ¬ ([3, 7, 1004 / 100, 1001 / 100, 15, 20] : List ℚ).Pairwise (· ≤ ·) := by
  refine ⟨by decide +kernel, by decide +kernel, by decide +kernel⟩

/-- regression instance: sparse `freq`, 6 amplitudes, default 25 requested: `k = 4`, the 6×4 block is
returned (raised a shape mismatch before /repo 3692045) -/
theorem freq_repaired_instance :
    ((freq 6 25 true true false cexK cexM (fun zs => zs) (fun x => -1 / x) id (fun _ => 0)
      (some ⟨[9, 49, 100, 225], cexBlock 6 4⟩)).2.toOption.map fun r => (r.vecs.shape, r.vals)) =
      some ((6, 4), [9, 49, 100, 225]) := by
  decide +kernel

end cex

/-- `rint` stays within half a unit of its argument -/
theorem rint_near {K : Type} [Field K] [LinearOrder K] [IsStrictOrderedRing K] [FloorRing K] (x : K) :
    x - 1 / 2 ≤ (rint x : K) ∧ (rint x : K) ≤ x + 1 / 2 := by
  have h1 := Int.floor_le x
  have h2 := Int.lt_floor_add_one x
  unfold rint
  simp only
  split_ifs <;> push_cast <;> constructor <;> linarith

end Compmech.EigPost
