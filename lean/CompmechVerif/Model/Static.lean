/-
Hand-written models of
  * `Panel.calc_fext` (`_panel.py`): point forces through the shape-function rows `g` of `fg`, constant
    forces unscaled, incrementable forces × `inc`, placed at `col0` inside a vector of length `size`;
  * `PanelAssembly.calc_fext`: sum of the panels' placed vectors;
  * `compmech.sparse.solve`: `remove_null_cols` (columns with a stored non-zero), `spsolve` on the reduced
    system (a PARAMETER: the solver's answer `px`), scatter `x[used_cols] = px`.
Vectors are functions `ℕ → K` read on `[0, size)`.
-/
import Mathlib.Algebra.BigOperators.Group.Finset.Basic
import Mathlib.Algebra.Field.Defs
import Mathlib.Data.Fintype.Basic

namespace Compmech.Static
open Finset

variable {K : Type} [Field K]

/-- one point force: its three components and the three shape-function rows `g[a, ·]` at its position
(length = the panel's own size) -/
structure Force (K : Type) where
  f : Fin 3 → K
  g : Fin 3 → ℕ → K

/-- `fpt.dot(g).ravel()[k]` -/
def Force.at (F : Force K) (k : ℕ) : K := ∑ a : Fin 3, F.f a * F.g a k

/-- the panel-local external force vector -/
def panelFext (forces forcesInc : List (Force K)) (inc : K) (k : ℕ) : K :=
  (forces.map fun F => F.at k).sum + (forcesInc.map fun F => inc * F.at k).sum

/-- `fext[col0:col1] += v` inside a zero vector -/
def placed (col0 n : ℕ) (v : ℕ → K) (k : ℕ) : K :=
  if col0 ≤ k ∧ k < col0 + n then v (k - col0) else 0

/-- `Panel.calc_fext(inc, size, col0)` -/
def calcFext (forces forcesInc : List (Force K)) (inc : K) (col0 n : ℕ) : ℕ → K :=
  placed col0 n (panelFext forces forcesInc inc)

/-- a panel of an assembly: its range and its forces -/
structure PanelLoads (K : Type) where
  col0 : ℕ
  n : ℕ
  forces : List (Force K)
  forcesInc : List (Force K)

/-- `PanelAssembly.calc_fext(inc)` -/
def assemblyFext (ps : List (PanelLoads K)) (inc : K) (k : ℕ) : K :=
  (ps.map fun p => calcFext p.forces p.forcesInc inc p.col0 p.n k).sum

/-- the displacement component `a` that the series reports at the force position for amplitudes `c`
(C11: the rows of `g` are the amplitude-derivatives of the series) -/
def Force.disp (F : Force K) (a : Fin 3) (col0 n : ℕ) (c : ℕ → K) : K :=
  ∑ j ∈ range n, F.g a j * c (col0 + j)

/-- virtual work of one force -/
def Force.work (F : Force K) (col0 n : ℕ) (c : ℕ → K) : K := ∑ a : Fin 3, F.f a * F.disp a col0 n c

/-! ### `sparse.solve` -/

/-- `x = zeros(size); x[used_cols] = px` -/
def scatter (used : List ℕ) (px : ℕ → K) (k : ℕ) : K :=
  match used.idxOf? k with
  | some s => px s
  | none => 0

end Compmech.Static
