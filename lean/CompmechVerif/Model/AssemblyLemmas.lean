/-
Helper lemmas about `Model/Assembly.lean`.  The property theorems of `Props/C13.lean` are the `*_aux`
lemmas of this file.
-/
import CompmechVerif.Model.Assembly
import Mathlib.Algebra.BigOperators.Group.List.Basic
import Mathlib.Algebra.Order.Group.Nat
import Mathlib.Data.List.Basic
import Mathlib.Data.List.GetD
import Mathlib.Tactic.Ring
import Mathlib.Tactic.Linarith

namespace Compmech.Asm

variable {K : Type} [Field K]

set_option linter.unusedSectionVars false

/-! ### COO semantics -/

@[simp] theorem toFun_nil (i j : Nat) : toFun ([] : Coo K) i j = 0 := rfl

theorem toFun_cons (e : Nat × Nat × K) (l : Coo K) (i j : Nat) :
    toFun (e :: l) i j = (if e.1 = i ∧ e.2.1 = j then e.2.2 else 0) + toFun l i j := by
  simp [toFun]

theorem toFun_append (a b : Coo K) (i j : Nat) : toFun (a ++ b) i j = toFun a i j + toFun b i j := by
  simp [toFun]

theorem toFun_flatten (ls : List (Coo K)) (i j : Nat) :
    toFun ls.flatten i j = (ls.map fun l => toFun l i j).sum := by
  induction ls with
  | nil => simp
  | cons a t ih => simp [toFun_append, ih]

theorem toFun_shift (r0 c0 : Nat) (l : Coo K) (i j : Nat) :
    toFun (shift r0 c0 l) i j = if r0 ≤ i ∧ c0 ≤ j then toFun l (i - r0) (j - c0) else 0 := by
  induction l with
  | nil => simp [shift]
  | cons e t ih =>
    have h : shift r0 c0 (e :: t) = (r0 + e.1, c0 + e.2.1, e.2.2) :: shift r0 c0 t := rfl
    rw [h, toFun_cons, ih]
    by_cases hc : r0 ≤ i ∧ c0 ≤ j
    · rw [if_pos hc, if_pos hc, toFun_cons]
      congr 1
      have : (r0 + e.1 = i ∧ c0 + e.2.1 = j) ↔ (e.1 = i - r0 ∧ e.2.1 = j - c0) := by omega
      simp only [this]
    · rw [if_neg hc, if_neg hc]
      have : ¬ (r0 + e.1 = i ∧ c0 + e.2.1 = j) := by omega
      simp [this]

theorem toFun_transpose (l : Coo K) (i j : Nat) : toFun (transpose l) i j = toFun l j i := by
  induction l with
  | nil => simp [transpose]
  | cons e t ih =>
    have h : transpose (e :: t) = (e.2.1, e.1, e.2.2) :: transpose t := rfl
    rw [h, toFun_cons, toFun_cons, ih]
    congr 1
    have : (e.2.1 = i ∧ e.1 = j) ↔ (e.1 = j ∧ e.2.1 = i) := by constructor <;> (intro h; exact ⟨h.2, h.1⟩)
    simp only [this]

theorem toFun_filter_upper (l : Coo K) (i j : Nat) :
    toFun (l.filter fun e => decide (e.1 ≤ e.2.1)) i j = if i ≤ j then toFun l i j else 0 := by
  induction l with
  | nil => simp
  | cons e t ih =>
    by_cases he : e.1 ≤ e.2.1
    · rw [List.filter_cons_of_pos (by simpa using he), toFun_cons, ih, toFun_cons]
      by_cases hij : i ≤ j
      · simp [hij]
      · have : ¬ (e.1 = i ∧ e.2.1 = j) := by omega
        simp [hij, this]
    · rw [List.filter_cons_of_neg (by simpa using he), ih, toFun_cons]
      by_cases hij : i ≤ j
      · have : ¬ (e.1 = i ∧ e.2.1 = j) := by omega
        simp [hij, this]
      · simp [hij]

/-- the mirrored copy of an all-upper list -/
theorem toFun_mirror (u : Coo K) (hu : ∀ e ∈ u, e.1 ≤ e.2.1) (i j : Nat) :
    toFun (u.map fun e => if e.1 < e.2.1 then (e.2.1, e.1, e.2.2) else ((0, 0, 0) : Nat × Nat × K)) i j =
      if j < i then toFun u j i else 0 := by
  induction u with
  | nil => simp
  | cons e t ih =>
    have ht : ∀ e ∈ t, e.1 ≤ e.2.1 := fun x hx => hu x (List.mem_cons_of_mem _ hx)
    have he : e.1 ≤ e.2.1 := hu e List.mem_cons_self
    rw [List.map_cons, toFun_cons, ih ht]
    by_cases hlt : e.1 < e.2.1
    · simp only [if_pos hlt]
      by_cases hji : j < i
      · rw [if_pos hji, if_pos hji, toFun_cons]
        congr 1
        have : (e.2.1 = i ∧ e.1 = j) ↔ (e.1 = j ∧ e.2.1 = i) := by
          constructor <;> (intro h; exact ⟨h.2, h.1⟩)
        simp only [this]
      · rw [if_neg hji, if_neg hji]
        have : ¬ (e.2.1 = i ∧ e.1 = j) := by omega
        simp [this]
    · simp only [if_neg hlt]
      by_cases hji : j < i
      · rw [if_pos hji, if_pos hji, toFun_cons]
        have : ¬ (e.1 = j ∧ e.2.1 = i) := by omega
        simp [this]
      · rw [if_neg hji, if_neg hji]
        simp

theorem toFun_makeSymmetric (l : Coo K) (i j : Nat) :
    toFun (makeSymmetric l) i j = if i ≤ j then toFun l i j else toFun l j i := by
  unfold makeSymmetric
  simp only
  rw [toFun_append, toFun_mirror _ (by intro e he; simpa using (List.mem_filter.mp he).2),
    toFun_filter_upper, toFun_filter_upper]
  by_cases hij : i ≤ j
  · have : ¬ j < i := by omega
    simp [hij, this]
  · have h1 : j < i := by omega
    have h2 : j ≤ i := by omega
    simp [hij, h1, h2]

theorem toFun_makeSymmetric_symm (l : Coo K) (i j : Nat) :
    toFun (makeSymmetric l) i j = toFun (makeSymmetric l) j i := by
  rw [toFun_makeSymmetric, toFun_makeSymmetric]
  by_cases h1 : i ≤ j <;> by_cases h2 : j ≤ i
  · have : i = j := by omega
    subst this; simp
  · simp [h1, h2]
  · simp [h1, h2]
  · omega

/-- what one kernel call contributes -/
def Block.fn (b : Block K) (i j : Nat) : K :=
  if b.row0 ≤ i ∧ b.col0 ≤ j then toFun b.coo (i - b.row0) (j - b.col0) else 0

theorem toFun_placeAll (bs : List (Block K)) (i j : Nat) :
    toFun (placeAll bs) i j = (bs.map fun b => b.fn i j).sum := by
  induction bs with
  | nil => simp [placeAll]
  | cons b t ih =>
    have : placeAll (b :: t) = b.placed ++ placeAll t := by simp [placeAll]
    rw [this, toFun_append, ih, List.map_cons, List.sum_cons]
    congr 1
    exact toFun_shift _ _ _ _ _

omit [Field K] in
theorem placeAll_append (a b : List (Block K)) : placeAll (a ++ b) = placeAll a ++ placeAll b := by
  simp [placeAll]

/-- a local matrix that only has entries with `row < nr`, `col < nc` -/
def Within (nr nc : Nat) (l : Coo K) : Prop := ∀ e ∈ l, e.1 < nr ∧ e.2.1 < nc

theorem toFun_eq_zero_of_within {nr nc : Nat} {l : Coo K} (h : Within nr nc l) (i j : Nat)
    (hij : nr ≤ i ∨ nc ≤ j) : toFun l i j = 0 := by
  induction l with
  | nil => simp
  | cons e t ih =>
    rw [toFun_cons, ih (fun x hx => h x (List.mem_cons_of_mem _ hx))]
    have := h e List.mem_cons_self
    have : ¬ (e.1 = i ∧ e.2.1 = j) := by omega
    simp [this]

/-- a block only touches `[row0, row0+nr) × [col0, col0+nc)` -/
theorem Block.fn_support (b : Block K) {nr nc : Nat} (h : Within nr nc b.coo) (i j : Nat)
    (hij : ¬ (b.row0 ≤ i ∧ i < b.row0 + nr ∧ b.col0 ≤ j ∧ j < b.col0 + nc)) : b.fn i j = 0 := by
  unfold Block.fn
  by_cases hc : b.row0 ≤ i ∧ b.col0 ≤ j
  · rw [if_pos hc]
    apply toFun_eq_zero_of_within h
    omega
  · rw [if_neg hc]

/-! ### prefix sums: ranges tile -/

/-- start of range `k` -/
def startOf (sizes : List Nat) (k : Nat) : Nat := (sizes.take k).sum

theorem startOf_zero (sizes : List Nat) : startOf sizes 0 = 0 := by simp [startOf]

theorem startOf_succ (sizes : List Nat) (k : Nat) (hk : k < sizes.length) :
    startOf sizes (k + 1) = startOf sizes k + sizes[k] := by
  unfold startOf
  rw [List.take_succ_eq_append_getElem hk, List.sum_append]
  simp

theorem startOf_length (sizes : List Nat) : startOf sizes sizes.length = sizes.sum := by
  simp [startOf]

theorem startOf_mono (sizes : List Nat) {a b : Nat} (h : a ≤ b) : startOf sizes a ≤ startOf sizes b := by
  induction b with
  | zero =>
    have : a = 0 := by omega
    subst this; exact le_refl _
  | succ b ih =>
    by_cases hab : a = b + 1
    · subst hab; exact le_refl _
    · have h1 : a ≤ b := by omega
      refine le_trans (ih h1) ?_
      by_cases hb : b < sizes.length
      · rw [startOf_succ _ _ hb]; omega
      · unfold startOf
        rw [List.take_of_length_le (by omega), List.take_of_length_le (by omega)]

theorem ranges_tile_general (sizes : List Nat) :
    startOf sizes 0 = 0 ∧
    (∀ k (hk : k < sizes.length), startOf sizes (k + 1) = startOf sizes k + sizes[k]) ∧
    startOf sizes sizes.length = sizes.sum ∧
    (∀ a b (hb : b < sizes.length) (hab : a < b), startOf sizes a + sizes[a]'(by omega) ≤ startOf sizes b) := by
  refine ⟨startOf_zero _, startOf_succ _, startOf_length _, ?_⟩
  intro a b hb hab
  rw [← startOf_succ sizes a (by omega)]
  exact startOf_mono sizes (by omega)

/-! ### PanelAssembly.__init__ -/

def panelSizes (ps : List (Nat × Nat)) : List Nat := ps.map fun p => 3 * p.1 * p.2

theorem getSize_eq (ps : List (Nat × Nat)) : getSize ps = (panelSizes ps).sum := rfl

theorem initLoop_length (ps : List (Nat × Nat)) (r c : Nat) : (initLoop ps r c).length = ps.length := by
  induction ps generalizing r c with
  | nil => rfl
  | cons p t ih => simp [initLoop, ih]

theorem initLoop_getElem (ps : List (Nat × Nat)) (r c k : Nat) (hk : k < ps.length) :
    (initLoop ps r c)[k]'(by rw [initLoop_length]; exact hk) =
      ⟨r + startOf (panelSizes ps) k, c + startOf (panelSizes ps) k,
       r + startOf (panelSizes ps) k + 3 * ps[k].1 * ps[k].2,
       c + startOf (panelSizes ps) k + 3 * ps[k].1 * ps[k].2⟩ := by
  induction ps generalizing r c k with
  | nil => simp at hk
  | cons p t ih =>
    cases k with
    | zero => simp [initLoop, startOf]
    | succ k =>
      have hk' : k < t.length := by simpa using hk
      simp only [initLoop, List.getElem_cons_succ]
      rw [ih _ _ k hk']
      simp only [panelSizes, startOf, List.map_cons, List.take_succ_cons, List.sum_cons]
      congr 1 <;> omega

theorem init_length (ps : List (Nat × Nat)) : (init ps).length = ps.length := initLoop_length ps 0 0

theorem init_getElem (ps : List (Nat × Nat)) (k : Nat) (hk : k < ps.length) :
    (init ps)[k]'(by rw [init_length]; exact hk) =
      ⟨startOf (panelSizes ps) k, startOf (panelSizes ps) k,
       startOf (panelSizes ps) k + 3 * ps[k].1 * ps[k].2,
       startOf (panelSizes ps) k + 3 * ps[k].1 * ps[k].2⟩ := by
  have := initLoop_getElem ps 0 0 k hk
  simpa [init] using this

/-! ### PanelAssembly: ranges, size, placement -/

theorem init_getD (ps : List (Nat × Nat)) (k : Nat) (hk : k < ps.length) :
    (init ps).getD k default =
      ⟨startOf (panelSizes ps) k, startOf (panelSizes ps) k,
       startOf (panelSizes ps) k + 3 * (ps.getD k (0, 0)).1 * (ps.getD k (0, 0)).2,
       startOf (panelSizes ps) k + 3 * (ps.getD k (0, 0)).1 * (ps.getD k (0, 0)).2⟩ := by
  rw [List.getD_eq_getElem _ _ (by rw [init_length]; exact hk), List.getD_eq_getElem _ _ hk]
  exact init_getElem ps k hk

theorem panelSizes_length (ps : List (Nat × Nat)) : (panelSizes ps).length = ps.length := by
  simp [panelSizes]

theorem panelSizes_getElem (ps : List (Nat × Nat)) (k : Nat) (hk : k < ps.length) :
    (panelSizes ps)[k]'(by rw [panelSizes_length]; exact hk) = 3 * (ps.getD k (0, 0)).1 * (ps.getD k (0, 0)).2 := by
  rw [List.getD_eq_getElem _ _ hk]
  simp [panelSizes]

theorem ranges_tile_aux (ps : List (Nat × Nat)) :
    (init ps).length = ps.length ∧
    (∀ k, k < ps.length →
      ((init ps).getD k default).colStart = ((init ps).getD k default).rowStart ∧
      ((init ps).getD k default).colEnd = ((init ps).getD k default).rowEnd ∧
      ((init ps).getD k default).rowEnd =
        ((init ps).getD k default).rowStart + 3 * (ps.getD k (0, 0)).1 * (ps.getD k (0, 0)).2) ∧
    (0 < ps.length → ((init ps).getD 0 default).rowStart = 0) ∧
    (∀ k, k + 1 < ps.length → ((init ps).getD (k + 1) default).rowStart = ((init ps).getD k default).rowEnd) ∧
    (0 < ps.length → ((init ps).getD (ps.length - 1) default).rowEnd = getSize ps) ∧
    (∀ a b, a < b → b < ps.length → ((init ps).getD a default).rowEnd ≤ ((init ps).getD b default).rowStart) := by
  have hl := panelSizes_length ps
  refine ⟨init_length ps, ?_, ?_, ?_, ?_, ?_⟩
  · intro k hk
    rw [init_getD ps k hk]
    exact ⟨rfl, rfl, rfl⟩
  · intro h
    rw [init_getD ps 0 h]
    exact startOf_zero (panelSizes ps)
  · intro k hk
    rw [init_getD ps (k + 1) hk, init_getD ps k (by omega)]
    simp only
    rw [startOf_succ _ _ (by omega), panelSizes_getElem ps k (by omega)]
  · intro h
    rw [init_getD ps _ (by omega)]
    simp only
    rw [← panelSizes_getElem ps (ps.length - 1) (by omega), ← startOf_succ _ _ (by omega), getSize_eq,
      ← startOf_length]
    congr 1
    omega
  · intro a b hab hb
    rw [init_getD ps a (by omega), init_getD ps b hb]
    simp only
    rw [← panelSizes_getElem ps a (by omega), ← startOf_succ _ _ (by omega)]
    exact startOf_mono _ (by omega)

theorem initLoop_sum (ps : List (Nat × Nat)) (r c : Nat) :
    ((initLoop ps r c).map fun s => s.rowEnd - s.rowStart).sum = (ps.map fun p => 3 * p.1 * p.2).sum := by
  induction ps generalizing r c with
  | nil => rfl
  | cons p t ih =>
    simp only [List.map_cons, List.sum_cons, initLoop]
    rw [ih]
    omega

theorem size_eq_sum_aux (ps : List (Nat × Nat)) :
    getSize ps = ((init ps).map fun s => s.rowEnd - s.rowStart).sum ∧
    getSize ps = (ps.map fun p => 3 * p.1 * p.2).sum :=
  ⟨(initLoop_sum ps 0 0).symm, rfl⟩

/-- the contribution of a local matrix `l` written at `(r0, c0)` -/
def placedAt (r0 c0 : Nat) (l : Coo K) (i j : Nat) : K :=
  if r0 ≤ i ∧ c0 ≤ j then toFun l (i - r0) (j - c0) else 0

theorem panelBlocks_sum (ps : List (Nat × Nat)) (comps : List (Coo K)) (h : comps.length = ps.length)
    (i j : Nat) :
    ((panelBlocks ps comps).map fun b => b.fn i j).sum =
      ((List.range ps.length).map fun k =>
        placedAt (startOf (panelSizes ps) k) (startOf (panelSizes ps) k) (comps.getD k []) i j).sum := by
  congr 1
  apply List.ext_getElem
  · simp [panelBlocks, init_length, h]
  · intro k h1 h2
    have hk : k < ps.length := by simpa using h2
    simp only [panelBlocks, List.getElem_map, List.getElem_zipWith, List.getElem_range]
    rw [init_getElem ps k hk, List.getD_eq_getElem _ _ (by omega)]
    rfl

theorem assembly_eq_sum_of_placed_aux (ps : List (Nat × Nat)) (comps : List (Coo K))
    (conns : List (Conn K)) (h : comps.length = ps.length) (i j : Nat) :
    toFun (calcK0 true ps comps conns) i j =
      (if i ≤ j then
        ((List.range ps.length).map fun k =>
          placedAt (startOf (panelSizes ps) k) (startOf (panelSizes ps) k) (comps.getD k []) i j).sum
        + ((connAllBlocks ps conns).map fun b => b.fn i j).sum
      else
        ((List.range ps.length).map fun k =>
          placedAt (startOf (panelSizes ps) k) (startOf (panelSizes ps) k) (comps.getD k []) j i).sum
        + ((connAllBlocks ps conns).map fun b => b.fn j i).sum) := by
  unfold calcK0 calcNoConn k0Conn finalize
  simp only [if_true]
  rw [toFun_append, toFun_makeSymmetric, toFun_makeSymmetric]
  by_cases hij : i ≤ j
  · simp only [if_pos hij]
    rw [toFun_placeAll, toFun_placeAll, panelBlocks_sum ps comps h]
  · simp only [if_neg hij]
    rw [toFun_placeAll, toFun_placeAll, panelBlocks_sum ps comps h]

theorem assembly_noconn_eq_sum_of_placed_aux (ps : List (Nat × Nat)) (comps : List (Coo K))
    (h : comps.length = ps.length) (i j : Nat) :
    toFun (calcNoConn true ps comps) i j =
      (if i ≤ j then
        ((List.range ps.length).map fun k =>
          placedAt (startOf (panelSizes ps) k) (startOf (panelSizes ps) k) (comps.getD k []) i j).sum
      else
        ((List.range ps.length).map fun k =>
          placedAt (startOf (panelSizes ps) k) (startOf (panelSizes ps) k) (comps.getD k []) j i).sum) := by
  unfold calcNoConn finalize
  simp only [if_true]
  rw [toFun_makeSymmetric]
  by_cases hij : i ≤ j
  · simp only [if_pos hij]
    rw [toFun_placeAll, panelBlocks_sum ps comps h]
  · simp only [if_neg hij]
    rw [toFun_placeAll, panelBlocks_sum ps comps h]

theorem assembly_unfinalized_aux (ps : List (Nat × Nat)) (comps : List (Coo K))
    (h : comps.length = ps.length) (i j : Nat) :
    toFun (calcNoConn false ps comps) i j =
      ((List.range ps.length).map fun k =>
        placedAt (startOf (panelSizes ps) k) (startOf (panelSizes ps) k) (comps.getD k []) i j).sum := by
  unfold calcNoConn
  simp only [Bool.false_eq_true, if_false]
  rw [toFun_placeAll, panelBlocks_sum ps comps h]

/-- a panel's own matrix (entries below `3 m n`) only touches its own diagonal block -/
theorem placedAt_support (s n : Nat) (l : Coo K) (h : Within n n l) (i j : Nat)
    (hij : ¬ (s ≤ i ∧ i < s + n ∧ s ≤ j ∧ j < s + n)) : placedAt s s l i j = 0 := by
  have := Block.fn_support (⟨0, s, s, l⟩ : Block K) h i j hij
  exact this

omit [Field K] in
/-- where `get_k0_conn` writes the three blocks of a connection -/
theorem conn_blocks_aux (ps : List (Nat × Nat)) (c : Conn K) (h1 : c.p1 < ps.length) (h2 : c.p2 < ps.length) :
    connBlocks (init ps) c =
      [⟨tagC11, startOf (panelSizes ps) c.p1, startOf (panelSizes ps) c.p1, c.k11⟩,
       if startOf (panelSizes ps) c.p2 < startOf (panelSizes ps) c.p1 then
         ⟨tagC12, startOf (panelSizes ps) c.p2, startOf (panelSizes ps) c.p1, transpose c.k12⟩
       else ⟨tagC12, startOf (panelSizes ps) c.p1, startOf (panelSizes ps) c.p2, c.k12⟩,
       ⟨tagC22, startOf (panelSizes ps) c.p2, startOf (panelSizes ps) c.p2, c.k22⟩] := by
  unfold connBlocks
  simp only [init_getD ps _ h1, init_getD ps _ h2, gt_iff_lt]

omit [Field K] in
/-- the coupling block always lands on or above the block diagonal, whatever the order of the panels -/
theorem conn12_upper_aux (ps : List (Nat × Nat)) (c : Conn K) :
    ∀ b ∈ connBlocks (init ps) c, b.tag = tagC12 → b.row0 ≤ b.col0 := by
  intro b hb ht
  unfold connBlocks at hb
  simp only [List.mem_cons, List.not_mem_nil, or_false] at hb
  rcases hb with rfl | rfl | rfl
  · simp [tagC11, tagC12] at ht
  · split
    · simp only; omega
    · simp only; omega
  · simp [tagC22, tagC12] at ht

omit [Field K] in
theorem range_unique (sizes : List Nat) (a b x : Nat) (ha : a < sizes.length) (hb : b < sizes.length)
    (hxa : startOf sizes a ≤ x ∧ x < startOf sizes a + sizes[a])
    (hxb : startOf sizes b ≤ x ∧ x < startOf sizes b + sizes[b]) : a = b := by
  have ht := (ranges_tile_general sizes).2.2.2
  rcases Nat.lt_trichotomy a b with h | h | h
  · have := ht a b hb h; omega
  · exact h
  · have := ht b a ha h; omega

/-- without connections the assembled matrix is block diagonal: an entry whose row lies in the range of panel `p`
and whose column lies in the range of another panel `q` is zero -/
theorem assembly_block_diagonal_aux (ps : List (Nat × Nat)) (comps : List (Coo K))
    (h : comps.length = ps.length)
    (hw : ∀ k (hk : k < ps.length), Within (3 * ps[k].1 * ps[k].2) (3 * ps[k].1 * ps[k].2) (comps.getD k []))
    (p q : Nat) (hp : p < ps.length) (hq : q < ps.length) (hpq : p ≠ q) (i j : Nat)
    (hi : startOf (panelSizes ps) p ≤ i ∧ i < startOf (panelSizes ps) p + 3 * ps[p].1 * ps[p].2)
    (hj : startOf (panelSizes ps) q ≤ j ∧ j < startOf (panelSizes ps) q + 3 * ps[q].1 * ps[q].2) :
    toFun (calcNoConn true ps comps) i j = 0 := by
  have hl := panelSizes_length ps
  have hsz : ∀ k (hk : k < ps.length), (panelSizes ps)[k]'(by omega) = 3 * ps[k].1 * ps[k].2 := by
    intro k hk; simp [panelSizes]
  have key : ∀ k, k < ps.length → ∀ x y,
      (startOf (panelSizes ps) p ≤ x ∧ x < startOf (panelSizes ps) p + 3 * ps[p].1 * ps[p].2) →
      (startOf (panelSizes ps) q ≤ y ∧ y < startOf (panelSizes ps) q + 3 * ps[q].1 * ps[q].2) →
      placedAt (startOf (panelSizes ps) k) (startOf (panelSizes ps) k) (comps.getD k []) x y = 0 ∧
      placedAt (startOf (panelSizes ps) k) (startOf (panelSizes ps) k) (comps.getD k []) y x = 0 := by
    intro k hk x y hx hy
    have hne : ¬ ((startOf (panelSizes ps) k ≤ x ∧ x < startOf (panelSizes ps) k + 3 * ps[k].1 * ps[k].2) ∧
        (startOf (panelSizes ps) k ≤ y ∧ y < startOf (panelSizes ps) k + 3 * ps[k].1 * ps[k].2)) := by
      rintro ⟨h1, h2⟩
      have e1 : k = p := range_unique (panelSizes ps) k p x (by omega) (by omega)
        (by rw [hsz k hk]; exact h1) (by rw [hsz p hp]; exact hx)
      have e2 : k = q := range_unique (panelSizes ps) k q y (by omega) (by omega)
        (by rw [hsz k hk]; exact h2) (by rw [hsz q hq]; exact hy)
      exact hpq (e1.symm.trans e2)
    constructor
    · apply placedAt_support _ _ _ (hw k hk)
      intro hc; exact hne ⟨⟨hc.1, hc.2.1⟩, ⟨hc.2.2.1, hc.2.2.2⟩⟩
    · apply placedAt_support _ _ _ (hw k hk)
      intro hc; exact hne ⟨⟨hc.2.2.1, hc.2.2.2⟩, ⟨hc.1, hc.2.1⟩⟩
  rw [assembly_noconn_eq_sum_of_placed_aux ps comps h]
  split
  · apply List.sum_eq_zero
    intro v hv
    obtain ⟨k, hk, rfl⟩ := List.mem_map.mp hv
    exact (key k (by simpa using hk) i j hi hj).1
  · apply List.sum_eq_zero
    intro v hv
    obtain ⟨k, hk, rfl⟩ := List.mem_map.mp hv
    exact (key k (by simpa using hk) i j hi hj).2

/-! ### force vectors -/

theorem placeVec_sum (vs : List (List K)) (off i : Nat) :
    ((List.range vs.length).map fun k =>
      placeVec (off + startOf (vs.map List.length) k) (vs.getD k []) i).sum =
      if off ≤ i then vs.flatten.getD (i - off) 0 else 0 := by
  induction vs generalizing off with
  | nil => simp
  | cons v t ih =>
    rw [List.length_cons, List.range_succ_eq_map, List.map_cons, List.sum_cons, List.map_map]
    have hrest : (List.map ((fun k => placeVec (off + startOf (List.map List.length (v :: t)) k)
        ((v :: t).getD k []) i) ∘ Nat.succ) (List.range t.length)) =
        (List.range t.length).map fun k =>
          placeVec ((off + v.length) + startOf (t.map List.length) k) (t.getD k []) i := by
      apply List.map_congr_left
      intro k _
      simp only [Function.comp, startOf, List.map_cons, Nat.succ_eq_add_one, List.take_succ_cons,
        List.sum_cons, List.getD_cons_succ]
      congr 1
      omega
    rw [hrest, ih (off + v.length)]
    simp only [startOf, List.take_zero, List.sum_nil, Nat.add_zero, List.getD_cons_zero, List.flatten_cons]
    unfold placeVec
    by_cases h1 : off ≤ i
    · simp only [if_pos h1]
      by_cases h2 : i - off < v.length
      · have h3 : ¬ off + v.length ≤ i := by omega
        rw [if_neg h3, List.getD_append _ _ _ _ h2]
        simp
      · have h3 : off + v.length ≤ i := by omega
        rw [if_pos h3, List.getD_append_right _ _ _ _ (by omega), List.getD_eq_default _ _ (by omega)]
        simp only [zero_add]
        congr 1
        omega
    · have h3 : ¬ off + v.length ≤ i := by omega
      simp [h1, h3]

theorem calcFextAt_eq (ps : List (Nat × Nat)) (vs : List (List K))
    (h : vs.map List.length = panelSizes ps) (i : Nat) :
    calcFextAt ps vs i = vs.flatten.getD i 0 := by
  have hl : vs.length = ps.length := by
    have := congrArg List.length h
    simpa [panelSizes] using this
  have : calcFextAt ps vs i = ((List.range vs.length).map fun k =>
      placeVec (0 + startOf (vs.map List.length) k) (vs.getD k []) i).sum := by
    unfold calcFextAt
    congr 1
    apply List.ext_getElem
    · simp [init_length, hl]
    · intro k h1 h2
      have hk : k < ps.length := by
        have : k < vs.length := by simpa using h2
        omega
      simp only [List.getElem_zipWith, List.getElem_map, List.getElem_range]
      rw [init_getElem ps k hk, List.getD_eq_getElem _ _ (by omega), h]
      simp
  rw [this, placeVec_sum]
  simp

theorem fext_concat_aux (ps : List (Nat × Nat)) (vs : List (List K))
    (h : vs.map List.length = panelSizes ps) : calcFext ps vs = vs.flatten := by
  have hlen : vs.flatten.length = getSize ps := by
    rw [List.length_flatten, h, getSize_eq]
  apply List.ext_getElem
  · simp [calcFext, hlen]
  · intro k h1 h2
    simp only [calcFext, List.getElem_map, List.getElem_range]
    rw [calcFextAt_eq ps vs h, List.getD_eq_getElem _ _ h2]

theorem fint_aux (ps : List (Nat × Nat)) (vs : List (List K)) (conns : List (Conn K)) (c : List K)
    (h : vs.map List.length = panelSizes ps) (i : Nat) (hi : i < getSize ps) :
    (calcFint ps vs conns c).getD i 0 = vs.flatten.getD i 0 + mulVecAt (k0Conn ps conns) c i := by
  rw [List.getD_eq_getElem _ _ (by simp [calcFint, hi])]
  simp only [calcFint, List.getElem_map, List.getElem_range]
  rw [calcFextAt_eq ps vs h]

/-- a piece of a concatenation sits at its prefix-sum offset -/
theorem flatten_piece (vs : List (List K)) (k t : Nat) (hk : k < vs.length) (ht : t < (vs.getD k []).length) :
    vs.flatten.getD (startOf (vs.map List.length) k + t) 0 = (vs.getD k []).getD t 0 := by
  induction vs generalizing k with
  | nil => simp at hk
  | cons v rest ih =>
    cases k with
    | zero =>
      simp only [List.getD_cons_zero] at ht
      simp only [startOf, List.take_zero, List.sum_nil, zero_add, List.flatten_cons, List.getD_cons_zero]
      exact List.getD_append _ _ _ _ ht
    | succ k =>
      simp only [List.getD_cons_succ] at ht
      simp only [startOf, List.map_cons, List.take_succ_cons, List.sum_cons, List.flatten_cons,
        List.getD_cons_succ]
      rw [List.getD_append_right _ _ _ _ (by omega)]
      have := ih k (by simpa using hk) ht
      simp only [startOf] at this
      rw [← this]
      congr 1
      omega

/-! ### StiffPanelBay: offsets -/

omit [Field K] in
theorem startOf_cons_succ (a : Nat) (l : List Nat) (k : Nat) : startOf (a :: l) (k + 1) = a + startOf l k := by
  simp [startOf]

theorem startOf_append_left (a b : List Nat) (k : Nat) (hk : k ≤ a.length) : startOf (a ++ b) k = startOf a k := by
  unfold startOf
  rw [List.take_append_of_le_length hk]

theorem startOf_append_right (a b : List Nat) (k : Nat) : startOf (a ++ b) (a.length + k) = a.sum + startOf b k := by
  unfold startOf
  rw [List.take_append, List.sum_append, List.take_of_length_le (by omega)]
  simp

def Bay.fsizes (b : Bay K) : List Nat := b.b2.map Blade2D.flangeSize
def Bay.tsizes (b : Bay K) : List Nat := b.ts.map fun s => s.baseSize + s.flangeSize

/-- start of the range of the flange of the `k`-th `BladeStiff2D` -/
def Bay.off2 (b : Bay K) (k : Nat) : Nat := b.skinSize + startOf b.fsizes k
/-- start of the range of the base of the `k`-th `TStiff2D` -/
def Bay.offT (b : Bay K) (k : Nat) : Nat := b.skinSize + b.fsizes.sum + startOf b.tsizes k

/-- sizes of all amplitude ranges of a bay, in order: skin, flanges of the 2-D blades (0 for a flange-less one),
then base and flange of every T stiffener -/
def Bay.rangeSizes (b : Bay K) : List Nat :=
  b.skinSize :: (b.fsizes ++ b.ts.flatMap fun s => [s.baseSize, s.flangeSize])

theorem blade2dLoop_eq (kind : MatKind) (l : List (Blade2D K)) (r c : Nat) :
    blade2dLoop kind l r c =
      ((l.mapIdx fun k s => s.blocks kind (r + startOf (l.map Blade2D.flangeSize) k)
          (c + startOf (l.map Blade2D.flangeSize) k)).flatten,
        r + (l.map Blade2D.flangeSize).sum, c + (l.map Blade2D.flangeSize).sum) := by
  induction l generalizing r c with
  | nil => simp [blade2dLoop]
  | cons s t ih =>
    rcases s with ⟨base, flange, css, csf, cff⟩
    cases flange with
    | none =>
      simp only [blade2dLoop, ih, List.mapIdx_cons, List.flatten_cons, List.map_cons, Blade2D.flangeSize,
        List.sum_cons, startOf_cons_succ, startOf_zero, Nat.add_zero, Nat.zero_add]
    | some f =>
      simp only [blade2dLoop, ih, List.mapIdx_cons, List.flatten_cons, List.map_cons, Blade2D.flangeSize,
        List.sum_cons, startOf_cons_succ, startOf_zero, Nat.add_zero, Nat.add_assoc]

theorem tLoop_eq (kind : MatKind) (l : List (TStiff K)) (r c : Nat) :
    tLoop kind l r c =
      ((l.mapIdx fun k s => s.blocks kind (r + startOf (l.map fun s => s.baseSize + s.flangeSize) k)
          (c + startOf (l.map fun s => s.baseSize + s.flangeSize) k)).flatten,
        r + (l.map fun s => s.baseSize + s.flangeSize).sum,
        c + (l.map fun s => s.baseSize + s.flangeSize).sum) := by
  induction l generalizing r c with
  | nil => simp [tLoop]
  | cons s t ih =>
    simp only [tLoop, ih, List.mapIdx_cons, List.flatten_cons, List.map_cons,
      List.sum_cons, startOf_cons_succ, startOf_zero, Nat.add_zero, Nat.add_assoc]

theorem bay_offsets_correct_aux (kind : MatKind) (b : Bay K) :
    bayBlocks kind b =
      (b.skins.map fun c => (⟨tagPanel, 0, 0, c⟩ : Block K)) ++
      (b.b1.flatMap fun s => s.blocks kind 0 0) ++
      (b.b2.mapIdx fun k s => s.blocks kind (b.off2 k) (b.off2 k)).flatten ++
      (b.ts.mapIdx fun k s => s.blocks kind (b.offT k) (b.offT k)).flatten := by
  unfold bayBlocks
  simp only [blade2dLoop_eq, tLoop_eq]
  rfl

theorem startOf_pairs (ts : List (TStiff K)) (k : Nat) (hk : k ≤ ts.length) :
    startOf (ts.flatMap fun s => [s.baseSize, s.flangeSize]) (2 * k) =
      startOf (ts.map fun s => s.baseSize + s.flangeSize) k := by
  induction ts generalizing k with
  | nil => simp [startOf]
  | cons s t ih =>
    cases k with
    | zero => simp [startOf]
    | succ k =>
      have : 2 * (k + 1) = (2 * k + 1) + 1 := by ring
      rw [this]
      simp only [List.flatMap_cons, List.cons_append, List.nil_append, List.map_cons, startOf_cons_succ]
      rw [ih k (by simpa using hk)]
      omega

theorem startOf_pairs_succ (ts : List (TStiff K)) (k : Nat) (hk : k < ts.length) :
    startOf (ts.flatMap fun s => [s.baseSize, s.flangeSize]) (2 * k + 1) =
      startOf (ts.map fun s => s.baseSize + s.flangeSize) k + (ts[k]).baseSize := by
  induction ts generalizing k with
  | nil => simp at hk
  | cons s t ih =>
    cases k with
    | zero => simp [startOf]
    | succ k =>
      have : 2 * (k + 1) + 1 = ((2 * k + 1) + 1) + 1 := by ring
      rw [this]
      simp only [List.flatMap_cons, List.cons_append, List.nil_append, List.map_cons, startOf_cons_succ,
        List.getElem_cons_succ]
      rw [ih k (by simpa using hk)]
      omega

/-- the offsets used by `calc_k0/kG0/kM` are the starts of the bay's ranges -/
theorem bay_offsets_are_range_starts_aux (b : Bay K) :
    (∀ k, k ≤ b.b2.length → b.off2 k = startOf b.rangeSizes (1 + k)) ∧
    (∀ k, k ≤ b.ts.length → b.offT k = startOf b.rangeSizes (1 + b.b2.length + 2 * k)) ∧
    (∀ k (hk : k < b.ts.length),
      b.offT k + (b.ts[k]).baseSize = startOf b.rangeSizes (1 + b.b2.length + 2 * k + 1)) := by
  have hfl : b.fsizes.length = b.b2.length := by simp [Bay.fsizes]
  refine ⟨?_, ?_, ?_⟩
  · intro k hk
    unfold Bay.off2 Bay.rangeSizes
    rw [Nat.add_comm 1 k, startOf_cons_succ, startOf_append_left _ _ _ (by omega)]
  · intro k hk
    unfold Bay.offT Bay.rangeSizes
    have : 1 + b.b2.length + 2 * k = (b.fsizes.length + 2 * k) + 1 := by omega
    rw [this, startOf_cons_succ, startOf_append_right, startOf_pairs _ _ hk]
    unfold Bay.tsizes
    omega
  · intro k hk
    unfold Bay.offT Bay.rangeSizes
    have : 1 + b.b2.length + 2 * k + 1 = (b.fsizes.length + (2 * k + 1)) + 1 := by omega
    rw [this, startOf_cons_succ, startOf_append_right, startOf_pairs_succ _ _ hk]
    unfold Bay.tsizes
    omega

theorem fold2_size (l : List (Blade2D K)) (z : Nat) :
    l.foldl (fun acc s => acc.map fun z => z + s.flangeSize) (some z) =
      some (z + (l.map Blade2D.flangeSize).sum) := by
  induction l generalizing z with
  | nil => simp
  | cons s t ih =>
    simp only [List.foldl_cons, Option.map_some, List.map_cons, List.sum_cons]
    rw [ih]
    simp [Nat.add_assoc]

theorem foldT_size (l : List (TStiff K)) (z : Nat) :
    l.foldl (fun acc s => acc.map fun z => z + (s.baseSize + s.flangeSize)) (some z) =
      some (z + (l.map fun s => s.baseSize + s.flangeSize).sum) := by
  induction l generalizing z with
  | nil => simp
  | cons s t ih =>
    simp only [List.foldl_cons, Option.map_some, List.map_cons, List.sum_cons]
    rw [ih]
    simp [Nat.add_assoc]

theorem foldT_none (l : List (TStiff K)) :
    l.foldl (fun acc s => acc.map fun z => z + (s.baseSize + s.flangeSize)) (none : Option Nat) = none := by
  induction l with
  | nil => rfl
  | cons s t ih => simpa using ih

theorem pairs_sum (ts : List (TStiff K)) :
    (ts.flatMap fun s => [s.baseSize, s.flangeSize]).sum = (ts.map fun s => s.baseSize + s.flangeSize).sum := by
  induction ts with
  | nil => rfl
  | cons s t ih => simp [List.flatMap_cons, ih, Nat.add_assoc]

theorem bay_size_eq_sum_aux (b : Bay K) : bayGetSize b = some b.rangeSizes.sum := by
  unfold bayGetSize
  simp only
  rw [fold2_size, foldT_size]
  unfold Bay.rangeSizes Bay.fsizes
  rw [List.sum_cons, List.sum_append, pairs_sum]
  simp [Nat.add_assoc]

/-! ### bay: placement, symmetry, skin partition, stiffener contribution -/

theorem bay_eq_sum_of_placed_aux (kind : MatKind) (b : Bay K) (i j : Nat) :
    toFun (bayCalc kind b) i j =
      if i ≤ j then ((bayBlocks kind b).map fun bl => bl.fn i j).sum
      else ((bayBlocks kind b).map fun bl => bl.fn j i).sum := by
  unfold bayCalc finalize
  rw [toFun_makeSymmetric, toFun_placeAll, toFun_placeAll]

theorem bay_symmetric_aux (kind : MatKind) (b : Bay K) (i j : Nat) :
    toFun (bayCalc kind b) i j = toFun (bayCalc kind b) j i :=
  toFun_makeSymmetric_symm _ _ _

theorem sum_map_append {α : Type} (f : α → K) (a b : List α) :
    ((a ++ b).map f).sum = (a.map f).sum + (b.map f).sum := by simp

theorem bayBlocks_sum (kind : MatKind) (b : Bay K) (i j : Nat) :
    ((bayBlocks kind b).map fun bl => bl.fn i j).sum =
      (b.skins.map fun c => toFun c i j).sum +
      ((b.b1.flatMap fun s => s.blocks kind 0 0).map fun bl => bl.fn i j).sum +
      (((b.b2.mapIdx fun k s => s.blocks kind (b.off2 k) (b.off2 k)).flatten).map fun bl => bl.fn i j).sum +
      (((b.ts.mapIdx fun k s => s.blocks kind (b.offT k) (b.offT k)).flatten).map fun bl => bl.fn i j).sum := by
  rw [bay_offsets_correct_aux, sum_map_append, sum_map_append, sum_map_append, List.map_map]
  congr 3

/-- the skin panels enter the global matrix only through the sum of their matrices -/
theorem bayCalc_congr_skins (kind : MatKind) (b b' : Bay K)
    (h1 : b'.num = b.num) (h2 : b'.m = b.m) (h3 : b'.n = b.n) (h4 : b'.b1 = b.b1) (h5 : b'.b2 = b.b2)
    (h6 : b'.ts = b.ts)
    (hs : ∀ i j, (b'.skins.map fun c => toFun c i j).sum = (b.skins.map fun c => toFun c i j).sum)
    (i j : Nat) : toFun (bayCalc kind b') i j = toFun (bayCalc kind b) i j := by
  have hoff2 : b'.off2 = b.off2 := by
    funext k; simp [Bay.off2, Bay.skinSize, Bay.fsizes, h1, h2, h3, h5]
  have hoffT : b'.offT = b.offT := by
    funext k; simp [Bay.offT, Bay.skinSize, Bay.fsizes, Bay.tsizes, h1, h2, h3, h5, h6]
  rw [bay_eq_sum_of_placed_aux, bay_eq_sum_of_placed_aux, bayBlocks_sum, bayBlocks_sum, bayBlocks_sum,
    bayBlocks_sum, hs, hs, h4, h5, h6, hoff2, hoffT]

/-- matrices of the skin panels cut at `y0 < cuts… < yN`: `k y1 y2` is the kernel over `[y1, y2]` -/
def cutSkins {Y : Type} (k : Y → Y → Coo K) : Y → List Y → List (Coo K)
  | _, [] => []
  | y, y' :: t => k y y' :: cutSkins k y' t

theorem cutSkins_sum {Y : Type} (k : Y → Y → Coo K)
    (hadd : ∀ y1 y2 y3 i j, toFun (k y1 y2) i j + toFun (k y2 y3) i j = toFun (k y1 y3) i j)
    (y0 y1 : Y) (rest : List Y) (i j : Nat) :
    ((cutSkins k y0 (y1 :: rest)).map fun c => toFun c i j).sum =
      toFun (k y0 ((y1 :: rest).getLast (List.cons_ne_nil _ _))) i j := by
  induction rest generalizing y0 y1 with
  | nil => simp [cutSkins]
  | cons y2 t ih =>
    have : cutSkins k y0 (y1 :: y2 :: t) = k y0 y1 :: cutSkins k y1 (y2 :: t) := rfl
    rw [this, List.map_cons, List.sum_cons, ih y1 y2, List.getLast_cons (List.cons_ne_nil _ _)]
    exact hadd _ _ _ _ _

theorem skin_split_invariant_aux {Y : Type} (kind : MatKind) (k : Y → Y → Coo K)
    (hadd : ∀ y1 y2 y3 i j, toFun (k y1 y2) i j + toFun (k y2 y3) i j = toFun (k y1 y3) i j)
    (b : Bay K) (y0 yN : Y) (cuts : List Y) (i j : Nat) :
    toFun (bayCalc kind { b with skins := cutSkins k y0 (cuts ++ [yN]) }) i j =
      toFun (bayCalc kind { b with skins := [k y0 yN] }) i j := by
  apply bayCalc_congr_skins <;> try rfl
  intro i j
  cases hc : cuts ++ [yN] with
  | nil => simp at hc
  | cons y1 rest =>
    rw [cutSkins_sum k hadd]
    have : (y1 :: rest).getLast (List.cons_ne_nil _ _) = yN := by
      simp only [← hc]; simp
    rw [this]
    simp

theorem mapIdx_append_one {α β : Type} (f : Nat → α → β) (l : List α) (a : α) :
    (l ++ [a]).mapIdx f = l.mapIdx f ++ [f l.length a] := by
  rw [List.mapIdx_append]
  simp

/-- adding a `TStiff2D` (appended by `add_tstiff2d`) leaves every other range where it was and adds the finalised
sum of its own blocks, written at the first free offset -/
theorem add_tstiff_contribution_aux (kind : MatKind) (b : Bay K) (s : TStiff K) (i j : Nat) :
    toFun (bayCalc kind { b with ts := b.ts ++ [s] }) i j =
      toFun (bayCalc kind b) i j +
        toFun (finalize (placeAll (s.blocks kind (b.offT b.ts.length) (b.offT b.ts.length)))) i j := by
  have hoff2 : ({ b with ts := b.ts ++ [s] } : Bay K).off2 = b.off2 := rfl
  have hoffT : ∀ k, k ≤ b.ts.length → ({ b with ts := b.ts ++ [s] } : Bay K).offT k = b.offT k := by
    intro k hk
    simp only [Bay.offT, Bay.tsizes, List.map_append]
    rw [startOf_append_left _ _ _ (by simpa using hk)]
    rfl
  have hblocks : ∀ i j, ((bayBlocks kind { b with ts := b.ts ++ [s] }).map fun bl => bl.fn i j).sum =
      ((bayBlocks kind b).map fun bl => bl.fn i j).sum +
        ((s.blocks kind (b.offT b.ts.length) (b.offT b.ts.length)).map fun bl => bl.fn i j).sum := by
    intro i j
    rw [bayBlocks_sum, bayBlocks_sum, hoff2]
    simp only
    rw [mapIdx_append_one, List.flatten_append, sum_map_append, hoffT _ (le_refl _)]
    have : (b.ts.mapIdx fun k s' => s'.blocks kind (({ b with ts := b.ts ++ [s] } : Bay K).offT k)
        (({ b with ts := b.ts ++ [s] } : Bay K).offT k)) =
        (b.ts.mapIdx fun k s' => s'.blocks kind (b.offT k) (b.offT k)) := by
      apply List.ext_getElem
      · simp
      · intro k h1 h2
        simp only [List.getElem_mapIdx]
        rw [hoffT k (by simp at h1; omega)]
    rw [this]
    simp only [List.flatten_cons, List.flatten_nil, List.append_nil]
    ring
  unfold finalize
  rw [bay_eq_sum_of_placed_aux, bay_eq_sum_of_placed_aux, toFun_makeSymmetric, toFun_placeAll, toFun_placeAll,
    hblocks, hblocks]
  split <;> rfl

/-- adding a `BladeStiff1D` adds the finalised sum of its blocks inside the skin's range -/
theorem add_blade1d_contribution_aux (kind : MatKind) (b : Bay K) (s : Blade1D K) (i j : Nat) :
    toFun (bayCalc kind { b with b1 := b.b1 ++ [s] }) i j =
      toFun (bayCalc kind b) i j + toFun (finalize (placeAll (s.blocks kind 0 0))) i j := by
  have hblocks : ∀ i j, ((bayBlocks kind { b with b1 := b.b1 ++ [s] }).map fun bl => bl.fn i j).sum =
      ((bayBlocks kind b).map fun bl => bl.fn i j).sum +
        ((s.blocks kind 0 0).map fun bl => bl.fn i j).sum := by
    intro i j
    rw [bayBlocks_sum, bayBlocks_sum]
    have h2 : ({ b with b1 := b.b1 ++ [s] } : Bay K).off2 = b.off2 := rfl
    have hT : ({ b with b1 := b.b1 ++ [s] } : Bay K).offT = b.offT := rfl
    rw [h2, hT]
    simp only [List.flatMap_append, List.flatMap_cons, List.flatMap_nil, List.append_nil, sum_map_append]
    ring
  unfold finalize
  rw [bay_eq_sum_of_placed_aux, bay_eq_sum_of_placed_aux, toFun_makeSymmetric, toFun_placeAll, toFun_placeAll,
    hblocks, hblocks]
  split <;> rfl

/-- adding a `BladeStiff2D` to a bay without T stiffeners -/
theorem add_blade2d_contribution_aux (kind : MatKind) (b : Bay K) (hts : b.ts = []) (s : Blade2D K) (i j : Nat) :
    toFun (bayCalc kind { b with b2 := b.b2 ++ [s] }) i j =
      toFun (bayCalc kind b) i j +
        toFun (finalize (placeAll (s.blocks kind (b.off2 b.b2.length) (b.off2 b.b2.length)))) i j := by
  have hoff2 : ∀ k, k ≤ b.b2.length → ({ b with b2 := b.b2 ++ [s] } : Bay K).off2 k = b.off2 k := by
    intro k hk
    simp only [Bay.off2, Bay.fsizes, List.map_append]
    rw [startOf_append_left _ _ _ (by simpa using hk)]
    rfl
  have hblocks : ∀ i j, ((bayBlocks kind { b with b2 := b.b2 ++ [s] }).map fun bl => bl.fn i j).sum =
      ((bayBlocks kind b).map fun bl => bl.fn i j).sum +
        ((s.blocks kind (b.off2 b.b2.length) (b.off2 b.b2.length)).map fun bl => bl.fn i j).sum := by
    intro i j
    rw [bayBlocks_sum, bayBlocks_sum]
    simp only
    rw [mapIdx_append_one, List.flatten_append, sum_map_append, hoff2 _ (le_refl _)]
    have : (b.b2.mapIdx fun k s' => s'.blocks kind (({ b with b2 := b.b2 ++ [s] } : Bay K).off2 k)
        (({ b with b2 := b.b2 ++ [s] } : Bay K).off2 k)) =
        (b.b2.mapIdx fun k s' => s'.blocks kind (b.off2 k) (b.off2 k)) := by
      apply List.ext_getElem
      · simp
      · intro k h1 h2
        simp only [List.getElem_mapIdx]
        rw [hoff2 k (by simp at h1; omega)]
    rw [this]
    simp only [hts, List.mapIdx_nil, List.flatten_nil, List.map_nil, List.sum_nil, add_zero, List.flatten_cons,
      List.append_nil]
    ring
  unfold finalize
  rw [bay_eq_sum_of_placed_aux, bay_eq_sum_of_placed_aux, toFun_makeSymmetric, toFun_placeAll, toFun_placeAll,
    hblocks, hblocks]
  split <;> rfl

/-! ### bay force vector -/

theorem foldF2 (l : List (Option (List K))) (z : List K) :
    l.foldl (fun acc s => acc.map fun z => z ++ s.getD []) (some z) =
      some (z ++ (l.filterMap id).flatten) := by
  induction l generalizing z with
  | nil => simp
  | cons s t ih =>
    cases s with
    | none => simp only [List.foldl_cons, Option.map_some, Option.getD_none, List.append_nil]; rw [ih]; simp
    | some f => simp only [List.foldl_cons, Option.map_some, Option.getD_some]; rw [ih]; simp

theorem foldFT (l : List (List K × List K)) (z : List K) :
    l.foldl (fun acc s => acc.map fun z => z ++ s.1 ++ s.2) (some z) =
      some (z ++ (l.flatMap fun s => [s.1, s.2]).flatten) := by
  induction l generalizing z with
  | nil => simp
  | cons s t ih =>
    simp only [List.foldl_cons, Option.map_some]
    rw [ih]
    simp

theorem bay_fext_concat_aux (skin : List K) (b2 : List (Option (List K))) (ts : List (List K × List K)) :
    bayFext skin b2 ts = some ((skin :: (b2.filterMap id ++ ts.flatMap fun s => [s.1, s.2])).flatten) := by
  unfold bayFext
  simp only
  rw [foldF2, foldFT]
  simp

end Compmech.Asm
