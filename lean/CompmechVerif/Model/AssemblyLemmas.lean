/-
Helper lemmas about `Model/Assembly.lean`.  The property theorems of `Props/C13.lean` are the `*_aux`
lemmas of this file.
-/
import CompmechVerif.Model.Assembly
import Mathlib.Algebra.BigOperators.Group.List.Basic
import Mathlib.Algebra.Order.Group.Nat
import Mathlib.Data.List.Basic
import Mathlib.Data.List.GetD
import Mathlib.Tactic.Ring
import Mathlib.Tactic.Linarith

namespace Compmech.Asm

variable {K : Type} [Field K]

/-! ### COO semantics -/

@[simp] theorem toFun_nil (i j : Nat) : toFun ([] : Coo K) i j = 0 := rfl

theorem toFun_cons (e : Nat × Nat × K) (l : Coo K) (i j : Nat) :
    toFun (e :: l) i j = (if e.1 = i ∧ e.2.1 = j then e.2.2 else 0) + toFun l i j := by
  simp [toFun]

theorem toFun_append (a b : Coo K) (i j : Nat) : toFun (a ++ b) i j = toFun a i j + toFun b i j := by
  simp [toFun]

theorem toFun_flatten (ls : List (Coo K)) (i j : Nat) :
    toFun ls.flatten i j = (ls.map fun l => toFun l i j).sum := by
  induction ls with
  | nil => simp
  | cons a t ih => simp [toFun_append, ih]

theorem toFun_shift (r0 c0 : Nat) (l : Coo K) (i j : Nat) :
    toFun (shift r0 c0 l) i j = if r0 ≤ i ∧ c0 ≤ j then toFun l (i - r0) (j - c0) else 0 := by
  induction l with
  | nil => simp [shift]
  | cons e t ih =>
    have h : shift r0 c0 (e :: t) = (r0 + e.1, c0 + e.2.1, e.2.2) :: shift r0 c0 t := rfl
    rw [h, toFun_cons, ih]
    by_cases hc : r0 ≤ i ∧ c0 ≤ j
    · rw [if_pos hc, if_pos hc, toFun_cons]
      congr 1
      have : (r0 + e.1 = i ∧ c0 + e.2.1 = j) ↔ (e.1 = i - r0 ∧ e.2.1 = j - c0) := by omega
      simp only [this]
    · rw [if_neg hc, if_neg hc]
      have : ¬ (r0 + e.1 = i ∧ c0 + e.2.1 = j) := by omega
      simp [this]

theorem toFun_transpose (l : Coo K) (i j : Nat) : toFun (transpose l) i j = toFun l j i := by
  induction l with
  | nil => simp [transpose]
  | cons e t ih =>
    have h : transpose (e :: t) = (e.2.1, e.1, e.2.2) :: transpose t := rfl
    rw [h, toFun_cons, toFun_cons, ih]
    congr 1
    have : (e.2.1 = i ∧ e.1 = j) ↔ (e.1 = j ∧ e.2.1 = i) := by constructor <;> (intro h; exact ⟨h.2, h.1⟩)
    simp only [this]

theorem toFun_filter_upper (l : Coo K) (i j : Nat) :
    toFun (l.filter fun e => decide (e.1 ≤ e.2.1)) i j = if i ≤ j then toFun l i j else 0 := by
  induction l with
  | nil => simp
  | cons e t ih =>
    by_cases he : e.1 ≤ e.2.1
    · rw [List.filter_cons_of_pos (by simpa using he), toFun_cons, ih, toFun_cons]
      by_cases hij : i ≤ j
      · simp [hij]
      · have : ¬ (e.1 = i ∧ e.2.1 = j) := by omega
        simp [hij, this]
    · rw [List.filter_cons_of_neg (by simpa using he), ih, toFun_cons]
      by_cases hij : i ≤ j
      · have : ¬ (e.1 = i ∧ e.2.1 = j) := by omega
        simp [hij, this]
      · simp [hij]

/-- the mirrored copy of an all-upper list -/
theorem toFun_mirror (u : Coo K) (hu : ∀ e ∈ u, e.1 ≤ e.2.1) (i j : Nat) :
    toFun (u.map fun e => if e.1 < e.2.1 then (e.2.1, e.1, e.2.2) else ((0, 0, 0) : Nat × Nat × K)) i j =
      if j < i then toFun u j i else 0 := by
  induction u with
  | nil => simp
  | cons e t ih =>
    have ht : ∀ e ∈ t, e.1 ≤ e.2.1 := fun x hx => hu x (List.mem_cons_of_mem _ hx)
    have he : e.1 ≤ e.2.1 := hu e List.mem_cons_self
    rw [List.map_cons, toFun_cons, ih ht]
    by_cases hlt : e.1 < e.2.1
    · simp only [if_pos hlt]
      by_cases hji : j < i
      · rw [if_pos hji, if_pos hji, toFun_cons]
        congr 1
        have : (e.2.1 = i ∧ e.1 = j) ↔ (e.1 = j ∧ e.2.1 = i) := by
          constructor <;> (intro h; exact ⟨h.2, h.1⟩)
        simp only [this]
      · rw [if_neg hji, if_neg hji]
        have : ¬ (e.2.1 = i ∧ e.1 = j) := by omega
        simp [this]
    · simp only [if_neg hlt]
      by_cases hji : j < i
      · rw [if_pos hji, if_pos hji, toFun_cons]
        have : ¬ (e.1 = j ∧ e.2.1 = i) := by omega
        simp [this]
      · rw [if_neg hji, if_neg hji]
        simp

theorem toFun_makeSymmetric (l : Coo K) (i j : Nat) :
    toFun (makeSymmetric l) i j = if i ≤ j then toFun l i j else toFun l j i := by
  unfold makeSymmetric
  simp only
  rw [toFun_append, toFun_mirror _ (by intro e he; simpa using (List.mem_filter.mp he).2),
    toFun_filter_upper, toFun_filter_upper]
  by_cases hij : i ≤ j
  · have : ¬ j < i := by omega
    simp [hij, this]
  · have h1 : j < i := by omega
    have h2 : j ≤ i := by omega
    simp [hij, h1, h2]

theorem toFun_makeSymmetric_symm (l : Coo K) (i j : Nat) :
    toFun (makeSymmetric l) i j = toFun (makeSymmetric l) j i := by
  rw [toFun_makeSymmetric, toFun_makeSymmetric]
  by_cases h1 : i ≤ j <;> by_cases h2 : j ≤ i
  · have : i = j := by omega
    subst this; simp
  · simp [h1, h2]
  · simp [h1, h2]
  · omega

/-- what one kernel call contributes -/
def Block.fn (b : Block K) (i j : Nat) : K :=
  if b.row0 ≤ i ∧ b.col0 ≤ j then toFun b.coo (i - b.row0) (j - b.col0) else 0

theorem toFun_placeAll (bs : List (Block K)) (i j : Nat) :
    toFun (placeAll bs) i j = (bs.map fun b => b.fn i j).sum := by
  induction bs with
  | nil => simp [placeAll]
  | cons b t ih =>
    have : placeAll (b :: t) = b.placed ++ placeAll t := by simp [placeAll]
    rw [this, toFun_append, ih, List.map_cons, List.sum_cons]
    congr 1
    exact toFun_shift _ _ _ _ _

omit [Field K] in
theorem placeAll_append (a b : List (Block K)) : placeAll (a ++ b) = placeAll a ++ placeAll b := by
  simp [placeAll]

/-- a local matrix that only has entries with `row < nr`, `col < nc` -/
def Within (nr nc : Nat) (l : Coo K) : Prop := ∀ e ∈ l, e.1 < nr ∧ e.2.1 < nc

theorem toFun_eq_zero_of_within {nr nc : Nat} {l : Coo K} (h : Within nr nc l) (i j : Nat)
    (hij : nr ≤ i ∨ nc ≤ j) : toFun l i j = 0 := by
  induction l with
  | nil => simp
  | cons e t ih =>
    rw [toFun_cons, ih (fun x hx => h x (List.mem_cons_of_mem _ hx))]
    have := h e List.mem_cons_self
    have : ¬ (e.1 = i ∧ e.2.1 = j) := by omega
    simp [this]

/-- a block only touches `[row0, row0+nr) × [col0, col0+nc)` -/
theorem Block.fn_support (b : Block K) {nr nc : Nat} (h : Within nr nc b.coo) (i j : Nat)
    (hij : ¬ (b.row0 ≤ i ∧ i < b.row0 + nr ∧ b.col0 ≤ j ∧ j < b.col0 + nc)) : b.fn i j = 0 := by
  unfold Block.fn
  by_cases hc : b.row0 ≤ i ∧ b.col0 ≤ j
  · rw [if_pos hc]
    apply toFun_eq_zero_of_within h
    omega
  · rw [if_neg hc]

/-! ### prefix sums: ranges tile -/

/-- start of range `k` -/
def startOf (sizes : List Nat) (k : Nat) : Nat := (sizes.take k).sum

theorem startOf_zero (sizes : List Nat) : startOf sizes 0 = 0 := by simp [startOf]

theorem startOf_succ (sizes : List Nat) (k : Nat) (hk : k < sizes.length) :
    startOf sizes (k + 1) = startOf sizes k + sizes[k] := by
  unfold startOf
  rw [List.take_succ_eq_append_getElem hk, List.sum_append]
  simp

theorem startOf_length (sizes : List Nat) : startOf sizes sizes.length = sizes.sum := by
  simp [startOf]

theorem startOf_mono (sizes : List Nat) {a b : Nat} (h : a ≤ b) : startOf sizes a ≤ startOf sizes b := by
  induction b with
  | zero =>
    have : a = 0 := by omega
    subst this; exact le_refl _
  | succ b ih =>
    by_cases hab : a = b + 1
    · subst hab; exact le_refl _
    · have h1 : a ≤ b := by omega
      refine le_trans (ih h1) ?_
      by_cases hb : b < sizes.length
      · rw [startOf_succ _ _ hb]; omega
      · unfold startOf
        rw [List.take_of_length_le (by omega), List.take_of_length_le (by omega)]

theorem ranges_tile_general (sizes : List Nat) :
    startOf sizes 0 = 0 ∧
    (∀ k (hk : k < sizes.length), startOf sizes (k + 1) = startOf sizes k + sizes[k]) ∧
    startOf sizes sizes.length = sizes.sum ∧
    (∀ a b (hb : b < sizes.length) (hab : a < b), startOf sizes a + sizes[a]'(by omega) ≤ startOf sizes b) := by
  refine ⟨startOf_zero _, startOf_succ _, startOf_length _, ?_⟩
  intro a b hb hab
  rw [← startOf_succ sizes a (by omega)]
  exact startOf_mono sizes (by omega)

/-! ### PanelAssembly.__init__ -/

def panelSizes (ps : List (Nat × Nat)) : List Nat := ps.map fun p => 3 * p.1 * p.2

theorem getSize_eq (ps : List (Nat × Nat)) : getSize ps = (panelSizes ps).sum := rfl

theorem initLoop_length (ps : List (Nat × Nat)) (r c : Nat) : (initLoop ps r c).length = ps.length := by
  induction ps generalizing r c with
  | nil => rfl
  | cons p t ih => simp [initLoop, ih]

theorem initLoop_getElem (ps : List (Nat × Nat)) (r c k : Nat) (hk : k < ps.length) :
    (initLoop ps r c)[k]'(by rw [initLoop_length]; exact hk) =
      ⟨r + startOf (panelSizes ps) k, c + startOf (panelSizes ps) k,
       r + startOf (panelSizes ps) k + 3 * ps[k].1 * ps[k].2,
       c + startOf (panelSizes ps) k + 3 * ps[k].1 * ps[k].2⟩ := by
  induction ps generalizing r c k with
  | nil => simp at hk
  | cons p t ih =>
    cases k with
    | zero => simp [initLoop, startOf]
    | succ k =>
      have hk' : k < t.length := by simpa using hk
      simp only [initLoop, List.getElem_cons_succ]
      rw [ih _ _ k hk']
      simp only [panelSizes, startOf, List.map_cons, List.take_succ_cons, List.sum_cons]
      congr 1 <;> omega

theorem init_length (ps : List (Nat × Nat)) : (init ps).length = ps.length := initLoop_length ps 0 0

theorem init_getElem (ps : List (Nat × Nat)) (k : Nat) (hk : k < ps.length) :
    (init ps)[k]'(by rw [init_length]; exact hk) =
      ⟨startOf (panelSizes ps) k, startOf (panelSizes ps) k,
       startOf (panelSizes ps) k + 3 * ps[k].1 * ps[k].2,
       startOf (panelSizes ps) k + 3 * ps[k].1 * ps[k].2⟩ := by
  have := initLoop_getElem ps 0 0 k hk
  simpa [init] using this

/-! ### PanelAssembly: ranges, size, placement -/

theorem init_getD (ps : List (Nat × Nat)) (k : Nat) (hk : k < ps.length) :
    (init ps).getD k default =
      ⟨startOf (panelSizes ps) k, startOf (panelSizes ps) k,
       startOf (panelSizes ps) k + 3 * (ps.getD k (0, 0)).1 * (ps.getD k (0, 0)).2,
       startOf (panelSizes ps) k + 3 * (ps.getD k (0, 0)).1 * (ps.getD k (0, 0)).2⟩ := by
  rw [List.getD_eq_getElem _ _ (by rw [init_length]; exact hk), List.getD_eq_getElem _ _ hk]
  exact init_getElem ps k hk

theorem panelSizes_length (ps : List (Nat × Nat)) : (panelSizes ps).length = ps.length := by
  simp [panelSizes]

theorem panelSizes_getElem (ps : List (Nat × Nat)) (k : Nat) (hk : k < ps.length) :
    (panelSizes ps)[k]'(by rw [panelSizes_length]; exact hk) = 3 * (ps.getD k (0, 0)).1 * (ps.getD k (0, 0)).2 := by
  rw [List.getD_eq_getElem _ _ hk]
  simp [panelSizes]

theorem ranges_tile_aux (ps : List (Nat × Nat)) :
    (init ps).length = ps.length ∧
    (∀ k, k < ps.length →
      ((init ps).getD k default).colStart = ((init ps).getD k default).rowStart ∧
      ((init ps).getD k default).colEnd = ((init ps).getD k default).rowEnd ∧
      ((init ps).getD k default).rowEnd =
        ((init ps).getD k default).rowStart + 3 * (ps.getD k (0, 0)).1 * (ps.getD k (0, 0)).2) ∧
    (0 < ps.length → ((init ps).getD 0 default).rowStart = 0) ∧
    (∀ k, k + 1 < ps.length → ((init ps).getD (k + 1) default).rowStart = ((init ps).getD k default).rowEnd) ∧
    (0 < ps.length → ((init ps).getD (ps.length - 1) default).rowEnd = getSize ps) ∧
    (∀ a b, a < b → b < ps.length → ((init ps).getD a default).rowEnd ≤ ((init ps).getD b default).rowStart) := by
  have hl := panelSizes_length ps
  refine ⟨init_length ps, ?_, ?_, ?_, ?_, ?_⟩
  · intro k hk
    rw [init_getD ps k hk]
    exact ⟨rfl, rfl, rfl⟩
  · intro h
    rw [init_getD ps 0 h]
    exact startOf_zero (panelSizes ps)
  · intro k hk
    rw [init_getD ps (k + 1) hk, init_getD ps k (by omega)]
    simp only
    rw [startOf_succ _ _ (by omega), panelSizes_getElem ps k (by omega)]
  · intro h
    rw [init_getD ps _ (by omega)]
    simp only
    rw [← panelSizes_getElem ps (ps.length - 1) (by omega), ← startOf_succ _ _ (by omega), getSize_eq,
      ← startOf_length]
    congr 1
    omega
  · intro a b hab hb
    rw [init_getD ps a (by omega), init_getD ps b hb]
    simp only
    rw [← panelSizes_getElem ps a (by omega), ← startOf_succ _ _ (by omega)]
    exact startOf_mono _ (by omega)

theorem initLoop_sum (ps : List (Nat × Nat)) (r c : Nat) :
    ((initLoop ps r c).map fun s => s.rowEnd - s.rowStart).sum = (ps.map fun p => 3 * p.1 * p.2).sum := by
  induction ps generalizing r c with
  | nil => rfl
  | cons p t ih =>
    simp only [List.map_cons, List.sum_cons, initLoop]
    rw [ih]
    omega

theorem size_eq_sum_aux (ps : List (Nat × Nat)) :
    getSize ps = ((init ps).map fun s => s.rowEnd - s.rowStart).sum ∧
    getSize ps = (ps.map fun p => 3 * p.1 * p.2).sum :=
  ⟨(initLoop_sum ps 0 0).symm, rfl⟩

/-- the contribution of a local matrix `l` written at `(r0, c0)` -/
def placedAt (r0 c0 : Nat) (l : Coo K) (i j : Nat) : K :=
  if r0 ≤ i ∧ c0 ≤ j then toFun l (i - r0) (j - c0) else 0

theorem panelBlocks_sum (ps : List (Nat × Nat)) (comps : List (Coo K)) (h : comps.length = ps.length)
    (i j : Nat) :
    ((panelBlocks ps comps).map fun b => b.fn i j).sum =
      ((List.range ps.length).map fun k =>
        placedAt (startOf (panelSizes ps) k) (startOf (panelSizes ps) k) (comps.getD k []) i j).sum := by
  congr 1
  apply List.ext_getElem
  · simp [panelBlocks, init_length, h]
  · intro k h1 h2
    have hk : k < ps.length := by simpa using h2
    simp only [panelBlocks, List.getElem_map, List.getElem_zipWith, List.getElem_range]
    rw [init_getElem ps k hk, List.getD_eq_getElem _ _ (by omega)]
    rfl

theorem assembly_eq_sum_of_placed_aux (ps : List (Nat × Nat)) (comps : List (Coo K))
    (conns : List (Conn K)) (h : comps.length = ps.length) (i j : Nat) :
    toFun (calcK0 true ps comps conns) i j =
      (if i ≤ j then
        ((List.range ps.length).map fun k =>
          placedAt (startOf (panelSizes ps) k) (startOf (panelSizes ps) k) (comps.getD k []) i j).sum
        + ((connAllBlocks ps conns).map fun b => b.fn i j).sum
      else
        ((List.range ps.length).map fun k =>
          placedAt (startOf (panelSizes ps) k) (startOf (panelSizes ps) k) (comps.getD k []) j i).sum
        + ((connAllBlocks ps conns).map fun b => b.fn j i).sum) := by
  unfold calcK0 calcNoConn k0Conn finalize
  simp only [if_true]
  rw [toFun_append, toFun_makeSymmetric, toFun_makeSymmetric]
  by_cases hij : i ≤ j
  · simp only [if_pos hij]
    rw [toFun_placeAll, toFun_placeAll, panelBlocks_sum ps comps h]
  · simp only [if_neg hij]
    rw [toFun_placeAll, toFun_placeAll, panelBlocks_sum ps comps h]

theorem assembly_noconn_eq_sum_of_placed_aux (ps : List (Nat × Nat)) (comps : List (Coo K))
    (h : comps.length = ps.length) (i j : Nat) :
    toFun (calcNoConn true ps comps) i j =
      (if i ≤ j then
        ((List.range ps.length).map fun k =>
          placedAt (startOf (panelSizes ps) k) (startOf (panelSizes ps) k) (comps.getD k []) i j).sum
      else
        ((List.range ps.length).map fun k =>
          placedAt (startOf (panelSizes ps) k) (startOf (panelSizes ps) k) (comps.getD k []) j i).sum) := by
  unfold calcNoConn finalize
  simp only [if_true]
  rw [toFun_makeSymmetric]
  by_cases hij : i ≤ j
  · simp only [if_pos hij]
    rw [toFun_placeAll, panelBlocks_sum ps comps h]
  · simp only [if_neg hij]
    rw [toFun_placeAll, panelBlocks_sum ps comps h]

theorem assembly_unfinalized_aux (ps : List (Nat × Nat)) (comps : List (Coo K))
    (h : comps.length = ps.length) (i j : Nat) :
    toFun (calcNoConn false ps comps) i j =
      ((List.range ps.length).map fun k =>
        placedAt (startOf (panelSizes ps) k) (startOf (panelSizes ps) k) (comps.getD k []) i j).sum := by
  unfold calcNoConn
  simp only [Bool.false_eq_true, if_false]
  rw [toFun_placeAll, panelBlocks_sum ps comps h]

/-- a panel's own matrix (entries below `3 m n`) only touches its own diagonal block -/
theorem placedAt_support (s n : Nat) (l : Coo K) (h : Within n n l) (i j : Nat)
    (hij : ¬ (s ≤ i ∧ i < s + n ∧ s ≤ j ∧ j < s + n)) : placedAt s s l i j = 0 := by
  have := Block.fn_support (⟨0, s, s, l⟩ : Block K) h i j hij
  exact this

/-- where `get_k0_conn` writes the three blocks of a connection -/
omit [Field K] in
theorem conn_blocks_aux (ps : List (Nat × Nat)) (c : Conn K) (h1 : c.p1 < ps.length) (h2 : c.p2 < ps.length) :
    connBlocks (init ps) c =
      [⟨tagC11, startOf (panelSizes ps) c.p1, startOf (panelSizes ps) c.p1, c.k11⟩,
       if startOf (panelSizes ps) c.p2 < startOf (panelSizes ps) c.p1 then
         ⟨tagC12, startOf (panelSizes ps) c.p2, startOf (panelSizes ps) c.p1, transpose c.k12⟩
       else ⟨tagC12, startOf (panelSizes ps) c.p1, startOf (panelSizes ps) c.p2, c.k12⟩,
       ⟨tagC22, startOf (panelSizes ps) c.p2, startOf (panelSizes ps) c.p2, c.k22⟩] := by
  unfold connBlocks
  simp only [init_getD ps _ h1, init_getD ps _ h2, gt_iff_lt]

/-- the coupling block always lands on or above the block diagonal, whatever the order of the panels -/
omit [Field K] in
theorem conn12_upper_aux (ps : List (Nat × Nat)) (c : Conn K) :
    ∀ b ∈ connBlocks (init ps) c, b.tag = tagC12 → b.row0 ≤ b.col0 := by
  intro b hb ht
  unfold connBlocks at hb
  simp only [List.mem_cons, List.not_mem_nil, or_false] at hb
  rcases hb with rfl | rfl | rfl
  · simp [tagC11, tagC12] at ht
  · split
    · simp only; omega
    · simp only; omega
  · simp [tagC22, tagC12] at ht

/-! ### force vectors -/

theorem placeVec_sum (vs : List (List K)) (off i : Nat) :
    ((List.range vs.length).map fun k =>
      placeVec (off + startOf (vs.map List.length) k) (vs.getD k []) i).sum =
      if off ≤ i then vs.flatten.getD (i - off) 0 else 0 := by
  induction vs generalizing off with
  | nil => simp
  | cons v t ih =>
    rw [List.length_cons, List.range_succ_eq_map, List.map_cons, List.sum_cons, List.map_map]
    have hrest : (List.map ((fun k => placeVec (off + startOf (List.map List.length (v :: t)) k)
        ((v :: t).getD k []) i) ∘ Nat.succ) (List.range t.length)) =
        (List.range t.length).map fun k =>
          placeVec ((off + v.length) + startOf (t.map List.length) k) (t.getD k []) i := by
      apply List.map_congr_left
      intro k _
      simp only [Function.comp, startOf, List.map_cons, Nat.succ_eq_add_one, List.take_succ_cons,
        List.sum_cons, List.getD_cons_succ]
      congr 1
      omega
    rw [hrest, ih (off + v.length)]
    simp only [startOf, List.take_zero, List.sum_nil, Nat.add_zero, List.getD_cons_zero, List.flatten_cons]
    unfold placeVec
    by_cases h1 : off ≤ i
    · simp only [if_pos h1]
      by_cases h2 : i - off < v.length
      · have h3 : ¬ off + v.length ≤ i := by omega
        rw [if_neg h3, List.getD_append _ _ _ _ h2]
        simp
      · have h3 : off + v.length ≤ i := by omega
        rw [if_pos h3, List.getD_append_right _ _ _ _ (by omega), List.getD_eq_default _ _ (by omega)]
        simp only [zero_add]
        congr 1
        omega
    · have h3 : ¬ off + v.length ≤ i := by omega
      simp [h1, h3]

theorem calcFextAt_eq (ps : List (Nat × Nat)) (vs : List (List K))
    (h : vs.map List.length = panelSizes ps) (i : Nat) :
    calcFextAt ps vs i = vs.flatten.getD i 0 := by
  have hl : vs.length = ps.length := by
    have := congrArg List.length h
    simpa [panelSizes] using this
  have : calcFextAt ps vs i = ((List.range vs.length).map fun k =>
      placeVec (0 + startOf (vs.map List.length) k) (vs.getD k []) i).sum := by
    unfold calcFextAt
    congr 1
    apply List.ext_getElem
    · simp [init_length, hl]
    · intro k h1 h2
      have hk : k < ps.length := by
        have : k < vs.length := by simpa using h2
        omega
      simp only [List.getElem_zipWith, List.getElem_map, List.getElem_range]
      rw [init_getElem ps k hk, List.getD_eq_getElem _ _ (by omega), h]
      simp
  rw [this, placeVec_sum]
  simp

theorem fext_concat_aux (ps : List (Nat × Nat)) (vs : List (List K))
    (h : vs.map List.length = panelSizes ps) : calcFext ps vs = vs.flatten := by
  have hlen : vs.flatten.length = getSize ps := by
    rw [List.length_flatten, h, getSize_eq]
  apply List.ext_getElem
  · simp [calcFext, hlen]
  · intro k h1 h2
    simp only [calcFext, List.getElem_map, List.getElem_range]
    rw [calcFextAt_eq ps vs h, List.getD_eq_getElem _ _ h2]

theorem fint_aux (ps : List (Nat × Nat)) (vs : List (List K)) (conns : List (Conn K)) (c : List K)
    (h : vs.map List.length = panelSizes ps) (i : Nat) (hi : i < getSize ps) :
    (calcFint ps vs conns c).getD i 0 = vs.flatten.getD i 0 + mulVecAt (k0Conn ps conns) c i := by
  rw [List.getD_eq_getElem _ _ (by simp [calcFint, hi])]
  simp only [calcFint, List.getElem_map, List.getElem_range]
  rw [calcFextAt_eq ps vs h]

/-- a piece of a concatenation sits at its prefix-sum offset -/
theorem flatten_piece (vs : List (List K)) (k t : Nat) (hk : k < vs.length) (ht : t < (vs.getD k []).length) :
    vs.flatten.getD (startOf (vs.map List.length) k + t) 0 = (vs.getD k []).getD t 0 := by
  induction vs generalizing k with
  | nil => simp at hk
  | cons v rest ih =>
    cases k with
    | zero =>
      simp only [List.getD_cons_zero] at ht
      simp only [startOf, List.take_zero, List.sum_nil, zero_add, List.flatten_cons, List.getD_cons_zero]
      exact List.getD_append _ _ _ _ ht
    | succ k =>
      simp only [List.getD_cons_succ] at ht
      simp only [startOf, List.map_cons, List.take_succ_cons, List.sum_cons, List.flatten_cons,
        List.getD_cons_succ]
      rw [List.getD_append_right _ _ _ _ (by omega)]
      have := ih k (by simpa using hk) ht
      simp only [startOf] at this
      rw [← this]
      congr 1
      omega

end Compmech.Asm
