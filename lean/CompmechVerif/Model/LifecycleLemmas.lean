/-
Helper lemmas about the life-cycle model `Model/Lifecycle.lean`.
The property theorems of `Props/C20.lean` are the `*_aux` lemmas of this file.

Structure (Panel machine):
* `Inv`: every lazily derived attribute is still in its initial state or equals its canonical function of
  the definition (plus: `r` is normalised to `0.` only after the model is fixed; `size` was computed from the
  current model);
* `hstep_inv`: every instruction preserves `Inv` (for `setR` under the static guard "the model is known",
  for `buildLamIfNone` when the offset is zero), lifted to programs (`run_inv`) and call sequences;
* `record_canon`: an instruction that succeeds in an `Inv` state consumed exactly the canonical provenances,
  lifted to programs (`run_canon`): results are the results of the canonical run `crun`;
* `crun_regs`: a program that reads back only output attributes it wrote itself (`regOK`) returns a result
  that does not depend on the stored output attributes.
-/
import CompmechVerif.Model.Lifecycle

namespace Compmech.Lifecycle.Panel

/-! ### the invariant -/

def Inv (d : Def) (h : Hidden) : Prop :=
  (h.model = d.model ∨ h.model = cModel d) ∧
  (h.r = initR d ∨ (h.r = .zero ∧ d.rGiven = false ∧ h.model ≠ .none)) ∧
  (h.plyts = initSeq d.plyts ∨ (h.plyts = .rep ∧ d.plyts = false)) ∧
  (h.lps = initSeq d.laminaprops ∨ (h.lps = .rep ∧ d.laminaprops = false)) ∧
  (h.lam = .none ∨ h.lam = cLam d) ∧
  (h.F = .none ∨ h.F = cF d) ∧
  (h.size = .missing ∨ ∃ m, h.size = .of m ∧ h.model = .valid m) ∧
  (h.mach = d.mach ∨ (d.mach = .eq1 ∧ h.mach = .bumped))

theorem inv_init (d : Def) : Inv d (init d) := by
  simp [Inv, init]

/-- the model, once a data-base key, is what the definition determines -/
theorem model_canon {d : Def} {h : Hidden} (hi : Inv d h) {m : MName} (hm : h.model = .valid m) :
    cModel d = .valid m := by
  rcases hi.1 with h1 | h1
  · have : d.model = .valid m := by rw [← h1, hm]
    simp [cModel, this]
  · rw [← h1, hm]

theorem model_none_def {d : Def} {h : Hidden} (hi : Inv d h) (hm : h.model = .none) : d.model = .none := by
  rcases hi.1 with h1 | h1
  · rw [← h1, hm]
  · cases hd : d.model with
    | none => rfl
    | valid m => simp [cModel, hd, hm] at h1
    | bogus => simp [cModel, hd, hm] at h1

/-! ### static program properties -/

/-- instructions whose success implies that `self.model` is a data-base key -/
def establishes : Instr → Bool
  | .modelCheck _ _ | .setSize | .supports _ _ | .kern _ | .kernY _ _ | .setF | .needLamF => true
  | _ => false

/-- instructions that are only sound once the model is known -/
def needsGuard : Instr → Bool
  | .setR => true
  | .when _ i => needsGuard i
  | _ => false

/-- `setR` occurs only after an instruction that established the model -/
def guarded : Bool → List Instr → Bool
  | _, [] => true
  | mv, i :: is => (mv || !needsGuard i) && guarded (mv || establishes i) is

/-- instructions that build a laminate without the offset -/
def noOffset : Instr → Bool
  | .buildLamIfNone => true
  | .when _ i => noOffset i
  | _ => false

def ModelKnown (h : Hidden) : Prop := ∃ m, h.model = .valid m

theorem kernStep_ok {h h' : Hidden} {k : Kern} (hs : kernStep h k = .ok h') :
    h' = h ∧ ∃ m, h.model = .valid m ∧ firstFail h (needs m k) = none := by
  unfold kernStep at hs
  split at hs
  · rename_i m hm
    split at hs
    · simp at hs
    · rename_i hf
      simp at hs
      exact ⟨hs.symm, m, hm, hf⟩
  · simp at hs

/-! ### every instruction preserves the invariant -/

theorem hstep_inv (d : Def) : ∀ (i : Instr) (h h' : Hidden), Inv d h → hstep d i h = .ok h' →
    (needsGuard i = true → ModelKnown h) → (noOffset i = true → d.offsetZero = true) → Inv d h' := by
  intro i
  induction i with
  | «when» c i ih =>
    intro h h' hi hs hg ho
    simp only [hstep] at hs
    split at hs
    · exact ih h h' hi hs (by simpa [needsGuard] using hg) (by simpa [noOffset] using ho)
    · simp at hs; subst hs; exact hi
  | deriveModel =>
    intro h h' hi hs _ _
    simp only [hstep] at hs
    split at hs
    · rename_i hm
      simp at hs; subst hs
      have hdm := model_none_def hi hm
      obtain ⟨_, i2, i3, i4, i5, i6, i7, i8⟩ := hi
      have hr : h.r = initR d := by
        rcases i2 with h2 | ⟨_, _, h2⟩
        · exact h2
        · exact absurd hm h2
      have hset : h.r.isSet = d.rGiven := by
        rw [hr]; unfold initR; cases d.rGiven <;> simp [RVal.isSet]
      refine ⟨Or.inr ?_, Or.inl hr, i3, i4, i5, i6, ?_, i8⟩
      · simp [cModel, hdm, hset]
      · rcases i7 with h7 | ⟨m, _, h7⟩
        · exact Or.inl h7
        · rw [hm] at h7; simp at h7
    · simp at hs; subst hs; exact hi
  | modelCheck e1 e2 =>
    intro h h' hi hs _ _
    simp only [hstep] at hs
    split at hs <;> simp at hs
    subst hs; exact hi
  | failUnless c e =>
    intro h h' hi hs _ _
    simp only [hstep] at hs
    split at hs <;> simp at hs
    subst hs; exact hi
  | deriveLps =>
    intro h h' hi hs _ _
    simp only [hstep] at hs
    split at hs
    · rename_i hl
      split at hs <;> simp at hs
      subst hs
      obtain ⟨i1, i2, i3, i4, i5, i6, i7, i8⟩ := hi
      refine ⟨i1, i2, i3, Or.inr ⟨rfl, ?_⟩, i5, i6, i7, i8⟩
      rcases i4 with h4 | ⟨h4, _⟩
      · rw [hl] at h4; unfold initSeq at h4; cases hb : d.laminaprops <;> simp [hb] at h4 ⊢
      · rw [hl] at h4; simp at h4
    · simp at hs; subst hs; exact hi
  | derivePlyts =>
    intro h h' hi hs _ _
    simp only [hstep] at hs
    split at hs
    · rename_i hl
      split at hs <;> simp at hs
      subst hs
      obtain ⟨i1, i2, i3, i4, i5, i6, i7, i8⟩ := hi
      refine ⟨i1, i2, Or.inr ⟨rfl, ?_⟩, i4, i5, i6, i7, i8⟩
      rcases i3 with h3 | ⟨h3, _⟩
      · rw [hl] at h3; unfold initSeq at h3; cases hb : d.plyts <;> simp [hb] at h3 ⊢
      · rw [hl] at h3; simp at h3
    · simp at hs; subst hs; exact hi
  | setSize =>
    intro h h' hi hs _ _
    simp only [hstep] at hs
    split at hs <;> simp at hs
    rename_i m hm
    subst hs
    obtain ⟨i1, i2, i3, i4, i5, i6, _, i8⟩ := hi
    exact ⟨i1, i2, i3, i4, i5, i6, Or.inr ⟨m, rfl, hm⟩, i8⟩
  | setAlpha =>
    intro h h' hi hs _ _
    simp only [hstep] at hs
    simp at hs; subst hs; exact hi
  | setR =>
    intro h h' hi hs hg _
    simp only [hstep] at hs
    simp at hs; subst hs
    obtain ⟨m, hm⟩ := hg rfl
    obtain ⟨i1, i2, i3, i4, i5, i6, i7, i8⟩ := hi
    refine ⟨i1, ?_, i3, i4, i5, i6, i7, i8⟩
    by_cases hr : h.r = .none
    · right
      refine ⟨by simp [hr], ?_, by simp [hm]⟩
      rcases i2 with h2 | ⟨h2, _, _⟩
      · rw [hr] at h2; unfold initR at h2; cases hb : d.rGiven <;> simp [hb] at h2 ⊢
      · rw [hr] at h2; simp at h2
    · simpa [hr, hm] using i2
  | buildLam =>
    intro h h' hi hs _ _
    simp only [hstep] at hs
    split at hs
    · simp at hs
    · rename_i hn
      simp at hs; subst hs
      obtain ⟨i1, i2, i3, i4, _, i6, i7, i8⟩ := hi
      refine ⟨i1, i2, i3, i4, Or.inr ?_, i6, i7, i8⟩
      have hp : h.plyts = cSeq d.plyts := by
        rcases i3 with h3 | ⟨h3, hb⟩
        · rw [h3]; unfold initSeq cSeq; cases hb : d.plyts <;> simp [hb, h3, initSeq] at hn ⊢
        · rw [h3]; simp [cSeq, hb]
      have hl : h.lps = cSeq d.laminaprops := by
        rcases i4 with h4 | ⟨h4, hb⟩
        · rw [h4]; unfold initSeq cSeq; cases hb : d.laminaprops <;> simp [hb, h4, initSeq] at hn ⊢
        · rw [h4]; simp [cSeq, hb]
      simp [cLam, hp, hl]
  | buildLamIfNone =>
    intro h h' hi hs _ ho
    simp only [hstep] at hs
    split at hs
    · split at hs
      · simp at hs
      · rename_i hn
        simp at hs; subst hs
        have hz := ho rfl
        obtain ⟨i1, i2, i3, i4, _, i6, i7, i8⟩ := hi
        refine ⟨i1, i2, i3, i4, Or.inr ?_, i6, i7, i8⟩
        have hp : h.plyts = cSeq d.plyts := by
          rcases i3 with h3 | ⟨h3, hb⟩
          · rw [h3]; unfold initSeq cSeq; cases hb : d.plyts <;> simp [hb, h3, initSeq] at hn ⊢
          · rw [h3]; simp [cSeq, hb]
        have hl : h.lps = cSeq d.laminaprops := by
          rcases i4 with h4 | ⟨h4, hb⟩
          · rw [h4]; unfold initSeq cSeq; cases hb : d.laminaprops <;> simp [hb, h4, initSeq] at hn ⊢
          · rw [h4]; simp [cSeq, hb]
        simp [cLam, hp, hl, offTok, hz]
    · simp at hs; subst hs; exact hi
  | setF =>
    intro h h' hi hs _ _
    simp only [hstep] at hs
    split at hs
    · simp at hs
    · rename_i hn
      split at hs <;> simp at hs
      subst hs
      obtain ⟨i1, i2, i3, i4, i5, _, i7, i8⟩ := hi
      refine ⟨i1, i2, i3, i4, i5, Or.inr ?_, i7, i8⟩
      rcases i5 with h5 | h5
      · exact absurd h5 hn
      · simp [cF, h5]
  | supports f e =>
    intro h h' hi hs _ _
    simp only [hstep] at hs
    split at hs
    · split at hs <;> simp at hs
      subst hs; exact hi
    · simp at hs
  | needLamF =>
    intro h h' hi hs _ _
    simp only [hstep] at hs
    split at hs
    · simp at hs
    · split at hs <;> simp at hs
      subst hs; exact hi
  | needF e =>
    intro h h' hi hs _ _
    simp only [hstep] at hs
    split at hs <;> simp at hs
    subst hs; exact hi
  | mach =>
    intro h h' hi hs _ _
    simp only [hstep] at hs
    split at hs
    · simp at hs
    · simp at hs
    · rename_i hm
      simp at hs; subst hs
      obtain ⟨i1, i2, i3, i4, i5, i6, i7, i8⟩ := hi
      refine ⟨i1, i2, i3, i4, i5, i6, i7, Or.inr ⟨?_, rfl⟩⟩
      rcases i8 with h8 | ⟨h8, h8'⟩
      · rw [← h8, hm]
      · exact h8
    · simp at hs; subst hs; exact hi
  | kern k =>
    intro h h' hi hs _ _
    simp only [hstep] at hs
    rw [(kernStep_ok hs).1]; exact hi
  | kernY a b =>
    intro h h' hi hs _ _
    simp only [hstep] at hs
    rw [(kernStep_ok hs).1]; exact hi
  | kernFlow =>
    intro h h' hi hs _ _
    simp only [hstep] at hs
    split at hs
    · rw [(kernStep_ok hs).1]; exact hi
    · rw [(kernStep_ok hs).1]; exact hi
    · simp at hs
  | push => intro h h' hi hs _ _; simp [hstep] at hs; subst hs; exact hi
  | drop => intro h h' hi hs _ _; simp [hstep] at hs; subst hs; exact hi
  | out a => intro h h' hi hs _ _; simp [hstep] at hs; subst hs; exact hi
  | readReg r => intro h h' hi hs _ _; simp [hstep] at hs; subst hs; exact hi
  | touch a => intro h h' hi hs _ _; simp [hstep] at hs; subst hs; exact hi

/-! ### the model, once known, stays; guards -/

theorem hstep_model (d : Def) : ∀ (i : Instr) (h h' : Hidden), hstep d i h = .ok h' →
    h'.model = h.model ∨ h.model = .none := by
  intro i
  induction i with
  | «when» c i ih =>
    intro h h' hs
    simp only [hstep] at hs
    split at hs
    · exact ih h h' hs
    · simp at hs; subst hs; exact Or.inl rfl
  | kern k => intro h h' hs; simp only [hstep] at hs; rw [(kernStep_ok hs).1]; exact Or.inl rfl
  | kernY a b => intro h h' hs; simp only [hstep] at hs; rw [(kernStep_ok hs).1]; exact Or.inl rfl
  | kernFlow =>
    intro h h' hs
    simp only [hstep] at hs
    split at hs
    · rw [(kernStep_ok hs).1]; exact Or.inl rfl
    · rw [(kernStep_ok hs).1]; exact Or.inl rfl
    · simp at hs
  | deriveModel =>
    intro h h' hs
    simp only [hstep] at hs
    split at hs
    · rename_i hm; exact Or.inr hm
    · simp at hs; subst hs; exact Or.inl rfl
  | _ =>
    intro h h' hs
    simp only [hstep] at hs
    (repeat' split at hs) <;> simp at hs <;> subst hs <;> exact Or.inl rfl

theorem hstep_known (d : Def) (i : Instr) (h h' : Hidden) (hs : hstep d i h = .ok h') (hk : ModelKnown h) :
    ModelKnown h' := by
  obtain ⟨m, hm⟩ := hk
  rcases hstep_model d i h h' hs with h1 | h1
  · exact ⟨m, by rw [h1, hm]⟩
  · rw [hm] at h1; simp at h1

theorem hstep_establishes (d : Def) (i : Instr) (h h' : Hidden) (hs : hstep d i h = .ok h')
    (he : establishes i = true) : ModelKnown h' := by
  cases i <;> simp [establishes] at he
  case modelCheck e1 e2 =>
    simp only [hstep] at hs
    split at hs <;> simp at hs
    rename_i m hm; subst hs; exact ⟨m, hm⟩
  case setSize =>
    simp only [hstep] at hs
    split at hs <;> simp at hs
    rename_i m hm; subst hs; exact ⟨m, hm⟩
  case supports f e =>
    simp only [hstep] at hs
    split at hs
    · rename_i m hm
      split at hs <;> simp at hs
      subst hs; exact ⟨m, hm⟩
    · simp at hs
  case kern k =>
    simp only [hstep] at hs
    obtain ⟨h1, m, hm, _⟩ := kernStep_ok hs
    rw [h1]; exact ⟨m, hm⟩
  case kernY a b =>
    simp only [hstep] at hs
    obtain ⟨h1, m, hm, _⟩ := kernStep_ok hs
    rw [h1]; exact ⟨m, hm⟩
  case setF =>
    simp only [hstep] at hs
    split at hs
    · simp at hs
    · split at hs <;> simp at hs
      rename_i m hm; subst hs; exact ⟨m, hm⟩
  case needLamF =>
    simp only [hstep] at hs
    split at hs
    · simp at hs
    · split at hs <;> simp at hs
      rename_i m hm; subst hs; exact ⟨m, hm⟩

/-! ### programs preserve the invariant -/

theorem exec_ok {d : Def} {i : Instr} {s s' : St} (hs : exec d i s = .ok s') :
    hstep d i s.h = .ok s'.h ∧
      (s'.x, s'.g) = rstep i (wstep d i (record d i s.h) s.x, s.g) := by
  unfold exec at hs
  split at hs
  · simp at hs
  · rename_i h' hh
    simp at hs; subst hs
    exact ⟨hh, rfl⟩

theorem run_inv (d : Def) : ∀ (p : List Instr) (mv : Bool) (s : St), guarded mv p = true →
    (mv = true → ModelKnown s.h) → (d.offsetZero = true ∨ p.all (fun i => !noOffset i) = true) →
    Inv d s.h → Inv d (run d p s).1.h := by
  intro p
  induction p with
  | nil => intro mv s _ _ _ hi; simpa [run] using hi
  | cons i is ih =>
    intro mv s hg hk ho hi
    simp only [run]
    split
    · exact hi
    · rename_i s' hs
      obtain ⟨hh, _⟩ := exec_ok hs
      simp only [guarded, Bool.and_eq_true, Bool.or_eq_true, Bool.not_eq_true'] at hg
      have hi' : Inv d s'.h := by
        refine hstep_inv d i s.h s'.h hi hh ?_ ?_
        · intro hn
          rcases hg.1 with h1 | h1
          · exact hk h1
          · rw [hn] at h1; simp at h1
        · intro hn
          rcases ho with h1 | h1
          · exact h1
          · simp [List.all_cons, hn] at h1
      refine ih (mv || establishes i) s' hg.2 ?_ ?_ hi'
      · intro hm
        simp only [Bool.or_eq_true] at hm
        rcases hm with h1 | h1
        · exact hstep_known d i s.h s'.h hh (hk h1)
        · exact hstep_establishes d i s.h s'.h hh h1
      · rcases ho with h1 | h1
        · exact Or.inl h1
        · right; simp [List.all_cons] at h1 ⊢; exact h1.2

/-! ### a successful instruction consumed canonical provenances -/

theorem cMach_ne_eq1 (d : Def) : cMach d ≠ .eq1 := by
  unfold cMach; split <;> simp_all

theorem needVal_canon {d : Def} {h : Hidden} (hi : Inv d h) {n : Need} (hn : needFail h n = none) :
    needVal h n = needVal (canonH d) n := by
  obtain ⟨_, i2, i3, _, i5, _, i7, _⟩ := hi
  cases n with
  | r =>
    simp only [needFail] at hn
    split at hn
    · simp at hn
    · rename_i hr
      simp only [needVal, canonH]
      rcases i2 with h2 | ⟨h2, hb, _⟩
      · rw [h2] at hr ⊢; unfold initR cR at *; cases hb : d.rGiven <;> simp [hb] at hr ⊢
      · rw [h2]; simp [cR, hb]
  | alpha => rfl
  | lam =>
    simp only [needFail] at hn
    split at hn
    · simp at hn
    · rename_i hl
      rcases i5 with h5 | h5
      · exact absurd h5 hl
      · simp [needVal, canonH, h5]
  | plyts =>
    simp only [needFail] at hn
    split at hn
    · simp at hn
    · rename_i hp
      simp only [needVal, canonH]
      rcases i3 with h3 | ⟨h3, hb⟩
      · rw [h3] at hp ⊢; unfold initSeq cSeq at *; cases hb : d.plyts <;> simp [hb] at hp ⊢
      · rw [h3]; simp [cSeq, hb]
  | size =>
    simp only [needFail] at hn
    split at hn
    · simp at hn
    · rename_i hz
      rcases i7 with h7 | ⟨m, h7, hm⟩
      · exact absurd h7 hz
      · have hc := model_canon ⟨‹_›, i2, i3, ‹_›, i5, ‹_›, Or.inr ⟨m, h7, hm⟩, ‹_›⟩ hm
        simp [needVal, canonH, cSize, hc, h7]

theorem map_needVal_canon {d : Def} {h : Hidden} (hi : Inv d h) : ∀ (l : List Need), firstFail h l = none →
    l.map (needVal h) = l.map (needVal (canonH d)) := by
  intro l
  induction l with
  | nil => intro _; rfl
  | cons n ns ih =>
    intro hf
    simp only [firstFail] at hf
    split at hf
    · simp at hf
    · rename_i hn
      simp only [List.map_cons, needVal_canon hi hn, ih hf]

theorem kernRec_canon {d : Def} {h h' : Hidden} (hi : Inv d h) {k : Kern} (hs : kernStep h k = .ok h') :
    kernRec h k = kernRec (canonH d) k := by
  obtain ⟨_, m, hm, hf⟩ := kernStep_ok hs
  have hc := model_canon hi hm
  have : (canonH d).model = .valid m := hc
  simp only [kernRec, hm, this, map_needVal_canon hi _ hf]

theorem record_canon (d : Def) : ∀ (i : Instr) (h h' : Hidden), Inv d h → hstep d i h = .ok h' →
    record d i h = record d i (canonH d) := by
  intro i
  induction i with
  | «when» c i ih =>
    intro h h' hi hs
    simp only [hstep] at hs
    simp only [record]
    split at hs
    · rename_i hc; simp only [hc, if_true]; exact ih h h' hi hs
    · rename_i hc; simp [hc]
  | needLamF =>
    intro h h' hi hs
    simp only [hstep] at hs
    split at hs
    · simp at hs
    · rename_i hl
      rcases hi.2.2.2.2.1 with h5 | h5
      · exact absurd h5 hl
      · simp [record, canonH, h5]
  | needF e =>
    intro h h' hi hs
    simp only [hstep] at hs
    split at hs
    · simp at hs
    · rename_i hf
      rcases hi.2.2.2.2.2.1 with h6 | h6
      · exact absurd h6 hf
      · simp [record, canonH, h6]
  | mach =>
    intro h h' hi hs
    have h8 := hi.2.2.2.2.2.2.2
    have hne := cMach_ne_eq1 d
    simp only [record, canonH, hne, if_false]
    simp only [hstep] at hs
    rcases h8 with h8 | ⟨h8, h8'⟩
    · rw [h8] at hs ⊢
      unfold cMach
      cases hm : d.mach <;> simp [hm] at hs ⊢
    · rw [h8']; simp [cMach, h8]
  | kern k => intro h h' hi hs; simp only [hstep] at hs; simp only [record]; exact kernRec_canon hi hs
  | kernY a b => intro h h' hi hs; simp only [hstep] at hs; simp only [record]; exact kernRec_canon hi hs
  | kernFlow =>
    intro h h' hi hs
    simp only [hstep] at hs
    simp only [record]
    split at hs
    · rename_i hf; simp only [hf, if_true]; exact kernRec_canon hi hs
    · rename_i hf; simp only [hf]; exact kernRec_canon hi hs
    · simp at hs
  | _ => intro h h' _ _; rfl

/-! ### the canonical run -/

/-- one instruction on (working data, output attributes), consuming the *canonical* provenances -/
def cstep (d : Def) (i : Instr) (p : Work × Regs) : Work × Regs :=
  rstep i (wstep d i (record d i (canonH d)) p.1, p.2)

def crun (d : Def) : List Instr → Work × Regs → Work × Regs
  | [], p => p
  | i :: is, p => crun d is (cstep d i p)

/-- results of a program that ran to completion from an `Inv` state are those of the canonical run;
the invariant is kept (also when the program raised) -/
theorem run_canon (d : Def) : ∀ (p : List Instr) (mv : Bool) (s : St), guarded mv p = true →
    (mv = true → ModelKnown s.h) → (d.offsetZero = true ∨ p.all (fun i => !noOffset i) = true) →
    Inv d s.h → (run d p s).2 = none → ((run d p s).1.x, (run d p s).1.g) = crun d p (s.x, s.g) := by
  intro p
  induction p with
  | nil => intro mv s _ _ _ _ _; simp [run, crun]
  | cons i is ih =>
    intro mv s hg hk ho hi hn
    cases hs : exec d i s with
    | error e => simp [run, hs] at hn
    | ok s' =>
      simp only [run, hs] at hn ⊢
      obtain ⟨hh, hx⟩ := exec_ok hs
      simp only [guarded, Bool.and_eq_true, Bool.or_eq_true, Bool.not_eq_true'] at hg
      have hi' : Inv d s'.h := by
        refine hstep_inv d i s.h s'.h hi hh ?_ ?_
        · intro hn
          rcases hg.1 with h1 | h1
          · exact hk h1
          · rw [hn] at h1; simp at h1
        · intro hn
          rcases ho with h1 | h1
          · exact h1
          · simp [List.all_cons, hn] at h1
      have hrec := record_canon d i s.h s'.h hi hh
      have := ih (mv || establishes i) s' hg.2 (by
          intro hm
          simp only [Bool.or_eq_true] at hm
          rcases hm with h1 | h1
          · exact hstep_known d i s.h s'.h hh (hk h1)
          · exact hstep_establishes d i s.h s'.h hh h1) (by
          rcases ho with h1 | h1
          · exact Or.inl h1
          · right; simp [List.all_cons] at h1 ⊢; exact h1.2) hi' hn
      rw [this, hx, hrec]
      simp [crun, cstep]

/-! ### output attributes are only read back after they were written by the same call -/

def regOK : List Reg → List Instr → Bool
  | _, [] => true
  | W, i :: is =>
    (match i with
     | .readReg r => W.contains r
     | _ => true) &&
    regOK (match i with
      | .out a => (match a.reg? with
        | some r => r :: W
        | none => W)
      | _ => W) is

theorem Regs.get_set (g : Regs) (r r' : Reg) (t : Option Tok) :
    (g.set r t).get r' = if r' = r then t else g.get r' := by
  cases r <;> cases r' <;> simp [Regs.set, Regs.get]

theorem crun_regs (d : Def) : ∀ (p : List Instr) (W : List Reg) (x : Work) (g1 g2 : Regs), regOK W p = true →
    (∀ r ∈ W, g1.get r = g2.get r) → (crun d p (x, g1)).1 = (crun d p (x, g2)).1 := by
  intro p
  induction p with
  | nil => intro W x g1 g2 _ _; rfl
  | cons i is ih =>
    intro W x g1 g2 hok hag
    simp only [regOK, Bool.and_eq_true] at hok
    simp only [crun, cstep]
    cases i with
    | out a =>
      simp only [rstep]
      cases ha : a.reg? with
      | none =>
        simp only [ha] at hok ⊢
        exact ih W _ g1 g2 hok.2 hag
      | some r =>
        simp only [ha] at hok ⊢
        refine ih (r :: W) _ _ _ hok.2 ?_
        intro r' hr'
        rw [Regs.get_set, Regs.get_set]
        split
        · rfl
        · rename_i hne
          simp only [List.mem_cons] at hr'
          rcases hr' with h1 | h1
          · exact absurd h1 hne
          · exact hag r' h1
    | readReg r =>
      simp only [rstep]
      have hr : r ∈ W := by simpa using hok.1
      rw [hag r hr]
      exact ih W _ g1 g2 hok.2 hag
    | _ =>
      simp only [rstep]
      exact ih W _ g1 g2 hok.2 hag

/-! ### static facts about the programs of the public calls -/

theorem prog_guarded (op : Op) : guarded false (prog op) = true := by
  cases op <;> first | rfl | (rename_i b; cases b <;> rfl)

theorem prog_regOK (op : Op) : regOK [] (prog op) = true := by
  cases op <;> first | rfl | (rename_i b; cases b <;> rfl)

theorem prog_noOffset (op : Op) (h : op ≠ .ktkr) : (prog op).all (fun i => !noOffset i) = true := by
  cases op <;> first | rfl | (rename_i b; cases b <;> rfl) | exact absurd rfl h

/-! ### the property lemmas -/

def InScope (d : Def) (op : Op) : Prop := d.offsetZero = true ∨ op ≠ .ktkr

theorem step_preserves_inv_aux (d : Def) (s : State) (op : Op) (hs : InScope d op) (hi : Inv d s.h) :
    Inv d (step d s op).1.h := by
  simp only [step]
  refine run_inv d (prog op) false ⟨s.h, Work.start, s.g⟩ (prog_guarded op) (by simp) ?_ hi
  rcases hs with h1 | h1
  · exact Or.inl h1
  · exact Or.inr (prog_noOffset op h1)

theorem runOps_inv_aux (d : Def) : ∀ (ops : List Op) (s : State), (∀ op ∈ ops, InScope d op) → Inv d s.h →
    Inv d (runOps d s ops).h := by
  intro ops
  induction ops with
  | nil => intro s _ hi; exact hi
  | cons op ops ih =>
    intro s hs hi
    simp only [runOps]
    exact ih _ (fun o ho => hs o (List.mem_cons_of_mem _ ho))
      (step_preserves_inv_aux d s op (hs op (List.mem_cons_self ..)) hi)

/-- canonical result of a call: a function of the definition and the call only -/
def canonResult (d : Def) (op : Op) : List Tok := result (crun d (prog op) (Work.start, Regs.empty)).1

theorem step_result_aux (d : Def) (s : State) (op : Op) (hs : InScope d op) (hi : Inv d s.h) (res : List Tok)
    (hok : (step d s op).2 = .ok res) : res = canonResult d op := by
  simp only [step] at hok
  split at hok
  · rename_i hn
    simp at hok
    have hc := run_canon d (prog op) false ⟨s.h, Work.start, s.g⟩ (prog_guarded op) (by simp)
      (by rcases hs with h1 | h1
          · exact Or.inl h1
          · exact Or.inr (prog_noOffset op h1)) hi hn
    have hx : (run d (prog op) ⟨s.h, Work.start, s.g⟩).1.x = (crun d (prog op) (Work.start, s.g)).1 := by
      have := congrArg Prod.fst hc
      simpa using this
    rw [← hok, hx, canonResult,
      crun_regs d (prog op) [] Work.start s.g Regs.empty (prog_regOK op) (by simp)]
  · simp at hok

/-! ### which calls can be the first call -/

theorem run_append (d : Def) : ∀ (p q : List Instr) (s : St),
    run d (p ++ q) s = (match run d p s with
      | (s1, none) => run d q s1
      | r => r) := by
  intro p
  induction p with
  | nil => intro q s; simp [run]
  | cons i is ih =>
    intro q s
    simp only [List.cons_append, run]
    cases hs : exec d i s with
    | error e => simp
    | ok s' => simp only []; exact ih q s'

/-- a property of the hidden attributes that every instruction of `p` keeps holds after `p` -/
theorem run_keeps (d : Def) (P : Hidden → Prop) : ∀ (p : List Instr) (s : St),
    (∀ i ∈ p, ∀ h h', P h → hstep d i h = .ok h' → P h') → P s.h → P (run d p s).1.h := by
  intro p
  induction p with
  | nil => intro s _ hp; simpa [run] using hp
  | cons i is ih =>
    intro s hk hp
    simp only [run]
    cases hs : exec d i s with
    | error e => simpa using hp
    | ok s' =>
      simp only []
      refine ih s' (fun j hj => hk j (List.mem_cons_of_mem _ hj)) ?_
      exact hk i (List.mem_cons_self ..) s.h s'.h hp (exec_ok hs).1

/-- if `P` survives the prefix `p` and instruction `i` raises whenever `P` holds, the program raises -/
theorem run_fails_at (d : Def) (P : Hidden → Prop) (p : List Instr) (i : Instr) (q : List Instr) (s : St)
    (hk : ∀ j ∈ p, ∀ h h', P h → hstep d j h = .ok h' → P h') (hp : P s.h)
    (hf : ∀ h, P h → ∃ e, hstep d i h = .error e) : (run d (p ++ i :: q) s).2 ≠ none := by
  rw [run_append]
  have h1 := run_keeps d P p s hk hp
  cases hr : run d p s with
  | mk s1 o =>
    cases o with
    | some e => simp
    | none =>
      simp only []
      rw [hr] at h1
      obtain ⟨e, he⟩ := hf s1.h h1
      simp [run, exec, he]

def setsLam : Instr → Bool
  | .buildLam | .buildLamIfNone => true
  | .when _ i => setsLam i
  | _ => false
def setsF : Instr → Bool
  | .setF => true
  | .when _ i => setsF i
  | _ => false
def setsSize : Instr → Bool
  | .setSize => true
  | .when _ i => setsSize i
  | _ => false
def setsAlpha : Instr → Bool
  | .setAlpha => true
  | .when _ i => setsAlpha i
  | _ => false
def setsModel : Instr → Bool
  | .deriveModel => true
  | .when _ i => setsModel i
  | _ => false

theorem keeps_lam (d : Def) : ∀ (i : Instr), setsLam i = false → ∀ h h', h.lam = .none → hstep d i h = .ok h' →
    h'.lam = .none := by
  intro i
  induction i with
  | «when» c i ih =>
    intro hn h h' hl hs
    simp only [hstep] at hs
    split at hs
    · exact ih (by simpa [setsLam] using hn) h h' hl hs
    · simp at hs; subst hs; exact hl
  | kern k => intro _ h h' hl hs; simp only [hstep] at hs; rw [(kernStep_ok hs).1]; exact hl
  | kernY a b => intro _ h h' hl hs; simp only [hstep] at hs; rw [(kernStep_ok hs).1]; exact hl
  | kernFlow =>
    intro _ h h' hl hs
    simp only [hstep] at hs
    split at hs
    · rw [(kernStep_ok hs).1]; exact hl
    · rw [(kernStep_ok hs).1]; exact hl
    · simp at hs
  | buildLam => intro hn; simp [setsLam] at hn
  | buildLamIfNone => intro hn; simp [setsLam] at hn
  | _ =>
    intro _ h h' hl hs
    simp only [hstep] at hs
    (repeat' split at hs) <;> simp at hs <;> subst hs <;> exact hl

theorem keeps_F (d : Def) : ∀ (i : Instr), setsF i = false → ∀ h h', h.F = .none → hstep d i h = .ok h' →
    h'.F = .none := by
  intro i
  induction i with
  | «when» c i ih =>
    intro hn h h' hl hs
    simp only [hstep] at hs
    split at hs
    · exact ih (by simpa [setsF] using hn) h h' hl hs
    · simp at hs; subst hs; exact hl
  | kern k => intro _ h h' hl hs; simp only [hstep] at hs; rw [(kernStep_ok hs).1]; exact hl
  | kernY a b => intro _ h h' hl hs; simp only [hstep] at hs; rw [(kernStep_ok hs).1]; exact hl
  | kernFlow =>
    intro _ h h' hl hs
    simp only [hstep] at hs
    split at hs
    · rw [(kernStep_ok hs).1]; exact hl
    · rw [(kernStep_ok hs).1]; exact hl
    · simp at hs
  | setF => intro hn; simp [setsF] at hn
  | _ =>
    intro _ h h' hl hs
    simp only [hstep] at hs
    (repeat' split at hs) <;> simp at hs <;> subst hs <;> exact hl

theorem keeps_size (d : Def) : ∀ (i : Instr), setsSize i = false → ∀ h h', h.size = .missing →
    hstep d i h = .ok h' → h'.size = .missing := by
  intro i
  induction i with
  | «when» c i ih =>
    intro hn h h' hl hs
    simp only [hstep] at hs
    split at hs
    · exact ih (by simpa [setsSize] using hn) h h' hl hs
    · simp at hs; subst hs; exact hl
  | kern k => intro _ h h' hl hs; simp only [hstep] at hs; rw [(kernStep_ok hs).1]; exact hl
  | kernY a b => intro _ h h' hl hs; simp only [hstep] at hs; rw [(kernStep_ok hs).1]; exact hl
  | kernFlow =>
    intro _ h h' hl hs
    simp only [hstep] at hs
    split at hs
    · rw [(kernStep_ok hs).1]; exact hl
    · rw [(kernStep_ok hs).1]; exact hl
    · simp at hs
  | setSize => intro hn; simp [setsSize] at hn
  | _ =>
    intro _ h h' hl hs
    simp only [hstep] at hs
    (repeat' split at hs) <;> simp at hs <;> subst hs <;> exact hl

theorem keeps_alpha (d : Def) : ∀ (i : Instr), setsAlpha i = false → ∀ h h', h.alpha = false →
    hstep d i h = .ok h' → h'.alpha = false := by
  intro i
  induction i with
  | «when» c i ih =>
    intro hn h h' hl hs
    simp only [hstep] at hs
    split at hs
    · exact ih (by simpa [setsAlpha] using hn) h h' hl hs
    · simp at hs; subst hs; exact hl
  | kern k => intro _ h h' hl hs; simp only [hstep] at hs; rw [(kernStep_ok hs).1]; exact hl
  | kernY a b => intro _ h h' hl hs; simp only [hstep] at hs; rw [(kernStep_ok hs).1]; exact hl
  | kernFlow =>
    intro _ h h' hl hs
    simp only [hstep] at hs
    split at hs
    · rw [(kernStep_ok hs).1]; exact hl
    · rw [(kernStep_ok hs).1]; exact hl
    · simp at hs
  | setAlpha => intro hn; simp [setsAlpha] at hn
  | _ =>
    intro _ h h' hl hs
    simp only [hstep] at hs
    (repeat' split at hs) <;> simp at hs <;> subst hs <;> exact hl

theorem keeps_model_none (d : Def) : ∀ (i : Instr), setsModel i = false → ∀ h h', h.model = .none →
    hstep d i h = .ok h' → h'.model = .none := by
  intro i
  induction i with
  | «when» c i ih =>
    intro hn h h' hl hs
    simp only [hstep] at hs
    split at hs
    · exact ih (by simpa [setsModel] using hn) h h' hl hs
    · simp at hs; subst hs; exact hl
  | kern k => intro _ h h' hl hs; simp only [hstep] at hs; rw [(kernStep_ok hs).1]; exact hl
  | kernY a b => intro _ h h' hl hs; simp only [hstep] at hs; rw [(kernStep_ok hs).1]; exact hl
  | kernFlow =>
    intro _ h h' hl hs
    simp only [hstep] at hs
    split at hs
    · rw [(kernStep_ok hs).1]; exact hl
    · rw [(kernStep_ok hs).1]; exact hl
    · simp at hs
  | deriveModel => intro hn; simp [setsModel] at hn
  | _ =>
    intro _ h h' hl hs
    simp only [hstep] at hs
    (repeat' split at hs) <;> simp at hs <;> subst hs <;> exact hl

theorem kern_fails_of_need {h : Hidden} {k : Kern} (n : Need) (hn : ∀ m, n ∈ needs m k)
    (hf : ∃ e, needFail h n = some e) : ∃ e, kernStep h k = .error e := by
  unfold kernStep
  cases hm : h.model with
  | none => exact ⟨_, rfl⟩
  | bogus => exact ⟨_, rfl⟩
  | valid m =>
    simp only []
    have : ∃ e, firstFail h (needs m k) = some e := by
      have hmem := hn m
      generalize needs m k = l at hmem
      induction l with
      | nil => simp at hmem
      | cons a as ih =>
        simp only [firstFail]
        cases ha : needFail h a with
        | some e => exact ⟨e, rfl⟩
        | none =>
          simp only []
          simp only [List.mem_cons] at hmem
          rcases hmem with h1 | h1
          · subst h1; obtain ⟨e, he⟩ := hf; rw [he] at ha; simp at ha
          · exact ih h1
    obtain ⟨e, he⟩ := this
    exact ⟨e, by simp [he]⟩

/-- outcome of a call as first call on a freshly defined object -/
def freshOutcome (d : Def) (op : Op) : Outcome := (step d (fresh d) op).2

theorem not_ok_of_run_err {d : Def} {op : Op} {s : State}
    (h : (run d (prog op) ⟨s.h, Work.start, s.g⟩).2 ≠ none) : (step d s op).2.isOk = false := by
  simp only [step]
  cases hr : (run d (prog op) ⟨s.h, Work.start, s.g⟩).2 with
  | none => exact absurd hr h
  | some e => rfl

/-- for EVERY definition: these calls raise when they are the first call (laminate, `F`, `size`,
`alpharad` are only derived by `calc_k0` / `get_size` / other calls) -/
theorem fresh_never_first_aux (d : Def) :
    (freshOutcome d (.kG false)).isOk = false ∧ (freshOutcome d .cA).isOk = false ∧
    (freshOutcome d (.fint false)).isOk = false ∧ (freshOutcome d .strain).isOk = false ∧
    (∀ f, (freshOutcome d (.stress f)).isOk = false) := by
  refine ⟨?_, ?_, ?_, ?_, ?_⟩
  · -- calc_kG0(c=c): `_get_lam_F` needs `self.lam`
    refine not_ok_of_run_err (run_fails_at d (fun h => h.lam = .none)
      (rebuild ++ [.setSize, .supports .matricesNum .KeyError, .setAlpha, .setR,
        .failUnless .y12none .NotImplementedError]) .needLamF [.kern .fkGnum, .out .kG0] _ ?_ rfl ?_)
    · intro j hj
      refine keeps_lam d j ?_
      simp [rebuild] at hj
      rcases hj with h | h | h | h | h | h | h | h | h | h <;> subst h <;> rfl
    · intro h hl; exact ⟨.RuntimeError, by simp [hstep, hl]⟩
  · -- calc_cA: `self.size`
    refine not_ok_of_run_err (run_fails_at d (fun h => h.size = .missing)
      [lookup, .supports .fcA .AttributeError] (.kern .sizeVal) [.kern .fcA, .out .cA] _ ?_ rfl ?_)
    · intro j hj
      refine keeps_size d j ?_
      simp [lookup] at hj
      rcases hj with h | h <;> subst h <;> rfl
    · intro h hl
      simp only [hstep]
      exact kern_fails_of_need .size (by intro m; cases m <;> simp [needs]) ⟨.AttributeError, by simp [needFail, hl]⟩
  · -- calc_fint(c): `self.F`
    refine not_ok_of_run_err (run_fails_at d (fun h => h.F = .none)
      [.modelCheck .ValueError .ValueError, .supports .matricesNum .ValueError, .setSize, .setAlpha, .setR]
      (.needF .ValueError) [.kern .fint] _ ?_ rfl ?_)
    · intro j hj
      refine keeps_F d j ?_
      simp at hj
      rcases hj with h | h | h | h | h <;> subst h <;> rfl
    · intro h hl; exact ⟨.ValueError, by simp [hstep, hl]⟩
  · -- strain: the field kernel reads `alpharad`
    refine not_ok_of_run_err (run_fails_at d (fun h => h.alpha = false)
      [.touch .Xs, .touch .Ys, lookup, .supports .fstrain .AttributeError] (.kern .fstrain)
      [.failUnless .alphaZero .NotImplementedError] _ ?_ rfl ?_)
    · intro j hj
      refine keeps_alpha d j ?_
      simp [lookup] at hj
      rcases hj with h | h | h | h <;> subst h <;> rfl
    · intro h hl
      simp only [hstep]
      exact kern_fails_of_need .alpha (by intro m; cases m <;> simp [needs]) ⟨.AttributeError, by simp [needFail, hl]⟩
  · intro f
    cases f
    · refine not_ok_of_run_err (run_fails_at d (fun h => h.alpha = false)
        [.touch .Xs, .touch .Ys, lookup, .supports .fstrain .AttributeError] (.kern .fstrain)
        [.failUnless .alphaZero .NotImplementedError, .needF .ValueError, .kern .stressMul] _ ?_ rfl ?_)
      · intro j hj
        refine keeps_alpha d j ?_
        simp [lookup] at hj
        rcases hj with h | h | h | h <;> subst h <;> rfl
      · intro h hl
        simp only [hstep]
        exact kern_fails_of_need .alpha (by intro m; cases m <;> simp [needs]) ⟨.AttributeError, by simp [needFail, hl]⟩
    · refine not_ok_of_run_err (run_fails_at d (fun h => h.alpha = false)
        [.touch .Xs, .touch .Ys, lookup, .supports .fstrain .AttributeError] (.kern .fstrain)
        [.failUnless .alphaZero .NotImplementedError, .kern .stressMul] _ ?_ rfl ?_)
      · intro j hj
        refine keeps_alpha d j ?_
        simp [lookup] at hj
        rcases hj with h | h | h | h <;> subst h <;> rfl
      · intro h hl
        simp only [hstep]
        exact kern_fails_of_need .alpha (by intro m; cases m <;> simp [needs]) ⟨.AttributeError, by simp [needFail, hl]⟩

/-- when the model is left to be derived (`model=None`, the documented use): the calls that do not run
`_rebuild` raise as first call, with these exception classes -/
theorem fresh_needs_rebuild_aux (d : Def) (hm : d.model = .none) :
    freshOutcome d .getSize = .err .KeyError ∧ (∀ sa, freshOutcome d (.kM sa) = .err .KeyError) ∧
    (∀ sa, freshOutcome d (.kA sa) = .err .TypeError) ∧ freshOutcome d .cA = .err .KeyError ∧
    (∀ f, freshOutcome d (.fint f) = .err .ValueError) ∧ freshOutcome d .uvw = .err .KeyError ∧
    freshOutcome d .strain = .err .KeyError ∧ (∀ f, freshOutcome d (.stress f) = .err .KeyError) := by
  refine ⟨?_, ?_, ?_, ?_, ?_, ?_, ?_, ?_⟩
  · simp [freshOutcome, step, fresh, init, prog, run, exec, hstep, hm]
  · intro sa; cases sa <;> simp [freshOutcome, step, fresh, init, prog, progKM, lookup, sizeUnless, run, exec, hstep, hm]
  · intro sa; cases sa <;> simp [freshOutcome, step, fresh, init, prog, progKA, lookup, sizeUnless, run, exec, hstep, hm]
  · simp [freshOutcome, step, fresh, init, prog, lookup, run, exec, hstep, hm]
  · intro f; cases f <;> simp [freshOutcome, step, fresh, init, prog, progFint, run, exec, hstep, hm]
  · simp [freshOutcome, step, fresh, init, prog, lookup, run, exec, hstep, hm, wstep, rstep]
  · simp [freshOutcome, step, fresh, init, prog, progStrain, lookup, run, exec, hstep, hm, wstep, rstep]
  · intro f; cases f <;>
      simp [freshOutcome, step, fresh, init, prog, progStrain, lookup, run, exec, hstep, hm, wstep, rstep]

/-! ### results are functions of the definition: sequences -/

theorem result_history_independent_aux (d : Def) (h1 h2 : List Op) (op : Op)
    (hs : d.offsetZero = true ∨ (.ktkr ∉ h1 ∧ .ktkr ∉ h2 ∧ op ≠ .ktkr)) (r1 r2 : List Tok)
    (e1 : (step d (runOps d (fresh d) h1) op).2 = .ok r1)
    (e2 : (step d (runOps d (fresh d) h2) op).2 = .ok r2) : r1 = r2 ∧ r1 = canonResult d op := by
  have sc : ∀ (l : List Op), (d.offsetZero = true ∨ .ktkr ∉ l) → ∀ o ∈ l, InScope d o := by
    intro l hl o ho
    rcases hl with h | h
    · exact Or.inl h
    · exact Or.inr (fun he => h (he ▸ ho))
  have so : InScope d op := by
    rcases hs with h | h
    · exact Or.inl h
    · exact Or.inr h.2.2
  have i1 : Inv d (runOps d (fresh d) h1).h :=
    runOps_inv_aux d h1 (fresh d) (sc h1 (by rcases hs with h | h; exact Or.inl h; exact Or.inr h.1)) (inv_init d)
  have i2 : Inv d (runOps d (fresh d) h2).h :=
    runOps_inv_aux d h2 (fresh d) (sc h2 (by rcases hs with h | h; exact Or.inl h; exact Or.inr h.2.1)) (inv_init d)
  have a := step_result_aux d _ op so i1 r1 e1
  have b := step_result_aux d _ op so i2 r2 e2
  exact ⟨a.trans b.symm, a⟩

theorem runOps_snoc (d : Def) : ∀ (h : List Op) (s : State) (op : Op),
    runOps d s (h ++ [op]) = (step d (runOps d s h) op).1 := by
  intro h
  induction h with
  | nil => intro s op; rfl
  | cons a as ih => intro s op; simpa [runOps] using ih (step d s a).1 op

/-! ### standard definitions, decided inside Lean -/

inductive Geo where
  | flat | cyl | cone
deriving DecidableEq, Repr

/-- a completely specified panel with the model left to be derived (the documented way to define one) -/
def stdDef (g : Geo) (offsetZero : Bool) : Def :=
  { model := .none, rGiven := g != .flat, alphaGiven := g == .cone, stack := true, laminaprop := true,
    laminaprops := false, plyt := true, plyts := false, mu := true, y12 := .none, offsetZero := offsetZero,
    cte := false, betaGiven := true, mach := .none, flow := .x, forces := true }

/-- every public evaluation call of the model -/
def allOps : List Op :=
  [.getSize, .k0 false, .k0 true, .kL false, .kL true, .kG0 false, .kG0 true, .kG false, .kG true, .kT false,
   .kT true, .kM false, .kM true, .kA false, .kA true, .cA, .lb, .freq .a1, .freq .a2, .freq .a3, .freq .a4,
   .fext false, .fext true, .fint false, .fint true, .static, .uvw, .strain, .stress false, .stress true, .ktkr]

theorem allOps_complete (op : Op) : op ∈ allOps := by
  cases op <;> first | (simp [allOps]; done) | (rename_i b; cases b <;> simp [allOps])

/-- calls that succeed as first call -/
def okFirst (d : Def) : List Op := allOps.filter fun op => (freshOutcome d op).isOk
/-- calls that succeed after one `calc_k0()` -/
def okAfterK0 (d : Def) : List Op :=
  allOps.filter fun op => (step d (step d (fresh d) (.k0 false)).1 op).2.isOk

/-- the calls that run `_rebuild` and derive whatever else they need themselves -/
def selfSufficient : List Op :=
  [.k0 false, .k0 true, .kL false, .kL true, .kG0 false, .kG0 true, .kG true, .kT false, .kT true, .lb,
   .freq .a1, .freq .a2, .freq .a3, .freq .a4, .fext false, .fext true, .static, .ktkr]

/-- calls no conical panel supports in any state (`matrices_num`, `fkAx`, `fcA`, `fstrain` are missing / refused) -/
def coneUnsupported : List Op :=
  [.kL false, .kL true, .kG false, .kG true, .kT false, .kT true, .kA false, .kA true, .cA, .freq .a1, .freq .a2,
   .fint false, .fint true, .strain, .stress false, .stress true]

theorem fresh_ok_std_aux (oz : Bool) :
    okFirst (stdDef .flat oz) = selfSufficient ∧ okFirst (stdDef .cyl oz) = selfSufficient ∧
    okFirst (stdDef .cone oz) = selfSufficient.filter (fun op => !coneUnsupported.contains op) := by
  cases oz <;> decide

theorem ok_after_k0_std_aux (oz : Bool) :
    okAfterK0 (stdDef .flat oz) = allOps ∧ okAfterK0 (stdDef .cyl oz) = allOps ∧
    okAfterK0 (stdDef .cone oz) = allOps.filter (fun op => !coneUnsupported.contains op) := by
  cases oz <;> decide

theorem fresh_object_total_counterexample_aux :
    let d := stdDef .flat false
    freshOutcome d (.kM false) = .err .KeyError ∧ freshOutcome d (.kA false) = .err .TypeError ∧
    freshOutcome d .cA = .err .KeyError ∧ freshOutcome d .uvw = .err .KeyError ∧
    freshOutcome d .strain = .err .KeyError ∧ freshOutcome d (.stress false) = .err .KeyError ∧
    freshOutcome d (.fint false) = .err .ValueError ∧ freshOutcome d (.kG false) = .err .RuntimeError ∧
    freshOutcome d .getSize = .err .KeyError ∧
    (∀ op ∈ [Op.kM false, .kA false, .cA, .uvw, .strain, .stress false, .fint false, .kG false, .getSize],
      (step d (step d (fresh d) (.k0 false)).1 op).2.isOk = true) := by
  decide

/-- `calc_kt_kr` builds `panel.lam` WITHOUT the laminate offset when no laminate exists yet and uses the
existing one (built by `calc_k0` WITH the offset) otherwise -/
theorem kt_kr_order_dependence_counterexample_aux :
    let d := stdDef .flat false
    let s0 := fresh d
    let sK := (step d s0 (.k0 false)).1
    -- the same call, two histories, both succeed, different results
    (step d s0 .ktkr).2 = .ok [([.ktkr], [.model .plate, .lam (.built .rep .rep .zero)])] ∧
    (step d sK .ktkr).2 = .ok [([.ktkr], [.model .plate, .lam (.built .rep .rep .own)])] ∧
    -- and the laminate without offset is then consumed by calc_kG0(c=c)
    (step d (step d s0 .ktkr).1 (.kG false)).2 = .ok [([.fkGnum], [.lam (.built .rep .rep .zero), .model .plate])] ∧
    (step d sK (.kG false)).2 = .ok [([.fkGnum], [.lam (.built .rep .rep .own), .model .plate])] ∧
    -- with a zero offset there is no difference
    (step (stdDef .flat true) (fresh (stdDef .flat true)) .ktkr).2 =
      (step (stdDef .flat true) (step (stdDef .flat true) (fresh (stdDef .flat true)) (.k0 false)).1 .ktkr).2 := by
  decide

/-- `calc_k0(size=N)` (the form used by assemblies and bays) does not create `self.size`, `calc_k0()` does:
`calc_cA` afterwards raises / succeeds accordingly (the *result*, when there is one, is the same) -/
theorem explicit_size_counterexample_aux :
    let d := stdDef .flat false
    (step d (step d (fresh d) (.k0 true)).1 .cA).2 = .err .AttributeError ∧
    (step d (step d (fresh d) (.k0 false)).1 .cA).2.isOk = true := by
  decide

end Compmech.Lifecycle.Panel

/-! ### after one successful `calc_k0()` only the definition decides whether a call succeeds -/
namespace Compmech.Lifecycle.Panel

def machOK : MachVal → Bool
  | .none | .lt1 => false
  | _ => true

/-- everything any call may need has been derived -/
def Ready (d : Def) (m : MName) (h : Hidden) : Prop :=
  h.model = .valid m ∧ h.r ≠ .none ∧ h.alpha = true ∧ h.plyts ≠ .none ∧ h.lps ≠ .none ∧ h.lam ≠ .none ∧
  h.F ≠ .none ∧ h.size ≠ .missing ∧ machOK h.mach = machOK d.mach

/-- the conditions on (definition, model) alone under which an instruction succeeds in a `Ready` state -/
def instrOK (d : Def) (m : MName) : Instr → Bool
  | .failUnless c _ => c.holds d
  | .supports f _ => f.has m
  | .mach => machOK d.mach
  | .kernFlow => (match d.flow with | .bad => false | _ => true)
  | .when c i => !c.holds d || instrOK d m i
  | _ => true

/-- … and a call: every instruction of its program -/
def opOK (d : Def) (m : MName) (op : Op) : Bool := (prog op).all (instrOK d m)

theorem firstFail_ready {d : Def} {m : MName} {h : Hidden} (hr : Ready d m h) :
    ∀ (l : List Need), firstFail h l = none := by
  obtain ⟨_, h2, h3, h4, _, h6, _, h8, _⟩ := hr
  intro l
  induction l with
  | nil => rfl
  | cons n ns ih =>
    simp only [firstFail]
    have : needFail h n = none := by
      cases n <;> simp [needFail, h2, h3, h4, h6, h8]
    rw [this]; exact ih

theorem kernStep_ready {d : Def} {m : MName} {h : Hidden} (hr : Ready d m h) (k : Kern) : kernStep h k = .ok h := by
  simp [kernStep, hr.1, firstFail_ready hr]

theorem hstep_ready (d : Def) (m : MName) : ∀ (i : Instr) (h : Hidden), Ready d m h →
    (instrOK d m i = true → ∃ h', hstep d i h = .ok h' ∧ Ready d m h') ∧
    (instrOK d m i = false → ∃ e, hstep d i h = .error e) := by
  intro i
  induction i with
  | «when» c i ih =>
    intro h hr
    simp only [hstep, instrOK]
    by_cases hc : c.holds d = true
    · simp only [hc, if_true, Bool.not_true, Bool.false_or]; exact ih h hr
    · simp only [hc]
      refine ⟨fun _ => ⟨h, by simp, hr⟩, fun hf => ?_⟩
      simp at hc; simp at hf
  | kern k => intro h hr; simp only [hstep, instrOK]; exact ⟨fun _ => ⟨h, kernStep_ready hr k, hr⟩, fun hf => by simp at hf⟩
  | kernY a b => intro h hr; simp only [hstep, instrOK]; exact ⟨fun _ => ⟨h, kernStep_ready hr _, hr⟩, fun hf => by simp at hf⟩
  | kernFlow =>
    intro h hr
    simp only [hstep, instrOK]
    cases hf : d.flow <;> simp [kernStep_ready hr, hr]
  | mach =>
    intro h hr
    obtain ⟨h1, h2, h3, h4, h5, h6, h7, h8, h9⟩ := hr
    simp only [instrOK]
    rw [← h9]
    cases hm : h.mach with
    | none => exact ⟨fun hf => by simp [machOK] at hf, fun _ => ⟨.ValueError, by simp [hstep, hm]⟩⟩
    | lt1 => exact ⟨fun hf => by simp [machOK] at hf, fun _ => ⟨.ValueError, by simp [hstep, hm]⟩⟩
    | eq1 =>
      refine ⟨fun _ => ⟨{ h with mach := .bumped }, by simp [hstep, hm], h1, h2, h3, h4, h5, h6, h7, h8, ?_⟩,
        fun hf => by simp [machOK] at hf⟩
      rw [← h9, hm]; rfl
    | bumped =>
      exact ⟨fun _ => ⟨h, by simp [hstep, hm], h1, h2, h3, h4, h5, h6, h7, h8, h9⟩, fun hf => by simp [machOK] at hf⟩
    | gt1 =>
      exact ⟨fun _ => ⟨h, by simp [hstep, hm], h1, h2, h3, h4, h5, h6, h7, h8, h9⟩, fun hf => by simp [machOK] at hf⟩
  | failUnless c e =>
    intro h hr
    simp only [hstep, instrOK]
    by_cases hc : c.holds d = true <;> simp [hc, hr]
  | supports f e =>
    intro h hr
    simp only [hstep, instrOK, hr.1]
    by_cases hc : f.has m = true <;> simp [hc, hr]
  | deriveModel => intro h hr; simp [hstep, instrOK, hr.1, hr]
  | modelCheck a b => intro h hr; simp [hstep, instrOK, hr.1, hr]
  | deriveLps => intro h hr; simp [hstep, instrOK, hr.2.2.2.2.1, hr]
  | derivePlyts => intro h hr; simp [hstep, instrOK, hr.2.2.2.1, hr]
  | setSize =>
    intro h hr
    obtain ⟨h1, h2, h3, h4, h5, h6, h7, h8, h9⟩ := hr
    simp [hstep, instrOK, h1, Ready, h2, h3, h4, h5, h6, h7, h9]
  | setAlpha =>
    intro h hr
    obtain ⟨h1, h2, h3, h4, h5, h6, h7, h8, h9⟩ := hr
    simp [hstep, instrOK, h1, Ready, h2, h4, h5, h6, h7, h8, h9]
  | setR =>
    intro h hr
    obtain ⟨h1, h2, h3, h4, h5, h6, h7, h8, h9⟩ := hr
    simp [hstep, instrOK, h1, Ready, h2, h3, h4, h5, h6, h7, h8, h9]
  | buildLam =>
    intro h hr
    obtain ⟨h1, h2, h3, h4, h5, h6, h7, h8, h9⟩ := hr
    simp [hstep, instrOK, h1, Ready, h2, h3, h4, h5, h7, h8, h9]
  | buildLamIfNone => intro h hr; simp [hstep, instrOK, hr.2.2.2.2.2.1, hr]
  | setF =>
    intro h hr
    obtain ⟨h1, h2, h3, h4, h5, h6, h7, h8, h9⟩ := hr
    simp [hstep, instrOK, h1, Ready, h2, h3, h4, h5, h6, h8, h9]
  | needLamF => intro h hr; simp [hstep, instrOK, hr.2.2.2.2.2.1, hr.1, hr]
  | needF e => intro h hr; simp [hstep, instrOK, hr.2.2.2.2.2.2.1, hr]
  | push => intro h hr; simp [hstep, instrOK, hr]
  | drop => intro h hr; simp [hstep, instrOK, hr]
  | out a => intro h hr; simp [hstep, instrOK, hr]
  | readReg r => intro h hr; simp [hstep, instrOK, hr]
  | touch a => intro h hr; simp [hstep, instrOK, hr]

theorem run_ready (d : Def) (m : MName) : ∀ (p : List Instr) (s : St), Ready d m s.h →
    ((run d p s).2 = none ↔ p.all (instrOK d m) = true) ∧ Ready d m (run d p s).1.h := by
  intro p
  induction p with
  | nil => intro s hr; simp [run, hr]
  | cons i is ih =>
    intro s hr
    obtain ⟨hok, hbad⟩ := hstep_ready d m i s.h hr
    cases hi : instrOK d m i with
    | true =>
      obtain ⟨h', hs, hr'⟩ := hok hi
      have he : exec d i s = .ok ⟨h', (rstep i (wstep d i (record d i s.h) s.x, s.g)).1,
          (rstep i (wstep d i (record d i s.h) s.x, s.g)).2⟩ := by simp [exec, hs]
      simp only [run, he, List.all_cons, hi, Bool.true_and]
      exact ih _ hr'
    | false =>
      obtain ⟨e, hs⟩ := hbad hi
      have he : exec d i s = .error e := by simp [exec, hs]
      simp [run, he, hi, hr]

/-- the attributes, once derived, stay derived -/
theorem hstep_mono (d : Def) : ∀ (i : Instr) (h h' : Hidden), hstep d i h = .ok h' →
    (h.r ≠ .none → h'.r ≠ .none) ∧ (h.alpha = true → h'.alpha = true) ∧ (h.plyts ≠ .none → h'.plyts ≠ .none) ∧
    (h.lps ≠ .none → h'.lps ≠ .none) ∧ (h.lam ≠ .none → h'.lam ≠ .none) ∧ (h.F ≠ .none → h'.F ≠ .none) ∧
    (h.size ≠ .missing → h'.size ≠ .missing) := by
  intro i
  induction i with
  | «when» c i ih =>
    intro h h' hs
    simp only [hstep] at hs
    split at hs
    · exact ih h h' hs
    · simp at hs; subst hs; simp
  | kern k => intro h h' hs; simp only [hstep] at hs; rw [(kernStep_ok hs).1]; simp
  | kernY a b => intro h h' hs; simp only [hstep] at hs; rw [(kernStep_ok hs).1]; simp
  | kernFlow =>
    intro h h' hs
    simp only [hstep] at hs
    split at hs
    · rw [(kernStep_ok hs).1]; simp
    · rw [(kernStep_ok hs).1]; simp
    · simp at hs
  | _ =>
    intro h h' hs
    simp only [hstep] at hs
    (repeat' split at hs) <;> simp at hs <;> subst hs <;> simp_all

/-- if `i` establishes `P`, and `P` is kept by every instruction, a program containing `i` that runs to
completion ends in a state with `P` -/
theorem run_post (d : Def) (P : Hidden → Prop) (hmono : ∀ j h h', P h → hstep d j h = .ok h' → P h')
    (p1 : List Instr) (i : Instr) (p2 : List Instr) (s : St) (hest : ∀ h h', hstep d i h = .ok h' → P h')
    (hok : (run d (p1 ++ i :: p2) s).2 = none) : P (run d (p1 ++ i :: p2) s).1.h := by
  rw [run_append] at hok ⊢
  cases hr : run d p1 s with
  | mk s1 o =>
    cases o with
    | some e => simp [hr] at hok
    | none =>
      simp only [hr] at hok ⊢
      simp only [run] at hok ⊢
      cases he : exec d i s1 with
      | error e => simp [he] at hok
      | ok s2 =>
        simp only [he] at hok ⊢
        exact run_keeps d P p2 s2 (fun j _ => hmono j) (hest s1.h s2.h (exec_ok he).1)

theorem step_isOk_iff (d : Def) (t : State) (op : Op) :
    (step d t op).2.isOk = true ↔ (run d (prog op) ⟨t.h, Work.start, t.g⟩).2 = none := by
  simp only [step]
  cases (run d (prog op) ⟨t.h, Work.start, t.g⟩).2 <;> simp [Outcome.isOk]

theorem k0_makes_ready_aux (d : Def) (s : State) (hi : Inv d s.h) (hok : (step d s (.k0 false)).2.isOk = true) :
    ∃ m, cModel d = .valid m ∧ Ready d m (step d s (.k0 false)).1.h := by
  have hn : (run d (prog (.k0 false)) ⟨s.h, Work.start, s.g⟩).2 = none := by
    simp only [step] at hok
    cases hr : (run d (prog (.k0 false)) ⟨s.h, Work.start, s.g⟩).2 with
    | none => rfl
    | some e => simp [hr, Outcome.isOk] at hok
  have hinv : Inv d (step d s (.k0 false)).1.h := step_preserves_inv_aux d s _ (Or.inr (by simp)) hi
  simp only [step] at hinv ⊢
  generalize hS : (⟨s.h, Work.start, s.g⟩ : St) = S at hn hinv ⊢
  have mono := hstep_mono d
  -- each derived attribute is established by one instruction of the program
  have e_model : ModelKnown (run d (prog (.k0 false)) S).1.h :=
    run_post d ModelKnown (fun j h h' hp hs => hstep_known d j h h' hs hp)
      [.deriveModel] (.modelCheck .ValueError .ValueError) _ S
      (fun h h' hs => hstep_establishes d _ h h' hs rfl) hn
  have e_lps : (run d (prog (.k0 false)) S).1.h.lps ≠ .none :=
    run_post d (fun h => h.lps ≠ .none) (fun j h h' hp hs => (mono j h h' hs).2.2.2.1 hp)
      [.deriveModel, .modelCheck .ValueError .ValueError, .failUnless .stack .ValueError] .deriveLps _ S
      (fun h h' hs => by
        simp only [hstep] at hs
        split at hs
        · split at hs <;> simp at hs; subst hs; simp
        · rename_i hne; simp at hs; subst hs; exact hne) hn
  have e_plyts : (run d (prog (.k0 false)) S).1.h.plyts ≠ .none :=
    run_post d (fun h => h.plyts ≠ .none) (fun j h h' hp hs => (mono j h h' hs).2.2.1 hp)
      [.deriveModel, .modelCheck .ValueError .ValueError, .failUnless .stack .ValueError, .deriveLps] .derivePlyts _ S
      (fun h h' hs => by
        simp only [hstep] at hs
        split at hs
        · split at hs <;> simp at hs; subst hs; simp
        · rename_i hne; simp at hs; subst hs; exact hne) hn
  have e_size : (run d (prog (.k0 false)) S).1.h.size ≠ .missing :=
    run_post d (fun h => h.size ≠ .missing) (fun j h h' hp hs => (mono j h h' hs).2.2.2.2.2.2 hp)
      rebuild .setSize _ S
      (fun h h' hs => by
        simp only [hstep] at hs
        split at hs <;> simp at hs
        subst hs; simp) hn
  have e_alpha : (run d (prog (.k0 false)) S).1.h.alpha = true :=
    run_post d (fun h => h.alpha = true) (fun j h h' hp hs => (mono j h h' hs).2.1 hp)
      (rebuild ++ [.setSize, lookup]) .setAlpha _ S
      (fun h h' hs => by simp only [hstep] at hs; simp at hs; subst hs; rfl) hn
  have e_r : (run d (prog (.k0 false)) S).1.h.r ≠ .none :=
    run_post d (fun h => h.r ≠ .none) (fun j h h' hp hs => (mono j h h' hs).1 hp)
      (rebuild ++ [.setSize, lookup, .setAlpha]) .setR _ S
      (fun h h' hs => by
        simp only [hstep] at hs; simp at hs; subst hs
        by_cases hr : h.r = .none <;> simp [hr]) hn
  have e_lam : (run d (prog (.k0 false)) S).1.h.lam ≠ .none :=
    run_post d (fun h => h.lam ≠ .none) (fun j h h' hp hs => (mono j h h' hs).2.2.2.2.1 hp)
      (rebuild ++ [.setSize, lookup, .setAlpha, .setR]) .buildLam _ S
      (fun h h' hs => by
        simp only [hstep] at hs
        split at hs <;> simp at hs
        subst hs; simp) hn
  have e_F : (run d (prog (.k0 false)) S).1.h.F ≠ .none :=
    run_post d (fun h => h.F ≠ .none) (fun j h h' hp hs => (mono j h h' hs).2.2.2.2.2.1 hp)
      (rebuild ++ [.setSize, lookup, .setAlpha, .setR, .buildLam]) .setF _ S
      (fun h h' hs => by
        simp only [hstep] at hs
        split at hs
        · simp at hs
        · split at hs <;> simp at hs
          subst hs; simp) hn
  obtain ⟨m, hm⟩ := e_model
  refine ⟨m, model_canon hinv hm, hm, e_r, e_alpha, e_plyts, e_lps, e_lam, e_F, e_size, ?_⟩
  rcases hinv.2.2.2.2.2.2.2 with h8 | ⟨h8, h8'⟩
  · rw [h8]
  · rw [h8', h8]; rfl

/-- **after one successful `calc_k0()`**: in every later history a call succeeds iff the static conditions
`opOK` on (definition, model) hold — the hidden state no longer matters -/
theorem ok_after_k0_general_aux (d : Def) (s : State) (hi : Inv d s.h)
    (hok : (step d s (.k0 false)).2.isOk = true) (ops : List Op) (op : Op) :
    ∃ m, cModel d = .valid m ∧
      (step d (runOps d (step d s (.k0 false)).1 ops) op).2.isOk = opOK d m op := by
  obtain ⟨m, hc, hr⟩ := k0_makes_ready_aux d s hi hok
  refine ⟨m, hc, ?_⟩
  have keep : ∀ (ops : List Op) (t : State), Ready d m t.h → Ready d m (runOps d t ops).h := by
    intro ops
    induction ops with
    | nil => intro t ht; exact ht
    | cons o os ih =>
      intro t ht
      simp only [runOps]
      exact ih _ (run_ready d m (prog o) ⟨t.h, Work.start, t.g⟩ ht).2
  have hr' := keep ops _ hr
  have key := (run_ready d m (prog op) ⟨(runOps d (step d s (.k0 false)).1 ops).h, Work.start,
    (runOps d (step d s (.k0 false)).1 ops).g⟩ hr').1
  rw [Bool.eq_iff_iff, step_isOk_iff]
  exact key

end Compmech.Lifecycle.Panel

/-! ## PanelAssembly: decided on completely specified flat panels -/
namespace Compmech.Lifecycle.Asm
open Compmech.Lifecycle.Panel

/-- two completely specified flat panels joined by one connection -/
def stdAsm (offsetZero : Bool) : ADef := ⟨stdDef .flat offsetZero, stdDef .flat offsetZero, true⟩

def connOf : AOutcome → Option ConnTok
  | .ok _ _ c => c
  | .err _ => none

/-- the connection list and the `finalize` flag a call asks `get_k0_conn` for -/
def reqConn : AOp → Option (Bool × Bool)
  | .k0 o _ => some (o, true)        -- `self.get_k0_conn(conn=conn)`
  | .conn o f => some (o, f)
  | .kT | .fint => some (false, true)
  | _ => none

def connIdOf (other : Bool) : ConnId := if other then .other else .own

/-- The repaired cache, decided on the former counter-example: a later `calc_k0(conn=B)` uses `B` although the
matrix of the own list is cached; `get_k0_conn()` after `get_k0_conn(finalize=False)` is finalized; both leave the
cached matrix of the own list in place. -/
theorem conn_cache_fixed_aux :
    let a := stdAsm true
    let idfin (o : AOutcome) := (connOf o).map (fun t => (t.id, t.fin))
    idfin (astep a (afresh a) (.k0 true true)).2 = some (.other, true) ∧
    idfin (astep a (astep a (afresh a) (.k0 false true)).1 (.k0 true true)).2 = some (.other, true) ∧
    idfin (astep a (arunOps a (afresh a) [.k0 false true, .k0 true true]) (.k0 false true)).2 = some (.own, true) ∧
    idfin (astep a (afresh a) (.conn false false)).2 = some (.own, false) ∧
    idfin (astep a (astep a (afresh a) (.conn false false)).1 (.conn false true)).2 = some (.own, true) ∧
    idfin (astep a (astep a (afresh a) (.conn false false)).1 .kT).2 = some (.own, true) ∧
    (arunOps a (afresh a) [.conn false false, .conn true true, .conn true false, .k0 true false]).cache = none ∧
    ((arunOps a (afresh a) [.k0 false true, .conn true true, .conn false false]).cache.map (fun t => (t.id, t.fin))) =
      some (.own, true) := by
  decide

/-- `get_k0_conn()` before any `calc_k0` builds the penalty constants from laminates WITHOUT offset, caches the
matrix, and every later `calc_k0` / `calc_kT` adds that cached matrix -/
theorem conn_order_counterexample_aux :
    let a := stdAsm false
    let lamOf (o : AOutcome) := (connOf o).map (·.t1)
    lamOf (astep a (afresh a) (.k0 false true)).2 = some [([.ktkr], [.model .plate, .lam (.built .rep .rep .own)])] ∧
    lamOf (astep a (astep a (afresh a) (.conn false true)).1 (.k0 false true)).2 =
      some [([.ktkr], [.model .plate, .lam (.built .rep .rep .zero)])] ∧
    -- no difference for a zero offset
    (astep (stdAsm true) (afresh (stdAsm true)) (.k0 false true)).2 =
      (astep (stdAsm true) (astep (stdAsm true) (afresh (stdAsm true)) (.conn false true)).1 (.k0 false true)).2 := by
  decide

/-- with a non-zero laminate offset an earlier `conn=` argument still shows, through the laminate only: after
`get_k0_conn()` (cached, laminates without offset) `calc_kT` adds another matrix than after `get_k0_conn(conn=B)`
(not cached; `calc_kT` rebuilds the laminates with offset first) -/
theorem conn_args_offset_counterexample_aux :
    let a := stdAsm false
    let lamOf (o : AOutcome) := (connOf o).map (·.t1)
    let idfin (o : AOutcome) := (connOf o).map (fun t => (t.id, t.fin))
    lamOf (astep a (astep a (afresh a) (.conn false true)).1 .kT).2 =
      some [([.ktkr], [.model .plate, .lam (.built .rep .rep .zero)])] ∧
    lamOf (astep a (astep a (afresh a) (.conn true true)).1 .kT).2 =
      some [([.ktkr], [.model .plate, .lam (.built .rep .rep .own)])] ∧
    idfin (astep a (astep a (afresh a) (.conn false true)).1 .kT).2 = some (.own, true) ∧
    idfin (astep a (astep a (afresh a) (.conn true true)).1 .kT).2 = some (.own, true) := by
  decide

def aallOps : List AOp :=
  [.size, .k0 false true, .k0 true true, .k0 false false, .k0 true false, .kG0, .kG, .kM, .kT, .fint, .fext,
   .conn false true, .conn true true, .conn false false, .conn true false, .uvw, .strain, .stress]

theorem aallOps_complete (op : AOp) : op ∈ aallOps := by
  cases op <;> first | decide | (rename_i o f; cases o <;> cases f <;> decide)

theorem asm_fresh_aux (oz : Bool) :
    let a := stdAsm oz
    aallOps.filter (fun op => (astep a (afresh a) op).2.isOk) =
      [.size, .k0 false true, .k0 true true, .k0 false false, .k0 true false, .kG0, .kT, .fext,
       .conn false true, .conn true true, .conn false false, .conn true false] ∧
    aallOps.filter (fun op => (astep a (astep a (afresh a) (.k0 false true)).1 op).2.isOk) = aallOps := by
  cases oz <;> decide


/-! ### the cache holds the finalized matrix of the own list, every call gets what it asked for: ∀ definitions, ∀ histories -/

/-- `self.k0_conn` is `None` or a finalized matrix of the assembly's own connection list -/
def CacheOwn (s : AState) : Prop := ∀ t, s.cache = some t → t.id = .own ∧ t.fin = true

theorem both_cache (a : ADef) (s : AState) (p : List Instr) : (both a s p).1.cache = s.cache := by
  simp only [both]
  split <;> rfl

theorem getConn_req (a : ADef) (s : AState) (o f : Bool) (hi : CacheOwn s) :
    CacheOwn (getConn a s o f).1 ∧
      ∀ t, (getConn a s o f).2 = .ok t → t.id = connIdOf o ∧ t.fin = f := by
  have hb : CacheOwn (both a s (prog .ktkr)).1 := by
    intro t ht; rw [both_cache] at ht; exact hi t ht
  simp only [getConn]
  split
  · exact ⟨hi, by simp⟩
  · cases o <;> cases f <;> simp only [useCache, Bool.and_true, Bool.and_false, Bool.not_true, Bool.not_false,
      Bool.false_eq_true, if_false, if_true]
    -- own list, finalize=False / other list: never cached
    case false.false | true.false | true.true =>
      split
      · exact ⟨hb, by simp⟩
      · exact ⟨hb, by intro t ht; simp at ht; simp [← ht, connIdOf]⟩
    -- own list, finalize=True: the cached entry
    case false.true =>
      cases hc : s.cache with
      | some t =>
        simp only []
        refine ⟨hi, ?_⟩
        intro t' ht
        simp at ht
        have := hi t hc
        simpa [← ht, connIdOf] using this
      | none =>
        simp only []
        split
        · exact ⟨hb, by simp⟩
        · refine ⟨?_, by intro t ht; simp at ht; simp [← ht, connIdOf]⟩
          intro t ht
          simp at ht
          simp [← ht]

theorem astep_req (a : ADef) (s : AState) (hi : CacheOwn s) (op : AOp) :
    CacheOwn (astep a s op).1 ∧
      ∀ t, connOf (astep a s op).2 = some t → ∃ o f, reqConn op = some (o, f) ∧ t.id = connIdOf o ∧ t.fin = f := by
  have hb : ∀ p, CacheOwn (both a s p).1 := by
    intro p t ht; rw [both_cache] at ht; exact hi t ht
  cases op with
  | size => exact ⟨hi, by simp [astep, connOf]⟩
  | conn o f =>
    have hc := getConn_req a s o f hi
    simp only [astep]
    refine ⟨hc.1, ?_⟩
    cases hg : (getConn a s o f).2 with
    | error e => simp [connOf]
    | ok t => intro t' ht; simp [connOf] at ht; exact ⟨o, f, rfl, ht ▸ hc.2 t hg⟩
  | k0 o f =>
    simp only [astep]
    cases he : (both a s (panelProg (.k0 o f))).2.1 with
    | some e => exact ⟨hb _, by simp [connOf]⟩
    | none =>
      simp only []
      have hc := getConn_req a _ o true (hb (panelProg (.k0 o f)))
      refine ⟨hc.1, ?_⟩
      cases hg : (getConn a (both a s (panelProg (.k0 o f))).1 o true).2 with
      | error e => simp [connOf]
      | ok t => intro t' ht; simp [connOf] at ht; exact ⟨o, true, rfl, ht ▸ hc.2 t hg⟩
  | kT =>
    simp only [astep]
    cases he : (both a s (panelProg .kT)).2.1 with
    | some e => exact ⟨hb _, by simp [connOf]⟩
    | none =>
      simp only []
      have hc := getConn_req a _ false true (hb (panelProg .kT))
      refine ⟨hc.1, ?_⟩
      cases hg : (getConn a (both a s (panelProg .kT)).1 false true).2 with
      | error e => simp [connOf]
      | ok t => intro t' ht; simp [connOf] at ht; exact ⟨false, true, rfl, ht ▸ hc.2 t hg⟩
  | fint =>
    simp only [astep]
    cases he : (both a s (panelProg .fint)).2.1 with
    | some e => exact ⟨hb _, by simp [connOf]⟩
    | none =>
      simp only []
      have hc := getConn_req a _ false true (hb (panelProg .fint))
      refine ⟨hc.1, ?_⟩
      cases hg : (getConn a (both a s (panelProg .fint)).1 false true).2 with
      | error e => simp [connOf]
      | ok t => intro t' ht; simp [connOf] at ht; exact ⟨false, true, rfl, ht ▸ hc.2 t hg⟩
  | kG0 | kG | kM | fext | uvw | strain | stress =>
    simp only [astep]
    split
    · exact ⟨hb _, by simp [connOf]⟩
    · exact ⟨hb _, by simp [connOf]⟩

theorem arunOps_cacheOwn (a : ADef) : ∀ (ops : List AOp) (s : AState), CacheOwn s → CacheOwn (arunOps a s ops) := by
  intro ops
  induction ops with
  | nil => intro s hi; exact hi
  | cons op ops ih =>
    intro s hi
    simp only [arunOps]
    exact ih _ (astep_req a s hi op).1

theorem cacheOwn_fresh (a : ADef) : CacheOwn (afresh a) := by
  intro t ht; simp [afresh] at ht

theorem asm_conn_matches_request_aux (a : ADef) (h : List AOp) (op : AOp) (t : ConnTok)
    (ht : connOf (astep a (arunOps a (afresh a) h) op).2 = some t) :
    ∃ o f, reqConn op = some (o, f) ∧ t.id = connIdOf o ∧ t.fin = f :=
  (astep_req a _ (arunOps_cacheOwn a h _ (cacheOwn_fresh a)) op).2 t ht

/-! ### assemblies with zero laminate offsets: ∀ histories, ∀ `conn=` / `finalize=` arguments -/

/-- canonical result of a Panel program -/
def canonProg (d : Def) (p : List Instr) : List Tok := result (crun d p (Work.start, Regs.empty)).1

theorem pstep_aux (d : Def) (p : List Instr) (hg : guarded false p = true) (hr : regOK [] p = true)
    (ho : d.offsetZero = true ∨ p.all (fun i => !noOffset i) = true) (s : State) (hi : Inv d s.h) :
    Inv d (pstep d s p).1.h ∧ ((pstep d s p).2.1 = none → (pstep d s p).2.2 = canonProg d p) := by
  refine ⟨run_inv d p false ⟨s.h, Work.start, s.g⟩ hg (by simp) ho hi, ?_⟩
  intro hn
  simp only [pstep] at hn ⊢
  have hc := run_canon d p false ⟨s.h, Work.start, s.g⟩ hg (by simp) ho hi hn
  have hx : (run d p ⟨s.h, Work.start, s.g⟩).1.x = (crun d p (Work.start, s.g)).1 := by
    have := congrArg Prod.fst hc
    simpa using this
  rw [hx, canonProg, crun_regs d p [] Work.start s.g Regs.empty hr (by simp)]

theorem panelProg_static (op : AOp) :
    guarded false (panelProg op) = true ∧ regOK [] (panelProg op) = true ∧
    (panelProg op).all (fun i => !noOffset i) = true := by
  cases op <;> exact ⟨rfl, rfl, rfl⟩

/-- canonical connection matrix of a request: the list asked for, the `finalize` flag asked for, the canonical
`calc_kt_kr` tokens of the two panels -/
def canonConn (a : ADef) (other fin : Bool) : ConnTok :=
  ⟨connIdOf other, fin, canonProg a.d1 (prog .ktkr), canonProg a.d2 (prog .ktkr)⟩

def AInv (a : ADef) (s : AState) : Prop :=
  Inv a.d1 s.p1.h ∧ Inv a.d2 s.p2.h ∧ (s.cache = none ∨ s.cache = some (canonConn a false true))

theorem both_aux (a : ADef) (p : List Instr) (hg : guarded false p = true) (hr : regOK [] p = true)
    (ho : (a.d1.offsetZero = true ∧ a.d2.offsetZero = true) ∨ p.all (fun i => !noOffset i) = true)
    (s : AState) (hi : AInv a s) :
    AInv a (both a s p).1 ∧
      ((both a s p).2.1 = none → (both a s p).2.2.1 = canonProg a.d1 p ∧ (both a s p).2.2.2 = canonProg a.d2 p) := by
  obtain ⟨i1, i2, i3⟩ := hi
  have ho1 : a.d1.offsetZero = true ∨ p.all (fun i => !noOffset i) = true := by
    rcases ho with h | h
    · exact Or.inl h.1
    · exact Or.inr h
  have ho2 : a.d2.offsetZero = true ∨ p.all (fun i => !noOffset i) = true := by
    rcases ho with h | h
    · exact Or.inl h.2
    · exact Or.inr h
  have h1 := pstep_aux a.d1 p hg hr ho1 s.p1 i1
  have h2 := pstep_aux a.d2 p hg hr ho2 s.p2 i2
  simp only [both]
  cases he : (pstep a.d1 s.p1 p).2.1 with
  | some e => exact ⟨⟨h1.1, i2, i3⟩, by simp⟩
  | none =>
    simp only []
    refine ⟨⟨h1.1, h2.1, i3⟩, ?_⟩
    intro hn
    exact ⟨h1.2 he, h2.2 hn⟩

theorem getConn_aux (a : ADef) (hz : a.d1.offsetZero = true ∧ a.d2.offsetZero = true) (s : AState)
    (hi : AInv a s) (o f : Bool) :
    AInv a (getConn a s o f).1 ∧ ∀ t, (getConn a s o f).2 = .ok t → t = canonConn a o f := by
  have hb := both_aux a (prog .ktkr) (prog_guarded .ktkr) (prog_regOK .ktkr) (Or.inl hz) s hi
  simp only [getConn]
  split
  · exact ⟨hi, by simp⟩
  · cases o <;> cases f <;> simp only [useCache, Bool.and_true, Bool.and_false, Bool.not_true, Bool.not_false,
      Bool.false_eq_true, if_false, if_true]
    case false.false | true.false | true.true =>
      cases he : (both a s (prog .ktkr)).2.1 with
      | some e => exact ⟨hb.1, by simp⟩
      | none =>
        simp only []
        obtain ⟨r1, r2⟩ := hb.2 he
        refine ⟨hb.1, ?_⟩
        intro t ht
        simp at ht
        simp [← ht, canonConn, connIdOf, r1, r2]
    case false.true =>
      cases hc : s.cache with
      | some t =>
        simp only []
        refine ⟨hi, ?_⟩
        intro t' ht
        simp at ht
        rcases hi.2.2 with h | h
        · rw [hc] at h; simp at h
        · rw [hc] at h; simp at h; rw [← ht, h]
      | none =>
        simp only []
        cases he : (both a s (prog .ktkr)).2.1 with
        | some e => exact ⟨hb.1, by simp⟩
        | none =>
          simp only []
          obtain ⟨r1, r2⟩ := hb.2 he
          refine ⟨⟨hb.1.1, hb.1.2.1, Or.inr ?_⟩, ?_⟩
          · simp [canonConn, connIdOf, r1, r2]
          · intro t ht
            simp at ht
            simp [← ht, canonConn, connIdOf, r1, r2]

/-- canonical result of an assembly call: a function of the definition and of the call (with ITS `conn=` /
`finalize=` arguments) only -/
def canonA (a : ADef) (op : AOp) : AOutcome :=
  match op with
  | .size => .ok [] [] none
  | .conn o f => .ok [] [] (some (canonConn a o f))
  | op => .ok (canonProg a.d1 (panelProg op)) (canonProg a.d2 (panelProg op))
      ((reqConn op).map (fun r => canonConn a r.1 r.2))

theorem astep_aux (a : ADef) (hz : a.d1.offsetZero = true ∧ a.d2.offsetZero = true) (s : AState) (hi : AInv a s)
    (op : AOp) :
    AInv a (astep a s op).1 ∧ ((astep a s op).2.isOk = true → (astep a s op).2 = canonA a op) := by
  have hst := panelProg_static op
  have hb := both_aux a (panelProg op) hst.1 hst.2.1 (Or.inr hst.2.2) s hi
  cases op with
  | size => exact ⟨hi, fun _ => rfl⟩
  | conn o f =>
    have hc := getConn_aux a hz s hi o f
    simp only [astep]
    refine ⟨hc.1, ?_⟩
    cases hg : (getConn a s o f).2 with
    | error e => simp [AOutcome.isOk]
    | ok t => intro _; simp [canonA, hc.2 t hg]
  | k0 o f =>
    simp only [astep]
    cases he : (both a s (panelProg (.k0 o f))).2.1 with
    | some e => exact ⟨hb.1, by simp [AOutcome.isOk]⟩
    | none =>
      simp only []
      have hc := getConn_aux a hz _ hb.1 o true
      refine ⟨hc.1, ?_⟩
      cases hg : (getConn a (both a s (panelProg (.k0 o f))).1 o true).2 with
      | error e => simp [AOutcome.isOk]
      | ok t => intro _; simp [canonA, reqConn, hc.2 t hg, (hb.2 he).1, (hb.2 he).2]
  | kT =>
    simp only [astep]
    cases he : (both a s (panelProg .kT)).2.1 with
    | some e => exact ⟨hb.1, by simp [AOutcome.isOk]⟩
    | none =>
      simp only []
      have hc := getConn_aux a hz _ hb.1 false true
      refine ⟨hc.1, ?_⟩
      cases hg : (getConn a (both a s (panelProg .kT)).1 false true).2 with
      | error e => simp [AOutcome.isOk]
      | ok t => intro _; simp [canonA, reqConn, hc.2 t hg, (hb.2 he).1, (hb.2 he).2]
  | fint =>
    simp only [astep]
    cases he : (both a s (panelProg .fint)).2.1 with
    | some e => exact ⟨hb.1, by simp [AOutcome.isOk]⟩
    | none =>
      simp only []
      have hc := getConn_aux a hz _ hb.1 false true
      refine ⟨hc.1, ?_⟩
      cases hg : (getConn a (both a s (panelProg .fint)).1 false true).2 with
      | error e => simp [AOutcome.isOk]
      | ok t => intro _; simp [canonA, reqConn, hc.2 t hg, (hb.2 he).1, (hb.2 he).2]
  | kG0 =>
    simp only [astep]
    cases he : (both a s (panelProg .kG0)).2.1 with
    | some e => exact ⟨hb.1, by simp [AOutcome.isOk]⟩
    | none => exact ⟨hb.1, fun _ => by simp [canonA, reqConn, (hb.2 he).1, (hb.2 he).2]⟩
  | kG =>
    simp only [astep]
    cases he : (both a s (panelProg .kG)).2.1 with
    | some e => exact ⟨hb.1, by simp [AOutcome.isOk]⟩
    | none => exact ⟨hb.1, fun _ => by simp [canonA, reqConn, (hb.2 he).1, (hb.2 he).2]⟩
  | kM =>
    simp only [astep]
    cases he : (both a s (panelProg .kM)).2.1 with
    | some e => exact ⟨hb.1, by simp [AOutcome.isOk]⟩
    | none => exact ⟨hb.1, fun _ => by simp [canonA, reqConn, (hb.2 he).1, (hb.2 he).2]⟩
  | fext =>
    simp only [astep]
    cases he : (both a s (panelProg .fext)).2.1 with
    | some e => exact ⟨hb.1, by simp [AOutcome.isOk]⟩
    | none => exact ⟨hb.1, fun _ => by simp [canonA, reqConn, (hb.2 he).1, (hb.2 he).2]⟩
  | uvw =>
    simp only [astep]
    cases he : (both a s (panelProg .uvw)).2.1 with
    | some e => exact ⟨hb.1, by simp [AOutcome.isOk]⟩
    | none => exact ⟨hb.1, fun _ => by simp [canonA, reqConn, (hb.2 he).1, (hb.2 he).2]⟩
  | strain =>
    simp only [astep]
    cases he : (both a s (panelProg .strain)).2.1 with
    | some e => exact ⟨hb.1, by simp [AOutcome.isOk]⟩
    | none => exact ⟨hb.1, fun _ => by simp [canonA, reqConn, (hb.2 he).1, (hb.2 he).2]⟩
  | stress =>
    simp only [astep]
    cases he : (both a s (panelProg .stress)).2.1 with
    | some e => exact ⟨hb.1, by simp [AOutcome.isOk]⟩
    | none => exact ⟨hb.1, fun _ => by simp [canonA, reqConn, (hb.2 he).1, (hb.2 he).2]⟩

theorem arunOps_inv (a : ADef) (hz : a.d1.offsetZero = true ∧ a.d2.offsetZero = true) :
    ∀ (ops : List AOp) (s : AState), AInv a s → AInv a (arunOps a s ops) := by
  intro ops
  induction ops with
  | nil => intro s hi; exact hi
  | cons op ops ih =>
    intro s hi
    simp only [arunOps]
    exact ih _ (astep_aux a hz s hi op).1

theorem ainv_fresh (a : ADef) : AInv a (afresh a) := ⟨inv_init a.d1, inv_init a.d2, Or.inl rfl⟩

theorem asm_result_canonical_aux (a : ADef) (hz : a.d1.offsetZero = true ∧ a.d2.offsetZero = true)
    (h : List AOp) (op : AOp) (k : (astep a (arunOps a (afresh a) h) op).2.isOk = true) :
    (astep a (arunOps a (afresh a) h) op).2 = canonA a op :=
  (astep_aux a hz _ (arunOps_inv a hz h _ (ainv_fresh a)) op).2 k

theorem asm_history_independent_aux (a : ADef) (hz : a.d1.offsetZero = true ∧ a.d2.offsetZero = true)
    (h1 h2 : List AOp) (op : AOp) (k1 : (astep a (arunOps a (afresh a) h1) op).2.isOk = true)
    (k2 : (astep a (arunOps a (afresh a) h2) op).2.isOk = true) :
    (astep a (arunOps a (afresh a) h1) op).2 = (astep a (arunOps a (afresh a) h2) op).2 := by
  rw [asm_result_canonical_aux a hz h1 op k1, asm_result_canonical_aux a hz h2 op k2]

end Compmech.Lifecycle.Asm

/-! ## StiffPanelBay -/
namespace Compmech.Lifecycle.Bay

theorem bay_result_aux (d : BDef) (s : BState) (op o : BOp) (h : (bstep d s op).2 = .ok o) : o = op := by
  cases op <;> simp only [bstep] at h <;> (repeat' split at h) <;> simp at h <;> exact h.symm

theorem bay_fresh_aux (sf : Bool) :
    let d : BDef := ⟨false, sf⟩
    ballOps.filter (fun op => (bstep d (bfresh d) op).2.isOk) = [.k0, .kG0, .kM] ∧
    (bstep d (bfresh d) .kA).2 = .err .AttributeError ∧ (bstep d (bfresh d) .fext).2 = .err .KeyError ∧
    (bstep d (bfresh d) .uvw).2 = .err .KeyError ∧ (bstep d (bfresh d) .size).2 = .err .KeyError ∧
    ballOps.filter (fun op => (bstep d (bstep d (bfresh d) .k0).1 op).2.isOk) =
      [.size, .k0, .kG0, .kM, .kA, .fext, .uvw] := by
  cases sf <;> decide

/-- an unstiffened (or curved) bay never trips the stiffeners' assertion: `calc_cA` is the only call that raises
once `calc_k0()` has run, in every history -/
theorem bay_after_k0_aux (d : BDef) (hd : d.stiffFlat = false) (ops : List BOp) (op : BOp) (hop : op ≠ .cA) :
    (bstep d (brunOps d (bstep d (bfresh d) .k0).1 ops) op).2 = .ok op := by
  have key : ∀ (ops : List BOp) (s : BState), s.model = true → s.size = true →
      (brunOps d s ops).model = true ∧ (brunOps d s ops).size = true := by
    intro ops
    induction ops with
    | nil => intro s h1 h2; exact ⟨h1, h2⟩
    | cons o os ih =>
      intro s h1 h2
      simp only [brunOps]
      apply ih
      · cases o <;> simp [bstep, rebuildOk, hd, h1, h2]
      · cases o <;> simp [bstep, rebuildOk, hd, h1, h2]
  have h0 : (bstep d (bfresh d) .k0).1 = ⟨true, true, true, true⟩ := by simp [bstep, rebuildOk, hd]
  rw [h0]
  obtain ⟨h1, h2⟩ := key ops ⟨true, true, true, true⟩ rfl rfl
  cases op <;> simp [bstep, rebuildOk, hd, h1, h2] at hop ⊢

theorem bay_assert_counterexample_aux :
    let d : BDef := ⟨false, true⟩
    (bstep d (bfresh d) .k0).2 = .ok .k0 ∧
    (bstep d (brunOps d (bfresh d) [.cA, .kA]) .k0).2 = .err .AssertionError ∧
    (bstep d (brunOps d (bfresh d) [.k0, .cA, .kA]) .k0).2 = .ok .k0 := by
  decide

theorem bay_cA_aux (d : BDef) (s : BState) : (bstep d s .cA).2.isOk = false := by
  simp only [bstep]; split <;> rfl

end Compmech.Lifecycle.Bay

/-! ## ConeCyl -/
namespace Compmech.Lifecycle.Cone

/-- the axial load is what the definition says: from the user's `Fc`, or zero when there is none and the
definition already ran `_rebuild` -/
def CInv (d : CDef) (s : CState) : Prop :=
  if d.fcGiven then s.fc = .user ∧ (s.nxx = .unset ∨ s.nxx = .user)
  else s.fc = .none ∧ s.nxx = .zero

def canonLoad (d : CDef) : Nxx := if d.fcGiven then .user else .zero

theorem cinv_fresh (d : CDef) (h : d.fcGiven = true ∨ d.rebuilt = true) : CInv d (cfresh d) := by
  cases d with | mk f r => cases f <;> cases r <;> simp_all [CInv, cfresh, rebuildC]

theorem cstep_inv (d : CDef) (s : CState) (op : COp) (hi : CInv d s) :
    CInv d (cstep s op).1 ∧ ∀ o l, (cstep s op).2 = .ok o l → o = op ∧ (l = none ∨ l = some (canonLoad d)) := by
  cases d with | mk f r =>
  cases s with | mk fc nxx geo lin =>
  cases f <;> cases fc <;> cases nxx <;> simp [CInv] at hi <;>
    cases geo <;> cases lin <;> cases op <;> simp [CInv, cstep, linear, rebuildC, canonLoad]

theorem crunOps_inv (d : CDef) : ∀ (ops : List COp) (s : CState), CInv d s → CInv d (crunOps s ops) := by
  intro ops
  induction ops with
  | nil => intro s h; exact h
  | cons op ops ih => intro s h; exact ih _ (cstep_inv d s op h).1

/-- which load a call reports is fixed by the call: `lb`, `fext`, `static` consume the axial load -/
def usesLoad : COp → Bool
  | .lb | .fext | .static => true
  | _ => false

theorem cstep_load (s : CState) (op o : COp) (l : Option Nxx) (h : (cstep s op).2 = .ok o l) :
    (l = none ↔ usesLoad op = false) := by
  cases s with | mk fc nxx geo lin =>
  cases op <;> cases geo <;> cases lin <;> simp [cstep, usesLoad] at h ⊢ <;> (try simp [h.2.symm]) <;>
    (try (obtain ⟨_, h2⟩ := h; subst h2; simp))

theorem cone_history_independent_aux (d : CDef) (hd : d.fcGiven = true ∨ d.rebuilt = true) (h1 h2 : List COp)
    (op : COp) (r1 r2 : COutcome) (e1 : (cstep (crunOps (cfresh d) h1) op).2 = r1)
    (e2 : (cstep (crunOps (cfresh d) h2) op).2 = r2) (k1 : r1.isOk = true) (k2 : r2.isOk = true) : r1 = r2 := by
  have i1 := crunOps_inv d h1 _ (cinv_fresh d hd)
  have i2 := crunOps_inv d h2 _ (cinv_fresh d hd)
  cases r1 with
  | err e => simp [COutcome.isOk] at k1
  | ok o1 l1 =>
    cases r2 with
    | err e => simp [COutcome.isOk] at k2
    | ok o2 l2 =>
      have a := (cstep_inv d _ op i1).2 o1 l1 e1
      have b := (cstep_inv d _ op i2).2 o2 l2 e2
      have c1 := cstep_load _ op o1 l1 e1
      have c2 := cstep_load _ op o2 l2 e2
      rw [a.1, b.1]
      congr 1
      rcases a.2 with ha | ha <;> rcases b.2 with hb | hb
      · rw [ha, hb]
      · rw [ha] at c1; simp at c1; rw [c1] at c2; rw [ha]; exact (c2.2 rfl).symm
      · rw [hb] at c2; simp at c2; rw [c2] at c1; rw [hb]; exact c1.2 rfl
      · rw [ha, hb]

/-- no axial load defined, nothing rebuilt yet: `lb()` first uses the documented default `Fc = 1`, after any
call that ran `_rebuild` it silently uses a ZERO axial load; and a `static()` after `lb()` carries the load
`Fc = 1` that `lb` wrote into the definition -/
theorem cone_order_counterexample_aux :
    let s0 := cfresh ⟨false, false⟩
    (cstep s0 .lb).2 = .ok .lb (some .one) ∧ (cstep (cstep s0 .static).1 .lb).2 = .ok .lb (some .zero) ∧
    (cstep (cstep s0 .k0).1 .lb).2 = .ok .lb (some .zero) ∧
    (cstep s0 .static).2 = .ok .static (some .zero) ∧ (cstep (cstep s0 .lb).1 .static).2 = .ok .static (some .one) := by
  decide

/-- `calc_fint` / `stress` as first call hand `self.F = None` to a compiled kernel: the process dies -/
theorem cone_fresh_aux (d : CDef) :
    (cstep (cfresh d) .fint).2 = .err (if d.rebuilt then .SEGV else .TypeError) ∧
    (cstep (cfresh d) .stress).2 = .err (if d.rebuilt then .SEGV else .TypeError) ∧
    (cstep (cfresh d) .uvw).2.isOk = d.rebuilt ∧
    callOps.filter (fun op => (cstep (cstep (cfresh d) .k0).1 op).2.isOk) = callOps := by
  cases d with | mk f r => cases f <;> cases r <;> decide

end Compmech.Lifecycle.Cone
