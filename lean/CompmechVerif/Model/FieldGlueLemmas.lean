/-
Lemmas about `Model/FieldGlue.lean` (the Python glue of the field queries) and the small SPEC VOCABULARY in which Props/C11.lean states
its glue theorems:

* `gridPts a b gx gy`  — the points of a `gx × gy` grid, row `i` (constant `y = y_i`) after row `i - 1`, inside a row `x_0 … x_{gx-1}`;
* `pick l idx`         — the entries of `l` at the positions `idx` (a sub-list, a permutation, duplicates …);
* `xsOf pts, ysOf pts` — the two 1-d arrays a user passes for the point list `pts`;
* `sizesOf panels`, `Asm.startOf` — panel sizes `3 m n` and their running sums.
-/
import CompmechVerif.Model.FieldGlue
import CompmechVerif.Model.ChunkingLemmas
import CompmechVerif.Model.AssemblyLemmas
import Mathlib.Data.List.Basic
import Mathlib.Data.List.Perm.Basic
import Mathlib.Tactic.Ring
import Mathlib.Tactic.Linarith

set_option linter.unusedSectionVars false

namespace Compmech.FieldGlue
open Compmech.Chunking

/-! ## spec vocabulary -/

/-- entries of `l` at the positions `idx`, in the order of `idx` (positions outside `l` are skipped) -/
def pick {α : Type} (l : List α) (idx : List Nat) : List α := idx.filterMap fun i => l[i]?

/-- the 1-d arrays `xs`, `ys` of a list of points -/
def xsOf {K : Type} (pts : List (K × K)) : Option (Arr K) := some (arr1 (pts.map Prod.fst))
def ysOf {K : Type} (pts : List (K × K)) : Option (Arr K) := some (arr1 (pts.map Prod.snd))

/-- the points of the `gridx × gridy` grid in the order of the result arrays (C order of shape `(gridy, gridx)`) -/
def gridPts {K : Type} [Field K] (a b : K) (gx gy : Nat) : List (K × K) :=
  (linspace0 b gy).flatMap fun y => (linspace0 a gx).map fun x => (x, y)

/-- `3*p.m*p.n` for every panel -/
def sizesOf {K R G : Type} (panels : List (Panel K R G)) : List Nat := panels.map fun p => 3 * p.d.m * p.d.n

/-! ## lists -/

theorem pick_range {α : Type} (l : List α) : pick l (List.range l.length) = l := by
  unfold pick
  induction l with
  | nil => rfl
  | cons a t ih =>
    rw [List.length_cons, List.range_succ_eq_map, List.filterMap_cons]
    simp only [List.getElem?_cons_zero, List.filterMap_map]
    have hf : ((fun i => (a :: t)[i]?) ∘ Nat.succ) = fun i => t[i]? := by
      funext i; simp
    rw [hf, ih]

theorem pick_map {α β : Type} (f : α → β) (l : List α) (idx : List Nat) : pick (l.map f) idx = (pick l idx).map f := by
  unfold pick
  rw [List.map_filterMap]
  apply List.filterMap_congr
  intro i _
  rw [List.getElem?_map]

theorem pick_length {α : Type} (l : List α) (idx : List Nat) (h : ∀ i ∈ idx, i < l.length) : (pick l idx).length = idx.length := by
  unfold pick
  induction idx with
  | nil => rfl
  | cons i t ih =>
    have hi : i < l.length := h i (List.mem_cons_self)
    rw [List.filterMap_cons, List.getElem?_eq_getElem hi]
    simp only [List.length_cons]
    rw [ih fun j hj => h j (List.mem_cons_of_mem _ hj)]

theorem pick_getElem? {α : Type} (l : List α) (idx : List Nat) (h : ∀ i ∈ idx, i < l.length) (t : Nat) (ht : t < idx.length) :
    (pick l idx)[t]? = l[idx[t]]? := by
  unfold pick
  induction idx generalizing t with
  | nil => simp at ht
  | cons i r ih =>
    have hi : i < l.length := h i (List.mem_cons_self)
    rw [List.filterMap_cons, List.getElem?_eq_getElem hi]
    cases t with
    | zero => simp [List.getElem?_eq_getElem hi]
    | succ t =>
      simp only [List.getElem?_cons_succ, List.getElem_cons_succ]
      exact ih (fun j hj => h j (List.mem_cons_of_mem _ hj)) t (by simpa using ht)

theorem pick_perm {α : Type} (l : List α) (idx : List Nat) (h : idx.Perm (List.range l.length)) : (pick l idx).Perm l := by
  have := List.Perm.filterMap (fun i => l[i]?) h
  rw [show List.filterMap (fun i => l[i]?) (List.range l.length) = l from pick_range l] at this
  exact this

theorem zip_fst_snd {α β : Type} (l : List (α × β)) : List.zip (l.map Prod.fst) (l.map Prod.snd) = l := by
  rw [List.zip_map']
  simp

/-- rows of equal length `w`: entry `(i, j)` of the flattened list -/
theorem flatten_uniform_getElem? {α : Type} (L : List (List α)) (w : Nat) (hL : ∀ r ∈ L, r.length = w) (i j : Nat) (hj : j < w) :
    L.flatten[i * w + j]? = (L[i]?).bind fun r => r[j]? := by
  induction L generalizing i with
  | nil => simp
  | cons r t ih =>
    have hr : r.length = w := hL r (List.mem_cons_self)
    cases i with
    | zero =>
      simp only [Nat.zero_mul, Nat.zero_add, List.flatten_cons, List.getElem?_cons_zero, Option.bind_some]
      rw [List.getElem?_append_left (by omega)]
    | succ i =>
      simp only [List.flatten_cons, List.getElem?_cons_succ]
      rw [List.getElem?_append_right (by rw [hr, Nat.succ_mul]; omega)]
      have : (i + 1) * w + j - r.length = i * w + j := by rw [hr, Nat.succ_mul]; omega
      rw [this]
      exact ih (fun r' hr' => hL r' (List.mem_cons_of_mem _ hr')) i

/-! ## evaluation points -/

section field
variable {K : Type} [Field K]

theorem wrapper_eq_map {V : Type} (f : K × K → V) (pts : List (K × K)) (cores : Nat) (h : 1 ≤ cores) :
    wrapper f pts cores = pts.map f :=
  chunkedMap_eq_map f _ pts cores h

theorem linspace0_length (stop : K) (num : Nat) : (linspace0 stop num).length = num := by simp [linspace0]

theorem linspace0_getElem? (stop : K) (num k : Nat) (hk : k < num) :
    (linspace0 stop num)[k]? = some ((k : K) * (stop / ((num - 1 : Nat) : K))) := by
  simp [linspace0, List.getElem?_map, List.getElem?_range hk]

theorem atleast1d_data {α : Type} (A : Arr α) : A.atleast1d.data = A.data := by
  unfold Arr.atleast1d
  split <;> rfl

/-- the pairing of the two raveled `meshgrid` arrays is the grid, row by row -/
theorem zip_mesh (x y : List K) :
    List.zip (meshX x y).data (meshY x y).data = y.flatMap fun yv => x.map fun xv => (xv, yv) := by
  unfold meshX meshY
  simp only
  induction y with
  | nil => simp
  | cons yv t ih =>
    simp only [List.length_cons, List.replicate_succ, List.flatten_cons, List.map_cons, List.flatMap_cons]
    rw [List.zip_append (by simp), ih]
    congr 1
    clear ih
    induction x with
    | nil => simp
    | cons xv s ihx => simp [List.replicate_succ, ihx]

theorem gridArrays_nat (a b : K) (gx gy : Nat) :
    gridArrays a b (gx : Int) (gy : Int) = .ok (meshX (linspace0 a gx) (linspace0 b gy), meshY (linspace0 a gx) (linspace0 b gy)) := by
  unfold gridArrays
  have h : ¬ ((gx : Int) < 0 ∨ (gy : Int) < 0) := by omega
  rw [if_neg h]
  simp

theorem mesh_atleast1d_X (x y : List K) : (meshX x y).atleast1d = meshX x y := by
  unfold Arr.atleast1d meshX; simp

theorem mesh_atleast1d_Y (x y : List K) : (meshY x y).atleast1d = meshY x y := by
  unfold Arr.atleast1d meshY; simp

/-- `_default_field` on the grid branch (`xs` or `ys` is `None`) -/
theorem defaultField_grid (a b : K) (xs ys : Option (Arr K)) (h : xs = none ∨ ys = none) (gx gy : Nat) :
    defaultField a b xs ys (gx : Int) (gy : Int) =
      .ok ⟨meshX (linspace0 a gx) (linspace0 b gy), meshY (linspace0 a gx) (linspace0 b gy)⟩ := by
  have key : (match gridArrays a b (gx : Int) (gy : Int) with
      | .error e => (Except.error e : Except Err (FieldPts K))
      | .ok (X, Y) => if X.atleast1d.shape = Y.atleast1d.shape then .ok ⟨X.atleast1d, Y.atleast1d⟩ else .error .shapeMismatch) =
      .ok ⟨meshX (linspace0 a gx) (linspace0 b gy), meshY (linspace0 a gx) (linspace0 b gy)⟩ := by
    simp only [gridArrays_nat, mesh_atleast1d_X, mesh_atleast1d_Y]
    simp [meshX, meshY]
  cases xs with
  | none => exact key
  | some X =>
    cases ys with
    | none => exact key
    | some Y => simp at h

theorem asmDefaultField_grid (a b : K) (gx gy : Nat) :
    asmDefaultField a b (gx : Int) (gy : Int) =
      .ok ⟨meshX (linspace0 a gx) (linspace0 b gy), meshY (linspace0 a gx) (linspace0 b gy)⟩ := by
  unfold asmDefaultField
  simp only [gridArrays_nat, mesh_atleast1d_X, mesh_atleast1d_Y]

theorem grid_pts (a b : K) (gx gy : Nat) :
    (FieldPts.mk (meshX (linspace0 a gx) (linspace0 b gy)) (meshY (linspace0 a gx) (linspace0 b gy))).pts = gridPts a b gx gy := by
  unfold FieldPts.pts gridPts
  exact zip_mesh _ _

theorem grid_shape (a b : K) (gx gy : Nat) : (meshX (linspace0 a gx) (linspace0 b gy)).shape = [gy, gx] := by
  simp [meshX, linspace0_length]

theorem gridPts_length (a b : K) (gx gy : Nat) : (gridPts a b gx gy).length = gy * gx := by
  unfold gridPts
  rw [List.flatMap_def, List.length_flatten]
  simp [Function.comp_def, linspace0_length]

/-- WHICH `(x, y)` sits at position `(i, j)` of the result arrays -/
theorem gridPts_getElem? (a b : K) (gx gy i j : Nat) (hi : i < gy) (hj : j < gx) :
    (gridPts a b gx gy)[i * gx + j]? =
      some ((j : K) * (a / ((gx - 1 : Nat) : K)), (i : K) * (b / ((gy - 1 : Nat) : K))) := by
  unfold gridPts
  rw [List.flatMap_def]
  rw [flatten_uniform_getElem? _ gx (by
    intro r hr
    simp only [List.mem_map] at hr
    obtain ⟨y, _, rfl⟩ := hr
    simp [linspace0_length]) i j hj]
  rw [List.getElem?_map, linspace0_getElem? b gy i hi]
  simp only [Option.map_some, Option.bind_some]
  rw [List.getElem?_map, linspace0_getElem? a gx j hj]
  rfl

/-- `_default_field` with both arrays given -/
theorem defaultField_given (a b : K) (X Y : Arr K) (hs : X.atleast1d.shape = Y.atleast1d.shape) (gx gy : Int) :
    defaultField a b (some X) (some Y) gx gy = .ok ⟨X.atleast1d, Y.atleast1d⟩ := by
  unfold defaultField
  simp only [hs, if_true]

theorem defaultField_pts (a b : K) (pts : List (K × K)) (gx gy : Int) :
    defaultField a b (xsOf pts) (ysOf pts) gx gy = .ok ⟨arr1 (pts.map Prod.fst), arr1 (pts.map Prod.snd)⟩ := by
  unfold xsOf ysOf
  have h1 : ∀ l : List K, (arr1 l).atleast1d = arr1 l := by
    intro l; unfold Arr.atleast1d arr1; simp
  rw [defaultField_given _ _ _ _ (by rw [h1, h1]; simp [arr1]), h1, h1]

/-! ## `Panel.evalField` -/

/-- the three preconditions under which the compiled function is reached -/
theorem evalField_ok {R G V : Type} (P : Panel K R G) (c : CArg K) (xs ys : Option (Arr K)) (gx gy : Int)
    (fn : FieldModule → Option (PanelDef K R → List K → K × K → V)) (isStrain : Bool) (nl : Nat)
    (f : FieldPts K) (hf : defaultField P.d.a P.d.b xs ys gx gy = .ok f)
    (k : PanelGlue.ModelKind) (hk : P.d.model = .kind k)
    (g : PanelDef K R → List K → K × K → V) (hg : fn (fieldModuleOf k) = some g)
    (cv : List K) (hc : c.contig = some cv) (hcores : 1 ≤ P.d.outNumCores) :
    P.evalField c xs ys gx gy fn isStrain nl =
      ⟨.ok (f, ⟨f.Xs.shape, f.pts.map (g P.d cv)⟩),
       { P with out := { P.out with Xs := some f.Xs, Ys := some f.Ys } },
       [⟨isStrain, fieldModuleOf k, P.d, cv, f.pts, P.d.outNumCores, nl⟩]⟩ := by
  unfold Panel.evalField
  simp only [hf, hk, hg, hc, wrapper_eq_map _ _ _ hcores, reshape]

/-- how the result of `evalField` on a picked point list relates to the result on the whole list -/
theorem evalField_pick {R G V : Type} (P : Panel K R G) (c : CArg K) (gx gy : Int)
    (fn : FieldModule → Option (PanelDef K R → List K → K × K → V)) (isStrain : Bool) (nl : Nat)
    (pts : List (K × K)) (idx : List Nat) (hidx : ∀ i ∈ idx, i < pts.length) (hcores : 1 ≤ P.d.outNumCores) :
    (P.evalField c (xsOf (pick pts idx)) (ysOf (pick pts idx)) gx gy fn isStrain nl).res.map Prod.snd =
      (P.evalField c (xsOf pts) (ysOf pts) gx gy fn isStrain nl).res.map fun r => ⟨[idx.length], pick r.2.data idx⟩ := by
  unfold Panel.evalField
  simp only [defaultField_pts]
  cases hm : P.d.model with
  | unset => rfl
  | invalid => rfl
  | kind k =>
    simp only
    cases hg : fn (fieldModuleOf k) with
    | none => rfl
    | some g =>
      simp only
      cases hc : c.contig with
      | none => rfl
      | some cv =>
        simp only [wrapper_eq_map _ _ _ hcores, reshape, FieldPts.pts, arr1, zip_fst_snd, Except.map, List.length_map]
        rw [pick_map, pick_length _ _ hidx]

end field

/-! ## `PanelAssembly` -/

theorem mapE_ok {α β ε : Type} (f : α → Except ε β) (g : α → β) (l : List α) (h : ∀ a ∈ l, f a = .ok (g a)) :
    mapE f l = .ok (l.map g) := by
  induction l with
  | nil => rfl
  | cons a t ih =>
    unfold mapE
    rw [h a (List.mem_cons_self), ih fun x hx => h x (List.mem_cons_of_mem _ hx)]
    rfl

section asm
variable {K : Type} [Field K]

theorem assignFrom_length {R G : Type} (c0 : Nat) (ps : List (Panel K R G)) : (assignFrom c0 ps).length = ps.length := by
  induction ps generalizing c0 with
  | nil => rfl
  | cons p t ih => simp [assignFrom, ih]

/-- panel `k` after `PanelAssembly.__init__`: the same panel with `col_start` = sum of the sizes before it -/
theorem assignFrom_getElem? {R G : Type} (c0 : Nat) (ps : List (Panel K R G)) (k : Nat) :
    (assignFrom c0 ps)[k]? = (ps[k]?).map fun p =>
      { p with colStart := some (c0 + Asm.startOf (sizesOf ps) k),
               colEnd := some (c0 + Asm.startOf (sizesOf ps) k + 3 * p.d.m * p.d.n) } := by
  induction ps generalizing c0 k with
  | nil => simp [assignFrom]
  | cons p t ih =>
    cases k with
    | zero => simp [assignFrom, Asm.startOf]
    | succ k =>
      simp only [assignFrom, List.getElem?_cons_succ]
      rw [ih]
      cases t[k]? with
      | none => rfl
      | some q =>
        simp only [Option.map_some, sizesOf, Asm.startOf, List.map_cons, List.take_succ_cons, List.sum_cons]
        congr 2
        · congr 1; omega
        · congr 1; omega

/-- the slices of the panels, in order, concatenate to `c` when `c` has the size of the assembly -/
theorem slices_flatten {α : Type} (sizes : List Nat) (c0 : Nat) (c : List α) (h : c.length = c0 + sizes.sum) :
    ((List.range sizes.length).map fun k =>
      pySlice (some (c0 + Asm.startOf sizes k)) (some (c0 + Asm.startOf sizes k + sizes.getD k 0)) c).flatten = c.drop c0 := by
  induction sizes generalizing c0 with
  | nil =>
    simp only [List.length_nil, List.range_zero, List.map_nil, List.flatten_nil]
    rw [List.drop_of_length_le (by simp at h; omega)]
  | cons s t ih =>
    rw [List.length_cons, List.range_succ_eq_map, List.map_cons, List.flatten_cons, List.map_map]
    have hsum : (s :: t).sum = s + t.sum := by simp
    have ht := ih (c0 + s) (by rw [h, hsum]; omega)
    have hfun : ((fun k => pySlice (some (c0 + Asm.startOf (s :: t) k)) (some (c0 + Asm.startOf (s :: t) k + (s :: t).getD k 0)) c) ∘ Nat.succ)
        = fun k => pySlice (some (c0 + s + Asm.startOf t k)) (some (c0 + s + Asm.startOf t k + t.getD k 0)) c := by
      funext k
      simp only [Function.comp, Asm.startOf, List.take_succ_cons, List.sum_cons, List.getD_cons_succ]
      congr 2 <;> omega
    rw [hfun, ht]
    simp only [Asm.startOf, List.take_zero, List.sum_nil, Nat.add_zero, List.getD_cons_zero, pySlice, Option.getD_some]
    rw [List.drop_take]
    have : c0 + s - c0 = s := by omega
    rw [this, ← List.drop_drop, List.take_append_drop]

end asm

end Compmech.FieldGlue

namespace Compmech.FieldGlue
open Compmech.Chunking

/-! ## results of the three `Panel` queries in terms of `evalField`; the assembly loop body -/

section queries
variable {K : Type} [Field K]

theorem uvw_res {R G : Type} (kern : Kernels K R) (P : Panel K R G) (c : CArg K) (xs ys : Option (Arr K)) (gx gy : Int) :
    (P.uvw kern c xs ys gx gy).res =
      (P.evalField c xs ys gx gy (fun fm => some (kern.uvw fm)) false 0).res.map Prod.snd := by
  unfold Panel.uvw
  simp only
  cases h : (P.evalField c xs ys gx gy (fun fm => some (kern.uvw fm)) false 0).res with
  | error e => rfl
  | ok r => rfl

theorem strain_eq {R G : Type} (kern : Kernels K R) (P : Panel K R G) (c : CArg K) (xs ys : Option (Arr K)) (gx gy : Int) (NL : Bool) :
    (P.strain kern c xs ys gx gy NL).res =
      (P.evalField c xs ys gx gy (strainFn kern NL) true (nlFlag NL)).res.map fun r => ⟨r.1.Xs, r.1.Ys, r.2⟩ := by
  unfold Panel.strain
  simp only
  cases h : (P.evalField c xs ys gx gy (strainFn kern NL) true (nlFlag NL)).res with
  | error e => rfl
  | ok r => rfl

theorem strain_post {R G : Type} (kern : Kernels K R) (P : Panel K R G) (c : CArg K) (xs ys : Option (Arr K)) (gx gy : Int) (NL : Bool) :
    (P.strain kern c xs ys gx gy NL).post = (P.evalField c xs ys gx gy (strainFn kern NL) true (nlFlag NL)).post ∧
    (P.strain kern c xs ys gx gy NL).calls = (P.evalField c xs ys gx gy (strainFn kern NL) true (nlFlag NL)).calls := by
  unfold Panel.strain
  simp only
  cases h : (P.evalField c xs ys gx gy (strainFn kern NL) true (nlFlag NL)).res with
  | error e => exact ⟨rfl, rfl⟩
  | ok r => exact ⟨rfl, rfl⟩

/-- `Panel.stress` after `Panel.strain`: the laminate look-up and the products -/
theorem stress_eq {R G : Type} (kern : Kernels K R) (P : Panel K R G) (c : CArg K) (Farg : Option (Fin 6 → Fin 6 → K))
    (xs ys : Option (Arr K)) (gx gy : Int) (NL : Bool) :
    (P.stress kern c Farg xs ys gx gy NL).res =
      match (P.strain kern c xs ys gx gy NL).res, resolveF Farg P.d.F with
      | .error e, _ => .error e
      | .ok _, none => .error .noLaminate
      | .ok s, some F => .ok ⟨s.x, s.y, s.e.map (applyF F)⟩ := by
  unfold Panel.stress
  simp only
  cases h : (P.strain kern c xs ys gx gy NL).res with
  | error e => rfl
  | ok s =>
    simp only
    cases hF : resolveF Farg P.d.F with
    | none => rfl
    | some F => rfl

theorem stress_post {R G : Type} (kern : Kernels K R) (P : Panel K R G) (c : CArg K) (Farg : Option (Fin 6 → Fin 6 → K))
    (xs ys : Option (Arr K)) (gx gy : Int) (NL : Bool) :
    (P.stress kern c Farg xs ys gx gy NL).post = (P.strain kern c xs ys gx gy NL).post ∧
    (P.stress kern c Farg xs ys gx gy NL).calls = (P.strain kern c xs ys gx gy NL).calls := by
  unfold Panel.stress
  simp only
  cases h : (P.strain kern c xs ys gx gy NL).res with
  | error e => exact ⟨rfl, rfl⟩
  | ok s =>
    simp only
    cases hF : resolveF Farg P.d.F with
    | none => exact ⟨rfl, rfl⟩
    | some F => exact ⟨rfl, rfl⟩

/-- the loop body of the assembly queries when the compiled function is reached -/
theorem evalPanel_ok {R G V : Type} (A : Assembly K R G) (cv : List K) (gx gy : Nat)
    (fn : FieldModule → Option (PanelDef K R → List K → K × K → V)) (isStrain : Bool) (nl : Nat) (p : Panel K R G)
    (k : PanelGlue.ModelKind) (hk : p.d.model = .kind k) (g : PanelDef K R → List K → K × K → V)
    (hg : fn (fieldModuleOf k) = some g) (hc : 1 ≤ A.outNumCores) :
    A.evalPanel (.vec cv) (gx : Int) (gy : Int) fn isStrain nl p =
      .ok ⟨⟨isStrain, fieldModuleOf k, p.d, pySlice p.colStart p.colEnd cv, gridPts p.d.a p.d.b gx gy, A.outNumCores, nl⟩,
        meshX (linspace0 p.d.a gx) (linspace0 p.d.b gy), meshY (linspace0 p.d.a gx) (linspace0 p.d.b gy),
        ⟨[gy, gx], (gridPts p.d.a p.d.b gx gy).map (g p.d (pySlice p.colStart p.colEnd cv))⟩⟩ := by
  unfold Assembly.evalPanel
  simp only [CArg.slice, hk, hg, asmDefaultField_grid, grid_pts, wrapper_eq_map _ _ _ hc, reshape, grid_shape]

theorem assign_slices_flatten {R G α : Type} (c0 : Nat) (ps : List (Panel K R G)) (c : List α)
    (h : c.length = c0 + (sizesOf ps).sum) :
    ((assignFrom c0 ps).map fun p => pySlice p.colStart p.colEnd c).flatten = c.drop c0 := by
  induction ps generalizing c0 with
  | nil =>
    simp only [assignFrom, List.map_nil, List.flatten_nil]
    rw [List.drop_of_length_le (by simp [sizesOf] at h; omega)]
  | cons p t ih =>
    have hs : (sizesOf (p :: t)).sum = 3 * p.d.m * p.d.n + (sizesOf t).sum := by simp [sizesOf]
    simp only [assignFrom, List.map_cons, List.flatten_cons]
    rw [ih (c0 + 3 * p.d.m * p.d.n) (by rw [h, hs]; omega)]
    simp only [pySlice, Option.getD_some]
    rw [List.drop_take]
    have : c0 + 3 * p.d.m * p.d.n - c0 = 3 * p.d.m * p.d.n := by omega
    rw [this, ← List.drop_drop, List.take_append_drop]

theorem assign_slice_length {R G α : Type} (c0 : Nat) (ps : List (Panel K R G)) (c : List α)
    (h : c0 + (sizesOf ps).sum ≤ c.length) :
    ∀ p ∈ assignFrom c0 ps, (pySlice p.colStart p.colEnd c).length = 3 * p.d.m * p.d.n := by
  induction ps generalizing c0 with
  | nil => intro p hp; simp [assignFrom] at hp
  | cons q t ih =>
    have hs : (sizesOf (q :: t)).sum = 3 * q.d.m * q.d.n + (sizesOf t).sum := by simp [sizesOf]
    intro p hp
    simp only [assignFrom, List.mem_cons] at hp
    rcases hp with rfl | hp
    · simp only [pySlice, Option.getD_some, List.length_drop, List.length_take]
      omega
    · exact ih (c0 + 3 * q.d.m * q.d.n) (by omega) p hp

/-- a successful query at a point list returns one value per point -/
theorem evalField_pts_length {R G V : Type} (P : Panel K R G) (c : CArg K) (gx gy : Int)
    (fn : FieldModule → Option (PanelDef K R → List K → K × K → V)) (isStrain : Bool) (nl : Nat)
    (pts : List (K × K)) (hcores : 1 ≤ P.d.outNumCores) (r : FieldPts K × Arr V)
    (h : (P.evalField c (xsOf pts) (ysOf pts) gx gy fn isStrain nl).res = .ok r) : r.2.data.length = pts.length := by
  unfold Panel.evalField at h
  simp only [defaultField_pts] at h
  cases hm : P.d.model with
  | unset => simp [hm] at h
  | invalid => simp [hm] at h
  | kind k =>
    simp only [hm] at h
    cases hg : fn (fieldModuleOf k) with
    | none => simp [hg] at h
    | some g =>
      simp only [hg] at h
      cases hc : c.contig with
      | none => simp [hc] at h
      | some cv =>
        simp only [hc, wrapper_eq_map _ _ _ hcores, reshape, FieldPts.pts, arr1, zip_fst_snd] at h
        injection h with h
        subst h
        simp

theorem uvw_pts_length {R G : Type} (kern : Kernels K R) (P : Panel K R G) (c : CArg K) (gx gy : Int) (pts : List (K × K))
    (hcores : 1 ≤ P.d.outNumCores) (r : Arr (Uvw5 K)) (h : (P.uvw kern c (xsOf pts) (ysOf pts) gx gy).res = .ok r) :
    r.data.length = pts.length := by
  rw [uvw_res] at h
  cases h0 : (P.evalField c (xsOf pts) (ysOf pts) gx gy (fun fm => some (kern.uvw fm)) false 0).res with
  | error e => simp [h0, Except.map] at h
  | ok r0 =>
    simp only [h0, Except.map] at h
    injection h with h
    subst h
    exact evalField_pts_length P c gx gy _ false 0 pts hcores r0 h0

theorem strain_pts_length {R G : Type} (kern : Kernels K R) (P : Panel K R G) (c : CArg K) (gx gy : Int) (NL : Bool)
    (pts : List (K × K)) (hcores : 1 ≤ P.d.outNumCores) (r : StrainRes K)
    (h : (P.strain kern c (xsOf pts) (ysOf pts) gx gy NL).res = .ok r) : r.e.data.length = pts.length := by
  rw [strain_eq] at h
  cases h0 : (P.evalField c (xsOf pts) (ysOf pts) gx gy (strainFn kern NL) true (nlFlag NL)).res with
  | error e => simp [h0, Except.map] at h
  | ok r0 =>
    simp only [h0, Except.map] at h
    injection h with h
    subst h
    exact evalField_pts_length P c gx gy _ true _ pts hcores r0 h0

theorem stress_pts_length {R G : Type} (kern : Kernels K R) (P : Panel K R G) (c : CArg K) (Farg : Option (Fin 6 → Fin 6 → K))
    (gx gy : Int) (NL : Bool) (pts : List (K × K)) (hcores : 1 ≤ P.d.outNumCores) (r : StressRes K)
    (h : (P.stress kern c Farg (xsOf pts) (ysOf pts) gx gy NL).res = .ok r) : r.N.data.length = pts.length := by
  rw [stress_eq] at h
  cases h0 : (P.strain kern c (xsOf pts) (ysOf pts) gx gy NL).res with
  | error e => simp [h0] at h
  | ok s =>
    cases hF : resolveF Farg P.d.F with
    | none => simp [h0, hF] at h
    | some F =>
      simp only [h0, hF] at h
      injection h with h
      subst h
      simp only [Arr.map, List.length_map]
      exact strain_pts_length kern P c gx gy NL pts hcores s h0

end queries


end Compmech.FieldGlue

namespace Compmech.FieldGlue
open Compmech.Chunking

/-- the earlier hand model of `Panel.strain` / `Panel.stress` on a given point list (`Chunking.panelStrain`, `Chunking.panelStress`;
Props/C11 `stress_eq_F_strain`, `stress_linear_eq_F_donnell`) is the inner part of the glue model: the compiled `fstrain` call of
`Panel.strain` IS `panelStrain` of the point kernel, and the products of `Panel.stress` ARE `panelStress` -/
theorem wrapper_strain_eq_panelStrain {K R : Type} [Field K] (kern : Kernels K R) (d : PanelDef K R) (cv : List K) (NL : Bool)
    (pts : List (K × K)) (cores : Nat) :
    wrapper (kern.strain d cv (nlFlag NL)) pts cores = panelStrain (kern.strain d cv) ((0 : K), (0 : K)) cores NL pts := rfl

theorem stress_products_eq_panelStress {K R : Type} [Field K] (kern : Kernels K R) (d : PanelDef K R) (cv : List K) (NL : Bool)
    (pts : List (K × K)) (cores : Nat) (Farg : Option (Fin 6 → Fin 6 → K)) :
    (resolveF Farg d.F).map (fun F => (wrapper (kern.strain d cv (nlFlag NL)) pts cores).map (applyF F)) =
      panelStress d.F Farg (kern.strain d cv) ((0 : K), (0 : K)) cores NL pts := by
  unfold panelStress resolveF
  cases Farg <;> cases d.F <;> rfl

end Compmech.FieldGlue
