/-
Hand-written models of the load side of the static analysis that `Model/Static.lean` does not contain:

  * `StiffPanelBay.calc_fext(silent)` (`stiffpanelbay/stiffpanelbay.py`).  AS THE CODE IS WRITTEN: the method has NO `inc`
    parameter and reads NO incrementable list.  It builds the skin vector from `self.forces_skin` (shape rows from `fg(g, x, y,
    self.panels[0])`), then for every `BladeStiff2D` — `continue` when `s.flange is None` (pad-up only stiffener) — the vector of
    `s.flange.forces`, then for every `TStiff2D` the vectors of `s.base.forces` and `s.flange.forces`; every part vector starts as
    `zeros(size)` and is accumulated with `+=` over the part's forces; the global vector grows by `np.concatenate`, so the running
    offset of a part is the length of what has been concatenated before it (there is no `col0` variable in this method; the log
    `BayState.log` records that length at the moment of every concatenation).  The lists `forces_inc` that the parts carry as
    `Panel` objects are NOT read (`PartLoads.forcesInc` is in the state, the model never looks at it), and a call with the keyword
    `inc=` is a `TypeError` (`bayCalcFext`).
  * `PanelAssembly.__init__` / `get_size` / `calc_fext(inc=1., silent)` (`panel/assembly/assembly.py`): `col_start` is a running
    offset advanced by `3*p.m*p.n` (NOT by the panel's own `num*m*n`), every panel is visited — also one whose constant list is
    empty — with `p.calc_fext(inc=inc, size=size, col0=p.col_start)`, results added.
  * `compmech.sparse.solve(a, b)`: `used_cols` = the columns of `a` holding a non-zero (ascending), the reduced system handed to
    `spsolve` (a PARAMETER), `x = zeros; x[used_cols] = px`.
  * the linear path of `Analysis.static(NLgeom=False, silent)` (`analysis/analysis.py`) and the function `static(K, fext, silent)`
    (`analysis/static.py`): `self.increments = []; self.cs = []` first (whatever an earlier analysis left is dropped), then
    `fext = self.calc_fext(silent=silent)` — NO `inc` keyword: the callee's own default decides (`1.` for `Panel` and
    `PanelAssembly`; the bay has none) —, `k0 = self.calc_k0(silent=silent)`, `c = solve(k0, fext, silent=silent)`,
    `cs = [c]`, `increments = [1.]`, `last_analysis = 'static'`, return `(increments, cs)`.

Kernels (`fg` rows inside `Force.g`), callables and the sparse solver are parameters.  Total functions; vectors of the bay are
`List K` (concatenation is `++`), those of panels / assemblies functions `ℕ → K` read on `[0, size)` as in `Model/Static.lean`.
-/
import CompmechVerif.Model.Static

namespace Compmech.Static
open Finset

variable {K : Type} [Field K]

/-! ### `StiffPanelBay.calc_fext` -/

/-- one loadable part of a bay (the skin, a flange, a base): its `get_size()`, the list `forces` the bay reads, and the list
`forces_inc` the part carries as a `Panel` object (never read by the bay) -/
structure PartLoads (K : Type) where
  n : ℕ
  forces : List (Force K)
  forcesInc : List (Force K)

/-- `v = np.zeros(n); for force in forces: v += fpt.dot(g).ravel()` -/
def accumulate (n : ℕ) (forces : List (Force K)) : List K :=
  forces.foldl (fun acc F => (List.range n).map fun k => acc.getD k 0 + F.at k) (List.replicate n 0)

def tagSkin : ℕ := 0
def tagBladeFlange : ℕ := 1
def tagTBase : ℕ := 2
def tagTFlange : ℕ := 3

/-- one `np.concatenate` (or the initial skin vector): which part, of which stiffener of its list, at which offset (= length
of the vector built so far), its size and how many forces were accumulated into it -/
structure Placed where
  tag : ℕ
  idx : ℕ
  off : ℕ
  size : ℕ
  nforces : ℕ
deriving DecidableEq, Repr

structure BayState (K : Type) where
  fext : List K
  log : List Placed

/-- `for s in self.bladestiff2ds:` — `if s.flange is None: continue`, else `fext = concatenate((fext, fext_stiffener))` -/
def fextBladeLoop : List (Option (PartLoads K)) → ℕ → BayState K → BayState K
  | [], _, st => st
  | none :: t, i, st => fextBladeLoop t (i + 1) st
  | some fl :: t, i, st =>
    fextBladeLoop t (i + 1)
      ⟨st.fext ++ accumulate fl.n fl.forces, st.log ++ [⟨tagBladeFlange, i, st.fext.length, fl.n, fl.forces.length⟩]⟩

/-- `for s in self.tstiff2ds:` — `fext = concatenate((fext, fext_base, fext_flange))` -/
def fextTLoop : List (PartLoads K × PartLoads K) → ℕ → BayState K → BayState K
  | [], _, st => st
  | s :: t, i, st =>
    let vb := accumulate s.1.n s.1.forces
    fextTLoop t (i + 1)
      ⟨st.fext ++ vb ++ accumulate s.2.n s.2.forces,
       st.log ++ [⟨tagTBase, i, st.fext.length, s.1.n, s.1.forces.length⟩,
                  ⟨tagTFlange, i, st.fext.length + vb.length, s.2.n, s.2.forces.length⟩]⟩

/-- the loads of a stiffened bay: the skin series `num*m*n`, `forces_skin`, per `BladeStiff2D` its flange (`none`: pad-up only),
per `TStiff2D` its base and its flange -/
structure BayLoads (K : Type) where
  num : ℕ
  m : ℕ
  n : ℕ
  forcesSkin : List (Force K)
  b2 : List (Option (PartLoads K))
  ts : List (PartLoads K × PartLoads K)

def BayLoads.skinSize (b : BayLoads K) : ℕ := b.num * b.m * b.n

def bayRun (b : BayLoads K) : BayState K :=
  fextTLoop b.ts 0 (fextBladeLoop b.b2 0
    ⟨accumulate b.skinSize b.forcesSkin, [⟨tagSkin, 0, 0, b.skinSize, b.forcesSkin.length⟩]⟩)

/-- the vector `StiffPanelBay.calc_fext()` returns -/
def bayFext (b : BayLoads K) : List K := (bayRun b).fext

/-- where every part went -/
def bayLayout (b : BayLoads K) : List Placed := (bayRun b).log

/-- `bay.calc_fext(inc=…)`: the method has no such parameter -/
def bayCalcFext (inc : Option K) (b : BayLoads K) : Except String (List K) :=
  match inc with
  | some _ => .error "TypeError"
  | none => .ok (bayFext b)

/-! reading of the result (used by the statements of Props/C07) -/

/-- the parts of the bay's amplitude vector in order: skin, flanges of the 2-D blades that have one, base and flange of every T -/
def BayLoads.parts (b : BayLoads K) : List (PartLoads K) :=
  ⟨b.skinSize, b.forcesSkin, []⟩ :: (b.b2.filterMap id ++ b.ts.flatMap fun s => [s.1, s.2])

/-- virtual work of the forces of consecutive parts, each against its own slice of `c` (slices laid one after the other
from `off`); only the lists the bay reads -/
def partsWork (c : ℕ → K) : ℕ → List (PartLoads K) → K
  | _, [] => 0
  | off, p :: ps => (p.forces.map fun F => F.work off p.n c).sum + partsWork c (off + p.n) ps

/-- the same with the incrementable lists the parts carry, scaled by `inc`: what the property would ask of a bay method that
had a load factor -/
def partsWorkInc (c : ℕ → K) (inc : K) : ℕ → List (PartLoads K) → K
  | _, [] => 0
  | off, p :: ps =>
    (p.forces.map fun F => F.work off p.n c).sum + inc * (p.forcesInc.map fun F => F.work off p.n c).sum
      + partsWorkInc c inc (off + p.n) ps

/-- layout of consecutive parts laid one after the other from `off`: (offset, size, number of forces read) -/
def layoutFrom : ℕ → List (PartLoads K) → List (ℕ × ℕ × ℕ)
  | _, [] => []
  | off, p :: ps => (off, p.n, p.forces.length) :: layoutFrom (off + p.n) ps

/-- what a log entry says about the vector: offset, size, number of forces accumulated -/
def Placed.triple (e : Placed) : ℕ × ℕ × ℕ := (e.off, e.size, e.nforces)

/-- the part with its incrementable list emptied -/
def PartLoads.dropInc (p : PartLoads K) : PartLoads K := { p with forcesInc := [] }

/-- the bay with the incrementable lists of all parts emptied -/
def BayLoads.dropInc (b : BayLoads K) : BayLoads K :=
  { b with b2 := b.b2.map (Option.map PartLoads.dropInc), ts := b.ts.map fun s => (s.1.dropInc, s.2.dropInc) }

def PartLoads.add (p q : PartLoads K) : PartLoads K := ⟨p.n, p.forces ++ q.forces, p.forcesInc ++ q.forcesInc⟩

def optAdd : Option (PartLoads K) → Option (PartLoads K) → Option (PartLoads K)
  | some p, some q => some (p.add q)
  | _, _ => none

/-- two load sets on the same bay, put on it together: every force list is the first one followed by the second one -/
def BayLoads.add (b d : BayLoads K) : BayLoads K :=
  ⟨b.num, b.m, b.n, b.forcesSkin ++ d.forcesSkin, List.zipWith optAdd b.b2 d.b2,
   List.zipWith (fun s t => (s.1.add t.1, s.2.add t.2)) b.ts d.ts⟩

/-- the two load sets live on the same bay: same skin series, same stiffeners with the same part sizes -/
def SameLayout (b d : BayLoads K) : Prop :=
  b.skinSize = d.skinSize ∧ b.b2.map (Option.map PartLoads.n) = d.b2.map (Option.map PartLoads.n) ∧
    b.ts.map (fun s => (s.1.n, s.2.n)) = d.ts.map (fun s => (s.1.n, s.2.n))

/-! ### `PanelAssembly.calc_fext` -/

/-- a panel of an assembly: its model's `num`, its series orders, its two force lists -/
structure AsmPanel (K : Type) where
  num : ℕ
  m : ℕ
  n : ℕ
  forces : List (Force K)
  forcesInc : List (Force K)

/-- `Panel.get_size()` -/
def AsmPanel.size (p : AsmPanel K) : ℕ := p.num * p.m * p.n

/-- what `PanelAssembly.__init__` and `get_size` advance by -/
def AsmPanel.step (p : AsmPanel K) : ℕ := 3 * p.m * p.n

/-- the panel without loads -/
def AsmPanel.unloaded (p : AsmPanel K) : AsmPanel K := { p with forces := [], forcesInc := [] }

/-- `PanelAssembly.get_size` -/
def asmSize (ps : List (AsmPanel K)) : ℕ := (ps.map AsmPanel.step).sum

/-- the loop of `__init__` (`p.col_start = col0; col0 += 3*p.m*p.n`) followed by what `calc_fext` hands to each panel:
`col0 = p.col_start`, the panel's own size and lists -/
def asmLoadsFrom : List (AsmPanel K) → ℕ → List (PanelLoads K)
  | [], _ => []
  | p :: ps, col0 => ⟨col0, p.size, p.forces, p.forcesInc⟩ :: asmLoadsFrom ps (col0 + p.step)

/-- `PanelAssembly.calc_fext(inc)`; `inc = none`: keyword not passed, default `1.` -/
def asmCalcFext (ps : List (AsmPanel K)) (inc : Option K) : ℕ → K :=
  assemblyFext (asmLoadsFrom ps 0) (inc.getD 1)

/-- virtual work of one assembly panel's forces against its own slice: constant ones unscaled, incrementable ones × `inc` -/
def panelWork (inc : K) (c : ℕ → K) (q : PanelLoads K) : K :=
  (q.forces.map fun F => F.work q.col0 q.n c).sum + inc * (q.forcesInc.map fun F => F.work q.col0 q.n c).sum

/-! ### `sparse.solve` -/

/-- `remove_null_cols`: `rows, cols = m.nonzero(); used_cols = np.unique(cols)` -/
def usedCols [DecidableEq K] (A : ℕ → ℕ → K) (n : ℕ) : List ℕ :=
  (List.range n).filter fun j => (List.range n).any fun i => decide (A i j ≠ 0)

/-- `m[used_cols, :][:, used_cols]` -/
def reducedMat (A : ℕ → ℕ → K) (used : List ℕ) (r s : ℕ) : K := A (used.getD r 0) (used.getD s 0)

/-- `b[used_cols]` -/
def reducedVec (b : ℕ → K) (used : List ℕ) (r : ℕ) : K := b (used.getD r 0)

/-- the sparse solver: dimension, matrix, right-hand side ↦ answer -/
abbrev Spsolve (K : Type) := ℕ → (ℕ → ℕ → K) → (ℕ → K) → ℕ → K

/-- `sparse.solve(a, b)` -/
def solve [DecidableEq K] (sp : Spsolve K) (A : ℕ → ℕ → K) (b : ℕ → K) (n : ℕ) : ℕ → K :=
  let used := usedCols A n
  scatter used (sp used.length (reducedMat A used) (reducedVec b used))

/-- the solver contract: its answer solves the reduced system it was handed -/
def SolvesReduced [DecidableEq K] (sp : Spsolve K) (A : ℕ → ℕ → K) (b : ℕ → K) (n : ℕ) : Prop :=
  ∀ r, r < (usedCols A n).length →
    ∑ s ∈ range (usedCols A n).length,
      reducedMat A (usedCols A n) r s * sp (usedCols A n).length (reducedMat A (usedCols A n)) (reducedVec b (usedCols A n)) s
      = reducedVec b (usedCols A n) r

/-! ### `Analysis.static(NLgeom=False)` and `static(K, fext)` -/

/-- the two callables an `Analysis` object is built with; `calcFext inc`: what the callable does when called with the keyword
`inc` (`none`: called without it) — it returns a vector or raises -/
structure Callables (K : Type) where
  size : ℕ
  calcFext : Option K → Except String (ℕ → K)
  calcK0 : Except String (ℕ → ℕ → K)

/-- what an analysis object holds between calls -/
structure AnalysisState (K : Type) where
  increments : List K
  cs : List (ℕ → K)
  lastAnalysis : String

/-- the calls the linear path makes, in order; `incPassed`: whether `calc_fext` got an `inc` keyword -/
inductive StaticCall where
  | calcFext (incPassed : Bool)
  | calcK0
  | solve
deriving DecidableEq, Repr

/-- outcome of `Analysis.static(NLgeom=False)`: the object's post-state (`increments`, `cs` are also the returned pair), the
calls made, and the exception that escaped, if any -/
structure StaticOutcome (K : Type) where
  post : AnalysisState K
  calls : List StaticCall
  raised : Option String

/-- `Analysis.static(NLgeom=False)`; `pre` is what an earlier analysis left behind: its `increments` and `cs` are dropped before
anything is computed, its `last_analysis` survives only when a callable raises -/
def analysisStatic [DecidableEq K] (cb : Callables K) (sp : Spsolve K) (pre : AnalysisState K) : StaticOutcome K :=
  match cb.calcFext none with
  | .error e => ⟨⟨[], [], pre.lastAnalysis⟩, [StaticCall.calcFext false], some e⟩
  | .ok fext =>
    match cb.calcK0 with
    | .error e => ⟨⟨[], [], pre.lastAnalysis⟩, [StaticCall.calcFext false, StaticCall.calcK0], some e⟩
    | .ok k0 =>
      ⟨⟨[] ++ [1], [] ++ [solve sp k0 fext cb.size], "static"⟩,
       [StaticCall.calcFext false, StaticCall.calcK0, StaticCall.solve], none⟩

/-- `compmech.analysis.static(K, fext)`: `(increments, cs)` -/
def staticFn [DecidableEq K] (sp : Spsolve K) (A : ℕ → ℕ → K) (fext : ℕ → K) (n : ℕ) : List K × List (ℕ → K) :=
  ([1], [solve sp A fext n])

/-- `Analysis(panel.calc_fext, panel.calc_k0)`: `Panel.calc_fext(inc=1., size=None, col0=0)` -/
def panelCallables (forces forcesInc : List (Force K)) (n : ℕ) (k0 : ℕ → ℕ → K) : Callables K :=
  ⟨n, fun inc => .ok (calcFext forces forcesInc (inc.getD 1) 0 n), .ok k0⟩

/-- `Analysis(assy.calc_fext, assy.calc_k0)` -/
def asmCallables (ps : List (AsmPanel K)) (k0 : ℕ → ℕ → K) : Callables K :=
  ⟨asmSize ps, fun inc => .ok (asmCalcFext ps inc), .ok k0⟩

/-- `Analysis(bay.calc_fext, bay.calc_k0)` -/
def bayCallables (b : BayLoads K) (k0 : ℕ → ℕ → K) : Callables K :=
  ⟨(bayFext b).length, fun inc => (bayCalcFext inc b).map fun v k => v.getD k 0, .ok k0⟩

end Compmech.Static
