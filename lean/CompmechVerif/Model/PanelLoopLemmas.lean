/-
Lemmas about `Model/PanelLoop.lean`: what the COO list produced by the loop nest denotes.
-/
import CompmechVerif.Model.PanelLoop
import CompmechVerif.Model.AssemblyLemmas
import CompmechVerif.Core.OpSpecLemmas

namespace Compmech.PanelLoop
open Compmech.Asm

variable {K : Type} [Field K]

theorem toFun_eq_zero_of_forall (l : Coo K) (r c : Nat) (h : ∀ x ∈ l, x.1 ≠ r ∨ x.2.1 ≠ c) : toFun l r c = 0 := by
  induction l with
  | nil => rfl
  | cons x t ih =>
    rw [toFun_cons, ih fun y hy => h y (List.mem_cons_of_mem _ hy)]
    have : ¬ (x.1 = r ∧ x.2.1 = c) := by
      rcases h x (List.mem_cons_self) with h1 | h1
      · exact fun hh => h1 hh.1
      · exact fun hh => h1 hh.2
    simp [this]

theorem toFun_flatMap {α : Type} (l : List α) (f : α → Coo K) (r c : Nat) :
    toFun (l.flatMap f) r c = (l.map fun x => toFun (f x) r c).sum := by
  induction l with
  | nil => rfl
  | cons a t ih => simp [List.flatMap_cons, toFun_append, ih]

theorem toFun_map_sum {α : Type} (l : List α) (f : α → Nat × Nat × K) (r c : Nat) :
    toFun (l.map f) r c = (l.map fun x => toFun [f x] r c).sum := by
  induction l with
  | nil => rfl
  | cons a t ih => simp [toFun_cons, ih]

theorem sum_map_single {α : Type} (l : List α) (hl : l.Nodup) (x₀ : α) (hx₀ : x₀ ∈ l) (g : α → K)
    (hz : ∀ x ∈ l, x ≠ x₀ → g x = 0) : (l.map g).sum = g x₀ := by
  induction l with
  | nil => cases hx₀
  | cons a t ih =>
    rw [List.map_cons, List.sum_cons]
    rw [List.nodup_cons] at hl
    rcases List.mem_cons.mp hx₀ with h | h
    · subst h
      have : (t.map g).sum = 0 := by
        apply List.sum_eq_zero
        intro y hy
        obtain ⟨x, hx, rfl⟩ := List.mem_map.mp hy
        exact hz x (List.mem_cons_of_mem _ hx) (fun hh => hl.1 (hh ▸ hx))
      rw [this, add_zero]
    · have ha : a ≠ x₀ := fun hh => hl.1 (hh ▸ h)
      rw [hz a List.mem_cons_self ha, zero_add]
      exact ih hl.2 h fun x hx hne => hz x (List.mem_cons_of_mem _ hx) hne

/-- the dof map `(ro, i, j) ↦ num (j m + i) + ro` is injective on the admissible ranges -/
theorem dof_unique {num m ro i j ro' i' j' : Nat} (hro : ro < num) (hro' : ro' < num) (hi : i < m) (hi' : i' < m)
    (h : num * (j * m + i) + ro = num * (j' * m + i') + ro') : ro = ro' ∧ i = i' ∧ j = j' := by
  have hnum : 0 < num := Nat.lt_of_le_of_lt (Nat.zero_le _) hro
  have h1 : ro = ro' := by
    have := congrArg (· % num) h
    simp only [Nat.mul_add_mod] at this
    rwa [Nat.mod_eq_of_lt hro, Nat.mod_eq_of_lt hro'] at this
  subst h1
  have h2 : j * m + i = j' * m + i' := Nat.eq_of_mul_eq_mul_left hnum (Nat.add_right_cancel h)
  have h3 : i = i' := by
    have := congrArg (· % m) h2
    simp only [Nat.mul_add_mod_self_right] at this
    rwa [Nat.mod_eq_of_lt hi, Nat.mod_eq_of_lt hi'] at this
  subst h3
  have hm : 0 < m := Nat.lt_of_le_of_lt (Nat.zero_le _) hi
  exact ⟨rfl, rfl, Nat.eq_of_mul_eq_mul_right hm (Nat.add_right_cancel h2)⟩

theorem mem_block {num m row0 col0 : Nat} {e : Fin num → Fin num → Nat → Nat → Nat → Nat → K} {i k j l : Nat}
    {x : Nat × Nat × K} (hx : x ∈ block num m row0 col0 e i k j l) :
    ∃ ro co : Fin num, x.1 = row0 + num * (j * m + i) + ro.val ∧ x.2.1 = col0 + num * (l * m + k) + co.val := by
  unfold block at hx
  split at hx
  · cases hx
  · simp only [List.mem_flatMap, List.mem_map, List.mem_finRange, true_and] at hx
    obtain ⟨ro, co, rfl⟩ := hx
    exact ⟨ro, co, rfl, rfl⟩

/-- value of the block of `(i, k, j, l)` at one of its own positions -/
theorem toFun_block (num m row0 col0 : Nat) (e : Fin num → Fin num → Nat → Nat → Nat → Nat → K) (i k j l : Nat)
    (hns : ¬ row0 + num * (j * m + i) > col0 + num * (l * m + k)) (α β : Fin num) :
    toFun (block num m row0 col0 e i k j l) (row0 + num * (j * m + i) + α.val) (col0 + num * (l * m + k) + β.val)
      = e α β i k j l := by
  unfold block
  rw [if_neg hns, toFun_flatMap,
    sum_map_single _ (List.nodup_finRange num) α (List.mem_finRange α)]
  · rw [toFun_map_sum, sum_map_single _ (List.nodup_finRange num) β (List.mem_finRange β)]
    · simp [toFun_cons]
    · intro co _ hne
      have : ¬ (co.val = β.val) := fun hh => hne (Fin.ext hh)
      simp [toFun_cons, this]
  · intro ro _ hne
    apply toFun_eq_zero_of_forall
    intro x hx
    simp only [List.mem_map, List.mem_finRange, true_and] at hx
    obtain ⟨co, rfl⟩ := hx
    left
    intro hh
    exact hne (Fin.ext (by simpa using hh))

/-- WHAT THE KERNEL'S COO LIST DENOTES: at the position of `(α, i, j)` × `(β, k, l)` the accumulated value is the entry
expression of exactly those two degrees of freedom, provided their block is not skipped … -/
theorem toFun_loopNest (num m n row0 col0 : Nat) (e : Fin num → Fin num → Nat → Nat → Nat → Nat → K)
    {i k j l : Nat} (hi : i < m) (hk : k < m) (hj : j < n) (hl : l < n) (α β : Fin num)
    (hns : ¬ row0 + num * (j * m + i) > col0 + num * (l * m + k)) :
    toFun (loopNest num m n row0 col0 e) (row0 + num * (j * m + i) + α.val) (col0 + num * (l * m + k) + β.val)
      = e α β i k j l := by
  unfold loopNest
  rw [toFun_flatMap, sum_map_single _ (List.nodup_range) i (List.mem_range.mpr hi)]
  · rw [toFun_flatMap, sum_map_single _ (List.nodup_range) k (List.mem_range.mpr hk)]
    · rw [toFun_flatMap, sum_map_single _ (List.nodup_range) j (List.mem_range.mpr hj)]
      · rw [toFun_flatMap, sum_map_single _ (List.nodup_range) l (List.mem_range.mpr hl)]
        · exact toFun_block num m row0 col0 e i k j l hns α β
        · intro l' hl' hne
          apply toFun_eq_zero_of_forall
          intro x hx
          obtain ⟨ro, co, _, h2⟩ := mem_block hx
          right
          intro hh
          rw [h2] at hh
          exact hne (dof_unique co.isLt β.isLt hk hk (by omega)).2.2
      · intro j' hj' hne
        apply toFun_eq_zero_of_forall
        intro x hx
        simp only [List.mem_flatMap, List.mem_range] at hx
        obtain ⟨l', _, hx⟩ := hx
        obtain ⟨ro, co, h1, _⟩ := mem_block hx
        left
        intro hh
        rw [h1] at hh
        exact hne (dof_unique ro.isLt α.isLt hi hi (by omega)).2.2
    · intro k' hk' hne
      apply toFun_eq_zero_of_forall
      intro x hx
      simp only [List.mem_flatMap, List.mem_range] at hx
      obtain ⟨j', _, l', _, hx⟩ := hx
      obtain ⟨ro, co, _, h2⟩ := mem_block hx
      right
      intro hh
      rw [h2] at hh
      exact hne (dof_unique (j := l') (j' := l) co.isLt β.isLt (List.mem_range.mp hk') hk (by omega)).2.1
  · intro i' hi' hne
    apply toFun_eq_zero_of_forall
    intro x hx
    simp only [List.mem_flatMap, List.mem_range] at hx
    obtain ⟨k', _, j', _, l', _, hx⟩ := hx
    obtain ⟨ro, co, h1, _⟩ := mem_block hx
    left
    intro hh
    rw [h1] at hh
    exact hne (dof_unique (j := j') (j' := j) ro.isLt α.isLt (List.mem_range.mp hi') hi (by omega)).2.1


theorem base_le_of_pos_le {num A B a b : Nat} (hb : b < num) (h : num * A + a ≤ num * B + b) :
    num * A ≤ num * B := by
  by_contra h'
  have hlt : B < A := Nat.lt_of_mul_lt_mul_left (Nat.lt_of_not_le h')
  have h2 : num * (B + 1) ≤ num * A := Nat.mul_le_mul_left _ hlt
  rw [Nat.mul_add, Nat.mul_one] at h2
  omega

/-- AFTER `finalize_symmetric_matrix`, for a kernel called with `row0 = col0`: the matrix entry of any two degrees of freedom
is the entry expression of that pair in the order in which their positions are sorted … -/
theorem toFun_finalize_loopNest (num m n row0 : Nat) (e : Fin num → Fin num → Nat → Nat → Nat → Nat → K)
    {i k j l : Nat} (hi : i < m) (hk : k < m) (hj : j < n) (hl : l < n) (α β : Fin num) :
    toFun (finalize (loopNest num m n row0 row0 e)) (row0 + num * (j * m + i) + α.val) (row0 + num * (l * m + k) + β.val)
      = if row0 + num * (j * m + i) + α.val ≤ row0 + num * (l * m + k) + β.val then e α β i k j l
        else e β α k i l j := by
  unfold finalize
  rw [toFun_makeSymmetric]
  split
  · next h =>
    apply toFun_loopNest num m n row0 row0 e hi hk hj hl
    have := base_le_of_pos_le (num := num) (A := j * m + i) (B := l * m + k) (a := α.val) β.isLt (by omega)
    omega
  · next h =>
    apply toFun_loopNest num m n row0 row0 e hk hi hl hj
    have := base_le_of_pos_le (num := num) (A := l * m + k) (B := j * m + i) (a := β.val) α.isLt (by omega)
    omega

/-- … hence, when the entry expressions are symmetric under exchange of the two degrees of freedom (C02/C03/C04:
`*_entry_symm_*`), the finalized matrix holds at EVERY pair of positions the entry expression of that pair:
nothing is lost or misplaced by the `row > col` skip and the mirroring. -/
theorem toFun_finalize_loopNest_of_symm (num m n row0 : Nat) (e : Fin num → Fin num → Nat → Nat → Nat → Nat → K)
    (hsym : ∀ α β i k j l, e α β i k j l = e β α k i l j)
    {i k j l : Nat} (hi : i < m) (hk : k < m) (hj : j < n) (hl : l < n) (α β : Fin num) :
    toFun (finalize (loopNest num m n row0 row0 e)) (row0 + num * (j * m + i) + α.val) (row0 + num * (l * m + k) + β.val)
      = e α β i k j l := by
  rw [toFun_finalize_loopNest num m n row0 e hi hk hj hl]
  split
  · rfl
  · exact (hsym α β i k j l).symm

/-- conical panels: the sections add up -/
theorem toFun_finalize_sectionedNest_of_symm (s num m n row0 : Nat)
    (e : Nat → Fin num → Fin num → Nat → Nat → Nat → Nat → K)
    (hsym : ∀ sec α β i k j l, e sec α β i k j l = e sec β α k i l j)
    {i k j l : Nat} (hi : i < m) (hk : k < m) (hj : j < n) (hl : l < n) (α β : Fin num) :
    toFun (finalize (sectionedNest s num m n row0 row0 e))
        (row0 + num * (j * m + i) + α.val) (row0 + num * (l * m + k) + β.val)
      = ((List.range s).map fun sec => e sec α β i k j l).sum := by
  unfold finalize sectionedNest
  rw [toFun_makeSymmetric]
  have key : ∀ (r c : Nat), toFun ((List.range s).flatMap fun sec => loopNest num m n row0 row0 (e sec)) r c =
      ((List.range s).map fun sec => toFun (loopNest num m n row0 row0 (e sec)) r c).sum :=
    fun r c => toFun_flatMap _ _ r c
  rw [key, key]
  split
  · next h =>
    refine congrArg List.sum (List.map_congr_left fun sec _ => ?_)
    apply toFun_loopNest num m n row0 row0 (e sec) hi hk hj hl
    have := base_le_of_pos_le (num := num) (A := j * m + i) (B := l * m + k) (a := α.val) β.isLt (by omega)
    omega
  · next h =>
    refine congrArg List.sum (List.map_congr_left fun sec _ => ?_)
    rw [hsym sec α β i k j l]
    apply toFun_loopNest num m n row0 row0 (e sec) hk hi hl hj
    have := base_le_of_pos_le (num := num) (A := l * m + k) (B := j * m + i) (a := β.val) α.isLt (by omega)
    omega


/-- the order in which the four loops are nested does not change what the COO list denotes -/
theorem toFun_loopNestYX (num m n row0 col0 : Nat) (e : Fin num → Fin num → Nat → Nat → Nat → Nat → K) (r c : Nat) :
    toFun (loopNestYX num m n row0 col0 e) r c = toFun (loopNest num m n row0 col0 e) r c := by
  unfold loopNestYX loopNest
  simp only [toFun_flatMap]
  -- Σj Σl Σi Σk  →  Σi Σk Σj Σl
  have s1 : ∀ (g : Nat → Nat → Nat → Nat → K),
      ((List.range n).map fun j => ((List.range n).map fun l => ((List.range m).map fun i =>
        ((List.range m).map fun k => g i k j l).sum).sum).sum).sum =
      ((List.range m).map fun i => ((List.range m).map fun k => ((List.range n).map fun j =>
        ((List.range n).map fun l => g i k j l).sum).sum).sum).sum := by
    intro g
    calc _ = ((List.range n).map fun j => ((List.range m).map fun i => ((List.range n).map fun l =>
              ((List.range m).map fun k => g i k j l).sum).sum).sum).sum := by
            refine congrArg List.sum (List.map_congr_left fun j _ => ?_)
            exact Compmech.Panel.list_sum_comm _ _ _
      _ = ((List.range m).map fun i => ((List.range n).map fun j => ((List.range n).map fun l =>
              ((List.range m).map fun k => g i k j l).sum).sum).sum).sum := Compmech.Panel.list_sum_comm _ _ _
      _ = ((List.range m).map fun i => ((List.range n).map fun j => ((List.range m).map fun k =>
              ((List.range n).map fun l => g i k j l).sum).sum).sum).sum := by
            refine congrArg List.sum (List.map_congr_left fun i _ => ?_)
            refine congrArg List.sum (List.map_congr_left fun j _ => ?_)
            exact Compmech.Panel.list_sum_comm _ _ _
      _ = _ := by
            refine congrArg List.sum (List.map_congr_left fun i _ => ?_)
            exact Compmech.Panel.list_sum_comm _ _ _
  exact s1 fun i k j l => toFun (block num m row0 col0 e i k j l) r c

theorem toFun_finalize_loopNestYX (num m n row0 col0 : Nat) (e : Fin num → Fin num → Nat → Nat → Nat → Nat → K)
    (r c : Nat) :
    toFun (finalize (loopNestYX num m n row0 col0 e)) r c = toFun (finalize (loopNest num m n row0 col0 e)) r c := by
  unfold finalize
  rw [toFun_makeSymmetric, toFun_makeSymmetric, toFun_loopNestYX, toFun_loopNestYX]

/-- the finalized matrix is symmetric whatever the entry expressions -/
theorem finalize_symmetric (l : Coo K) (r c : Nat) : toFun (finalize l) r c = toFun (finalize l) c r :=
  toFun_makeSymmetric_symm l r c

end Compmech.PanelLoop

namespace Compmech.PanelLoop
open Compmech.Asm
variable {K : Type} [Field K]

theorem shift_flatMap {α : Type} (r0 c0 : Nat) (l : List α) (f : α → Coo K) :
    shift r0 c0 (l.flatMap f) = l.flatMap fun x => shift r0 c0 (f x) := by
  unfold shift
  rw [List.map_flatMap]

theorem block_shift (num m r0 : Nat) (e : Fin num → Fin num → Nat → Nat → Nat → Nat → K) (i k j l : Nat) :
    block num m r0 r0 e i k j l = shift r0 r0 (block num m 0 0 e i k j l) := by
  unfold block
  by_cases h : num * (j * m + i) > num * (l * m + k)
  · have h1 : r0 + num * (j * m + i) > r0 + num * (l * m + k) := by omega
    have h2 : 0 + num * (j * m + i) > 0 + num * (l * m + k) := by omega
    rw [if_pos h1, if_pos h2]
    rfl
  · have h1 : ¬ r0 + num * (j * m + i) > r0 + num * (l * m + k) := by omega
    have h2 : ¬ 0 + num * (j * m + i) > 0 + num * (l * m + k) := by omega
    rw [if_neg h1, if_neg h2, shift_flatMap]
    refine List.flatMap_congr fun ro _ => ?_
    unfold shift
    rw [List.map_map]
    refine List.map_congr_left fun co _ => ?_
    simp only [Function.comp, Nat.zero_add, Nat.add_assoc]

/-- PLACEMENT: a panel kernel asked to write at `row0 = col0 = r0` returns exactly its stand-alone (`row0 = col0 = 0`) result
shifted by `(r0, r0)` — the hypothesis under which Model/Assembly.lean (C13) treats kernels as parameters.  (For
`row0 ≠ col0` this is FALSE in general: the `row > col` skip compares global positions.) -/
theorem loopNest_shift (num m n r0 : Nat) (e : Fin num → Fin num → Nat → Nat → Nat → Nat → K) :
    loopNest num m n r0 r0 e = shift r0 r0 (loopNest num m n 0 0 e) := by
  unfold loopNest
  rw [shift_flatMap]
  refine List.flatMap_congr fun i _ => ?_
  rw [shift_flatMap]
  refine List.flatMap_congr fun k _ => ?_
  rw [shift_flatMap]
  refine List.flatMap_congr fun j _ => ?_
  rw [shift_flatMap]
  refine List.flatMap_congr fun l _ => ?_
  exact block_shift num m r0 e i k j l

end Compmech.PanelLoop

namespace Compmech.PanelLoop
open Compmech.Asm
variable {K : Type} [Field K]

end Compmech.PanelLoop
