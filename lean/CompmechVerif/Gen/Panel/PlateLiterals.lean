/- GENERATED: accuracy of long decimal literals of plate_clt_donnell_bardell -/
import Mathlib.Tactic.NormNum
import Mathlib.Algebra.Order.Field.Rat
import Mathlib.Algebra.Order.AbsoluteValue.Basic

/-- long decimal literal `0.0833333333333333` is read as 1/12 -/
theorem Compmech.Gen.Plate.literal_0_ok : |(833333333333333 / 10000000000000000 : ℚ) - 1 / 12| ≤ 1 / 10 ^ 13 * |(1 / 12 : ℚ)| := by norm_num [abs_le]

