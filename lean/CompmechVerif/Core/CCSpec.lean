/-
Specification vocabulary for the complete-shell linear kernels (C16).  Hand-written; the kernel entries themselves are
regenerated from the source (Gen/ConeCyl/*.lean) as functions `CCV K → K`.
-/
import CompmechVerif.Core.CCVars
import Mathlib.Algebra.Field.Defs
import Mathlib.Tactic.Ring
import Mathlib.Tactic.FieldSimp
import Mathlib.Tactic.LinearCombination

namespace Compmech.CC

variable {K : Type} [Field K]

/-- the same shell, series position and trigonometric atoms, other load triple -/
def withLoads (v : CCV K) (a b c : K) : CCV K := { v with Fc := a, P := b, T := c }

/-- an entry is linear in the load triple `(Fc, P, T)`: it is `Fc·X + P·Y + T·Z` with `X, Y, Z` its values for the three
unit loads -/
def LinearInLoads (e : CCV K → K) : Prop :=
  ∀ v a b c, e (withLoads v a b c) = a * e (withLoads v 1 0 0) + b * e (withLoads v 0 1 0) + c * e (withLoads v 0 0 1)

/-- consequence used by the combined-load split: the entry for `(Fc, P, T)` is the sum of the entries for
`(Fc, 0, 0)`, `(0, P, 0)` and `(0, 0, T)` -/
theorem LinearInLoads.split {e : CCV K → K} (h : LinearInLoads e) (v : CCV K) (a b c : K) :
    e (withLoads v a b c) = e (withLoads v a 0 0) + e (withLoads v 0 b 0) + e (withLoads v 0 0 c) := by
  rw [h v a b c, h v a 0 0, h v 0 b 0, h v 0 0 c]; ring

/-- … and homogeneous/additive: a linear combination of two load triples gives the linear combination of the entries -/
theorem LinearInLoads.combine {e : CCV K → K} (h : LinearInLoads e) (v : CCV K) (s t a b c a' b' c' : K) :
    e (withLoads v (s * a + t * a') (s * b + t * b') (s * c + t * c')) =
      s * e (withLoads v a b c) + t * e (withLoads v a' b' c') := by
  rw [h v _ _ _, h v a b c, h v a' b' c']; ring

/-- The single section `[0, L]` of a cone with `sin α = 0`, `cos α = 1` (so `r = r2`): every trigonometric atom takes
its value at the ends, `sin(kπ·0/L) = 0`, `cos(kπ·0/L) = 1`, `sin(kπ) = 0`, `cos(kπ) = (−1)^k = sg_k`,
`sin(kπ(0 ± L)/L) = 0`, `cos(kπ(0 ± L)/L) = sg_k`, `sin(2kπ·) = 0`, `cos(2kπ·) = 1` (justified for integer `k` over ℝ by
`Spec/TrigAtoms.lean`). -/
def atEnds (v : CCV K) : CCV K :=
  { v with
    sina := 0, cosa := 1, r := v.r2, xa := 0, xb := v.L,
    s1_i1_a := 0, c1_i1_a := 1, s1_i1_b := 0, c1_i1_b := v.sg_i1,
    s1_i1_p := 0, c1_i1_p := v.sg_i1, s1_i1_m := 0, c1_i1_m := v.sg_i1,
    s2_i1_a := 0, c2_i1_a := 1, s2_i1_b := 0, c2_i1_b := 1, s2_i1_p := 0, c2_i1_p := 1, s2_i1_m := 0, c2_i1_m := 1,
    s1_k1_a := 0, c1_k1_a := 1, s1_k1_b := 0, c1_k1_b := v.sg_k1,
    s1_k1_p := 0, c1_k1_p := v.sg_k1, s1_k1_m := 0, c1_k1_m := v.sg_k1,
    s2_k1_a := 0, c2_k1_a := 1, s2_k1_b := 0, c2_k1_b := 1, s2_k1_p := 0, c2_k1_p := 1, s2_k1_m := 0, c2_k1_m := 1,
    s1_i2_a := 0, c1_i2_a := 1, s1_i2_b := 0, c1_i2_b := v.sg_i2,
    s1_i2_p := 0, c1_i2_p := v.sg_i2, s1_i2_m := 0, c1_i2_m := v.sg_i2,
    s2_i2_a := 0, c2_i2_a := 1, s2_i2_b := 0, c2_i2_b := 1, s2_i2_p := 0, c2_i2_p := 1, s2_i2_m := 0, c2_i2_m := 1,
    s1_k2_a := 0, c1_k2_a := 1, s1_k2_b := 0, c1_k2_b := v.sg_k2,
    s1_k2_p := 0, c1_k2_p := v.sg_k2, s1_k2_m := 0, c1_k2_m := v.sg_k2,
    s2_k2_a := 0, c2_k2_a := 1, s2_k2_b := 0, c2_k2_b := 1, s2_k2_p := 0, c2_k2_p := 1, s2_k2_m := 0, c2_k2_m := 1 }

/-- side conditions of the cone-vs-cylinder comparison: non-degenerate shell, `sg² = 1`, and (used by the isotropic
short-cut kernels only) `ν ≠ ±1` -/
def EndsHyp (v : CCV K) : Prop :=
  v.L ≠ 0 ∧ v.r2 ≠ 0 ∧ v.pi ≠ 0 ∧ v.sg_i1 ^ 2 = 1 ∧ v.sg_k1 ^ 2 = 1 ∧ v.sg_i2 ^ 2 = 1 ∧ v.sg_k2 ^ 2 = 1 ∧
    1 - v.nu ≠ 0 ∧ 1 + v.nu ≠ 0

/-- the laminate matrix of a homogeneous isotropic wall of thickness `h` (Young `E11`, Poisson `nu`) referred to its
mid-surface: `A = E h/(1−ν²)·[[1,ν,0],[ν,1,0],[0,0,(1−ν)/2]]`, `B = 0`, `D = (h²/12)·A` -/
def isoLam (v : CCV K) : CCV K :=
  { v with
    F_0_0 := v.E11 * v.h / ((1 - v.nu) * (1 + v.nu)), F_0_1 := v.nu * v.E11 * v.h / ((1 - v.nu) * (1 + v.nu)), F_0_2 := 0,
    F_1_1 := v.E11 * v.h / ((1 - v.nu) * (1 + v.nu)), F_1_2 := 0, F_2_2 := v.E11 * v.h / (2 * (1 + v.nu)),
    F_0_3 := 0, F_0_4 := 0, F_0_5 := 0, F_1_3 := 0, F_1_4 := 0, F_1_5 := 0, F_2_3 := 0, F_2_4 := 0, F_2_5 := 0,
    F_3_3 := v.E11 * v.h ^ 3 / (12 * ((1 - v.nu) * (1 + v.nu))), F_3_4 := v.nu * v.E11 * v.h ^ 3 / (12 * ((1 - v.nu) * (1 + v.nu))), F_3_5 := 0,
    F_4_4 := v.E11 * v.h ^ 3 / (12 * ((1 - v.nu) * (1 + v.nu))), F_4_5 := 0, F_5_5 := v.E11 * v.h ^ 3 / (24 * (1 + v.nu)) }

/-- side conditions of the isotropic comparison -/
def IsoHyp (v : CCV K) : Prop :=
  v.L ≠ 0 ∧ v.r ≠ 0 ∧ v.pi ≠ 0 ∧ v.cosa ≠ 0 ∧ 1 - v.nu ≠ 0 ∧ 1 + v.nu ≠ 0


/-- `sin θ` and `cos θ` from half-angle parameters `(p, q) ∝ (sin θ/2, cos θ/2)` -/
def hsin (p q : K) : K := 2 * p * q / (p ^ 2 + q ^ 2)
def hcos (p q : K) : K := (q ^ 2 - p ^ 2) / (p ^ 2 + q ^ 2)
/-- addition / subtraction / duplication formulas -/
def sinAdd (sa ca sb cb : K) : K := sa * cb + ca * sb
def cosAdd (sa ca sb cb : K) : K := ca * cb - sa * sb
def sinSub (sa ca sb cb : K) : K := sa * cb - ca * sb
def cosSub (sa ca sb cb : K) : K := ca * cb + sa * sb
def sinDbl (s c : K) : K := 2 * s * c
def cosDbl (s c : K) : K := c ^ 2 - s ^ 2

/-- Every trigonometric atom expressed through half-angle parameters: for a real angle `θ`, `(p, q) = (sin θ/2, cos θ/2)` gives
`sin θ = 2pq/(p²+q²)`, `cos θ = (q²−p²)/(p²+q²)`; the `(xa ± xb)` atoms follow from the addition formulas and the double-angle
atoms from the duplication formulas.  An identity proved for all `(p, q)` with `p² + q² ≠ 0` therefore holds for all actual
angles `π·i·xa/L`, `π·i·xb/L` — without ever using `sin² + cos² = 1` as a hypothesis. -/
def trigParam (v : CCV K) : CCV K :=
  { v with
    s1_i1_a := hsin v.hp_i1_a v.hq_i1_a,
    c1_i1_a := hcos v.hp_i1_a v.hq_i1_a,
    s2_i1_a := sinDbl (hsin v.hp_i1_a v.hq_i1_a) (hcos v.hp_i1_a v.hq_i1_a),
    c2_i1_a := cosDbl (hsin v.hp_i1_a v.hq_i1_a) (hcos v.hp_i1_a v.hq_i1_a),
    s1_i1_b := hsin v.hp_i1_b v.hq_i1_b,
    c1_i1_b := hcos v.hp_i1_b v.hq_i1_b,
    s2_i1_b := sinDbl (hsin v.hp_i1_b v.hq_i1_b) (hcos v.hp_i1_b v.hq_i1_b),
    c2_i1_b := cosDbl (hsin v.hp_i1_b v.hq_i1_b) (hcos v.hp_i1_b v.hq_i1_b),
    s1_i1_p := sinAdd (hsin v.hp_i1_a v.hq_i1_a) (hcos v.hp_i1_a v.hq_i1_a) (hsin v.hp_i1_b v.hq_i1_b) (hcos v.hp_i1_b v.hq_i1_b),
    c1_i1_p := cosAdd (hsin v.hp_i1_a v.hq_i1_a) (hcos v.hp_i1_a v.hq_i1_a) (hsin v.hp_i1_b v.hq_i1_b) (hcos v.hp_i1_b v.hq_i1_b),
    s2_i1_p := sinDbl (sinAdd (hsin v.hp_i1_a v.hq_i1_a) (hcos v.hp_i1_a v.hq_i1_a) (hsin v.hp_i1_b v.hq_i1_b) (hcos v.hp_i1_b v.hq_i1_b)) (cosAdd (hsin v.hp_i1_a v.hq_i1_a) (hcos v.hp_i1_a v.hq_i1_a) (hsin v.hp_i1_b v.hq_i1_b) (hcos v.hp_i1_b v.hq_i1_b)),
    c2_i1_p := cosDbl (sinAdd (hsin v.hp_i1_a v.hq_i1_a) (hcos v.hp_i1_a v.hq_i1_a) (hsin v.hp_i1_b v.hq_i1_b) (hcos v.hp_i1_b v.hq_i1_b)) (cosAdd (hsin v.hp_i1_a v.hq_i1_a) (hcos v.hp_i1_a v.hq_i1_a) (hsin v.hp_i1_b v.hq_i1_b) (hcos v.hp_i1_b v.hq_i1_b)),
    s1_i1_m := sinSub (hsin v.hp_i1_a v.hq_i1_a) (hcos v.hp_i1_a v.hq_i1_a) (hsin v.hp_i1_b v.hq_i1_b) (hcos v.hp_i1_b v.hq_i1_b),
    c1_i1_m := cosSub (hsin v.hp_i1_a v.hq_i1_a) (hcos v.hp_i1_a v.hq_i1_a) (hsin v.hp_i1_b v.hq_i1_b) (hcos v.hp_i1_b v.hq_i1_b),
    s2_i1_m := sinDbl (sinSub (hsin v.hp_i1_a v.hq_i1_a) (hcos v.hp_i1_a v.hq_i1_a) (hsin v.hp_i1_b v.hq_i1_b) (hcos v.hp_i1_b v.hq_i1_b)) (cosSub (hsin v.hp_i1_a v.hq_i1_a) (hcos v.hp_i1_a v.hq_i1_a) (hsin v.hp_i1_b v.hq_i1_b) (hcos v.hp_i1_b v.hq_i1_b)),
    c2_i1_m := cosDbl (sinSub (hsin v.hp_i1_a v.hq_i1_a) (hcos v.hp_i1_a v.hq_i1_a) (hsin v.hp_i1_b v.hq_i1_b) (hcos v.hp_i1_b v.hq_i1_b)) (cosSub (hsin v.hp_i1_a v.hq_i1_a) (hcos v.hp_i1_a v.hq_i1_a) (hsin v.hp_i1_b v.hq_i1_b) (hcos v.hp_i1_b v.hq_i1_b)),
    s1_k1_a := hsin v.hp_k1_a v.hq_k1_a,
    c1_k1_a := hcos v.hp_k1_a v.hq_k1_a,
    s2_k1_a := sinDbl (hsin v.hp_k1_a v.hq_k1_a) (hcos v.hp_k1_a v.hq_k1_a),
    c2_k1_a := cosDbl (hsin v.hp_k1_a v.hq_k1_a) (hcos v.hp_k1_a v.hq_k1_a),
    s1_k1_b := hsin v.hp_k1_b v.hq_k1_b,
    c1_k1_b := hcos v.hp_k1_b v.hq_k1_b,
    s2_k1_b := sinDbl (hsin v.hp_k1_b v.hq_k1_b) (hcos v.hp_k1_b v.hq_k1_b),
    c2_k1_b := cosDbl (hsin v.hp_k1_b v.hq_k1_b) (hcos v.hp_k1_b v.hq_k1_b),
    s1_k1_p := sinAdd (hsin v.hp_k1_a v.hq_k1_a) (hcos v.hp_k1_a v.hq_k1_a) (hsin v.hp_k1_b v.hq_k1_b) (hcos v.hp_k1_b v.hq_k1_b),
    c1_k1_p := cosAdd (hsin v.hp_k1_a v.hq_k1_a) (hcos v.hp_k1_a v.hq_k1_a) (hsin v.hp_k1_b v.hq_k1_b) (hcos v.hp_k1_b v.hq_k1_b),
    s2_k1_p := sinDbl (sinAdd (hsin v.hp_k1_a v.hq_k1_a) (hcos v.hp_k1_a v.hq_k1_a) (hsin v.hp_k1_b v.hq_k1_b) (hcos v.hp_k1_b v.hq_k1_b)) (cosAdd (hsin v.hp_k1_a v.hq_k1_a) (hcos v.hp_k1_a v.hq_k1_a) (hsin v.hp_k1_b v.hq_k1_b) (hcos v.hp_k1_b v.hq_k1_b)),
    c2_k1_p := cosDbl (sinAdd (hsin v.hp_k1_a v.hq_k1_a) (hcos v.hp_k1_a v.hq_k1_a) (hsin v.hp_k1_b v.hq_k1_b) (hcos v.hp_k1_b v.hq_k1_b)) (cosAdd (hsin v.hp_k1_a v.hq_k1_a) (hcos v.hp_k1_a v.hq_k1_a) (hsin v.hp_k1_b v.hq_k1_b) (hcos v.hp_k1_b v.hq_k1_b)),
    s1_k1_m := sinSub (hsin v.hp_k1_a v.hq_k1_a) (hcos v.hp_k1_a v.hq_k1_a) (hsin v.hp_k1_b v.hq_k1_b) (hcos v.hp_k1_b v.hq_k1_b),
    c1_k1_m := cosSub (hsin v.hp_k1_a v.hq_k1_a) (hcos v.hp_k1_a v.hq_k1_a) (hsin v.hp_k1_b v.hq_k1_b) (hcos v.hp_k1_b v.hq_k1_b),
    s2_k1_m := sinDbl (sinSub (hsin v.hp_k1_a v.hq_k1_a) (hcos v.hp_k1_a v.hq_k1_a) (hsin v.hp_k1_b v.hq_k1_b) (hcos v.hp_k1_b v.hq_k1_b)) (cosSub (hsin v.hp_k1_a v.hq_k1_a) (hcos v.hp_k1_a v.hq_k1_a) (hsin v.hp_k1_b v.hq_k1_b) (hcos v.hp_k1_b v.hq_k1_b)),
    c2_k1_m := cosDbl (sinSub (hsin v.hp_k1_a v.hq_k1_a) (hcos v.hp_k1_a v.hq_k1_a) (hsin v.hp_k1_b v.hq_k1_b) (hcos v.hp_k1_b v.hq_k1_b)) (cosSub (hsin v.hp_k1_a v.hq_k1_a) (hcos v.hp_k1_a v.hq_k1_a) (hsin v.hp_k1_b v.hq_k1_b) (hcos v.hp_k1_b v.hq_k1_b)),
    s1_i2_a := hsin v.hp_i2_a v.hq_i2_a,
    c1_i2_a := hcos v.hp_i2_a v.hq_i2_a,
    s2_i2_a := sinDbl (hsin v.hp_i2_a v.hq_i2_a) (hcos v.hp_i2_a v.hq_i2_a),
    c2_i2_a := cosDbl (hsin v.hp_i2_a v.hq_i2_a) (hcos v.hp_i2_a v.hq_i2_a),
    s1_i2_b := hsin v.hp_i2_b v.hq_i2_b,
    c1_i2_b := hcos v.hp_i2_b v.hq_i2_b,
    s2_i2_b := sinDbl (hsin v.hp_i2_b v.hq_i2_b) (hcos v.hp_i2_b v.hq_i2_b),
    c2_i2_b := cosDbl (hsin v.hp_i2_b v.hq_i2_b) (hcos v.hp_i2_b v.hq_i2_b),
    s1_i2_p := sinAdd (hsin v.hp_i2_a v.hq_i2_a) (hcos v.hp_i2_a v.hq_i2_a) (hsin v.hp_i2_b v.hq_i2_b) (hcos v.hp_i2_b v.hq_i2_b),
    c1_i2_p := cosAdd (hsin v.hp_i2_a v.hq_i2_a) (hcos v.hp_i2_a v.hq_i2_a) (hsin v.hp_i2_b v.hq_i2_b) (hcos v.hp_i2_b v.hq_i2_b),
    s2_i2_p := sinDbl (sinAdd (hsin v.hp_i2_a v.hq_i2_a) (hcos v.hp_i2_a v.hq_i2_a) (hsin v.hp_i2_b v.hq_i2_b) (hcos v.hp_i2_b v.hq_i2_b)) (cosAdd (hsin v.hp_i2_a v.hq_i2_a) (hcos v.hp_i2_a v.hq_i2_a) (hsin v.hp_i2_b v.hq_i2_b) (hcos v.hp_i2_b v.hq_i2_b)),
    c2_i2_p := cosDbl (sinAdd (hsin v.hp_i2_a v.hq_i2_a) (hcos v.hp_i2_a v.hq_i2_a) (hsin v.hp_i2_b v.hq_i2_b) (hcos v.hp_i2_b v.hq_i2_b)) (cosAdd (hsin v.hp_i2_a v.hq_i2_a) (hcos v.hp_i2_a v.hq_i2_a) (hsin v.hp_i2_b v.hq_i2_b) (hcos v.hp_i2_b v.hq_i2_b)),
    s1_i2_m := sinSub (hsin v.hp_i2_a v.hq_i2_a) (hcos v.hp_i2_a v.hq_i2_a) (hsin v.hp_i2_b v.hq_i2_b) (hcos v.hp_i2_b v.hq_i2_b),
    c1_i2_m := cosSub (hsin v.hp_i2_a v.hq_i2_a) (hcos v.hp_i2_a v.hq_i2_a) (hsin v.hp_i2_b v.hq_i2_b) (hcos v.hp_i2_b v.hq_i2_b),
    s2_i2_m := sinDbl (sinSub (hsin v.hp_i2_a v.hq_i2_a) (hcos v.hp_i2_a v.hq_i2_a) (hsin v.hp_i2_b v.hq_i2_b) (hcos v.hp_i2_b v.hq_i2_b)) (cosSub (hsin v.hp_i2_a v.hq_i2_a) (hcos v.hp_i2_a v.hq_i2_a) (hsin v.hp_i2_b v.hq_i2_b) (hcos v.hp_i2_b v.hq_i2_b)),
    c2_i2_m := cosDbl (sinSub (hsin v.hp_i2_a v.hq_i2_a) (hcos v.hp_i2_a v.hq_i2_a) (hsin v.hp_i2_b v.hq_i2_b) (hcos v.hp_i2_b v.hq_i2_b)) (cosSub (hsin v.hp_i2_a v.hq_i2_a) (hcos v.hp_i2_a v.hq_i2_a) (hsin v.hp_i2_b v.hq_i2_b) (hcos v.hp_i2_b v.hq_i2_b)),
    s1_k2_a := hsin v.hp_k2_a v.hq_k2_a,
    c1_k2_a := hcos v.hp_k2_a v.hq_k2_a,
    s2_k2_a := sinDbl (hsin v.hp_k2_a v.hq_k2_a) (hcos v.hp_k2_a v.hq_k2_a),
    c2_k2_a := cosDbl (hsin v.hp_k2_a v.hq_k2_a) (hcos v.hp_k2_a v.hq_k2_a),
    s1_k2_b := hsin v.hp_k2_b v.hq_k2_b,
    c1_k2_b := hcos v.hp_k2_b v.hq_k2_b,
    s2_k2_b := sinDbl (hsin v.hp_k2_b v.hq_k2_b) (hcos v.hp_k2_b v.hq_k2_b),
    c2_k2_b := cosDbl (hsin v.hp_k2_b v.hq_k2_b) (hcos v.hp_k2_b v.hq_k2_b),
    s1_k2_p := sinAdd (hsin v.hp_k2_a v.hq_k2_a) (hcos v.hp_k2_a v.hq_k2_a) (hsin v.hp_k2_b v.hq_k2_b) (hcos v.hp_k2_b v.hq_k2_b),
    c1_k2_p := cosAdd (hsin v.hp_k2_a v.hq_k2_a) (hcos v.hp_k2_a v.hq_k2_a) (hsin v.hp_k2_b v.hq_k2_b) (hcos v.hp_k2_b v.hq_k2_b),
    s2_k2_p := sinDbl (sinAdd (hsin v.hp_k2_a v.hq_k2_a) (hcos v.hp_k2_a v.hq_k2_a) (hsin v.hp_k2_b v.hq_k2_b) (hcos v.hp_k2_b v.hq_k2_b)) (cosAdd (hsin v.hp_k2_a v.hq_k2_a) (hcos v.hp_k2_a v.hq_k2_a) (hsin v.hp_k2_b v.hq_k2_b) (hcos v.hp_k2_b v.hq_k2_b)),
    c2_k2_p := cosDbl (sinAdd (hsin v.hp_k2_a v.hq_k2_a) (hcos v.hp_k2_a v.hq_k2_a) (hsin v.hp_k2_b v.hq_k2_b) (hcos v.hp_k2_b v.hq_k2_b)) (cosAdd (hsin v.hp_k2_a v.hq_k2_a) (hcos v.hp_k2_a v.hq_k2_a) (hsin v.hp_k2_b v.hq_k2_b) (hcos v.hp_k2_b v.hq_k2_b)),
    s1_k2_m := sinSub (hsin v.hp_k2_a v.hq_k2_a) (hcos v.hp_k2_a v.hq_k2_a) (hsin v.hp_k2_b v.hq_k2_b) (hcos v.hp_k2_b v.hq_k2_b),
    c1_k2_m := cosSub (hsin v.hp_k2_a v.hq_k2_a) (hcos v.hp_k2_a v.hq_k2_a) (hsin v.hp_k2_b v.hq_k2_b) (hcos v.hp_k2_b v.hq_k2_b),
    s2_k2_m := sinDbl (sinSub (hsin v.hp_k2_a v.hq_k2_a) (hcos v.hp_k2_a v.hq_k2_a) (hsin v.hp_k2_b v.hq_k2_b) (hcos v.hp_k2_b v.hq_k2_b)) (cosSub (hsin v.hp_k2_a v.hq_k2_a) (hcos v.hp_k2_a v.hq_k2_a) (hsin v.hp_k2_b v.hq_k2_b) (hcos v.hp_k2_b v.hq_k2_b)),
    c2_k2_m := cosDbl (sinSub (hsin v.hp_k2_a v.hq_k2_a) (hcos v.hp_k2_a v.hq_k2_a) (hsin v.hp_k2_b v.hq_k2_b) (hcos v.hp_k2_b v.hq_k2_b)) (cosSub (hsin v.hp_k2_a v.hq_k2_a) (hcos v.hp_k2_a v.hq_k2_a) (hsin v.hp_k2_b v.hq_k2_b) (hcos v.hp_k2_b v.hq_k2_b)) }

/-- the half-angle parameters are not both zero -/
def TrigHyp (v : CCV K) : Prop :=
  (v.hp_i1_a ^ 2 + v.hq_i1_a ^ 2 ≠ 0) ∧ (v.hp_i1_b ^ 2 + v.hq_i1_b ^ 2 ≠ 0) ∧ (v.hp_k1_a ^ 2 + v.hq_k1_a ^ 2 ≠ 0) ∧ (v.hp_k1_b ^ 2 + v.hq_k1_b ^ 2 ≠ 0) ∧ (v.hp_i2_a ^ 2 + v.hq_i2_a ^ 2 ≠ 0) ∧ (v.hp_i2_b ^ 2 + v.hq_i2_b ^ 2 ≠ 0) ∧ (v.hp_k2_a ^ 2 + v.hq_k2_a ^ 2 ≠ 0) ∧ (v.hp_k2_b ^ 2 + v.hq_k2_b ^ 2 ≠ 0)

/-- closes the generated identities: polynomial after clearing the denominators named in the hypotheses -/
macro "cc_close" : tactic =>
  `(tactic| first
    | ring1
    | (field_simp; done)
    | (field_simp; ring1))

end Compmech.CC
