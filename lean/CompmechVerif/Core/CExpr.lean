/-
Expression trees of the C `return <expr>;` / `f[k] = <expr>;` statements emitted by
`tools/translate/ctables.py`, and the *kernel-friendly normaliser* that turns such a tree into a
sparse polynomial with integer coefficients over a common power-of-ten denominator.

No Mathlib here: the generated data modules import only this file.  The semantics (`E.eval`)
and the soundness of `norm` are in `Core/CExprLemmas.lean`.

Monomials are encoded as one `Nat` key  `Σ_v e_v · 128^v`  (variable `v` with exponent `e_v`);
this is injective and additive as long as every exponent is `< 128`, which the checkers
establish with the syntactic degree bound `E.deg ≤ 127`.
-/
namespace Compmech.C10

/-- C expression: `lit m e = m / 10^e`, variables by number, n-ary sums and products,
integer powers `pow(b, n)`, unary minus. -/
inductive E where
  | lit (m : Nat) (e : Nat)
  | var (v : Nat)
  | neg (a : E)
  | pow (b : E) (n : Nat)
  | sum (l : List E)
  | prod (l : List E)

/-- sparse polynomial terms `(key, coefficient)`, keys strictly descending, no zero coefficient -/
abbrev Terms := List (Nat × Int)

/-- `(elements with key > k, rest)` of a key-descending list -/
def splitGt (k : Nat) : Terms → Terms × Terms
  | [] => ([], [])
  | y :: ys => if k < y.1 then let r := splitGt k ys; (y :: r.1, r.2) else ([], y :: ys)

/-- sum of two key-descending term lists (structural in the first, linear time) -/
def merge : Terms → Terms → Terms
  | [], ys => ys
  | x :: xs, ys =>
    let r := splitGt x.1 ys
    match r.2 with
    | [] => r.1 ++ x :: xs
    | y :: ys' =>
      if y.1 = x.1 then
        let c := x.2 + y.2
        if c = 0 then r.1 ++ merge xs ys' else r.1 ++ (x.1, c) :: merge xs ys'
      else r.1 ++ x :: merge xs (y :: ys')

/-- scaled sparse polynomial: `(Σ c_k · monomial k) / 10^s` -/
structure SP where
  t : Terms
  s : Nat

def scaleTerms (f : Int) : Terms → Terms
  | [] => []
  | x :: xs => (x.1, f * x.2) :: scaleTerms f xs

/-- the terms of `p` over the denominator `10^s` (used with `s ≥ p.s`) -/
def upTo (p : SP) (s : Nat) : Terms :=
  if p.s = s then p.t else scaleTerms ((10 : Int) ^ (s - p.s)) p.t

/-- multiply every term by the monomial `(k, c)`, `c ≠ 0` -/
def shiftMul (k : Nat) (c : Int) : Terms → Terms
  | [] => []
  | x :: xs => (k + x.1, c * x.2) :: shiftMul k c xs

def mulTerms : Terms → Terms → Terms
  | [], _ => []
  | x :: xs, ys => merge (shiftMul x.1 x.2 ys) (mulTerms xs ys)

def mulSP (a b : SP) : SP := ⟨mulTerms a.t b.t, a.s + b.s⟩

def oneSP : SP := ⟨[(0, 1)], 0⟩

def powSP (p : SP) : Nat → SP
  | 0 => oneSP
  | n + 1 => mulSP p (powSP p n)

def maxS : List SP → Nat
  | [] => 0
  | p :: ps => max p.s (maxS ps)

def sumAt (s : Nat) : List SP → Terms
  | [] => []
  | p :: ps => merge (upTo p s) (sumAt s ps)

/-- `acc · p₁ · p₂ ⋯` (left to right, so that leading monomial factors are combined first) -/
def prodFrom (acc : SP) : List SP → SP
  | [] => acc
  | p :: ps => prodFrom (mulSP acc p) ps

def prodSP : List SP → SP
  | [] => oneSP
  | p :: ps => prodFrom p ps

mutual
/-- normal form of an expression -/
def norm : E → SP
  | .lit m e => if m = 0 then ⟨[], e⟩ else ⟨[(0, (m : Int))], e⟩
  | .var v => ⟨[(128 ^ v, 1)], 0⟩
  | .neg a => let p := norm a; ⟨scaleTerms (-1) p.t, p.s⟩
  | .pow b n =>
    let p := norm b
    match p.t with
    | [x] => ⟨[(n * x.1, x.2 ^ n)], n * p.s⟩
    | _ => powSP p n
  | .sum l => let ps := normL l; let s := maxS ps; ⟨sumAt s ps, s⟩
  | .prod l => prodSP (normL l)
def normL : List E → List SP
  | [] => []
  | e :: l => norm e :: normL l
end

mutual
/-- syntactic total degree (an upper bound of the degree of every monomial of `norm e`) -/
def E.deg : E → Nat
  | .lit _ _ => 0
  | .var _ => 1
  | .neg a => a.deg
  | .pow b n => n * b.deg
  | .sum l => degMax l
  | .prod l => degSum l
def degMax : List E → Nat
  | [] => 0
  | e :: l => max e.deg (degMax l)
def degSum : List E → Nat
  | [] => 0
  | e :: l => e.deg + degSum l
end

mutual
/-- largest variable number used -/
def E.maxVar : E → Nat
  | .lit _ _ => 0
  | .var v => v
  | .neg a => a.maxVar
  | .pow b _ => b.maxVar
  | .sum l => maxVarL l
  | .prod l => maxVarL l
def maxVarL : List E → Nat
  | [] => 0
  | e :: l => max e.maxVar (maxVarL l)
end

/-- well-formedness needed by the soundness lemma: degree ≤ 127 and variables `< 10` -/
def E.ok (e : E) : Bool := decide (e.deg ≤ 127) && decide (e.maxVar < 10)

end Compmech.C10
