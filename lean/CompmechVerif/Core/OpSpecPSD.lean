/-
POSITIVE SEMI-DEFINITENESS of every Hessian-characterised matrix (Core/OpSpec.lean, `hessian`), over ℝ.

Part 1 (algebra).  Let `R` be a commutative ℝ-algebra (think: continuous functions of `(ξ, η)`), `Λ : R →ₗ[ℝ] ℝ` a linear
functional (think: `∬`), `ex d f i`, `ey d f j : R` the elements `(ξ, η) ↦ D^d φ^f_i(ξ)`, `(ξ, η) ↦ D^d φ^f_j(η)`.  If the products of
the one-dimensional integrals a context carries are `Λ` of the products of these elements (`Represents`), then the
quadratic form of the Hessian over ANY finite family of degrees of freedom is `(ab/4) Σ_{p,q} W p q Λ(E_p E_q)` with
`E_p = Σ_A c_A Σ_{s ∈ ops α_A p} s.coef · ex s.dx α_A i_A · ey s.dy α_A j_A` the `p`-th component of the operator
applied to the displacement field with amplitudes `c` (`quadForm_eq`).

Part 2 (analysis).  `R = C(ℝ × ℝ, ℝ)`, `Λ = dblInt x₁ x₂ y₁ y₂ : F ↦ ∫_{x₁}^{x₂} ∫_{y₁}^{y₂} F(ξ, η) dη dξ` is linear and, for
`x₁ ≤ x₂`, `y₁ ≤ y₂`, positive; a product of two interval integrals of products of continuous functions is `Λ` of the
product (`dblInt_prod`).

Part 3.  `hessian_psd`: the double sum `Σ_A Σ_B c_A c_B · hessian (ctxAt base I i_A i_B j_A j_B) dx dy ops W α_A α_B` is
`≥ 0` for every positive semi-definite weight `W`, `a b ≥ 0`, when `I` gives real integrals of products of continuous
basis functions (`RealIntegrals`).  The same for the line / surface penalty Hessians of Core/ConnSpec.lean is in
Core/ConnSpecPSD.lean.
-/
import CompmechVerif.Spec.WholeMatrix
import Mathlib.Algebra.BigOperators.Fin
import Mathlib.Algebra.Algebra.Basic
import Mathlib.Algebra.Order.BigOperators.Group.Finset
import Mathlib.Topology.ContinuousMap.Algebra
import Mathlib.Topology.ContinuousMap.Ordered
import Mathlib.MeasureTheory.Integral.IntervalIntegral.Basic
import Mathlib.MeasureTheory.Integral.DominatedConvergence

namespace Compmech.Panel

open scoped BigOperators

/-- a real weight matrix is positive semi-definite: `eᵀ W e ≥ 0` for every `e` -/
def WeightPSD {n : Nat} (W : Fin n → Fin n → ℝ) : Prop :=
  ∀ e : Fin n → ℝ, 0 ≤ ∑ p, ∑ q, W p q * e p * e q

/-! ### Part 1: algebra -/

section algebra
variable {R : Type} [CommRing R] [Algebra ℝ R]

/-- the element of `R` that a term list (one component of a differential operator) makes of the basis function
`(f, i, j)`: `Σ_s s.coef · ex s.dx f i · ey s.dy f j` -/
def opElem (ex ey : Nat → Fld → Nat → R) (S : List (OpTerm ℝ)) (f : Fld) (i j : Nat) : R :=
  (S.map fun s => s.coef • (ex s.dx f i * ey s.dy f j)).sum

/-- the products of one-dimensional integrals a context `P` carries for the row function `(·, i, j)` and the column
function `(·, k, l)` are `Λ` of the products of the basis elements -/
def Represents (Λ : R →ₗ[ℝ] ℝ) (ex ey : Nat → Fld → Nat → R) (P : PCtx ℝ) (dx dy : Dom) (i k j l : Nat) : Prop :=
  ∀ d₁ e₁ f₁ d₂ e₂ f₂, P.J .x dx d₁ f₁ .A d₂ f₂ .B * P.J .y dy e₁ f₁ .A e₂ f₂ .B
    = Λ ((ex d₁ f₁ i * ey e₁ f₁ j) * (ex d₂ f₂ k * ey e₂ f₂ l))

theorem pairInt_eq_functional (Λ : R →ₗ[ℝ] ℝ) (ex ey : Nat → Fld → Nat → R) (P : PCtx ℝ) (dx dy : Dom)
    (i k j l : Nat) (h : Represents Λ ex ey P dx dy i k j l) (α β : Fld) (S T : List (OpTerm ℝ)) :
    pairInt P dx dy α β S T = Λ (opElem ex ey S α i j * opElem ex ey T β k l) := by
  have inner : ∀ (s : OpTerm ℝ) (T : List (OpTerm ℝ)),
      (T.map fun t => s.coef * t.coef * P.J .x dx s.dx α .A t.dx β .B * P.J .y dy s.dy α .A t.dy β .B).sum
        = Λ (s.coef • (ex s.dx α i * ey s.dy α j) * opElem ex ey T β k l) := by
    intro s T
    unfold opElem
    induction T with
    | nil => simp
    | cons t T ihT =>
      rw [List.map_cons, List.sum_cons, ihT, List.map_cons, List.sum_cons, mul_add, map_add]
      congr 1
      rw [smul_mul_smul_comm, map_smul, smul_eq_mul, ← h]
      ring
  unfold pairInt
  induction S with
  | nil => simp [opElem]
  | cons s S ih =>
    rw [List.map_cons, List.sum_cons, ih, inner]
    simp only [opElem, List.map_cons, List.sum_cons, add_mul, map_add]

theorem hessian_eq_functional {n : Nat} (Λ : R →ₗ[ℝ] ℝ) (ex ey : Nat → Fld → Nat → R) (P : PCtx ℝ) (dx dy : Dom)
    (i k j l : Nat) (h : Represents Λ ex ey P dx dy i k j l) (ops : Fld → Fin n → List (OpTerm ℝ))
    (W : Fin n → Fin n → ℝ) (α β : Fld) :
    hessian P dx dy ops W α β
      = P.a * P.b / 4 * ∑ p, ∑ q, W p q * Λ (opElem ex ey (ops α p) α i j * opElem ex ey (ops β q) β k l) := by
  unfold hessian
  simp only [Fin.sum_univ_def, pairInt_eq_functional Λ ex ey P dx dy i k j l h]

/-- the `p`-th operator component of the displacement field with amplitudes `c` over the degrees of freedom `s` -/
def fieldElem {n : Nat} {ι : Type} (ex ey : Nat → Fld → Nat → R) (ops : Fld → Fin n → List (OpTerm ℝ))
    (s : Finset ι) (fld : ι → Fld) (ix iy : ι → Nat) (c : ι → ℝ) (p : Fin n) : R :=
  ∑ A ∈ s, c A • opElem ex ey (ops (fld A) p) (fld A) (ix A) (iy A)

theorem sum4_comm {ι κ : Type} (s : Finset ι) (t : Finset κ) (f : ι → ι → κ → κ → ℝ) :
    ∑ A ∈ s, ∑ B ∈ s, ∑ p ∈ t, ∑ q ∈ t, f A B p q = ∑ p ∈ t, ∑ q ∈ t, ∑ A ∈ s, ∑ B ∈ s, f A B p q := by
  calc ∑ A ∈ s, ∑ B ∈ s, ∑ p ∈ t, ∑ q ∈ t, f A B p q
      = ∑ A ∈ s, ∑ p ∈ t, ∑ B ∈ s, ∑ q ∈ t, f A B p q := Finset.sum_congr rfl fun A _ => Finset.sum_comm
    _ = ∑ p ∈ t, ∑ A ∈ s, ∑ B ∈ s, ∑ q ∈ t, f A B p q := Finset.sum_comm
    _ = ∑ p ∈ t, ∑ A ∈ s, ∑ q ∈ t, ∑ B ∈ s, f A B p q :=
        Finset.sum_congr rfl fun p _ => Finset.sum_congr rfl fun A _ => Finset.sum_comm
    _ = ∑ p ∈ t, ∑ q ∈ t, ∑ A ∈ s, ∑ B ∈ s, f A B p q := Finset.sum_congr rfl fun p _ => Finset.sum_comm

/-- the quadratic form of a Hessian-characterised matrix is `(ab/4) Σ_{p,q} W p q Λ(E_p E_q)` -/
theorem quadForm_eq {n : Nat} {ι : Type} (Λ : R →ₗ[ℝ] ℝ) (ex ey : Nat → Fld → Nat → R) (dx dy : Dom)
    (ops : Fld → Fin n → List (OpTerm ℝ)) (W : Fin n → Fin n → ℝ)
    (s : Finset ι) (fld : ι → Fld) (ix iy : ι → Nat) (c : ι → ℝ) (a b : ℝ) (P : ι → ι → PCtx ℝ)
    (hPa : ∀ A B, (P A B).a = a) (hPb : ∀ A B, (P A B).b = b)
    (h : ∀ A B, Represents Λ ex ey (P A B) dx dy (ix A) (ix B) (iy A) (iy B)) :
    ∑ A ∈ s, ∑ B ∈ s, c A * c B * hessian (P A B) dx dy ops W (fld A) (fld B)
      = Λ ((a * b / 4) • ∑ p, ∑ q, W p q •
          (fieldElem ex ey ops s fld ix iy c p * fieldElem ex ey ops s fld ix iy c q)) := by
  simp only [map_smul, map_sum, smul_eq_mul, fieldElem, Finset.sum_mul_sum, smul_mul_smul_comm]
  simp only [fun A B => hessian_eq_functional Λ ex ey (P A B) dx dy _ _ _ _ (h A B) ops W (fld A) (fld B), hPa, hPb,
    Finset.mul_sum]
  rw [sum4_comm]
  refine Finset.sum_congr rfl fun p _ => Finset.sum_congr rfl fun q _ => Finset.sum_congr rfl fun A _ =>
    Finset.sum_congr rfl fun B _ => ?_
  ring

end algebra

/-! ### Part 2: the double integral as a positive linear functional on `C(ℝ × ℝ, ℝ)` -/

section analysis
open intervalIntegral

theorem continuous_inner (F : C(ℝ × ℝ, ℝ)) (ξ : ℝ) : Continuous fun η => F (ξ, η) :=
  F.continuous.comp (continuous_const.prodMk continuous_id)

theorem continuous_innerIntegral (F : C(ℝ × ℝ, ℝ)) (y₁ y₂ : ℝ) : Continuous fun ξ => ∫ η in y₁..y₂, F (ξ, η) := by
  refine continuous_parametric_intervalIntegral_of_continuous' (f := fun ξ η => F (ξ, η)) ?_ y₁ y₂
  have : (Function.uncurry fun ξ η => F (ξ, η)) = F := by funext z; rfl
  rw [this]; exact F.continuous

/-- `F ↦ ∫_{x₁}^{x₂} ∫_{y₁}^{y₂} F(ξ, η) dη dξ` -/
noncomputable def dblInt (x₁ x₂ y₁ y₂ : ℝ) : C(ℝ × ℝ, ℝ) →ₗ[ℝ] ℝ where
  toFun F := ∫ ξ in x₁..x₂, ∫ η in y₁..y₂, F (ξ, η)
  map_add' F G := by
    simp only [ContinuousMap.add_apply]
    rw [← integral_add ((continuous_innerIntegral F y₁ y₂).intervalIntegrable _ _)
      ((continuous_innerIntegral G y₁ y₂).intervalIntegrable _ _)]
    congr 1
    funext ξ
    exact integral_add ((continuous_inner F ξ).intervalIntegrable _ _) ((continuous_inner G ξ).intervalIntegrable _ _)
  map_smul' r F := by
    simp only [ContinuousMap.smul_apply, smul_eq_mul, RingHom.id_apply, integral_const_mul]

theorem dblInt_apply (x₁ x₂ y₁ y₂ : ℝ) (F : C(ℝ × ℝ, ℝ)) :
    dblInt x₁ x₂ y₁ y₂ F = ∫ ξ in x₁..x₂, ∫ η in y₁..y₂, F (ξ, η) := rfl

/-- positivity -/
theorem dblInt_nonneg {x₁ x₂ y₁ y₂ : ℝ} (hx : x₁ ≤ x₂) (hy : y₁ ≤ y₂) (F : C(ℝ × ℝ, ℝ)) (hF : ∀ z, 0 ≤ F z) :
    0 ≤ dblInt x₁ x₂ y₁ y₂ F :=
  integral_nonneg hx fun ξ _ => integral_nonneg hy fun η _ => hF (ξ, η)

/-- `(ξ, η) ↦ g ξ` and `(ξ, η) ↦ g η` as elements of `C(ℝ × ℝ, ℝ)` -/
def liftX (g : ℝ → ℝ) (hg : Continuous g) : C(ℝ × ℝ, ℝ) := ⟨fun z => g z.1, hg.comp continuous_fst⟩
def liftY (g : ℝ → ℝ) (hg : Continuous g) : C(ℝ × ℝ, ℝ) := ⟨fun z => g z.2, hg.comp continuous_snd⟩

/-- Fubini for products: `(∫ g₁ g₂)(∫ h₁ h₂) = ∬ (g₁ h₁)(g₂ h₂)` -/
theorem dblInt_prod (x₁ x₂ y₁ y₂ : ℝ) (g₁ g₂ h₁ h₂ : ℝ → ℝ) (c₁ : Continuous g₁) (c₂ : Continuous g₂)
    (k₁ : Continuous h₁) (k₂ : Continuous h₂) :
    (∫ ξ in x₁..x₂, g₁ ξ * g₂ ξ) * (∫ η in y₁..y₂, h₁ η * h₂ η)
      = dblInt x₁ x₂ y₁ y₂ ((liftX g₁ c₁ * liftY h₁ k₁) * (liftX g₂ c₂ * liftY h₂ k₂)) := by
  rw [dblInt_apply, ← integral_mul_const]
  congr 1
  funext ξ
  rw [← integral_const_mul]
  congr 1
  funext η
  simp only [ContinuousMap.mul_apply, liftX, liftY, ContinuousMap.coe_mk]
  ring

end analysis

/-! ### Part 3: positive semi-definiteness -/

/-- The one-dimensional integrals `I` (for the domains `dx` along x and `dy` along y) ARE real integrals of products of
continuous basis functions: `X d f i` is `ξ ↦ D^d φ^f_i(ξ)`, `Y d f j` is `η ↦ D^d φ^f_j(η)`, integrated over
`[x₁, x₂]` and `[y₁, y₂]` (`x₁ ≤ x₂`, `y₁ ≤ y₂`). -/
structure RealIntegrals (I : Integrals ℝ) (dx dy : Dom) (X Y : Nat → Fld → Nat → ℝ → ℝ) (x₁ x₂ y₁ y₂ : ℝ) : Prop where
  contX : ∀ d f i, Continuous (X d f i)
  contY : ∀ d f j, Continuous (Y d f j)
  hx : x₁ ≤ x₂
  hy : y₁ ≤ y₂
  eqx : ∀ d₁ f₁ a d₂ f₂ b, I .x dx d₁ f₁ a d₂ f₂ b = ∫ ξ in x₁..x₂, X d₁ f₁ a ξ * X d₂ f₂ b ξ
  eqy : ∀ d₁ f₁ a d₂ f₂ b, I .y dy d₁ f₁ a d₂ f₂ b = ∫ η in y₁..y₂, Y d₁ f₁ a η * Y d₂ f₂ b η

theorem RealIntegrals.represents {I : Integrals ℝ} {dx dy : Dom} {X Y : Nat → Fld → Nat → ℝ → ℝ} {x₁ x₂ y₁ y₂ : ℝ}
    (hR : RealIntegrals I dx dy X Y x₁ x₂ y₁ y₂) (base : PCtx ℝ) (i k j l : Nat) :
    Represents (dblInt x₁ x₂ y₁ y₂) (fun d f i => liftX (X d f i) (hR.contX d f i))
      (fun d f j => liftY (Y d f j) (hR.contY d f j)) (ctxAt base I i k j l) dx dy i k j l := by
  intro d₁ e₁ f₁ d₂ e₂ f₂
  rw [← dblInt_prod]
  simp only [ctxAt, pick, hR.eqx, hR.eqy]

/-- POSITIVE SEMI-DEFINITENESS of every Hessian-characterised matrix.  For every finite family `s` of degrees of freedom
`A ↦ (fld A, ix A, iy A)` (field, series index along x, along y) with amplitudes `c A`, every operator table `ops`, every
positive semi-definite weight `W` and `a b ≥ 0`: `Σ_A Σ_B c_A c_B · H[A, B] ≥ 0`, where `H[A, B]` is the energy Hessian
of the pair in the context the kernel's loop body sees for it (`ctxAt`, as in `panelCoo_entry`) — provided the
one-dimensional integrals are real integrals of products of continuous basis functions. -/
theorem hessian_psd {n : Nat} {ι : Type} (base : PCtx ℝ) (I : Integrals ℝ) (dx dy : Dom)
    (X Y : Nat → Fld → Nat → ℝ → ℝ) (x₁ x₂ y₁ y₂ : ℝ) (hR : RealIntegrals I dx dy X Y x₁ x₂ y₁ y₂)
    (ops : Fld → Fin n → List (OpTerm ℝ)) (W : Fin n → Fin n → ℝ) (hW : WeightPSD W) (hab : 0 ≤ base.a * base.b)
    (s : Finset ι) (fld : ι → Fld) (ix iy : ι → Nat) (c : ι → ℝ) :
    0 ≤ ∑ A ∈ s, ∑ B ∈ s,
      c A * c B * hessian (ctxAt base I (ix A) (ix B) (iy A) (iy B)) dx dy ops W (fld A) (fld B) := by
  rw [quadForm_eq (dblInt x₁ x₂ y₁ y₂) _ _ dx dy ops W s fld ix iy c base.a base.b
    (fun A B => ctxAt base I (ix A) (ix B) (iy A) (iy B)) (fun _ _ => rfl) (fun _ _ => rfl)
    (fun A B => hR.represents base (ix A) (ix B) (iy A) (iy B))]
  refine dblInt_nonneg hR.hx hR.hy _ fun z => ?_
  simp only [ContinuousMap.smul_apply, ContinuousMap.sum_apply, ContinuousMap.mul_apply, smul_eq_mul]
  refine mul_nonneg (by linarith) ?_
  have := hW fun p => (fieldElem (fun d f i => liftX (X d f i) (hR.contX d f i))
      (fun d f j => liftY (Y d f j) (hR.contY d f j)) ops s fld ix iy c p) z
  simpa only [mul_assoc] using this

end Compmech.Panel
