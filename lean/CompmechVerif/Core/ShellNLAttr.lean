/- simp set collecting the generated definitions of the non-linear shell kernels (Gen/ConeCylNL/*) -/
import Lean
register_simp_attr shell_nl
register_simp_attr shell_tab
