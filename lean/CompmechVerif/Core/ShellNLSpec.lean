/-
Vocabulary of the regenerated non-linear complete-shell kernels (Gen/ConeCylNL/*) at ONE integration point (x, θ).

Everything a kernel expression may mention is a VARIABLE, grouped by who computes it:

* `Geo`     what the point and the shell fix: `pi`, `L`, `r`, `r2`, `x`, `sina`, `cosa`, `ctLA = cos(θ − θ_LA)`,
            `stLA = sin(θ − θ_LA)`, the laminate entries `A11 … D66` as the source names them, the imperfection slopes
            `w0x`, `w0t`;
* `Dof`     what one degree of freedom of a series contributes: its indices `i` (axial), `j` (circumferential) and the
            values `sx = sin(iπx/L)`, `cx = cos(iπx/L)`, `st = sin(jθ)`, `ct = cos(jθ)`;
* `Slopes`  the state functionals `wx`, `wt`, `v` (sums over all degrees of freedom);
* `Strains` `exx0 … kxt0` (linear part) and `exxL … kxtL` (non-linear part);
* `Res`     the stress resultants computed from them, `ResG` the three membrane resultants read by `cfkG`.

A generated definition receives exactly the groups it is allowed to read (the translator fails otherwise), so
"`e0` does not depend on the state" etc. hold by typing.

Degree-of-freedom TYPES `Fin nT`: the `num0` leading amplitudes, then the `num1` unknowns of an `i1` term, then the
`num2` unknowns of an `(i2, j2)` term.  `PointModel` bundles the regenerated pieces of one model; `fintAt` / `kTAt`
evaluate them exactly as `cffint` / `cfk0L + cfk0Lᵀ + cfkLL + cfkG` do for a given list of amplitudes.
-/
import Mathlib.Algebra.Field.Defs
import CompmechVerif.Core.ShellNLAttr

namespace Compmech.ShellNL

structure Geo (K : Type) where
  pi : K
  L : K
  r : K
  r2 : K
  x : K
  sina : K
  cosa : K
  ctLA : K
  stLA : K
  A11 : K
  A12 : K
  A16 : K
  A22 : K
  A26 : K
  A66 : K
  B11 : K
  B12 : K
  B16 : K
  B22 : K
  B26 : K
  B66 : K
  D11 : K
  D12 : K
  D16 : K
  D22 : K
  D26 : K
  D66 : K
  w0x : K
  w0t : K
  /-- isotropic variants (`iso_*` modules) read Young's modulus, Poisson's ratio and the thickness instead of `F` -/
  E11 : K
  nu : K
  h : K

structure Dof (K : Type) where
  i : K
  j : K
  sx : K
  cx : K
  st : K
  ct : K

structure Slopes (K : Type) where
  wx : K
  wt : K
  v : K

structure Strains (K : Type) where
  exx0 : K
  ett0 : K
  gxt0 : K
  kxx0 : K
  ktt0 : K
  kxt0 : K
  exxL : K
  ettL : K
  gxtL : K
  kxxL : K
  kttL : K
  kxtL : K

structure Res (K : Type) where
  Nxx0 : K
  Ntt0 : K
  Nxt0 : K
  Mxx0 : K
  Mtt0 : K
  Mxt0 : K
  NxxL : K
  NttL : K
  NxtL : K
  MxxL : K
  MttL : K
  MxtL : K

structure ResG (K : Type) where
  Nxx : K
  Ntt : K
  Nxt : K

variable {K : Type} [Field K]

def sum3 (f : Fin 3 → K) : K := f 0 + f 1 + f 2
def sum6 (f : Fin 6 → K) : K := f 0 + f 1 + f 2 + f 3 + f 4 + f 5

/-- slopes `(wx, wt, v)` as a vector and back -/
def Slopes.ofFn (σ : Fin 3 → K) : Slopes K := ⟨σ 0, σ 1, σ 2⟩
def Slopes.zero : Slopes K := ⟨0, 0, 0⟩
/-- `S + t·T` -/
def Slopes.addSmul (S : Slopes K) (t : K) (T : Slopes K) : Slopes K := ⟨S.wx + t * T.wx, S.wt + t * T.wt, S.v + t * T.v⟩

def Strains.ofFn (e0 eL : Fin 6 → K) : Strains K :=
  ⟨e0 0, e0 1, e0 2, e0 3, e0 4, e0 5, eL 0, eL 1, eL 2, eL 3, eL 4, eL 5⟩
def Strains.e0 (E : Strains K) : Fin 6 → K
  | 0 => E.exx0 | 1 => E.ett0 | 2 => E.gxt0 | 3 => E.kxx0 | 4 => E.ktt0 | 5 => E.kxt0
def Strains.eL (E : Strains K) : Fin 6 → K
  | 0 => E.exxL | 1 => E.ettL | 2 => E.gxtL | 3 => E.kxxL | 4 => E.kttL | 5 => E.kxtL

def Res.ofFn (n0 nL : Fin 6 → K) : Res K :=
  ⟨n0 0, n0 1, n0 2, n0 3, n0 4, n0 5, nL 0, nL 1, nL 2, nL 3, nL 4, nL 5⟩
def Res.n0 (N : Res K) : Fin 6 → K
  | 0 => N.Nxx0 | 1 => N.Ntt0 | 2 => N.Nxt0 | 3 => N.Mxx0 | 4 => N.Mtt0 | 5 => N.Mxt0
def Res.nL (N : Res K) : Fin 6 → K
  | 0 => N.NxxL | 1 => N.NttL | 2 => N.NxtL | 3 => N.MxxL | 4 => N.MttL | 5 => N.MxtL
/-- what `cfN` hands to `cfkG`: the TOTAL membrane resultants -/
def Res.toG (N : Res K) : ResG K := ⟨N.Nxx0 + N.NxxL, N.Ntt0 + N.NttL, N.Nxt0 + N.NxtL⟩
/-- the resultants read by `cfkG`, padded to six components -/
def ResG.v (N : ResG K) : Fin 6 → K
  | 0 => N.Nxx | 1 => N.Ntt | 2 => N.Nxt | _ => 0

/-- the laminate matrix the resultant expressions of the source implement: symmetric by construction -/
def Geo.Fm (G : Geo K) : Fin 6 → Fin 6 → K
  | 0, 0 => G.A11 | 0, 1 => G.A12 | 0, 2 => G.A16 | 0, 3 => G.B11 | 0, 4 => G.B12 | 0, 5 => G.B16
  | 1, 0 => G.A12 | 1, 1 => G.A22 | 1, 2 => G.A26 | 1, 3 => G.B12 | 1, 4 => G.B22 | 1, 5 => G.B26
  | 2, 0 => G.A16 | 2, 1 => G.A26 | 2, 2 => G.A66 | 2, 3 => G.B16 | 2, 4 => G.B26 | 2, 5 => G.B66
  | 3, 0 => G.B11 | 3, 1 => G.B12 | 3, 2 => G.B16 | 3, 3 => G.D11 | 3, 4 => G.D12 | 3, 5 => G.D16
  | 4, 0 => G.B12 | 4, 1 => G.B22 | 4, 2 => G.B26 | 4, 3 => G.D12 | 4, 4 => G.D22 | 4, 5 => G.D26
  | 5, 0 => G.B16 | 5, 1 => G.B26 | 5, 2 => G.B66 | 5, 3 => G.D16 | 5, 4 => G.D26 | 5, 5 => G.D66

/-! look-up lemmas (so that proofs never unfold a `match`) -/
section
variable (G : Geo K) (E : Strains K) (N : Res K) (NG : ResG K) (e0 eL : Fin 6 → K)
@[shell_tab] theorem Geo.Fm_0_0 : G.Fm 0 0 = G.A11 := rfl
@[shell_tab] theorem Geo.Fm_0_1 : G.Fm 0 1 = G.A12 := rfl
@[shell_tab] theorem Geo.Fm_0_2 : G.Fm 0 2 = G.A16 := rfl
@[shell_tab] theorem Geo.Fm_0_3 : G.Fm 0 3 = G.B11 := rfl
@[shell_tab] theorem Geo.Fm_0_4 : G.Fm 0 4 = G.B12 := rfl
@[shell_tab] theorem Geo.Fm_0_5 : G.Fm 0 5 = G.B16 := rfl
@[shell_tab] theorem Geo.Fm_1_0 : G.Fm 1 0 = G.A12 := rfl
@[shell_tab] theorem Geo.Fm_1_1 : G.Fm 1 1 = G.A22 := rfl
@[shell_tab] theorem Geo.Fm_1_2 : G.Fm 1 2 = G.A26 := rfl
@[shell_tab] theorem Geo.Fm_1_3 : G.Fm 1 3 = G.B12 := rfl
@[shell_tab] theorem Geo.Fm_1_4 : G.Fm 1 4 = G.B22 := rfl
@[shell_tab] theorem Geo.Fm_1_5 : G.Fm 1 5 = G.B26 := rfl
@[shell_tab] theorem Geo.Fm_2_0 : G.Fm 2 0 = G.A16 := rfl
@[shell_tab] theorem Geo.Fm_2_1 : G.Fm 2 1 = G.A26 := rfl
@[shell_tab] theorem Geo.Fm_2_2 : G.Fm 2 2 = G.A66 := rfl
@[shell_tab] theorem Geo.Fm_2_3 : G.Fm 2 3 = G.B16 := rfl
@[shell_tab] theorem Geo.Fm_2_4 : G.Fm 2 4 = G.B26 := rfl
@[shell_tab] theorem Geo.Fm_2_5 : G.Fm 2 5 = G.B66 := rfl
@[shell_tab] theorem Geo.Fm_3_0 : G.Fm 3 0 = G.B11 := rfl
@[shell_tab] theorem Geo.Fm_3_1 : G.Fm 3 1 = G.B12 := rfl
@[shell_tab] theorem Geo.Fm_3_2 : G.Fm 3 2 = G.B16 := rfl
@[shell_tab] theorem Geo.Fm_3_3 : G.Fm 3 3 = G.D11 := rfl
@[shell_tab] theorem Geo.Fm_3_4 : G.Fm 3 4 = G.D12 := rfl
@[shell_tab] theorem Geo.Fm_3_5 : G.Fm 3 5 = G.D16 := rfl
@[shell_tab] theorem Geo.Fm_4_0 : G.Fm 4 0 = G.B12 := rfl
@[shell_tab] theorem Geo.Fm_4_1 : G.Fm 4 1 = G.B22 := rfl
@[shell_tab] theorem Geo.Fm_4_2 : G.Fm 4 2 = G.B26 := rfl
@[shell_tab] theorem Geo.Fm_4_3 : G.Fm 4 3 = G.D12 := rfl
@[shell_tab] theorem Geo.Fm_4_4 : G.Fm 4 4 = G.D22 := rfl
@[shell_tab] theorem Geo.Fm_4_5 : G.Fm 4 5 = G.D26 := rfl
@[shell_tab] theorem Geo.Fm_5_0 : G.Fm 5 0 = G.B16 := rfl
@[shell_tab] theorem Geo.Fm_5_1 : G.Fm 5 1 = G.B26 := rfl
@[shell_tab] theorem Geo.Fm_5_2 : G.Fm 5 2 = G.B66 := rfl
@[shell_tab] theorem Geo.Fm_5_3 : G.Fm 5 3 = G.D16 := rfl
@[shell_tab] theorem Geo.Fm_5_4 : G.Fm 5 4 = G.D26 := rfl
@[shell_tab] theorem Geo.Fm_5_5 : G.Fm 5 5 = G.D66 := rfl
@[shell_tab] theorem Strains.e0_0 : E.e0 0 = E.exx0 := rfl
@[shell_tab] theorem Strains.e0_1 : E.e0 1 = E.ett0 := rfl
@[shell_tab] theorem Strains.e0_2 : E.e0 2 = E.gxt0 := rfl
@[shell_tab] theorem Strains.e0_3 : E.e0 3 = E.kxx0 := rfl
@[shell_tab] theorem Strains.e0_4 : E.e0 4 = E.ktt0 := rfl
@[shell_tab] theorem Strains.e0_5 : E.e0 5 = E.kxt0 := rfl
@[shell_tab] theorem Strains.eL_0 : E.eL 0 = E.exxL := rfl
@[shell_tab] theorem Strains.eL_1 : E.eL 1 = E.ettL := rfl
@[shell_tab] theorem Strains.eL_2 : E.eL 2 = E.gxtL := rfl
@[shell_tab] theorem Strains.eL_3 : E.eL 3 = E.kxxL := rfl
@[shell_tab] theorem Strains.eL_4 : E.eL 4 = E.kttL := rfl
@[shell_tab] theorem Strains.eL_5 : E.eL 5 = E.kxtL := rfl
@[shell_tab] theorem Res.n0_0 : N.n0 0 = N.Nxx0 := rfl
@[shell_tab] theorem Res.n0_1 : N.n0 1 = N.Ntt0 := rfl
@[shell_tab] theorem Res.n0_2 : N.n0 2 = N.Nxt0 := rfl
@[shell_tab] theorem Res.n0_3 : N.n0 3 = N.Mxx0 := rfl
@[shell_tab] theorem Res.n0_4 : N.n0 4 = N.Mtt0 := rfl
@[shell_tab] theorem Res.n0_5 : N.n0 5 = N.Mxt0 := rfl
@[shell_tab] theorem Res.nL_0 : N.nL 0 = N.NxxL := rfl
@[shell_tab] theorem Res.nL_1 : N.nL 1 = N.NttL := rfl
@[shell_tab] theorem Res.nL_2 : N.nL 2 = N.NxtL := rfl
@[shell_tab] theorem Res.nL_3 : N.nL 3 = N.MxxL := rfl
@[shell_tab] theorem Res.nL_4 : N.nL 4 = N.MttL := rfl
@[shell_tab] theorem Res.nL_5 : N.nL 5 = N.MxtL := rfl
@[shell_tab] theorem ResG.v_0 : NG.v 0 = NG.Nxx := rfl
@[shell_tab] theorem ResG.v_1 : NG.v 1 = NG.Ntt := rfl
@[shell_tab] theorem ResG.v_2 : NG.v 2 = NG.Nxt := rfl
@[shell_tab] theorem ResG.v_3 : NG.v 3 = 0 := rfl
@[shell_tab] theorem ResG.v_4 : NG.v 4 = 0 := rfl
@[shell_tab] theorem ResG.v_5 : NG.v 5 = 0 := rfl
end

/-- the laminate entries are those `conecyl.py` builds for an isotropic wall (`laminaprop is None`): `A11 = A22 = E h/(1 − ν²)`,
`A12 = ν A11`, `A66 = G12 h` with `G12 = E/(2(1 + ν))`, no shear-extension and no bending-extension coupling -/
structure Geo.IsoLam (G : Geo K) : Prop where
  a11 : G.A11 = G.E11 * G.h / (1 - G.nu * G.nu)
  a12 : G.A12 = G.nu * G.E11 * G.h / (1 - G.nu * G.nu)
  a16 : G.A16 = 0
  a22 : G.A22 = G.E11 * G.h / (1 - G.nu * G.nu)
  a26 : G.A26 = 0
  a66 : G.A66 = G.E11 / (2 * (1 + G.nu)) * G.h
  b11 : G.B11 = 0
  b12 : G.B12 = 0
  b16 : G.B16 = 0
  b22 : G.B22 = 0
  b26 : G.B26 = 0
  b66 : G.B66 = 0

/-- the regenerated pointwise pieces of one model (`nT` degree-of-freedom types) -/
structure PointModel (nT : Nat) (K : Type) where
  /-- coefficient of the amplitude of a dof of type `A` in the slope `p` (0: `wx`, 1: `wt`, 2: `v`) -/
  sl : Fin nT → Fin 3 → Geo K → Dof K → K
  /-- … in the linear strain `p` (`exx0 … kxt0`) -/
  e0 : Fin nT → Fin 6 → Geo K → Dof K → K
  /-- … in the non-linear strain `p` (`exxL … kxtL`), at the slopes `S` of the whole state -/
  eL : Fin nT → Fin 6 → Geo K → Slopes K → Dof K → K
  /-- amplitude-independent part of the non-linear strains -/
  eLc : Fin 6 → Geo K → K
  N0 : Fin 6 → Geo K → Strains K → K
  NL : Fin 6 → Geo K → Strains K → K
  /-- integrand of the internal-force component of a dof of type `A` -/
  fint : Fin nT → Geo K → Slopes K → Res K → Dof K → K
  /-- matrix integrands at (row type, column type); `0` where the kernel writes nothing -/
  k0L : Fin nT → Fin nT → Geo K → Slopes K → Dof K → Dof K → K
  kLL : Fin nT → Fin nT → Geo K → Slopes K → Dof K → Dof K → K
  kG : Fin nT → Fin nT → Geo K → ResG K → Dof K → Dof K → K
  /-- class of a type: 0 (leading amplitudes), 1 (`i1` terms), 2 (`(i2, j2)` terms) -/
  cls : Fin nT → Nat

/-- one term of the amplitude vector as seen from the point: its type, its point values, its amplitude -/
structure Amp (nT : Nat) (K : Type) where
  ty : Fin nT
  d : Dof K
  c : K

/-- the same term with amplitude `t·c` -/
def Amp.scale {nT : Nat} (t : K) (a : Amp nT K) : Amp nT K := ⟨a.ty, a.d, t * a.c⟩

variable {nT : Nat}

/-- `make_symmetric` at type level: the kernels `cfkLL`, `cfkG` write the blocks 11, 12, 22 only (and skip `row > col`
inside 11 and 22); the other half is the mirror image -/
def symE {S : Type} (f : Fin nT → Fin nT → Geo K → S → Dof K → Dof K → K) (A B : Fin nT) (G : Geo K) (s : S)
    (a b : Dof K) : K :=
  if A ≤ B then f A B G s a b else f B A G s b a

/-- slopes of the state `cs` at the point: `Σ c·sl` (the loops `wx += c[col+2]*…` of `cffint`) -/
def slopesOf (M : PointModel nT K) (G : Geo K) (cs : List (Amp nT K)) : Slopes K :=
  Slopes.ofFn fun s => (cs.map fun a => a.c * M.sl a.ty s G a.d).sum

/-- linear and non-linear strains of the state (the loops `exx0 += …`, `exxL += c[col+2]*(… w0x + 0.5 … wx)`) -/
def strainsOf (M : PointModel nT K) (G : Geo K) (cs : List (Amp nT K)) : Strains K :=
  Strains.ofFn (fun p => (cs.map fun a => a.c * M.e0 a.ty p G a.d).sum)
    (fun p => M.eLc p G + (cs.map fun a => a.c * M.eL a.ty p G (slopesOf M G cs) a.d).sum)

/-- stress resultants of the state -/
def resOf (M : PointModel nT K) (G : Geo K) (cs : List (Amp nT K)) : Res K :=
  Res.ofFn (fun p => M.N0 p G (strainsOf M G cs)) (fun p => M.NL p G (strainsOf M G cs))

/-- integrand of `fint[A-type dof with point values a]` at the state `cs` — what `cffint` adds (per unit `alpha`) -/
def fintAt (M : PointModel nT K) (G : Geo K) (cs : List (Amp nT K)) (A : Fin nT) (a : Dof K) : K :=
  M.fint A G (slopesOf M G cs) (resOf M G cs) a

/-- integrand of `(k0L + k0Lᵀ + kLL + kG)[A-type dof a, B-type dof b]` at the state `cs` -/
def kTAt (M : PointModel nT K) (G : Geo K) (cs : List (Amp nT K)) (A : Fin nT) (a : Dof K) (B : Fin nT) (b : Dof K) : K :=
  M.k0L A B G (slopesOf M G cs) a b + M.k0L B A G (slopesOf M G cs) b a
    + symE M.kLL A B G (slopesOf M G cs) a b + symE M.kG A B G (resOf M G cs).toG a b

/-! ### what the matrix kernels are FED by the commons module -/

/-- regenerated pieces of `cfwx`, `cfwt`, `cfv` (slopes), `cfstrain_<theory>` (total strains) and `cfN` (resultants) -/
structure CommonsModel (nT : Nat) (K : Type) where
  /-- coefficient of the amplitude of a dof of type `A` in the slope `p` as `cfwx` / `cfwt` / `cfv` compute it -/
  sl : Fin nT → Fin 3 → Geo K → Dof K → K
  /-- … in the TOTAL strain `p` of `cfstrain_*` (at the slopes `S`) -/
  e : Fin nT → Fin 6 → Geo K → Slopes K → Dof K → K
  /-- amplitude-independent part of the total strains -/
  ec : Fin 6 → Geo K → K
  /-- `cfN`: resultant `p` from the total strains (passed in the `…0` slots of `Strains`) -/
  N : Fin 6 → Geo K → Strains K → K

/-- the slopes `cfwx`, `cfwt`, `cfv` hand to `cfk0L` / `cfkLL` -/
def CommonsModel.slopesAt (C : CommonsModel nT K) (G : Geo K) (cs : List (Amp nT K)) : Slopes K :=
  Slopes.ofFn fun s => (cs.map fun a => a.c * C.sl a.ty s G a.d).sum

/-- the total strains of `cfstrain_*` -/
def CommonsModel.strainAt (C : CommonsModel nT K) (G : Geo K) (cs : List (Amp nT K)) (p : Fin 6) : K :=
  C.ec p G + (cs.map fun a => a.c * C.e a.ty p G (C.slopesAt G cs) a.d).sum

/-- the membrane resultants `cfN` hands to `cfkG` -/
def CommonsModel.resGAt (C : CommonsModel nT K) (G : Geo K) (cs : List (Amp nT K)) : ResG K :=
  let E := Strains.ofFn (C.strainAt G cs) (fun _ => 0)
  ⟨C.N 0 G E, C.N 1 G E, C.N 2 G E⟩

end Compmech.ShellNL
