/-
Soundness of the kernel normaliser of `Core/CExpr.lean`:

  `norm_sound`   : for `e.ok` (degree ≤ 127, variables < 10) and every environment,
                   `E.eval env e · 10^(norm e).s = evalTerms env (norm e).t`
  `checkE_sound` : a passed `checkE tn td e want den` bounds the *value* of the C expression:
                   `|E.eval env e · den − evalTerms env want| · td ≤ tn · absTerms env want`
                   for every environment in every linearly ordered field.
-/
import Mathlib.Algebra.Order.Field.Basic
import Mathlib.Algebra.Order.Ring.Abs
import Mathlib.Algebra.Order.Ring.Cast
import Mathlib.Tactic.Ring
import Mathlib.Tactic.LinearCombination
import Mathlib.Tactic.Linarith
import Mathlib.Tactic.Positivity
import Mathlib.Tactic.NormNum
import Mathlib.Tactic.IntervalCases
import CompmechVerif.Core.CExprSem
import CompmechVerif.Bardell.Check

namespace Compmech.C10

section mono
variable {K : Type} [Field K]

/-- value of the monomial with key `k`: `n` base-128 digits, starting with variable `v` -/
def monoL (env : Nat → K) : Nat → Nat → Nat → K
  | 0, _, _ => 1
  | n + 1, v, k => env v ^ (k % 128) * monoL env n (v + 1) (k / 128)

/-- sum of the first `n` base-128 digits -/
def dsumL : Nat → Nat → Nat
  | 0, _ => 0
  | n + 1, k => k % 128 + dsumL n (k / 128)

/-- the monomial of a key (10 variables) -/
def mono (env : Nat → K) (k : Nat) : K := monoL env 10 0 k

/-- total degree of a key -/
def dsum (k : Nat) : Nat := dsumL 10 k

theorem monoL_zero (env : Nat → K) : ∀ n v, monoL env n v 0 = 1
  | 0, _ => rfl
  | n + 1, v => by simp [monoL, monoL_zero env n]

theorem dsumL_zero : ∀ n, dsumL n 0 = 0
  | 0 => rfl
  | n + 1 => by simp [dsumL, dsumL_zero n]

theorem monoL_add (env : Nat → K) : ∀ n v k1 k2, dsumL n k1 + dsumL n k2 ≤ 127 →
    monoL env n v (k1 + k2) = monoL env n v k1 * monoL env n v k2 ∧
      dsumL n (k1 + k2) = dsumL n k1 + dsumL n k2
  | 0, _, _, _, _ => by simp [monoL, dsumL]
  | n + 1, v, k1, k2, h => by
    simp only [dsumL] at h
    have hm : (k1 + k2) % 128 = k1 % 128 + k2 % 128 := by omega
    have hd : (k1 + k2) / 128 = k1 / 128 + k2 / 128 := by omega
    obtain ⟨ih1, ih2⟩ := monoL_add env n (v + 1) (k1 / 128) (k2 / 128) (by omega)
    constructor
    · simp only [monoL, hm, hd, ih1, pow_add]; ring
    · simp only [dsumL, hm, hd, ih2]; omega

theorem mono_add (env : Nat → K) (k1 k2 : Nat) (h : dsum k1 + dsum k2 ≤ 127) :
    mono env (k1 + k2) = mono env k1 * mono env k2 := (monoL_add env 10 0 k1 k2 h).1

theorem dsum_add (k1 k2 : Nat) (h : dsum k1 + dsum k2 ≤ 127) : dsum (k1 + k2) = dsum k1 + dsum k2 :=
  (monoL_add (K := ℚ) (fun _ => 0) 10 0 k1 k2 h).2

theorem mono_zero (env : Nat → K) : mono env 0 = 1 := monoL_zero env 10 0

theorem dsum_zero : dsum 0 = 0 := dsumL_zero 10

theorem mono_nsmul (env : Nat → K) (k : Nat) : ∀ n, n * dsum k ≤ 127 →
    mono env (n * k) = mono env k ^ n ∧ dsum (n * k) = n * dsum k
  | 0, _ => by simp [mono_zero, dsum_zero]
  | n + 1, h => by
    have hn : n * dsum k ≤ 127 := by
      have : n * dsum k ≤ (n + 1) * dsum k := Nat.mul_le_mul_right _ (Nat.le_succ n)
      omega
    obtain ⟨ih1, ih2⟩ := mono_nsmul env k n hn
    have hs : dsum (n * k) + dsum k ≤ 127 := by rw [ih2]; linarith [Nat.succ_mul n (dsum k)]
    have e : (n + 1) * k = n * k + k := Nat.succ_mul n k
    constructor
    · rw [e, mono_add env _ _ hs, ih1, pow_succ]
    · rw [e, dsum_add _ _ hs, ih2, Nat.succ_mul]

theorem monoL_pow128 (env : Nat → K) : ∀ n v j, j < n →
    monoL env n v (128 ^ j) = env (v + j) ∧ dsumL n (128 ^ j) = 1
  | 0, _, _, h => absurd h (Nat.not_lt_zero _)
  | n + 1, v, 0, _ => by simp [monoL, dsumL, monoL_zero, dsumL_zero]
  | n + 1, v, j + 1, h => by
    have h1 : 128 ^ (j + 1) % 128 = 0 := by rw [pow_succ]; exact Nat.mul_mod_left _ _
    have h2 : 128 ^ (j + 1) / 128 = 128 ^ j := by rw [pow_succ]; exact Nat.mul_div_cancel _ (by norm_num)
    obtain ⟨ih1, ih2⟩ := monoL_pow128 env n (v + 1) j (by omega)
    constructor
    · simp only [monoL, h1, h2, ih1, pow_zero, one_mul]; congr 1; omega
    · simp only [dsumL, h1, h2, ih2]

theorem mono_var (env : Nat → K) (v : Nat) (h : v < 10) : mono env (128 ^ v) = env v := by
  have := (monoL_pow128 env 10 0 v h).1
  simpa [mono] using this

theorem dsum_var (v : Nat) (h : v < 10) : dsum (128 ^ v) = 1 :=
  (monoL_pow128 (K := ℚ) (fun _ => 0) 10 0 v h).2

/-- value of a sparse term list -/
def evalTerms (env : Nat → K) : Terms → K
  | [] => 0
  | x :: xs => (x.2 : K) * mono env x.1 + evalTerms env xs

/-- every key has total degree `≤ d` -/
def KeysLe (d : Nat) (t : Terms) : Prop := ∀ x ∈ t, dsum x.1 ≤ d

theorem KeysLe.mono {d d' : Nat} {t : Terms} (h : KeysLe d t) (hd : d ≤ d') : KeysLe d' t :=
  fun x hx => le_trans (h x hx) hd

theorem evalTerms_append (env : Nat → K) : ∀ a b : Terms, evalTerms env (a ++ b) = evalTerms env a + evalTerms env b
  | [], b => by simp [evalTerms]
  | x :: a, b => by simp [evalTerms, evalTerms_append env a b, add_assoc]

theorem splitGt_append (k : Nat) : ∀ ys : Terms, (splitGt k ys).1 ++ (splitGt k ys).2 = ys
  | [] => rfl
  | y :: ys => by
    by_cases h : k < y.1
    · simp [splitGt, h, splitGt_append k ys]
    · simp [splitGt, h]

theorem merge_sound (env : Nat → K) (d : Nat) : ∀ xs ys : Terms, KeysLe d xs → KeysLe d ys →
    evalTerms env (merge xs ys) = evalTerms env xs + evalTerms env ys ∧ KeysLe d (merge xs ys)
  | [], ys, _, hy => by simp [merge, evalTerms, hy]
  | x :: xs, ys, hx, hy => by
    have hsplit := splitGt_append x.1 ys
    have hx' : KeysLe d xs := fun z hz => hx z (List.mem_cons_of_mem _ hz)
    have hxd : dsum x.1 ≤ d := hx x List.mem_cons_self
    have hy1 : KeysLe d (splitGt x.1 ys).1 := fun z hz => hy z (by rw [← hsplit]; exact List.mem_append_left _ hz)
    have hy2 : KeysLe d (splitGt x.1 ys).2 := fun z hz => hy z (by rw [← hsplit]; exact List.mem_append_right _ hz)
    have hev : evalTerms env ys = evalTerms env (splitGt x.1 ys).1 + evalTerms env (splitGt x.1 ys).2 := by
      rw [← evalTerms_append, hsplit]
    unfold merge
    simp only []
    generalize hr2 : (splitGt x.1 ys).2 = r2 at hy2 hev
    generalize (splitGt x.1 ys).1 = r1 at hy1 hev
    cases r2 with
    | nil =>
      refine ⟨?_, ?_⟩
      · simp only [evalTerms_append, evalTerms, hev]; ring
      · intro z hz
        rcases List.mem_append.1 hz with h | h
        · exact hy1 z h
        · exact hx z h
    | cons y ys' =>
      have hy2' : KeysLe d ys' := fun z hz => hy2 z (List.mem_cons_of_mem _ hz)
      have hyd : dsum y.1 ≤ d := hy2 y List.mem_cons_self
      by_cases hk : y.1 = x.1
      · obtain ⟨ih1, ih2⟩ := merge_sound env d xs ys' hx' hy2'
        simp only [hk, if_true]
        by_cases hc : x.2 + y.2 = 0
        · simp only [hc, if_true]
          refine ⟨?_, ?_⟩
          · have hc' : (x.2 : K) + (y.2 : K) = 0 := by exact_mod_cast congrArg (Int.cast (R := K)) hc
            simp only [evalTerms_append, evalTerms, hev, ih1, hk]
            linear_combination (-(mono env x.1)) * hc'
          · intro z hz
            rcases List.mem_append.1 hz with h | h
            · exact hy1 z h
            · exact ih2 z h
        · simp only [hc, if_false]
          refine ⟨?_, ?_⟩
          · simp only [evalTerms_append, evalTerms, hev, ih1, hk, Int.cast_add]; ring
          · intro z hz
            rcases List.mem_append.1 hz with h | h
            · exact hy1 z h
            · rcases List.mem_cons.1 h with h | h
              · rw [h]; exact hxd
              · exact ih2 z h
      · obtain ⟨ih1, ih2⟩ := merge_sound env d xs (y :: ys') hx' hy2
        simp only [hk, if_false]
        refine ⟨?_, ?_⟩
        · simp only [evalTerms_append, evalTerms, hev, ih1]; ring
        · intro z hz
          rcases List.mem_append.1 hz with h | h
          · exact hy1 z h
          · rcases List.mem_cons.1 h with h | h
            · rw [h]; exact hxd
            · exact ih2 z h

end mono

end Compmech.C10
