/-
Soundness of the kernel normaliser of `Core/CExpr.lean`:

  `norm_sound`   : for `e.ok` (degree ≤ 127, variables < 10) and every environment,
                   `E.eval env e · 10^(norm e).s = evalTerms env (norm e).t`
  `checkE_sound` : a passed `checkE tn td e want den` bounds the *value* of the C expression:
                   `|E.eval env e · den − evalTerms env want| · td ≤ tn · absTerms env want`
                   for every environment in every linearly ordered field.
-/
import Mathlib.Algebra.Order.Field.Basic
import Mathlib.Algebra.Order.Ring.Abs
import Mathlib.Algebra.Order.Ring.Cast
import Mathlib.Tactic.Ring
import Mathlib.Tactic.FieldSimp
import Mathlib.Algebra.CharZero.Defs
import Mathlib.Tactic.LinearCombination
import Mathlib.Tactic.Linarith
import Mathlib.Tactic.Positivity
import Mathlib.Tactic.NormNum
import Mathlib.Tactic.IntervalCases
import CompmechVerif.Core.CExprSem
import CompmechVerif.Bardell.Check

set_option linter.unusedSectionVars false
set_option linter.unusedSimpArgs false
set_option linter.unnecessarySeqFocus false
set_option linter.unusedVariables false

namespace Compmech.C10

section mono
variable {K : Type} [Field K]

/-- value of the monomial with key `k`: `n` base-128 digits, starting with variable `v` -/
def monoL (env : Nat → K) : Nat → Nat → Nat → K
  | 0, _, _ => 1
  | n + 1, v, k => env v ^ (k % 128) * monoL env n (v + 1) (k / 128)

/-- sum of the first `n` base-128 digits -/
def dsumL : Nat → Nat → Nat
  | 0, _ => 0
  | n + 1, k => k % 128 + dsumL n (k / 128)

/-- the monomial of a key (10 variables) -/
def mono (env : Nat → K) (k : Nat) : K := monoL env 10 0 k

/-- total degree of a key -/
def dsum (k : Nat) : Nat := dsumL 10 k

theorem monoL_zero (env : Nat → K) : ∀ n v, monoL env n v 0 = 1
  | 0, _ => rfl
  | n + 1, v => by simp [monoL, monoL_zero env n]

theorem dsumL_zero : ∀ n, dsumL n 0 = 0
  | 0 => rfl
  | n + 1 => by simp [dsumL, dsumL_zero n]

theorem monoL_add (env : Nat → K) : ∀ n v k1 k2, dsumL n k1 + dsumL n k2 ≤ 127 →
    monoL env n v (k1 + k2) = monoL env n v k1 * monoL env n v k2 ∧
      dsumL n (k1 + k2) = dsumL n k1 + dsumL n k2
  | 0, _, _, _, _ => by simp [monoL, dsumL]
  | n + 1, v, k1, k2, h => by
    simp only [dsumL] at h
    have hm : (k1 + k2) % 128 = k1 % 128 + k2 % 128 := by omega
    have hd : (k1 + k2) / 128 = k1 / 128 + k2 / 128 := by omega
    obtain ⟨ih1, ih2⟩ := monoL_add env n (v + 1) (k1 / 128) (k2 / 128) (by omega)
    constructor
    · simp only [monoL, hm, hd, ih1, pow_add]; ring
    · simp only [dsumL, hm, hd, ih2]; omega

theorem mono_add (env : Nat → K) (k1 k2 : Nat) (h : dsum k1 + dsum k2 ≤ 127) :
    mono env (k1 + k2) = mono env k1 * mono env k2 := (monoL_add env 10 0 k1 k2 h).1

theorem dsum_add (k1 k2 : Nat) (h : dsum k1 + dsum k2 ≤ 127) : dsum (k1 + k2) = dsum k1 + dsum k2 :=
  (monoL_add (K := ℚ) (fun _ => 0) 10 0 k1 k2 h).2

theorem mono_zero (env : Nat → K) : mono env 0 = 1 := monoL_zero env 10 0

theorem dsum_zero : dsum 0 = 0 := dsumL_zero 10

theorem mono_nsmul (env : Nat → K) (k : Nat) : ∀ n, n * dsum k ≤ 127 →
    mono env (n * k) = mono env k ^ n ∧ dsum (n * k) = n * dsum k
  | 0, _ => by simp [mono_zero, dsum_zero]
  | n + 1, h => by
    have hn : n * dsum k ≤ 127 := by
      have : n * dsum k ≤ (n + 1) * dsum k := Nat.mul_le_mul_right _ (Nat.le_succ n)
      omega
    obtain ⟨ih1, ih2⟩ := mono_nsmul env k n hn
    have hs : dsum (n * k) + dsum k ≤ 127 := by rw [ih2]; linarith [Nat.succ_mul n (dsum k)]
    have e : (n + 1) * k = n * k + k := Nat.succ_mul n k
    constructor
    · rw [e, mono_add env _ _ hs, ih1, pow_succ]
    · rw [e, dsum_add _ _ hs, ih2, Nat.succ_mul]

theorem monoL_pow128 (env : Nat → K) : ∀ n v j, j < n →
    monoL env n v (128 ^ j) = env (v + j) ∧ dsumL n (128 ^ j) = 1
  | 0, _, _, h => absurd h (Nat.not_lt_zero _)
  | n + 1, v, 0, _ => by simp [monoL, dsumL, monoL_zero, dsumL_zero]
  | n + 1, v, j + 1, h => by
    have h1 : 128 ^ (j + 1) % 128 = 0 := by rw [pow_succ]; exact Nat.mul_mod_left _ _
    have h2 : 128 ^ (j + 1) / 128 = 128 ^ j := by rw [pow_succ]; exact Nat.mul_div_cancel _ (by norm_num)
    obtain ⟨ih1, ih2⟩ := monoL_pow128 env n (v + 1) j (by omega)
    constructor
    · simp only [monoL, h1, h2, ih1, pow_zero, one_mul]; congr 1; omega
    · simp only [dsumL, h1, h2, ih2]

theorem mono_var (env : Nat → K) (v : Nat) (h : v < 10) : mono env (128 ^ v) = env v := by
  have := (monoL_pow128 env 10 0 v h).1
  simpa [mono] using this

theorem dsum_var (v : Nat) (h : v < 10) : dsum (128 ^ v) = 1 :=
  (monoL_pow128 (K := ℚ) (fun _ => 0) 10 0 v h).2

/-- value of a sparse term list -/
def evalTerms (env : Nat → K) : Terms → K
  | [] => 0
  | x :: xs => (x.2 : K) * mono env x.1 + evalTerms env xs

/-- every key has total degree `≤ d` -/
def KeysLe (d : Nat) (t : Terms) : Prop := ∀ x ∈ t, dsum x.1 ≤ d

theorem KeysLe.mono {d d' : Nat} {t : Terms} (h : KeysLe d t) (hd : d ≤ d') : KeysLe d' t :=
  fun x hx => le_trans (h x hx) hd

theorem evalTerms_append (env : Nat → K) : ∀ a b : Terms, evalTerms env (a ++ b) = evalTerms env a + evalTerms env b
  | [], b => by simp [evalTerms]
  | x :: a, b => by simp [evalTerms, evalTerms_append env a b, add_assoc]

theorem splitGt_append (k : Nat) : ∀ ys : Terms, (splitGt k ys).1 ++ (splitGt k ys).2 = ys
  | [] => rfl
  | y :: ys => by
    by_cases h : k < y.1
    · simp [splitGt, h, splitGt_append k ys]
    · simp [splitGt, h]

theorem merge_sound (env : Nat → K) (d : Nat) : ∀ xs ys : Terms, KeysLe d xs → KeysLe d ys →
    evalTerms env (merge xs ys) = evalTerms env xs + evalTerms env ys ∧ KeysLe d (merge xs ys)
  | [], ys, _, hy => by simp [merge, evalTerms, hy]
  | x :: xs, ys, hx, hy => by
    have hsplit := splitGt_append x.1 ys
    have hx' : KeysLe d xs := fun z hz => hx z (List.mem_cons_of_mem _ hz)
    have hxd : dsum x.1 ≤ d := hx x List.mem_cons_self
    have hy1 : KeysLe d (splitGt x.1 ys).1 := fun z hz => hy z (by rw [← hsplit]; exact List.mem_append_left _ hz)
    have hy2 : KeysLe d (splitGt x.1 ys).2 := fun z hz => hy z (by rw [← hsplit]; exact List.mem_append_right _ hz)
    have hev : evalTerms env ys = evalTerms env (splitGt x.1 ys).1 + evalTerms env (splitGt x.1 ys).2 := by
      rw [← evalTerms_append, hsplit]
    unfold merge
    simp only []
    generalize hr2 : (splitGt x.1 ys).2 = r2 at hy2 hev
    generalize (splitGt x.1 ys).1 = r1 at hy1 hev
    cases r2 with
    | nil =>
      refine ⟨?_, ?_⟩
      · simp only [evalTerms_append, evalTerms, hev]; ring
      · intro z hz
        rcases List.mem_append.1 hz with h | h
        · exact hy1 z h
        · exact hx z h
    | cons y ys' =>
      have hy2' : KeysLe d ys' := fun z hz => hy2 z (List.mem_cons_of_mem _ hz)
      have hyd : dsum y.1 ≤ d := hy2 y List.mem_cons_self
      by_cases hk : y.1 = x.1
      · obtain ⟨ih1, ih2⟩ := merge_sound env d xs ys' hx' hy2'
        simp only [hk, if_true]
        by_cases hc : x.2 + y.2 = 0
        · simp only [hc, if_true]
          refine ⟨?_, ?_⟩
          · have hc' : (x.2 : K) + (y.2 : K) = 0 := by exact_mod_cast congrArg (Int.cast (R := K)) hc
            simp only [evalTerms_append, evalTerms, hev, ih1, hk]
            linear_combination (-(mono env x.1)) * hc'
          · intro z hz
            rcases List.mem_append.1 hz with h | h
            · exact hy1 z h
            · exact ih2 z h
        · simp only [hc, if_false]
          refine ⟨?_, ?_⟩
          · simp only [evalTerms_append, evalTerms, hev, ih1, hk, Int.cast_add]; ring
          · intro z hz
            rcases List.mem_append.1 hz with h | h
            · exact hy1 z h
            · rcases List.mem_cons.1 h with h | h
              · rw [h]; exact hxd
              · exact ih2 z h
      · obtain ⟨ih1, ih2⟩ := merge_sound env d xs (y :: ys') hx' hy2
        simp only [hk, if_false]
        refine ⟨?_, ?_⟩
        · simp only [evalTerms_append, evalTerms, hev, ih1]; ring
        · intro z hz
          rcases List.mem_append.1 hz with h | h
          · exact hy1 z h
          · rcases List.mem_cons.1 h with h | h
            · rw [h]; exact hxd
            · exact ih2 z h


theorem scaleTerms_sound (env : Nat → K) (f : Int) : ∀ t : Terms,
    evalTerms env (scaleTerms f t) = (f : K) * evalTerms env t ∧ ∀ d, KeysLe d t → KeysLe d (scaleTerms f t)
  | [] => by simp [scaleTerms, evalTerms, KeysLe]
  | x :: xs => by
    obtain ⟨ih1, ih2⟩ := scaleTerms_sound env f xs
    refine ⟨?_, ?_⟩
    · simp only [scaleTerms, evalTerms, ih1, Int.cast_mul]; ring
    · intro d hd z hz
      rcases List.mem_cons.1 hz with h | h
      · rw [h]; exact hd x List.mem_cons_self
      · exact ih2 d (fun w hw => hd w (List.mem_cons_of_mem _ hw)) z h

theorem shiftMul_sound (env : Nat → K) (k : Nat) (c : Int) (d1 d2 : Nat) (hk : dsum k ≤ d1) (h : d1 + d2 ≤ 127) :
    ∀ ys : Terms, KeysLe d2 ys →
      evalTerms env (shiftMul k c ys) = (c : K) * mono env k * evalTerms env ys ∧ KeysLe (d1 + d2) (shiftMul k c ys)
  | [], _ => by simp [shiftMul, evalTerms, KeysLe]
  | y :: ys, hy => by
    have hyd : dsum y.1 ≤ d2 := hy y List.mem_cons_self
    obtain ⟨ih1, ih2⟩ := shiftMul_sound env k c d1 d2 hk h ys (fun w hw => hy w (List.mem_cons_of_mem _ hw))
    have hs : dsum k + dsum y.1 ≤ 127 := by omega
    refine ⟨?_, ?_⟩
    · simp only [shiftMul, evalTerms, ih1, mono_add env _ _ hs, Int.cast_mul]; ring
    · intro z hz
      rcases List.mem_cons.1 hz with h' | h'
      · rw [h']; simp only; rw [dsum_add _ _ hs]; omega
      · exact ih2 z h'

theorem mulTerms_sound (env : Nat → K) (d1 d2 : Nat) (h : d1 + d2 ≤ 127) (ys : Terms) (hy : KeysLe d2 ys) :
    ∀ xs : Terms, KeysLe d1 xs →
      evalTerms env (mulTerms xs ys) = evalTerms env xs * evalTerms env ys ∧ KeysLe (d1 + d2) (mulTerms xs ys)
  | [], _ => by simp [mulTerms, evalTerms, KeysLe]
  | x :: xs, hx => by
    obtain ⟨ih1, ih2⟩ := mulTerms_sound env d1 d2 h ys hy xs (fun w hw => hx w (List.mem_cons_of_mem _ hw))
    obtain ⟨s1, s2⟩ := shiftMul_sound env x.1 x.2 d1 d2 (hx x List.mem_cons_self) h ys hy
    obtain ⟨m1, m2⟩ := merge_sound env (d1 + d2) _ _ s2 ih2
    refine ⟨?_, m2⟩
    simp only [mulTerms, m1, s1, ih1, evalTerms]; ring

/-- `p` represents the value `v`: `evalTerms p.t = v·10^p.s`, all keys of degree `≤ d` -/
def SPSound (env : Nat → K) (d : Nat) (v : K) (p : SP) : Prop :=
  evalTerms env p.t = v * (10 : K) ^ p.s ∧ KeysLe d p.t

theorem SPSound.mono {env : Nat → K} {d d' : Nat} {v : K} {p : SP} (h : SPSound env d v p) (hd : d ≤ d') :
    SPSound env d' v p := ⟨h.1, h.2.mono hd⟩

theorem oneSP_sound (env : Nat → K) : SPSound env 0 1 oneSP := by
  refine ⟨by simp [oneSP, evalTerms, mono_zero], ?_⟩
  intro z hz
  simp only [oneSP, List.mem_singleton] at hz
  rw [hz]; simp [dsum_zero]

theorem mulSP_sound {env : Nat → K} {d1 d2 : Nat} {va vb : K} {a b : SP} (ha : SPSound env d1 va a)
    (hb : SPSound env d2 vb b) (h : d1 + d2 ≤ 127) : SPSound env (d1 + d2) (va * vb) (mulSP a b) := by
  obtain ⟨m1, m2⟩ := mulTerms_sound env d1 d2 h b.t hb.2 a.t ha.2
  refine ⟨?_, m2⟩
  simp only [mulSP, m1, ha.1, hb.1, pow_add]; ring

theorem powSP_sound {env : Nat → K} {d : Nat} {v : K} {p : SP} (hp : SPSound env d v p) :
    ∀ n : Nat, n * d ≤ 127 → SPSound env (n * d) (v ^ n) (powSP p n)
  | 0, _ => by simpa [powSP] using oneSP_sound env
  | n + 1, h => by
    have hn : n * d ≤ 127 := le_trans (Nat.mul_le_mul_right _ (Nat.le_succ n)) h
    have ih := powSP_sound hp n hn
    have e : (n + 1) * d = d + n * d := by rw [Nat.succ_mul, Nat.add_comm]
    have := mulSP_sound hp ih (by omega)
    simp only [powSP]
    rw [e, pow_succ']
    exact this

theorem upTo_sound (env : Nat → K) (p : SP) (s : Nat) (h : p.s ≤ s) :
    evalTerms env (upTo p s) = (10 : K) ^ (s - p.s) * evalTerms env p.t ∧ ∀ d, KeysLe d p.t → KeysLe d (upTo p s) := by
  unfold upTo
  by_cases hs : p.s = s
  · simp [hs]
  · simp only [hs, if_false]
    obtain ⟨h1, h2⟩ := scaleTerms_sound env ((10 : Int) ^ (s - p.s)) p.t
    exact ⟨by rw [h1]; norm_num, h2⟩

/-- pointwise soundness of a list of normal forms -/
def SoundL (env : Nat → K) : List E → List SP → Prop
  | [], [] => True
  | e :: l, p :: ps => SPSound env e.deg (e.eval env) p ∧ SoundL env l ps
  | _, _ => False

theorem sumAt_sound (env : Nat → K) (s : Nat) : ∀ (l : List E) (ps : List SP), SoundL env l ps → maxS ps ≤ s →
    evalTerms env (sumAt s ps) = evalSum env l * (10 : K) ^ s ∧ KeysLe (degMax l) (sumAt s ps)
  | [], [], _, _ => by simp [sumAt, evalTerms, evalSum, KeysLe]
  | [], _ :: _, h, _ => by simp [SoundL] at h
  | _ :: _, [], h, _ => by simp [SoundL] at h
  | e :: l, p :: ps, h, hs => by
    simp only [SoundL] at h
    simp only [maxS] at hs
    have hps : p.s ≤ s := le_trans (le_max_left _ _) hs
    obtain ⟨ih1, ih2⟩ := sumAt_sound env s l ps h.2 (le_trans (le_max_right _ _) hs)
    obtain ⟨u1, u2⟩ := upTo_sound env p s hps
    have k1 : KeysLe (degMax (e :: l)) (upTo p s) := (u2 _ h.1.2).mono (by simp [degMax])
    have k2 : KeysLe (degMax (e :: l)) (sumAt s ps) := ih2.mono (by simp [degMax])
    obtain ⟨m1, m2⟩ := merge_sound env _ _ _ k1 k2
    refine ⟨?_, m2⟩
    simp only [sumAt, m1, u1, ih1, h.1.1, evalSum]
    have : (10 : K) ^ s = 10 ^ (s - p.s) * 10 ^ p.s := by rw [← pow_add]; congr 1; omega
    rw [this]; ring

theorem prodFrom_sound (env : Nat → K) : ∀ (l : List E) (ps : List SP) (acc : SP) (d0 : Nat) (v0 : K),
    SoundL env l ps → SPSound env d0 v0 acc → d0 + degSum l ≤ 127 →
      SPSound env (d0 + degSum l) (v0 * evalProd env l) (prodFrom acc ps)
  | [], [], acc, d0, v0, _, ha, _ => by simpa [prodFrom, evalProd, degSum] using ha
  | [], _ :: _, _, _, _, h, _, _ => by simp [SoundL] at h
  | _ :: _, [], _, _, _, h, _, _ => by simp [SoundL] at h
  | e :: l, p :: ps, acc, d0, v0, h, ha, hd => by
    simp only [SoundL] at h
    simp only [degSum] at hd
    have hm := mulSP_sound ha h.1 (by omega)
    have := prodFrom_sound env l ps (mulSP acc p) (d0 + e.deg) (v0 * e.eval env) h.2 hm (by omega)
    simp only [prodFrom, evalProd, degSum]
    rw [← Nat.add_assoc, ← mul_assoc]
    exact this

theorem prodSP_sound (env : Nat → K) (l : List E) (ps : List SP) (h : SoundL env l ps) (hd : degSum l ≤ 127) :
    SPSound env (degSum l) (evalProd env l) (prodSP ps) := by
  cases l with
  | nil =>
    cases ps with
    | nil => simpa [prodSP, evalProd, degSum] using oneSP_sound env
    | cons _ _ => simp [SoundL] at h
  | cons e l =>
    cases ps with
    | nil => simp [SoundL] at h
    | cons p ps =>
      simp only [SoundL] at h
      simp only [degSum] at hd
      have := prodFrom_sound env l ps p e.deg (e.eval env) h.2 h.1 hd
      simpa [prodSP, evalProd, degSum] using this

theorem degMax_le_degSum : ∀ l : List E, degMax l ≤ degSum l
  | [] => le_refl _
  | e :: l => by
    simp only [degMax, degSum]
    have := degMax_le_degSum l
    omega

variable [CharZero K]

mutual
theorem norm_sound (env : Nat → K) : ∀ e : E, e.deg ≤ 127 → e.maxVar < 10 →
    SPSound env e.deg (e.eval env) (norm e)
  | .lit m x, _, _ => by
    unfold norm
    by_cases hm : m = 0
    · refine ⟨by simp [hm, evalTerms, E.eval], ?_⟩
      intro z hz; simp [hm] at hz
    · refine ⟨?_, ?_⟩
      · simp only [hm, if_false, evalTerms, E.eval, mono_zero]
        have : (10 : K) ^ x ≠ 0 := pow_ne_zero _ (by norm_num)
        field_simp
        push_cast; ring
      · intro z hz
        simp only [hm, if_false, List.mem_singleton] at hz
        rw [hz]; simp [dsum_zero]
  | .var v, _, hv => by
    unfold norm
    simp only [E.maxVar] at hv
    refine ⟨by simp [evalTerms, E.eval, mono_var env v hv], ?_⟩
    intro z hz
    simp only [List.mem_singleton] at hz
    rw [hz]; simp [E.deg, dsum_var v hv]
  | .neg a, hd, hv => by
    unfold norm
    simp only [E.deg, E.maxVar] at hd hv
    obtain ⟨h1, h2⟩ := norm_sound env a hd hv
    obtain ⟨s1, s2⟩ := scaleTerms_sound env (-1) (norm a).t
    refine ⟨?_, ?_⟩
    · simp only [s1, h1, E.eval]; push_cast; ring
    · simpa [E.deg] using s2 _ h2
  | .pow b n, hd, hv => by
    simp only [E.deg, E.maxVar] at hd hv
    cases n with
    | zero =>
      have h1 : SPSound env 0 1 (norm (.pow b 0)) := by
        unfold norm
        simp only []
        split
        · rename_i x hx
          refine ⟨by simp [evalTerms, mono_zero], ?_⟩
          intro z hz
          simp only [List.mem_singleton] at hz
          rw [hz]; simp [dsum_zero]
        · simpa [powSP] using oneSP_sound env
      simpa [E.deg, E.eval] using h1
    | succ n =>
      have hb : b.deg ≤ 127 := by
        have : b.deg ≤ (n + 1) * b.deg := Nat.le_mul_of_pos_left _ (Nat.succ_pos n)
        omega
      have ih := norm_sound env b hb hv
      unfold norm
      simp only []
      split
      · rename_i x hx
        have hx1 : dsum x.1 ≤ b.deg := ih.2 x (by rw [hx]; exact List.mem_singleton_self x)
        have hle : (n + 1) * dsum x.1 ≤ 127 := le_trans (Nat.mul_le_mul_left _ hx1) hd
        obtain ⟨m1, m2⟩ := mono_nsmul env x.1 (n + 1) hle
        have hev : (x.2 : K) * mono env x.1 = b.eval env * 10 ^ (norm b).s := by
          have := ih.1; rw [hx] at this; simpa [evalTerms] using this
        refine ⟨?_, ?_⟩
        · simp only [evalTerms, m1, E.eval, add_zero, Int.cast_pow]
          rw [← mul_pow, hev, mul_pow, ← pow_mul, Nat.mul_comm]
        · intro z hz
          simp only [List.mem_singleton] at hz
          rw [hz]; simp only [E.deg]; rw [m2]; exact Nat.mul_le_mul_left _ hx1
      · simpa [E.deg, E.eval] using powSP_sound ih (n + 1) hd
  | .sum l, hd, hv => by
    simp only [E.deg, E.maxVar] at hd hv
    have hl := normL_sound env l hd hv
    unfold norm
    simp only []
    obtain ⟨s1, s2⟩ := sumAt_sound env (maxS (normL l)) l (normL l) hl (le_refl _)
    exact ⟨by simpa [E.eval] using s1, by simpa [E.deg] using s2⟩
  | .prod l, hd, hv => by
    simp only [E.deg, E.maxVar] at hd hv
    have hl := normL_sound env l (le_trans (degMax_le_degSum l) hd) hv
    unfold norm
    simpa [E.deg, E.eval] using prodSP_sound env l (normL l) hl hd
theorem normL_sound (env : Nat → K) : ∀ l : List E, degMax l ≤ 127 → maxVarL l < 10 → SoundL env l (normL l)
  | [], _, _ => by simp [normL, SoundL]
  | e :: l, hd, hv => by
    simp only [degMax, maxVarL] at hd hv
    have he := norm_sound env e (le_trans (le_max_left _ _) hd) (lt_of_le_of_lt (le_max_left _ _) hv)
    have hl := normL_sound env l (le_trans (le_max_right _ _) hd) (lt_of_le_of_lt (le_max_right _ _) hv)
    simp only [normL, SoundL]
    exact ⟨he, hl⟩
end

end mono

section ordered
variable {K : Type} [Field K] [LinearOrder K] [IsStrictOrderedRing K]

/-- `Σ |c_k|·|monomial_k|` — the scale against which coefficient-wise closeness bounds values -/
def absTerms (env : Nat → K) : Terms → K
  | [] => 0
  | x :: xs => |(x.2 : K)| * |mono env x.1| + absTerms env xs

theorem absTerms_nonneg (env : Nat → K) : ∀ t : Terms, 0 ≤ absTerms env t
  | [] => le_refl _
  | x :: xs => by
    have := absTerms_nonneg env xs
    simp only [absTerms]; positivity

theorem closeTerms_sound (env : Nat → K) (tn td ps den : Nat) : ∀ g w : Terms,
    closeTerms tn td ps den g w = true →
      |evalTerms env g * (den : K) - evalTerms env w * (ps : K)| * (td : K) ≤ (tn : K) * (ps : K) * absTerms env w
  | [], [], _ => by simp [evalTerms, absTerms]
  | [], _ :: _, h => by simp [closeTerms] at h
  | _ :: _, [], h => by simp [closeTerms] at h
  | g :: gs, w :: ws, h => by
    simp only [closeTerms, Bool.and_eq_true, beq_iff_eq, decide_eq_true_eq] at h
    obtain ⟨⟨hk, hc⟩, hr⟩ := h
    have ih := closeTerms_sound env tn td ps den gs ws hr
    have hcK : |(g.2 : K) * (den : K) - (w.2 : K) * (ps : K)| * (td : K) ≤ (tn : K) * |(w.2 : K)| * (ps : K) := by
      have := (Nat.cast_le (α := K)).2 hc
      push_cast [Nat.cast_natAbs] at this
      simpa using this
    have hm : 0 ≤ |mono env w.1| := abs_nonneg _
    have htd : (0 : K) ≤ (td : K) := Nat.cast_nonneg _
    have e : evalTerms env (g :: gs) * (den : K) - evalTerms env (w :: ws) * (ps : K)
        = ((g.2 : K) * (den : K) - (w.2 : K) * (ps : K)) * mono env w.1
          + (evalTerms env gs * (den : K) - evalTerms env ws * (ps : K)) := by
      simp only [evalTerms, hk]; ring
    rw [e]
    calc |((g.2 : K) * (den : K) - (w.2 : K) * (ps : K)) * mono env w.1
            + (evalTerms env gs * (den : K) - evalTerms env ws * (ps : K))| * (td : K)
        ≤ (|((g.2 : K) * (den : K) - (w.2 : K) * (ps : K))| * |mono env w.1|
            + |evalTerms env gs * (den : K) - evalTerms env ws * (ps : K)|) * (td : K) := by
          apply mul_le_mul_of_nonneg_right _ htd
          calc _ ≤ |((g.2 : K) * (den : K) - (w.2 : K) * (ps : K)) * mono env w.1|
                    + |evalTerms env gs * (den : K) - evalTerms env ws * (ps : K)| := abs_add_le _ _
            _ = _ := by rw [abs_mul]
      _ = (|((g.2 : K) * (den : K) - (w.2 : K) * (ps : K))| * (td : K)) * |mono env w.1|
            + |evalTerms env gs * (den : K) - evalTerms env ws * (ps : K)| * (td : K) := by ring
      _ ≤ ((tn : K) * |(w.2 : K)| * (ps : K)) * |mono env w.1| + (tn : K) * (ps : K) * absTerms env ws := by
          apply add_le_add _ ih
          exact mul_le_mul_of_nonneg_right hcK hm
      _ = (tn : K) * (ps : K) * absTerms env (w :: ws) := by simp only [absTerms]; ring

/-- **Meaning of a passed table check.**  If `checkE tn td e want den` holds then for every assignment of
the variables (in any linearly ordered field) the value of the C expression `e` satisfies
`|e − want/den| ≤ (tn/td)·(Σ|wanted coefficient|·|monomial|)/den`, written without division. -/
theorem checkE_sound {tn td : Nat} {e : E} {want : Terms} {den : Nat} (h : checkE tn td e want den = true)
    (env : Nat → K) :
    |e.eval env * (den : K) - evalTerms env want| * (td : K) ≤ (tn : K) * absTerms env want := by
  simp only [checkE, E.ok, Bool.and_eq_true, decide_eq_true_eq] at h
  obtain ⟨⟨hd, hv⟩, hc⟩ := h
  have hs := norm_sound env e hd hv
  have hcl := closeTerms_sound env tn td (10 ^ (norm e).s) den _ _ hc
  rw [hs.1] at hcl
  have hp : (0 : K) < (10 : K) ^ (norm e).s := by positivity
  have e1 : E.eval env e * (10 : K) ^ (norm e).s * (den : K) - evalTerms env want * ((10 ^ (norm e).s : Nat) : K)
      = (10 : K) ^ (norm e).s * (E.eval env e * (den : K) - evalTerms env want) := by push_cast; ring
  rw [e1, abs_mul, abs_of_pos hp] at hcl
  have e2 : ((10 ^ (norm e).s : Nat) : K) = (10 : K) ^ (norm e).s := by push_cast; ring
  rw [e2] at hcl
  have : (10 : K) ^ (norm e).s * (|E.eval env e * (den : K) - evalTerms env want| * (td : K))
      ≤ (10 : K) ^ (norm e).s * ((tn : K) * absTerms env want) := by
    calc _ = (10 : K) ^ (norm e).s * |E.eval env e * (den : K) - evalTerms env want| * (td : K) := by ring
      _ ≤ (tn : K) * (10 : K) ^ (norm e).s * absTerms env want := hcl
      _ = _ := by ring
  exact le_of_mul_le_mul_left this hp

end ordered

end Compmech.C10
