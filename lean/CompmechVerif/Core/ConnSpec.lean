/-
Vocabulary of the generated penalty-connection kernels (Gen/Conn/*) and of the interface
mismatch-energy specification (Spec/Interface.lean).

`J dir d₁ f₁ p₁ i₁ d₂ f₂ p₂ i₂` : integral along `dir` of `D^d₁ φ^{f₁}` of panel `p₁` (series index `i₁ ∈ {A,B}`:
row or column index of the entry) times `D^d₂ φ^{f₂}` of panel `p₂`;
`E dir d f p i` : `D^d φ^{f}` of panel `p` evaluated at that panel's interface coordinate in direction `dir`.
-/
import CompmechVerif.Core.OpSpec

namespace Compmech.Panel

inductive Pan where
  | p1 | p2
deriving DecidableEq, Repr

structure CCtx (K : Type) where
  a1 : K
  b1 : K
  a2 : K
  b2 : K
  kt : K
  kr : K
  dsb : K
  J : Dir → Nat → Fld → Pan → Idx → Nat → Fld → Pan → Idx → K
  E : Dir → Nat → Fld → Pan → Idx → K

variable {K : Type} [Field K]

/-- `q₁ − q₂`: the sign with which a quantity of panel `p` enters the jump -/
def Pan.sgn : Pan → K
  | .p1 => 1
  | .p2 => -1

/-- Hessian w.r.t. the amplitude of `(pA, α, A)` and `(pB, β, B)` of the line penalty energy
`Σ_c W_c/2 ∫_line (Q¹_c − Q²_c)² ds`, `ds = (len/2) dζ`, where `Qᵖ_c = Σ_f Σ_{s ∈ ops p f c} s.coef ∂_along^{s.dx} ∂_normal^{s.dy} f`
evaluated on the interface line of panel `p`. -/
def lineHess {n : Nat} (C : CCtx K) (along normal : Dir) (len : K)
    (ops : Pan → Fld → Fin n → List (OpTerm K)) (W : Fin n → K) (pA pB : Pan) (α β : Fld) : K :=
  pA.sgn * pB.sgn * (len / 2) *
    ((List.finRange n).map fun c => W c *
      ((ops pA α c).map fun s => ((ops pB β c).map fun t =>
        s.coef * t.coef * C.J along s.dx α pA .A t.dx β pB .B * C.E normal s.dy α pA .A * C.E normal t.dy β pB .B).sum).sum).sum

/-- same for a surface penalty energy `Σ_c W_c/2 ∬ (Q¹_c − Q²_c)² dx dy` over the common footprint
`a₁ × b₁` (`dx dy = (a₁ b₁/4) dξ dη`); `OpTerm.dx/dy` are the derivative orders in ξ and η. -/
def surfHess {n : Nat} (C : CCtx K) (ops : Pan → Fld → Fin n → List (OpTerm K)) (W : Fin n → K)
    (pA pB : Pan) (α β : Fld) : K :=
  pA.sgn * pB.sgn * (C.a1 * C.b1 / 4) *
    ((List.finRange n).map fun c => W c *
      ((ops pA α c).map fun s => ((ops pB β c).map fun t =>
        s.coef * t.coef * C.J .x s.dx α pA .A t.dx β pB .B * C.J .y s.dy α pA .A t.dy β pB .B).sum).sum).sum

def CCtx.a (C : CCtx K) : Pan → K
  | .p1 => C.a1
  | .p2 => C.a2

def CCtx.b (C : CCtx K) : Pan → K
  | .p1 => C.b1
  | .p2 => C.b2

end Compmech.Panel
