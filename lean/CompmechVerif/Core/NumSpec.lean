/-
Vocabulary of the numerically integrated kernels (Gen/PanelNum/*) at ONE Gauss point.
`E dir d f i` : `D^d φ^{f}` of the row (`i = A`) or column (`i = B`) degree of freedom at the point;
`c f` : amplitude of the degree of freedom currently summed into the state accumulators;
`wxi, weta` : `∂w/∂ξ`, `∂w/∂η` of the current state; `exx … kxy`, `Nxx … Mxy` : strains and resultants there.
-/
import CompmechVerif.Core.OpSpec

namespace Compmech.Panel

structure NCtx (K : Type) where
  a : K
  b : K
  r : K
  F : Fin 6 → Fin 6 → K
  weight : K
  wxi : K
  weta : K
  exx : K
  eyy : K
  gxy : K
  kxx : K
  kyy : K
  kxy : K
  Nxx : K
  Nyy : K
  Nxy : K
  Mxx : K
  Myy : K
  Mxy : K
  c : Fld → K
  E : Dir → Nat → Fld → Idx → K

variable {K : Type} [Field K]

/-- the point as a `PCtx`: the "integrals" are the products of the point values (the Gauss sum of
`weight × integrand` then is the quadrature of the true integrals) -/
def NCtx.toP (X : NCtx K) : PCtx K :=
  { a := X.a, b := X.b, r := X.r, sina := 0, cosa := 1, F := X.F, Nxx := X.Nxx, Nyy := X.Nyy, Nxy := X.Nxy,
    d := 0, h := 0, mu := 0, beta := 0, gamma := 0, aeromu := 0,
    J := fun dir _ d₁ f₁ i₁ d₂ f₂ i₂ => X.E dir d₁ f₁ i₁ * X.E dir d₂ f₂ i₂ }

/-- value at the point of the `p`-th component of an operator table applied to the basis function of
degree of freedom `i` of field `f` -/
def dofB {n : Nat} (X : NCtx K) (ops : Fld → Fin n → List (OpTerm K)) (i : Idx) (f : Fld) (p : Fin n) : K :=
  ((ops f p).map fun s => s.coef * X.E .x s.dx f i * X.E .y s.dy f i).sum

/-- the quadratic (von Kármán) part of the Donnell membrane strains: variation operators at the current
slopes `w,x = (2/a) wxi`, `w,y = (2/b) weta` -/
def vkOps (X : NCtx K) : Fld → Fin 6 → List (OpTerm K)
  | .w, 0 => [⟨4 / (X.a * X.a) * X.wxi, 1, 0⟩]
  | .w, 1 => [⟨4 / (X.b * X.b) * X.weta, 0, 1⟩]
  | .w, 2 => [⟨4 / (X.a * X.b) * X.weta, 1, 0⟩, ⟨4 / (X.a * X.b) * X.wxi, 0, 1⟩]
  | _, _ => []

/-- strain-variation operator of the non-linear theory: linear Donnell table + von Kármán part -/
def nlOps (X : NCtx K) (lin : Fld → Fin 6 → List (OpTerm K)) (f : Fld) (p : Fin 6) : List (OpTerm K) :=
  lin f p ++ vkOps X f p

/-- the stress-resultant vector `(Nxx, Nyy, Nxy, Mxx, Myy, Mxy)` -/
def NCtx.S (X : NCtx K) : Fin 6 → K
  | 0 => X.Nxx | 1 => X.Nyy | 2 => X.Nxy | 3 => X.Mxx | 4 => X.Myy | 5 => X.Mxy

/-- the strain vector `(exx, eyy, gxy, kxx, kyy, kxy)` -/
def NCtx.eps (X : NCtx K) : Fin 6 → K
  | 0 => X.exx | 1 => X.eyy | 2 => X.gxy | 3 => X.kxx | 4 => X.kyy | 5 => X.kxy

end Compmech.Panel
