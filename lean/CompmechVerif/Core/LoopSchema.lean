/-
The loop nest / dof map of a generated panel kernel as the translator reads it from the source
(tools/translate/pyx.py: schema_of).  `LoopSchema.std` is the nest that `Model/PanelLoop.lean` models; the
property files prove by `decide` that every regenerated kernel has exactly that nest.
-/
namespace Compmech.Panel

structure LoopSchema where
  num : Nat
  /-- number of constant-radius sections of the outermost `section` loop (conical panels), if any -/
  sections : Option Nat
  /-- `(loop variable, bound)` from the outermost to the innermost loop -/
  loops : List (String × String)
  /-- the `continue` condition at the top of the innermost loop body -/
  skip : String
  row : String
  col : String
  /-- `(index, A|B, x|y)`: which series index each loop variable is -/
  roles : List (String × String × String)
  /-- definitions of the section-local quantities `x1, x2, xi1, xi2, r, b` (conical panels: constant radius per section) -/
  geometry : List (String × String)
deriving DecidableEq, Repr

/-- `for i in range(m): for k in range(m): for j in range(n): for l in range(n):`
`row = row0 + num*(j*m + i); col = col0 + num*(l*m + k); if row > col: continue` -/
def LoopSchema.std (num : Nat) (sections : Option Nat) : LoopSchema :=
  { num := num
    sections := sections
    loops := (match sections with | some _ => [("section", "s")] | none => []) ++
      [("i", "m"), ("k", "m"), ("j", "n"), ("l", "n")]
    skip := "row > col"
    row := "row0 + num * (j * m + i)"
    col := "col0 + num * (l * m + k)"
    roles := [("i", "A", "x"), ("j", "A", "y"), ("k", "B", "x"), ("l", "B", "y")]
    geometry := match sections with
      | none => []
      | some _ => [("x1", "a * float(section) / s"), ("x2", "a * float(section + 1) / s"),
                   ("xi1", "2 * x1 / a - 1.0"), ("xi2", "2 * x2 / a - 1.0"),
                   ("r", "rbot - sina * ((x1 + x2) / 2.0)"), ("b", "r * bbot / rbot")] }

/-- the same with the loops nested in the order `j, l, i, k` (sub-interval kernels of the flat and cylindrical models) -/
def LoopSchema.stdYX (num : Nat) : LoopSchema :=
  { LoopSchema.std num none with loops := [("j", "n"), ("l", "n"), ("i", "m"), ("k", "m")] }

end Compmech.Panel
