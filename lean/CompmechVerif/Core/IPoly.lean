/-
Dense polynomials with `Int` coefficients (ascending powers) for kernel computation
(`decide +kernel`): no `Rat`, no well-founded recursion, no Mathlib.
-/
namespace Compmech.IPoly

abbrev P := List Int

def add : P → P → P
  | [], q => q
  | p, [] => p
  | a :: p, b :: q => (a + b) :: add p q

def scale (c : Int) : P → P
  | [] => []
  | a :: p => (c * a) :: scale c p

/-- product; zero coefficients of the first factor are skipped -/
def mul : P → P → P
  | [], _ => []
  | a :: p, q => if a = 0 then 0 :: mul p q else add (scale a q) (0 :: mul p q)

/-- `derivFrom k [a_k, a_{k+1}, …] = [k·a_k, (k+1)·a_{k+1}, …]` -/
def derivFrom (k : Nat) : P → P
  | [] => []
  | a :: p => ((k : Int) * a) :: derivFrom (k + 1) p

/-- formal derivative -/
def deriv : P → P
  | [] => []
  | _ :: p => derivFrom 1 p

def derivN : Nat → P → P
  | 0, p => p
  | n + 1, p => derivN n (deriv p)

/-- `Σ_k a_k·b_k` over the common prefix -/
def dot : P → P → Int
  | a :: p, b :: q => a * b + dot p q
  | _, _ => 0

/-- value at an integer point (Horner) -/
def eval (x : Int) : P → Int
  | [] => 0
  | a :: p => a + x * eval x p

end Compmech.IPoly
