/-
Generic lemmas about the bilinear-form specification `hessian` (Core/OpSpec.lean): exchanging the roles of the
row (`A`) and column (`B`) basis functions.  Used for the symmetry statements of C02, C03, C04, C08.
-/
import CompmechVerif.Core.OpSpec
import Mathlib.Algebra.BigOperators.Group.List.Basic
import Mathlib.Tactic.Ring

namespace Compmech.Panel
variable {K : Type} [Field K]

/-- exchange of the order of two finite (list) sums -/
theorem list_sum_comm {α β : Type} (l₁ : List α) (l₂ : List β) (f : α → β → K) :
    (l₁.map fun a => (l₂.map fun b => f a b).sum).sum = (l₂.map fun b => (l₁.map fun a => f a b).sum).sum := by
  induction l₁ with
  | nil => simp
  | cons a l ih =>
    simp only [List.map_cons, List.sum_cons, ih, List.sum_map_add]

def Idx.swap : Idx → Idx
  | .A => .B
  | .B => .A

/-- the same integrals with the roles of the row and the column basis function exchanged:
`∫ D^{d₁}φ^{f₁}_{i₁} · D^{d₂}φ^{f₂}_{i₂}` read with `A ↔ B` and the two factors commuted -/
def PCtx.swap (P : PCtx K) : PCtx K :=
  { P with J := fun dir dom d₁ f₁ i₁ d₂ f₂ i₂ => P.J dir dom d₂ f₂ i₂.swap d₁ f₁ i₁.swap }

theorem pairInt_swap (P : PCtx K) (dx dy : Dom) (α β : Fld) (S T : List (OpTerm K)) :
    pairInt P.swap dx dy β α T S = pairInt P dx dy α β S T := by
  unfold pairInt
  rw [list_sum_comm]
  refine congrArg List.sum (List.map_congr_left fun s _ => congrArg List.sum (List.map_congr_left fun t _ => ?_))
  simp only [PCtx.swap, Idx.swap]
  ring

/-- SYMMETRY of every Hessian-characterised matrix: the `(β,B),(α,A)` entry computed with the exchanged roles
is the `(α,A),(β,B)` entry, for every symmetric weight and every operator table. -/
theorem hessian_swap {n : Nat} (P : PCtx K) (dx dy : Dom) (ops : Fld → Fin n → List (OpTerm K))
    (W : Fin n → Fin n → K) (hW : ∀ p q, W p q = W q p) (α β : Fld) :
    hessian P.swap dx dy ops W β α = hessian P dx dy ops W α β := by
  unfold hessian
  have hab : P.swap.a = P.a ∧ P.swap.b = P.b := ⟨rfl, rfl⟩
  rw [hab.1, hab.2, list_sum_comm]
  refine congrArg (P.a * P.b / 4 * ·) ?_
  refine congrArg List.sum (List.map_congr_left fun p _ => congrArg List.sum (List.map_congr_left fun q _ => ?_))
  rw [pairInt_swap, hW q p]

end Compmech.Panel
