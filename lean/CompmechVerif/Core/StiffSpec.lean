/-
Vocabulary of the generated STIFFENER kernels (Gen/Stiff/*, regenerated from compmech/stiffener/models/*.pyx by
tools/translate/gen_stiff.py) and the bridges to the two existing specification forms:

* `BCtx` — one-dimensional blade flange (`bladestiff1d_clt_donnell_bardell.pyx`: `fk0f`, `fkG0f`, `fkMf`), a beam attached to the skin
  on the line `y = ys`.  `J d₁ f₁ i₁ d₂ f₂ i₂` is the integral over the whole length (ξ ∈ [−1, 1]) of `D^d₁ φ^{f₁}` times `D^d₂ φ^{f₂}` of the
  SKIN series along x (`i ∈ {A, B}`: series index of the row / column degree of freedom); `E d f i` is `D^d` of the skin's y function
  of field `f` evaluated ON THE STIFFENER LINE `η = 2 ys / b − 1`.
  `BCtx.toP` reads such a context as a panel context (`PCtx`, Core/OpSpec.lean) whose "integral along y" is the product of the two
  point values and whose width is 2, so that `hessian B.toP … = (a/2) Σ_{p,q} W_pq Σ_{s,t} s.coef t.coef J(s.dx, t.dx) E(s.dy) E(t.dy)`
  (`lineEnergyHess`): the Hessian of the line energy `½ ∫_0^a (Op c)ᵀ W (Op c) dx` of the field restricted to the stiffener line
  (`OpTerm.dx` = derivative order in ξ, `OpTerm.dy` = derivative order in η).

* `TCtx` — skin–base penalty kernels of the T stiffener (`tstiff2d_clt_donnell_bardell.pyx`: `fkCppy1y2`, `fkCpby1y2`, `fkCbbpby1y2`).
  Panel 1 = skin (bay series, coordinate η ∈ [−1, 1] over the bay width `b`), panel 2 = base (own series, own coordinate η′ ∈ [−1, 1]
  over the strip `y1 ≤ y ≤ y2`, i.e. `η = c0 + c1 η′` with `c0 = (η₁ + η₂)/2`, `c1 = (η₂ − η₁)/2 = (y2 − y1)/b`).
  `Jx` : integrals along x over the whole length.  `Jy dom` : the three families of integrals along y the source calls:
    `.strip` — `integral_*_12(eta1, eta2, …)`: ∫_{η₁}^{η₂} of two SKIN functions (in η);
    `.map`   — `integral_*_c0c1(c0, c1, …)`: ∫_{−1}^{1} of a SKIN function at the mapped argument `c0 + c1 η′` times a BASE function at η′;
    `.full`  — `integral_*`: ∫_{−1}^{1} of two BASE functions (in η′);
    `.bad n` — bounds other than the declared locals / a mapped base function (the translator found something else).
  `TCtx.toC` reads such a context as a connection context (`CCtx`, Core/ConnSpec.lean) over the common footprint `a × (y2 − y1)` in the
  BASE's coordinates `(ξ, η′)`: a strip integral is `c1` times the integral over η′ of the two skin functions at the mapped argument.
-/
import CompmechVerif.Core.ConnSpec

namespace Compmech.Panel

/-! ### one-dimensional blade flange -/

structure BCtx (K : Type) where
  a : K
  b : K
  bf : K
  df : K
  E1 : K
  F1 : K
  S1 : K
  Jxx : K
  Fx : K
  mu : K
  h : K
  hb : K
  hf : K
  J : Nat → Fld → Idx → Nat → Fld → Idx → K
  E : Nat → Fld → Idx → K

variable {K : Type} [Field K]

/-- the blade context read as a panel context: length `a`, width 2 (so that `a·b/4 = a/2`, the Jacobian of `dx = (a/2) dξ`),
"integral along y" = product of the two point values on the stiffener line -/
def BCtx.toP (B : BCtx K) : PCtx K :=
  { a := B.a, b := 2, r := 0, sina := 0, cosa := 0, F := fun _ _ => 0, Nxx := 0, Nyy := 0, Nxy := 0, d := 0, h := 0, mu := 0,
    beta := 0, gamma := 0, aeromu := 0,
    J := fun dir _ d₁ f₁ i₁ d₂ f₂ i₂ =>
      match dir with
      | .x => B.J d₁ f₁ i₁ d₂ f₂ i₂
      | .y => B.E d₁ f₁ i₁ * B.E d₂ f₂ i₂ }

/-- Hessian w.r.t. the amplitudes of the skin degrees of freedom `(α, A)`, `(β, B)` of the LINE energy
`½ ∫_0^a (Op c)ᵀ W (Op c) dx` on the stiffener line, `(Op c)_p = Σ_f Σ_{s ∈ ops f p} s.coef ∂ξ^{s.dx} ∂η^{s.dy} f` evaluated at `η = η_s`. -/
def lineEnergyHess {n : Nat} (B : BCtx K) (ops : Fld → Fin n → List (OpTerm K)) (W : Fin n → Fin n → K) (α β : Fld) : K :=
  hessian B.toP .full .full ops W α β

/-- … which is `(a/2) Σ_{p,q} W_pq Σ_{s,t} s.coef t.coef J(s.dx, t.dx) E(s.dy) E(t.dy)`, spelled out -/
theorem lineEnergyHess_eq {n : Nat} (B : BCtx K) (ops : Fld → Fin n → List (OpTerm K)) (W : Fin n → Fin n → K) (α β : Fld) :
    lineEnergyHess B ops W α β = B.a * 2 / 4 *
      ((List.finRange n).map fun p => ((List.finRange n).map fun q => W p q *
        ((ops α p).map fun s => ((ops β q).map fun t =>
          s.coef * t.coef * B.J s.dx α .A t.dx β .B * (B.E s.dy α .A * B.E t.dy β .B)).sum).sum).sum).sum := rfl

/-! ### T stiffener: skin–base over a strip -/

inductive YDom where
  | strip | map | full
  | bad (n : Nat)
deriving DecidableEq, Repr

structure TCtx (K : Type) where
  a : K
  b : K
  y1 : K
  y2 : K
  dpb : K
  kt : K
  Jx : Nat → Fld → Pan → Idx → Nat → Fld → Pan → Idx → K
  Jy : YDom → Nat → Fld → Pan → Idx → Nat → Fld → Pan → Idx → K

/-- half the strip width in the skin's natural coordinate: `c1 = (η₂ − η₁)/2 = (y2 − y1)/b` -/
def TCtx.c1 (T : TCtx K) : K := (T.y2 - T.y1) / T.b

/-- the integral along y of a pair of functions, all in the BASE's coordinate η′ ∈ [−1, 1]
(skin functions at the mapped argument `c0 + c1 η′`): a strip integral (in η) is `c1` times it -/
def TCtx.JyBase (T : TCtx K) (d₁ : Nat) (f₁ : Fld) (p₁ : Pan) (i₁ : Idx) (d₂ : Nat) (f₂ : Fld) (p₂ : Pan) (i₂ : Idx) : K :=
  match p₁, p₂ with
  | .p1, .p1 => T.Jy .strip d₁ f₁ .p1 i₁ d₂ f₂ .p1 i₂ / T.c1
  | .p1, .p2 => T.Jy .map d₁ f₁ .p1 i₁ d₂ f₂ .p2 i₂
  | .p2, .p1 => T.Jy .map d₂ f₂ .p1 i₂ d₁ f₁ .p2 i₁
  | .p2, .p2 => T.Jy .full d₁ f₁ .p2 i₁ d₂ f₂ .p2 i₂

/-- the T-stiffener context read as a connection context over the footprint `a × (y2 − y1)` of the base -/
def TCtx.toC (T : TCtx K) : CCtx K :=
  { a1 := T.a, b1 := T.y2 - T.y1, a2 := T.a, b2 := T.y2 - T.y1, kt := T.kt, kr := 0, dsb := T.dpb,
    J := fun dir d₁ f₁ p₁ i₁ d₂ f₂ p₂ i₂ =>
      match dir with
      | .x => T.Jx d₁ f₁ p₁ i₁ d₂ f₂ p₂ i₂
      | .y => T.JyBase d₁ f₁ p₁ i₁ d₂ f₂ p₂ i₂
    E := fun _ _ _ _ _ => 0 }

end Compmech.Panel
