/-
Shared vocabulary of the generated panel kernels (Gen/*) and of the energy specifications (Spec/*).

`PCtx` collects every scalar a kernel entry may mention.  `J dir dom d₁ f₁ i₁ d₂ f₂ i₂` stands for the
one-dimensional integral over the domain `dom` in direction `dir` of
`D^d₁ φ^{f₁}_{i₁} · D^d₂ φ^{f₂}_{i₂}` where `φ^{f}` is the Bardell series of field `f` (its edge flags
in that direction) and `i ∈ {A, B}` selects the row (`A`) or column (`B`) series index of the entry.
The entry theorems hold for every interpretation of `J` (they are uniform in the indices, the flags,
and the domain); C10 ties `J` to the C tables.
-/
import Mathlib.Algebra.Field.Defs

namespace Compmech.Panel

inductive Fld where
  | u | v | w
  | other (n : Nat)     -- a flag quadruple that is not the four flags of one field in one direction
deriving DecidableEq, Repr

inductive Idx where
  | A | B
deriving DecidableEq, Repr

inductive Dir where
  | x | y
deriving DecidableEq, Repr

/-- integration domain of a one-dimensional integral: the whole edge `[-1, 1]`, the kernel's declared
sub-interval in that direction (`[η₁, η₂]` from `y1, y2`, or the current section `[ξ₁, ξ₂]` of a
conical panel), or anything else (`bad`: e.g. reversed or foreign bounds). -/
inductive Dom where
  | full | sub
  | bad (n : Nat)
deriving DecidableEq, Repr

structure PCtx (K : Type) where
  a : K
  b : K
  r : K
  sina : K
  cosa : K
  F : Fin 6 → Fin 6 → K
  Nxx : K
  Nyy : K
  Nxy : K
  d : K
  h : K
  mu : K
  beta : K
  gamma : K
  aeromu : K
  J : Dir → Dom → Nat → Fld → Idx → Nat → Fld → Idx → K

/-- the weight is a laminate `ABD` matrix: symmetric, with a symmetric coupling block `B`
(the kernels read `B16 = F[0,5]` etc. once and use it for both `B16` and `B61`). -/
structure IsABD {K : Type} (F : Fin 6 → Fin 6 → K) : Prop where
  symm : ∀ p q, F p q = F q p
  b12 : F 1 3 = F 0 4
  b16 : F 2 3 = F 0 5
  b26 : F 2 4 = F 1 5

/-- one term `coef · ∂ξ^dx ∂η^dy` of a linear differential operator acting on one field -/
structure OpTerm (K : Type) where
  coef : K
  dx : Nat
  dy : Nat

variable {K : Type} [Field K]

/-- `∬ (Σ_s s.coef ∂^s φ^α_A) (Σ_t t.coef ∂^t φ^β_B) dξ dη` for two operators given by term lists -/
def pairInt (P : PCtx K) (dx dy : Dom) (α β : Fld) (S T : List (OpTerm K)) : K :=
  (S.map fun s => (T.map fun t =>
    s.coef * t.coef * P.J .x dx s.dx α .A t.dx β .B * P.J .y dy s.dy α .A t.dy β .B).sum).sum

/-- Second derivative w.r.t. the amplitude of basis function `(α, A)` and of `(β, B)` of the quadratic
functional `½ ∬_{dx × dy} (Op c)ᵀ W (Op c) dx dy`, `dx dy = (a b / 4) dξ dη`, `Op α p` the p-th component of the
operator applied to field α, `W` the (symmetric) weight matrix. -/
def hessian {n : Nat} (P : PCtx K) (dx dy : Dom) (ops : Fld → Fin n → List (OpTerm K))
    (W : Fin n → Fin n → K) (α β : Fld) : K :=
  P.a * P.b / 4 *
    ((List.finRange n).map fun p => ((List.finRange n).map fun q =>
      W p q * pairInt P dx dy α β (ops α p) (ops β q)).sum).sum

end Compmech.Panel

namespace Compmech.Panel
/-- field of a degree-of-freedom offset `row+0/1/2` of the three-field models -/
def fld3 : Fin 3 → Fld
  | 0 => .u
  | 1 => .v
  | 2 => .w
end Compmech.Panel

namespace Compmech.Panel
/-- the single field of the `w`-only plate model -/
def fld1 : Fin 1 → Fld
  | _ => .w
end Compmech.Panel
