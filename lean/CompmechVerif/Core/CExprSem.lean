/-
Semantics of the C expression trees of `Core/CExpr.lean` in an arbitrary field:
`lit m e ↦ m / 10^e`, `pow b n ↦ bⁿ`, n-ary sums and products.  The same definition is
*executed* at `K = ℚ` by the validation driver (`Drv/C10.lean`) and *reasoned about* in
`Core/CExprLemmas.lean`.
-/
import Mathlib.Algebra.Field.Defs
import CompmechVerif.Core.CExpr

namespace Compmech.C10

variable {K : Type} [Field K]

mutual
/-- value of a C expression, variables read from `env` -/
def E.eval (env : Nat → K) : E → K
  | .lit m e => (m : K) / (10 : K) ^ e
  | .var v => env v
  | .neg a => -(a.eval env)
  | .pow b n => (b.eval env) ^ n
  | .sum l => evalSum env l
  | .prod l => evalProd env l
def evalSum (env : Nat → K) : List E → K
  | [] => 0
  | e :: l => e.eval env + evalSum env l
def evalProd (env : Nat → K) : List E → K
  | [] => 1
  | e :: l => e.eval env * evalProd env l
end

end Compmech.C10
