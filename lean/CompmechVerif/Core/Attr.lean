/- simp set collecting the generated entry definitions (Gen/*) -/
import Lean
register_simp_attr panel_entry
