/-
POSITIVE SEMI-DEFINITENESS of the penalty Hessians of Core/ConnSpec.lean (`lineHess`, `surfHess`), over ℝ.

`cctxAt base J E i k j l` is the context a connection kernel's innermost loop body sees for the row indices `(i, j)` and the
column indices `(k, l)` (same convention as `ctxAt` of Spec/WholeMatrix.lean): `C.J dir … .A … .B = J dir … i|j … k|l`,
`C.E dir … .A = E dir … i|j`, `C.E dir … .B = E dir … k|l`.

If the integrals along the interface line are real integrals of products of continuous functions (`RealLineIntegrals`;
the point values `E` are arbitrary reals), the quadratic form of the line penalty Hessian over ANY finite family of degrees
of freedom of the TWO panels is `(len/2) Σ_c W_c ∫ (Q_c)²` with `Q_c = Σ_A c_A sgn_A (operator c of dof A on the line)`, hence
`≥ 0` for `len ≥ 0`, `W_c ≥ 0` (`lineHess_psd`); same for the surface penalty (`surfHess_psd`).
-/
import CompmechVerif.Core.ConnSpec
import CompmechVerif.Core.OpSpecPSD

namespace Compmech.Panel
open scoped BigOperators

/-- integrals along a direction of `D^{d₁}φ^{f₁}` of panel `p₁`, series index `a`, times `D^{d₂}φ^{f₂}` of panel `p₂`, index `b` -/
abbrev ConnIntegrals := Dir → Nat → Fld → Pan → Nat → Nat → Fld → Pan → Nat → ℝ
/-- `D^d φ^f` of panel `p`, series index `a`, at that panel's interface coordinate -/
abbrev ConnEvals := Dir → Nat → Fld → Pan → Nat → ℝ

def cctxAt (base : CCtx ℝ) (J : ConnIntegrals) (E : ConnEvals) (i k j l : Nat) : CCtx ℝ :=
  { base with
    J := fun dir d₁ f₁ p₁ a d₂ f₂ p₂ b => J dir d₁ f₁ p₁ (pick dir a i k j l) d₂ f₂ p₂ (pick dir b i k j l)
    E := fun dir d f p a => E dir d f p (pick dir a i k j l) }

/-- the series index of a degree of freedom `(ix, iy)` in direction `dir` -/
def dirIdx (dir : Dir) (ix iy : Nat) : Nat :=
  match dir with
  | .x => ix
  | .y => iy

theorem pick_A (dir : Dir) (i k j l : Nat) : pick dir .A i k j l = dirIdx dir i j := by cases dir <;> rfl
theorem pick_B (dir : Dir) (i k j l : Nat) : pick dir .B i k j l = dirIdx dir k l := by cases dir <;> rfl

/-! ### algebra -/

section algebra
variable {R : Type} [CommRing R] [Algebra ℝ R]

/-- `Σ_s s.coef · g s.dx s.dy` -/
def termElem (g : Nat → Nat → R) (S : List (OpTerm ℝ)) : R := (S.map fun s => s.coef • g s.dx s.dy).sum

theorem pair_functional (Λ : R →ₗ[ℝ] ℝ) (gA gB : Nat → Nat → R) (F : OpTerm ℝ → OpTerm ℝ → ℝ)
    (hF : ∀ s t, F s t = s.coef * t.coef * Λ (gA s.dx s.dy * gB t.dx t.dy)) (S T : List (OpTerm ℝ)) :
    (S.map fun s => (T.map fun t => F s t).sum).sum = Λ (termElem gA S * termElem gB T) := by
  have inner : ∀ (s : OpTerm ℝ) (T : List (OpTerm ℝ)),
      (T.map fun t => F s t).sum = Λ (s.coef • gA s.dx s.dy * termElem gB T) := by
    intro s T
    unfold termElem
    induction T with
    | nil => simp
    | cons t T ihT =>
      rw [List.map_cons, List.sum_cons, ihT, List.map_cons, List.sum_cons, mul_add, map_add]
      congr 1
      rw [smul_mul_smul_comm, map_smul, smul_eq_mul, hF]
  induction S with
  | nil => simp [termElem]
  | cons s S ih =>
    rw [List.map_cons, List.sum_cons, ih, inner]
    simp only [termElem, List.map_cons, List.sum_cons, add_mul, map_add]

theorem sum3_comm {ι κ : Type} (s : Finset ι) (t : Finset κ) (f : ι → ι → κ → ℝ) :
    ∑ A ∈ s, ∑ B ∈ s, ∑ q ∈ t, f A B q = ∑ q ∈ t, ∑ A ∈ s, ∑ B ∈ s, f A B q :=
  calc ∑ A ∈ s, ∑ B ∈ s, ∑ q ∈ t, f A B q
      = ∑ A ∈ s, ∑ q ∈ t, ∑ B ∈ s, f A B q := Finset.sum_congr rfl fun _ _ => Finset.sum_comm
    _ = ∑ q ∈ t, ∑ A ∈ s, ∑ B ∈ s, f A B q := Finset.sum_comm

/-- a family of pair values of the penalty shape `sg_A sg_B · scale · Σ_c W_c Λ(G_A,c G_B,c)` has the quadratic form
`scale · Σ_c W_c Λ(Q_c²)`, `Q_c = Σ_A c_A sg_A G_A,c` -/
theorem penalty_quadForm_eq {n : Nat} {ι : Type} (Λ : R →ₗ[ℝ] ℝ) (s : Finset ι) (sg c : ι → ℝ) (scale : ℝ)
    (W : Fin n → ℝ) (G : ι → Fin n → R) (H : ι → ι → ℝ)
    (hH : ∀ A B, H A B = sg A * sg B * scale * ∑ q, W q * Λ (G A q * G B q)) :
    ∑ A ∈ s, ∑ B ∈ s, c A * c B * H A B
      = scale * ∑ q, W q * Λ ((∑ A ∈ s, (c A * sg A) • G A q) * (∑ A ∈ s, (c A * sg A) • G A q)) := by
  have hQ : ∀ q, Λ ((∑ A ∈ s, (c A * sg A) • G A q) * (∑ A ∈ s, (c A * sg A) • G A q))
      = ∑ A ∈ s, ∑ B ∈ s, (c A * sg A) * (c B * sg B) * Λ (G A q * G B q) := by
    intro q
    rw [Finset.sum_mul_sum]
    simp only [smul_mul_smul_comm, map_sum, map_smul, smul_eq_mul]
  simp only [hH, hQ]
  simp only [Finset.mul_sum]
  rw [sum3_comm]
  refine Finset.sum_congr rfl fun q _ => Finset.sum_congr rfl fun A _ => Finset.sum_congr rfl fun B _ => ?_
  ring

theorem penalty_quadForm_nonneg {n : Nat} {ι : Type} (Λ : R →ₗ[ℝ] ℝ) (hΛ : ∀ r, 0 ≤ Λ (r * r)) (s : Finset ι)
    (sg c : ι → ℝ) (scale : ℝ) (hscale : 0 ≤ scale) (W : Fin n → ℝ) (hW : ∀ q, 0 ≤ W q) (G : ι → Fin n → R)
    (H : ι → ι → ℝ) (hH : ∀ A B, H A B = sg A * sg B * scale * ∑ q, W q * Λ (G A q * G B q)) :
    0 ≤ ∑ A ∈ s, ∑ B ∈ s, c A * c B * H A B := by
  rw [penalty_quadForm_eq Λ s sg c scale W G H hH]
  exact mul_nonneg hscale (Finset.sum_nonneg fun q _ => mul_nonneg (hW q) (hΛ _))

end algebra

/-! ### the line integral as a positive linear functional on `C(ℝ, ℝ)` -/

section analysis
open intervalIntegral

noncomputable def lineInt (z₁ z₂ : ℝ) : C(ℝ, ℝ) →ₗ[ℝ] ℝ where
  toFun F := ∫ ζ in z₁..z₂, F ζ
  map_add' F G := by
    simp only [ContinuousMap.add_apply]
    exact integral_add (F.continuous.intervalIntegrable _ _) (G.continuous.intervalIntegrable _ _)
  map_smul' r F := by
    simp only [ContinuousMap.smul_apply, smul_eq_mul, RingHom.id_apply, integral_const_mul]

theorem lineInt_mk_mul (z₁ z₂ : ℝ) (f g : ℝ → ℝ) (hf : Continuous f) (hg : Continuous g) :
    lineInt z₁ z₂ ((⟨f, hf⟩ : C(ℝ, ℝ)) * ⟨g, hg⟩) = ∫ ζ in z₁..z₂, f ζ * g ζ := rfl

theorem lineInt_sq_nonneg {z₁ z₂ : ℝ} (hz : z₁ ≤ z₂) (r : C(ℝ, ℝ)) : 0 ≤ lineInt z₁ z₂ (r * r) :=
  integral_nonneg hz fun ζ _ => mul_self_nonneg (r ζ)

theorem dblInt_sq_nonneg {x₁ x₂ y₁ y₂ : ℝ} (hx : x₁ ≤ x₂) (hy : y₁ ≤ y₂) (r : C(ℝ × ℝ, ℝ)) :
    0 ≤ dblInt x₁ x₂ y₁ y₂ (r * r) :=
  dblInt_nonneg hx hy _ fun z => mul_self_nonneg (r z)

end analysis

/-! ### line penalty -/

/-- the integrals along the interface line (direction `along`) ARE integrals over `[z₁, z₂]`, `z₁ ≤ z₂`, of products of the
continuous functions `Z d f p i = D^d φ^f` of panel `p`, series index `i` -/
structure RealLineIntegrals (J : ConnIntegrals) (along : Dir) (Z : Nat → Fld → Pan → Nat → ℝ → ℝ) (z₁ z₂ : ℝ) : Prop where
  cont : ∀ d f p i, Continuous (Z d f p i)
  hz : z₁ ≤ z₂
  eq : ∀ d₁ f₁ p₁ a d₂ f₂ p₂ b, J along d₁ f₁ p₁ a d₂ f₂ p₂ b = ∫ ζ in z₁..z₂, Z d₁ f₁ p₁ a ζ * Z d₂ f₂ p₂ b ζ

/-- operator component `q` of the degree of freedom `(p, f, ix, iy)` restricted to the interface line -/
def lineElem {n : Nat} {J : ConnIntegrals} {along : Dir} {Z : Nat → Fld → Pan → Nat → ℝ → ℝ} {z₁ z₂ : ℝ}
    (hR : RealLineIntegrals J along Z z₁ z₂) (E : ConnEvals) (normal : Dir)
    (ops : Pan → Fld → Fin n → List (OpTerm ℝ)) (p : Pan) (f : Fld) (ix iy : Nat) (q : Fin n) : C(ℝ, ℝ) :=
  termElem (fun d e => E normal e f p (dirIdx normal ix iy) • (⟨Z d f p (dirIdx along ix iy), hR.cont _ _ _ _⟩ : C(ℝ, ℝ)))
    (ops p f q)

theorem lineHess_eq_functional {n : Nat} (base : CCtx ℝ) (J : ConnIntegrals) (E : ConnEvals) (along normal : Dir)
    (len : ℝ) (Z : Nat → Fld → Pan → Nat → ℝ → ℝ) (z₁ z₂ : ℝ) (hR : RealLineIntegrals J along Z z₁ z₂)
    (ops : Pan → Fld → Fin n → List (OpTerm ℝ)) (W : Fin n → ℝ) (pA pB : Pan) (α β : Fld) (i k j l : Nat) :
    lineHess (cctxAt base J E i k j l) along normal len ops W pA pB α β
      = pA.sgn * pB.sgn * (len / 2) * ∑ q, W q * lineInt z₁ z₂
          (lineElem hR E normal ops pA α i j q * lineElem hR E normal ops pB β k l q) := by
  unfold lineHess
  rw [Fin.sum_univ_def]
  congr 3
  funext q
  congr 1
  refine pair_functional (lineInt z₁ z₂) _ _ _ (fun s t => ?_) _ _
  rw [smul_mul_smul_comm, map_smul, smul_eq_mul]
  simp only [cctxAt, pick_A, pick_B, hR.eq, lineInt_mk_mul]
  ring

/-- POSITIVE SEMI-DEFINITENESS of the line penalty Hessian over any finite family `s` of degrees of freedom
`A ↦ (pan A, fld A, ix A, iy A)` of the two panels, amplitudes `c A`; `len ≥ 0`, `W ≥ 0` -/
theorem lineHess_psd {n : Nat} {ι : Type} (base : CCtx ℝ) (J : ConnIntegrals) (E : ConnEvals) (along normal : Dir)
    (len : ℝ) (hlen : 0 ≤ len) (Z : Nat → Fld → Pan → Nat → ℝ → ℝ) (z₁ z₂ : ℝ) (hR : RealLineIntegrals J along Z z₁ z₂)
    (ops : Pan → Fld → Fin n → List (OpTerm ℝ)) (W : Fin n → ℝ) (hW : ∀ q, 0 ≤ W q)
    (s : Finset ι) (pan : ι → Pan) (fld : ι → Fld) (ix iy : ι → Nat) (c : ι → ℝ) :
    0 ≤ ∑ A ∈ s, ∑ B ∈ s, c A * c B *
      lineHess (cctxAt base J E (ix A) (ix B) (iy A) (iy B)) along normal len ops W (pan A) (pan B) (fld A) (fld B) :=
  penalty_quadForm_nonneg (lineInt z₁ z₂) (lineInt_sq_nonneg hR.hz) s (fun A => (pan A).sgn) c (len / 2) (by linarith) W hW
    (fun A q => lineElem hR E normal ops (pan A) (fld A) (ix A) (iy A) q) _
    (fun A B => lineHess_eq_functional base J E along normal len Z z₁ z₂ hR ops W (pan A) (pan B) (fld A) (fld B)
      (ix A) (ix B) (iy A) (iy B))

/-! ### surface penalty -/

/-- the integrals along x and y over the common footprint ARE integrals of products of continuous functions -/
structure RealSurfIntegrals (J : ConnIntegrals) (X Y : Nat → Fld → Pan → Nat → ℝ → ℝ) (x₁ x₂ y₁ y₂ : ℝ) : Prop where
  contX : ∀ d f p i, Continuous (X d f p i)
  contY : ∀ d f p j, Continuous (Y d f p j)
  hx : x₁ ≤ x₂
  hy : y₁ ≤ y₂
  eqx : ∀ d₁ f₁ p₁ a d₂ f₂ p₂ b, J .x d₁ f₁ p₁ a d₂ f₂ p₂ b = ∫ ξ in x₁..x₂, X d₁ f₁ p₁ a ξ * X d₂ f₂ p₂ b ξ
  eqy : ∀ d₁ f₁ p₁ a d₂ f₂ p₂ b, J .y d₁ f₁ p₁ a d₂ f₂ p₂ b = ∫ η in y₁..y₂, Y d₁ f₁ p₁ a η * Y d₂ f₂ p₂ b η

def surfElem {n : Nat} {J : ConnIntegrals} {X Y : Nat → Fld → Pan → Nat → ℝ → ℝ} {x₁ x₂ y₁ y₂ : ℝ}
    (hR : RealSurfIntegrals J X Y x₁ x₂ y₁ y₂) (ops : Pan → Fld → Fin n → List (OpTerm ℝ)) (p : Pan) (f : Fld)
    (ix iy : Nat) (q : Fin n) : C(ℝ × ℝ, ℝ) :=
  termElem (fun d e => liftX (X d f p ix) (hR.contX _ _ _ _) * liftY (Y e f p iy) (hR.contY _ _ _ _)) (ops p f q)

theorem surfHess_eq_functional {n : Nat} (base : CCtx ℝ) (J : ConnIntegrals) (E : ConnEvals)
    (X Y : Nat → Fld → Pan → Nat → ℝ → ℝ) (x₁ x₂ y₁ y₂ : ℝ) (hR : RealSurfIntegrals J X Y x₁ x₂ y₁ y₂)
    (ops : Pan → Fld → Fin n → List (OpTerm ℝ)) (W : Fin n → ℝ) (pA pB : Pan) (α β : Fld) (i k j l : Nat) :
    surfHess (cctxAt base J E i k j l) ops W pA pB α β
      = pA.sgn * pB.sgn * (base.a1 * base.b1 / 4) * ∑ q, W q * dblInt x₁ x₂ y₁ y₂
          (surfElem hR ops pA α i j q * surfElem hR ops pB β k l q) := by
  unfold surfHess
  rw [Fin.sum_univ_def]
  congr 3
  funext q
  congr 1
  refine pair_functional (dblInt x₁ x₂ y₁ y₂) _ _ _ (fun s t => ?_) _ _
  rw [← dblInt_prod]
  simp only [cctxAt, pick, hR.eqx, hR.eqy]
  ring

/-- POSITIVE SEMI-DEFINITENESS of the surface penalty Hessian; `a₁ b₁ ≥ 0`, `W ≥ 0` -/
theorem surfHess_psd {n : Nat} {ι : Type} (base : CCtx ℝ) (J : ConnIntegrals) (E : ConnEvals)
    (hab : 0 ≤ base.a1 * base.b1) (X Y : Nat → Fld → Pan → Nat → ℝ → ℝ) (x₁ x₂ y₁ y₂ : ℝ)
    (hR : RealSurfIntegrals J X Y x₁ x₂ y₁ y₂)
    (ops : Pan → Fld → Fin n → List (OpTerm ℝ)) (W : Fin n → ℝ) (hW : ∀ q, 0 ≤ W q)
    (s : Finset ι) (pan : ι → Pan) (fld : ι → Fld) (ix iy : ι → Nat) (c : ι → ℝ) :
    0 ≤ ∑ A ∈ s, ∑ B ∈ s, c A * c B *
      surfHess (cctxAt base J E (ix A) (ix B) (iy A) (iy B)) ops W (pan A) (pan B) (fld A) (fld B) :=
  penalty_quadForm_nonneg (dblInt x₁ x₂ y₁ y₂) (dblInt_sq_nonneg hR.hx hR.hy) s (fun A => (pan A).sgn) c
    (base.a1 * base.b1 / 4) (by linarith) W hW
    (fun A q => surfElem hR ops (pan A) (fld A) (ix A) (iy A) q) _
    (fun A B => surfHess_eq_functional base J E X Y x₁ x₂ y₁ y₂ hR ops W (pan A) (pan B) (fld A) (fld B)
      (ix A) (ix B) (iy A) (iy B))

end Compmech.Panel
