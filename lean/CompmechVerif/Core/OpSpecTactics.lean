/-
Proof automation for "generated entry = operator-table Hessian" goals (DESIGN.md 3.7, A.1).
-/
import CompmechVerif.Core.OpSpec
import CompmechVerif.Core.Attr
import Mathlib.Tactic.Ring
import Mathlib.Tactic.FieldSimp
import Mathlib.Algebra.CharZero.Defs
import Mathlib.Tactic.NormNum

namespace Compmech.Panel

/-- rewrite the strictly lower triangle of a symmetric 6×6 weight into the upper one -/
theorem sym6_rewrites {K : Type} (F : Fin 6 → Fin 6 → K) (hF : ∀ p q, F p q = F q p) :
    F 1 0 = F 0 1 ∧ F 2 0 = F 0 2 ∧ F 3 0 = F 0 3 ∧ F 4 0 = F 0 4 ∧ F 5 0 = F 0 5 ∧
    F 2 1 = F 1 2 ∧ F 3 1 = F 1 3 ∧ F 4 1 = F 1 4 ∧ F 5 1 = F 1 5 ∧
    F 3 2 = F 2 3 ∧ F 4 2 = F 2 4 ∧ F 5 2 = F 2 5 ∧
    F 4 3 = F 3 4 ∧ F 5 3 = F 3 5 ∧ F 5 4 = F 4 5 :=
  ⟨hF _ _, hF _ _, hF _ _, hF _ _, hF _ _, hF _ _, hF _ _, hF _ _, hF _ _, hF _ _, hF _ _, hF _ _,
   hF _ _, hF _ _, hF _ _⟩

/-- `entry_eq_hessian [unfold lemmas] sym hF` where `hF : IsABD P.F` -/
syntax "entry_eq_hessian " "[" Lean.Parser.Tactic.simpLemma,* "]" " sym " term : tactic
macro_rules
  | `(tactic| entry_eq_hessian [$ls,*] sym $hF) => `(tactic|
      (obtain ⟨h10, h20, h30, h40, h50, h21, h31, h41, h51, h32, h42, h52, h43, h53, h54⟩ :=
         sym6_rewrites _ (IsABD.symm $hF)
       have hb12 := IsABD.b12 $hF
       have hb16 := IsABD.b16 $hF
       have hb26 := IsABD.b26 $hF
       simp only [panel_entry, $ls,*, hessian, pairInt, fld3, List.finRange, List.map, List.sum_cons, List.sum_nil]
       simp only [List.ofFn, Fin.foldr, Fin.foldr.loop, List.map, List.sum_cons, List.sum_nil,
         h10, h20, h30, h40, h50, h21, h31, h41, h51, h32, h42, h52, h43, h53, h54, hb12, hb16, hb26,
         mul_zero, zero_mul, add_zero, zero_add] 
       try simp
       try simp only [h10, h20, h30, h40, h50, h21, h31, h41, h51, h32, h42, h52, h43, h53, h54, hb12, hb16, hb26]
       try field_simp
       try ring))

end Compmech.Panel

namespace Compmech.Panel

/-- `entry_eq_form [unfold lemmas]`: generated entry = explicit bilinear form (no laminate symmetry) -/
syntax "entry_eq_form " "[" Lean.Parser.Tactic.simpLemma,* "]" : tactic
macro_rules
  | `(tactic| entry_eq_form [$ls,*]) => `(tactic|
      (simp only [panel_entry, $ls,*, hessian, pairInt, fld3, List.finRange, List.map, List.sum_cons, List.sum_nil]
       simp only [List.ofFn, Fin.foldr, Fin.foldr.loop, List.map, List.sum_cons, List.sum_nil,
         mul_zero, zero_mul, add_zero, zero_add]
       try simp
       try field_simp
       try ring))

end Compmech.Panel
