/-
Vocabulary of the generated field-recovery kernels (Gen/Field/*): one degree of freedom `(i, j)` at one
evaluation point.  `c f` is the Ritz amplitude of field `f` of that degree of freedom, `E dir d f` the
value `D^d φ^{f}_i(ξ)` (dir = x) resp. `D^d φ^{f}_j(η)` (dir = y) of its basis function at the point.
-/
import CompmechVerif.Core.OpSpec

namespace Compmech.Panel

structure FCtx (K : Type) where
  a : K
  b : K
  r : K
  NL : K
  c : Fld → K
  E : Dir → Nat → Fld → K

variable {K : Type} [Field K]

/-- the geometric part of an `FCtx` as a `PCtx` (only `a`, `b`, `r` are read by the operator tables) -/
def FCtx.toP (X : FCtx K) : PCtx K :=
  { a := X.a, b := X.b, r := X.r, sina := 0, cosa := 1, F := fun _ _ => 0, Nxx := 0, Nyy := 0, Nxy := 0,
    d := 0, h := 0, mu := 0, beta := 0, gamma := 0, aeromu := 0, J := fun _ _ _ _ _ _ _ _ => 0 }

/-- contribution of the degree of freedom to the `p`-th component of a linear differential operator given
by an operator table (the SAME tables that define the strain energy in C02) -/
def dofOp {n : Nat} (X : FCtx K) (ops : Fld → Fin n → List (OpTerm K)) (p : Fin n) : K :=
  ([Fld.u, Fld.v, Fld.w].map fun f =>
    X.c f * ((ops f p).map fun s => s.coef * X.E .x s.dx f * X.E .y s.dy f).sum).sum

/-- contribution of the degree of freedom to the slopes `w,x` and `w,y` -/
def slopeX (X : FCtx K) : K := 2 / X.a * (X.c .w * X.E .x 1 .w * X.E .y 0 .w)
def slopeY (X : FCtx K) : K := 2 / X.b * (X.c .w * X.E .x 0 .w * X.E .y 1 .w)

end Compmech.Panel
