/-
Vocabulary of the regenerated FSDT (first-order shear deformation) non-linear shell kernels: as `Core/ShellNLSpec.lean`, with
eight strains (`… , gtz, gxz`), eight resultants (`… , Qt, Qx`) and the transverse-shear laminate entries `A44, A45, A55`.
Only what the refutations of Props/C17.lean need: the evaluation of `cffint` and of `cfk0L + cfk0Lᵀ + cfkLL + cfkG` for a list of
amplitudes (`fintAt8`, `kTAt8`), literally as for the CLPT models.
-/
import CompmechVerif.Core.ShellNLSpec

namespace Compmech.ShellNL

structure Geo8 (K : Type) extends Geo K where
  A44 : K
  A45 : K
  A55 : K

structure Strains8 (K : Type) where
  exx0 : K
  ett0 : K
  gxt0 : K
  kxx0 : K
  ktt0 : K
  kxt0 : K
  gtz0 : K
  gxz0 : K
  exxL : K
  ettL : K
  gxtL : K
  kxxL : K
  kttL : K
  kxtL : K
  gtzL : K
  gxzL : K

structure Res8 (K : Type) where
  Nxx0 : K
  Ntt0 : K
  Nxt0 : K
  Mxx0 : K
  Mtt0 : K
  Mxt0 : K
  Qt0 : K
  Qx0 : K
  NxxL : K
  NttL : K
  NxtL : K
  MxxL : K
  MttL : K
  MxtL : K
  QtL : K
  QxL : K

variable {K : Type} [Field K] {nT : Nat}

def Strains8.ofFn (e0 eL : Fin 8 → K) : Strains8 K :=
  ⟨e0 0, e0 1, e0 2, e0 3, e0 4, e0 5, e0 6, e0 7, eL 0, eL 1, eL 2, eL 3, eL 4, eL 5, eL 6, eL 7⟩

def Res8.ofFn (n0 nL : Fin 8 → K) : Res8 K :=
  ⟨n0 0, n0 1, n0 2, n0 3, n0 4, n0 5, n0 6, n0 7, nL 0, nL 1, nL 2, nL 3, nL 4, nL 5, nL 6, nL 7⟩

def Res8.toG (N : Res8 K) : ResG K := ⟨N.Nxx0 + N.NxxL, N.Ntt0 + N.NttL, N.Nxt0 + N.NxtL⟩

/-- the regenerated pointwise pieces of one FSDT model -/
structure PointModel8 (nT : Nat) (K : Type) where
  sl : Fin nT → Fin 3 → Geo8 K → Dof K → K
  e0 : Fin nT → Fin 8 → Geo8 K → Dof K → K
  eL : Fin nT → Fin 8 → Geo8 K → Slopes K → Dof K → K
  eLc : Fin 8 → Geo8 K → K
  N0 : Fin 8 → Geo8 K → Strains8 K → K
  NL : Fin 8 → Geo8 K → Strains8 K → K
  fint : Fin nT → Geo8 K → Slopes K → Res8 K → Dof K → K
  k0L : Fin nT → Fin nT → Geo8 K → Slopes K → Dof K → Dof K → K
  kLL : Fin nT → Fin nT → Geo8 K → Slopes K → Dof K → Dof K → K
  kG : Fin nT → Fin nT → Geo8 K → ResG K → Dof K → Dof K → K
  cls : Fin nT → Nat

def symE8 {S : Type} (f : Fin nT → Fin nT → Geo8 K → S → Dof K → Dof K → K) (A B : Fin nT) (G : Geo8 K) (s : S)
    (a b : Dof K) : K :=
  if A ≤ B then f A B G s a b else f B A G s b a

def slopesOf8 (M : PointModel8 nT K) (G : Geo8 K) (cs : List (Amp nT K)) : Slopes K :=
  Slopes.ofFn fun s => (cs.map fun a => a.c * M.sl a.ty s G a.d).sum

def strainsOf8 (M : PointModel8 nT K) (G : Geo8 K) (cs : List (Amp nT K)) : Strains8 K :=
  Strains8.ofFn (fun p => (cs.map fun a => a.c * M.e0 a.ty p G a.d).sum)
    (fun p => M.eLc p G + (cs.map fun a => a.c * M.eL a.ty p G (slopesOf8 M G cs) a.d).sum)

def resOf8 (M : PointModel8 nT K) (G : Geo8 K) (cs : List (Amp nT K)) : Res8 K :=
  Res8.ofFn (fun p => M.N0 p G (strainsOf8 M G cs)) (fun p => M.NL p G (strainsOf8 M G cs))

/-- integrand of `fint[A-type dof with point values a]` at the state `cs` -/
def fintAt8 (M : PointModel8 nT K) (G : Geo8 K) (cs : List (Amp nT K)) (A : Fin nT) (a : Dof K) : K :=
  M.fint A G (slopesOf8 M G cs) (resOf8 M G cs) a

/-- integrand of `(k0L + k0Lᵀ + kLL + kG)[A-type dof a, B-type dof b]` at the state `cs` -/
def kTAt8 (M : PointModel8 nT K) (G : Geo8 K) (cs : List (Amp nT K)) (A : Fin nT) (a : Dof K) (B : Fin nT) (b : Dof K) : K :=
  M.k0L A B G (slopesOf8 M G cs) a b + M.k0L B A G (slopesOf8 M G cs) b a
    + symE8 M.kLL A B G (slopesOf8 M G cs) a b + symE8 M.kG A B G (resOf8 M G cs).toG a b

end Compmech.ShellNL
