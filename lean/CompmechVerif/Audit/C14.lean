import CompmechVerif.Props.C14
#print axioms Compmech.Panel.C14.kpanel_alpha0_eq_cpanel_k0
#print axioms Compmech.Panel.C14.kpanel_alpha0_eq_cpanel_kG0
#print axioms Compmech.Panel.C14.kpanel_alpha0_eq_cpanel_kM
#print axioms Compmech.Panel.C14.kpanel_k0_additive_in_x_integrals
#print axioms Compmech.Panel.C14.cpanel_expansion_in_inverse_radius
#print axioms Compmech.Panel.C14.cpanel_kG0_eq_plate
#print axioms Compmech.Panel.C14.cpanel_kM_eq_plate
#print axioms Compmech.Panel.C14.plate_w_eq_w_block_k0
#print axioms Compmech.Panel.C14.plate_w_eq_w_block_k0y1y2
#print axioms Compmech.Panel.C14.plate_w_eq_w_block_kG0
#print axioms Compmech.Panel.C14.plate_w_eq_w_block_kA
#print axioms Compmech.Panel.C14.axis_exchange_k0
#print axioms Compmech.Panel.C14.axis_exchange_kG0
#print axioms Compmech.Panel.C14.axis_exchange_kM
#print axioms Compmech.Panel.C14.similarity_k0
#print axioms Compmech.Panel.C14.similarity_kG0
#print axioms Compmech.Panel.C14.similarity_kM
