import CompmechVerif.Props.C06
#print axioms Compmech.EigPost.C06.freq_pairs
#print axioms Compmech.EigPost.C06.sort_is_permutation
#print axioms Compmech.EigPost.C06.sort_ascending_in_rounded_key
#print axioms Compmech.EigPost.C06.sorted_frequencies_positive
#print axioms Compmech.EigPost.C06.freq_ascending_partial
#print axioms Compmech.EigPost.C06.freq_ascending_within_tenth
#print axioms Compmech.EigPost.C06.first_frequency_fundamental_within_tenth
#print axioms Compmech.EigPost.C06.rint_monotone_and_separating
#print axioms Compmech.EigPost.C06.freq_ascending_counterexample
#print axioms Compmech.EigPost.C06.freq_sparse_shapes_total
#print axioms Compmech.EigPost.C06.freq_request_in_arpack_range
#print axioms Compmech.EigPost.C06.freq_repaired_instance_returns
#print axioms Compmech.EigPost.C06.freq_reduced_dof_shapes_counterexample
#print axioms Compmech.EigPost.C06.take_index_cases
#print axioms Compmech.EigPost.C06.reduced_expand_inverse
#print axioms Compmech.EigPost.C06.freq_scale_mass
#print axioms Compmech.EigPost.C06.ascending_lowest_unique
