import CompmechVerif.Props.C02
#print axioms Compmech.Panel.C02.k0_entry_eq_hessian_plate
#print axioms Compmech.Panel.C02.k0y1y2_entry_eq_hessian_plate
#print axioms Compmech.Panel.C02.k0_entry_eq_hessian_plate_w
#print axioms Compmech.Panel.C02.k0y1y2_entry_eq_hessian_plate_w
#print axioms Compmech.Panel.C02.k0_entry_eq_hessian_cpanel
#print axioms Compmech.Panel.C02.k0y1y2_entry_eq_hessian_cpanel
#print axioms Compmech.Panel.C02.k0_entry_eq_hessian_kpanel
#print axioms Compmech.Panel.C02.k0y1y2_entry_eq_hessian_kpanel
#print axioms Compmech.Panel.C02.k0_entry_symm_plate
#print axioms Compmech.Panel.C02.k0y1y2_entry_symm_plate
#print axioms Compmech.Panel.C02.k0_entry_symm_plate_w
#print axioms Compmech.Panel.C02.k0y1y2_entry_symm_plate_w
#print axioms Compmech.Panel.C02.k0_entry_symm_cpanel
#print axioms Compmech.Panel.C02.k0y1y2_entry_symm_cpanel
#print axioms Compmech.Panel.C02.k0_entry_symm_kpanel
#print axioms Compmech.Panel.C02.k0y1y2_entry_symm_kpanel
