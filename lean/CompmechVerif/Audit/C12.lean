import CompmechVerif.Props.C12
#print axioms Compmech.Panel.C12.ssy_11
#print axioms Compmech.Panel.C12.ssy_12
#print axioms Compmech.Panel.C12.ssy_22
#print axioms Compmech.Panel.C12.ssx_11
#print axioms Compmech.Panel.C12.ssx_12
#print axioms Compmech.Panel.C12.ssx_22
#print axioms Compmech.Panel.C12.bfy_11
#print axioms Compmech.Panel.C12.bfy_12
#print axioms Compmech.Panel.C12.bfy_22
#print axioms Compmech.Panel.C12.bfx_11
#print axioms Compmech.Panel.C12.bfx_12
#print axioms Compmech.Panel.C12.bfx_22
#print axioms Compmech.Panel.C12.sb_11
#print axioms Compmech.Panel.C12.sb_12
#print axioms Compmech.Panel.C12.sb_22
