import CompmechVerif.Props.C15
#print axioms Compmech.Ritz.C15.dofIndex_injective
#print axioms Compmech.Ritz.C15.embedding_in_range
#print axioms Compmech.Ritz.C15.entries_independent_of_series_order
#print axioms Compmech.Ritz.C15.minmax_monotone
#print axioms Compmech.Ritz.C15.minmax_chain
