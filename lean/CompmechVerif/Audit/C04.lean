import CompmechVerif.Props.C04
#print axioms Compmech.Panel.C04.massW_symm
#print axioms Compmech.Panel.C04.kM_entry_plate_partial
#print axioms Compmech.Panel.C04.kMy1y2_entry_plate_partial
#print axioms Compmech.Panel.C04.kM_entry_cpanel_partial
#print axioms Compmech.Panel.C04.kMy1y2_entry_cpanel_partial
#print axioms Compmech.Panel.C04.kM_entry_kpanel_partial
#print axioms Compmech.Panel.C04.kMy1y2_entry_kpanel_partial
#print axioms Compmech.Panel.C04.kM_symm_plate
#print axioms Compmech.Panel.C04.kMy1y2_symm_plate
#print axioms Compmech.Panel.C04.kM_symm_cpanel
#print axioms Compmech.Panel.C04.kMy1y2_symm_cpanel
#print axioms Compmech.Panel.C04.kM_symm_kpanel
#print axioms Compmech.Panel.C04.kMy1y2_symm_kpanel
