import CompmechVerif.Props.C17
#print axioms Compmech.ShellNL.C17.integratev_thread_invariant_trapz
#print axioms Compmech.ShellNL.C17.integratev_thread_invariant_simps
#print axioms Compmech.ShellNL.C17.integratev_cores_agree
#print axioms Compmech.ShellNL.C17.kT_symmetric
#print axioms Compmech.ShellNL.C17.kT_eq_kL_add_kG
#print axioms Compmech.ShellNL.C17.tangent_is_jacobian_glue
#print axioms Compmech.ShellNL.C17.fint_zero
#print axioms Compmech.ShellNL.C17.fint_minus_linear
#print axioms Compmech.ShellNL.C17.tangent_and_force_same_state
#print axioms Compmech.ShellNL.C17.state_at_full_load
