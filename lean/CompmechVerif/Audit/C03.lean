import CompmechVerif.Props.C03
#print axioms Compmech.Panel.C03.prestressW_symm
#print axioms Compmech.Panel.C03.kG0_entry_plate
#print axioms Compmech.Panel.C03.kG0y1y2_entry_plate
#print axioms Compmech.Panel.C03.kG0_entry_plate_w
#print axioms Compmech.Panel.C03.kG0y1y2_entry_plate_w
#print axioms Compmech.Panel.C03.kG0_entry_cpanel
#print axioms Compmech.Panel.C03.kG0y1y2_entry_cpanel
#print axioms Compmech.Panel.C03.kG0_entry_kpanel
#print axioms Compmech.Panel.C03.kG0y1y2_entry_kpanel
