import CompmechVerif.Props.C08
#print axioms Compmech.Panel.C08.resultants_eq_F_strain_plate
#print axioms Compmech.Panel.C08.quadratic_terms_plate
#print axioms Compmech.Panel.C08.fint_is_gradient_plate
#print axioms Compmech.Panel.C08.fint_is_gradient_cpanel
#print axioms Compmech.Panel.C08.kL_entry_plate
#print axioms Compmech.Panel.C08.kL_entry_cpanel
#print axioms Compmech.Panel.C08.kG_entry_plate
#print axioms Compmech.Panel.C08.kG_entry_cpanel
#print axioms Compmech.Panel.C08.kL_at_zero_eq_k0_plate
#print axioms Compmech.Panel.C08.kL_at_zero_eq_k0_cpanel
#print axioms Compmech.Panel.C08.fint_zero_plate
#print axioms Compmech.Panel.C08.fint_zero_cpanel
#print axioms Compmech.Panel.C08.kT_is_jacobian_plate
#print axioms Compmech.Panel.C08.kT_is_jacobian_cpanel
#print axioms Compmech.Panel.hasDerivAt_of_cubic
#print axioms Compmech.Panel.C08.kT_is_derivative_plate
#print axioms Compmech.Panel.C08.kT_is_derivative_cpanel
