import CompmechVerif.Props.C07
#print axioms Compmech.Static.C07.fext_dot_c_eq_work
#print axioms Compmech.Static.C07.assembly_fext_dot_c_eq_work
#print axioms Compmech.Static.C07.shape_rows_match_field
#print axioms Compmech.Static.C07.solve_sound
#print axioms Compmech.Static.C07.solve_linear
#print axioms Compmech.Static.C07.bay_fext_dot_c_eq_work
#print axioms Compmech.Static.C07.bay_fext_offsets
#print axioms Compmech.Static.C07.bay_fext_additive
#print axioms Compmech.Static.C07.bay_fext_no_load_factor
#print axioms Compmech.Static.C07.bay_fext_incrementable_ignored_counterexample
#print axioms Compmech.Static.C07.assembly_fext_col_start_dot_c_eq_work
#print axioms Compmech.Static.C07.assembly_fext_incremental_only
#print axioms Compmech.Static.C07.static_linear_solves
#print axioms Compmech.Static.C07.static_loads_at_full_load_factor
#print axioms Compmech.Static.C07.static_linear_in_loads
#print axioms Compmech.Static.C07.static_increments
