import CompmechVerif.Props.C07
#print axioms Compmech.Static.C07.fext_dot_c_eq_work
#print axioms Compmech.Static.C07.assembly_fext_dot_c_eq_work
#print axioms Compmech.Static.C07.shape_rows_match_field
#print axioms Compmech.Static.C07.solve_sound
#print axioms Compmech.Static.C07.solve_linear
