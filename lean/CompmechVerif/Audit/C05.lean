import CompmechVerif.Props.C05
#print axioms Compmech.EigPost.C05.lb_pairs
#print axioms Compmech.EigPost.C05.removed_iff_null_column
#print axioms Compmech.EigPost.C05.lb_sparse_direct_returns
#print axioms Compmech.EigPost.C05.lb_shapes_total
#print axioms Compmech.EigPost.C05.lb_result_shape
#print axioms Compmech.EigPost.C05.lb_requests_in_arpack_range
#print axioms Compmech.EigPost.C05.lb_repaired_instances_return
#print axioms Compmech.EigPost.C05.multipliers_ascending_positive
#print axioms Compmech.EigPost.C05.first_multiplier_is_critical
#print axioms Compmech.EigPost.C05.cayley_transform
#print axioms Compmech.EigPost.C05.cayley_selects_smallest_positive
#print axioms Compmech.EigPost.C05.ascending_lowest_unique
#print axioms Compmech.EigPost.C05.lb_scale
#print axioms Compmech.EigPost.C05.cone_lb_pairs
#print axioms Compmech.EigPost.C05.cone_lb_pencil
