import CompmechVerif.Props.C05
#print axioms Compmech.EigPost.C05.lb_pairs
#print axioms Compmech.EigPost.C05.removed_iff_null_column
#print axioms Compmech.EigPost.C05.lb_sparse_direct_returns
#print axioms Compmech.EigPost.C05.lb_sparse_fallback_shapes
#print axioms Compmech.EigPost.C05.lb_dense_shapes
#print axioms Compmech.EigPost.C05.lb_shapes_partial
#print axioms Compmech.EigPost.C05.lb_shapes_counterexample
#print axioms Compmech.EigPost.C05.multipliers_ascending_positive
#print axioms Compmech.EigPost.C05.cayley_transform
#print axioms Compmech.EigPost.C05.cayley_selects_smallest_positive
#print axioms Compmech.EigPost.C05.ascending_lowest_unique
#print axioms Compmech.EigPost.C05.lb_scale
