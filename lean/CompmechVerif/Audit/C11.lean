import CompmechVerif.Props.C11
#print axioms Compmech.Panel.C11.uvw_eq_series
#print axioms Compmech.Panel.C11.slopes_eq_series
#print axioms Compmech.Panel.C11.shape_rows_are_series_derivative
#print axioms Compmech.Panel.C11.strain_linear_eq_donnell
#print axioms Compmech.Panel.C11.strain_nl_partial
#print axioms Compmech.Panel.C11.strain_nl_counterexample
#print axioms Compmech.Panel.C11.chunking_invariant
#print axioms Compmech.Panel.C11.stress_eq_F_strain
#print axioms Compmech.Panel.C11.stress_nlterms_forwarded
#print axioms Compmech.Panel.C11.stress_requires_laminate
#print axioms Compmech.Panel.C11.stress_linear_eq_F_donnell
