import CompmechVerif.Props.C19
#print axioms Compmech.Panel.C19.kAx_entry_plate
#print axioms Compmech.Panel.C19.kAx_entry_plate_w
#print axioms Compmech.Panel.C19.kAx_entry_cpanel
#print axioms Compmech.Panel.C19.kAy_entry_plate
#print axioms Compmech.Panel.C19.kAy_entry_plate_w
#print axioms Compmech.Panel.C19.kAy_entry_cpanel
#print axioms Compmech.Panel.C19.cA_entry_plate
#print axioms Compmech.Panel.C19.cA_entry_plate_w
#print axioms Compmech.Panel.C19.cA_entry_cpanel
#print axioms Compmech.Panel.C19.byParts_eq_pistonForm_x
#print axioms Compmech.Panel.C19.byParts_eq_pistonForm_y
#print axioms Compmech.Panel.C19.pistonForm_linear
#print axioms Compmech.Panel.C19.loop_nest_standard
#print axioms Compmech.Panel.C19.byParts_split_x
#print axioms Compmech.Panel.C19.kAx_matrix_cpanel
#print axioms Compmech.Panel.C19.coefficients_from_mach
#print axioms Compmech.Panel.C19.coefficients_given
