import CompmechVerif.Props.C09
#print axioms Compmech.NR.C09.reported_equilibrated
#print axioms Compmech.NR.C09.reported_eq_report_events
#print axioms Compmech.NR.C09.reported_increasing_in_unit_interval
#print axioms Compmech.NR.C09.snapshots_immutable
#print axioms Compmech.NR.C09.snapshots_immutable_le
#print axioms Compmech.NR.C09.reported_load_factors_nodup_last_max
#print axioms Compmech.NR.C09.bisect_one_pass
#print axioms Compmech.NR.C09.terminates
#print axioms Compmech.NR.C09.final_within_tolerance_or_below_min_partial
#print axioms Compmech.NR.C09.finished_last_factor_window
#print axioms Compmech.NR.C09.final_not_one_counterexample
#print axioms Compmech.NR.C09.linear_problem_finishes_partial
#print axioms Compmech.NR.C09.linear_problem_reaches_full_load_window_partial
