/-
Line-protocol driver of the executable models:  `lake env lean --run Driver.lean < ops.txt`
Each line: `<property> <op> <rest…>`; one reply line per input line.
-/
import CompmechVerif.Drv.C01
import CompmechVerif.Drv.C09

open Compmech

def dispatch (line : String) : String :=
  let l := line.trimAscii.toString
  match l.splitOn " " with
  | pid :: op :: rest =>
    let r := " ".intercalate rest
    match pid with
    | "C01" => Drv.C01.handle op r
    | "C09" => Drv.C09.handle op r
    | _ => "err unknown-property"
  | _ => "err parse"

partial def loop (h : IO.FS.Stream) (out : IO.FS.Stream) : IO Unit := do
  let line ← h.getLine
  if line.isEmpty then return ()
  out.putStrLn (dispatch line)
  loop h out

def main : IO Unit := do
  let out ← IO.getStdout
  loop (← IO.getStdin) out
  out.flush
