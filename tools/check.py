"""./check <id> [--tier quick|thorough] [--replay <path>]

Generic pipeline; the property-specific parts live in tools/props/<id>.py which defines

  TRUSTED      : list of str   (trusted base of this property)
  ASSUMPTIONS  : list of str
  RULE         : str           (how cases are generated / what is non-trivial)
  EXTRA_TARGETS: optional list of extra lake targets (generated modules) to build
  translate(ctx)               (optional) regenerate Gen/* from /repo; may raise TieBroken
  correspondence(ctx)          run model vs implementation; records ctx.violation(...) itself
  search(ctx, reason)          failing-input search after a broken proof/tie; returns True if it
                               recorded a violation with a concrete input
  replay(ctx, data)            (optional) re-run one replay file
"""
import argparse
import importlib
import json
import os
import sys
import time
import traceback

sys.path.insert(0, os.path.dirname(os.path.dirname(os.path.abspath(__file__))))
from tools import common
from tools.common import Ctx, finish


class TieBroken(Exception):
    pass


def main():
    ap = argparse.ArgumentParser()
    ap.add_argument('pid')
    ap.add_argument('--tier', default=os.environ.get('VERIF_TIER', 'quick'))
    ap.add_argument('--replay', default=None)
    a = ap.parse_args()
    seed = int(os.environ.get('VERIF_SEED', '0') or 0)
    tier = a.tier if a.tier in ('quick', 'thorough') else 'quick'
    ctx = Ctx(a.pid, tier, seed, a.replay)
    plug = importlib.import_module('tools.props.' + a.pid)
    ctx.trusted = list(getattr(plug, 'TRUSTED', []))
    ctx.assumptions = list(getattr(plug, 'ASSUMPTIONS', []))

    if a.replay:
        data = json.load(open(a.replay))
        rc = plug.replay(ctx, data)
        sys.exit(rc)

    broken = []          # reasons a proof obligation / tie no longer checks

    # 1. translators
    if hasattr(plug, 'translate'):
        try:
            plug.translate(ctx)
        except Exception as e:
            ctx.log('translator failed:', e)
            broken.append('translator: %s' % e)

    # 2. build = kernel re-checks every theorem whose inputs changed
    targets = ['CompmechVerif.Props.' + a.pid] + list(getattr(plug, 'EXTRA_TARGETS', []))
    if os.path.exists(os.path.join(common.LEAN, 'CompmechVerif', 'Drv', a.pid + '.lean')):
        targets.append('CompmechVerif.Drv.' + a.pid)
    if not broken:
        ok, out = common.lake_build(targets)
        if not ok:
            tail = '\n'.join([l for l in out.splitlines() if 'error' in l.lower()][:12]) or out[-1500:]
            ctx.log('lake build failed:\n' + tail)
            broken.append('lake build %s failed: %s' % (' '.join(targets), tail[:1500]))
        else:
            ctx.log('lake build ok')

    # 3. audit
    obligations = discharged = 0
    checker_cmd = 'cd lean && lake build %s && lake env lean CompmechVerif/Audit/%s.lean' % (' '.join(targets), a.pid)
    if not broken:
        au = common.audit(a.pid)
        obligations = len(common.theorem_names(os.path.join(common.LEAN, 'CompmechVerif', 'Props', a.pid + '.lean')))
        discharged = len([1 for n, ax in au['theorems'] if all(x in common.ALLOWED_AXIOMS for x in ax)])
        ctx.cov['theorems'] = [dict(name=n, axioms=ax) for n, ax in au['theorems']]
        if not au['ok']:
            for p in au['problems']:
                ctx.log('audit:', p)
            broken.append('audit: ' + '; '.join(au['problems'])[:1500])
        else:
            ctx.log('audit ok: %d theorems, axioms within {propext, Classical.choice, Quot.sound}' % obligations)
        if ctx.thorough() and not broken and getattr(plug, 'LEANCHECKER', True):
            mods = ['CompmechVerif.Props.' + a.pid]
            with common.LakeLock():
                rc, out = common.run(['lake', 'env', 'leanchecker'] + mods, cwd=common.LEAN, timeout=3000)
            ctx.cov['leanchecker'] = dict(rc=rc, tail=out[-300:])
            if rc != 0:
                broken.append('leanchecker rejected %s: %s' % (mods, out[-500:]))
            else:
                ctx.log('leanchecker ok')

    # 4. correspondence / validation (also the implementation arm of the search)
    if not broken:
        try:
            plug.correspondence(ctx)
        except Exception as e:
            traceback.print_exc()
            broken.append('correspondence harness crashed: %r' % (e,))

    # 5. a broken obligation or tie is not by itself a violation: search for a failing input
    if broken:
        found = False
        try:
            found = bool(plug.search(ctx, broken))
        except Exception as e:
            traceback.print_exc()
            ctx.log('search crashed: %r' % (e,))
        if not found and not ctx.violations:
            ctx.violation('proof obligation / tie no longer checks and no failing input was found: '
                          + ' | '.join(broken), dict(broken=broken), found_input=False)

    rc = finish(ctx, max(obligations, 1) if not broken else max(obligations, 1), discharged,
                checker_cmd, getattr(plug, 'RULE', ''))
    sys.exit(rc)


if __name__ == '__main__':
    main()
