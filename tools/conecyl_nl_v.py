"""Validation V of tools/translate/gen_conecyl_nl.py: the SAME intermediate representation that is emitted as Lean terms is
interpreted numerically at the integration points of `compmech.integrate` and compared with the compiled module of /repo
(`calc_k0L`, `calc_kLL`, `calc_kG`, `calc_fint_0L_L0_LL`) at random states.

    interp_state(M, case)      slopes, strains, resultants at every point from the cffint accumulations
    interp_fint(M, case)       -> vector like calc_fint_0L_L0_LL
    interp_matrix(M, nm, case) -> dense matrix like calc_<nm>(...).toarray()
    validate(lean_name, ...)   -> {kernel: max relative difference}

Every matrix kernel is interpreted twice: (a) fed what the compiled kernel is fed — the slopes of cfwx / cfwt / cfv and the
membrane resultants of cfN, taken from the IR of the commons functions (`interp_commons`): agreement validates the translator;
(b) fed the slopes and N0 + NL that the cffint IR accumulates (`interp_state`): a difference here is a cross-kernel inconsistency
of the SOURCE (the tangent pieces and the internal force are evaluated at different states), reported as `tie_*`.
"""
import ast
import importlib
import math
import sys

import numpy as np

from tools.common import REPO
from tools.translate import gen_conecyl_nl as G
from tools.translate.pyx import TranslateError

if REPO not in sys.path:
    sys.path.insert(0, REPO)


class Case(object):
    """one concrete evaluation: geometry, laminate, series sizes, grid, amplitudes, imperfection"""

    def __init__(self, **kw):
        self.__dict__.update(kw)


def points(case):
    from compmech.integrate.integrate import trapz2d_points, simps2d_points
    f = {'trapz2d': trapz2d_points, 'simps2d': simps2d_points}[case.method]
    xs, ts, alphas, betas = f(0., case.L, case.nx, 0., 2 * math.pi, case.nt)
    return np.asarray(xs), np.asarray(ts), np.asarray(alphas), np.asarray(betas)


def imperfection_slopes(case, xs, ts):
    """w0,x and w0,theta of mgi.cfw0x / cfw0t for funcnum = 2 (cosine series in x)"""
    w0x = np.zeros_like(xs)
    w0t = np.zeros_like(xs)
    c0, m0, n0, L = case.c0, case.m0, case.n0, case.L
    for j in range(n0):
        for i in range(m0):
            col = i * 2 + j * m0 * 2
            dcos = -i * math.pi / L * np.sin(i * math.pi * xs / L)
            cosix = np.cos(i * math.pi * xs / L)
            w0x += c0[col] * dcos * np.sin(j * ts) + c0[col + 1] * dcos * np.cos(j * ts)
            w0t += c0[col] * cosix * j * np.cos(j * ts) - c0[col + 1] * cosix * j * np.sin(j * ts)
    return w0x, w0t


def base_env(M, case, pts):
    xs, ts, alphas, betas = pts
    sina, cosa = math.sin(case.alpharad), math.cos(case.alpharad)
    env = {'pi': M.consts.get('pi', math.pi), 'L': case.L, 'r2': case.r2, 'x': xs, 'sina': sina, 'cosa': cosa,
           'r': case.r2 + sina * xs, 'ctLA': np.cos(ts - case.tLA), 'stLA': np.sin(ts - case.tLA), '__t__': ts}
    Ff = np.asarray(case.F, dtype=float).ravel()
    for k, idx in M.lam.items():
        env[k] = Ff[idx]
    for k, v in getattr(case, 'extra', {}).items():
        env[k] = v
    w0x, w0t = imperfection_slopes(case, xs, ts)
    env['w0x'], env['w0t'] = w0x, w0t
    return env


def ev(e, env, idx, defs=None, cache=None):
    """numeric value of a resolved expression; idx: {series index variable: integer}"""
    if isinstance(e, ast.BinOp):
        a, b = ev(e.left, env, idx, defs, cache), ev(e.right, env, idx, defs, cache)
        if isinstance(e.op, ast.Add):
            return a + b
        if isinstance(e.op, ast.Sub):
            return a - b
        if isinstance(e.op, ast.Mult):
            return a * b
        return a / b
    if isinstance(e, ast.UnaryOp):
        return -ev(e.operand, env, idx, defs, cache)
    if isinstance(e, ast.Constant):
        return e.value
    if isinstance(e, ast.Name):
        n = e.id
        if '__' in n:
            k, v = n.split('__', 1)
            if k == 'def':
                d = defs[v]
                key = (v,) + tuple(sorted((w, idx[w]) for w in G.index_vars_of(d.expr, defs)))
                if key not in cache:
                    cache[key] = ev(d.expr, env, idx, defs, cache)
                return cache[key]
            if k == 'idx':
                return idx[v]
            if k == 'sx':
                return np.sin(env['pi'] * idx[v] * env['x'] / env['L'])
            if k == 'cx':
                return np.cos(env['pi'] * idx[v] * env['x'] / env['L'])
            if k == 'st':
                return np.sin(idx[v] * env['__t__'])
            if k == 'ct':
                return np.cos(idx[v] * env['__t__'])
        return env[n]
    raise TranslateError('cannot evaluate %s' % ast.dump(e)[:80])


def dofs(M, case):
    """[(type class, {index var: value}, base position)] in amplitude-vector order of one class, row naming (i1 / i2, j2)"""
    n0, n1, n2_ = M.consts['num0'], M.consts['num1'], M.consts['num2']
    i0, j0 = M.consts['i0'], M.consts['j0']
    out = [(0, {}, 0)]
    for i1 in range(i0, case.m1 + i0):
        out.append((1, {'i1': i1}, (i1 - i0) * n1 + n0))
    for j2 in range(j0, case.n2 + j0):
        for i2 in range(i0, case.m2 + i0):
            out.append((2, {'i2': i2, 'j2': j2}, (i2 - i0) * n2_ + (j2 - j0) * n2_ * case.m2 + n0 + n1 * case.m1))
    return out


def interp_state(M, case, pts=None, env=None):
    """environment with slopes, strains and resultants of the state `case.c` at every point (cffint IR)"""
    pts = pts or points(case)
    env = dict(env or base_env(M, case, pts))
    Fk = M.fint
    num = [M.consts['num0'], M.consts['num1'], M.consts['num2']]
    c = np.asarray(case.c, dtype=float)

    def total(t):
        acc = Fk.acc.get(t, {})
        val = np.zeros_like(pts[0])
        if None in acc:
            val = val + ev(acc[None], env, {})
        for cls, idx, base in dofs(M, case):
            for off in range(num[cls]):
                ty = G.type_of(M, cls, off)
                if ty in acc:
                    val = val + c[base + off] * ev(acc[ty], env, idx)
        return val
    for t in G.SLOPES:
        env[t] = total(t)
    for t in G.STRAIN0 + G.STRAINL:
        env[t] = total(t)
    for (t, e, ln) in Fk.pdefs:
        env[t] = ev(e, env, {})
    for k, (a, b) in zip(G.RESG, zip(G.RES0, G.RESL)):
        env[k] = env[a] + env[b]
    return env


def interp_commons(M, case, pts=None, env=None):
    """the inputs the compiled matrix kernels really get: slopes of cfwx / cfwt / cfv and membrane resultants of cfN
    (through cfstrain_<theory>), from the IR of the commons module"""
    pts = pts or points(case)
    env = dict(env or base_env(M, case, pts))
    C = M.commons
    num = [M.consts['num0'], M.consts['num1'], M.consts['num2']]
    c = np.asarray(case.c, dtype=float)

    def total(acc):
        val = np.zeros_like(pts[0])
        if None in acc:
            val = val + ev(acc[None], env, {})
        for cls, idx, base in dofs(M, case):
            for off in range(num[cls]):
                ty = G.type_of(M, cls, off)
                if ty in acc:
                    val = val + c[base + off] * ev(acc[ty], env, idx)
        return val
    for t in G.SLOPES:
        env[t] = total(C.slopes[t].acc[t]) if t in C.slopes else np.zeros_like(pts[0])
    strains = [total(C.strain.acc.get(t, {})) for t in G.TOTAL]
    env2 = dict(env)
    env2.update(zip(G.TOTAL, strains))
    for k, p in zip(G.RESG, range(3)):
        env[k] = ev(C.N[p], env2, {})
    return env


def quad(vals, pts):
    """what `out = beta*out + alpha*val` point after point leaves in `out` (starting from 0)"""
    alphas, betas = pts[2], pts[3]
    vals = np.broadcast_to(vals, alphas.shape)
    if np.all(betas == 1.):
        return float(np.sum(alphas * vals))
    out = 0.
    for a, b, v in zip(alphas, betas, vals):
        out = b * out + a * v
    return out


def size_of(M, case):
    return M.consts['num0'] + M.consts['num1'] * case.m1 + M.consts['num2'] * case.m2 * case.n2


def interp_fint(M, case, pts=None, env=None):
    pts = pts or points(case)
    env = interp_state(M, case, pts, env)
    num = [M.consts['num0'], M.consts['num1'], M.consts['num2']]
    out = np.zeros(size_of(M, case))
    for cls, idx, base in dofs(M, case):
        for off in range(num[cls]):
            out[base + off] = quad(ev(M.fint.fint[G.type_of(M, cls, off)][0], env, idx), pts)
    return out


def _loop(case, M, v):
    i0, j0 = M.consts['i0'], M.consts['j0']
    return {'i1': range(i0, case.m1 + i0), 'k1': range(i0, case.m1 + i0), 'i2': range(i0, case.m2 + i0),
            'k2': range(i0, case.m2 + i0), 'j2': range(j0, case.n2 + j0), 'l2': range(j0, case.n2 + j0)}[v]


def _base(M, case, cls, idx, row):
    n0, n1, n2_ = M.consts['num0'], M.consts['num1'], M.consts['num2']
    i0, j0 = M.consts['i0'], M.consts['j0']
    if cls == 0:
        return 0
    if cls == 1:
        return (idx['i1' if row else 'k1'] - i0) * n1 + n0
    return (idx['i2' if row else 'k2'] - i0) * n2_ + (idx['j2' if row else 'l2'] - j0) * n2_ * case.m2 + n0 + n1 * case.m1


def interp_matrix(M, nm, case, pts=None, env=None, state_env=None):
    """dense matrix of the COO triplets calc_<nm> would return (entries of one position summed, as coo -> dense does)"""
    pts = pts or points(case)
    env = state_env or interp_state(M, case, pts, env)
    Kk, C = M.mat[nm], M.calc[nm]
    n = size_of(M, case)
    out = np.zeros((n, n))
    count = 0
    for bk, bc in zip(Kk.blocks, C.blocks):
        def rec(loops, idx):
            nonlocal count
            if loops:
                for val in _loop(case, M, loops[0]):
                    rec(loops[1:], dict(idx, **{loops[0]: val}))
                return
            row, col = _base(M, case, bk.rc, idx, True), _base(M, case, bk.cc, idx, False)
            if bk.skip and row > col:
                return
            cache = {}
            for (expr, ln), (ro, co) in zip(bk.entries, bc.pos):
                out[(ro if bk.rc == 0 else row + ro), col + co] += quad(ev(expr, env, idx, Kk.defs, cache), pts)
                count += 1
        rec(list(bk.loops), {})
    return out, count


def module_of(M, nm):
    """the compiled module conecyl.py takes `calc_<nm>` from"""
    base = M.base if (M.rest is None or nm in ('k0L', 'kLL')) else M.rest
    sub = 'fsdt' if base.startswith('fsdt') else 'clpt'
    return importlib.import_module('compmech.conecyl.%s.%s_nonlinear' % (sub, base))


def iso_F(E11, nu, h):
    """the laminate matrix conecyl.py builds for an isotropic shell"""
    G12 = E11 / (2 * (1 + nu))
    A11 = E11 * h / (1 - nu ** 2)
    A12 = nu * A11
    A66 = G12 * h
    D11 = E11 * h ** 3 / (12 * (1 - nu ** 2))
    D12 = nu * D11
    D66 = G12 * h ** 3 / 12
    return np.ascontiguousarray(np.array([[A11, A12, 0, 0, 0, 0], [A12, A11, 0, 0, 0, 0], [0, 0, A66, 0, 0, 0],
                                          [0, 0, 0, D11, D12, 0], [0, 0, 0, D12, D11, 0], [0, 0, 0, 0, 0, D66]], dtype=float))


def laminate_F(rng, iso=False, fsdt=False):
    import compmech.composite.laminate as lam
    if iso:
        return None
    stack = [float(rng.choice([0, 30, 45, -45, 60, 90, -30])) for _ in range(int(rng.integers(2, 5)))]
    plyts = [float(rng.uniform(0.1, 0.3)) for _ in stack]
    lp = (123.55e3, 8.708e3, 0.319, 5.695e3, 5.695e3, 5.695e3)
    L_ = lam.read_stack(stack, plyts=plyts, laminaprops=[lp] * len(stack))
    return np.ascontiguousarray(np.asarray(L_.ABDE if fsdt else L_.ABD, dtype=float))


def random_case(M, rng, imperfect=True):
    m1, m2, n2 = int(rng.integers(1, 4)), int(rng.integers(1, 4)), int(rng.integers(1, 4))
    case = Case(alpharad=float(rng.choice([0., rng.uniform(0.05, 0.6)])), r2=float(rng.uniform(100, 400)), L=float(rng.uniform(200, 600)),
                tLA=float(rng.uniform(0, 6)), m1=m1, m2=m2, n2=n2, nx=int(rng.integers(7, 14)), nt=int(rng.integers(9, 16)),
                method=str(rng.choice(['trapz2d', 'simps2d'])), num_cores=int(rng.integers(1, 4)))
    if M.rest is not None:
        case.extra = {'E11': float(rng.uniform(50e3, 200e3)), 'nu': float(rng.uniform(0.1, 0.4)), 'h': float(rng.uniform(0.5, 3.))}
        case.F = iso_F(**case.extra)
    else:
        case.F = laminate_F(rng, fsdt=M.base.startswith('fsdt'))
    n = size_of(M, case)
    case.c = rng.uniform(-1, 1, n) * float(rng.choice([0.1, 1., 3.]))
    if imperfect:
        case.m0, case.n0 = 2, 2
        case.c0 = rng.uniform(-0.5, 0.5, 2 * case.m0 * case.n0)
    else:
        case.m0, case.n0 = 1, 1
        case.c0 = np.zeros(2)
    return case


def call_compiled(M, nm, case):
    mod = module_of(M, nm)
    f = getattr(mod, {'fint': 'calc_fint_0L_L0_LL'}.get(nm, 'calc_' + nm))
    lam = (case.F,) if (M.rest is None or nm in ('kG', 'fint')) else (case.extra['E11'], case.extra['nu'], case.extra['h'])
    out = f(np.ascontiguousarray(case.c, dtype=float), case.alpharad, case.r2, case.L, case.tLA, *lam, case.m1, case.m2, case.n2,
            case.nx, case.nt, case.num_cores, case.method, np.ascontiguousarray(case.c0, dtype=float), case.m0, case.n0)
    return np.asarray(out) if nm == 'fint' else out.toarray()


def reldiff(a, b):
    s = max(np.abs(a).max(), np.abs(b).max())
    return 0. if s == 0 else float(np.abs(a - b).max() / s)


def validate(lean_name, ncases=6, seed=0, M=None):
    """-> max relative differences over `ncases` random cases (half of them imperfect):
         'k0L', 'kLL', 'kG', 'fint'              each kernel against the compiled module, fed what the compiled kernel is fed
                                                 (matrix kernels: slopes / resultants from the IR of the commons functions);
         'tie_k0L', 'tie_kLL', 'tie_kG'          the same kernels evaluated at the slopes / resultants of the cffint IR:
                                                 differences here are cross-kernel inconsistencies of the SOURCE, not of the translator"""
    M = M or G.translate_ir(lean_name)
    rng = np.random.default_rng(seed)
    worst = {k: 0. for k in ('k0L', 'kLL', 'kG', 'fint', 'tie_k0L', 'tie_kLL', 'tie_kG')}
    entries = 0
    for k in range(ncases):
        case = random_case(M, rng, imperfect=(k % 2 == 0))
        pts = points(case)
        env = interp_state(M, case, pts)
        cenv = interp_commons(M, case, pts)
        worst['fint'] = max(worst['fint'], reldiff(interp_fint(M, case, pts), call_compiled(M, 'fint', case)))
        for nm in ('k0L', 'kLL', 'kG'):
            ref = call_compiled(M, nm, case)
            mat, cnt = interp_matrix(M, nm, case, pts, state_env=cenv)
            entries += cnt
            worst[nm] = max(worst[nm], reldiff(mat, ref))
            mat2, _ = interp_matrix(M, nm, case, pts, state_env=env)
            worst['tie_' + nm] = max(worst['tie_' + nm], reldiff(mat2, ref))
    worst['entries'] = entries
    return worst
