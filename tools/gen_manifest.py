"""Regenerates MANIFEST.json from the table below (keeps it valid at all times)."""
import json, os
V = os.path.dirname(os.path.dirname(os.path.abspath(__file__)))
ALL = ['C%02d' % k for k in range(1, 21)]

CLAIMED = {
 'C01': dict(
   text='Lean 4 theorems (47, kernel-checked, standard axioms only) about a hand-written executable model of read_laminaprop / Lamina.rebuild / MatLamina.rebuild / read_stack and the whole Laminate object (calc_constitutive_matrix, calc_lamination_parameters, calc_ABDE_from_lamination_parameters, read_lamination_parameters, force_balanced_LP, force_symmetric_LP, force_orthotropic, force_symmetric, calc_equivalent_modulus; 29 theorems: invariants identity, lamination-parameter round trip with its exact failure terms and four refutations, what every force_* zeroes and that positive definiteness survives, equivalent moduli): rotQ is tensor rotation (energy identity for all c,s), A/B/D are the interval integrals of weights 1,z,z^2 (real analysis), symmetry, positive definiteness for every non-empty admissible stack, offset shift, B=0 for palindromic stacks, permutation invariance of A, mirror and 90-degree laws, uniform = per-ply form - for ALL ply lists; the model is tied to the running Python by a differential correspondence check on generated stacks (model run at Q on the exact float inputs), with an independent tensor-rotation/Gauss oracle as failing-input search.',
   note='Trusted: Lean kernel, Mathlib, the hand model (tied by correspondence on the explored inputs only), numpy cos/sin/deg2rad, IEEE rounding not modelled (1e-9 block-relative tolerance for read_stack, 1e-12 for the object stream), np.linalg.inv (a parameter of the model of calc_equivalent_modulus). Four known findings on the lamination-parameter route (known_findings.json C01-lp-*).',
   technique='Lean 4 proof over hand model + differential correspondence (model at Q vs Python)', ref='4/C01'),
 'C02': dict(
   text='The Lean model of every analytic stiffness kernel (fk0, fk0y1y2 of plate, plate_w, cpanel, kpanel) is REGENERATED '
        'from the .pyx source text on every run; 35 kernel-checked theorems: each generated entry equals the '
        'second derivative of the Donnell CLT strain energy (operator tables of Spec/Kinematics.lean) for all series indices, '
        'geometries, ABD-structured laminates, all real flag values and both domains, uniformly (abstract integrals J); and the '
        'whole matrix is symmetric: the entry the kernel formula assigns to the transposed position (roles of row and column basis '
        'function exchanged) is the same number, so mirroring the upper triangle loses nothing; the loop nest / dof map / skip condition of every '
        'kernel is regenerated as a schema and proved equal to the modelled nest, so that the finalized matrix holds the Hessian at the positions of ANY '
        'two dofs (any m, n, placement); POSITIVE SEMI-DEFINITE for every PSD laminate matrix (k0_matrix_psd_*: quadratic form = (ab/4) x double real '
        'integral of eps^T F eps >= 0, plate / w-only / cylindrical / conical, full width and sub-interval; abd_weight_psd links the hypothesis to C01). '
        'The translator IR is interpreted on random panels against Panel.calc_k0(finalize=False) of the '
        'running binaries (V), and an independent energy-Hessian oracle (operator tables x exact Bardell integrals) is '
        'compared with calc_k0 incl. pre-load, symmetry, PSD and sub-interval additivity (implementation arm). PANEL GLUE: Panel._rebuild / get_size / calc_k0 / calc_kG0 / calc_kM / calc_kA / calc_cA / calc_kT have a hand model (Model/PanelGlue.lean: which kernel is called with which arguments in which order, None vs 0.0, defaults, 20 error kinds, the combination sum / finalize / skew) tied to the running _panel.py by a recorded-kernel-call correspondence through the C02 driver (names, every argument as exact rational, r / alpharad the panel carries at the call, exception class, post-state, returned matrix), with theorems calc_k0_dispatch (strip kernel iff BOTH y1 and y2 are given - also y1 = 0.0; initial-stress kernel iff a pre-load component is a non-zero number, same domain, argument order), glue_placement, calc_kA / calc_cA_dispatch and calc_k0_eq_energy_hessian_plus_prestress_{plate,cpanel,platew,kpanel} (kernel hypotheses discharged by the regenerated-kernel theorems; conical model: sum over its constant-radius sections, any number of them).',
   note='Trusted: Lean kernel, Mathlib, translator (validated by V each run), operator tables, abstract J tied to C tables '
        'by C10 (the PSD theorems take the integrals as exact real integrals of products of continuous basis functions), Cython build not verified '
        '(V vs in-tree .so), the hand model of the Python glue is tied on explored states only (line coverage of the modelled functions gated), rounding not modelled.',
   technique='Lean 4 proof over model regenerated from source (translator) + translation validation + energy oracle', ref='4/C02'),
 'C03': dict(
   text='Regenerated Lean models of fkG0/fkG0y1y2 (4 models) and of the state-based fkG_num (flat, cylindrical); 39 theorems: each entry is the Hessian of the pre-stress work '
        '1/2 int(Nxx w,x^2 + 2Nxy w,x w,y + Nyy w,y^2) (only the w-w block, symmetric weight, linear in the resultants) for all '
        'indices/geometries/flags; the whole matrix is symmetric (transposed position = same value), zero outside the w-w block and '
        'linear in (Nxx, Nyy, Nxy) as theorems on the regenerated terms; state-based variant at one integration point: every degree of '
        'freedom contributes amplitude x Donnell operator (the C02 table) to the strain state, NLgeom adds Donnell quadratic terms of the '
        'whole series, the resultants are N = A eps + B kappa with the laminate of the point, and the integrand is weight x the '
        'constant-load kernel read on the point values with those resultants - so a uniform-stress state reproduces the constant-load '
        'matrix and a table equal to the uniform laminate changes nothing. V + oracle as C02; the same clauses are also evaluated '
        'numerically on the implementation.',
   note='As C02. The point statements are lifted to the whole tensor Gauss rule by theorem (kG_num_uniform_state_*: uniform resultants => the Gauss sum of the '
        'state-based integrand is the constant-load kernel at the quadrature integrals; _tabulated: for every rule of the C table in its binary64 rounding '
        'each quadrature integral is within 2e-15 (1-norm) of the real integral when nx >= max(m,4), ny >= max(n,4)); rounding of the basis values and of the '
        'accumulation is outside.',
   technique='Lean 4 proof over regenerated model + translation validation + oracle', ref='4/C03'),
 'C04': dict(
   text='Regenerated Lean models of fkM/fkMy1y2; 13 theorems: each of the entries equals the Hessian of the kinetic energy '
        'of a plate with through-thickness moments (h, h*delta, h(delta^2+h^2/12)) with delta = -d, i.e. the theorems compute '
        'which reference surface the kernels use; the whole mass matrix is symmetric (transposed position = same value) and positive semi-definite '
        'for mu, h >= 0 (massW_psd: the weight is mu h [(e0-d e3)^2 + (e1-d e4)^2 + e2^2 + h^2/12 (e3^2+e4^2)]; kM_matrix_psd_* for all models). The glue (which d is passed) is checked against the laminate convention by '
        'an oracle, total mass of a rigid translation, positive definiteness on active amplitudes and frequency invariance '
        'under a move of the reference surface. A genuine defect (wrong sign passed by Panel.calc_kM) was repaired (fix: ca9efb9). '
        'TOTAL MASS is a theorem: for the exact real integrals of the all-free Bardell basis (Spec/BardellIntegrals.lean) a rigid translation u, v or w = 1 sees '
        'c^T M c = mu h a b (strip: mu h a (y2-y1); conical panel: the sum over its sections = mu h a b (1 - a sin(alpha)/(2r)), the exact developed area) for all m, n >= 3, any placement and ANY offset (total_mass_*), calc_kM_eq_kinetic_hessian_{plate,cpanel,platew,kpanel} for the glue, and the PSD theorems hold for that basis with no '
        'hypothesis on the integrals left (kM_matrix_psd_bardell_*).',
   note='As C02; LAPACK eigh trusted for the invariance predicate.',
   technique='Lean 4 proof over regenerated model + translation validation + oracle', ref='4/C04'),
 'C10': dict(
   text='All 24 C tables are re-translated from lib/src/*.c on every run into Lean data and decided COMPLETELY inside the Lean kernel '
        '(decide +kernel, no native_decide) against the exact Bardell polynomials of the closed formula: function tables (calc_f/fxi/fxixi and '
        'the calc_vec_* duplicates), 6 full-interval, 6 sub-interval and 5 mapped-argument integral families for all 900 index pairs, all '
        'monomials, exact zero and flag patterns; Gauss-Legendre nodes/weights n = 2..64 (moments up to 2n-1, decimal and binary64 readings). '
        'Lifted by once-proved lemmas to values for all arguments/flags (Mathlib interval integrals over R for the full, sub-interval and '
        'mapped-argument families; Gauss exactness on polynomials of degree <= 2n-1); hand model of trapz/Simpson point sets with exactness and area theorems '
        'for all grid sizes. V: freshly compiled C (ctypes) vs exact oracle vs emitted data.',
   note='Trusted: Lean kernel, Mathlib, translator ctables.py (validated by V each run), gcc/ctypes for V; floating-point evaluation error of the '
        'monomial-basis polynomials is outside the theorems. The mapped-argument families now have full value theorems too (map_*_integral: binomial '
        're-expansion = real integral of D u_i(xi) * D u_j(c0 + c1 xi), Bardell/MapLemmas.lean); the ordered-field forms stay as ..._partial.',
   technique='Lean 4 proof (kernel-decided complete tables + lifting lemmas) over model regenerated from C source + translation validation', ref='4/C10'),
 'C11': dict(
   text='Lean models of the C-level field kernels (cfuvw, cfwx, cfwy, cfg, cfstrain; full and w-only) REGENERATED from '
        'clt_bardell_field*.pyx each run as per-point, per-dof increments; theorems: displacements are the Ritz series, slopes are '
        'w,x / w,y of the same series, shape-function rows are the amplitude-derivative of that series, linear strains/curvatures '
        'equal the contributions prescribed by the SAME Donnell operator tables that define the energy in C02 (flat and cylindrical '
        'branch); exact statement of what the non-linear option adds (per-dof squares) with a kernel-checked counter-example to the '
        'Donnell quadratic terms (known finding); hand model of the pad/reshape/map/ravel/trim chunking with the theorem '
        'chunkedMap f = map f for every point list and every core count >= 1. Ties: V (summed increments vs running fuvw), driver '
        'for the chunking model, exact series/Donnell oracle vs Panel.uvw/strain/stress incl. 1..16 threads and assembly slices. '
        'One defect repaired (Panel.stress ignored NLterms), one recorded (non-linear strain terms). Panel.stress: hand model (Model/Chunking.lean) with stress_eq_F_strain (resultants = laminate matrix x the strains of the SAME NLterms option), stress_nlterms_forwarded, stress_requires_laminate, stress_linear_eq_F_donnell on the regenerated strain kernel. '
        'Python glue of Panel.uvw/strain/stress and PanelAssembly.uvw/strain/stress (points from xs, ys or gridx, gridy; group filter, c[col_start:col_end], running sums of __init__; reshape, stored attributes, exceptions): hand model Model/FieldGlue.lean with field_pointwise, points_sublist, points_permutation_equivariant, grid_is_meshgrid_of_linspace, assembly_slices_partition, assembly_group_uses_own_slice, assembly_strain_stress_forward_options, field_query_errors; tied by the recorded-call correspondence field_glue_correspondence (driver ops pfield / afield / ainit, line-coverage gate on the ten modelled functions).',
   note='As C02; the def-level wrappers of the two field modules (pad / reshape / prange / ravel / trim, argument plumbing) are additionally read from the '
        'source text and executed (tools/cyexec.py) against the binary on every run; OpenMP scheduling/races outside the model (bit-identical outputs across core counts required as supporting evidence); '
        'stress = F*strain checked numerically; conical panels rejected by fstrain.',
   technique='Lean 4 proof over regenerated model + hand model (chunking) + oracle', ref='4/C11'),
 'C12': dict(
   text='Lean models of all 15 penalty-connection block kernels (5 kinds x 11/12/22) REGENERATED from kC*.pyx each run; 15 theorems: '
        'each block entry equals the second derivative of kt/2 Int|jump u|^2 + kr/2 Int(jump rotation)^2 for that kind (jump operator '
        'tables in Spec/Interface.lean: edge-to-edge along x or y, base-to-perpendicular-flange along x or y with the axis swap, '
        'face-to-face with thickness offset) for all indices, flags, geometries, positions; conn_psd_*: the symmetric completion [[k11,k12],[k12^T,k22]] '
        'is positive semi-definite for kt, kr >= 0 over the reals (any finite family of dofs of the two panels). V: IR of every block vs the running kernels; '
        'implementation arm: mismatch-energy oracle vs PanelAssembly.get_k0_conn for both panel orders, symmetry, PSD; calc_kt_kr '
        'symmetric/linear; calc_kt_kr itself has a hand model (Model/PenaltyConstants.lean) with theorems kt_kr_symmetric_* / kt_kr_corner_swap / '
        'kt_kr_linear_in_moduli / kt_kr_positive and a driver correspondence against penalty_constants.py; model arm of the search: translated block kernels placed and mirrored like get_k0_conn vs the oracle (source as written). A genuine defect (coupling block dropped when p1 follows p2) was repaired. Assembled matrix: Model/ConnLoop.lean models the loop nests of the 15 kernels (tied to what the translator reads by nest_tie); get_k0_conn_psd(_ssy/_ssx/_bfy/_bfx/_sb/_all): the finalized matrix get_k0_conn places (either order of the two panels, any number of connections) is positive semi-definite.',
   note='As C02; interface length/footprint shared by both panels (as the kernels assume); get_k0_conn glue checked by oracle on '
        'explored assemblies; kCLTxycte has no kernel module in the tree.',
   technique='Lean 4 proof over regenerated model + translation validation + energy oracle', ref='4/C12'),
 'C14': dict(
   text='17 theorems between the REGENERATED kernel models: conical entries at sin(alpha)=0, cos(alpha)=1 equal the cylindrical '
        'entries section by section (k0, kG0, kM) and are additive in the x-integrals (so equal-radius sections telescope); '
        'cylindrical = plate + X/r + Y/r^2 exactly (kG0, kM identical); w-only model = w-block of the full plate (k0, kG0, kA, cA); '
        'exchange of x and y gives permutation-congruent k0, kG0, kM; geometric similarity scales k0 by e*s, kG0 by 1, kM by q*s^3. '
        'Implementation arm: each pair of descriptions run through the public API (matrices entry-wise - the axis exchange as the explicit permutation '
        'of the amplitudes - and eigenvalues via LAPACK; with and without the force_orthotropic_laminate option, reference surface offsets of several '
        'thicknesses, mass / aerodynamic matrices of the w-only model), incl. numerically integrated vs analytic matrices at the undeformed state; '
        'model arm of the search: translated conical kernels at zero angle vs translated cylindrical kernels (source as written).',
   note='As C02; eigenvalue statements follow from the matrix congruences (not formalised as spectra); the numeric-vs-analytic kernel '
        'pair at the undeformed state is a theorem of C08 (kL_at_zero_eq_k0_*) at one integration point, summed by the exactness of the rule (C10); '
        'and now for the whole tensor Gauss rule (num_at_zero_eq_analytic_*: exact identity at the quadrature integrals for ANY laminate table; _tabulated: '
        'tolerance to the real integrals for every tabulated rule with nx >= max(m,4), ny >= max(n,4)); also compared on the implementation, with the '
        'force_orthotropic_laminate option.',
   technique='Lean 4 proof over regenerated models + pairwise implementation comparison', ref='4/C14'),
 'C15': dict(
   text='Decided by proof in its monotonicity half, now WITHOUT assumed mathematics: the dof map is injective and embeds the (m,n) amplitudes into every larger (m\',n\') '
        'model; the REGENERATED entry functions have no m, n argument, so the finalized (m,n) matrices are principal sub-matrices of the larger ones '
        '(nested_principal_submatrix, on the whole-matrix model of C02-C04); COURANT-FISCHER is proved (Spec/CourantFischer.lean: the ascending eigenvalues of a real '
        'symmetric matrix are the min-max values of the Rayleigh quotient; the same for pencils K v = lambda M v with M positive definite through a whitening congruence, '
        'and for buckling pencils (K + lambda KG) v = 0 with K positive definite and KG indefinite; the lists are exactly the spectra) and with it one-sided Cauchy '
        'interlacing for principal sub-matrices / sub-pencils: ritz_eigenvalues_monotone, ritz_frequencies_monotone, ritz_buckling_monotone (k-th smallest frequency / '
        'positive multiplier of the larger model <= that of the smaller), instantiated on EVERY regenerated analytic panel kernel ({plate,cpanel,platew,kpanel}_{frequencies,buckling}_monotone and their _strip_ forms for the sub-interval kernels; conical panel for any number of sections); '
        'the older min-max monotonicity theorems (minmax_monotone, minmax_chain) stay. The closed-form clause (never below / converging to the double-sine buckling loads '
        'and frequencies) is a statement about the continuum problem and is NOT decided by proof: it is evaluated numerically on the implementation THROUGH the package\'s analyses '
        '(Panel.lb / Panel.freq / analysis.lb / analysis.freq, sparse and dense, three unit systems, sweeps on one object, very thin panels with rich bases).',
   note='PARTIAL: the closed-form / convergence clause is exploration-level (see DESIGN.md section 6); positive definiteness of the larger model\'s mass / stiffness matrix is a '
        'hypothesis of the monotonicity theorems (the property\'s own premise); the instantiation on regenerated kernels covers single panels at row0 = 0 (no assemblies); that LAPACK / ARPACK return the '
        'lowest eigenvalues in order is the numerical contract of C05 / C06.',
   technique='Lean 4 proof (Courant-Fischer, interlacing, index embedding) over regenerated model + numeric evaluation of the continuum clause through the package\'s analyses', ref='4/C15'),
 'C19': dict(
   text='Regenerated Lean models of fkAx/fkAy/fcA (plate, plate_w, cpanel); 14 theorems: each entry equals the by-parts form '
        '-beta*Int(dw_A/dflow w_B) - gamma*Int(w_A w_B) (gamma only in the cylindrical x-flow kernel) resp. -aeromu*Int(w_A w_B), on w only; '
        'under the vanishing-boundary-term hypothesis this IS the bilinear form of p = -beta dw/dflow + gamma w; linearity in the '
        'coefficients; hand model of the coefficient derivation with theorems beta = rho V^2/q, gamma = beta/(2rq), '
        'aeromu = rho V (M^2-2)/q^3 (q^2 = M^2-1). Ties: V for the kernels, driver correspondence for the coefficients actually '
        'handed to the kernels, full bilinear-form oracle vs calc_kA/calc_cA incl. symmetry classes, bay delegation. '
        'STIFFENED BAYS: StiffPanelBay.calc_kA and the aerodynamic loop of the packaged flutter assembly have a hand model (Model/BayAero.lean, on top of the panel glue model) '
        'with bay_calc_kA_delegates (the bay matrix is the skin panel\'s finalised matrix with the BAY\'s flow data at the bay\'s size), bay_calc_kA_zero_on_stiffeners, '
        'bay_calc_kA_eq_piston_form_cpanel, bay_calc_kA_coefficients, bay_calc_kA_errors (12 branches), flutter_assembly_kA(_blocks) and a curvature counter-example for the helper; '
        'tied by a recorded-call correspondence (tools/props/C19_bay.py, line-coverage gate). Three genuine '
        'defects repaired (fix: 3ef86b6, caa1207, 8334530), two listed (entry points that raise).',
   note='As C02; (Mach^2-1)**0.5 enters the coefficient model as a parameter; conical panels rejected by the code; flow along y has no '
        'curvature term in any kernel (stated).',
   technique='Lean 4 proof over regenerated model + hand model with driver correspondence + oracle', ref='4/C19'),
 'C05': dict(
   text='Hand-written Lean model of the glue of analysis.lb / Panel.lb (request made to the solver incl. the re-capped k, fallback after '
        'null-column removal, dense path, allocation with the delivered column count, scatter, lambda = -1/mu) with eigsh/eigh as PARAMETERS '
        'with a recorded contract; theorems for all sizes and requests: every returned (lambda, v) satisfies the full-size equation with '
        'zeros on removed amplitudes, removed amplitudes = null columns, totality of all three paths (no shape error), requests within '
        'ARPACK\'s range, mu ascending negative => lambda ascending positive, Cayley selection of the smallest positive multipliers for a '
        'sub-critical load, uniqueness of the ascending lowest-k list (sparse = dense at contract level), scaling law. Tie: raw solver outputs '
        'recorded by monkey-patching and fed to the model through the driver; residual/order/agreement/scaling predicates on the implementation; '
        'solver contract validated per sample. Two genuine defects repaired (shape mismatch, k not re-capped). '
        'ConeCyl.lb, the third copy of the glue, has its own model (Model/ConeLb.lean: sliced matrices, uncapped request, a third attempt in buckling '
        'mode, zero rows for the prescribed amplitudes, pencil per combined_load_case) with theorem cone_lb_pairs (it reduces to lb + row stacking) '
        'and is tied by the same recorded-solver correspondence on small shells of 9 models, all combined load cases, cylinders and cones.',
   note='Trusted: Lean kernel, Mathlib, hand model (tied on explored cases), ARPACK/LAPACK accuracy as recorded contract (validated per sample), '
        'rounding not modelled.',
   technique='Lean 4 proof over hand model with solver as parameter + driver correspondence + predicates', ref='4/C05'),
 'C06': dict(
   text='Same for analysis.freq / Panel.freq: eigs/eig as parameters; exact model of the sort (stable lexsort on round-half-even keys, drop '
        're <= 1e-6), of the dense null-mass removal and of the reduced_dof take/re-expand; theorems: returned pairs satisfy K v = w^2 M v with '
        'zeros on removed amplitudes, sort is a permutation ascending in the ROUNDED key, ascending in the true value when keys are > 0.1 apart '
        '(partial) with a kernel-checked counter-example [3, 7, 10.04, 10.01, 15, 20] (known finding), totality of the sparse path after the '
        'repair, reduced_dof re-expansion is a right inverse but its dense branch always ends in a shape error (known finding), mass scaling law.',
   note='As C05. Known findings: C06-sort-by-rounded-key, C06-reduced-dof-shape-mismatch (recorded, not repaired: would reorder existing results / '
        'intended semantics unknown).',
   technique='Lean 4 proof over hand model with solver as parameter + driver correspondence + predicates', ref='4/C06'),
 'C07': dict(
   text='Hand models of Panel.calc_fext / PanelAssembly.calc_fext (placement at col0 in any size, constant forces unscaled, '
        'incrementable x inc) and of sparse.solve (null-column removal, solver as parameter, scatter); theorems for ALL force lists, '
        'load factors, placements and amplitude vectors: fext.c = sum of force x displacement of the series at the force position '
        '(panels and assemblies), solve_sound (reduced solution scattered satisfies every active row, zero elsewhere), linearity; the '
        'shape rows are those of the REGENERATED kernel cfg, proved to be the amplitude-derivative of the series cfuvw evaluates. Ties: '
        'driver correspondence (rows recorded from fg, spsolve answer recorded), virtual-work predicate against the package\'s own uvw for '
        'panels, assemblies and bays, residual and linearity of the static solution. BAY AND DRIVER: StiffPanelBay.calc_fext (as written: no load factor), the col_start loop of PanelAssembly and the linear Analysis.static / static() '
        'are in the model (Model/BayLoads.lean) with bay_fext_dot_c_eq_work, bay_fext_offsets, bay_fext_additive, bay_fext_no_load_factor, assembly_fext_incremental_only, static_linear_solves, '
        'static_linear_in_loads, static_increments; tied by recorded-call correspondences (fg rows, offsets vs the col0 of bay.calc_k0, the reduced system handed to spsolve). '
        'Two defects repaired (w-only model, bay skin forces), one listed (incrementable forces of stiffener parts ignored by the bay).',
   note='Trusted: Lean kernel, Mathlib, hand model (tied on explored cases), SuperLU as recorded parameter, translator for cfg, '
        'rounding not modelled; the solver contract (SolvesReduced) is a hypothesis of the static theorems, validated per sample.',
   technique='Lean 4 proof over hand model + regenerated kernel model, driver correspondence, virtual-work oracle', ref='4/C07'),
 'C08': dict(
   text='Pointwise content (one Gauss point) of fkL_num, fkG_num and calc_fint of the flat and cylindrical models REGENERATED from *_num.pyx '
        'each run; theorems for every state, laminate, geometry and point values: resultants = F x strains, the quadratic strain terms are '
        'Donnell\'s 1/2 w,x^2 etc. of the whole series, the internal-force integrand is resultants . strain variation (energy gradient), '
        'kL = Hessian form with the non-linear strain-variation operator, kG = pre-stress Hessian with the resultants of the point (C03 state '
        'based), kL at the undeformed state = the ANALYTIC kernel read on point values (C14 numeric = analytic), fint(0) = 0, and the flagship: '
        'for all 9 field pairs x 2 models, fint after adding t x dof B equals fint + t (kL + kG)_AB + t^2 R2 + t^3 R3 identically in t '
        '(ring identity on the regenerated terms), hence HasDerivAt over the reals: the tangent IS the Jacobian of the internal force - at one '
        'point and, by a list-sum derivative lemma, for the WHOLE quadrature sum over any list of integration points (each with its own basis '
        'values, weight, laminate and state); the tangent integrand kL + kG is symmetric at every state (transposed position = same value). '
        'V: pieces driven through Gauss-Legendre vs the running kernels; implementation arm: symmetry, fint(0)=0, kT(0)=k0, kT.dc vs the exact '
        '5-point derivative of the cubic fint, assemblies with connections. One defect repaired (assembly calc_fint raised). ASSEMBLY LEVEL (Spec/AssemblyJacobian.lean on the existing Model/Assembly.lean): assembly_tangent_is_jacobian - for any panels, connection list, state and direction, if each panel tangent is the derivative of its internal force on its own slice then placed tangents + finalized connection matrix is the derivative of placed forces + K_conn c (HasDerivAt), instantiated with the panel Gauss-sum theorems (assembly_tangent_is_jacobian_gauss); assembly_tangent_symm (no hypothesis), assembly_fint_zero, assembly_fint_linear_part. '
        'SINGLE-PANEL GLUE: Panel.calc_kT and Panel.calc_fint have a hand model (Model/PanelGlue.lean: calcKT, calcFint) with calc_kT_dispatch, calc_fint_dispatch, calc_fint_rejects, calc_kT_fint_consistent (both calls hand their kernels the same c, laminate table, quadrature orders and constant pre-loads), calc_fint_zero_state and panel_tangent_is_jacobian_glue and its instances _plate / _cpanel (kernel hypothesis discharged by kT_is_derivative_gauss_sum_* for kernels that are the Gauss sums of the regenerated integrands); tied by the recorded-kernel-call correspondence of the C02 driver (op `glue fint`).',
   note='As C02; Gauss loops / laminate-table switch / COO book-keeping checked as schema + numerically (V), not proved; exactness of the rule is C10; '
        'that the running loop accumulates exactly the modelled per-point terms is the V tie.',
   technique='Lean 4 proof (ring identities, HasDerivAt) over regenerated model + translation validation + exact finite-difference oracle', ref='4/C08'),
 'C09': dict(
   text='Lean 4 theorems about a hand-written executable state-machine model of _solver_NR (all residual and '
        'line-search histories, all admissible configurations): every reported pair is immediately preceded by a '
        'residual evaluation of exactly that state and load factor below absTOL at iteration >= 2; reported factors strictly '
        'increasing in (0,1]; snapshots append-only; termination with a configuration-only bound (over R); the true '
        'end condition (within 1e-3 of 1, or increment below minInc) with a kernel-checked counter-example to "last factor '
        '= 1" (known finding). Tie: exact event-trace correspondence (callable invocations, tangent ids, load factors, '
        'state identities, reports) between the model and the real solver driven by scripted callables.',
   note='Trusted: Lean kernel, Mathlib, the hand model (tied by trace correspondence on explored scripts), decimal '
        'constants modelled exactly (binary rounding outside; margin-based discard), max_iter_line_search>=1, absTOL>0, '
        'non-zero line-search denominators. Arc-length solver not covered.',
   technique='Lean 4 proof (induction over histories, fuel bound) + event-trace correspondence', ref='4/C09'),
 'C13': dict(
   text='Hand-written Lean model (Model/Assembly.lean) of the index book-keeping of PanelAssembly (__init__ ranges, get_size, calc_k0/kG0/kM/kT/'
        'fint/fext loops with row0=p.row_start, get_k0_conn block placement, make_symmetric) and of StiffPanelBay (get_size, running row0/col0 '
        'of 2-D stiffeners, 1-D stiffeners at 0, base/flange/connection blocks of the three stiffener classes, calc_fext) with every kernel a '
        'PARAMETER; 26 theorems for ALL lists of panels/stiffeners, series orders and component matrices: ranges tile [0,size), size = sum '
        'of component sizes, global matrix = mirrored upper triangle of the sum of the stand-alone matrices placed at their range starts '
        '(+ connection blocks; coupling block always in the upper triangle), block-diagonal without connections, force vectors = '
        'concatenation, fint = concatenation + k_conn c, bay offsets = range starts for any numbers/orders of the three stiffener kinds, '
        'bay matrices symmetric, skin_split_invariant (given additivity of the skin kernels over adjacent y-intervals, which C10/C14 supply '
        'for J), adding a stiffener adds exactly its placed blocks, stiffener contribution symmetric. Tie: every component call made by a '
        'global method is recorded (kernel, row0, col0, matrix), un-shifted, sent as exact rationals to the Lean driver which re-places it '
        'with the MODEL offsets; call sequence compared exactly, matrices to 1e-9. Implementation arm: stand-alone sum oracle, skin cut '
        'elsewhere gives the same k0/kG0/kM, (bay with stiffener) - (bay without) symmetric PSD. Six defects repaired, three recorded. '
        'STIFFENER KERNELS: the nine kernels of compmech/stiffener/models/*.pyx are REGENERATED into Gen/Stiff/* on every run (tools/translate/gen_stiff.py) '
        'and 23 further theorems characterise them: 2-D blade skin-flange (fkCss/fkCsf/fkCff) and T-stiffener skin-base over the strip (fkCppy1y2/fkCpby1y2/'
        'fkCbbpby1y2, incl. the mapped-argument integrals and c1 = (y2-y1)/b) = Hessian of kt/2 int |jump(u,v,w)|^2 + kr/2 int jump(rotation)^2 with the jump '
        'tables of Spec/StiffInterface.lean, symmetric and positive semi-definite over R for kt, kr >= 0; 1-D blade flange: fk0f = Hessian of the beam energy '
        '1/2 int bf [E1 (u,x + df w,xx)^2 + F1 w,xx^2 + Jxx w,xy^2 - 2 S1 (u,x + df w,xx) w,xy], fkG0f = Hessian of 1/2 int Fx w,x^2, fkMf = Hessian of the kinetic '
        'form AS ENCODED (coupling 2 df), all symmetric; fk0f PSD iff the beam law handed over is, fkG0f PSD for Fx >= 0, fkMf only under (2 df)^2 <= I '
        '(blade1d_kMf_psd_partial) which the caller\'s geometry never meets (blade1d_mass_weight_encoded_not_psd) - kernel-checked counter-example with real '
        'integrals of concrete polynomials (blade1d_kMf_not_psd_counterexample). V: the translated IR interpreted numerically against the running kernels; '
        'the same files executed from their text (source reading); the energies of the theorems against the running kernels and, in the search, against the source as written.',
   note='Trusted: Lean kernel, Mathlib, hand model (tied on explored cases), translator gen_stiff.py + pyx.py (validated by V and doubled by the source reading each run), '
        'operator tables Spec/StiffInterface.lean; the abstract integral symbols are tied to the C tables by C10 (for the mapped family: map_*_integral) in words only; '
        'kernel placement at (row0,col0), the loop nest of the stiffener kernels and PSD of a whole finalised stiffener contribution are '
        'checked numerically (PSD is proved for the per-pair kernel values); 1-D blade flange: beam energy of its kernel as is (two known findings: mass coupling doubled, twist '
        'stiffness without modulus - .pyx / modelling defects, not repairable here).',
   technique='Lean 4 proof over hand model (kernels as parameters) + recorded-component driver correspondence + stand-alone-sum oracle; stiffener kernels: '
             'proof over model regenerated from source + translation validation + source reading + energy oracle', ref='4/C13'),
 'C18': dict(
   text='Hand-written Lean model (Model/ConeCylGlue.lean) of ConeCyl._rebuild (geometry from any subset of r1,r2,H,L with Python truthiness; '
        'Nxxtop from Fc/MLA/xiLA; prescribed amplitudes), exclude_dofs_matrix (index shifting of both loops, the three dense blocks), '
        'calc_full_c (both branches), calc_fext (point forces through recorded fg rows, axial edge load, pressure closed form, torque, '
        'prescribed-displacement columns of k0uk incl. the load-asymmetry amplitude) and linear static; 31 theorems for ALL inputs: derived '
        'geometry consistent and identical across admissible subsets, Nxxtop[0] in axial equilibrium with Fc, the four blocks are the '
        'documented partition for every COO list (duplicates) and every prescribed set, exclude/insert are inverse, fext = const + inc x '
        'incremental (affine, additive, homogeneous in the loads), point-force virtual work, the pressure closed form IS the surface '
        'integral over the cone (Mathlib interval integrals), static_rhs: with an exact solver every free row of the FULL system K c = f '
        'holds with all prescribed terms on the right-hand side. Tie: line-protocol correspondence on generated shells (16 models, every '
        'load kind, every subset), line coverage of the modelled functions gated; implementation arm: virtual work of every load against '
        'the package\'s own uvw by quadrature, residual of the full system. Two defects repaired (kkk block, load-asymmetry term), three '
        'recorded (torque as one point force, Nxxtop harmonics dropped for *_bcn, null rows that carry load).',
   note='Source reading: the shell field / strain / imperfection sources (9 commons files + mgi.pyx) are executed from their text (tools/cyexec.py) and compared with the compiled modules each run; on a disagreement fg . c = fuvw is evaluated on the source. ' + 
        'Trusted: Lean kernel, Mathlib, hand model (tied on explored cases), fg rows / k0 / sin, cos, pi / solver are parameters taken from the '
        'running code; rounding not modelled (1e-9). Non-linear static belongs to C09/C17.',
   technique='Lean 4 proof over hand model + real-analysis theorem for the pressure load + driver correspondence + virtual-work oracle', ref='4/C18'),
 'C20': dict(
   text='Hand-written Lean life-cycle state machines (Model/Lifecycle.lean) of Panel, PanelAssembly, StiffPanelBay and ConeCyl: the lazily '
        'derived hidden attributes as provenance tokens, and for every public call what it reads, writes, raises and returns as a function '
        'of (definition, hidden state; for PanelAssembly also the conn= / finalize= arguments of the call); 32 theorems over ALL finite call sequences: the invariant "every hidden attribute is unset or '
        'canonical" is preserved by every step, hence the result of a successful call is the canonical function of the definition '
        '(history independence, repeat = same result) - proved for the scope in which it is true (partial: zero laminate offset or no '
        'calc_kt_kr; cone with Fc given or already rebuilt), with kernel-checked counter-examples outside it (kt_kr order dependence, '
        'explicit size, bay assertion order, cone lb default load) and an exact characterisation of which calls can be '
        'first on a fresh object (all known findings); the connection-matrix cache of PanelAssembly was REPAIRED (fix: ad68101) and its counter-example replaced by asm_conn_matches_request / asm_cache_own_finalized / asm_result_is_canonical. Tie: random call sequences on recording proxies - outcome class, ordered write '
        'footprint and hidden-read footprint compared per call with the model; property evaluated on the implementation bit for bit '
        'against fresh-object references; caller arrays checksummed; 1..16 threads for uvw/strain/stress and integratev.',
   note='Trusted: Lean kernel, hand model (tied on explored sequences), numbers not modelled (provenance tokens), OpenMP scheduling / races '
        'outside the model (thread clauses by execution + C11 chunking theorem), ARPACK start vectors random (1e-8). 7 known findings.',
   technique='Lean 4 proof (invariant over op sequences) over hand life-cycle model + call-sequence footprint correspondence', ref='4/C20'),
 'C16': dict(
   text='The Lean model of every entry statement of fk0, fk0_cyl, fk0edges, fkG0, fkG0_cyl of all 17 complete-shell linear modules (3900 entries; '
        'closed-form trigonometric integrals over a meridian section) is REGENERATED from the .pyx source on every run: local names are resolved '
        'through their definitions to a fixed vocabulary of canonical trigonometric atoms, laminate entries, geometry, loads and indices. '
        'Regenerated, kernel-checked theorems: (T1) every geometric-stiffness entry of every model is linear in (Fc, P, T), hence the combined-load '
        'split adds up; (T3) at every entry position where it is true (3 250 of 3 515) the cone kernel at sin(alpha)=0, cos(alpha)=1 over the '
        'section [0, L] equals the dedicated cylinder kernel (all CLPT Donnell/Sanders and FSDT Donnell bc1-4 models completely); (T2) the '
        'isotropic short-cut kernels equal the general kernels on the isotropic laminate (positions needing trigonometric identities are proved '
        'for ALL half-angle parameters, no sin^2+cos^2 hypothesis); real-analysis lemmas justify the atom values at the section ends and the '
        'half-angle parametrisation; make_symmetric gives symmetric k0/kG0; sections telescope. Model arm: every position is also evaluated in '
        'exact rational arithmetic (a false position is reported with its witness); whole interpreted matrices cone(alpha=0, s sections) vs '
        'cylinder catch loop-nest defects. V: interpreted IR vs the 16 running binaries (bit-exact). Implementation arm: symmetry, PSD, '
        'k0 = Hessian of the strain energy of the package\'s own strain field + edge restraints (classical Donnell bc1/3/4), compiled cone '
        'kernels at alpha=0 vs cylinder kernels, isotropic vs general, linearity and split of kG0 through the public API. Four genuine kernel '
        'defects recorded (stale column in the clpt_donnell_bc2 cone loop, stale index in the isotropic k0_01 block, fsdt_donnell_bcn and '
        'fsdt_sanders_bcn cone vs cylinder kernels).',
   note='Source reading (tools/cyexec.py): the strain / stress field sources the energy oracle is built from and two complete linear kernels are executed from their text against the binary each run. ' + 
        'PARTIAL: energy consistency and positive semi-definiteness are decided on the implementation only (not theorems); equality of cone and '
        'cylinder kernels is proved for the single section [0, L] (telescoping of s sections is proved as a list lemma, the per-entry primitive form '
        'is evaluated numerically on whole matrices); 67 isotropic positions are covered by exact rational evaluation only '
        '(tools/translate/conecyl_unproved.json). Trusted: Lean kernel, Mathlib, translator (validated by V each run), CCSpec.lean and its Python mirrors, '
        'Cython build not verified, rounding not modelled.',
   technique='Lean 4 proof over model regenerated from source (translator) + exact rational evaluation + translation validation + energy oracle', ref='4/C16'),
 'C17': dict(
   text='Hand-written Lean model (Model/ShellNL.lean) of the non-linear glue of ConeCyl (_calc_NL_matrices: kT = k0 + k0L + k0L^T + kLL + kG with '
        'make_symmetric and the with_k0L / with_kLL flags; calc_kT / calc_fint evaluated at calc_full_c(c, inc); fint = kernel part + k0 c) and of '
        'integratev (point list cut into num_cores chunks of npts/num_cores points, remainder into slot 0, rows summed; integrands of the '
        'accumulate form out = beta*out + alpha*g). 10 theorems: integratev returns the plain quadrature sum for EVERY grid, integrand and '
        'num_cores >= 1, for the trapezoid and the Simpson point sets (whose betas are proved to be 1) - thread-count independence in exact '
        'arithmetic; kT symmetric for all kernel outputs and flag settings; kT = kL + kG; glue-level Jacobian: if the kernel part of the internal '
        'force expands with J = k0L + k0L^T + kLL + kG then fint expands with the assembled kT identically in the step t; fint(0) = 0; '
        'fint - k0 c = kernel part; tangent and internal force are evaluated at the same state calc_full_c(c, inc). Tie: the four compiled '
        'kernel entry points are wrapped to record the vector they receive and what they return; compared with the model (calc_full_c through '
        'the Lean driver, kTuu and fint re-assembled from the recorded outputs). Implementation arm over all 12 non-linear-capable models, '
        'cylinders and cones, both rules, with/without imperfection, prescribed amplitudes with inc != 1: symmetry, fint(0) = 0, kT d = exact '
        '(quartic-exact 5-point) derivative of fint, quadratic vanishing of fint - k0 c, identical results for 1..8 threads. Four models whose '
        'compiled integrands violate the Jacobian relation on the unchanged tree are recorded as known findings. '
        'STAGE 2 (the kernels themselves): the pointwise content of cfk0L / cfkLL / cfkG / cffint and of the commons functions that feed them is REGENERATED '
        'from the ten CLPT *_nonlinear.pyx sources on every run (Gen/ConeCylNL); the Jacobian expansion is proved once abstractly from nine structural identities '
        '(resultants = laminate x strains, fint = r(B0^T N_L + B_L^T (N0+N_L)), k0L = r B0^T F B_L, kLL = r B_L^T F B_L, kG = r N d2eps_L, increments affine and '
        'reciprocal) that are ~900 kernel-checked ring / field_simp cases per model on the regenerated terms, lifted to the quadrature and to the matrices '
        '_calc_NL_matrices forms for ANY m1, m2, n2: shell_tangent_is_jacobian_<model> discharges the hypothesis of the glue theorem for clpt_donnell_bc1..4 and '
        'iso_clpt_donnell_bc2/3; for the Sanders family the theorems are ..._partial with kernel-checked ..._counterexample (row of amplitude 2 in cfk0L; bc2: k0L '
        'skips row > col although it enters as k0L + k0L^T; bc3: cfstrain_sanders lacks a gamma term) - which explains two of the recorded findings at source level; '
        'fsdt_donnell_bc1 / bcn: translated, validated, refuted by kernel evaluation. V: the IR interpreted at the integration points vs the compiled modules (1e-15).',
   note='PARTIAL: positive statements for the FSDT kernels are missing (refutations only); that every COO position receives exactly one triplet is checked by the '
        'translator and by V, not a theorem; OpenMP scheduling / -ffast-math / rounding outside the model. Trusted: Lean kernel, Mathlib, the translators '
        'gen_conecyl_nl.py / gen_shell_jacobian.py (which identities are CLAIMED is decided by an untrusted exact pre-evaluation; Lean checks every emitted lemma), '
        'hand model of the glue (tied on explored cases).',
   technique='Lean 4 proof over models regenerated from source (non-linear shell kernels) + hand model of the glue + translation validation + exact finite-difference oracle', ref='4/C17'),
}

NA_REASON = {
 'C17': 'glue-level predicates are evaluated inside the C18 check (evidence key c17_glue); a proof-level check of its own is not built yet - see DESIGN.md section 4/C17',
}

def main():
    checks = []
    for pid in ALL:
        if pid not in CLAIMED:
            continue
        c = CLAIMED[pid]
        checks.append(dict(
            property_id=pid,
            quick_cmd='./check %s --tier quick' % pid,
            thorough_cmd='./check %s --tier thorough' % pid,
            evidence_file='evidence/%s.json' % pid,
            replay_cmd_template='./check %s --replay {path}' % pid,
            engine='lean4',
            level_claimed=dict(category='proof', text=c['text'], design_ref='DESIGN.md section ' + c['ref']),
            level_note=c['note'],
            technique=c['technique']))
    na = [dict(property_id=p, reason=NA_REASON.get(p, 'not yet built in this framework (work in progress; see DESIGN.md section 4)'))
          for p in ALL if p not in CLAIMED]
    m = dict(
        version=1,
        setup_cmd='mkdir -p .scratch replays evidence && /venv/bin/python -m tools.translate.gen_all && cd lean && lake build',
        hooks=dict(guard='COMPMECH_VERIF', enable='no source hooks are needed: callables/solvers are reached through module attributes and sys.settrace from the harness process',
                   baseline_off_cmd='cd /repo && /venv/bin/python -m pytest -ra -q -p no:cacheprovider --timeout=900 --continue-on-collection-errors',
                   source_commits=[], add_only=True),
        engines=[dict(name='lean4', path='lean', serves_properties=sorted(CLAIMED),
                      kind_free_text='Lean 4.33 + Mathlib: models (hand-written or regenerated from source), property theorems in lean/CompmechVerif/Props, audited axioms; Python harness tools/ for translators and correspondence')],
        checks=checks,
        notes='See DESIGN.md. Known genuine defects recorded in known_findings.json.',
        not_applicable=na)
    json.dump(m, open(os.path.join(V, 'MANIFEST.json'), 'w'), indent=1)
    # root of the Lean library: everything that exists
    mods = []
    for sub in ('Props', 'Drv'):
        d = os.path.join(V, 'lean', 'CompmechVerif', sub)
        for fn in sorted(os.listdir(d)):
            if fn.endswith('.lean') and (sub != 'Props' or fn[:-5] in CLAIMED):
                mods.append('import CompmechVerif.%s.%s' % (sub, fn[:-5]))
    open(os.path.join(V, 'lean', 'CompmechVerif.lean'), 'w').write(
        '-- Root of the `CompmechVerif` library (generated by tools/gen_manifest.py)\n' + '\n'.join(mods) + '\n')

if __name__ == '__main__':
    main()
