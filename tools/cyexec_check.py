"""Validation of tools/cyexec.py: the hand-written Cython sources, executed as text, against the COMPILED modules of the repository.

    /venv/bin/python tools/cyexec_check.py              one line per function compared; exit status 1 on any disagreement
    /venv/bin/python tools/cyexec_check.py --selftest   sensitivity: seeded edits of scratch copies of the sources must be seen,
                                                        unsupported constructs must raise cyexec.Unsupported

A "disagreement" is a relative difference > 1e-12 (max |source - binary| / max(|source|, |binary|) per output array), a different shape, or a
different exception class.  Deterministic (fixed seeds); scratch files under <framework>/.scratch only.
"""
import atexit
import ctypes
import os
import shutil
import subprocess
import sys
import time
import warnings

sys.dont_write_bytecode = True                       # importing the package under /repo must not write there
HERE = os.path.dirname(os.path.abspath(__file__))
ROOT = os.path.dirname(HERE)
if ROOT not in sys.path:
    sys.path.insert(0, ROOT)
REPO = os.environ.get('COMPMECH_REPO', '/repo')
if REPO not in sys.path:
    sys.path.insert(0, REPO)
SCRATCH = os.path.join(ROOT, '.scratch', 'cyexec_check')
TOL = 1e-12

import numpy as np                                   # noqa: E402

from tools import cyexec                             # noqa: E402


# ============================================================================================== comparison machinery
class Tally(object):
    def __init__(self, quiet=False):
        self.rows = []
        self.failed = []
        self.quiet = quiet

    def line(self, label, ncases, worst, ok, note=''):
        self.rows.append((label, ncases, worst, ok, note))
        if not ok:
            self.failed.append(label)
        if not self.quiet:
            print('%-62s cases %3d   max rel diff %9.3e   %s%s' % (label, ncases, worst, 'ok' if ok else 'DISAGREE',
                                                                   ('   [' + note + ']') if note else ''))
            sys.stdout.flush()


def run(f, args, kwargs=None):
    try:
        with warnings.catch_warnings():
            warnings.simplefilter('ignore')
            return 'ok', f(*args, **(kwargs or {}))
    except cyexec.Unsupported:
        raise
    except Exception as e:                         # the exception class is part of the behaviour that is compared
        return 'exc', type(e).__name__ + ': ' + str(e)[:90]


def flat(v):
    """outputs of a call as a list of float arrays"""
    if v is None:
        return []
    if isinstance(v, (tuple, list)):
        out = []
        for x in v:
            out += flat(x)
        return out
    return [np.array(np.asarray(v), dtype=float, copy=True)]


def reldiff(a, b):
    """max |a - b| / max(max |a|, max |b|) with nan == nan and inf == inf"""
    if a.shape != b.shape:
        return float('inf')
    if a.size == 0:
        return 0.0
    fin = np.isfinite(a) & np.isfinite(b)
    same_special = (np.isnan(a) & np.isnan(b)) | ((a == b) & ~fin)
    if not np.all(fin | same_special):
        return float('inf')
    if not fin.any():
        return 0.0
    scale = max(np.abs(b[fin]).max(), np.abs(a[fin]).max())
    if scale == 0.0:
        return 0.0
    return float(np.abs(a[fin] - b[fin]).max() / scale)


def compare(tally, label, fsrc, fbin, cases, inplace=()):
    """cases: list of (args, kwargs) builders results; every case is deep-copied for the two sides.
    inplace: positions of array arguments that the function writes into (compared after the call)"""
    worst, note, ok = 0.0, '', True
    excs = 0
    for icase, (args, kwargs) in enumerate(cases):
        a_s = [np.array(x, copy=True) if isinstance(x, np.ndarray) else x for x in args]
        a_b = [np.array(x, copy=True) if isinstance(x, np.ndarray) else x for x in args]
        ks, vs = run(fsrc, a_s, kwargs)
        kb, vb = run(fbin, a_b, kwargs)
        if ks != kb:
            ok, worst = False, float('inf')
            note = 'source %s, binary %s' % ((ks, str(vs)[:70]) if ks == 'exc' else ks, (kb, str(vb)[:70]) if kb == 'exc' else kb)
            break
        if ks == 'exc':
            excs += 1
            if vs.split(':')[0] != vb.split(':')[0]:
                ok, worst, note = False, float('inf'), 'source raises %s, binary raises %s' % (vs, vb)
                break
            note = 'both raise ' + vb.split(':')[0]
            continue
        outs_s = flat(vs) + [np.array(a_s[k], dtype=float) for k in inplace]
        outs_b = flat(vb) + [np.array(a_b[k], dtype=float) for k in inplace]
        if len(outs_s) != len(outs_b):
            ok, worst, note = False, float('inf'), 'different number of outputs'
            break
        for x, y in zip(outs_s, outs_b):
            d = reldiff(x, y)
            worst = max(worst, d)
        if worst > TOL:
            ok = False
            note = 'first disagreement at case %d' % (icase + 1)
            break
    if ok and excs and excs != len(cases):
        note = '%d of the cases raise the same exception on both sides' % excs
    tally.line(label, len(cases), worst, ok, note)
    return ok


# ============================================================================================== Bardell C functions (externs)
def bardell_externs():
    """calc_vec_f / calc_vec_fxi / calc_vec_fxixi of compmech/lib/src/bardell_functions.c, compiled with gcc and called through
    ctypes (as tools/props/C10.py does); fall-back: the exact polynomials of tools/bardell.py"""
    src = os.path.join(REPO, 'compmech', 'lib', 'src', 'bardell_functions.c')
    os.makedirs(SCRATCH, exist_ok=True)
    so = os.path.join(SCRATCH, 'libbardell_functions_%d.so' % os.getpid())
    try:
        p = subprocess.run(['gcc', '-O0', '-fPIC', '-shared', src, '-o', so, '-lm'], stdout=subprocess.PIPE,
                           stderr=subprocess.STDOUT, text=True)
        if p.returncode != 0:
            raise OSError(p.stdout[-500:])
        lib = ctypes.CDLL(so)
        atexit.register(lambda: os.path.exists(so) and os.remove(so))
        D = ctypes.c_double
        PD = ctypes.POINTER(D)
        ext = {}
        for nm in ('calc_vec_f', 'calc_vec_fxi', 'calc_vec_fxixi'):
            fn = getattr(lib, nm)
            fn.restype = None
            fn.argtypes = [PD, D, D, D, D, D]

            def wrap(f, xi, a, b, c, d, fn=fn, nm=nm):
                if not (isinstance(f, np.ndarray) and f.dtype == np.float64 and f.flags.c_contiguous and f.size >= 30):
                    raise cyexec.Unsupported('%s: the output buffer must be a contiguous double array of >= 30 entries' % nm)
                fn(f.ctypes.data_as(PD), xi, a, b, c, d)
            ext[nm] = wrap
        for nm, key in (('calc_f', 'calc_f'), ('calc_fxi', 'calc_fxi'), ('calc_fxixi', 'calc_fxixi')):
            fn = getattr(lib, nm)
            fn.restype = D
            fn.argtypes = [ctypes.c_int, D, D, D, D, D]
            ext[key] = fn
        return ext, 'gcc -O0 + ctypes (%s)' % os.path.relpath(src, REPO), so
    except (OSError, AttributeError) as e:
        from tools import bardell

        def mk(d):
            def vec(f, xi, a, b, c, dd):
                for i in range(30):
                    f[i] = float(bardell.phi(d, i, (a, b, c, dd), xi))
            return vec
        return ({'calc_vec_f': mk(0), 'calc_vec_fxi': mk(1), 'calc_vec_fxixi': mk(2)},
                'tools/bardell.py (gcc not usable: %s)' % str(e)[:60], None)


# ============================================================================================== case builders
def rs(seed):
    return np.random.RandomState(seed)


def integrate_checks(tally, ns, mod, label='integrate'):
    r = rs(101)
    sizes = [(2, 2), (3, 5), (4, 10), (1, 1), (1, 6), (13, 4), (2, 9), (7, 8)] + [(int(r.randint(1, 15)), int(r.randint(1, 15)))
                                                                                  for _ in range(22)]
    cases = []
    for nx, ny in sizes:
        b = [float(r.uniform(-3, 0)), float(r.uniform(.1, 3)), float(r.uniform(-3, 0)), float(r.uniform(.1, 3))]
        cases.append(((b[0], b[1], nx, b[2], b[3], ny), {}))
    ok = compare(tally, label + '.trapz2d_points', ns['trapz2d_points'], mod.trapz2d_points, cases)
    ok &= compare(tally, label + '.simps2d_points', ns['simps2d_points'], mod.simps2d_points, cases)
    cases = [((n, np.zeros(n), np.zeros(n)), {}) for n in (1, 2, 3, 5, 9, 16, 31)]
    ok &= compare(tally, label + '.python_trapz_quad', ns['python_trapz_quad'], mod.python_trapz_quad, cases, inplace=(1, 2))
    return ok


def conecyl_cases(ns, seed, n):
    """realistic arguments of the conecyl commons (see conecyl.py: uvw / strain / stress and the fg calls)"""
    r = rs(seed)
    num0, num1, num2, e_num = ns['num0'], ns['num1'], ns['num2'], ns['e_num']
    out = []
    for k in range(n):
        m1, m2, n2 = int(r.randint(1, 5)), int(r.randint(1, 4)), int(r.randint(1, 4))
        alpharad = float(r.choice([0., r.uniform(0.05, 0.6)]))
        r2, L = float(r.uniform(100., 400.)), float(r.uniform(200., 600.))
        tLA = float(r.uniform(0., 3.))
        c = r.uniform(-1., 1., num0 + num1 * m1 + num2 * m2 * n2)
        npts = int(r.randint(1, 10))
        xs = r.uniform(0., L, npts)
        ts = r.uniform(0., 2 * np.pi, npts)
        funcnum = int(r.randint(1, 4))
        m0, n0 = int(r.randint(1, 4)), int(r.randint(1, 4))
        c0 = r.uniform(-.5, .5, (4 if funcnum == 3 else 2) * m0 * n0)
        ncores = int(r.randint(1, 5))
        F = r.uniform(-1e4, 1e4, (e_num, e_num))
        F = np.ascontiguousarray(F + F.T)
        out.append(dict(m1=m1, m2=m2, n2=n2, alpharad=alpharad, r2=r2, L=L, tLA=tLA, c=c, xs=xs, ts=ts, funcnum=funcnum, m0=m0,
                        n0=n0, c0=c0, ncores=ncores, F=F, sina=float(np.sin(alpharad)), cosa=float(np.cos(alpharad)),
                        size=c.size, x=float(xs[0]), t=float(ts[0])))
    return out


def conecyl_checks(tally, ns, mod, label, nl_values, seed, n=8):
    cs = conecyl_cases(ns, seed, n)
    ndisp = 3 if ns['num1'] == 3 else 5
    ok = compare(tally, label + '.fuvw', ns['fuvw'], mod.fuvw,
                 [((d['c'], d['m1'], d['m2'], d['n2'], d['alpharad'], d['r2'], d['L'], d['tLA'], d['xs'], d['ts'], d['ncores']), {})
                  for d in cs])
    ok &= compare(tally, label + '.fg', ns['fg'], mod.fg,
                  [((np.zeros((ndisp, d['size'])), d['m1'], d['m2'], d['n2'], d['r2'], d['x'], d['t'], d['L'], d['cosa'], d['tLA']), {})
                   for d in cs], inplace=(0,))
    for nl in nl_values:
        ok &= compare(tally, label + '.fstrain[NL_kinematics=%d]' % nl, ns['fstrain'], mod.fstrain,
                      [((d['c'], d['sina'], d['cosa'], d['tLA'], d['xs'], d['ts'], d['r2'], d['L'], d['m1'], d['m2'], d['n2'],
                         d['c0'], d['m0'], d['n0'], d['funcnum'], nl, d['ncores']), {}) for d in cs])
    for nl in nl_values:
        if 'fstress' not in ns or not hasattr(mod, 'fstress'):
            break
        if nl == 1 and 'cfstrain_sanders' not in ns:
            continue         # fsdt: cfN leaves the function pointer unassigned for NL_kinematics=1 (the binary would jump to garbage)
        ok &= compare(tally, label + '.fstress[NL_kinematics=%d]' % nl, ns['fstress'], mod.fstress,
                      [((d['c'], d['F'], d['sina'], d['cosa'], d['tLA'], d['xs'], d['ts'], d['r2'], d['L'], d['m1'], d['m2'],
                         d['n2'], d['c0'], d['m0'], d['n0'], d['funcnum'], nl, d['ncores']), {}) for d in cs])
    return ok


def mgi_checks(tally, ns, mod, label='conecyl.imperfections.mgi'):
    r = rs(303)
    cases_fa, cases_fw0 = [], []
    for funcnum in (1, 2, 3):
        m0, n0 = int(r.randint(1, 4)), int(r.randint(1, 4))
        npts = int(r.randint(3, 12))
        xs, ts = r.uniform(0., 1., npts), r.uniform(0., 2 * np.pi, npts)
        c0 = r.uniform(-1, 1, (4 if funcnum == 3 else 2) * m0 * n0)
        cases_fa.append(((m0, n0, xs, ts, funcnum), {}))
        cases_fw0.append(((m0, n0, c0, xs, ts, funcnum), {}))
    ok = compare(tally, label + '.fa', ns['fa'], mod.fa, cases_fa)
    ok &= compare(tally, label + '.fw0', ns['fw0'], mod.fw0, cases_fw0)
    return ok


class Panel(object):
    """stands for compmech.panel.Panel: the field routines only read attributes (fg checks the class NAME)"""
    pass


def panel_cases(seed, n, ndof):
    r = rs(seed)
    out = []
    for k in range(n):
        p = Panel()
        p.a, p.b = float(r.uniform(.5, 3.)), float(r.uniform(.5, 3.))
        p.r = float(r.choice([0., r.uniform(1., 10.)]))
        p.alpharad = 0.
        p.m, p.n = int(r.randint(1, 9)), int(r.randint(1, 9))
        for w in 'uvw':
            for e in ('1tx', '1rx', '2tx', '2rx', '1ty', '1ry', '2ty', '2ry'):
                setattr(p, w + e, float(r.randint(0, 2)))
        c = r.uniform(-1, 1, ndof * p.m * p.n)
        npts = int(r.randint(1, 9))
        xs, ys = r.uniform(0, p.a, npts), r.uniform(0, p.b, npts)
        out.append(dict(p=p, c=c, xs=xs, ys=ys, ncores=int(r.randint(1, 5)), x=float(xs[0]), y=float(ys[0])))
    return out


def panel_checks(tally, ns, mod, label, ndof, seed, n=8):
    cs = panel_cases(seed, n, ndof)
    ok = compare(tally, label + '.fuvw', ns['fuvw'], mod.fuvw, [((d['c'], d['p'], d['xs'], d['ys'], d['ncores']), {}) for d in cs])
    ok &= compare(tally, label + '.fg', ns['fg'], mod.fg,
                  [((np.zeros((ndof, d['c'].size)), d['x'], d['y'], d['p']), {}) for d in cs], inplace=(0,))
    if 'fstrain' in ns:
        for nl in (0, 1):
            ok &= compare(tally, label + '.fstrain[NLterms=%d]' % nl, ns['fstrain'], mod.fstrain,
                          [((d['c'], d['p'], d['xs'], d['ys'], d['ncores'], nl), {}) for d in cs])
        q = Panel()
        q.__dict__.update(cs[0]['p'].__dict__)
        q.alpharad = 0.1
        ok &= compare(tally, label + '.fstrain[alpharad != 0]', ns['fstrain'], mod.fstrain,
                      [((cs[0]['c'], q, cs[0]['xs'], cs[0]['ys'], 2, 0), {})])
    return ok


def kernel_checks(tally, ns, mod, label):
    r = rs(404)
    F = r.uniform(-1e3, 1e3, (6, 6))
    F = np.ascontiguousarray(F + F.T)
    dense = lambda f: (lambda *a: f(*a).toarray())                                                      # noqa: E731
    cases = [((float(al), 200., 500., F, m1, m2, n2, s), {}) for al, m1, m2, n2, s in ((0.3, 3, 2, 2, 2), (0., 2, 3, 2, 1))]
    ok = compare(tally, label + '.fk0', dense(ns['fk0']), dense(mod.fk0), cases)
    cases = [((200., 500., F, m1, m2, n2), {}) for m1, m2, n2 in ((3, 2, 2), (2, 3, 3))]
    ok &= compare(tally, label + '.fk0_cyl', dense(ns['fk0_cyl']), dense(mod.fk0_cyl), cases)
    nk = ns['fk0edges'].__code__.co_argcount - 6                      # number of edge stiffnesses differs between the models
    cases = [((m1, m2, n2, 150., 200., 500.) + tuple(1e3 * (k + 1) for k in range(nk)), {}) for m1, m2, n2 in ((3, 2, 2), (2, 3, 3))]
    ok &= compare(tally, label + '.fk0edges', dense(ns['fk0edges']), dense(mod.fk0edges), cases)
    return ok


# ============================================================================================== the validation run
CONECYL = [('conecyl/clpt/clpt_commons_bc%d.pyx' % k, 'compmech.conecyl.clpt.clpt_commons_bc%d' % k, (0, 1)) for k in (1, 2, 3, 4)] + \
          [('conecyl/fsdt/fsdt_commons_bc%s.pyx' % k, 'compmech.conecyl.fsdt.fsdt_commons_bc%s' % k, (0, 1)) for k in (1, 2, 3, 4, 'n')]


def source(rel):
    return os.path.join(REPO, 'compmech', rel)


def binary(name):
    import importlib
    import io
    import contextlib
    with contextlib.redirect_stdout(io.StringIO()):        # compmech prints warnings about modules that were never built
        return importlib.import_module(name)


def main():
    t0 = time.time()
    tally = Tally()
    unhandled = []
    ext, how, so = bardell_externs()

    def attempt(path, fn):
        try:
            fn()
        except cyexec.Unsupported as e:
            unhandled.append((path, str(e)))
            tally.line(path, 0, float('inf'), False, 'Unsupported: ' + str(e)[:140])

    attempt('integrate/integrate.pyx', lambda: integrate_checks(
        tally, cyexec.load(source('integrate/integrate.pyx'), repo=REPO), binary('compmech.integrate.integrate')))
    for k, (rel, modname, nls) in enumerate(CONECYL):
        label = rel.split('/', 1)[1][:-4]
        attempt(rel, lambda: conecyl_checks(tally, cyexec.load(source(rel), repo=REPO), binary(modname), label, nls, 1000 + k))
    attempt('conecyl/imperfections/mgi.pyx', lambda: mgi_checks(
        tally, cyexec.load(source('conecyl/imperfections/mgi.pyx'), repo=REPO), binary('compmech.conecyl.imperfections.mgi')))
    attempt('panel/models/clt_bardell_field.pyx', lambda: panel_checks(
        tally, cyexec.load(source('panel/models/clt_bardell_field.pyx'), repo=REPO, externs=ext),
        binary('compmech.panel.models.clt_bardell_field'), 'panel/models/clt_bardell_field', 3, 2001))
    attempt('panel/models/clt_bardell_field_w.pyx', lambda: panel_checks(
        tally, cyexec.load(source('panel/models/clt_bardell_field_w.pyx'), repo=REPO, externs=ext),
        binary('compmech.panel.models.clt_bardell_field_w'), 'panel/models/clt_bardell_field_w', 1, 2002))
    # beyond the requested list: two of the large conecyl kernels read by the same executor (C int ** C int, sparse assembly)
    for name in ('clpt_donnell_bc1_linear', 'clpt_sanders_bc2_linear'):
        rel = 'conecyl/clpt/%s.pyx' % name
        attempt(rel, lambda: kernel_checks(tally, cyexec.load(source(rel), repo=REPO), binary('compmech.conecyl.clpt.' + name),
                                           'clpt/' + name))
    if so:
        try:
            os.remove(so)
        except OSError:
            pass
    print('Bardell externs: %s' % how)
    print('%d functions compared, %d disagree, %d source files not handled, %.1f s'
          % (len(tally.rows), len(tally.failed), len(unhandled), time.time() - t0))
    for path, why in unhandled:
        print('NOT HANDLED %s: %s' % (path, why))
    return 1 if tally.failed else 0


# ============================================================================================== --selftest
def scratch_copy(rel, name):
    """copy a source file and the include files next to it into a fresh scratch directory"""
    d = os.path.join(SCRATCH, name)
    shutil.rmtree(d, ignore_errors=True)
    os.makedirs(d)
    srcdir = os.path.dirname(source(rel))
    base = os.path.basename(rel)
    text = open(source(rel)).read()
    shutil.copy(source(rel), os.path.join(d, base))
    import re
    for inc in re.findall(r'''^include\s+['"](.+?)['"]''', text, flags=re.M):
        shutil.copy(os.path.join(srcdir, inc), os.path.join(d, inc))
    return d, os.path.join(d, base)


def edit(path, old, new, count=1):
    s = open(path).read()
    if s.count(old) < 1:
        raise RuntimeError('selftest: %r not found in %s' % (old, path))
    open(path, 'w').write(s.replace(old, new, count))


def selftest():
    t0 = time.time()
    bad = []
    ext, how, so = bardell_externs()

    def expect(desc, rel, modname, file_to_edit, old, new, checker, must_fail):
        """checker(ns, tally) runs the comparison of the copy with the binary; must_fail: labels that have to disagree"""
        d, main_copy = scratch_copy(rel, 'selftest')
        if old is not None:
            edit(os.path.join(d, file_to_edit), old, new)
        tally = Tally(quiet=True)
        kw = dict(externs=ext) if 'bardell' in rel else {}
        try:
            ns = cyexec.load(main_copy, repo=REPO, module=modname, **kw)
            checker(ns, tally)
        except cyexec.Unsupported as e:
            print('  %-88s -> NOT READ (%s)' % (desc, e))
            bad.append(desc)
            return
        failed = set(l.split('.', 1)[1].split('[')[0] if '.' in l else l for l in tally.failed)
        if old is None:
            okk = not tally.failed
            print('  %-88s -> %s' % (desc, 'all %d functions agree' % len(tally.rows) if okk else 'DISAGREE: %s' % tally.failed))
        else:
            okk = all(m in failed for m in must_fail)
            rows = dict((r[0], r) for r in tally.rows)
            detail = ', '.join('%s (rel diff %.1e)' % (l, rows[l][2]) for l in tally.failed)
            print('  %-88s -> %s' % (desc, ('seen: ' + detail) if okk else 'NOT SEEN (disagreeing: %s)' % (tally.failed or 'none')))
        if not okk:
            bad.append(desc)
        shutil.rmtree(d, ignore_errors=True)

    bc1 = ('conecyl/clpt/clpt_commons_bc1.pyx', 'compmech.conecyl.clpt.clpt_commons_bc1')
    chk_bc1 = lambda ns, tl: conecyl_checks(tl, ns, binary(bc1[1]), 'bc1', (0, 1), 1000)                      # noqa: E731
    chk_int = lambda ns, tl: integrate_checks(tl, ns, binary('compmech.integrate.integrate'), 'integrate')     # noqa: E731
    chk_pan = lambda ns, tl: panel_checks(tl, ns, binary('compmech.panel.models.clt_bardell_field'), 'field', 3, 2001)  # noqa: E731
    fs1 = ('conecyl/fsdt/fsdt_commons_bc1.pyx', 'compmech.conecyl.fsdt.fsdt_commons_bc1')
    chk_fs1 = lambda ns, tl: conecyl_checks(tl, ns, binary(fs1[1]), 'fsdt_bc1', (0, 1), 1004)                  # noqa: E731

    print('1. scratch copies, unchanged (control)')
    expect('clpt_commons_bc1.pyx + its 5 include files, copied', bc1[0], bc1[1], None, None, None, chk_bc1, ())
    expect('integrate.pyx, copied', 'integrate/integrate.pyx', 'compmech.integrate.integrate', None, None, None, chk_int, ())
    print('2. one sign / one index / one operator flipped in the copy: the comparison with the binary must fail')
    expect('clpt_commons_bc1.pyx cfuvw: "w += c[col+2]*sini1x" -> "w -= ..."  (sign)', bc1[0], bc1[1],
           'clpt_commons_bc1.pyx', '            w += c[col+2]*sini1x\n', '            w -= c[col+2]*sini1x\n', chk_bc1, ['fuvw'])
    expect('clpt_commons_bc1.pyx cfwx: "wx += dsini2x*cosj2t*c[col+5]" -> "c[col+4]"  (index)', bc1[0], bc1[1],
           'clpt_commons_bc1.pyx', 'wx += dsini2x*cosj2t*c[col+5]', 'wx += dsini2x*cosj2t*c[col+4]', chk_bc1, ['fuvw', 'fstrain'])
    expect('clpt_commons_bc1.pyx cfgss: "gss[1, col+3] = sini2x*cosj2t" -> "gss[1, col+2]"  (index)', bc1[0], bc1[1],
           'clpt_commons_bc1.pyx', 'gss[1, col+3] = sini2x*cosj2t', 'gss[1, col+2] = sini2x*cosj2t', chk_bc1, ['fg'])
    expect('clpt_commons_include_cfN.pxi (INCLUDE file): "A22 = F[7]" -> "F[6]"  (index)', bc1[0], bc1[1],
           'clpt_commons_include_cfN.pxi', 'A22 = F[7]', 'A22 = F[6]', chk_bc1, ['fstress'])
    expect('clpt_commons_include_header.pxi (INCLUDE file): "cdef int j0 = 1" -> "= 0"  (constant)', bc1[0], bc1[1],
           'clpt_commons_include_header.pxi', 'cdef int j0 = 1', 'cdef int j0 = 0', chk_bc1, ['fuvw', 'fg', 'fstrain'])
    expect('clpt_commons_bc1.pyx cfstrain_sanders: "kxt = -c[1]*cosa*r2" -> "+c[1]..."  (sign; NL_kinematics=1 only)', bc1[0], bc1[1],
           'clpt_commons_bc1.pyx', '        kxt = -c[1]*cosa*r2*(r + sina*(L - x))/(L*(r*r))', '        kxt = c[1]*cosa*r2*(r + sina*(L - x))/(L*(r*r))',
           chk_bc1, ['fstrain'])
    expect('fsdt_commons_bc1.pyx cfuvw: "phit += c[col+9]*sini2x*cosj2t" -> "c[col+8]"  (index)', fs1[0], fs1[1],
           'fsdt_commons_bc1.pyx', 'phit += c[col+9]*sini2x*cosj2t', 'phit += c[col+8]*sini2x*cosj2t', chk_fs1, ['fuvw'])
    expect('integrate.pyx simps2d_points: "if nx % 2 != 0:" -> "== 0"  (operator, C modulo and C division follow)',
           'integrate/integrate.pyx', 'compmech.integrate.integrate', 'integrate.pyx', '    if nx % 2 != 0:\n', '    if nx % 2 == 0:\n',
           chk_int, ['simps2d_points'])
    expect('integrate.pyx trapz_quad: "weights[i] = hxi/2." -> "hxi/3."  (constant, cdef function)', 'integrate/integrate.pyx',
           'compmech.integrate.integrate', 'integrate.pyx', 'weights[i] = hxi/2.', 'weights[i] = hxi/3.', chk_int,
           ['trapz2d_points', 'python_trapz_quad'])
    expect('clt_bardell_field.pyx cfstrain: "kxy += -2*c[col+2]" -> "+2*c[col+2]"  (sign)', 'panel/models/clt_bardell_field.pyx',
           'compmech.panel.models.clt_bardell_field', 'clt_bardell_field.pyx', 'kxy += -2*c[col+2]', 'kxy += 2*c[col+2]', chk_pan,
           ['fstrain'])
    expect('clt_bardell_field.pyx cfwy: "(2/b)*c[col+2]*fw[i]*gweta[j]" -> "fw[j]*gweta[i]"  (index)',
           'panel/models/clt_bardell_field.pyx', 'compmech.panel.models.clt_bardell_field', 'clt_bardell_field.pyx',
           'wy += (2/b)*c[col+2]*fw[i]*gweta[j]', 'wy += (2/b)*c[col+2]*fw[j]*gweta[i]', chk_pan, ['fuvw'])

    print('3. constructs outside the subset must raise cyexec.Unsupported (never be guessed or skipped)')
    d = os.path.join(SCRATCH, 'selftest_subset')
    shutil.rmtree(d, ignore_errors=True)
    os.makedirs(d)
    head = '#cython: cdivision=True\n'
    samples = [
        ('division with an operand of unknown C type', head + 'cdef double f(double *x, int n):\n    return g(n) / n\ncdef void *g(int n):\n    pass\n', 'load'),
        ('int / int without the cdivision directive', 'def f(int a, int b):\n    return a / b\n', 'load'),
        ('old-style for-from loop', head + 'def f(int n):\n    cdef int i\n    for i from 0 <= i < n:\n        pass\n', 'load'),
        ('C float (single precision)', head + 'def f(float x):\n    return x\n', 'load'),
        ('unknown type name', head + 'def f(mytype x):\n    return x\n', 'load'),
        ('cdef class', head + 'cdef class A:\n    pass\n', 'load'),
        ('compile-time IF', head + 'IF UNAME_SYSNAME == "Linux":\n    x = 1\n', 'load'),
        ('address of a scalar (pass by reference): loads, raises when called', head + 'cdef void h(double *p):\n    p[0] = 1\ndef f():\n    cdef double x\n    h(&x)\n    return x\n', 'call'),
        ('cast to void * : loads, the function raises when called', head + 'cdef double h(void *p):\n    return 1.\ndef f():\n    cdef double [:] a = None\n    return h(<void *>&a[0])\n', 'call'),
        ('int ** int with a variable exponent under cpow=True', '#cython: cdivision=True, cpow=True\ndef f(int a, int b):\n    return a ** b\n', 'load'),
        ('pointer arithmetic other than pointer + int', head + 'cdef double f(double *p, double *q):\n    return p - q\n', 'load'),
        ('external C function that was not supplied', head + 'cdef extern from "foo.h":\n    double foo(double x) nogil\ndef f(double x):\n    return foo(x)\n', 'call'),
        ('struct pointer argument: loads, raises when called', head + 'cdef struct cc_attributes:\n    double *sina\n    int *m1\ncdef double f(cc_attributes *args):\n    return args.sina[0]\ndef g():\n    return f(None)\n', 'call'),
        ('print statement (Python 2)', head + 'def f():\n    print "x"\n', 'load'),
        ('malloc result used without a typed cast', head + 'from libc.stdlib cimport malloc\ndef f(int n):\n    p = malloc(n * sizeof(double))\n    return p[0]\n', 'call'),
    ]
    for k, (desc, text, when) in enumerate(samples):
        path = os.path.join(d, 'case%02d.pyx' % k)
        open(path, 'w').write(text)
        got = 'no error'
        try:
            ns = cyexec.load(path, repo=REPO)
            got = 'loaded'
            if when == 'call':
                try:
                    fn = ns.get('g', ns.get('f'))
                    fn(*([3] if fn.__code__.co_argcount else []))
                    got = 'loaded and ran'
                except cyexec.Unsupported as e:
                    got = 'Unsupported at the call: ' + str(e)[:100]
        except cyexec.Unsupported as e:
            got = 'Unsupported at load: ' + str(e)[:100]
        okk = got.startswith('Unsupported at ' + ('load' if when == 'load' else 'the call'))
        print('  %-58s -> %s%s' % (desc, got, '' if okk else '   ** WRONG **'))
        if not okk:
            bad.append(desc)
    print('4. C semantics kept by the reading')
    path = os.path.join(d, 'sem.pyx')
    open(path, 'w').write(head + '''
from libc.stdlib cimport malloc, free
cdef extern from "math.h":
    double sqrt(double x) nogil
cdef int seven = 7
def idiv(int a, int b):
    return a / b, a % b, a // b
def fdiv(double a, double b):
    return a / b
def mixed(int a, double b):
    cdef int k
    k = a * b
    return k, a / b, 1 / 2, 1 / 2., seven / 2
def roots(double x):
    return sqrt(x)
def rows(double [:, ::1] a, int i):
    cdef double *p = &a[i, 0]
    cdef double *q = <double *>malloc(3 * sizeof(double))
    p[a.shape[1]] = -1.          # first element of the NEXT row: a pointer does not know the row length
    q[2] = p[0]
    free(q)
    return q[2]
def view(double [:] xs):
    return xs.min()
''')
    ns = cyexec.load(path, repo=REPO)
    a = np.arange(6.).reshape(2, 3)
    facts = [
        ('int / % // of (-7, 2) are C: (-3, -1, -3)', ns['idiv'](-7, 2) == (-3, -1, -3)),
        ('double / 0 is inf, 0. / 0. is nan', ns['fdiv'](1., 0.) == float('inf') and ns['fdiv'](0., 0.) != ns['fdiv'](0., 0.)),
        ('int k = 3 * 2.9 truncates; 3 / 2.0 = 1.5; 1 / 2 = 0; 1 / 2. = .5; 7 / 2 = 3', ns['mixed'](3, 2.9)[0] == 8
         and ns['mixed'](3, 2.)[1:] == (1.5, 0, .5, 3)),
        ('sqrt(-1) is nan (no exception)', ns['roots'](-1.) != ns['roots'](-1.)),
        ('&a[i, 0] is a raw pointer into the buffer; malloc/free', ns['rows'](a, 0) == 0. and a[1, 0] == -1.),
        ('attribute that a typed memoryview does not have raises AttributeError', run(ns['view'], [np.zeros(3)])[1].startswith('AttributeError')),
        ('int argument refuses a float (def function)', run(ns['idiv'], [1.5, 2])[1].startswith('TypeError')),
        ('memoryview argument refuses a wrong dtype', run(ns['view'], [np.zeros(3, dtype=int)])[1].startswith('ValueError')),
    ]
    for desc, okk in facts:
        print('  %-88s -> %s' % (desc, 'ok' if okk else '** WRONG **'))
        if not okk:
            bad.append(desc)
    shutil.rmtree(d, ignore_errors=True)
    if so:
        try:
            os.remove(so)
        except OSError:
            pass
    print('selftest: %s (%.1f s)' % ('all expectations met' if not bad else '%d expectations NOT met: %s' % (len(bad), bad),
                                     time.time() - t0))
    return 1 if bad else 0


if __name__ == '__main__':
    os.makedirs(SCRATCH, exist_ok=True)
    sys.exit(selftest() if '--selftest' in sys.argv[1:] else main())
