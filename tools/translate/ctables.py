"""ctables.py — translator T for compmech/lib/src/*.c  (DESIGN.md 2.2, property C10).

Parses the *regular C subset* used by the Bardell function / integral tables and by the
Gauss-Legendre table:

    file      := ( comment | preprocessor-line | function )*
    function  := 'EXPORTIT' ('double'|'void') NAME '(' params ')' '{' stmt* '}'
    stmt      := 'switch' '(' NAME ')' '{' ( ('case' INT | 'default') ':' stmt+ )* '}'
               | 'return' [expr] ';'
               | NAME '[' INT ']' '=' expr ';'
    expr      := term (('+'|'-') term)*
    term      := unary (('*'|'/') unary)*
    unary     := '-' unary | '+' unary | atom
    atom      := NUMBER | NAME | 'pow' '(' expr ',' INT ')' | '(' expr ')'

Anything outside this grammar raises `CParseError` (a broken tie) — nothing is ever skipped.

Expression AST (tuples):  ('num', mantissa:int>=0, exp10:int)   value = mantissa*10**exp10
                          ('var', name) ('neg', a) ('sum', [..]) ('prod', [..]) ('pow', a, n:int)
The only normalisation performed is flattening of the left-associative chains `a+b-c` / `a*b*c`
into n-ary nodes (`a-b` becomes sum[a, neg b]); no arithmetic is done here — the Lean kernel does it.

`emit_all(repo, outdir)` writes the Lean data modules `CompmechVerif/Gen/CTables/*.lean`
(deterministic text, rewritten only when changed) and returns the parsed tables.
"""
import os
import re
from fractions import Fraction


class CParseError(Exception):
    pass


# ----------------------------------------------------------------------------- tokenizer
TOKEN = re.compile(r'''
    (?P<ws>\s+)
  | (?P<lc>//[^\n]*)
  | (?P<bc>/\*.*?\*/)
  | (?P<pp>\#[^\n]*)
  | (?P<num>(?:\d+\.\d*|\.\d+|\d+)(?:[eE][+-]?\d+)?)
  | (?P<id>[A-Za-z_][A-Za-z_0-9]*)
  | (?P<op>[-+*/(){}\[\];:,=])
''', re.X | re.S)


def tokenize(src, fname='<src>'):
    toks = []
    pos = 0
    n = len(src)
    line = 1
    while pos < n:
        m = TOKEN.match(src, pos)
        if not m:
            raise CParseError('%s:%d: unexpected character %r' % (fname, line, src[pos:pos + 20]))
        kind = m.lastgroup
        text = m.group()
        if kind == 'pp':
            toks.append(('pp', text.strip(), line))
        elif kind in ('num', 'id', 'op'):
            toks.append((kind, text, line))
        line += text.count('\n')
        pos = m.end()
    toks.append(('eof', '', line))
    return toks


# allowed preprocessor lines (the EXPORTIT boiler-plate and the two includes); anything else is a broken tie
PP_OK = re.compile(r'^#\s*(include\s*<(stdlib|math)\.h>|if defined\(_WIN32\) \|\| defined\(__WIN32__\)|'
                   r'define EXPORTIT __declspec\(dllexport\)|define EXPORTIT|else|endif)\s*$')


class Parser(object):
    def __init__(self, src, fname):
        self.fname = fname
        self.toks = tokenize(src, fname)
        self.k = 0

    # --- token helpers
    def peek(self):
        return self.toks[self.k]

    def next(self):
        t = self.toks[self.k]
        self.k += 1
        return t

    def err(self, msg):
        t = self.peek()
        raise CParseError('%s:%d: %s (at %r)' % (self.fname, t[2], msg, t[1]))

    def expect(self, text):
        t = self.next()
        if t[1] != text or t[0] not in ('op', 'id'):
            self.k -= 1
            self.err('expected %r' % text)
        return t

    def accept(self, text):
        t = self.peek()
        if t[0] in ('op', 'id') and t[1] == text:
            self.k += 1
            return True
        return False

    def ident(self):
        t = self.next()
        if t[0] != 'id':
            self.k -= 1
            self.err('expected identifier')
        return t[1]

    def integer(self):
        t = self.next()
        if t[0] != 'num' or not re.match(r'^\d+$', t[1]):
            self.k -= 1
            self.err('expected integer literal')
        return int(t[1])

    # --- file
    def parse_file(self):
        funcs = []
        while True:
            t = self.peek()
            if t[0] == 'eof':
                break
            if t[0] == 'pp':
                if not PP_OK.match(t[1]):
                    self.err('preprocessor line outside the recognised boiler-plate: %r' % t[1])
                self.next()
                continue
            funcs.append(self.function())
        return funcs

    def function(self):
        self.expect('EXPORTIT')
        rtype = self.ident()
        if rtype not in ('double', 'void'):
            self.err('unsupported return type %r' % rtype)
        name = self.ident()
        self.expect('(')
        params = []
        while True:
            ptype = self.ident()
            if ptype not in ('double', 'int'):
                self.err('unsupported parameter type %r' % ptype)
            ptr = self.accept('*')
            pname = self.ident()
            params.append((ptype + ('*' if ptr else ''), pname))
            if self.accept(','):
                continue
            self.expect(')')
            break
        self.expect('{')
        body = []
        while not self.accept('}'):
            body.append(self.stmt())
        return dict(name=name, rtype=rtype, params=params, body=body)

    def stmt(self):
        t = self.peek()
        if t[0] == 'pp':
            self.err('preprocessor line inside a function body')
        if t[0] == 'id' and t[1] == 'switch':
            self.next()
            self.expect('(')
            var = self.ident()
            self.expect(')')
            self.expect('{')
            arms = []          # (label:int or 'default', [stmts])
            while not self.accept('}'):
                if self.accept('case'):
                    lab = self.integer()
                elif self.accept('default'):
                    lab = 'default'
                else:
                    self.err("expected 'case' or 'default'")
                self.expect(':')
                stmts = []
                while True:
                    p = self.peek()
                    if p[1] in ('case', 'default', '}') and p[0] in ('id', 'op'):
                        break
                    stmts.append(self.stmt())
                if not stmts:
                    self.err('empty case arm (fall-through) is outside the recognised subset')
                arms.append((lab, stmts))
            return ('switch', var, arms)
        if t[0] == 'id' and t[1] == 'return':
            self.next()
            if self.accept(';'):
                return ('return', None)
            e = self.expr()
            self.expect(';')
            return ('return', e)
        if t[0] == 'id':
            name = self.ident()
            self.expect('[')
            k = self.integer()
            self.expect(']')
            self.expect('=')
            e = self.expr()
            self.expect(';')
            return ('store', name, k, e)
        self.err('statement outside the recognised subset')

    # --- expressions
    def expr(self):
        terms = [self.term()]
        while True:
            if self.accept('+'):
                terms.append(self.term())
            elif self.accept('-'):
                terms.append(('neg', self.term()))
            else:
                break
        return terms[0] if len(terms) == 1 else ('sum', terms)

    def term(self):
        fs = [self.unary()]
        while True:
            if self.accept('*'):
                fs.append(self.unary())
            elif self.accept('/'):
                d = self.unary()
                fs.append(reciprocal(d, self))
            else:
                break
        return fs[0] if len(fs) == 1 else ('prod', fs)

    def unary(self):
        if self.accept('-'):
            return ('neg', self.unary())
        if self.accept('+'):
            return self.unary()
        return self.atom()

    def atom(self):
        t = self.next()
        if t[0] == 'num':
            return number(t[1])
        if t[0] == 'id':
            if t[1] == 'pow':
                self.expect('(')
                b = self.expr()
                self.expect(',')
                n = self.integer()
                self.expect(')')
                return ('pow', b, n)
            if t[1] in ('switch', 'case', 'default', 'return', 'double', 'int', 'void'):
                self.k -= 1
                self.err('keyword inside an expression')
            if self.peek()[1] in ('(', '['):
                self.err('call / subscript %r inside an expression is outside the recognised subset' % t[1])
            return ('var', t[1])
        if t[0] == 'op' and t[1] == '(':
            e = self.expr()
            self.expect(')')
            return e
        self.k -= 1
        self.err('expression expected')


def number(text):
    """decimal literal -> ('num', mantissa, exp10), exactly"""
    m = re.match(r'^(\d*)\.?(\d*)(?:[eE]([+-]?\d+))?$', text)
    if not m or not (m.group(1) or m.group(2)):
        raise CParseError('bad numeric literal %r' % text)
    ip, fp, ex = m.group(1), m.group(2), int(m.group(3) or 0)
    mant = int((ip + fp) or '0')
    e10 = ex - len(fp)
    # canonical: strip trailing zeros of the mantissa (keeps the emitted scales small)
    if mant == 0:
        return ('num', 0, 0)
    while mant % 10 == 0:
        mant //= 10
        e10 += 1
    return ('num', mant, e10)


def reciprocal(d, parser):
    """a / d is only representable if d is a literal whose reciprocal terminates in base 10"""
    if d[0] != 'num' or d[1] == 0:
        parser.err('division by a non-literal (or zero) is outside the recognised subset')
    f = Fraction(1) / (Fraction(d[1]) * Fraction(10) ** d[2])
    den = f.denominator
    e = 0
    while den % 10 == 0:
        den //= 10; e += 1
    a = b = 0
    while den % 2 == 0:
        den //= 2; a += 1
    while den % 5 == 0:
        den //= 5; b += 1
    if den != 1:
        parser.err('division by a literal whose reciprocal is not a terminating decimal')
    k = max(a, b)
    mant = f.numerator * 2 ** (k - a) * 5 ** (k - b)
    return ('num', mant, -(e + k))


# ----------------------------------------------------------------------------- exact evaluation (for V / search)
def num_value(e):
    return Fraction(e[1]) * Fraction(10) ** e[2]


def evaluate(e, env):
    """exact value of an expression AST; env maps variable name -> Fraction"""
    k = e[0]
    if k == 'num':
        return num_value(e)
    if k == 'var':
        return env[e[1]]
    if k == 'neg':
        return -evaluate(e[1], env)
    if k == 'sum':
        return sum((evaluate(a, env) for a in e[1]), Fraction(0))
    if k == 'prod':
        r = Fraction(1)
        for a in e[1]:
            r *= evaluate(a, env)
        return r
    if k == 'pow':
        return evaluate(e[1], env) ** e[2]
    raise CParseError('bad AST node %r' % (k,))


def variables(e, acc=None):
    acc = set() if acc is None else acc
    k = e[0]
    if k == 'var':
        acc.add(e[1])
    elif k == 'neg':
        variables(e[1], acc)
    elif k in ('sum', 'prod'):
        for a in e[1]:
            variables(a, acc)
    elif k == 'pow':
        variables(e[1], acc)
    return acc


def expand(e, order):
    """expanded polynomial {exponent tuple (in `order`) : Fraction} — used by calibration and the oracle
    comparison, NOT by the Lean side (the kernel normalises the emitted tree itself)"""
    k = e[0]
    nv = len(order)
    if k == 'num':
        v = num_value(e)
        return {(0,) * nv: v} if v else {}
    if k == 'var':
        t = [0] * nv
        t[order.index(e[1])] = 1
        return {tuple(t): Fraction(1)}
    if k == 'neg':
        return {m: -c for m, c in expand(e[1], order).items()}
    if k == 'sum':
        r = {}
        for a in e[1]:
            for m, c in expand(a, order).items():
                r[m] = r.get(m, 0) + c
        return {m: c for m, c in r.items() if c}
    if k == 'prod':
        r = {(0,) * nv: Fraction(1)}
        for a in e[1]:
            r = pmul(r, expand(a, order))
        return r
    if k == 'pow':
        b = expand(e[1], order)
        r = {(0,) * nv: Fraction(1)}
        for _ in range(e[2]):
            r = pmul(r, b)
        return r
    raise CParseError('bad AST node %r' % (k,))


def pmul(p, q_):
    r = {}
    for m1, c1 in p.items():
        for m2, c2 in q_.items():
            m = tuple(a + b for a, b in zip(m1, m2))
            r[m] = r.get(m, 0) + c1 * c2
    return {m: c for m, c in r.items() if c}


# ----------------------------------------------------------------------------- table extraction
NB = 30          # the property speaks about indices 0..29
XFLAGS = ['x1t', 'x1r', 'x2t', 'x2r']
YFLAGS = ['y1t', 'y1r', 'y2t', 'y2r']
FFLAGS = ['xi1t', 'xi1r', 'xi2t', 'xi2r']
ZERO = ('num', 0, 0)

FULL = ['ff', 'ffxi', 'ffxixi', 'fxifxi', 'fxifxixi', 'fxixifxixi']
SUB = [f + '_12' for f in FULL]
MAP = ['ff_c0c1', 'ffxi_c0c1', 'fxif_c0c1', 'fxifxi_c0c1', 'fxixifxixi_c0c1']
# derivative orders (d1, d2) of each family name
DERIV = {'ff': (0, 0), 'ffxi': (0, 1), 'ffxixi': (0, 2), 'fxif': (1, 0), 'fxifxi': (1, 1), 'fxifxixi': (1, 2),
         'fxixifxixi': (2, 2)}


def lib(repo):
    return os.path.join(repo, 'compmech', 'lib', 'src')


def parse_c(path):
    with open(path) as f:
        src = f.read()
    return Parser(src, path).parse_file()


def is_zero_return(stmts):
    return len(stmts) == 1 and stmts[0][0] == 'return' and stmts[0][1] == ZERO


def switch_table_2d(fn, fname):
    """`switch(i){case a: switch(j){case b: return e; ... default: return 0.;} ... default: return 0.;}`
    -> dict (i, j) -> expr  for all 0<=i,j<NB (absent cases take the value of the enclosing default)."""
    body = fn['body']
    if len(body) != 1 or body[0][0] != 'switch' or body[0][1] != 'i':
        raise CParseError('%s: %s: body is not a single switch(i)' % (fname, fn['name']))
    tab = {}
    seen_i = set()
    outer_default = False
    for lab, stmts in body[0][2]:
        if lab == 'default':
            if outer_default or not is_zero_return(stmts):
                raise CParseError('%s: %s: outer default must be a single `return 0.;`' % (fname, fn['name']))
            outer_default = True
            continue
        if lab in seen_i or not (0 <= lab < NB):
            raise CParseError('%s: %s: duplicate or out-of-range case %r of switch(i)' % (fname, fn['name'], lab))
        seen_i.add(lab)
        if len(stmts) != 1 or stmts[0][0] != 'switch' or stmts[0][1] != 'j':
            raise CParseError('%s: %s: case %d is not a single switch(j)' % (fname, fn['name'], lab))
        seen_j = set()
        inner_default = False
        for lj, sj in stmts[0][2]:
            if lj == 'default':
                if inner_default or not is_zero_return(sj):
                    raise CParseError('%s: %s: case %d: default must be a single `return 0.;`' % (fname, fn['name'], lab))
                inner_default = True
                continue
            if lj in seen_j or not (0 <= lj < NB):
                raise CParseError('%s: %s: case %d: duplicate or out-of-range case %r of switch(j)' % (fname, fn['name'], lab, lj))
            seen_j.add(lj)
            if len(sj) != 1 or sj[0][0] != 'return' or sj[0][1] is None:
                raise CParseError('%s: %s: case %d,%d is not a single `return <expr>;`' % (fname, fn['name'], lab, lj))
            tab[(lab, lj)] = sj[0][1]
        if not inner_default:
            raise CParseError('%s: %s: case %d: switch(j) without default (falls off a non-void function)' % (fname, fn['name'], lab))
    if not outer_default:
        raise CParseError('%s: %s: switch(i) without default' % (fname, fn['name']))
    full = {}
    for i in range(NB):
        for j in range(NB):
            full[(i, j)] = tab.get((i, j), ZERO)
    return full


def switch_table_1d(fn, fname):
    body = fn['body']
    if len(body) != 1 or body[0][0] != 'switch' or body[0][1] != 'i':
        raise CParseError('%s: %s: body is not a single switch(i)' % (fname, fn['name']))
    tab = {}
    dflt = False
    for lab, stmts in body[0][2]:
        if lab == 'default':
            if dflt or not is_zero_return(stmts):
                raise CParseError('%s: %s: default must be a single `return 0.;`' % (fname, fn['name']))
            dflt = True
            continue
        if lab in tab or not (0 <= lab < NB):
            raise CParseError('%s: %s: duplicate or out-of-range case %r' % (fname, fn['name'], lab))
        if len(stmts) != 1 or stmts[0][0] != 'return' or stmts[0][1] is None:
            raise CParseError('%s: %s: case %d is not a single `return <expr>;`' % (fname, fn['name'], lab))
        tab[lab] = stmts[0][1]
    if not dflt:
        raise CParseError('%s: %s: switch(i) without default' % (fname, fn['name']))
    return [tab.get(i, ZERO) for i in range(NB)]


def store_table(fn, fname, arr):
    tab = {}
    for st in fn['body']:
        if st[0] != 'store' or st[1] != arr:
            raise CParseError('%s: %s: statement other than `%s[k] = <expr>;`' % (fname, fn['name'], arr))
        if st[2] in tab or not (0 <= st[2] < NB):
            raise CParseError('%s: %s: duplicate or out-of-range store %s[%d]' % (fname, fn['name'], arr, st[2]))
        tab[st[2]] = st[3]
    if sorted(tab) != list(range(NB)):
        raise CParseError('%s: %s: stores do not cover %s[0..%d]' % (fname, fn['name'], arr, NB - 1))
    return [tab[i] for i in range(NB)]


def check_params(fn, want, fname):
    got = [(t, n) for t, n in fn['params']]
    if got != want:
        raise CParseError('%s: %s: parameter list %r differs from the expected %r' % (fname, fn['name'], got, want))


def check_vars(e, allowed, where):
    bad = variables(e) - set(allowed)
    if bad:
        raise CParseError('%s: identifiers %s are not parameters of the function' % (where, sorted(bad)))


FLAGS8 = [('double', n) for n in XFLAGS + YFLAGS]


def read_tables(repo):
    """parse all 14 C files -> dict with keys
       func: {'calc_f': [30 expr], 'calc_fxi':..., 'calc_fxixi':..., 'calc_vec_f':..., ...}
       full: {family: {(i,j): expr}},  sub: {...}, map: {...},  gauss: {n: (points, weights)}"""
    d = lib(repo)
    out = dict(func={}, full={}, sub={}, map={}, gauss={})
    # --- function tables
    p = os.path.join(d, 'bardell_functions.c')
    fns = parse_c(p)
    names = [f['name'] for f in fns]
    want = ['calc_vec_f', 'calc_vec_fxi', 'calc_vec_fxixi', 'calc_f', 'calc_fxi', 'calc_fxixi']
    if names != want:
        raise CParseError('%s: functions %r, expected %r' % (p, names, want))
    fl4 = [('double', n) for n in FFLAGS]
    for fn in fns:
        if fn['name'].startswith('calc_vec_'):
            arr = fn['name'][len('calc_vec_'):]
            check_params(fn, [('double*', arr), ('double', 'xi')] + fl4, p)
            if fn['rtype'] != 'void':
                raise CParseError('%s: %s must return void' % (p, fn['name']))
            tab = store_table(fn, p, arr)
        else:
            check_params(fn, [('int', 'i'), ('double', 'xi')] + fl4, p)
            if fn['rtype'] != 'double':
                raise CParseError('%s: %s must return double' % (p, fn['name']))
            tab = switch_table_1d(fn, p)
        for k, e in enumerate(tab):
            check_vars(e, ['xi'] + FFLAGS, '%s: %s[%d]' % (p, fn['name'], k))
        out['func'][fn['name']] = tab
    # --- full-interval tables
    p = os.path.join(d, 'bardell.c')
    fns = parse_c(p)
    names = [f['name'] for f in fns]
    if names != ['integral_' + f for f in FULL]:
        raise CParseError('%s: functions %r, expected %r' % (p, names, ['integral_' + f for f in FULL]))
    for fn in fns:
        check_params(fn, [('int', 'i'), ('int', 'j')] + FLAGS8, p)
        if fn['rtype'] != 'double':
            raise CParseError('%s: %s must return double' % (p, fn['name']))
        tab = switch_table_2d(fn, p)
        for (i, j), e in tab.items():
            check_vars(e, XFLAGS + YFLAGS, '%s: %s(%d,%d)' % (p, fn['name'], i, j))
        out['full'][fn['name'][len('integral_'):]] = tab
    # --- sub-interval and mapped-argument tables
    for kind, fams, a, b in (('sub', SUB, 'xi1', 'xi2'), ('map', MAP, 'c0', 'c1')):
        for fam in fams:
            p = os.path.join(d, 'bardell_integral_%s.c' % fam)
            fns = parse_c(p)
            if [f['name'] for f in fns] != ['integral_' + fam]:
                raise CParseError('%s: functions %r, expected [%r]' % (p, [f['name'] for f in fns], 'integral_' + fam))
            fn = fns[0]
            check_params(fn, [('double', a), ('double', b), ('int', 'i'), ('int', 'j')] + FLAGS8, p)
            if fn['rtype'] != 'double':
                raise CParseError('%s: %s must return double' % (p, fn['name']))
            tab = switch_table_2d(fn, p)
            for (i, j), e in tab.items():
                check_vars(e, [a, b] + XFLAGS + YFLAGS, '%s: %s(%d,%d)' % (p, fn['name'], i, j))
            out[kind][fam] = tab
    # --- Gauss-Legendre
    p = os.path.join(d, 'legendre_gauss_quadrature.c')
    fns = parse_c(p)
    if [f['name'] for f in fns] != ['leggauss_quad']:
        raise CParseError('%s: functions %r, expected [leggauss_quad]' % (p, [f['name'] for f in fns]))
    fn = fns[0]
    check_params(fn, [('int', 'n'), ('double*', 'points'), ('double*', 'weights')], p)
    body = fn['body']
    if fn['rtype'] != 'void' or len(body) != 1 or body[0][0] != 'switch' or body[0][1] != 'n':
        raise CParseError('%s: leggauss_quad is not `void` with a single switch(n)' % p)
    for lab, stmts in body[0][2]:
        if lab == 'default' or lab in out['gauss']:
            raise CParseError('%s: default / duplicate case %r in switch(n)' % (p, lab))
        if stmts[-1] != ('return', None):
            raise CParseError('%s: case %d does not end with `return;`' % (p, lab))
        pts, wts = {}, {}
        for st in stmts[:-1]:
            if st[0] != 'store' or st[1] not in ('points', 'weights'):
                raise CParseError('%s: case %d: statement other than points[k]/weights[k] = <literal>;' % (p, lab))
            e = st[3]
            sign = 1
            if e[0] == 'neg':
                sign, e = -1, e[1]
            if e[0] != 'num':
                raise CParseError('%s: case %d: %s[%d] is not a (signed) literal' % (p, lab, st[1], st[2]))
            dst = pts if st[1] == 'points' else wts
            if st[2] in dst:
                raise CParseError('%s: case %d: %s[%d] stored twice' % (p, lab, st[1], st[2]))
            dst[st[2]] = (sign, e[1], e[2])
        if sorted(pts) != list(range(lab)) or sorted(wts) != list(range(lab)):
            raise CParseError('%s: case %d: stores do not cover points/weights[0..%d]' % (p, lab, lab - 1))
        out['gauss'][lab] = ([pts[k] for k in range(lab)], [wts[k] for k in range(lab)])
    if sorted(out['gauss']) != list(range(2, 65)):
        raise CParseError('%s: cases %r, expected 2..64' % (p, sorted(out['gauss'])))
    return out


# ----------------------------------------------------------------------------- Lean emission
# variable numbering of the Lean expression trees (Core/CExpr.lean): the monomial key is
# sum_v e_v * 128^v, so a higher index is more significant in the (descending) term order.
VARS_FUNC = {'xi': 0, 'xi1t': 2, 'xi1r': 3, 'xi2t': 4, 'xi2r': 5}
VARS_2 = {'x1t': 2, 'x1r': 3, 'x2t': 4, 'x2r': 5, 'y1t': 6, 'y1r': 7, 'y2t': 8, 'y2r': 9}
VARS_SUB = dict(VARS_2, xi1=1, xi2=0)
VARS_MAP = dict(VARS_2, c0=1, c1=0)

# static row blocks of the 30x30 families (balanced by measured kernel time per row); the Lean
# side (Props/C10.lean, *All.lean) relies on these names, so they are fixed here
def _blocks(bounds):
    return list(zip(bounds[:-1], bounds[1:]))


BLOCKS = {'sub': _blocks([0, 7, 12, 16, 19, 22, 25, 27, 30]),
          'map': _blocks([0, 1, 2, 3, 4, 6, 9, 12, 16, 20, 25, 30])}
GAUSS_BLOCKS = [(2, 41), (41, 52), (52, 59), (59, 65)]
HEARTBEATS = 400000000


def lean_expr(e, vmap):
    k = e[0]
    if k == 'num':
        m, x = e[1], e[2]
        if x >= 0:
            return '.lit %d 0' % (m * 10 ** x)
        return '.lit %d %d' % (m, -x)
    if k == 'var':
        return '.var %d' % vmap[e[1]]
    if k == 'neg':
        return '.neg (%s)' % lean_expr(e[1], vmap)
    if k == 'sum':
        return '.sum [%s]' % ', '.join(lean_expr(a, vmap) for a in e[1])
    if k == 'prod':
        return '.prod [%s]' % ', '.join(lean_expr(a, vmap) for a in e[1])
    if k == 'pow':
        return '.pow (%s) %d' % (lean_expr(e[1], vmap), e[2])
    raise CParseError('bad AST node %r' % (k,))


HEADER = ('/- GENERATED by tools/translate/ctables.py from %s — do not edit.\n'
          '   Data only: expression trees of the C `return`/store statements (see Core/CExpr.lean). -/\n'
          'import CompmechVerif.Core.CExpr\n'
          'set_option maxRecDepth 8192\n'
          'namespace Compmech.C10.Gen.%s\nopen Compmech.C10\n\n')


def camel(fam):
    return ''.join(p.capitalize() if not p[0].isdigit() else p for p in fam.split('_'))


def module_name(kind, fam, blk=None):
    """Lean module base name under Gen/CTables"""
    n = {'func': 'Func', 'full': 'Full', 'sub': 'Sub', 'map': 'Map'}[kind] + camel(fam)
    if blk is not None:
        n += 'B%d' % blk
    return n


def emit_rows(kind, fam, tab, vmap, src, lo, hi, ns):
    out = [HEADER % (src, ns)]
    for i in range(lo, hi):
        for j in range(NB):
            out.append('def e_%d_%d : E := %s\n' % (i, j, lean_expr(tab[(i, j)], vmap)))
        out.append('def row_%d : List E := [%s]\n\n' % (i, ', '.join('e_%d_%d' % (i, j) for j in range(NB))))
    out.append('/-- rows %d..%d of `integral_%s` (entry `(i - %d, j)`) -/\n' % (lo, hi - 1, fam, lo))
    out.append('def rows : List (List E) := [%s]\n' % ', '.join('row_%d' % i for i in range(lo, hi)))
    out.append('\nend Compmech.C10.Gen.%s\n' % ns)
    return ''.join(out)


def emit_all(repo, gen_dir, write):
    """parse everything and write the data modules; `write(path, text)` = tools.common.write_if_changed.
    returns (tables, list of module names written/kept)"""
    T = read_tables(repo)
    mods = []
    rel = 'compmech/lib/src/'

    def put(name, text):
        write(os.path.join(gen_dir, name + '.lean'), text)
        mods.append(name)

    # function tables: one module
    ns = 'Func'
    out = [HEADER % (rel + 'bardell_functions.c', ns)]
    for name in ['calc_f', 'calc_fxi', 'calc_fxixi', 'calc_vec_f', 'calc_vec_fxi', 'calc_vec_fxixi']:
        tab = T['func'][name]
        for k, e in enumerate(tab):
            out.append('def %s_%d : E := %s\n' % (name, k, lean_expr(e, VARS_FUNC)))
        out.append('def %s : List E := [%s]\n\n' % (name, ', '.join('%s_%d' % (name, k) for k in range(NB))))
    out.append('end Compmech.C10.Gen.%s\n' % ns)
    put('Func', ''.join(out))
    # full tables: one module per family
    for fam in FULL:
        ns = module_name('full', fam)
        put(ns, emit_rows('full', fam, T['full'][fam], VARS_2, rel + 'bardell.c', 0, NB, ns))
    # sub / map: one module per family and row block
    for kind, fams, vmap in (('sub', SUB, VARS_SUB), ('map', MAP, VARS_MAP)):
        for fam in fams:
            for b, (lo, hi) in enumerate(BLOCKS[kind]):
                ns = module_name(kind, fam[:fam.rindex('_')], b)
                put(ns, emit_rows(kind, fam, T[kind][fam], vmap, rel + 'bardell_integral_%s.c' % fam, lo, hi, ns))
    # Gauss-Legendre: literals as (negative?, mantissa, decimals)
    ns = 'LegGauss'
    out = ['/- GENERATED by tools/translate/ctables.py from %slegendre_gauss_quadrature.c — do not edit.\n'
           '   `(neg, m, e)` is the literal  (-1)^neg * m / 10^e. -/\n'
           'namespace Compmech.C10.Gen.LegGauss\n\n' % rel]
    for n in range(2, 65):
        pts, wts = T['gauss'][n]
        for nm, arr in (('points', pts), ('weights', wts)):
            items = []
            for (sg, m, x) in arr:
                if x > 0:
                    m, x = m * 10 ** x, 0
                items.append('(%s, %d, %d)' % ('true' if sg < 0 else 'false', m, -x))
            out.append('def %s_%d : List (Bool × Nat × Nat) := [%s]\n' % (nm, n, ', '.join(items)))
    out.append('\n/-- `(n, points, weights)` for every `case n` of `leggauss_quad` -/\n')
    out.append('def table : List (Nat × List (Bool × Nat × Nat) × List (Bool × Nat × Nat)) := [%s]\n'
               % ', '.join('(%d, points_%d, weights_%d)' % (n, n, n) for n in range(2, 65)))
    out.append('\nend Compmech.C10.Gen.LegGauss\n')
    put('LegGauss', ''.join(out))
    mods += emit_checks(gen_dir, write)
    return T, mods


CHK_HEADER = ('/- GENERATED by tools/translate/ctables.py — do not edit.\n'
              '   Kernel checks (`decide +kernel`) of the generated data against the exact Bardell data;\n'
              '   the text of this file does not depend on the C sources, only the imported data does. -/\n')


def emit_checks(gen_dir, write):
    """check modules (one per data module) and the per-family `*All` modules"""
    mods = []
    hb = 'set_option maxHeartbeats %d in\n' % HEARTBEATS

    def put(name, text):
        write(os.path.join(gen_dir, name + '.lean'), text)
        mods.append(name)

    def chain(names, nil):
        t = nil
        for n in reversed(names):
            t = 'checkRows_cons_true %s (%s)' % (n, t)
        return t

    # function tables
    out = [CHK_HEADER, 'import CompmechVerif.Bardell.CheckGlue\nimport CompmechVerif.Gen.CTables.Func\n',
           'namespace Compmech.C10.Gen.Func\nopen Compmech.C10\n\n']
    for name, d in (('calc_f', 0), ('calc_fxi', 1), ('calc_fxixi', 2),
                    ('calc_vec_f', 0), ('calc_vec_fxi', 1), ('calc_vec_fxixi', 2)):
        out.append(hb + 'theorem %s_ok : checkRow tolFuncN tolFuncD %s (funcWantRow %d) = true := by decide +kernel\n\n'
                   % (name, name, d))
    out.append('end Compmech.C10.Gen.Func\n')
    put('FuncCheck', ''.join(out))

    def block_check(ns, wrow, tol, lo, hi):
        out = [CHK_HEADER, 'import CompmechVerif.Bardell.CheckGlue\nimport CompmechVerif.Gen.CTables.%s\n' % ns,
               'namespace Compmech.C10.Gen.%s\nopen Compmech.C10\n\n' % ns]
        for i in range(lo, hi):
            out.append(hb + 'theorem row_%d_ok : checkRow %s row_%d (%s %d) = true := by decide +kernel\n\n'
                       % (i, tol, i, wrow, i))
        out.append('theorem ok : checkRows %s (%s) %d rows = true :=\n  %s\n\n'
                   % (tol, wrow, lo, chain(['row_%d_ok' % i for i in range(lo, hi)], 'checkRows_nil_true _ _ _ _')))
        out.append('theorem rows_length : rows.length = %d := rfl\n\n' % (hi - lo))
        out.append('end Compmech.C10.Gen.%s\n' % ns)
        put(ns + 'Check', ''.join(out))

    for fam in FULL:
        d1, d2 = DERIV[fam]
        block_check(module_name('full', fam), 'fullWantRow %d %d' % (d1, d2), 'tolFuncN tolFuncD', 0, NB)
    for kind, fams, wname in (('sub', SUB, 'subWantRow'), ('map', MAP, 'mapWantRow')):
        for fam in fams:
            base = fam[:fam.rindex('_')]
            d1, d2 = DERIV[base]
            wrow = '%s %d %d' % (wname, d1, d2)
            names = []
            for b, (lo, hi) in enumerate(BLOCKS[kind]):
                ns = module_name(kind, base, b)
                names.append(ns)
                block_check(ns, wrow, 'tolSubN tolSubD', lo, hi)
            # the whole table = concatenation of the blocks
            alln = module_name(kind, base) + 'All'
            out = [CHK_HEADER] + ['import CompmechVerif.Gen.CTables.%sCheck\n' % n for n in names]
            out.append('namespace Compmech.C10.Gen.%s\nopen Compmech.C10\n\n' % alln)
            out.append('/-- all 30 rows of `integral_%s` -/\ndef rows : List (List E) :=\n  %s\n\n'
                       % (fam, ' ++ ('.join('%s.rows' % n for n in names) + ')' * (len(names) - 1)))
            t = '%s.ok' % names[-1]
            for n in reversed(names[:-1]):
                t = 'checkRows_append_true %s.ok (%s)' % (n, t)
            out.append('theorem ok : checkRows tolSubN tolSubD (%s) 0 rows = true :=\n  %s\n\n' % (wrow, t))
            out.append('theorem rows_length : rows.length = %d := rfl\n\n' % NB)
            out.append('end Compmech.C10.Gen.%s\n' % alln)
            put(alln, ''.join(out))
    # Gauss
    gnames = []
    for b, (lo, hi) in enumerate(GAUSS_BLOCKS):
        ns = 'LegGaussCheck%d' % b
        gnames.append((ns, lo, hi))
        out = [CHK_HEADER, 'import CompmechVerif.Bardell.Gauss\nimport CompmechVerif.Gen.CTables.LegGauss\n',
               'namespace Compmech.C10.Gen.%s\nopen Compmech.C10 Compmech.C10.Gen.LegGauss\n\n' % ns]
        for n in range(lo, hi):
            out.append(hb + 'theorem c_%d : caseOk (%d, points_%d, weights_%d) = true := by decide +kernel\n\n' % (n, n, n, n))
        out.append('end Compmech.C10.Gen.%s\n' % ns)
        put(ns, ''.join(out))
    out = [CHK_HEADER] + ['import CompmechVerif.Gen.CTables.%s\n' % n for n, _, _ in gnames]
    out.append('namespace Compmech.C10.Gen.LegGaussAll\nopen Compmech.C10 Compmech.C10.Gen.LegGauss\n\n')
    t = 'casesOk_nil'
    for ns, lo, hi in reversed(gnames):
        for n in reversed(range(lo, hi)):
            t = 'casesOk_cons %s.c_%d (%s)' % (ns, n, t)
    out.append('set_option maxRecDepth 8192 in\ntheorem ok : casesOk table = true :=\n  %s\n\n' % t)
    out.append('theorem orders : table.map (fun t => t.1) = List.range\' 2 63 := by decide\n\n')
    out.append('end Compmech.C10.Gen.LegGaussAll\n')
    put('LegGaussAll', ''.join(out))
    return mods


if __name__ == '__main__':
    import sys
    sys.path.insert(0, os.path.dirname(os.path.dirname(os.path.dirname(os.path.abspath(__file__)))))
    from tools import common
    import time
    t0 = time.time()
    T, mods = emit_all(common.REPO, os.path.join(common.LEAN, 'CompmechVerif', 'Gen', 'CTables'), common.write_if_changed)
    print('%d modules, %.1f s' % (len(mods), time.time() - t0))
