"""Translator T for the complete-shell NON-LINEAR kernels compmech/conecyl/clpt/*_nonlinear.pyx (C17, stage 2).

For one model it reads `<model>_nonlinear.pyx` (+ the header .pxi it includes) and produces an intermediate
representation (IR) of the content of ONE integration point (x, t):

  * matrix integrands cfk0L / cfkLL / cfkG:  the `p` rows and `q` columns (closed expressions of the point
    variables, of the laminate entries, of the state slopes and of the trigonometric values of ONE row / column
    degree of freedom) and every entry statement `out[c] = beta*out[c] + alpha*(...)`, block by block
    (row class 0 / 1 / 2  x  column class 1 / 2);  the buffers `k0Lq_2_q04[pos]` are resolved to the definition
    that was stored into them;
  * the positions `rows[c] = ..., cols[c] = ...` of calc_k0L / calc_kLL / calc_kG (loop nest, dof maps, the
    `row > col` skips), zipped with the entry statements in source order;
  * cffint: the accumulations of the state functionals (v, wx, wt, exx0 ... kxt0, exxL ... kxtL) split into ONE
    coefficient per degree-of-freedom type (coefficient of `c[0..2]`, of `c[col+k]` in the i1 loop, of `c[col+k]` in
    the (j2, i2) loop) + a constant part, the stress resultants, and every `fint[...] = beta*... + alpha*(...)`.

The IR is (a) emitted as Lean terms `lean/CompmechVerif/Gen/ConeCylNL/<Model>.lean` over the vocabulary
`Core/ShellNLSpec.lean` and (b) interpreted numerically (`tools/conecyl_nl_v.py`, validation V against the compiled
module).  Anything outside the recognised grammar raises TranslateError.

Degree-of-freedom types: class 0 = the 3 leading amplitudes, class 1 = `num1` per index i1, class 2 = `num2` per index
pair (i2, j2);  type number = offset (class 0), num0 + offset (class 1), num0 + num1 + offset (class 2).
"""
import ast
import copy
import os
import re

from tools.common import REPO, LEAN, write_if_changed
from tools.translate import pyx
from tools.translate.pyx import TranslateError, _src

CLPT = os.path.join('compmech', 'conecyl', 'clpt')
MODELS = {
    # lean name: (directory, module base name, base model whose calc_kG / calc_fint_0L_L0_LL are used (isotropic variants))
    'ClptDonnellBc1': (CLPT, 'clpt_donnell_bc1', None),
    'ClptDonnellBc2': (CLPT, 'clpt_donnell_bc2', None),
    'ClptDonnellBc3': (CLPT, 'clpt_donnell_bc3', None),
    'ClptDonnellBc4': (CLPT, 'clpt_donnell_bc4', None),
    'ClptSandersBc1': (CLPT, 'clpt_sanders_bc1', None),
    'ClptSandersBc2': (CLPT, 'clpt_sanders_bc2', None),
    'ClptSandersBc3': (CLPT, 'clpt_sanders_bc3', None),
    'ClptSandersBc4': (CLPT, 'clpt_sanders_bc4', None),
    'IsoClptDonnellBc2': (CLPT, 'iso_clpt_donnell_bc2', 'clpt_donnell_bc2'),
    'IsoClptDonnellBc3': (CLPT, 'iso_clpt_donnell_bc3', 'clpt_donnell_bc3'),
}
# functions of a module that are not part of the model (not called by conecyl.py)
IGNORED_FUNCS = {'calc_k0L_attempt'}

ROW_VARS = {'i1': 1, 'i2': 2, 'j2': 2}
COL_VARS = {'k1': 1, 'k2': 2, 'l2': 2}
XVARS = ('i1', 'i2', 'k1', 'k2')
TVARS = ('j2', 'l2')
DOFMAP = {1: '({v} - i0) * num1 + num0', 2: '({v} - i0) * num2 + ({w} - j0) * num2 * m2 + num0 + num1 * m1'}
GEOM = ('pi', 'L', 'r', 'r2', 'x', 'sina', 'cosa')
ISO = ('E11', 'nu', 'h')
LAMNAMES = ('A11', 'A12', 'A16', 'A22', 'A26', 'A66', 'B11', 'B12', 'B16', 'B22', 'B26', 'B66',
            'D11', 'D12', 'D16', 'D22', 'D26', 'D66')
CANON_F = {'A11': 0, 'A12': 1, 'A16': 2, 'A22': 7, 'A26': 8, 'A66': 14, 'B11': 3, 'B12': 4, 'B16': 5, 'B22': 10,
           'B26': 11, 'B66': 17, 'D11': 21, 'D12': 22, 'D16': 23, 'D22': 28, 'D26': 29, 'D66': 35}
SLOPES = ('wx', 'wt', 'v')
IMPERF = ('w0x', 'w0t')
STRAIN0 = ('exx0', 'ett0', 'gxt0', 'kxx0', 'ktt0', 'kxt0')
STRAINL = ('exxL', 'ettL', 'gxtL', 'kxxL', 'kttL', 'kxtL')
RES0 = ('Nxx0', 'Ntt0', 'Nxt0', 'Mxx0', 'Mtt0', 'Mxt0')
RESL = ('NxxL', 'NttL', 'NxtL', 'MxxL', 'MttL', 'MxtL')
RESG = ('Nxx', 'Ntt', 'Nxt')
# ---- families: the CLPT modules (6 strains) are the ones emitted to Lean; the FSDT family (8 strains, transverse shear) is
# ---- translated to the IR only (validation V and the exact structural pre-check of tools/translate/gen_shell_jacobian.py)
FSDT = os.path.join('compmech', 'conecyl', 'fsdt')
FAMILIES = {
    'clpt': dict(
        LAMNAMES=LAMNAMES, CANON_F=CANON_F, STRAIN0=STRAIN0, STRAINL=STRAINL, RES0=RES0, RESL=RESL,
        TOTAL=('exx', 'ett', 'gxt', 'kxx', 'ktt', 'kxt'),
        LAM_MATRIX=[['A11', 'A12', 'A16', 'B11', 'B12', 'B16'], ['A12', 'A22', 'A26', 'B12', 'B22', 'B26'],
                    ['A16', 'A26', 'A66', 'B16', 'B26', 'B66'], ['B11', 'B12', 'B16', 'D11', 'D12', 'D16'],
                    ['B12', 'B22', 'B26', 'D12', 'D22', 'D26'], ['B16', 'B26', 'B66', 'D16', 'D26', 'D66']],
        HELPER_ARGS={'cfwx': 'coeffs, m1, m2, n2, xs, ts, npts, L, wxs', 'cfwt': 'coeffs, m1, m2, n2, xs, ts, npts, L, wts'},
        CFN_INCLUDE='clpt_commons_include_cfN.pxi'),
    'fsdt': dict(
        LAMNAMES=LAMNAMES + ('A44', 'A45', 'A55'),
        CANON_F={'A11': 0, 'A12': 1, 'A16': 2, 'A22': 9, 'A26': 10, 'A66': 18, 'B11': 3, 'B12': 4, 'B16': 5, 'B22': 12, 'B26': 13,
                 'B66': 21, 'D11': 27, 'D12': 28, 'D16': 29, 'D22': 36, 'D26': 37, 'D66': 45, 'A44': 54, 'A45': 55, 'A55': 63},
        STRAIN0=STRAIN0 + ('gtz0', 'gxz0'), STRAINL=STRAINL + ('gtzL', 'gxzL'),
        RES0=RES0 + ('Qt0', 'Qx0'), RESL=RESL + ('QtL', 'QxL'),
        TOTAL=('exx', 'ett', 'gxt', 'kxx', 'ktt', 'kxt', 'gtz', 'gxz'),
        LAM_MATRIX=[['A11', 'A12', 'A16', 'B11', 'B12', 'B16', None, None], ['A12', 'A22', 'A26', 'B12', 'B22', 'B26', None, None],
                    ['A16', 'A26', 'A66', 'B16', 'B26', 'B66', None, None], ['B11', 'B12', 'B16', 'D11', 'D12', 'D16', None, None],
                    ['B12', 'B22', 'B26', 'D12', 'D22', 'D26', None, None], ['B16', 'B26', 'B66', 'D16', 'D26', 'D66', None, None],
                    [None] * 6 + ['A44', 'A45'], [None] * 6 + ['A45', 'A55']],
        HELPER_ARGS={'cfwx': 'coeffs, m1, m2, n2, L, xs, ts, npts, wxs', 'cfwt': 'coeffs, m1, m2, n2, L, xs, ts, npts, wts'},
        CFN_INCLUDE='fsdt_commons_include_cfN.pyx'),
}
FAMILY = 'clpt'
LAM_MATRIX = FAMILIES['clpt']['LAM_MATRIX']
TOTAL = FAMILIES['clpt']['TOTAL']
CFN_INCLUDE = FAMILIES['clpt']['CFN_INCLUDE']


def use_family(name):
    """rebinds the family-dependent vocabulary (module globals) before a model of that family is translated"""
    g = globals()
    fam = FAMILIES[name]
    for k in ('LAMNAMES', 'CANON_F', 'STRAIN0', 'STRAINL', 'RES0', 'RESL', 'TOTAL', 'LAM_MATRIX', 'CFN_INCLUDE'):
        g[k] = fam[k]
    g['FAMILY'] = name
    for f, a in fam['HELPER_ARGS'].items():
        HELPER_CALLS[f] = '%s(%s)' % (f, a)
    g['GROUPS'] = [('G', set(GEOM) | {'ctLA', 'stLA', 'w0x', 'w0t'} | set(g['LAMNAMES']) | set(ISO)), ('S', set(SLOPES)),
                   ('E', set(g['STRAIN0'] + g['STRAINL'])), ('N', set(g['RES0'] + g['RESL'])), ('NG', set(RESG))]


# models translated to the IR only (no Lean emission yet): name -> (directory, module base name, base model)
IR_ONLY_MODELS = {
    'FsdtDonnellBc1': (FSDT, 'fsdt_donnell_bc1', None),
    'FsdtDonnellBc2': (FSDT, 'fsdt_donnell_bc2', None),
    'FsdtDonnellBc3': (FSDT, 'fsdt_donnell_bc3', None),
    'FsdtDonnellBc4': (FSDT, 'fsdt_donnell_bc4', None),
    'FsdtDonnellBcn': (FSDT, 'fsdt_donnell_bcn', None),
}

TRIGFILL = {'sin(pi * {v} * x / L)': 'sx', 'cos(pi * {v} * x / L)': 'cx', 'sin({v} * t)': 'st', 'cos({v} * t)': 'ct'}


# ------------------------------------------------------------------------------------------- parsing
def load_module(path, only=None):
    """-> (consts, funcs) ; constants of the included header are merged in.  With `only`, every other top-level function
    of the file is cut out textually first (the commons modules contain helpers with signatures outside the grammar)."""
    src = open(path).read()
    if only is not None:
        parts = re.split(r'(?m)^(?=(?:def|cdef|cpdef) )', src)
        keep = []
        for part in parts:
            m = re.match(r'^(?:def|cdef|cpdef)\s+(?:[\w\*]+\s+\*?)*?(\w+)\s*\(', part)
            if m and not re.match(r'^cdef\s+(?:int|double)\s+\w+\s*=', part) and m.group(1) not in only:
                keep.append('\n' * part.count('\n'))
            else:
                keep.append(part)
        src = ''.join(keep)
    # experimental functions that conecyl.py never calls are cut out textually (their names are listed in IGNORED_FUNCS)
    for nm in sorted(IGNORED_FUNCS):
        m = re.search(r'^def %s\(.*?(?=^(?:def|cdef) )' % nm, src, flags=re.M | re.S)
        if m:
            src = src[:m.start()] + '\n' * src[m.start():m.end()].count('\n') + src[m.end():]
    consts = {}
    for inc in re.findall(r"^include '([^']+)'", src, flags=re.M):
        hp = os.path.join(os.path.dirname(path), inc)
        for m in re.finditer(r'^cdef\s+(?:int|double)\s+(\w+)\s*=\s*([-\d.eE]+)', open(hp).read(), flags=re.M):
            consts[m.group(1)] = ast.literal_eval(m.group(2))
    py = pyx.preprocess(src)
    py = re.sub(r"^include '([^']+)'", r'pass', py, flags=re.M)
    py = re.sub(r'<\s*(?:double|int|long|void|cc_attributes)\s*\*?\s*>', '', py)
    py = py.replace('&', '')
    py = re.sub(r'malloc\([^\n]*\)', 'malloc()', py)
    py = re.sub(r'prange\(([^,\n]+),[^\n]*\n[^\n]*\):', r'range(\1):', py)
    try:
        tree = ast.parse(py)
    except SyntaxError as e:
        raise TranslateError('%s: cannot parse after preprocessing: %s (line %s)' % (path, e.msg, e.lineno))
    funcs = {}
    for node in tree.body:
        if isinstance(node, ast.Assign) and len(node.targets) == 1 and isinstance(node.targets[0], ast.Name) \
                and isinstance(node.value, ast.Constant):
            consts[node.targets[0].id] = node.value.value
        elif isinstance(node, ast.FunctionDef):
            funcs[node.name] = node
        elif isinstance(node, (ast.Pass, ast.Import, ast.ImportFrom)) or \
                (isinstance(node, ast.Expr) and isinstance(node.value, ast.Constant)):
            continue
        elif isinstance(node, ast.Assign) and _src(node) == 'DOUBLE = np.float64':
            continue
        else:
            raise TranslateError('%s:%d: unexpected module-level statement %s' % (path, node.lineno, _src(node)[:60]))
    return consts, funcs


def _is_c_incr(st):
    return isinstance(st, ast.AugAssign) and isinstance(st.target, ast.Name) and st.target.id == 'c' \
        and isinstance(st.op, ast.Add) and _src(st.value) == '1'


def _loop_var(node, fname):
    """`for v in range(i0, m+i0)` -> (v, lo source, hi source)"""
    if not (isinstance(node.target, ast.Name) and isinstance(node.iter, ast.Call) and _src(node.iter.func) == 'range'
            and len(node.iter.args) == 2 and not node.orelse):
        raise TranslateError('%s:%d: unexpected loop %s' % (fname, node.lineno, _src(node)[:60]))
    return node.target.id, _src(node.iter.args[0]), _src(node.iter.args[1])


LOOP_RANGE = {'i1': ('i0', 'm1 + i0'), 'k1': ('i0', 'm1 + i0'), 'i2': ('i0', 'm2 + i0'), 'k2': ('i0', 'm2 + i0'),
              'j2': ('j0', 'n2 + j0'), 'l2': ('j0', 'n2 + j0')}


def _check_range(v, lo, hi, fname, lineno):
    if v not in LOOP_RANGE or LOOP_RANGE[v] != (lo, hi):
        raise TranslateError('%s:%d: loop `for %s in range(%s, %s)` is not a series loop' % (fname, lineno, v, lo, hi))


def _check_dofmap(kind, expr_src, loops, fname, lineno):
    """`row = ...` / `col = ...` must be the canonical dof map of the innermost row / column index set"""
    vs = [v for v in loops if v in (ROW_VARS if kind == 'row' else COL_VARS)]
    cls = (ROW_VARS if kind == 'row' else COL_VARS)[vs[0]] if vs else None
    if cls == 1:
        want = DOFMAP[1].format(v=vs[0])
    elif cls == 2:
        xs = [v for v in vs if v in XVARS]
        ts = [v for v in vs if v in TVARS]
        if len(xs) != 1 or len(ts) != 1:
            raise TranslateError('%s:%d: dof map outside a complete index pair' % (fname, lineno))
        want = DOFMAP[2].format(v=xs[0], w=ts[0])
    else:
        raise TranslateError('%s:%d: `%s = %s` outside a series loop' % (fname, lineno, kind, expr_src))
    if expr_src != want:
        raise TranslateError('%s:%d: unexpected dof map `%s = %s` (expected %s)' % (fname, lineno, kind, expr_src, want))
    return cls


# ------------------------------------------------------------------------------------------- calc_* : positions
class PosBlock(object):
    def __init__(self, rc, cc, loops, skip):
        self.rc, self.cc, self.loops, self.skip = rc, cc, tuple(loops), skip
        self.pos = []          # [(ro, co)] ; ro is the literal row for row class 0

    def key(self):
        return (self.rc, self.cc)


class CalcFn(object):
    def __init__(self, name):
        self.name = name
        self.blocks = []
        self.fdim = None
        self.integrand = None
        self.arrays = None
        self.limits = {}
        self.size = None


CALC_ARGS = ['sina', 'cosa', 'tLA', 'r2', 'L', 'F', 'm1', 'm2', 'n2', 'coeffs', 'c0', 'm0', 'n0']


def walk_calc(fn, lam_mode='F'):
    """calc_k0L / calc_kLL / calc_kG / calc_fint_0L_L0_LL: set-up, integratev call and the (rows, cols) loop nest"""
    C = CalcFn(fn.name)
    args_set = {}
    body = list(fn.body)
    blocks = {}

    def nest(stmts, loops, state):
        i = 0
        while i < len(stmts):
            st = stmts[i]
            if isinstance(st, ast.For):
                v, lo, hi = _loop_var(st, fn.name)
                _check_range(v, lo, hi, fn.name, st.lineno)
                nest(st.body, loops + [v], dict(state, skip=False))
                i += 1
                continue
            if isinstance(st, ast.Assign) and isinstance(st.targets[0], ast.Name) and st.targets[0].id in ('row', 'col'):
                state[st.targets[0].id] = _check_dofmap(st.targets[0].id, _src(st.value), loops, fn.name, st.lineno)
                i += 1
                continue
            if isinstance(st, ast.If):
                if _src(st.test) == 'row > col' and len(st.body) == 1 and isinstance(st.body[0], ast.Continue) and not st.orelse:
                    state['skip'] = True
                    i += 1
                    continue
                raise TranslateError('%s:%d: unexpected if %s' % (fn.name, st.lineno, _src(st.test)))
            if _is_c_incr(st):
                if i + 2 >= len(stmts):
                    raise TranslateError('%s:%d: dangling `c += 1`' % (fn.name, st.lineno))
                r, cc = stmts[i + 1], stmts[i + 2]
                mr = re.match(r'^(\w+)\[c\] = (?:row \+ )?(\d+)$', _src(r))
                mc = re.match(r'^(\w+)\[c\] = (?:col \+ )?(\d+)$', _src(cc))
                if not mr or not mc:
                    raise TranslateError('%s:%d: unrecognised position statements `%s` / `%s`' % (fn.name, st.lineno, _src(r), _src(cc)))
                lit_row = '= row +' not in _src(r)
                rvars = [v for v in loops if v in ROW_VARS]
                if lit_row != (not rvars):
                    raise TranslateError('%s:%d: literal row inside a row loop (or `row +` outside)' % (fn.name, st.lineno))
                rc = 0 if lit_row else state.get('row')
                lit_col = '= col +' not in _src(cc)
                cvars = [v for v in loops if v in COL_VARS]
                if lit_col != (not cvars):
                    raise TranslateError('%s:%d: literal column inside a column loop (or `col +` outside)' % (fn.name, st.lineno))
                ccls = 0 if lit_col else state.get('col')
                if rc is None or ccls is None:
                    raise TranslateError('%s:%d: position before row / col is defined' % (fn.name, st.lineno))
                arrs = (mr.group(1), mc.group(1))
                if C.arrays not in (None, arrs):
                    raise TranslateError('%s:%d: positions written to %r, expected %r' % (fn.name, st.lineno, arrs, C.arrays))
                C.arrays = arrs
                key = (rc, ccls)
                if key not in blocks:
                    blocks[key] = PosBlock(rc, ccls, loops, state['skip'])
                    C.blocks.append(blocks[key])
                b = blocks[key]
                if b.loops != tuple(loops) or b.skip != state['skip']:
                    raise TranslateError('%s:%d: block %r written from two different loop nests' % (fn.name, st.lineno, key))
                b.pos.append((int(mr.group(2)), int(mc.group(2))))
                i += 3
                continue
            raise TranslateError('%s:%d: unexpected statement in the position nest: %s' % (fn.name, st.lineno, _src(st)[:60]))

    toplevel_loops = []
    k = 0
    while k < len(body):
        st = body[k]
        k += 1
        s = _src(st)
        if _is_c_incr(st):
            # block 00: positions written before the first loop
            toplevel_loops.append(('pos', body[k - 1:k + 2]))
            k += 2
            continue
        if isinstance(st, (ast.Pass, ast.Return)) or (isinstance(st, ast.Expr) and isinstance(st.value, ast.Constant)):
            continue
        if isinstance(st, ast.For):
            toplevel_loops.append(st)
            continue
        if isinstance(st, ast.Assign) and len(st.targets) == 1:
            t = _src(st.targets[0])
            if t == 'fdim':
                C.fdim = _src(st.value)
                continue
            if t in ('sina', 'cosa'):
                if s != '%s = %s(alpharad)' % (t, t[:3]):
                    raise TranslateError('%s:%d: %s' % (fn.name, st.lineno, s))
                C.limits[t] = _src(st.value)
                continue
            if t in ('xa', 'xb', 'ta', 'tb'):
                C.limits[t] = _src(st.value)
                continue
            if t.startswith('args.'):
                args_set[t[5:]] = _src(st.value)
                continue
            if t == 'c' and s == 'c = -1':
                continue
            if t == 'size':
                C.size = _src(st.value)
                continue
            if isinstance(st.value, ast.Call) and _src(st.value.func) in ('np.zeros', 'coo_matrix'):
                continue
        if isinstance(st, ast.Expr) and isinstance(st.value, ast.Call) and _src(st.value.func) == 'integratev':
            a = [_src(x) for x in st.value.args]
            if len(a) != 12 or a[1] != 'fdim' or a[3:9] != ['xa', 'xb', 'nx', 'ta', 'tb', 'nt'] or a[9:] != ['args', 'num_cores', 'method']:
                raise TranslateError('%s:%d: unexpected integratev call %s' % (fn.name, st.lineno, s))
            C.integrand = a[0]
            continue
        raise TranslateError('%s:%d: unexpected statement %s' % (fn.name, st.lineno, s[:70]))
    want_lim = {'xa': '0.0', 'xb': 'L', 'ta': '0.0', 'tb': '2 * pi', 'sina': 'sin(alpharad)', 'cosa': 'cos(alpharad)'}
    if C.limits != want_lim:
        raise TranslateError('%s: integration limits / trigonometry %r' % (fn.name, C.limits))
    want_args = {a: (a + '[0]' if a in ('coeffs', 'c0') else ('F[0, 0]' if a == 'F' else a)) for a in CALC_ARGS}
    if lam_mode == 'iso':
        del want_args['F']
        want_args.update({a: a for a in ISO})
    if args_set != want_args:
        raise TranslateError('%s: args = %r' % (fn.name, args_set))
    for st in toplevel_loops:
        nest(st[1] if isinstance(st, tuple) else [st], [], {'skip': False})
    if fn.name != 'calc_fint_0L_L0_LL' and C.size != 'num0 + num1 * m1 + num2 * m2 * n2':
        raise TranslateError('%s: size = %r' % (fn.name, C.size))
    return C


# ------------------------------------------------------------------------------------------- symbolic resolution
class Def(object):
    """a named closed expression at one point (`p` row / `q` column / resultant / ...)"""

    def __init__(self, ident, expr, lineno, role):
        self.ident, self.expr, self.lineno, self.role = ident, expr, lineno, role   # role: 'a' | 'b' | None


class Resolver(object):
    """replaces local names of an expression by canonical ones:
         trig locals / array reads -> Name('sx__i1') ...,  index variables -> Name('idx__i1'),
         `cos(t - tLA)` -> Name('ctLA'), inlined scalar locals, definitions -> Name('def__<ident>'),
         module constants (castro, w0) -> literals"""

    def __init__(self, fname, consts):
        self.fname, self.consts = fname, consts
        self.arrays = {}        # trig array name -> (kind, offset const name)
        self.env = {}           # local name -> ast (already resolved)
        self.lam = {}           # laminate name -> flat index into F
        self.ctx = set(GEOM)    # names that stay as context variables

    def trig_call(self, node):
        s = _src(node)
        if s == 'cos(t - tLA)':
            return ast.Name('ctLA')
        if s == 'sin(t - tLA)':
            return ast.Name('stLA')
        for v in XVARS + TVARS:
            for pat, kind in TRIGFILL.items():
                if s == pat.format(v=v) and ((kind in ('sx', 'cx')) == (v in XVARS)):
                    return ast.Name('%s__%s' % (kind, v))
        # commons write `sin(i1*pi*x/L)`
        for v in XVARS:
            if s == 'sin(%s * pi * x / L)' % v:
                return ast.Name('sx__%s' % v)
            if s == 'cos(%s * pi * x / L)' % v:
                return ast.Name('cx__%s' % v)
        raise TranslateError('%s:%d: unrecognised call %s' % (self.fname, node.lineno, s))

    def resolve(self, e):
        R = self.resolve
        if isinstance(e, ast.BinOp):
            if isinstance(e.op, ast.Pow) and isinstance(e.right, ast.Constant) and e.right.value in (2, 3, 4) \
                    and not isinstance(e.right.value, bool):
                base = R(e.left)          # x**n is written out as the product x*x*...
                out = base
                for _ in range(e.right.value - 1):
                    out = ast.BinOp(out, ast.Mult(), copy.deepcopy(base))
                return out
            if not isinstance(e.op, (ast.Add, ast.Sub, ast.Mult, ast.Div)):
                raise TranslateError('%s:%d: unsupported operator in %s' % (self.fname, e.lineno, _src(e)[:60]))
            return ast.BinOp(R(e.left), e.op, R(e.right))
        if isinstance(e, ast.UnaryOp) and isinstance(e.op, (ast.USub, ast.UAdd)):
            return R(e.operand) if isinstance(e.op, ast.UAdd) else ast.UnaryOp(ast.USub(), R(e.operand))
        if isinstance(e, ast.Constant):
            if isinstance(e.value, bool) or not isinstance(e.value, (int, float)):
                raise TranslateError('%s: unsupported constant %r' % (self.fname, e.value))
            return ast.Constant(e.value)
        if isinstance(e, ast.Call):
            if _src(e.func) in ('sin', 'cos') and len(e.args) == 1:
                return self.trig_call(e)
            raise TranslateError('%s:%d: unsupported call %s' % (self.fname, e.lineno, _src(e)[:60]))
        if isinstance(e, ast.Subscript):
            arr = _src(e.value)
            if arr in self.arrays:
                kind, off = self.arrays[arr]
                m = re.match(r'^(\w+) - (\w+)$', _src(e.slice))
                if not m or m.group(2) != off or (m.group(1) not in (XVARS if kind in ('sx', 'cx') else TVARS)):
                    raise TranslateError('%s:%d: unexpected index of %s: %s' % (self.fname, e.lineno, arr, _src(e.slice)))
                return ast.Name('%s__%s' % (kind, m.group(1)))
            if arr == 'c':
                return ast.Subscript(ast.Name('c'), copy.deepcopy(e.slice))
            raise TranslateError('%s:%d: unsupported subscript %s' % (self.fname, e.lineno, _src(e)))
        if isinstance(e, ast.Name):
            n = e.id
            if n in self.env:
                v = self.env[n]
                return ast.Name('def__' + v.ident) if isinstance(v, Def) else copy.deepcopy(v)
            if n in XVARS + TVARS:
                return ast.Name('idx__' + n)
            if n in self.ctx or n in self.lam:
                return ast.Name(n)
            if n in ('castro',):
                return ast.Constant(self.consts[n])
            raise TranslateError('%s:%d: unknown name %s' % (self.fname, getattr(e, 'lineno', 0), n))
        raise TranslateError('%s: unsupported expression %s' % (self.fname, _src(e)[:80]))


def names_of(e):
    return {n.id for n in ast.walk(e) if isinstance(n, ast.Name)}


def index_vars_of(e, defs=None):
    """series index variables an already resolved expression depends on (through atoms, indices and definitions)"""
    out = set()
    for n in names_of(e):
        if '__' in n:
            k, v = n.split('__', 1)
            if k == 'def':
                if defs is not None:
                    out |= index_vars_of(defs[v].expr, defs)
            else:
                out.add(v)
    return out


# ------------------------------------------------------------------------------------------- cf* : matrix integrands
class MatBlock(object):
    def __init__(self, rc, cc, loops, skip):
        self.rc, self.cc, self.loops, self.skip = rc, cc, tuple(loops), skip
        self.entries = []       # [(resolved expr over def__ names, lineno)]


class MatKernel(object):
    def __init__(self, name):
        self.name = name
        self.defs = {}          # ident -> Def   (p0_00, p1_20, q2_04 ...)
        self.def_order = []
        self.blocks = []
        self.lam = {}
        self.reads = {}         # point-level scalar -> source array read (`wx` -> 'wxs[i]')
        self.calls = []         # helper calls before the point loop (cfwx ..., cfN ...)
        self.rdef = None


POINT_READS = {'x': 'xs[i]', 't': 'ts[i]', 'wx': 'wxs[i]', 'wt': 'wts[i]', 'v': 'vs[i]', 'w0x': 'w0xs[i]', 'w0t': 'w0ts[i]',
               'alpha': 'alphas[i]', 'beta': 'betas[i]',
               'Nxx': 'Ns[e_num * i + 0]', 'Ntt': 'Ns[e_num * i + 1]', 'Nxt': 'Ns[e_num * i + 2]'}
HELPER_CALLS = {
    'cfwx': 'cfwx(coeffs, m1, m2, n2, xs, ts, npts, L, wxs)',
    'cfwt': 'cfwt(coeffs, m1, m2, n2, xs, ts, npts, L, wts)',
    'cfv': 'cfv(coeffs, m1, m2, n2, xs, ts, npts, r2, L, vs)',
    'cfw0x': 'cfw0x(xs, ts, npts, c0, L, m0, n0, w0xs, funcnum)',
    'cfw0t': 'cfw0t(xs, ts, npts, c0, L, m0, n0, w0ts, funcnum)',
    'cfN': 'cfN(coeffs, sina, cosa, tLA, xs, ts, npts, r2, L, F, m1, m2, n2, c0, m0, n0, funcnum, Ns, NL_kinematics)',
}
ARGS_IN = {'sina': 'args_in.sina[0]', 'cosa': 'args_in.cosa[0]', 'tLA': 'args_in.tLA[0]', 'r2': 'args_in.r2[0]', 'L': 'args_in.L[0]',
           'F': 'args_in.F', 'm1': 'args_in.m1[0]', 'm2': 'args_in.m2[0]', 'n2': 'args_in.n2[0]', 'coeffs': 'args_in.coeffs',
           'c': 'args_in.coeffs', 'c0': 'args_in.c0', 'm0': 'args_in.m0[0]', 'n0': 'args_in.n0[0]'}


def _preamble(fn, R, K, allow_iso=False):
    """statements before `for i in range(npts)`; returns the point loop"""
    point_loop = None
    for st in fn.body:
        s = _src(st)
        if isinstance(st, ast.Pass) or (isinstance(st, ast.Expr) and isinstance(st.value, ast.Constant)):
            continue
        if isinstance(st, ast.Expr) and isinstance(st.value, ast.Call):
            f = _src(st.value.func)
            if f == 'free':
                continue
            if f in HELPER_CALLS and point_loop is None:
                got = s if fn.name != 'cffint' else s
                if got != HELPER_CALLS[f]:
                    raise TranslateError('%s:%d: unexpected helper call %s' % (fn.name, st.lineno, s))
                K.calls.append(f)
                continue
            raise TranslateError('%s:%d: unexpected call %s' % (fn.name, st.lineno, s[:70]))
        if isinstance(st, ast.Assign) and len(st.targets) == 1 and isinstance(st.targets[0], ast.Name) and point_loop is None:
            t = st.targets[0].id
            if t == 'args_in' and s == 'args_in = args':
                continue
            if t in ARGS_IN and _src(st.value) == ARGS_IN[t]:
                continue
            m = re.match(r'^F\[(\d+)\]$', _src(st.value))
            if m and t in LAMNAMES:
                R.lam[t] = int(m.group(1))
                continue
            if allow_iso and t in ISO and _src(st.value) == 'args_in.%s[0]' % t:
                R.ctx.add(t)
                continue
        if isinstance(st, ast.For) and point_loop is None:
            if _src(st.target) != 'i' or _src(st.iter) != 'range(npts)':
                raise TranslateError('%s:%d: unexpected loop %s' % (fn.name, st.lineno, s[:50]))
            point_loop = st
            continue
        raise TranslateError('%s:%d: unexpected statement %s' % (fn.name, st.lineno, s[:70]))
    if point_loop is None:
        raise TranslateError('%s: no point loop' % fn.name)
    K.lam = dict(R.lam)
    return point_loop




def _trig_fill(st, R, fname):
    """`for i1 in range(i0, m1+i0): vsini1x[i1-i0] = sin(pi*i1*x/L) ...` -> registers the arrays; True if it was one"""
    if not isinstance(st, ast.For):
        return False
    if not all(isinstance(b, ast.Assign) and isinstance(b.targets[0], ast.Subscript) and
               isinstance(b.value, ast.Call) and _src(b.value.func) in ('sin', 'cos') for b in st.body):
        return False
    v, lo, hi = _loop_var(st, fname)
    _check_range(v, lo, hi, fname, st.lineno)
    for b in st.body:
        arr = _src(b.targets[0].value)
        idx = _src(b.targets[0].slice)
        off = 'i0' if v in XVARS else 'j0'
        if idx != '%s - %s' % (v, off) or not arr.startswith('v'):
            raise TranslateError('%s:%d: unexpected trig fill %s' % (fname, b.lineno, _src(b)))
        kind = None
        for pat, k in TRIGFILL.items():
            if _src(b.value) == pat.format(v=v) and ((k in ('sx', 'cx')) == (v in XVARS)):
                kind = k
        if kind is None:
            raise TranslateError('%s:%d: unexpected trig fill %s' % (fname, b.lineno, _src(b)))
        # the array is indexed by a series index of the same family later on (i1 / k1 share vsini1x)
        if arr in R.arrays and R.arrays[arr] != (kind, off):
            raise TranslateError('%s:%d: trig array %s refilled differently' % (fname, b.lineno, arr))
        R.arrays[arr] = (kind, off)
    return True


def walk_cfmat(fn, consts, iso=False):
    K = MatKernel(fn.name)
    R = Resolver(fn.name, consts)
    point_loop = _preamble(fn, R, K, allow_iso=iso)
    bufs = {}
    blocks = {}

    def cls_of(loops, table):
        vs = [v for v in loops if v in table]
        return table[vs[0]] if vs else 0

    def define(name, value, loops, lineno):
        kind = name[0]
        expr = R.resolve(value)
        if kind == 'p':
            cl, role, allowed = cls_of(loops, ROW_VARS), 'a', set(ROW_VARS)
        else:
            cl, role, allowed = cls_of(loops, COL_VARS), 'b', set(COL_VARS)
        iv = index_vars_of(expr, K.defs)
        if not iv <= allowed:
            raise TranslateError('%s:%d: %s depends on %s' % (fn.name, lineno, name, sorted(iv - allowed)))
        ident = '%s%d_%s' % (kind, cl, name[1:])
        d = Def(ident, expr, lineno, role if cl else None)
        if ident in K.defs:
            if ast.dump(K.defs[ident].expr) != ast.dump(expr):
                raise TranslateError('%s:%d: %s redefined with a different expression' % (fn.name, lineno, ident))
            d = K.defs[ident]
        else:
            K.defs[ident] = d
            K.def_order.append(ident)
        R.env[name] = d

    def body(stmts, loops, state):
        i = 0
        while i < len(stmts):
            st = stmts[i]
            s = _src(st)
            if isinstance(st, ast.Pass):
                i += 1
                continue
            if isinstance(st, ast.For):
                if not loops and _trig_fill(st, R, fn.name):
                    i += 1
                    continue
                v, lo, hi = _loop_var(st, fn.name)
                _check_range(v, lo, hi, fn.name, st.lineno)
                saved = dict(R.env)
                body(st.body, loops + [v], dict(state, skip=False))
                # definitions made inside the loop stay visible only through buffers
                R.env = saved
                i += 1
                continue
            if isinstance(st, ast.If):
                if _src(st.test) == 'row > col' and len(st.body) == 1 and isinstance(st.body[0], ast.Continue) and not st.orelse:
                    if state.get('row') is None or state.get('col') is None or state['row'] != state['col']:
                        raise TranslateError('%s:%d: `row > col` skip between different classes' % (fn.name, st.lineno))
                    state['skip'] = True
                    i += 1
                    continue
                raise TranslateError('%s:%d: unexpected if %s' % (fn.name, st.lineno, _src(st.test)))
            if _is_c_incr(st):
                if i + 1 >= len(stmts):
                    raise TranslateError('%s:%d: dangling `c += 1`' % (fn.name, st.lineno))
                e = stmts[i + 1]
                ok = isinstance(e, ast.Assign) and _src(e.targets[0]) == 'out[c]' and isinstance(e.value, ast.BinOp) \
                    and isinstance(e.value.op, ast.Add) and _src(e.value.left) == 'beta * out[c]' \
                    and isinstance(e.value.right, ast.BinOp) and isinstance(e.value.right.op, ast.Mult) \
                    and _src(e.value.right.left) == 'alpha'
                if not ok:
                    raise TranslateError('%s:%d: unrecognised entry statement %s' % (fn.name, e.lineno, _src(e)[:80]))
                rc, cc = cls_of(loops, ROW_VARS), cls_of(loops, COL_VARS)
                key = (rc, cc)
                if key not in blocks:
                    blocks[key] = MatBlock(rc, cc, loops, state['skip'])
                    K.blocks.append(blocks[key])
                b = blocks[key]
                if b.loops != tuple(loops) or b.skip != state['skip']:
                    raise TranslateError('%s:%d: block %r written from two loop nests' % (fn.name, e.lineno, key))
                expr = R.resolve(e.value.right.right)
                for n in names_of(expr):
                    if not n.startswith('def__'):
                        raise TranslateError('%s:%d: entry uses %s directly' % (fn.name, e.lineno, n))
                b.entries.append((expr, e.lineno))
                i += 2
                continue
            if isinstance(st, ast.Assign) and len(st.targets) == 1:
                tgt, val = st.targets[0], st.value
                if isinstance(tgt, ast.Name):
                    t = tgt.id
                    if not loops:
                        if t in POINT_READS and _src(val) == POINT_READS[t]:
                            K.reads[t] = _src(val)
                            if t not in ('x', 't', 'alpha', 'beta'):
                                R.ctx.add(t)
                            i += 1
                            continue
                        if t == 'r':
                            if _src(val) not in ('r2 + sina * x', 'r2 + x * sina'):
                                raise TranslateError('%s:%d: r = %s' % (fn.name, st.lineno, _src(val)))
                            K.rdef = _src(val)
                            i += 1
                            continue
                        if t == 'c' and s == 'c = -1':
                            i += 1
                            continue
                    if t in ('row', 'col'):
                        state[t] = _check_dofmap(t, _src(val), loops, fn.name, st.lineno)
                        i += 1
                        continue
                    if t == 'pos':
                        if _src(val) not in ('(k2 - i0) * n2 + (l2 - j0)', 'k1 - i0') or not (names_of(val) & set(XVARS + TVARS)) <= set(loops):
                            raise TranslateError('%s:%d: pos = %s' % (fn.name, st.lineno, _src(val)))
                        state['pos'] = _src(val)
                        i += 1
                        continue
                    if isinstance(val, ast.Subscript) and _src(val.value) in bufs:
                        arr = _src(val.value)
                        idx, d, nm = bufs[arr]
                        here = state.get('pos') if _src(val.slice) == 'pos' else _src(val.slice)
                        if here != idx or nm != t:
                            raise TranslateError('%s:%d: buffer %s read as %s[%s] into %s' % (fn.name, st.lineno, arr, arr, _src(val.slice), t))
                        R.env[t] = d
                        i += 1
                        continue
                    if isinstance(val, ast.Subscript) and _src(val.value) in R.arrays:
                        R.env[t] = R.resolve(val)
                        i += 1
                        continue
                    if re.match(r'^[pq]\d\d(?:\d\d)?$', t):
                        define(t, val, loops, st.lineno)
                        i += 1
                        continue
                if isinstance(tgt, ast.Subscript) and isinstance(val, ast.Name) and re.match(r'^\w+q_\d_q\d\d(?:\d\d)?$', _src(tgt.value)):
                    arr = _src(tgt.value)
                    idx = _src(tgt.slice)
                    if idx not in ('k1 - i0', 'pos') or not arr.endswith('_' + val.id) or not isinstance(R.env.get(val.id), Def):
                        raise TranslateError('%s:%d: unexpected buffer store %s' % (fn.name, st.lineno, s))
                    if arr in bufs:
                        raise TranslateError('%s:%d: buffer %s stored twice' % (fn.name, st.lineno, arr))
                    if idx == 'pos':
                        idx = state.get('pos')      # the buffer is addressed by the series indices behind `pos`
                    bufs[arr] = (idx, R.env[val.id], val.id)
                    i += 1
                    continue
            raise TranslateError('%s:%d: unexpected statement %s' % (fn.name, st.lineno, s[:80]))
    body(point_loop.body, [], {'skip': False})
    for req in ('x', 't', 'alpha', 'beta'):
        if req not in K.reads:
            raise TranslateError('%s: point variable %s is not read' % (fn.name, req))
    if K.rdef is None:
        raise TranslateError('%s: r is not defined' % fn.name)
    K.ctx = set(R.ctx)
    return K


# ------------------------------------------------------------------------------------------- cffint
_ONE = ast.Constant(1)


def split_linear(e, fname):
    """resolved expression, affine in the amplitudes c[...] -> {None | index source: coefficient ast}"""
    def has_c(n):
        return any(isinstance(x, ast.Subscript) and _src(x.value) == 'c' for x in ast.walk(n))

    def neg(d):
        return {k: ast.UnaryOp(ast.USub(), v) for k, v in d.items()}

    def add(a, b):
        out = dict(a)
        for k, v in b.items():
            out[k] = ast.BinOp(out[k], ast.Add(), v) if k in out else v
        return out

    def mul(a, b):
        if a is _ONE:
            return b
        if b is _ONE:
            return a
        return ast.BinOp(a, ast.Mult(), b)

    def go(n):
        if not has_c(n):
            return {None: n}
        if isinstance(n, ast.Subscript):
            return {_src(n.slice): _ONE}
        if isinstance(n, ast.UnaryOp) and isinstance(n.op, ast.USub):
            d = go(n.operand)
            return {k: (ast.UnaryOp(ast.USub(), ast.Constant(1)) if v is _ONE else ast.UnaryOp(ast.USub(), v)) for k, v in d.items()}
        if isinstance(n, ast.BinOp):
            if isinstance(n.op, ast.Add):
                return add(go(n.left), go(n.right))
            if isinstance(n.op, ast.Sub):
                r = go(n.right)
                r = {k: (ast.Constant(1) if v is _ONE else v) for k, v in r.items()}
                left = go(n.left)
                out = dict(left)
                for k, v in r.items():
                    out[k] = ast.BinOp(out[k], ast.Sub(), v) if k in out else ast.UnaryOp(ast.USub(), v)
                return out
            if isinstance(n.op, ast.Mult):
                lc, rc = has_c(n.left), has_c(n.right)
                if lc and rc:
                    raise TranslateError('%s: product of two amplitude-dependent factors: %s' % (fname, _src(n)[:80]))
                if lc:
                    return {k: mul(v, n.right) for k, v in go(n.left).items()}
                return {k: mul(n.left, v) for k, v in go(n.right).items()}
            if isinstance(n.op, ast.Div):
                if has_c(n.right):
                    raise TranslateError('%s: amplitude in a denominator: %s' % (fname, _src(n)[:80]))
                return {k: ast.BinOp(ast.Constant(1) if v is _ONE else v, ast.Div(), n.right) for k, v in go(n.left).items()}
        raise TranslateError('%s: cannot split %s' % (fname, _src(n)[:80]))
    out = go(e)
    return {k: (ast.Constant(1) if v is _ONE else v) for k, v in out.items()}


class FintKernel(object):
    def __init__(self, name):
        self.name = name
        self.lam = {}
        self.calls = []
        self.reads = {}
        self.rdef = None
        self.acc = {}           # target -> {type number | None: coefficient ast}
        self.acc_lines = {}
        self.pdefs = []         # [(name, resolved ast, lineno)]  stress resultants
        self.fint = {}          # type number -> (resolved ast, lineno)
        self.locals = {}        # `w0` ...
        self.ctx = set()


def walk_cffint(fn, consts, targets=None, out_array='fint', commons=False):
    """cffint of a *_nonlinear module; with commons=True the same walker reads cfwx / cfwt / cfv / cfstrain_* of
    a *_commons_* module (no resultants / fint there, output `es[e_num*i + k] = name`)."""
    if targets is None:
        targets = SLOPES + STRAIN0 + STRAINL
    num0, num1, num2 = consts['num0'], consts['num1'], consts['num2']
    K = FintKernel(fn.name)
    R = Resolver(fn.name, consts)
    R.ctx |= set(IMPERF)
    K.outputs = {}
    if commons:
        point_loop = None
        for st in fn.body:
            s = _src(st)
            if isinstance(st, ast.Pass):
                continue
            if isinstance(st, ast.Expr) and isinstance(st.value, ast.Call):
                f = _src(st.value.func)
                if f == 'free':
                    continue
                want = HELPER_CALLS.get(f, '').replace('coeffs', 'c').replace('npts', 'size')
                if f in HELPER_CALLS and s == want and point_loop is None:
                    K.calls.append(f)
                    continue
            if isinstance(st, ast.Assign) and s == 'w0 = 0.0' and point_loop is None:
                R.env['w0'] = ast.Constant(0.0)
                K.locals['w0'] = 0.0
                continue
            if isinstance(st, ast.For) and point_loop is None and _src(st.target) == 'i' and _src(st.iter) == 'range(size)':
                point_loop = st
                continue
            raise TranslateError('%s:%d: unexpected statement %s' % (fn.name, st.lineno, s[:70]))
        if point_loop is None:
            raise TranslateError('%s: no point loop' % fn.name)
    else:
        point_loop = _preamble(fn, R, K)
    used_slopes = set()

    def type_of(key, loops, lineno):
        m0_ = re.match(r'^(\d+)$', key)
        m1_ = re.match(r'^col \+ (\d+)$', key)
        rv = [v for v in loops if v in ROW_VARS]
        if m0_ and not loops:
            k = int(m0_.group(1))
            if k < num0:
                return k
        if m1_ and rv:
            k = int(m1_.group(1))
            cl = ROW_VARS[rv[0]]
            if R.env.get('__col__') != cl:
                raise TranslateError('%s:%d: c[col+%d] with col of class %r in a class-%d loop' % (fn.name, lineno, k, R.env.get('__col__'), cl))
            if cl == 1 and k < num1:
                return num0 + k
            if cl == 2 and k < num2 and len(rv) == 2:
                return num0 + num1 + k
        raise TranslateError('%s:%d: amplitude c[%s] in loops %r' % (fn.name, lineno, key, loops))

    def accumulate(t, value, loops, replace, lineno):
        expr = R.resolve(value)
        parts = split_linear(expr, fn.name)
        if replace:
            K.acc[t] = {}
        if t not in K.acc:
            raise TranslateError('%s:%d: %s accumulated before it is initialised' % (fn.name, lineno, t))
        if t in used_slopes:
            raise TranslateError('%s:%d: slope %s modified after it was used' % (fn.name, lineno, t))
        for key, coef in parts.items():
            used = names_of(coef)
            for sname in SLOPES:
                if sname in used:
                    if sname not in K.acc:
                        raise TranslateError('%s:%d: slope %s used before it is computed' % (fn.name, lineno, sname))
                    used_slopes.add(sname)
            ty = None if key is None else type_of(key, loops, lineno)
            iv = index_vars_of(coef)
            allowed = set(v for v in loops)
            if not iv <= allowed:
                raise TranslateError('%s:%d: coefficient of c[%s] depends on %s' % (fn.name, lineno, key, sorted(iv)))
            if ty is None and isinstance(coef, ast.Constant) and coef.value == 0:
                continue
            if ty in K.acc[t]:
                K.acc[t][ty] = ast.BinOp(K.acc[t][ty], ast.Add(), coef)
            else:
                K.acc[t][ty] = coef
        K.acc_lines.setdefault(t, []).append(lineno)

    def body(stmts, loops):
        for st in stmts:
            s = _src(st)
            if isinstance(st, ast.Pass):
                continue
            if isinstance(st, ast.For):
                if not loops and _trig_fill(st, R, fn.name):
                    continue
                v, lo, hi = _loop_var(st, fn.name)
                _check_range(v, lo, hi, fn.name, st.lineno)
                if v not in ROW_VARS:
                    raise TranslateError('%s:%d: loop over %s' % (fn.name, st.lineno, v))
                saved = dict(R.env)
                body(st.body, loops + [v])
                R.env = saved
                continue
            if isinstance(st, ast.AugAssign) and isinstance(st.target, ast.Name) and isinstance(st.op, ast.Add):
                t = st.target.id
                if t in targets:
                    accumulate(t, st.value, loops, False, st.lineno)
                    continue
            if isinstance(st, ast.Assign) and len(st.targets) == 1:
                tgt, val = st.targets[0], st.value
                if isinstance(tgt, ast.Name):
                    t = tgt.id
                    if not loops:
                        if t in POINT_READS and _src(val) == POINT_READS[t] and t in ('x', 't', 'w0x', 'w0t', 'alpha', 'beta', 'wx', 'wt', 'v'):
                            K.reads[t] = _src(val)
                            if t in SLOPES:
                                # commons: slopes come from the helper functions
                                R.ctx.add(t)
                                K.acc.setdefault(t, {})
                                K.external_slopes = getattr(K, 'external_slopes', []) + [t]
                            continue
                        if t == 'r':
                            if _src(val) not in ('r2 + sina * x', 'r2 + x * sina'):
                                raise TranslateError('%s:%d: r = %s' % (fn.name, st.lineno, _src(val)))
                            K.rdef = _src(val)
                            continue
                        if t == 'w0' and _src(val) == '0.0':
                            R.env['w0'] = ast.Constant(0.0)
                            K.locals['w0'] = 0.0
                            continue
                        if t in targets:
                            R.ctx.add(t)
                            accumulate(t, val, loops, True, st.lineno)
                            continue
                        if t in RES0 + RESL and not commons:
                            expr = R.resolve(val)
                            bad = names_of(expr) - set(LAMNAMES) - set(STRAIN0) - set(STRAINL)
                            if bad:
                                raise TranslateError('%s:%d: resultant %s uses %s' % (fn.name, st.lineno, t, sorted(bad)))
                            K.pdefs.append((t, expr, st.lineno))
                            R.ctx.add(t)
                            continue
                    else:
                        if t == 'col':
                            R.env['__col__'] = _check_dofmap('row', _src(val), loops, fn.name, st.lineno)
                            continue
                        if isinstance(val, ast.Subscript) and _src(val.value) in R.arrays:
                            R.env[t] = R.resolve(val)
                            continue
                        if isinstance(val, ast.Call) and _src(val.func) in ('sin', 'cos'):
                            R.env[t] = R.resolve(val)
                            continue
                        if re.match(r'^d?(?:sin|cos)[ijkl]?\w*$', t) and t not in targets and \
                                not any(isinstance(x_, ast.Subscript) and _src(x_.value) == 'c' for x_ in ast.walk(val)):
                            R.env[t] = R.resolve(val)      # local abbreviation (`dsini2x = i2*pi/L*cos(...)`): inlined
                            continue
                if isinstance(tgt, ast.Subscript) and _src(tgt.value) == out_array and not commons:
                    idx = _src(tgt.slice)
                    ok = isinstance(val, ast.BinOp) and isinstance(val.op, ast.Add) and _src(val.left) == 'beta * %s[%s]' % (out_array, idx) \
                        and isinstance(val.right, ast.BinOp) and isinstance(val.right.op, ast.Mult) and _src(val.right.left) == 'alpha'
                    if not ok:
                        raise TranslateError('%s:%d: unrecognised statement %s' % (fn.name, st.lineno, s[:80]))
                    ty = type_of(idx, loops, st.lineno)
                    expr = R.resolve(val.right.right)
                    if ty in K.fint:
                        raise TranslateError('%s:%d: component of type %d written twice' % (fn.name, st.lineno, ty))
                    if not index_vars_of(expr) <= set(loops):
                        raise TranslateError('%s:%d: component depends on foreign indices' % (fn.name, st.lineno))
                    K.fint[ty] = (expr, st.lineno)
                    continue
                if isinstance(tgt, ast.Subscript) and commons and isinstance(val, ast.Name) and not loops:
                    m = re.match(r'^(\w+)\[(?:e_num \* i \+ (\d+)|i)\]$', _src(tgt))
                    if m:
                        K.outputs[val.id] = (m.group(1), int(m.group(2)) if m.group(2) else None)
                        continue
            raise TranslateError('%s:%d: unexpected statement %s' % (fn.name, st.lineno, s[:80]))
    body(point_loop.body, [])
    K.ctx = set(R.ctx)
    K.lam = dict(R.lam)
    return K


# ------------------------------------------------------------------------------------------- one model
class NLModel(object):
    pass


CONST_NAMES = ('i0', 'j0', 'num0', 'num1', 'num2', 'castro', 'funcnum', 'NL_kinematics', 'e_num', 'pi')


def translate_ir(lean_name):
    sub, base, rest = MODELS[lean_name] if lean_name in MODELS else IR_ONLY_MODELS[lean_name]
    use_family('fsdt' if base.startswith('fsdt') else 'clpt')
    path = os.path.join(REPO, sub, base + '_nonlinear.pyx')
    consts, funcs = load_module(path)
    M = NLModel()
    M.lean_name, M.base, M.path, M.consts, M.rest = lean_name, base, path, consts, rest
    M.paths = [path]
    for k in CONST_NAMES:
        if k not in consts:
            raise TranslateError('%s: module constant %s not found' % (path, k))
    if (consts['i0'], consts['j0']) != (0, 1):
        raise TranslateError('%s: i0, j0 = %r' % (path, (consts['i0'], consts['j0'])))
    matnames = ('k0L', 'kLL', 'kG')
    funcs2 = funcs
    if rest is not None:
        # isotropic variant: calc_k0L / calc_kLL take (E11, nu, h); conecyl.py takes calc_kG and calc_fint_0L_L0_LL
        # from the module of the general model
        path2 = os.path.join(REPO, sub, rest + '_nonlinear.pyx')
        consts2, funcs2 = load_module(path2)
        M.paths.append(path2)
        for k in CONST_NAMES:
            if consts2.get(k) != consts[k]:
                raise TranslateError('%s / %s: module constant %s differs' % (path, path2, k))
        want = {'calc_k0L', 'cfk0L', 'calc_kLL', 'cfkLL'}
        if set(funcs) - IGNORED_FUNCS != want:
            raise TranslateError('%s: functions %r' % (path, sorted(set(funcs) ^ want)))
    want = {'calc_k0L', 'cfk0L', 'calc_kG', 'cfkG', 'calc_kLL', 'cfkLL', 'calc_fint_0L_L0_LL', 'cffint'}
    got = set(funcs2) - IGNORED_FUNCS
    if got != want:
        raise TranslateError('%s: functions %r' % (M.paths[-1], sorted(got ^ want)))
    M.calc, M.mat = {}, {}
    for nm in matnames:
        iso = rest is not None and nm != 'kG'
        fs = funcs if (rest is None or iso) else funcs2
        C = walk_calc(fs['calc_' + nm], lam_mode='iso' if iso else 'F')
        Kk = walk_cfmat(fs['cf' + nm], consts, iso=iso)
        if C.integrand != 'cf' + nm:
            raise TranslateError('%s: calc_%s integrates %s' % (path, nm, C.integrand))
        if [(b.rc, b.cc, b.loops, b.skip, len(b.pos)) for b in C.blocks] != \
                [(b.rc, b.cc, b.loops, b.skip, len(b.entries)) for b in Kk.blocks]:
            raise TranslateError('%s: loop nests of calc_%s and cf%s differ: %r vs %r' % (
                path, nm, nm, [(b.rc, b.cc, b.loops, b.skip, len(b.pos)) for b in C.blocks],
                [(b.rc, b.cc, b.loops, b.skip, len(b.entries)) for b in Kk.blocks]))
        for b in C.blocks:
            if len(set(b.pos)) != len(b.pos):
                raise TranslateError('%s: calc_%s writes a position twice in block %r' % (path, nm, b.key()))
        M.calc[nm], M.mat[nm] = C, Kk
        Kk.iso = iso
    Cf = walk_calc(funcs2['calc_fint_0L_L0_LL'])
    if Cf.integrand != 'cffint' or Cf.fdim != 'num0 + num1 * m1 + num2 * m2 * n2' or Cf.blocks:
        raise TranslateError('%s: calc_fint_0L_L0_LL: %r %r' % (path, Cf.integrand, Cf.fdim))
    M.calc['fint'] = Cf
    M.fint = walk_cffint(funcs2['cffint'], consts)
    nT = consts['num0'] + consts['num1'] + consts['num2']
    if sorted(M.fint.fint) != list(range(nT)):
        raise TranslateError('%s: cffint writes components of types %r' % (path, sorted(M.fint.fint)))
    M.nT = nT
    # laminate indices must agree between the kernels
    lam = {}
    for Kk in list(M.mat.values()) + [M.fint]:
        for k, v in Kk.lam.items():
            if lam.setdefault(k, v) != v:
                raise TranslateError('%s: laminate entry %s read from F[%d] and F[%d]' % (path, k, lam[k], v))
    M.lam = lam
    M.lam_notes = ['%s = F[%d] (the %s entry of a 6x6 row-major ABD matrix is F[%d])' % (k, v, k, CANON_F[k])
                   for k, v in sorted(lam.items()) if CANON_F[k] != v]
    M.commons = translate_commons(M)
    return M


def walk_cfN(fn, lamnames=None):
    lamnames = lamnames or LAMNAMES
    """cfN of *_commons_include_cfN.pxi: strain function selected by NL_kinematics, then N = F e"""
    lam, reads, outs, sel, call = {}, {}, {}, {}, None
    for st in fn.body:
        s = _src(st)
        if isinstance(st, ast.Pass) or (isinstance(st, ast.Expr) and isinstance(st.value, ast.Constant)):
            continue
        if isinstance(st, ast.If):
            node = st
            while True:
                m = re.match(r'^NL_kinematics == (\d)$', _src(node.test))
                bodies = [b for b in node.body if not isinstance(b, ast.Pass)]
                if not m or len(bodies) > 1 or (bodies and not re.match(r'^cfstrain = cfstrain_\w+$', _src(bodies[0]))):
                    raise TranslateError('cfN:%d: unexpected selection %s' % (st.lineno, s[:80]))
                if bodies:
                    sel[int(m.group(1))] = _src(bodies[0]).split(' = ')[1]
                if len(node.orelse) == 1 and isinstance(node.orelse[0], ast.If):
                    node = node.orelse[0]
                    continue
                if node.orelse:
                    raise TranslateError('cfN:%d: unexpected else branch' % st.lineno)
                break
            continue
        if isinstance(st, ast.Expr) and isinstance(st.value, ast.Call):
            f = _src(st.value.func)
            if f == 'free':
                continue
            if f == 'cfstrain' and s == 'cfstrain(c, sina, cosa, tLA, xs, ts, size, r2, L, m1, m2, n2, c0, m0, n0, funcnum, es)':
                call = s
                continue
        if isinstance(st, ast.Assign) and isinstance(st.targets[0], ast.Name):
            m = re.match(r'^F\[(\d+)\]$', _src(st.value))
            if m and st.targets[0].id in lamnames:
                lam[st.targets[0].id] = int(m.group(1))
                continue
        if isinstance(st, ast.For) and _src(st.target) == 'i' and _src(st.iter) == 'range(size)':
            for b in st.body:
                bs = _src(b)
                m = re.match(r'^(\w+) = es\[e_num \* i \+ (\d)\]$', bs)
                if m:
                    reads[m.group(1)] = int(m.group(2))
                    continue
                m = re.match(r'^Ns\[e_num \* i \+ (\d)\] = ', bs)
                if m and isinstance(b, ast.Assign):
                    outs[int(m.group(1))] = b.value
                    continue
                raise TranslateError('cfN:%d: unexpected statement %s' % (b.lineno, bs[:80]))
            continue
        raise TranslateError('cfN:%d: unexpected statement %s' % (st.lineno, s[:80]))
    if call is None or reads != {t: k for k, t in enumerate(TOTAL)} or sorted(outs) != list(range(len(TOTAL))):
        raise TranslateError('cfN: strains read %r, resultants written %r' % (reads, sorted(outs)))
    for k, e in outs.items():
        bad = names_of(e) - set(lamnames) - set(TOTAL)
        if bad:
            raise TranslateError('cfN: resultant %d uses %s' % (k, sorted(bad)))
    return sel, lam, outs


def translate_commons(M):
    """the helper functions of the *_commons_* module the matrix kernels call: cfwx, cfwt, (cfv) -> slopes,
    cfN -> cfstrain_<theory> -> total strains and resultants"""
    src = open(M.paths[-1]).read()
    m = re.search(r'^from (?:\.|compmech\.conecyl\.(?:clpt|fsdt)\.)(\w+_commons_\w+) cimport ([\w, ]+)$', src, flags=re.M)
    if not m or 'cfN' not in m.group(2):
        raise TranslateError('%s: commons import not found' % M.paths[-1])
    cpath = os.path.join(os.path.dirname(M.paths[-1]), m.group(1) + '.pyx')
    consts, funcs = load_module(cpath, only=('cfwx', 'cfwt', 'cfv', 'cfstrain_donnell', 'cfstrain_sanders'))
    for k in ('i0', 'j0', 'num0', 'num1', 'num2', 'castro', 'e_num', 'pi'):
        if consts.get(k) != M.consts[k]:
            raise TranslateError('%s: module constant %s = %r differs from the kernels\' %r' % (cpath, k, consts.get(k), M.consts[k]))
    C = NLModel()
    C.path, C.name = cpath, m.group(1)
    C.slopes = {}
    for fn_name, slope, outarr in (('cfwx', 'wx', 'outwx'), ('cfwt', 'wt', 'outwt'), ('cfv', 'v', 'vs')):
        used = any(fn_name in Kk.calls for Kk in M.mat.values())
        if not used:
            continue
        Kf = walk_cffint(funcs[fn_name], consts, targets=(slope,), commons=True)
        if list(Kf.outputs) != [slope] or Kf.outputs[slope][1] is not None or None in Kf.acc.get(slope, {}):
            raise TranslateError('%s: %s returns %r' % (cpath, fn_name, Kf.outputs))
        C.slopes[slope] = Kf
    ipath = os.path.join(os.path.dirname(cpath), CFN_INCLUDE)
    if "include '%s'" % CFN_INCLUDE not in open(cpath).read():
        raise TranslateError('%s: cfN include not found' % cpath)
    _, ifuncs = load_module(ipath, only=('cfN',))
    sel, lamN, C.N = walk_cfN(ifuncs['cfN'])
    for k, v in lamN.items():
        if M.lam.get(k, v) != v:
            raise TranslateError('%s: laminate entry %s read from F[%d], kernels read F[%d]' % (ipath, k, v, M.lam[k]))
    C.lam = lamN
    C.strain_fn = sel.get(M.consts['NL_kinematics'])
    if C.strain_fn is None:
        raise TranslateError('%s: no strain function for NL_kinematics = %r' % (ipath, M.consts['NL_kinematics']))
    Ks = walk_cffint(funcs[C.strain_fn], consts, targets=SLOPES + TOTAL, commons=True)
    if Ks.outputs != {t: ('es', k) for k, t in enumerate(TOTAL)}:
        raise TranslateError('%s: %s writes %r' % (cpath, C.strain_fn, Ks.outputs))
    want_calls = {'cfwx', 'cfwt', 'cfw0x', 'cfw0t'} | ({'cfv'} if 'v' in getattr(Ks, 'external_slopes', []) else set())
    if set(Ks.calls) != want_calls:
        raise TranslateError('%s: %s calls %r' % (cpath, C.strain_fn, Ks.calls))
    C.strain = Ks
    return C


def type_class(M, ty):
    n0, n1 = M.consts['num0'], M.consts['num1']
    if ty < n0:
        return 0, ty
    if ty < n0 + n1:
        return 1, ty - n0
    return 2, ty - n0 - n1


def type_of(M, cls, off):
    return off + (0 if cls == 0 else M.consts['num0'] if cls == 1 else M.consts['num0'] + M.consts['num1'])


def entry_table(M, nm):
    """{(row type, col type): (block, n-th entry)} of one matrix kernel"""
    out = {}
    for bc, bk in zip(M.calc[nm].blocks, M.mat[nm].blocks):
        for n, (ro, co) in enumerate(bc.pos):
            key = (type_of(M, bc.rc, ro), type_of(M, bc.cc, co))
            if key in out:
                raise TranslateError('%s: %s position %r written by two blocks' % (M.base, nm, key))
            out[key] = (bk, n)
    return out


# ------------------------------------------------------------------------------------------- Lean emission
HEADER = '''/-
GENERATED by tools/translate/gen_conecyl_nl.py from %s — do not edit.
Pointwise content (one integration point) of the non-linear shell kernels cfk0L, cfkLL, cfkG, cffint.
-/
import CompmechVerif.Core.ShellNLSpec%s

open Compmech.ShellNL

set_option linter.unusedVariables false

'''


GROUPS = [('G', set(GEOM) | {'ctLA', 'stLA', 'w0x', 'w0t'} | set(LAMNAMES) | set(ISO)), ('S', set(SLOPES)),
          ('E', set(STRAIN0 + STRAINL)), ('N', set(RES0 + RESL)), ('NG', set(RESG))]
GROUP_TYPE = {'G': 'Geo', 'S': 'Slopes', 'E': 'Strains', 'N': 'Res', 'NG': 'ResG'}


def sig(groups):
    suffix = {'G': '8', 'E': '8', 'N': '8'} if FAMILY == 'fsdt' else {}
    return ' '.join('(%s : %s%s K)' % (g, GROUP_TYPE[g], suffix.get(g, '')) for g in groups)


class LeanEmitter(object):
    def __init__(self, M):
        self.M = M

    def term(self, e, roles):
        """roles: {'groups': context groups the definition receives, 'a' / 'b' / 'd': lean names of the dofs,
        'defs': {ident: role}}"""
        T = lambda x: self.term(x, roles)
        if isinstance(e, ast.BinOp):
            op = {ast.Add: '+', ast.Sub: '-', ast.Mult: '*', ast.Div: '/'}[type(e.op)]
            return '(%s %s %s)' % (T(e.left), op, T(e.right))
        if isinstance(e, ast.UnaryOp):
            return '(-%s)' % T(e.operand)
        if isinstance(e, ast.Constant):
            if isinstance(e.value, int):
                return '(%d : K)' % e.value
            lit, intended, exact = pyx.literal_fraction(repr(e.value))
            if not exact:
                raise TranslateError('%s: long decimal literal %r' % (self.M.base, e.value))
            if intended.denominator == 1:
                return '(%d : K)' % intended.numerator
            return '((%d : K) / %d)' % (intended.numerator, intended.denominator)
        if isinstance(e, ast.Name):
            n = e.id
            if '__' in n:
                k, v = n.split('__', 1)
                if k == 'def':
                    role = roles['defs'][v]
                    return '(%s %s%s)' % (v, ' '.join(roles['groups']), '' if role is None else ' ' + roles[role])
                who = roles['d'] if 'd' in roles else roles['a' if v in ROW_VARS else 'b']
                field = {'sx': 'sx', 'cx': 'cx', 'st': 'st', 'ct': 'ct', 'idx': 'i' if v in XVARS else 'j'}[k]
                return '%s.%s' % (who, field)
            for g, names in GROUPS:
                if n in names:
                    if g not in roles['groups']:
                        raise TranslateError('%s: a definition reading only %r uses %s' % (self.M.base, roles['groups'], n))
                    return '%s.%s' % (g, n)
            raise TranslateError('%s: name %s belongs to no context group' % (self.M.base, n))
        raise TranslateError('%s: cannot emit %s' % (self.M.base, _src(e)[:60]))


MAT_GROUPS = {'k0L': ('G', 'S'), 'kLL': ('G', 'S'), 'kG': ('G', 'NG')}


def emit_model(M):
    """Tables (`entry`, `sl`, `e0`, ...) are `match` definitions; for every literal index a look-up lemma proved by `rfl`
    and tagged `shell_tab` is emitted next to them, so proofs never unfold a `match`."""
    E = LeanEmitter(M)
    nT = M.nT
    ns = 'Compmech.Gen.ConeCylNL.%s' % M.lean_name
    out = [HEADER % (' + '.join(os.path.relpath(p_, REPO) for p_ in M.paths), '8' if FAMILY == 'fsdt' else '')]
    out.append('namespace %s\n' % ns)
    out.append('/-- number of degree-of-freedom types: %d + %d + %d -/' % (M.consts['num0'], M.consts['num1'], M.consts['num2']))
    out.append('abbrev nT : Nat := %d\n' % nT)
    if M.lam_notes:
        out.append('/- NOTE laminate indices as read by the source (the entries are VARIABLES here):\n   ' + '\n   '.join(M.lam_notes) + ' -/\n')
    for nm in ('k0L', 'kLL', 'kG'):
        Kk = M.mat[nm]
        groups = MAT_GROUPS[nm]
        gs = ' '.join(groups)
        out.append('namespace cf%s\n' % nm)
        roles = {'defs': {i: Kk.defs[i].role for i in Kk.defs}, 'groups': groups}
        for ident in Kk.def_order:
            d = Kk.defs[ident]
            r = dict(roles)
            r['d'] = 'd'
            r['a'] = r['b'] = 'd'
            out.append('/-- cf%s, line %d -/' % (nm, d.lineno))
            out.append('@[shell_nl] def %s {K : Type} [Field K] %s%s : K :=\n  %s\n' % (
                ident, sig(groups), '' if d.role is None else ' (d : Dof K)', E.term(d.expr, r)))
        names = {}
        for bc, bk in zip(M.calc[nm].blocks, Kk.blocks):
            for n, ((ro, co), (expr, lineno)) in enumerate(zip(bc.pos, bk.entries)):
                ident = 'e%d%d_%d_%d' % (bk.rc, bk.cc, ro, co)
                r = dict(roles)
                r['a'], r['b'] = 'a', 'b'
                out.append('/-- cf%s, line %d: block %d%d, row offset %d, column offset %d%s -/' % (
                    nm, lineno, bk.rc, bk.cc, ro, co, ' (only for row <= col)' if bk.skip else ''))
                out.append('@[shell_nl] def %s {K : Type} [Field K] %s (a b : Dof K) : K :=\n  %s\n' % (ident, sig(groups), E.term(expr, r)))
                key = (type_of(M, bk.rc, ro), type_of(M, bk.cc, co))
                if key in names:
                    raise TranslateError('%s: cf%s writes position %r twice' % (M.base, nm, key))
                names[key] = ident
        out.append('/-- integrand written at (row type, column type); 0 where the kernel writes nothing -/')
        out.append('def entry {K : Type} [Field K] (A B : Fin %d) %s (a b : Dof K) : K :=' % (nT, sig(groups)))
        out.append('  match A, B with')
        for (A, B) in sorted(names):
            out.append('  | %d, %d => %s %s a b' % (A, B, names[(A, B)], gs))
        if len(names) < nT * nT:
            out.append('  | _, _ => 0')
        out.append('')
        out.append('section\nvariable {K : Type} [Field K] %s (a b : Dof K)' % sig(groups))
        for A in range(nT):
            for B in range(nT):
                rhs = '%s %s a b' % (names[(A, B)], gs) if (A, B) in names else '0'
                out.append('@[shell_tab] theorem entry_%d_%d : entry %d %d %s a b = %s := rfl' % (A, B, A, B, gs, rhs))
        out.append('end\n')
        out.append('end cf%s\n' % nm)
    # ---- cffint
    Fk = M.fint
    out.append('namespace cffint\n')

    def table(name, targets, groups, doc):
        r = {'d': 'd', 'defs': {}, 'groups': groups}
        gs = ' '.join(groups)
        out.append('/-- %s -/' % doc)
        out.append('def %s {K : Type} [Field K] (A : Fin %d) (p : Fin %d) %s (d : Dof K) : K :=' % (name, nT, len(targets), sig(groups)))
        out.append('  match A, p with')
        n = 0
        terms = {}
        for ty in range(nT):
            for p, t in enumerate(targets):
                if ty in Fk.acc.get(t, {}):
                    terms[(ty, p)] = E.term(Fk.acc[t][ty], r)
                    out.append('  | %d, %d => %s' % (ty, p, terms[(ty, p)]))
                    n += 1
        if n < nT * len(targets):
            out.append('  | _, _ => 0')
        out.append('')
        out.append('section\nvariable {K : Type} [Field K] %s (d : Dof K)' % sig(groups))
        for ty in range(nT):
            for p in range(len(targets)):
                out.append('@[shell_tab] theorem %s_%d_%d : %s %d %d %s d = %s := rfl' % (name, ty, p, name, ty, p, gs, terms.get((ty, p), '0')))
        out.append('end\n')

    def consts_table(name, targets, groups, doc):
        r = {'d': 'd', 'defs': {}, 'groups': groups}
        gs = ' '.join(groups)
        out.append('/-- %s -/' % doc)
        out.append('def %s {K : Type} [Field K] (p : Fin %d) %s : K :=' % (name, len(targets), sig(groups)))
        out.append('  match p with')
        n = 0
        terms = {}
        for p, t in enumerate(targets):
            if None in Fk.acc.get(t, {}):
                terms[p] = E.term(Fk.acc[t][None], r)
                out.append('  | %d => %s' % (p, terms[p]))
                n += 1
        if n < len(targets):
            out.append('  | _ => 0')
        out.append('')
        out.append('section\nvariable {K : Type} [Field K] %s' % sig(groups))
        for p in range(len(targets)):
            out.append('@[shell_tab] theorem %s_%d : %s %d %s = %s := rfl' % (name, p, name, p, gs, terms.get(p, '0')))
        out.append('end\n')
    for t in SLOPES + STRAIN0:
        if None in Fk.acc.get(t, {}):
            raise TranslateError('%s: %s has an amplitude-independent part' % (M.base, t))
    table('sl', SLOPES, ('G',), 'cffint lines %s: coefficient of the amplitude of a dof of type A in the slope p (0: wx, 1: wt, 2: v)' % _lines(Fk, SLOPES))
    table('e0', STRAIN0, ('G',), 'cffint: coefficient of the amplitude of a dof of type A in the linear strain p (exx0 ... kxt0)')
    table('eL', STRAINL, ('G', 'S'), 'cffint: coefficient of the amplitude of a dof of type A in the non-linear strain p (exxL ... kxtL), at the slopes S')
    consts_table('eLc', STRAINL, ('G',), 'cffint: amplitude-independent part of the non-linear strains (castro = %r)' % M.consts['castro'])
    got = {t: e for (t, e, ln) in Fk.pdefs}
    if sorted(got) != sorted(RES0 + RESL):
        raise TranslateError('%s: resultants defined: %r' % (M.base, sorted(got)))
    for grp, nm, allowed in ((RES0, 'N0', STRAIN0), (RESL, 'NL', STRAINL)):
        r = {'d': 'd', 'defs': {}, 'groups': ('G', 'E')}
        out.append('/-- cffint: stress resultants %s -/' % ', '.join(grp))
        out.append('def %s {K : Type} [Field K] (p : Fin %d) %s : K :=' % (nm, len(grp), sig(('G', 'E'))))
        out.append('  match p with')
        terms = []
        for p, t in enumerate(grp):
            bad = names_of(got[t]) - set(LAMNAMES) - set(allowed)
            if bad:
                raise TranslateError('%s: resultant %s uses %s' % (M.base, t, sorted(bad)))
            terms.append(E.term(got[t], r))
            out.append('  | %d => %s' % (p, terms[-1]))
        out.append('')
        out.append('section\nvariable {K : Type} [Field K] %s' % sig(('G', 'E')))
        for p in range(len(grp)):
            out.append('@[shell_tab] theorem %s_%d : %s %d G E = %s := rfl' % (nm, p, nm, p, terms[p]))
        out.append('end\n')
    r = {'d': 'd', 'defs': {}, 'groups': ('G', 'S', 'N')}
    out.append('/-- cffint: integrand added to the component of a dof of type A -/')
    out.append('def fint {K : Type} [Field K] (A : Fin %d) %s (d : Dof K) : K :=' % (nT, sig(('G', 'S', 'N'))))
    out.append('  match A with')
    terms = []
    for ty in range(nT):
        terms.append(E.term(Fk.fint[ty][0], r))
        out.append('  | %d => %s' % (ty, terms[-1]))
    if nT > 16:
        out.append('  | _ => 0')        # unreachable; Lean's exhaustiveness check gives up on long literal lists
    out.append('')
    out.append('section\nvariable {K : Type} [Field K] %s (d : Dof K)' % sig(('G', 'S', 'N')))
    for ty in range(nT):
        out.append('@[shell_tab] theorem fint_%d : fint %d G S N d = %s := rfl' % (ty, ty, terms[ty]))
    out.append('end\n\nend cffint\n')
    out.append('/-- class of a degree-of-freedom type (num0 = %d, num1 = %d, num2 = %d) -/' % (M.consts['num0'], M.consts['num1'], M.consts['num2']))
    out.append('def cls (A : Fin %d) : Nat :=\n  match A with\n%s%s\n' % (nT, '\n'.join('  | %d => %d' % (ty, type_class(M, ty)[0]) for ty in range(nT)),
                                                                          '\n  | _ => 0' if nT > 16 else ''))
    if FAMILY == 'clpt':
        emit_commons(M, E, out)
    out.append('/-- the regenerated model -/')
    out.append('def model (K : Type) [Field K] : PointModel%s %d K :=' % ('8' if FAMILY == 'fsdt' else '', nT))
    out.append('  { sl := cffint.sl, e0 := cffint.e0, eL := cffint.eL, eLc := cffint.eLc, N0 := cffint.N0, NL := cffint.NL,')
    out.append('    fint := cffint.fint, k0L := cfk0L.entry, kLL := cfkLL.entry, kG := cfkG.entry, cls := cls }\n')
    out.append('section\nvariable (K : Type) [Field K]')
    for f, v in (('sl', 'cffint.sl'), ('e0', 'cffint.e0'), ('eL', 'cffint.eL'), ('eLc', 'cffint.eLc'), ('N0', 'cffint.N0'), ('NL', 'cffint.NL'),
                 ('fint', 'cffint.fint'), ('k0L', 'cfk0L.entry'), ('kLL', 'cfkLL.entry'), ('kG', 'cfkG.entry'),
                 ('cls', 'cls')):
        out.append('@[shell_tab] theorem model_%s : (model K).%s = %s := rfl' % (f, f, v))
    out.append('end\n')
    # ---- schema as data
    out.append('/-- loop / position schema of calc_k0L, calc_kLL, calc_kG: (row class, column class, `row > col` skipped, [(row offset, column offset)]) -/')
    for nm in ('k0L', 'kLL', 'kG'):
        rows = ['(%d, %d, %s, [%s])' % (b.rc, b.cc, 'true' if b.skip else 'false', ', '.join('(%d, %d)' % p for p in b.pos))
                for b in M.calc[nm].blocks]
        out.append('def schema_%s : List (Nat × Nat × Bool × List (Nat × Nat)) :=\n  [%s]\n' % (nm, ',\n   '.join(rows)))
    out.append('end %s\n' % ns)
    return '\n'.join(out)


def _rename(e, table):
    e = copy.deepcopy(e)
    for n in ast.walk(e):
        if isinstance(n, ast.Name) and n.id in table:
            n.id = table[n.id]
    return e


def emit_commons(M, E, out):
    """`namespace commons`: slopes of cfwx / cfwt / cfv, total strains of cfstrain_<theory>, resultants of cfN"""
    C, nT = M.commons, M.nT
    out.append(('/-! what the matrix kernels are fed by `%s`: %s, `%s`, `cfN` (%s, ' + CFN_INCLUDE + ') -/') % (
        C.name, ', '.join('`cf%s`' % s_ for s_ in sorted(C.slopes)), C.strain_fn, os.path.relpath(C.path, REPO)))
    out.append('namespace commons\n')

    def table(name, cols, groups, get, doc):
        r = {'d': 'd', 'defs': {}, 'groups': groups}
        gs = ' '.join(groups)
        terms = {}
        for ty in range(nT):
            for p in range(cols):
                e = get(ty, p)
                if e is not None:
                    terms[(ty, p)] = E.term(e, r)
        out.append('/-- %s -/' % doc)
        out.append('def %s {K : Type} [Field K] (A : Fin %d) (p : Fin %d) %s (d : Dof K) : K :=' % (name, nT, cols, sig(groups)))
        out.append('  match A, p with')
        for k in sorted(terms):
            out.append('  | %d, %d => %s' % (k[0], k[1], terms[k]))
        if len(terms) < nT * cols:
            out.append('  | _, _ => 0')
        out.append('')
        out.append('section\nvariable {K : Type} [Field K] %s (d : Dof K)' % sig(groups))
        for ty in range(nT):
            for p in range(cols):
                out.append('@[shell_tab] theorem %s_%d_%d : %s %d %d %s d = %s := rfl' % (name, ty, p, name, ty, p, gs, terms.get((ty, p), '0')))
        out.append('end\n')

    table('sl', 3, ('G',), lambda ty, p: C.slopes[SLOPES[p]].acc[SLOPES[p]].get(ty) if SLOPES[p] in C.slopes else None,
          'coefficient of the amplitude of a dof of type A in the slope p as cfwx / cfwt / cfv compute it')
    table('e', 6, ('G', 'S'), lambda ty, p: C.strain.acc.get(TOTAL[p], {}).get(ty),
          '%s: coefficient of the amplitude of a dof of type A in the TOTAL strain p, at the slopes S' % C.strain_fn)
    r = {'d': 'd', 'defs': {}, 'groups': ('G',)}
    terms = {p: E.term(C.strain.acc[t][None], r) for p, t in enumerate(TOTAL) if None in C.strain.acc.get(t, {})}
    out.append('/-- %s: amplitude-independent part of the total strains -/' % C.strain_fn)
    out.append('def ec {K : Type} [Field K] (p : Fin 6) (G : Geo K) : K :=\n  match p with')
    for p in sorted(terms):
        out.append('  | %d => %s' % (p, terms[p]))
    if len(terms) < 6:
        out.append('  | _ => 0')
    out.append('')
    out.append('section\nvariable {K : Type} [Field K] (G : Geo K)')
    for p in range(6):
        out.append('@[shell_tab] theorem ec_%d : ec %d G = %s := rfl' % (p, p, terms.get(p, '0')))
    out.append('end\n')
    r = {'d': 'd', 'defs': {}, 'groups': ('G', 'E')}
    ren = {t: t + '0' for t in TOTAL}
    terms = [E.term(_rename(C.N[p], ren), r) for p in range(6)]
    out.append('/-- cfN: resultant p from the total strains (which are passed in the `…0` fields of `E`) -/')
    out.append('def N {K : Type} [Field K] (p : Fin 6) (G : Geo K) (E : Strains K) : K :=\n  match p with')
    for p in range(6):
        out.append('  | %d => %s' % (p, terms[p]))
    out.append('')
    out.append('section\nvariable {K : Type} [Field K] (G : Geo K) (E : Strains K)')
    for p in range(6):
        out.append('@[shell_tab] theorem N_%d : N %d G E = %s := rfl' % (p, p, terms[p]))
    out.append('end\n')
    out.append('/-- the regenerated commons functions -/')
    out.append('def cmodel (K : Type) [Field K] : CommonsModel %d K := { sl := sl, e := e, ec := ec, N := N }\n' % nT)
    out.append('section\nvariable (K : Type) [Field K]')
    for f in ('sl', 'e', 'ec', 'N'):
        out.append('@[shell_tab] theorem cmodel_%s : (cmodel K).%s = %s := rfl' % (f, f, f))
    out.append('end\n\nend commons\n')


def _lines(Fk, targets):
    ls = sorted({l for t in targets for l in Fk.acc_lines.get(t, [])})
    return '%d-%d' % (ls[0], ls[-1]) if ls else '-'


def translate_model(lean_name):
    M = translate_ir(lean_name)
    text = emit_model(M)
    write_if_changed(os.path.join(LEAN, 'CompmechVerif', 'Gen', 'ConeCylNL', lean_name + '.lean'), text)
    return M


def translate_all(models=None):
    return {k: translate_model(k) for k in (models or MODELS)}


if __name__ == '__main__':
    import sys
    for k, M in translate_all(sys.argv[1:] or None).items():
        print(k, {nm: [(b.rc, b.cc, len(b.entries)) for b in M.mat[nm].blocks] for nm in M.mat},
              'fint types', len(M.fint.fint), 'notes', len(M.lam_notes))
