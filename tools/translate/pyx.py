"""Translator T for the machine-generated Cython kernels (compmech/panel/models/*.pyx and friends).

  source text --(preprocess: drop cdef declarations, untyped signatures)--> Python AST
            --(symbolic walk)--> kernel IR {bindings, atoms, entries, schema}
            --> Lean terms (Gen/*.lean, regenerated on every run)
            --> numeric evaluation of the IR (validation V against the running binaries)

Anything outside the recognised grammar raises TranslateError (a broken tie), never a silent skip.
"""
import ast
import re
import textwrap
from fractions import Fraction


class TranslateError(Exception):
    pass


# ---------------------------------------------------------------------------------------- preprocessing
def _strip_params(sig):
    """'double y1, object panel, int size=3' -> 'y1, panel, size=3'"""
    out = []
    depth = 0
    cur = ''
    for ch in sig:
        if ch in '([':
            depth += 1
        if ch in ')]':
            depth -= 1
        if ch == ',' and depth == 0:
            out.append(cur)
            cur = ''
        else:
            cur += ch
    if cur.strip():
        out.append(cur)
    res = []
    for p in out:
        p = p.strip()
        if not p:
            continue
        if '=' in p:
            lhs, rhs = p.split('=', 1)
        else:
            lhs, rhs = p, None
        lhs = re.sub(r'\[[^\]]*\]', '', lhs)          # memoryview brackets
        name = lhs.replace('*', ' ').split()[-1]
        res.append(name + ('=' + rhs.strip() if rhs is not None else ''))
    return ', '.join(res)


def preprocess(src):
    """Cython subset -> plain Python source (same line structure where possible)"""
    lines = src.split('\n')
    out = []
    i = 0
    n = len(lines)
    while i < n:
        line = lines[i]
        s = line.strip()
        ind = line[:len(line) - len(line.lstrip())]
        # cdef extern blocks / cdef declarations
        if s.startswith('cdef extern') or s.startswith('cdef struct') or (s.startswith('ctypedef')):
            i += 1
            while i < n and (lines[i].strip() == '' or len(lines[i]) - len(lines[i].lstrip()) > len(ind)):
                i += 1
            continue
        is_hdr = s.startswith('def ') or re.match(r'^c?p?def\s+(?:inline\s+)?(?:void|double|int)\s+\*?\w+\s*\(', s)
        if is_hdr:
            # function header, possibly multi-line
            hdr = s
            while not re.search(r'\)\s*(nogil\s*)?(except\s*[\w\*\-]+\s*)?:\s*$', hdr):
                i += 1
                hdr += ' ' + lines[i].strip()
            name = re.match(r'^(?:c?p?def)\s+(?:[\w\*\s]*?\s+\*?)?(\w+)\s*\(', hdr).group(1)
            sig = hdr[hdr.index('(') + 1:hdr.rindex(')')]
            out.append('%sdef %s(%s):' % (ind, name, _strip_params(sig)))
            i += 1
            continue
        if s.startswith('cdef '):
            mm = re.match(r'^cdef\s+(?:int|double|long)\s+(\w+)\s*=\s*(.+)$', s)
            if mm and ind == '':
                out.append('%s = %s' % (mm.group(1), mm.group(2)))     # module constant: `cdef int num = 3`
            else:
                out.append(ind + 'pass')
                # multi-line cdef declaration: continuation lines end the previous with a comma and are
                # themselves cdef lines in this code base
            i += 1
            continue
        if s.startswith('with nogil'):
            out.append(ind + 'if True:')
            i += 1
            continue
        if s.startswith('#cython') or s.startswith('cimport') or s.startswith('from libc') or \
                s.startswith('from cython') or s.startswith('from cpython') or 'cimport' in s:
            out.append(ind + 'pass' if ind else '')
            i += 1
            continue
        out.append(line)
        i += 1
    return '\n'.join(out)


def parse_module(path):
    src = open(path).read()
    py = preprocess(src)
    # C casts / address-of used only in the field kernels
    py = re.sub(r'<\s*(?:double|int|long)\s*\*?\s*>', '', py)
    py = py.replace('&', '')
    py = re.sub(r'malloc\([^\n]*\)', 'malloc()', py)
    py = re.sub(r'prange\(([^,\n]+),[^\n]*\n[^\n]*\):', r'range(\1):', py)
    try:
        tree = ast.parse(py)
    except SyntaxError as e:
        raise TranslateError('%s: cannot parse after preprocessing: %s (line %s: %r)' % (
            path, e.msg, e.lineno, py.split('\n')[(e.lineno or 1) - 1][:120]))
    consts = {}
    funcs = {}
    for node in tree.body:
        if isinstance(node, ast.Assign) and len(node.targets) == 1 and isinstance(node.targets[0], ast.Name) \
                and isinstance(node.value, ast.Constant):
            consts[node.targets[0].id] = node.value.value
        elif isinstance(node, ast.FunctionDef):
            funcs[node.name] = node
    return consts, funcs


# ---------------------------------------------------------------------------------------- IR
INTEGRALS = {
    # name -> (deriv of first factor, deriv of second factor, has sub-interval bounds)
    'integral_ff': (0, 0, False), 'integral_ffxi': (0, 1, False), 'integral_ffxixi': (0, 2, False),
    'integral_fxifxi': (1, 1, False), 'integral_fxifxixi': (1, 2, False), 'integral_fxixifxixi': (2, 2, False),
    'integral_ff_12': (0, 0, True), 'integral_ffxi_12': (0, 1, True), 'integral_ffxixi_12': (0, 2, True),
    'integral_fxifxi_12': (1, 1, True), 'integral_fxifxixi_12': (1, 2, True),
    'integral_fxixifxixi_12': (2, 2, True),
}
POINTFUNCS = {'calc_f': 0, 'calc_fxi': 1, 'calc_fxixi': 2}
FLAG_RE = re.compile(r'^([uvw])([12])([tr])([xy])$')


class Atom(object):
    """integral atom: J over `dir` of D^d1 phi_{idx1}^{flags1} * D^d2 phi_{idx2}^{flags2}"""

    def __init__(self, name, func, d1, idx1, fl1, d2, idx2, fl2, bounds):
        self.name, self.func = name, func
        self.d1, self.idx1, self.fl1 = d1, idx1, fl1      # fl = (field or None, dir or None, raw names)
        self.d2, self.idx2, self.fl2 = d2, idx2, fl2
        self.bounds = bounds                              # None or (lo name, hi name)


class PointAtom(object):
    """D^d phi_{idx}^{flags}(point)"""

    def __init__(self, name, d, idx, point, fl):
        self.name, self.d, self.idx, self.point, self.fl = name, d, idx, point, fl


class Entry(object):
    def __init__(self, ro, co, expr, depth_vars, lineno):
        self.ro, self.co, self.expr, self.loop_vars, self.lineno = ro, co, expr, depth_vars, lineno


class Kernel(object):
    def __init__(self, name):
        self.name = name
        self.params = []
        self.attrs = {}        # local name -> panel attribute (or special: 'h' for sum(panel.plyts))
        self.objs = {}         # local name -> which object parameter it was read from
        self.lam = {}          # local name -> (p, q) index into F
        self.locals = {}       # local name -> ast expr (x1, x2, xi1, r, b, sina, eta1, ...)
        self.local_order = []
        self.atoms = {}
        self.patoms = {}
        self.entries = []
        self.loops = []        # [(var, range-arg source)] outermost first, as first seen
        self.row = self.col = None
        self.skip = None       # 'row > col' | None
        self.arrays = None     # (rname, cname, vname)
        self.result_shape = None


def _src(node):
    return ast.unparse(node)


def flags_of(names, attrs, objs=None):
    """four local flag names -> (field, dir, raw attribute names, object) if they are X1tD, X1rD, X2tD, X2rD of one
    field/direction read from one object"""
    raw = tuple(attrs.get(nm, ('?' + nm)) for nm in names)
    if objs is not None:
        os_ = {objs.get(nm) for nm in names}
        obj = os_.pop() if len(os_) == 1 else None
        r = flags_of(names, attrs)
        return (r[0] if obj is not None else None, r[1], r[2], obj)
    ms = [FLAG_RE.match(r) for r in raw]
    if all(ms):
        f = {m.group(1) for m in ms}
        d = {m.group(4) for m in ms}
        order = [(m.group(2), m.group(3)) for m in ms]
        if len(f) == 1 and len(d) == 1 and order == [('1', 't'), ('1', 'r'), ('2', 't'), ('2', 'r')]:
            return (f.pop(), d.pop(), raw)
    return (None, None, raw)


def walk_kernel(fn, consts, objparams=('panel', 'p', 'p1', 'p2', 'stiff', 's', 'bay')):
    K = Kernel(fn.name)
    K.params = [a.arg for a in fn.args.args]
    pend = {}

    def is_obj_attr(v):
        return isinstance(v, ast.Attribute) and isinstance(v.value, ast.Name)

    def stmt(node, loops):
        if isinstance(node, (ast.Pass, ast.Continue)):
            return
        if isinstance(node, ast.Expr):
            if isinstance(node.value, ast.Constant):
                return
            if isinstance(node.value, ast.Call) and _src(node.value.func) in ('free',):
                return
            raise TranslateError('%s:%d: unexpected expression statement %s' % (K.name, node.lineno, _src(node)[:80]))
        if isinstance(node, ast.If):
            t = _src(node.test)
            if t == 'True':
                for s in node.body:
                    stmt(s, loops)
                return
            if t.startswith("not 'Panel' in") or 'must be' in _src(node)[:300] or t.startswith('not '):
                return   # argument validation raising ValueError
            if t == 'row > col' and len(node.body) == 1 and isinstance(node.body[0], ast.Continue):
                K.skip = 'row > col'
                return
            raise TranslateError('%s:%d: unexpected if-test %r' % (K.name, node.lineno, t))
        if isinstance(node, ast.For):
            if not isinstance(node.target, ast.Name) or not isinstance(node.iter, ast.Call) or \
                    _src(node.iter.func) != 'range' or len(node.iter.args) != 1:
                raise TranslateError('%s:%d: unexpected loop %s' % (K.name, node.lineno, _src(node)[:60]))
            lv = (node.target.id, _src(node.iter.args[0]))
            if lv not in K.loops:
                K.loops.append(lv)
            for s in node.body:
                stmt(s, loops + [lv[0]])
            return
        if isinstance(node, ast.Return):
            return
        if isinstance(node, ast.AugAssign):
            tgt = node.target
            if isinstance(tgt, ast.Name) and tgt.id == 'c' and _src(node.value) == '1':
                return
            if isinstance(tgt, ast.Subscript) and _src(tgt.slice) == 'c' and isinstance(node.op, ast.Add):
                arr = _src(tgt.value)
                if 'ro' not in pend or 'co' not in pend:
                    raise TranslateError('%s:%d: value without row/col' % (K.name, node.lineno))
                K.arrays = (pend['rarr'], pend['carr'], arr)
                K.entries.append(Entry(pend.pop('ro'), pend.pop('co'), node.value, list(loops), node.lineno))
                return
            raise TranslateError('%s:%d: unexpected augmented assignment %s' % (K.name, node.lineno, _src(node)[:80]))
        if isinstance(node, ast.Assign):
            if len(node.targets) != 1:
                raise TranslateError('%s:%d: multiple targets' % (K.name, node.lineno))
            tgt, v = node.targets[0], node.value
            if isinstance(tgt, ast.Subscript):
                if _src(tgt.slice) == 'c':
                    m = re.match(r'^(row|col)\s*\+\s*(\d+)$', _src(v))
                    if not m:
                        raise TranslateError('%s:%d: unexpected index value %s' % (K.name, node.lineno, _src(v)))
                    if m.group(1) == 'row':
                        pend['ro'], pend['rarr'] = int(m.group(2)), _src(tgt.value)
                    else:
                        pend['co'], pend['carr'] = int(m.group(2)), _src(tgt.value)
                    return
                raise TranslateError('%s:%d: unexpected subscript assignment %s' % (K.name, node.lineno, _src(node)[:80]))
            if not isinstance(tgt, ast.Name):
                raise TranslateError('%s:%d: unexpected target %s' % (K.name, node.lineno, _src(tgt)))
            nm = tgt.id
            if is_obj_attr(v) and v.value.id in objparams:
                K.attrs[nm] = v.attr
                K.objs[nm] = v.value.id
                return
            if isinstance(v, ast.Attribute) and _src(v) in ('panel.lam.ABD', 'p.lam.ABD') or \
                    (isinstance(v, ast.Attribute) and v.attr in ('ABD',)):
                K.attrs[nm] = 'ABD'
                return
            if _src(v) in ('sum(panel.plyts)', 'sum(p.plyts)'):
                K.attrs[nm] = 'h'
                return
            if isinstance(v, ast.Subscript) and isinstance(v.value, ast.Name) and K.attrs.get(v.value.id) == 'ABD':
                idx = v.slice
                if isinstance(idx, ast.Tuple) and len(idx.elts) == 2 and all(isinstance(e, ast.Constant) for e in idx.elts):
                    K.lam[nm] = (idx.elts[0].value, idx.elts[1].value)
                    return
                raise TranslateError('%s:%d: unexpected laminate index %s' % (K.name, node.lineno, _src(v)))
            if isinstance(v, ast.Call):
                f = _src(v.func)
                args = v.args
                if f in INTEGRALS:
                    d1, d2, sub = INTEGRALS[f]
                    bounds = None
                    if sub:
                        bounds = (_src(args[0]), _src(args[1]))
                        args = args[2:]
                    if len(args) != 10:
                        raise TranslateError('%s:%d: %s with %d arguments' % (K.name, node.lineno, f, len(args)))
                    names = [_src(a) for a in args]
                    K.atoms[nm] = Atom(nm, f, d1, names[0], flags_of(names[2:6], K.attrs, K.objs),
                                       d2, names[1], flags_of(names[6:10], K.attrs, K.objs), bounds)
                    K.atoms[nm].names1, K.atoms[nm].names2 = tuple(names[2:6]), tuple(names[6:10])
                    return
                if f in POINTFUNCS:
                    names = [_src(a) for a in args]
                    if len(names) != 6:
                        raise TranslateError('%s:%d: %s with %d arguments' % (K.name, node.lineno, f, len(names)))
                    K.patoms[nm] = PointAtom(nm, POINTFUNCS[f], names[0], names[1], flags_of(names[2:6], K.attrs, K.objs))
                    K.patoms[nm].names = tuple(names[2:6])
                    return
                if f in ('np.zeros', 'coo_matrix'):
                    if f == 'coo_matrix':
                        K.result_shape = _src(v)
                    return
                if f in ('sin', 'cos') and len(args) == 1:
                    K.locals[nm] = v
                    K.local_order.append(nm)
                    return
                if f == 'float':
                    K.locals[nm] = v
                    K.local_order.append(nm)
                    return
                raise TranslateError('%s:%d: unexpected call %s' % (K.name, node.lineno, _src(v)[:80]))
            if nm == 'row':
                K.row = v
                return
            if nm == 'col':
                K.col = v
                return
            if nm == 'c' and _src(v) == '-1':
                return
            if nm == 'fdim':
                return
            # scalar local definition
            K.locals[nm] = v
            if nm not in K.local_order:
                K.local_order.append(nm)
            return
        raise TranslateError('%s:%d: unexpected statement %s' % (K.name, node.lineno, type(node).__name__))

    for s in fn.body:
        stmt(s, [])
    if pend.get('ro') is not None or pend.get('co') is not None:
        raise TranslateError('%s: dangling row/col assignment' % K.name)
    return K


# ---------------------------------------------------------------------------------------- expressions
def literal_fraction(text):
    """decimal literal -> (Fraction of the literal, intended Fraction, exact?)"""
    f = Fraction(text)
    digits = len(text.replace('.', '').replace('-', '').lstrip('0'))
    if digits < 12:
        return f, f, True
    g = f.limit_denominator(10000)
    if g != 0 and abs(f - g) <= abs(g) * Fraction(1, 10 ** 13):
        return f, g, False
    return f, f, True


class ExprEmitter(object):
    """ast expression -> Lean term text / numeric value"""

    def __init__(self, K, name_fn):
        self.K = K
        self.name_fn = name_fn      # local name -> Lean text
        self.literals = []          # (text, literal Fraction, intended Fraction) for long decimals

    def lean(self, e):
        if isinstance(e, ast.BinOp):
            op = {ast.Add: '+', ast.Sub: '-', ast.Mult: '*', ast.Div: '/'}.get(type(e.op))
            if op is None:
                if isinstance(e.op, ast.Pow) and isinstance(e.right, ast.Constant) and isinstance(e.right.value, int):
                    return '(%s ^ %d)' % (self.lean(e.left), e.right.value)
                raise TranslateError('unsupported operator in %s' % _src(e)[:60])
            return '(%s %s %s)' % (self.lean(e.left), op, self.lean(e.right))
        if isinstance(e, ast.UnaryOp) and isinstance(e.op, ast.USub):
            return '(-%s)' % self.lean(e.operand)
        if isinstance(e, ast.UnaryOp) and isinstance(e.op, ast.UAdd):
            return self.lean(e.operand)
        if isinstance(e, ast.Constant):
            if isinstance(e.value, bool) or not isinstance(e.value, (int, float)):
                raise TranslateError('unsupported constant %r' % (e.value,))
            text = _src(e)
            if isinstance(e.value, int):
                return '(%d : K)' % e.value
            lit, intended, exact = literal_fraction(text if 'e' not in text.lower() else repr(Fraction(e.value)))
            if not exact:
                self.literals.append((text, lit, intended))
            if intended.denominator == 1:
                return '(%d : K)' % intended.numerator
            return '((%d : K) / %d)' % (intended.numerator, intended.denominator)
        if isinstance(e, ast.Name):
            return self.name_fn(e.id)
        raise TranslateError('unsupported expression %s' % _src(e)[:80])


def evaluate(e, env):
    """numeric evaluation of an entry expression; env: name -> number"""
    if isinstance(e, ast.BinOp):
        a, b = evaluate(e.left, env), evaluate(e.right, env)
        if isinstance(e.op, ast.Add):
            return a + b
        if isinstance(e.op, ast.Sub):
            return a - b
        if isinstance(e.op, ast.Mult):
            return a * b
        if isinstance(e.op, ast.Div):
            return a / b
        if isinstance(e.op, ast.Pow):
            return a ** b
        raise TranslateError('unsupported operator')
    if isinstance(e, ast.UnaryOp):
        v = evaluate(e.operand, env)
        return -v if isinstance(e.op, ast.USub) else v
    if isinstance(e, ast.Constant):
        if env.get('__exact__'):
            return Fraction(_src(e)) if isinstance(e.value, float) else Fraction(e.value)
        return e.value
    if isinstance(e, ast.Name):
        return env[e.id]
    if isinstance(e, ast.Call):
        f = _src(e.func)
        args = [evaluate(a, env) for a in e.args]
        return env['__call__'](f, args)
    raise TranslateError('unsupported expression %s' % _src(e)[:80])


def names_in(e):
    return {n.id for n in ast.walk(e) if isinstance(n, ast.Name)}


# ---------------------------------------------------------------------------------------- panel kernels -> Lean
ROW_RE = re.compile(r'^row0 \+ num \* \((\w+) \* m \+ (\w+)\)$')
COL_RE = re.compile(r'^col0 \+ num \* \((\w+) \* m \+ (\w+)\)$')
SUB_BOUNDS = {'x': ('xi1', 'xi2'), 'y': ('eta1', 'eta2')}
PCTX_FIELDS = {'a', 'b', 'r', 'sina', 'cosa', 'Nxx', 'Nyy', 'Nxy', 'd', 'h', 'mu', 'beta', 'gamma', 'aeromu'}


def index_roles(K):
    """from `row = row0 + num*(j*m + i)`, `col = col0 + num*(l*m + k)`: {var: (Idx, Dir)}"""
    if K.row is None or K.col is None:
        raise TranslateError('%s: row/col formula not found' % K.name)
    mr, mc = ROW_RE.match(_src(K.row)), COL_RE.match(_src(K.col))
    if not mr or not mc:
        raise TranslateError('%s: unexpected dof map row=%s col=%s' % (K.name, _src(K.row), _src(K.col)))
    return {mr.group(2): ('A', 'x'), mr.group(1): ('A', 'y'), mc.group(2): ('B', 'x'), mc.group(1): ('B', 'y')}


def atom_lean(at, roles):
    """canonical (row-factor first) Lean text of an integral atom"""
    if at.idx1 not in roles or at.idx2 not in roles:
        raise TranslateError('atom %s: index %s/%s is not a series index' % (at.name, at.idx1, at.idx2))
    (s1, dir1), (s2, dir2) = roles[at.idx1], roles[at.idx2]
    if dir1 != dir2:
        raise TranslateError('atom %s mixes x and y indices' % at.name)

    def fld(fl, k):
        f, d = fl[0], fl[1]
        if f is None or d != dir1:
            return '(.other %d)' % k
        return '.' + f
    f1 = (at.d1, fld(at.fl1, 1), s1)
    f2 = (at.d2, fld(at.fl2, 2), s2)
    if s1 == 'B' and s2 == 'A':
        f1, f2 = f2, f1
    if at.bounds is None:
        dom = '.full'
    elif at.bounds == SUB_BOUNDS[dir1]:
        dom = '.sub'
    else:
        dom = '(.bad 0)'
    return '(P.J .%s %s %d %s .%s %d %s .%s)' % (dir1, dom, f1[0], f1[1], f1[2], f2[0], f2[1], f2[2])


def name_resolver(K, roles):
    def nf(nm):
        if nm in K.atoms:
            return atom_lean(K.atoms[nm], roles)
        if nm in K.lam:
            return '(P.F %d %d)' % K.lam[nm]
        if nm in K.locals:
            if nm in ('sina', 'cosa'):
                want = {'sina': 'sin(alpharad)', 'cosa': 'cos(alpharad)'}[nm]
                if _src(K.locals[nm]) != want or K.attrs.get('alpharad') != 'alpharad':
                    raise TranslateError('%s: %s is defined as %s' % (K.name, nm, _src(K.locals[nm])))
                return 'P.' + nm
            if nm in ('r', 'b'):
                return 'P.' + nm            # section-local radius / width (schema records the definition)
            raise TranslateError('%s: local %s used inside an entry' % (K.name, nm))
        if nm in K.attrs:
            a = K.attrs[nm]
            if a in PCTX_FIELDS:
                return 'P.' + a
            raise TranslateError('%s: panel attribute %s used inside an entry' % (K.name, a))
        if nm in K.params and nm in PCTX_FIELDS:
            return 'P.' + nm
        raise TranslateError('%s: unknown name %s inside an entry' % (K.name, nm))
    return nf


def emit_kernel(K, namespace, num=3):
    """Lean definitions of every entry of one kernel; returns (text, literals, entry names)"""
    roles = index_roles(K)
    em = ExprEmitter(K, name_resolver(K, roles))
    out = ['namespace %s' % namespace, '']
    names = []
    seen = {}
    for e in K.entries:
        key = (e.ro, e.co)
        seen[key] = seen.get(key, 0) + 1
        nm = 'e%d%d' % key + ('' if seen[key] == 1 else '_%d' % seen[key])
        names.append((nm, e.ro, e.co))
        out.append('/-- %s, line %d: row+%d, col+%d -/' % (K.name, e.lineno, e.ro, e.co))
        out.append('@[panel_entry] def %s {K : Type} [Field K] (P : PCtx K) : K :=\n  %s\n' % (nm, em.lean(e.expr)))
    # dispatcher: the value accumulated at (row+ro, col+co); absent pairs contribute nothing
    nd = max([num] + [max(ro, co) + 1 for _, ro, co in names])
    out.append('/-- what one pass of the innermost loop adds at `(row+ro, col+co)` -/')
    out.append('@[panel_entry] def entry {K : Type} [Field K] (ro co : Fin %d) (P : PCtx K) : K :=' % nd)
    out.append('  match ro, co with')
    keys = sorted({(ro, co) for _, ro, co in names})
    for (ro, co) in keys:
        out.append('  | %d, %d => %s' % (ro, co, ' + '.join('%s P' % n for n, r_, c_ in names if (r_, c_) == (ro, co))))
    if len(keys) < nd * nd:
        out.append('  | _, _ => 0')
    out.append('')
    out.append('end %s\n' % namespace)
    return '\n'.join(out), em.literals, names


def schema_of(K, consts):
    """loop-nest / dof-map description used by the whole-matrix interpreter and recorded in Gen files"""
    roles = index_roles(K)
    return dict(kernel=K.name, num=consts.get('num'), sections=consts.get('s') if any(l[0] == 'section' for l in K.loops) else None,
                loops=K.loops, skip=K.skip, roles=roles, row=_src(K.row), col=_src(K.col),
                locals={n: _src(K.locals[n]) for n in K.local_order},
                attrs=dict(K.attrs), lam=dict(K.lam), entries=[(e.ro, e.co) for e in K.entries])
