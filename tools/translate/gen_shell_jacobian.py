"""Instantiates the proof scripts of C17 stage 2 for one regenerated model:

    lean/CompmechVerif/Spec/ShellJacobian/<Model>/{Basic,K0La..,KLL,KG,Recip}.lean   one small lemma per literal index case
    lean/CompmechVerif/Spec/ShellJacobian/<Model>.lean                               `ok : ModelOK (model K) G`  (or the partial form)

The files are a fixed template filled with the model name, the number of degree-of-freedom types and — per case — the choice
between the tactic for `0 = 0`-like cases and the one that clears denominators.  Before emitting, every structural identity
(`ModelOK` fields, see Spec/ShellJacobian/Generic.lean) is evaluated EXACTLY (rationals) on the translator's IR at random
points; an identity that fails there is not claimed: it is listed in `<Model>.lean` as a failing case with the witness point
(and turned into a kernel-checked `…_counterexample`), and the model only gets the `…_partial` statement.
Nothing here is trusted: the Lean kernel checks every emitted lemma.
"""
import ast
import os
import random
from fractions import Fraction as Fr

from tools.common import LEAN, write_if_changed
from tools.translate import gen_conecyl_nl as G
from tools.translate.pyx import TranslateError

DOF_FIELDS = ('i', 'j', 'sx', 'cx', 'st', 'ct')
LAM = [['A11', 'A12', 'A16', 'B11', 'B12', 'B16'], ['A12', 'A22', 'A26', 'B12', 'B22', 'B26'], ['A16', 'A26', 'A66', 'B16', 'B26', 'B66'],
       ['B11', 'B12', 'B16', 'D11', 'D12', 'D16'], ['B12', 'B22', 'B26', 'D12', 'D22', 'D26'], ['B16', 'B26', 'B66', 'D16', 'D26', 'D66']]
GEO_FIELDS = ('pi', 'L', 'r', 'r2', 'x', 'sina', 'cosa', 'ctLA', 'stLA') + G.LAMNAMES + ('w0x', 'w0t') + G.ISO


# ------------------------------------------------------------------------------------------- exact evaluation of the IR
def evq(e, env, dofs, defs=None):
    """exact value; env: context name -> Fraction; dofs: series index variable -> {field: Fraction}"""
    if isinstance(e, ast.BinOp):
        a, b = evq(e.left, env, dofs, defs), evq(e.right, env, dofs, defs)
        if isinstance(e.op, ast.Add):
            return a + b
        if isinstance(e.op, ast.Sub):
            return a - b
        if isinstance(e.op, ast.Mult):
            return a * b
        return a / b
    if isinstance(e, ast.UnaryOp):
        return -evq(e.operand, env, dofs, defs)
    if isinstance(e, ast.Constant):
        return Fr(repr(e.value)) if isinstance(e.value, float) else Fr(e.value)
    if isinstance(e, ast.Name):
        n = e.id
        if '__' in n:
            k, v = n.split('__', 1)
            if k == 'def':
                return evq(defs[v].expr, env, dofs, defs)
            f = {'idx': 'i' if v in G.XVARS else 'j'}.get(k, k)
            return dofs[v][f]
        return env[n]
    raise TranslateError('cannot evaluate %s' % ast.dump(e)[:80])


class Point(object):
    """random rational values of every variable of the vocabulary"""

    def __init__(self, rng, small=False, iso=False):
        pick = (lambda: Fr(rng.randint(1, 5) * rng.choice([1, -1]), rng.randint(1, 3))) if not small else \
            (lambda: Fr(rng.randint(1, 3)))
        self.geo = {k: pick() for k in GEO_FIELDS + tuple(n for n in G.LAMNAMES if n not in GEO_FIELDS)}
        if iso:
            g = self.geo
            while g['nu'] in (1, -1):
                g['nu'] = pick()
            g['A11'] = g['A22'] = g['E11'] * g['h'] / (1 - g['nu'] * g['nu'])
            g['A12'] = g['nu'] * g['A11']
            g['A66'] = g['E11'] / (2 * (1 + g['nu'])) * g['h']
            for k in ('A16', 'A26', 'B11', 'B12', 'B16', 'B22', 'B26', 'B66'):
                g[k] = Fr(0)
        self.S = {k: pick() for k in G.SLOPES}
        self.E = {k: pick() for k in G.STRAIN0 + G.STRAINL}
        self.N = {k: pick() for k in G.RES0 + G.RESL}
        self.NG = {k: pick() for k in G.RESG}
        self.a = {k: pick() for k in DOF_FIELDS}
        self.b = {k: pick() for k in DOF_FIELDS}
        self.T = {k: pick() for k in G.SLOPES}
        self.t = pick()


class Tables(object):
    """the regenerated tables of a model as exact functions"""

    def __init__(self, M):
        self.M = M
        self.nT = M.nT
        self.ent = {nm: G.entry_table(M, nm) for nm in ('k0L', 'kLL', 'kG')}

    def _cf(self, target_group, A, p, env, d):
        acc = self.M.fint.acc.get(target_group[p], {})
        if A not in acc:
            return Fr(0)
        return evq(acc[A], env, {v: d for v in G.ROW_VARS})

    def sl(self, A, s, P, d):
        return self._cf(G.SLOPES, A, s, P.geo, d)

    def e0(self, A, p, P, d):
        return self._cf(G.STRAIN0, A, p, P.geo, d)

    def eL(self, A, p, P, S, d):
        return self._cf(G.STRAINL, A, p, dict(P.geo, **S), d)

    def eLc(self, p, P):
        acc = self.M.fint.acc.get(G.STRAINL[p], {})
        return evq(acc[None], P.geo, {}) if None in acc else Fr(0)

    def BL(self, A, p, P, S, d):
        return 2 * self.eL(A, p, P, S, d) - self.eL(A, p, P, {k: Fr(0) for k in G.SLOPES}, d)

    def slOf(self, B, P, d):
        return {k: self.sl(B, s, P, d) for s, k in enumerate(G.SLOPES)}

    def entry(self, nm, A, B, P, a, b):
        if (A, B) not in self.ent[nm]:
            return Fr(0)
        bk, n = self.ent[nm][(A, B)]
        env = dict(P.geo)
        env.update(P.S if nm != 'kG' else P.NG)
        dofs = {v: a for v in G.ROW_VARS}
        dofs.update({v: b for v in G.COL_VARS})
        return evq(bk.entries[n][0], env, dofs, self.M.mat[nm].defs)

    def symE(self, nm, A, B, P, a, b):
        return self.entry(nm, A, B, P, a, b) if A <= B else self.entry(nm, B, A, P, b, a)

    def fint(self, A, P, d):
        env = dict(P.geo)
        env.update(P.S)
        env.update(P.N)
        return evq(self.M.fint.fint[A][0], env, {v: d for v in G.ROW_VARS})

    def res(self, name, P):
        for (t, e, ln) in self.M.fint.pdefs:
            if t == name:
                return evq(e, dict(P.geo, **P.E), {})
        raise KeyError(name)

    def c_sl(self, A, s, P, d):
        Kf = self.M.commons.slopes.get(G.SLOPES[s])
        if Kf is None or A not in Kf.acc[G.SLOPES[s]]:
            return Fr(0)
        return evq(Kf.acc[G.SLOPES[s]][A], P.geo, {v: d for v in G.ROW_VARS})

    def c_e(self, A, p, P, S, d):
        acc = self.M.commons.strain.acc.get(G.TOTAL[p], {})
        return evq(acc[A], dict(P.geo, **S), {v: d for v in G.ROW_VARS}) if A in acc else Fr(0)

    def c_ec(self, p, P):
        acc = self.M.commons.strain.acc.get(G.TOTAL[p], {})
        return evq(acc[None], P.geo, {}) if None in acc else Fr(0)

    def c_N(self, p, P, e):
        return evq(self.M.commons.N[p], dict(P.geo, **dict(zip(G.TOTAL, e))), {})

    def Fm(self, P, p, q):
        nm = G.LAM_MATRIX[p][q]
        return P.geo[nm] if nm is not None else Fr(0)


def failing_cases(M, seeds=(1, 2)):
    """{field: sorted list of index tuples for which the structural identity FAILS at some random rational point}"""
    T = Tables(M)
    nT = T.nT
    NE = len(G.STRAIN0)          # 6 (CLPT) or 8 (FSDT)
    Z = {k: Fr(0) for k in G.SLOPES}
    bad = {k: set() for k in ('N0', 'NL', 'fint', 'k0L', 'kLL', 'kG', 'kLL_low', 'kG_low', 'affine', 'recip', 'membrane', 'eLc',
                               'c_sl', 'c_e', 'c_ec', 'c_N')}
    for seed in seeds:
        P = Point(random.Random(seed), iso=M.rest is not None)
        a, b, r = P.a, P.b, P.geo['r']
        n0 = [P.N[k] for k in G.RES0]
        nL = [P.N[k] for k in G.RESL]
        e0v = [P.E[k] for k in G.STRAIN0]
        eLv = [P.E[k] for k in G.STRAINL]
        ngv = [P.NG[k] for k in G.RESG] + [Fr(0)] * (NE - 3)
        for p in range(NE):
            if T.res(G.RES0[p], P) != sum(T.Fm(P, p, q) * e0v[q] for q in range(NE)):
                bad['N0'].add((p,))
            if T.res(G.RESL[p], P) != sum(T.Fm(P, p, q) * eLv[q] for q in range(NE)):
                bad['NL'].add((p,))
            if T.eLc(p, P) != 0:
                bad['eLc'].add((p,))
        e0a = [[T.e0(A, p, P, a) for p in range(NE)] for A in range(nT)]
        e0b = [[T.e0(A, p, P, b) for p in range(NE)] for A in range(nT)]
        BLa = [[T.BL(A, p, P, P.S, a) for p in range(NE)] for A in range(nT)]
        BLb = [[T.BL(A, p, P, P.S, b) for p in range(NE)] for A in range(nT)]
        eLa0 = [[T.eL(A, p, P, Z, a) for p in range(NE)] for A in range(nT)]
        eLb0 = [[T.eL(A, p, P, Z, b) for p in range(NE)] for A in range(nT)]
        sla = [T.slOf(A, P, a) for A in range(nT)]
        slb = [T.slOf(A, P, b) for A in range(nT)]
        ST = {k: P.S[k] + P.t * P.T[k] for k in G.SLOPES}
        for p in range(NE):
            if T.c_ec(p, P) != T.eLc(p, P):
                bad['c_ec'].add((p,))
            if p < 3 and T.c_N(p, P, e0v) != sum(T.Fm(P, p, q) * e0v[q] for q in range(NE)):
                bad['c_N'].add((p,))
        for A in range(nT):
            for s_ in range(3):
                if T.c_sl(A, s_, P, a) != T.sl(A, s_, P, a):
                    bad['c_sl'].add((A, s_))
            for p in range(NE):
                if T.c_e(A, p, P, P.S, a) != e0a[A][p] + T.eL(A, p, P, P.S, a):
                    bad['c_e'].add((A, p))
        for A in range(nT):
            if T.fint(A, P, a) != r * sum(e0a[A][p] * nL[p] + BLa[A][p] * (n0[p] + nL[p]) for p in range(NE)):
                bad['fint'].add((A,))
            for p in range(NE):
                if T.eL(A, p, P, ST, a) != T.eL(A, p, P, P.S, a) + P.t * (T.eL(A, p, P, P.T, a) - eLa0[A][p]):
                    bad['affine'].add((A, p))
                if p >= 3 and (T.eL(A, p, P, P.S, a) != 0):
                    bad['membrane'].add((A,))
            for B in range(nT):
                if T.entry('k0L', A, B, P, a, b) != r * sum(e0a[A][p] * T.Fm(P, p, q) * BLb[B][q] for p in range(NE) for q in range(NE)):
                    bad['k0L'].add((A, B))
                if T.symE('kLL', A, B, P, a, b) != r * sum(BLa[A][p] * T.Fm(P, p, q) * BLb[B][q] for p in range(NE) for q in range(NE)):
                    bad['kLL'].add((A, B))
                lin = [T.eL(A, p, P, slb[B], a) - eLa0[A][p] for p in range(NE)]
                if T.symE('kG', A, B, P, a, b) != r * sum(2 * lin[p] * ngv[p] for p in range(NE)):
                    bad['kG'].add((A, B))
                same = G.type_class(M, A)[0] == G.type_class(M, B)[0]
                if B < A and same and \
                        T.entry('kLL', A, B, P, a, b) != r * sum(BLa[A][p] * T.Fm(P, p, q) * BLb[B][q] for p in range(NE) for q in range(NE)):
                    bad['kLL_low'].add((A, B))
                if B < A and same and T.entry('kG', A, B, P, a, b) != r * sum(2 * lin[p] * ngv[p] for p in range(NE)):
                    bad['kG_low'].add((A, B))
                for p in range(NE):
                    if lin[p] != T.eL(B, p, P, sla[A], b) - eLb0[B][p]:
                        bad['recip'].add((A, B))
    return {k: sorted(v) for k, v in bad.items()}


# ------------------------------------------------------------------------------------------- emission
PRELUDE = '''/-
GENERATED by tools/translate/gen_shell_jacobian.py (template instance for model %(model)s) — do not edit.
%(what)s
-/
import CompmechVerif.Spec.ShellJacobian.Tactics
import CompmechVerif.Gen.ConeCylNL.%(model)s
%(imports)s
set_option linter.unusedSimpArgs false
set_option linter.unusedVariables false
set_option linter.unusedSectionVars false
set_option linter.unreachableTactic false

namespace Compmech.ShellNL.ShellJacobian.%(model)s
open Compmech.ShellNL Compmech.Gen.ConeCylNL.%(model)s

variable {K : Type} [Field K] [CharZero K]

'''
HYP = '(G : Geo K) (hL : G.L ≠ 0) (hr : G.r ≠ 0) (hc : G.cosa ≠ 0)'
HB = 'set_option maxHeartbeats 4000000 in\n'


def nontrivial_types(M):
    """types whose non-linear strain increment is not identically zero"""
    return sorted({ty for t in G.STRAINL for ty in M.fint.acc.get(t, {}) if ty is not None})


def rhs_k0L(A, B):
    return 'G.r * sum6 fun p => sum6 fun q => (model K).e0 %d p G a * G.Fm p q * (model K).BL %d q G S b' % (A, B)


def rhs_kLL(A, B):
    return 'G.r * sum6 fun p => sum6 fun q => (model K).BL %d p G S a * G.Fm p q * (model K).BL %d q G S b' % (A, B)


def rhs_kG(A, B):
    return 'G.r * sum6 fun p => 2 * ((model K).eL %d p G ((model K).slOf %d G b) a - (model K).eL %d p G Slopes.zero a) * NG.v p' % (A, B, A)


CHUNK = 60      # weight budget of one case file (a case that clears denominators counts 6, a `0 = 0` case 1)


def emit_files(M, bad):
    model, nT = M.lean_name, M.nT
    base = os.path.join(LEAN, 'CompmechVerif', 'Spec', 'ShellJacobian', model)
    os.makedirs(base, exist_ok=True)
    files = {}
    wtypes = set(nontrivial_types(M))
    ent = {nm: G.entry_table(M, nm) for nm in ('k0L', 'kLL', 'kG')}
    iso = M.rest is not None
    HX = ' (hi : G.IsoLam) (hn1 : G.nu + 1 ≠ 0) (hn2 : G.nu - 1 ≠ 0)' if iso else ''
    AX = ' hi hn1 hn2' if iso else ''
    ISOTAC = ('have d1 := iso_d1 G hn1 hn2\n  have d2 := iso_d2 G hn1 hn2\n  have d3 := iso_d3 G hn1\n  have d4 := iso_d4 G hn1 hn2\n'
              '  have d5 := iso_d5 G hn1 hn2\n  have d6 := iso_d6 G hn1 hn2\n  have d7 := iso_d7 G hn1 hn2\n  shell_look\n'
              '  simp only [hi.a11, hi.a12, hi.a16, hi.a22, hi.a26, hi.a66, hi.b11, hi.b12, hi.b16, hi.b22, hi.b26, hi.b66]\n'
              '  first | ring1 | (field_simp <;> ring1)')

    def lamtac(t):
        """tactic for an identity that involves the laminate entries read by an `iso_*` kernel"""
        return ISOTAC if (iso and t == 'shell_fs') else t

    def pre(what, imports=''):
        return PRELUDE % dict(model=model, what=what, imports=imports)

    def chunked(prefix, what, lemmas):
        """lemmas: [(text, weight)] -> files prefix1, prefix2, ... of bounded weight"""
        cur, w, k = [], 0, 0
        for text, wt in lemmas + [(None, 0)]:
            if text is None or (cur and w + wt > CHUNK):
                k += 1
                files['%s%d' % (prefix, k)] = '\n'.join([pre(what)] + cur + ['end Compmech.ShellNL.ShellJacobian.%s\n' % model])
                cur, w = [], 0
            if text is not None:
                cur.append(text)
                w += wt

    def wt(tac):
        return 1 if tac == 'shell_triv' else 6

    # ---- Basic: resultants, fint, membrane, eLc
    L = []
    for nm in ('N0', 'NL'):
        for p in range(6):
            if (p,) in bad[nm]:
                continue
            L.append(('theorem %s_%d (G : Geo K) (E : Strains K) : (model K).%s %d G E = sum6 fun q => G.Fm %d q * E.%s q := by\n  shell_triv\n'
                      % (nm, p, nm, p, p, 'e0' if nm == 'N0' else 'eL'), 1))
    for A in range(nT):
        if (A,) in bad['fint']:
            continue
        L.append((HB + 'theorem fint_%d %s (S : Slopes K) (N : Res K) (d : Dof K) :\n    (model K).fint %d G S N d =\n      G.r * sum6 fun p => (model K).e0 %d p G d * N.nL p + (model K).BL %d p G S d * (N.n0 p + N.nL p) := by\n  shell_fs\n'
                  % (A, HYP, A, A, A), 6))
    if not bad['membrane']:
        for A in range(nT):
            L.append(('theorem membrane_%d (G : Geo K) (S : Slopes K) (d : Dof K) :\n    (model K).eL %d 3 G S d = 0 ∧ (model K).eL %d 4 G S d = 0 ∧ (model K).eL %d 5 G S d = 0 := by\n  refine ⟨?_, ?_, ?_⟩ <;> simp only [shell_tab]\n'
                      % (A, A, A, A), 1))
    if not bad['eLc']:
        L.append(('theorem eLc_zero (G : Geo K) (p : Fin 6) : (model K).eLc p G = 0 := by\n  fin_cases p <;> simp [shell_tab]\n', 1))
    chunked('Basic', 'Resultants, internal-force integrand, membrane character of the non-linear strain increments.', L)
    L = []
    for A in range(nT):
        for p in range(6):
            if (A, p) in bad['affine']:
                continue
            tac = 'shell_fs' if A in wtypes and p < 3 else 'shell_triv'
            L.append(('theorem affine_%d_%d %s (S T : Slopes K) (t : K) (d : Dof K) :\n    (model K).eL %d %d G (S.addSmul t T) d = (model K).eL %d %d G S d + t * ((model K).eL %d %d G T d - (model K).eL %d %d G Slopes.zero d) := by\n  %s\n'
                      % (A, p, HYP, A, p, A, p, A, p, A, p, tac), wt(tac) // 2 + 1))
    chunked('Affine', 'The non-linear strain increments are affine in the slopes.', L)

    # ---- k0L; a row type with a failing entry is excluded as a whole (predicate `good`)
    badrows = sorted({A for (A, B) in bad['k0L']})
    L = []
    for A in range(nT):
        for B in range(nT):
            if A in badrows:
                continue
            tac = 'shell_fs' if (A, B) in ent['k0L'] or B in wtypes else 'shell_triv'
            L.append((HB + 'theorem k0L_%d_%d %s (S : Slopes K) (a b : Dof K) :\n    (model K).k0L %d %d G S a b =\n      %s := by\n  %s\n'
                      % (A, B, HYP + HX, A, B, rhs_k0L(A, B), lamtac(tac)), wt(tac)))
    chunked('K0L', 'k0L integrand = r · (linear strain increments of the row)ᵀ · F · (non-linear strain variation of the column).', L)

    # ---- kLL, kG (through make_symmetric at type level) and the entries written below the type diagonal
    lows = {}
    for nm, rhs, sv, st in (('kLL', rhs_kLL, 'S', 'Slopes'), ('kG', rhs_kG, 'NG', 'ResG')):
        hx = HX if nm == 'kLL' else ''
        L = []
        for A in range(nT):
            for B in range(nT):
                if (A, B) in bad[nm]:
                    continue
                lhs = '(model K).%s %d %d G %s a b' % (nm, A, B, sv) if A <= B else '(model K).%s %d %d G %s b a' % (nm, B, A, sv)
                tac = 'shell_fs' if (A in wtypes and B in wtypes) or ((min(A, B), max(A, B)) in ent[nm]) else 'shell_triv'
                L.append((HB + 'theorem %s_%d_%d %s (%s : %s K) (a b : Dof K) :\n    %s =\n      %s := by\n  %s\n'
                          % (nm, A, B, HYP + hx, sv, st, lhs, rhs(A, B), lamtac(tac) if nm == 'kLL' else tac), wt(tac)))
        lows[nm] = sorted((A, B) for A in range(nT) for B in range(A) if G.type_class(M, A)[0] == G.type_class(M, B)[0])
        for (A, B) in lows[nm]:
            if (A, B) in bad[nm + '_low']:
                continue
            tac = 'shell_fs' if ((A, B) in ent[nm] or (A in wtypes and B in wtypes)) else 'shell_triv'
            L.append((HB + 'theorem %s_low_%d_%d %s (%s : %s K) (a b : Dof K) :\n    (model K).%s %d %d G %s a b =\n      %s := by\n  %s\n'
                      % (nm, A, B, HYP + hx, sv, st, nm, A, B, sv, rhs(A, B), lamtac(tac) if nm == 'kLL' else tac), wt(tac)))
        chunked(nm.upper().replace('KLL', 'KLL'), '%s integrand (mirrored below the type diagonal, as make_symmetric does) in structural form.' % nm, L)

    # ---- reciprocity
    L = []
    for A in range(nT):
        for B in range(nT):
            if (A, B) in bad['recip']:
                continue
            tac = 'shell_fs' if (A in wtypes or B in wtypes) else 'shell_triv'
            L.append((HB + 'theorem recip_%d_%d %s (p : Fin 6) (a b : Dof K) :\n    (model K).eL %d p G ((model K).slOf %d G b) a - (model K).eL %d p G Slopes.zero a =\n      (model K).eL %d p G ((model K).slOf %d G a) b - (model K).eL %d p G Slopes.zero b := by\n  fin_cases p <;> %s\n'
                      % (A, B, HYP, A, B, A, B, A, B, tac), 6 if tac == 'shell_fs' else 2))
    chunked('Recip', 'Reciprocity of the non-linear strain increments: the bilinear form behind them is symmetric.', L)

    # ---- commons ties
    L = []
    for A in range(nT):
        for s_ in range(3):
            if (A, s_) not in bad['c_sl']:
                L.append(('theorem c_sl_%d_%d (G : Geo K) (d : Dof K) : (commons.cmodel K).sl %d %d G d = (model K).sl %d %d G d := by\n  shell_triv\n'
                          % (A, s_, A, s_, A, s_), 1))
        for p in range(6):
            if (A, p) not in bad['c_e']:
                tac = 'shell_fs' if A in wtypes or p < 3 else 'shell_triv'
                L.append((HB + 'theorem c_e_%d_%d %s (S : Slopes K) (d : Dof K) :\n    (commons.cmodel K).e %d %d G S d = (model K).e0 %d %d G d + (model K).eL %d %d G S d := by\n  %s\n'
                          % (A, p, HYP, A, p, A, p, A, p, tac), 3))
    for p in range(6):
        if (p,) not in bad['c_ec']:
            L.append(('theorem c_ec_%d (G : Geo K) : (commons.cmodel K).ec %d G = (model K).eLc %d G := by\n  shell_triv\n' % (p, p, p), 1))
    for p in range(3):
        if (p,) not in bad['c_N']:
            L.append(('theorem c_N_%d (G : Geo K) (E : Strains K) : (commons.cmodel K).N %d G E = sum6 fun q => G.Fm %d q * E.e0 q := by\n  shell_triv\n'
                      % (p, p, p), 1))
    chunked('Commons', 'The commons functions (cfwx, cfwt, cfv, cfstrain_*, cfN) against the accumulations of cffint.', L)

    # ---- top: combined statements + ModelOK
    imports = 'import CompmechVerif.Spec.ShellJacobian.StdLayout\n' + \
        '\n'.join('import CompmechVerif.Spec.ShellJacobian.%s.%s' % (model, f) for f in sorted(files))
    core = ('N0', 'NL', 'fint', 'kLL', 'kG', 'kLL_low', 'kG_low', 'affine', 'recip', 'membrane')
    allok = not any(bad[k] for k in core)
    L = [pre('Collects the case lemmas: `ok : ModelOK (model K) G good`%s.' % (
        '' if allok else ' is NOT available — failing cases listed below'), imports)]
    for nm in ('N0', 'NL'):
        if not bad[nm]:
            L.append('theorem %s_eq (G : Geo K) (p : Fin 6) (E : Strains K) : (model K).%s p G E = sum6 fun q => G.Fm p q * E.%s q :=\n  match p with\n%s\n'
                     % (nm, nm, 'e0' if nm == 'N0' else 'eL', '\n'.join('  | %d => %s_%d G E' % (p, nm, p) for p in range(6))))
    if not bad['fint']:
        L.append('theorem fint_eq %s (A : Fin %d) (S : Slopes K) (N : Res K) (d : Dof K) :\n    (model K).fint A G S N d =\n      G.r * sum6 fun p => (model K).e0 A p G d * N.nL p + (model K).BL A p G S d * (N.n0 p + N.nL p) :=\n  match A with\n%s\n'
                 % (HYP, nT, '\n'.join('  | %d => fint_%d G hL hr hc S N d' % (A, A) for A in range(nT))))
    if not bad['affine']:
        L.append('theorem eL_affine %s (A : Fin %d) (p : Fin 6) (S T : Slopes K) (t : K) (d : Dof K) :\n    (model K).eL A p G (S.addSmul t T) d = (model K).eL A p G S d + t * ((model K).eL A p G T d - (model K).eL A p G Slopes.zero d) :=\n  match A, p with\n%s\n'
                 % (HYP, nT, '\n'.join('  | %d, %d => affine_%d_%d G hL hr hc S T t d' % (A, p, A, p) for A in range(nT) for p in range(6))))
    if not bad['membrane']:
        L.append('theorem eL_membrane (G : Geo K) (A : Fin %d) (S : Slopes K) (d : Dof K) :\n    (model K).eL A 3 G S d = 0 ∧ (model K).eL A 4 G S d = 0 ∧ (model K).eL A 5 G S d = 0 :=\n  match A with\n%s\n'
                 % (nT, '\n'.join('  | %d => membrane_%d G S d' % (A, A) for A in range(nT))))
    for nm, rhs, sv, st in (('kLL', rhs_kLL, 'S', 'Slopes'), ('kG', rhs_kG, 'NG', 'ResG')):
        hx, ax = (HX, AX) if nm == 'kLL' else ('', '')
        gen_rhs = rhs(0, 0).replace('(model K).BL 0 p', '(model K).BL A p').replace('(model K).BL 0 q', '(model K).BL B q') \
            if nm == 'kLL' else \
            'G.r * sum6 fun p => 2 * ((model K).eL A p G ((model K).slOf B G b) a - (model K).eL A p G Slopes.zero a) * NG.v p'
        if not bad[nm + '_low']:
            cases = []
            for A in range(nT):
                for B in range(nT):
                    if (A, B) in lows[nm]:
                        cases.append('  | %d, %d => fun _ _ => %s_low_%d_%d G hL hr hc%s %s a b' % (A, B, nm, A, B, ax, sv))
                    elif B < A:
                        cases.append('  | %d, %d => fun _ h => absurd h (by decide)' % (A, B))
                    else:
                        cases.append('  | %d, %d => fun h _ => absurd h (by decide)' % (A, B))
            L.append('theorem %s_low %s (A B : Fin %d) (%s : %s K) (a b : Dof K) :\n    B < A → cls A = cls B → (model K).%s A B G %s a b =\n      %s :=\n  match A, B with\n%s\n'
                     % (nm, HYP + hx, nT, sv, st, nm, sv, gen_rhs, '\n'.join(cases)))
        if not bad[nm]:
            cases = []
            for A in range(nT):
                for B in range(nT):
                    cases.append('  | %d, %d => (symE_of_%s _ (by decide) G %s a b).trans (%s_%d_%d G hL hr hc%s %s a b)'
                                 % (A, B, 'le' if A <= B else 'not_le', sv, nm, A, B, ax, sv))
            L.append('theorem %s_eq %s (A B : Fin %d) (%s : %s K) (a b : Dof K) :\n    symE (model K).%s A B G %s a b =\n      %s :=\n  match A, B with\n%s\n'
                     % (nm, HYP + hx, nT, sv, st, nm, sv, gen_rhs, '\n'.join(cases)))
    if not bad['recip']:
        L.append('theorem eL_recip %s (A B : Fin %d) (p : Fin 6) (a b : Dof K) :\n    (model K).eL A p G ((model K).slOf B G b) a - (model K).eL A p G Slopes.zero a =\n      (model K).eL B p G ((model K).slOf A G a) b - (model K).eL B p G Slopes.zero b :=\n  match A, B with\n%s\n'
                 % (HYP, nT, '\n'.join('  | %d, %d => recip_%d_%d G hL hr hc p a b' % (A, B, A, B) for A in range(nT) for B in range(nT))))
    L.append('/-- the degree-of-freedom types whose `k0L` ROW has the structural form%s -/' % (
        '' if not badrows else ' (exact evaluation finds the rows %s defective, see the witness below)' % badrows))
    L.append('abbrev good (A : Fin %d) : Prop := %s\n' % (nT, ' ∧ '.join('A ≠ %d' % r for r in badrows) if badrows else 'True'))
    cases = []
    for A in range(nT):
        for B in range(nT):
            if A in badrows:
                cases.append('  | %d, %d => fun h => absurd h (by decide)' % (A, B))
            else:
                cases.append('  | %d, %d => fun _ => k0L_%d_%d G hL hr hc%s S a b' % (A, B, A, B, AX))
    L.append('theorem k0L_eq %s (A B : Fin %d) (S : Slopes K) (a b : Dof K) :\n    good A → (model K).k0L A B G S a b =\n      G.r * sum6 fun p => sum6 fun q => (model K).e0 A p G a * G.Fm p q * (model K).BL B q G S b :=\n  match A, B with\n%s\n'
             % (HYP + HX, nT, '\n'.join(cases)))
    if allok:
        L.append('/-- every structural identity of the regenerated model holds (the `k0L` rows: for the types in `good`) -/')
        L.append('theorem ok %s : ModelOK (model K) G good :=\n  { N0_eq := N0_eq G, NL_eq := NL_eq G, fint_eq := fint_eq G hL hr hc, k0L_eq := k0L_eq G hL hr hc%s,\n    kLL_eq := kLL_eq G hL hr hc%s, kG_eq := kG_eq G hL hr hc, kLL_low := kLL_low G hL hr hc%s,\n    kG_low := kG_low G hL hr hc, eL_affine := eL_affine G hL hr hc,\n    eL_recip := eL_recip G hL hr hc, eL_membrane := eL_membrane G }\n' % (HYP + HX, AX, AX, AX))
    cbad = any(bad[k] for k in ('c_sl', 'c_e', 'c_ec', 'c_N'))
    if not cbad:
        L.append('theorem c_sl_eq (G : Geo K) (A : Fin %d) (s : Fin 3) (d : Dof K) : (commons.cmodel K).sl A s G d = (model K).sl A s G d :=\n  match A, s with\n%s\n'
                 % (nT, '\n'.join('  | %d, %d => c_sl_%d_%d G d' % (A, s_, A, s_) for A in range(nT) for s_ in range(3))))
        L.append('theorem c_e_eq %s (A : Fin %d) (p : Fin 6) (S : Slopes K) (d : Dof K) :\n    (commons.cmodel K).e A p G S d = (model K).e0 A p G d + (model K).eL A p G S d :=\n  match A, p with\n%s\n'
                 % (HYP, nT, '\n'.join('  | %d, %d => c_e_%d_%d G hL hr hc S d' % (A, p, A, p) for A in range(nT) for p in range(6))))
        L.append('theorem c_ec_eq (G : Geo K) (p : Fin 6) : (commons.cmodel K).ec p G = (model K).eLc p G :=\n  match p with\n%s\n'
                 % '\n'.join('  | %d => c_ec_%d G' % (p, p) for p in range(6)))
        L.append('theorem c_N_eq (G : Geo K) (p : Fin 6) (E : Strains K) : p.val < 3 → (commons.cmodel K).N p G E = sum6 fun q => G.Fm p q * E.e0 q :=\n  match p with\n%s\n%s\n'
                 % ('\n'.join('  | %d => fun _ => c_N_%d G E' % (p, p) for p in range(3)),
                    '\n'.join('  | %d => fun h => absurd h (by decide)' % p for p in range(3, 6))))
        L.append('/-- the commons module feeds the matrix kernels exactly the state functionals of cffint -/')
        L.append('theorem cok %s : Generic.CommonsOK (commons.cmodel K) (model K) G :=\n  { sl_eq := c_sl_eq G, e_eq := c_e_eq G hL hr hc, ec_eq := c_ec_eq G, N_eq := c_N_eq G }\n' % HYP)
    else:
        L.append(commons_witness(M, bad))
    L.append('/-- the class table of the regenerated model is the CLPT one -/')
    L.append('theorem cls_eq (A : Fin %d) : (model K).cls A = cls12 A := by\n  fin_cases A <;> rfl\n' % nT)
    skips = [(b.rc, b.cc) for b in M.calc['k0L'].blocks if b.skip]
    if not skips:
        L.append('/-- `calc_k0L` skips nothing (no `if row > col: continue` in any block) -/')
        L.append('theorem k0L_noskip : ∀ b ∈ schema_k0L, b.2.2.1 = false := by decide\n')
    else:
        L.append('/-- `calc_k0L` / `cfk0L` skip `row > col` in the blocks %s although `k0L` is used as `k0L + k0Lᵀ` without\n`make_symmetric` -/' % skips)
        for (rc, cc) in skips:
            L.append('theorem k0L_skips_%d%d : skipOf schema_k0L %d %d = true := by decide\n' % (rc, cc, rc, cc))
    if any(v for k, v in bad.items() if k != 'eLc'):
        L.append('/- FAILING structural identities (exact rational evaluation of the translated source):\n%s -/\n'
                 % '\n'.join('   %s: %s' % (k, v) for k, v in sorted(bad.items()) if v))
    if badrows and allok:
        L.append(defect_witness(M, badrows, bad))
    L.append('end Compmech.ShellNL.ShellJacobian.%s\n' % model)
    top = '\n'.join(L)
    # stale case files of an earlier layout are removed
    for f in os.listdir(base):
        if f.endswith('.lean') and f[:-5] not in files:
            os.remove(os.path.join(base, f))
    for f, text in files.items():
        write_if_changed(os.path.join(base, f + '.lean'), text)
    write_if_changed(os.path.join(LEAN, 'CompmechVerif', 'Spec', 'ShellJacobian', model + '.lean'), top)
    return sorted(files)


def defect_witness(M, badrows, bad):
    """concrete rational point (zero state slopes) at which a `k0L` entry of a bad row differs from the structural form"""
    T = Tables(M)
    Z = {k: Fr(0) for k in G.SLOPES}
    out = []
    for A in badrows:
        found = None
        for seed in range(1, 200):
            P = Point(random.Random(1000 + seed), small=True, iso=M.rest is not None)
            P.S = Z
            for (A2, B) in bad['k0L']:
                if A2 != A:
                    continue
                lhs = T.entry('k0L', A, B, P, P.a, P.b)
                rhs = P.geo['r'] * sum(T.e0(A, p, P, P.a) * T.Fm(P, p, q) * T.BL(B, q, P, Z, P.b) for p in range(6) for q in range(6))
                if lhs != rhs:
                    found = (B, P, lhs, rhs)
                    break
            if found:
                break
        if not found:
            raise TranslateError('%s: no witness for the defective k0L row %d' % (M.base, A))
        B, P, lhs, rhs = found

        def lit(v):
            return '%d' % v.numerator if v.denominator == 1 else '(%d / %d)' % (v.numerator, v.denominator)
        out.append('/-- witness point for the defective `k0L` row %d (column type %d): entry = %s, structural form = %s -/' % (A, B, lhs, rhs))
        out.append('def wG%d : Geo ℚ :=\n  { %s }' % (A, ', '.join('%s := %s' % (k, lit(P.geo[k])) for k in GEO_FIELDS)))
        out.append('def wa%d : Dof ℚ := ⟨%s⟩' % (A, ', '.join(lit(P.a[k]) for k in DOF_FIELDS)))
        out.append('def wb%d : Dof ℚ := ⟨%s⟩' % (A, ', '.join(lit(P.b[k]) for k in DOF_FIELDS)))
        out.append('theorem wG%d_ne : wG%d.L ≠ 0 ∧ wG%d.r ≠ 0 ∧ wG%d.cosa ≠ 0 := by\n  refine ⟨?_, ?_, ?_⟩ <;> norm_num [wG%d]\n' % (A, A, A, A, A))
        out.append('/-- at this point (undeformed state, imperfect shell) the `k0L` entry written at (row type %d, column type %d) is\nnot `r · B₀ᵀ F B_L` -/' % (A, B))
        out.append('theorem k0L_defect_%d :\n    (model ℚ).k0L %d %d wG%d ⟨0, 0, 0⟩ wa%d wb%d ≠ Generic.k0LForm (model ℚ) wG%d ⟨0, 0, 0⟩ %d %d wa%d wb%d := by\n'
                   '  simp only [Generic.k0LForm, shell_tab, shell_nl, PointModel.BL, sum6, Slopes.zero, wG%d, wa%d, wb%d]\n  norm_num\n'
                   % (A, A, B, A, A, A, A, A, B, A, A, A, A, A))
        out.append('/-- column type of the witness -/\nabbrev defectCol%d : Fin %d := %d\n' % (A, M.nT, B))
    return '\n'.join(out)


def commons_witness(M, bad):
    """concrete rational point at which a total-strain coefficient of cfstrain_* differs from cffint's e0 + eL"""
    T = Tables(M)
    if not bad['c_e'] or bad['c_sl'] or bad['c_ec'] or bad['c_N']:
        raise TranslateError('%s: commons ties fail in an unexpected place: %r' % (M.base, {k: bad[k] for k in ('c_sl', 'c_e', 'c_ec', 'c_N')}))
    A, p = bad['c_e'][0]
    for seed in range(1, 200):
        P = Point(random.Random(2000 + seed), small=True)
        lhs = T.c_e(A, p, P, P.S, P.a)
        rhs = T.e0(A, p, P, P.a) + T.eL(A, p, P, P.S, P.a)
        if lhs != rhs:
            break
    else:
        raise TranslateError('%s: no witness for the commons defect' % M.base)

    def lit(v):
        return '%d' % v.numerator if v.denominator == 1 else '(%d / %d)' % (v.numerator, v.denominator)
    out = ['/-- witness for the commons defect: `%s` (%s) gives the dof type %d the coefficient %s in the total strain %d,\n`cffint` gives %s -/'
           % (M.commons.strain_fn, M.commons.name, A, lhs, p, rhs)]
    out.append('def cwG : Geo ℚ :=\n  { %s }' % ', '.join('%s := %s' % (k, lit(P.geo[k])) for k in GEO_FIELDS))
    out.append('def cwS : Slopes ℚ := ⟨%s⟩' % ', '.join(lit(P.S[k]) for k in G.SLOPES))
    out.append('def cwd : Dof ℚ := ⟨%s⟩' % ', '.join(lit(P.a[k]) for k in DOF_FIELDS))
    out.append('abbrev cwA : Fin %d := %d\nabbrev cwp : Fin 6 := %d' % (M.nT, A, p))
    out.append('theorem cwG_ne : cwG.L ≠ 0 ∧ cwG.r ≠ 0 ∧ cwG.cosa ≠ 0 := by\n  refine ⟨?_, ?_, ?_⟩ <;> norm_num [cwG]\n')
    out.append('theorem commons_defect :\n    (commons.cmodel ℚ).e cwA cwp cwG cwS cwd ≠ (model ℚ).e0 cwA cwp cwG cwd + (model ℚ).eL cwA cwp cwG cwS cwd := by\n'
               '  simp only [shell_tab, shell_nl, cwG, cwS, cwd]\n  norm_num\n')
    return '\n'.join(out)


# ------------------------------------------------------------------------------------------- direct Jacobian evaluation
def exact_state(T, P, cs):
    """slopes and resultants of the amplitude list cs = [(type, dof values, amplitude)] exactly as cffint accumulates them"""
    NE = len(G.STRAIN0)
    S = {k: sum((c * T.sl(A, s, P, d) for (A, d, c) in cs), Fr(0)) for s, k in enumerate(G.SLOPES)}
    e0 = [sum((c * T.e0(A, p, P, d) for (A, d, c) in cs), Fr(0)) for p in range(NE)]
    eL = [T.eLc(p, P) + sum((c * T.eL(A, p, P, S, d) for (A, d, c) in cs), Fr(0)) for p in range(NE)]
    env = dict(P.geo)
    env.update(zip(G.STRAIN0 + G.STRAINL, e0 + eL))
    N = {t: evq(e, env, {}) for (t, e, ln) in T.M.fint.pdefs}
    return S, N


def exact_fint(T, P, cs, A, a):
    S, N = exact_state(T, P, cs)
    env = dict(P.geo)
    env.update(S)
    env.update(N)
    return evq(T.M.fint.fint[A][0], env, {v: a for v in G.ROW_VARS})


def exact_kT(T, P, cs, A, a, B, b):
    S, N = exact_state(T, P, cs)
    Q = Point(random.Random(0))
    Q.geo, Q.S = P.geo, S
    Q.NG = {k: N[x] + N[y] for k, x, y in zip(G.RESG, G.RES0, G.RESL)}
    return T.entry('k0L', A, B, Q, a, b) + T.entry('k0L', B, A, Q, b, a) + T.symE('kLL', A, B, Q, a, b) + T.symE('kG', A, B, Q, a, b)


def exact_derivative(T, P, cs, A, a, B, b):
    """d fint_A / d c_B at the state cs: exact for the cubic dependence (5-point rule)"""
    f = lambda t: exact_fint(T, P, cs + [(B, b, Fr(t))], A, a)
    return (8 * (f(1) - f(-1)) - (f(2) - f(-2))) / 12


def emit_fsdt_refutation(lean_name):
    """FSDT model: Gen file + one kernel-checkable refutation of `tangent = Jacobian` at the undeformed imperfect state"""
    M = G.translate_ir(lean_name)
    text = G.emit_model(M)
    write_if_changed(os.path.join(LEAN, 'CompmechVerif', 'Gen', 'ConeCylNL', lean_name + '.lean'), text)
    T = Tables(M)
    nT = M.nT
    found = None
    for seed in range(1, 50):
        P = Point(random.Random(3000 + seed), small=True)
        for A in range(nT):
            for B in range(nT):
                if A == B or G.type_class(M, A)[0] == 0 or G.type_class(M, B)[0] == 0:
                    continue
                der, kt = exact_derivative(T, P, [], A, P.a, B, P.b), exact_kT(T, P, [], A, P.a, B, P.b)
                if der != kt:
                    found = (A, B, P, der, kt)
                    break
            if found:
                break
        if found:
            break
    if not found:
        return M, None
    A, B, P, der, kt = found

    def lit(v):
        return '%d' % v.numerator if v.denominator == 1 else '(%d / %d)' % (v.numerator, v.denominator)
    geo_fields = GEO_FIELDS
    vals = [exact_fint(T, P, [(B, P.b, Fr(t))], A, P.a) for t in (1, -1, 2, -2)]
    f0 = exact_fint(T, P, [], A, P.a)
    ns = 'Compmech.ShellNL.ShellJacobian.%s' % lean_name
    L = ['/-\nGENERATED by tools/translate/gen_shell_jacobian.py (emit_fsdt_refutation) for model %s — do not edit.\n'
         'Exact rational evaluation of the translated source finds, at the undeformed state of an imperfect shell, a pair of\n'
         'degree-of-freedom types for which the tangent integrand is not the derivative of the internal-force integrand; the\n'
         'witness is re-evaluated here by the Lean kernel on the regenerated terms.\n-/' % lean_name,
         'import CompmechVerif.Gen.ConeCylNL.%s' % lean_name, 'import Mathlib.Tactic.NormNum', 'import Mathlib.Tactic.Linarith',
         'import Mathlib.Algebra.Field.Rat', '', 'set_option linter.unusedSimpArgs false', '',
         'namespace %s' % ns, 'open Compmech.ShellNL Compmech.Gen.ConeCylNL.%s' % lean_name, '']
    L.append('/-- witness point -/')
    L.append('def wG : Geo8 ℚ :=\n  { %s }' % ', '.join('%s := %s' % (k, lit(P.geo[k])) for k in geo_fields + ('A44', 'A45', 'A55')))
    L.append('def wa : Dof ℚ := ⟨%s⟩' % ', '.join(lit(P.a[k]) for k in DOF_FIELDS))
    L.append('def wb : Dof ℚ := ⟨%s⟩' % ', '.join(lit(P.b[k]) for k in DOF_FIELDS))
    L.append('abbrev wA : Fin %d := %d\nabbrev wB : Fin %d := %d\n' % (nT, A, nT, B))
    simp = ('simp only [fintAt8, kTAt8, symE8, resOf8, strainsOf8, slopesOf8, Res8.ofFn, Res8.toG, Strains8.ofFn, Slopes.ofFn, Amp.scale,\n'
            '    List.map_cons, List.map_nil, List.nil_append, List.sum_cons, List.sum_nil, shell_tab, shell_nl, wG, wa, wb, wA, wB]')
    names = ['f1', 'fm1', 'f2', 'fm2']
    for nm_, t, v in zip(names, (1, -1, 2, -2), vals):
        L.append('theorem %s : fintAt8 (model ℚ) wG [(⟨wB, wb, 1⟩ : Amp %d ℚ).scale (%d)] wA wa = %s := by\n  %s\n  norm_num\n'
                 % (nm_, nT, t, lit(v), simp))
    L.append('theorem f0 : fintAt8 (model ℚ) wG [] wA wa = %s := by\n  %s\n  norm_num\n' % (lit(f0), simp))
    L.append('theorem kt : kTAt8 (model ℚ) wG [] wA wa wB wb = %s := by\n  %s\n  norm_num\n' % (lit(kt), simp))
    L.append('/-- exact derivative of the internal-force integrand of the dof type %d w.r.t. the amplitude of the dof type %d at the witness:\n%s; tangent integrand: %s -/' % (A, B, der, kt))
    L.append('theorem not_jacobian :\n    ¬ ∃ R₂ R₃ : ℚ, ∀ t : ℚ,\n      fintAt8 (model ℚ) wG ([] ++ [(⟨wB, wb, 1⟩ : Amp %d ℚ)].map (Amp.scale t)) wA wa =\n'
             '        fintAt8 (model ℚ) wG [] wA wa + t * kTAt8 (model ℚ) wG [] wA wa wB wb + t ^ 2 * R₂ + t ^ 3 * R₃ := by\n'
             '  rintro ⟨R₂, R₃, h⟩\n  have h1 := h 1\n  have hm1 := h (-1)\n  have h2 := h 2\n  have hm2 := h (-2)\n'
             '  simp only [List.nil_append, List.map_cons, List.map_nil] at h1 hm1 h2 hm2\n'
             '  rw [f1, f0, kt] at h1\n  rw [fm1, f0, kt] at hm1\n  rw [f2, f0, kt] at h2\n  rw [fm2, f0, kt] at hm2\n  linarith\n' % nT)
    L.append('end %s\n' % ns)
    write_if_changed(os.path.join(LEAN, 'CompmechVerif', 'Spec', 'ShellJacobian', lean_name + '.lean'), '\n'.join(L))
    return M, (A, B, der, kt)


def generate(lean_name, M=None):
    M = M or G.translate_ir(lean_name)
    bad = failing_cases(M)
    files = emit_files(M, bad)
    return M, bad, files


if __name__ == '__main__':
    import sys
    for nm in (sys.argv[1:] or list(G.MODELS)):
        M, bad, files = generate(nm)
        print(nm, 'failing:', {k: v for k, v in bad.items() if v} or 'none', 'files:', files)
