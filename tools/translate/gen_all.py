"""Regenerate every Gen/* Lean file from /repo (used by MANIFEST.setup_cmd before the first lake build)."""
import os

from tools import common
from tools.translate import gen_panel, gen_conn, gen_field, gen_num, gen_conecyl
from tools.translate import ctables as ct

if __name__ == '__main__':
    gen_panel.translate_all()
    gen_conn.translate_all()
    gen_field.translate_all()
    gen_num.translate_all()
    gen_conecyl.translate_all()
    gen = os.path.join(common.LEAN, 'CompmechVerif', 'Gen', 'CTables')
    os.makedirs(gen, exist_ok=True)
    ct.emit_all(common.REPO, gen, common.write_if_changed)
    print('generated')
