"""Regenerate every Gen/* Lean file from /repo (used by MANIFEST.setup_cmd before the first lake build)."""
from tools.translate import gen_panel, gen_conn, gen_field

if __name__ == '__main__':
    gen_panel.translate_all()
    gen_conn.translate_all()
    gen_field.translate_all()
    print('generated')
