"""Regenerate every Gen/* Lean file from /repo (used by MANIFEST.setup_cmd before the first lake build)."""
import os

from tools import common
from tools.translate import gen_panel, gen_conn, gen_field, gen_num, gen_conecyl, gen_conecyl_nl, gen_shell_jacobian, gen_stiff
from tools.translate import ctables as ct

if __name__ == '__main__':
    gen_panel.translate_all()
    gen_conn.translate_all()
    gen_stiff.translate_all()
    gen_field.translate_all()
    gen_num.translate_all()
    gen_conecyl.translate_all()
    # C17 stage 2: non-linear shell kernels (Gen/ConeCylNL/*) and the per-model case lemmas instantiated for them
    # (Spec/ShellJacobian/<Model>(/*).lean; which identities are claimed is decided by exact evaluation of the IR)
    for name, M in gen_conecyl_nl.translate_all().items():
        gen_shell_jacobian.generate(name, M)
    for name in ('FsdtDonnellBc1', 'FsdtDonnellBcn'):          # FSDT: IR + Gen file + kernel-checkable refutation only
        gen_shell_jacobian.emit_fsdt_refutation(name)
    gen = os.path.join(common.LEAN, 'CompmechVerif', 'Gen', 'CTables')
    os.makedirs(gen, exist_ok=True)
    ct.emit_all(common.REPO, gen, common.write_if_changed)
    print('generated')
