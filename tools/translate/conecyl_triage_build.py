"""Maintenance helper (not part of a check): build the generated ConeCyl theorem files, map every failing proof to its
theorem and record it in conecyl_unproved.json, so that the generator leaves those positions to the exact rational
evaluation.  Run again after changing the tactics to shrink the list."""
import glob, json, os, re, subprocess, sys
sys.path.insert(0, os.path.dirname(os.path.dirname(os.path.dirname(os.path.abspath(__file__)))))
from tools import common
from tools.translate import gen_conecyl as g

def main():
    files = sorted(glob.glob(os.path.join(g.GEN, '*Cyl.lean')) + glob.glob(os.path.join(g.GEN, '*Iso.lean')) + glob.glob(os.path.join(g.GEN, '*Lin.lean')))
    mods = ['CompmechVerif.Gen.ConeCyl.' + os.path.basename(f)[:-5] for f in files]
    p = subprocess.run(['lake', 'build'] + mods, cwd=common.LEAN, stdout=subprocess.PIPE, stderr=subprocess.STDOUT, text=True)
    bad = set(g.unproved())
    for m in re.finditer(r'error: (CompmechVerif/Gen/ConeCyl/(\w+)\.lean):(\d+):\d+', p.stdout):
        path, mod, line = os.path.join(common.LEAN, m.group(1)), m.group(2), int(m.group(3))
        src = open(path).read().split('\n')
        for k in range(line - 1, -1, -1):
            mm = re.match(r'theorem (\w+) ', src[k])
            if mm:
                model = re.sub(r'(Cyl|Iso|Lin)$', '', mod)
                bad.add('%s.%s' % (model, mm.group(1)))
                break
    json.dump(dict(_comment='theorems of the generated ConeCyl files for which no Lean proof was found although the identity holds at every exact rational trial point; the generator omits them (positions stay covered by the exact evaluation). Maintained by conecyl_triage_build.py.',
                   theorems=sorted(bad)), open(g.UNPROVED_FILE, 'w'), indent=1)
    print(len(bad), 'unproved;', 'build rc', p.returncode)

if __name__ == '__main__':
    main()
