"""Translator T for the complete-shell kernels compmech/conecyl/{clpt,fsdt}/*_linear.pyx (C16).

Each kernel function (fk0, fk0_cyl, fk0edges, fkG0, fkG0_cyl) is a loop nest over the series indices (and, for cones,
over `s` constant-radius sections) whose body is a sequence of

        c += 1
        k0r[c] = <row expr>
        k0c[c] = <col expr>
        k0v[c] += <closed-form value expr>

guarded by index conditions (`if i1 != 0`, `if k1 == i1`, `if row > col: continue`, ...).  The walker turns the
function into a small IR

    Let(name, expr) | For(var, lo, hi, body) | If(test, body, orelse) | Continue | Entry(tag, row, col, val)

keeping every expression as a Python `ast` node.  `interp` executes the IR numerically (validation V against the
running binaries and the model arm of the failing-input search); `gen_conecyl.py` emits the Entry values as Lean terms.
Anything outside the recognised grammar raises TranslateError.
"""
import ast
import math
import re
from fractions import Fraction

from tools.translate import pyx
from tools.translate.pyx import TranslateError, _src


class Let(object):
    def __init__(self, name, expr):
        self.name, self.expr = name, expr


class For(object):
    def __init__(self, var, lo, hi, body):
        self.var, self.lo, self.hi, self.body = var, lo, hi, body


class If(object):
    def __init__(self, test, body, orelse):
        self.test, self.body, self.orelse = test, body, orelse


class Continue(object):
    pass


class Entry(object):
    def __init__(self, tag, row, col, val, arr, lineno):
        self.tag, self.row, self.col, self.val, self.arr, self.lineno = tag, row, col, val, arr, lineno
        self.path = ()      # tuple of (test source, taken?) of the enclosing Ifs
        self.loops = ()     # enclosing loop variables


class KernelFn(object):
    def __init__(self, name, params, body, arrays, fdim, size):
        self.name, self.params, self.body = name, params, body
        self.arrays = arrays        # (rows array, cols array, values array)
        self.fdim = fdim            # ast expr of the allocated length (or None)
        self.size = size            # ast expr of the matrix size
        self.entries = []           # flat list of Entry in source order

    def __repr__(self):
        return 'KernelFn(%s, %d entries)' % (self.name, len(self.entries))


IGNORED_CALLS = ('np.zeros', 'coo_matrix', 'np.ascontiguousarray')
LAMINATE = {'A11': (0, 0), 'A12': (0, 1), 'A16': (0, 2), 'A22': (1, 1), 'A26': (1, 2), 'A66': (2, 2),
            'B11': (0, 3), 'B12': (0, 4), 'B16': (0, 5), 'B22': (1, 4), 'B26': (1, 5), 'B66': (2, 5),
            'D11': (3, 3), 'D12': (3, 4), 'D16': (3, 5), 'D22': (4, 4), 'D26': (4, 5), 'D66': (5, 5),
            'A44': (6, 6), 'A45': (6, 7), 'A55': (7, 7)}


def _is_name(n, name=None):
    return isinstance(n, ast.Name) and (name is None or n.id == name)


def _sub_name_c(t):
    """`arr[c]` -> arr name"""
    if isinstance(t, ast.Subscript) and _is_name(t.value) and _is_name(t.slice, 'c'):
        return t.value.id
    return None


def walk_function(fn):
    """ast.FunctionDef -> KernelFn"""
    params = [a.arg for a in fn.args.args]
    state = dict(arrays=set(), fdim=None, size=None, rows=None, cols=None, vals=None, pending=None)
    entries = []

    def block(stmts, path, loops):
        out = []
        i = 0
        n = len(stmts)
        while i < n:
            st = stmts[i]
            # ---- the 4-statement entry pattern
            if isinstance(st, ast.AugAssign) and _is_name(st.target, 'c') and isinstance(st.op, ast.Add) \
                    and isinstance(st.value, ast.Constant) and st.value.value == 1:
                if i + 3 >= n:
                    raise TranslateError('%s line %d: `c += 1` not followed by row/col/value statements' % (fn.name, st.lineno))
                r, cc, v = stmts[i + 1], stmts[i + 2], stmts[i + 3]
                ok = (isinstance(r, ast.Assign) and len(r.targets) == 1 and _sub_name_c(r.targets[0])
                      and isinstance(cc, ast.Assign) and len(cc.targets) == 1 and _sub_name_c(cc.targets[0])
                      and isinstance(v, ast.AugAssign) and isinstance(v.op, ast.Add) and _sub_name_c(v.target))
                if not ok:
                    raise TranslateError('%s line %d: unrecognised entry pattern' % (fn.name, st.lineno))
                arrs = (_sub_name_c(r.targets[0]), _sub_name_c(cc.targets[0]), _sub_name_c(v.target))
                if state['rows'] is None:
                    state['rows'], state['cols'], state['vals'] = arrs
                elif (state['rows'], state['cols'], state['vals']) != arrs:
                    raise TranslateError('%s line %d: entry written to arrays %r, expected %r'
                                         % (fn.name, st.lineno, arrs, (state['rows'], state['cols'], state['vals'])))
                e = Entry(len(entries), r.value, cc.value, v.value, arrs, v.lineno)
                e.path, e.loops = tuple(path), tuple(loops)
                entries.append(e)
                out.append(e)
                i += 4
                continue
            if isinstance(st, ast.Pass):
                i += 1
                continue
            if isinstance(st, ast.Expr) and isinstance(st.value, ast.Constant):
                i += 1      # docstring
                continue
            if isinstance(st, ast.Assign) and len(st.targets) == 1 and _is_name(st.targets[0]):
                name = st.targets[0].id
                val = st.value
                if isinstance(val, ast.Call) and _src(val.func) in IGNORED_CALLS:
                    if _src(val.func) == 'coo_matrix':
                        state['result'] = name
                    i += 1
                    continue
                if name == 'c':
                    if not (isinstance(val, ast.UnaryOp) and isinstance(val.op, ast.USub)
                            and isinstance(val.operand, ast.Constant) and val.operand.value == 1):
                        raise TranslateError('%s line %d: `c` may only be reset to -1' % (fn.name, st.lineno))
                    out.append(Let('c', val))
                    i += 1
                    continue
                if name == 'fdim':
                    state['fdim'] = val
                if name == 'size':
                    state['size'] = val
                out.append(Let(name, val))
                i += 1
                continue
            if isinstance(st, ast.For):
                if not (_is_name(st.target) and isinstance(st.iter, ast.Call) and _is_name(st.iter.func, 'range')
                        and 1 <= len(st.iter.args) <= 2 and not st.orelse):
                    raise TranslateError('%s line %d: unsupported loop' % (fn.name, st.lineno))
                lo = st.iter.args[0] if len(st.iter.args) == 2 else ast.Constant(0)
                hi = st.iter.args[-1]
                out.append(For(st.target.id, lo, hi, block(st.body, path, loops + [st.target.id])))
                i += 1
                continue
            if isinstance(st, ast.If):
                if isinstance(st.test, ast.Constant) and st.test.value is True and not st.orelse:
                    out += block(st.body, path, loops)       # `with nogil:`
                    i += 1
                    continue
                tsrc = _src(st.test)
                out.append(If(st.test, block(st.body, path + [(tsrc, True)], loops),
                              block(st.orelse, path + [(tsrc, False)], loops)))
                i += 1
                continue
            if isinstance(st, ast.Continue):
                out.append(Continue())
                i += 1
                continue
            if isinstance(st, ast.Return):
                i += 1
                continue
            raise TranslateError('%s line %d: unsupported statement %s' % (fn.name, st.lineno, _src(st)[:70]))
        return out

    body = block(fn.body, [], [])
    K = KernelFn(fn.name, params, body, (state['rows'], state['cols'], state['vals']), state['fdim'], state['size'])
    K.entries = entries
    if not entries:
        raise TranslateError('%s: no entries found' % fn.name)
    return K


# ----------------------------------------------------------------------------- numeric interpretation
class _Cont(Exception):
    pass


def _ev(e, env):
    if isinstance(e, ast.Constant):
        if isinstance(e.value, float) and env.get('__exact__'):
            return Fraction(_src(e))
        return e.value
    if isinstance(e, ast.Name):
        try:
            return env[e.id]
        except KeyError:
            raise TranslateError('unbound name %s' % e.id)
    if isinstance(e, ast.BinOp):
        a, b = _ev(e.left, env), _ev(e.right, env)
        t = type(e.op)
        if t is ast.Add:
            return a + b
        if t is ast.Sub:
            return a - b
        if t is ast.Mult:
            return a * b
        if t is ast.Div:
            return a / b
        if t is ast.Pow:
            return a ** b
        if t is ast.Mod:
            return a % b
        raise TranslateError('unsupported operator %s' % _src(e)[:40])
    if isinstance(e, ast.UnaryOp):
        v = _ev(e.operand, env)
        if isinstance(e.op, ast.USub):
            return -v
        if isinstance(e.op, ast.UAdd):
            return v
        if isinstance(e.op, ast.Not):
            return not v
        raise TranslateError('unsupported unary')
    if isinstance(e, ast.Compare):
        left = _ev(e.left, env)
        for op, right in zip(e.ops, e.comparators):
            r = _ev(right, env)
            t = type(op)
            ok = (left == r if t is ast.Eq else left != r if t is ast.NotEq else left < r if t is ast.Lt else
                  left <= r if t is ast.LtE else left > r if t is ast.Gt else left >= r if t is ast.GtE else None)
            if ok is None:
                raise TranslateError('unsupported comparison')
            if not ok:
                return False
            left = r
        return True
    if isinstance(e, ast.BoolOp):
        vals = [_ev(v, env) for v in e.values]
        return all(vals) if isinstance(e.op, ast.And) else any(vals)
    if isinstance(e, ast.Call):
        f = _src(e.func)
        args = [_ev(a, env) for a in e.args]
        if f == 'sin':
            return math.sin(args[0])
        if f == 'cos':
            return math.cos(args[0])
        if f == 'float':
            return float(args[0])
        if f == 'int':
            return int(args[0])
        if f == 'pow':
            return args[0] ** args[1]
        raise TranslateError('unsupported call %s' % f)
    if isinstance(e, ast.Subscript):       # F[0, 1]
        v = _ev(e.value, env)
        idx = e.slice
        if isinstance(idx, ast.Tuple):
            return v[tuple(_ev(x, env) for x in idx.elts)]
        return v[_ev(idx, env)]
    raise TranslateError('unsupported expression %s' % _src(e)[:60])


def interp(K, args):
    """run the IR: returns (list of (row, col, value) accumulated per slot as the code does, size, max slot + 1, fdim)"""
    env = dict(args)
    slots = {}
    maxc = [-1]

    def run(body):
        for st in body:
            if isinstance(st, Let):
                env[st.name] = _ev(st.expr, env)
            elif isinstance(st, Entry):
                env['c'] = env['c'] + 1
                c = env['c']
                maxc[0] = max(maxc[0], c)
                r, cc, v = _ev(st.row, env), _ev(st.col, env), _ev(st.val, env)
                if c in slots:
                    if slots[c][0] != r or slots[c][1] != cc:
                        raise TranslateError('%s: slot %d is reused for another (row, col)' % (K.name, c))
                    slots[c][2] += v
                else:
                    slots[c] = [r, cc, v]
            elif isinstance(st, For):
                lo, hi = _ev(st.lo, env), _ev(st.hi, env)
                for k in range(lo, hi):
                    env[st.var] = k
                    try:
                        run(st.body)
                    except _Cont:
                        pass
            elif isinstance(st, If):
                run(st.body if _ev(st.test, env) else st.orelse)
            elif isinstance(st, Continue):
                raise _Cont()
    if 'c' not in env:
        env['c'] = -1
    run(K.body)
    size = env.get('size')
    return [tuple(v) for _, v in sorted(slots.items())], size, maxc[0] + 1, env.get('fdim')


def dense(trip, size):
    import numpy as np
    M = np.zeros((size, size))
    for r, c, v in trip:
        M[r, c] += v
    return M


# ----------------------------------------------------------------------------- modules
def parse_module(path):
    """as pyx.parse_module, but `cdef double r=r2` inside a function is kept as the assignment it is"""
    src = open(path).read()
    src = re.sub(r'(?m)^(\s+)cdef\s+(?:int|double|long)\s+(\w+)\s*=\s*([^,\n]+)$', r'\1\2 = \3', src)
    py = pyx.preprocess(src)
    try:
        tree = ast.parse(py)
    except SyntaxError as e:
        raise TranslateError('%s: cannot parse after preprocessing: %s (line %s: %r)' % (
            path, e.msg, e.lineno, py.split('\n')[(e.lineno or 1) - 1][:120]))
    consts, funcs = {}, {}
    for node in tree.body:
        if isinstance(node, ast.Assign) and len(node.targets) == 1 and isinstance(node.targets[0], ast.Name) \
                and isinstance(node.value, ast.Constant):
            consts[node.targets[0].id] = node.value.value
        elif isinstance(node, ast.FunctionDef):
            funcs[node.name] = node
    return consts, funcs


def load_linear_module(path):
    consts, funcs = parse_module(path)
    out = {}
    for name in ('fk0', 'fk0_cyl', 'fk0edges', 'fkG0', 'fkG0_cyl'):
        if name in funcs:
            out[name] = walk_function(funcs[name])
    return consts, out
