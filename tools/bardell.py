"""Exact Bardell hierarchical polynomials from the closed formula of theory/func/bardell/bardell.py
(independent of every table in compmech/lib/src) and exact integrals of products.

Used as the numeric oracle behind J(d1, phi_i, d2, phi_k) when the translated kernels are validated
against the running binaries, and by the failing-input searches.
"""
from fractions import Fraction
from functools import lru_cache
from math import factorial

import numpy as np


def fact2(n):
    if n <= 0:
        return 1
    r = 1
    while n > 1:
        r *= n
        n -= 2
    return r


@lru_cache(maxsize=None)
def poly(i):
    """coefficients (ascending powers, Fractions) of the i-th function (0-based), flags = 1"""
    F = Fraction
    if i == 0:
        return (F(1, 2), F(-3, 4), F(0), F(1, 4))
    if i == 1:
        return (F(1, 8), F(-1, 8), F(-1, 8), F(1, 8))
    if i == 2:
        return (F(1, 2), F(3, 4), F(0), F(-1, 4))
    if i == 3:
        return (F(-1, 8), F(-1, 8), F(1, 8), F(1, 8))
    r = i + 1
    c = [F(0)] * r
    for n in range(0, r // 2 + 1):
        e = r - 2 * n - 1
        if e < 0:
            continue
        c[e] += F((-1) ** n * fact2(2 * r - 2 * n - 7), 2 ** n * factorial(n) * factorial(e))
    return tuple(c)


def pderiv(c, d=1):
    c = list(c)
    for _ in range(d):
        c = [k * c[k] for k in range(1, len(c))] or [Fraction(0)]
    return c


def pmul(a, b):
    out = [Fraction(0)] * (len(a) + len(b) - 1)
    for i, x in enumerate(a):
        if x:
            for j, y in enumerate(b):
                out[i + j] += x * y
    return out


def pinteg(c, x1, x2):
    s = Fraction(0)
    for k, ck in enumerate(c):
        if ck:
            s += ck * (Fraction(x2) ** (k + 1) - Fraction(x1) ** (k + 1)) / (k + 1)
    return s


def peval(c, x):
    s = 0
    for ck in reversed(c):
        s = s * x + ck
    return s


def flag_of(i, flags):
    """flags = (t1, r1, t2, r2)"""
    return flags[i] if i < 4 else 1


@lru_cache(maxsize=None)
def _prod_antideriv(d1, i, d2, k):
    p = pmul(pderiv(poly(i), d1), pderiv(poly(k), d2))
    return tuple([Fraction(0)] + [p[j] / (j + 1) for j in range(len(p))])


def J(d1, i, fl1, d2, k, fl2, x1=-1, x2=1, exact=False):
    """integral over [x1,x2] of D^d1 phi_i^{fl1} * D^d2 phi_k^{fl2}"""
    A = _prod_antideriv(d1, i, d2, k)
    if exact:
        v = peval(A, Fraction(x2)) - peval(A, Fraction(x1))
        return v * Fraction(flag_of(i, fl1)) * Fraction(flag_of(k, fl2))
    Af = _float_antideriv(d1, i, d2, k)
    return (np.polynomial.polynomial.polyval(x2, Af) - np.polynomial.polynomial.polyval(x1, Af)) \
        * flag_of(i, fl1) * flag_of(k, fl2)


@lru_cache(maxsize=None)
def _float_antideriv(d1, i, d2, k):
    return np.array([float(x) for x in _prod_antideriv(d1, i, d2, k)])


def phi(d, i, fl, xi):
    """D^d phi_i^{fl}(xi) in floats"""
    c = [float(x) for x in pderiv(poly(i), d)]
    return np.polynomial.polynomial.polyval(xi, np.array(c)) * flag_of(i, fl)
