"""Shared machinery of the /verif checks (run with /venv/bin/python).

Pipeline per property (DESIGN.md 2.3):
  translate (T) -> lake build Props.<id> -> axiom audit + forbidden-token grep
  -> correspondence (H) / translator validation (V) -> known-finding replays -> evidence.
A broken build / tie starts the failing-input search of the property's plugin (2.4).
"""
import fcntl
import json
import os
import random
import re
import subprocess
import sys
import time
from fractions import Fraction

VERIF = os.path.dirname(os.path.dirname(os.path.abspath(__file__)))
LEAN = os.path.join(VERIF, 'lean')
REPO = os.environ.get('COMPMECH_REPO', '/repo')
if REPO not in sys.path:
    sys.path.insert(0, REPO)      # the tree under test takes precedence over the develop-installed copy
SCRATCH = os.path.join(VERIF, '.scratch')
REPLAYS = os.path.join(VERIF, 'replays')
EVIDENCE = os.path.join(VERIF, 'evidence')
if 'COMPMECH_REPO' in os.environ or os.environ.get('VERIF_MUTANT'):
    EVIDENCE = os.path.join(SCRATCH, 'evidence_mut')   # evaluation of seeded changes never touches the committed evidence
PY = '/venv/bin/python'
ALLOWED_AXIOMS = {'propext', 'Classical.choice', 'Quot.sound'}
FORBIDDEN = re.compile(r'\bsorry\b|\badmit\b|^axiom |native_decide|bv_decide|implemented_by|\bunsafe |maxHeartbeats 0\b')

for d in (SCRATCH, REPLAYS, EVIDENCE):
    os.makedirs(d, exist_ok=True)


# ----------------------------------------------------------------------------- rationals
def q(x):
    """exact rational text of a float / int / Fraction for the line protocol"""
    if isinstance(x, Fraction):
        f = x
    elif isinstance(x, int):
        f = Fraction(x)
    else:
        f = Fraction(*float(x).as_integer_ratio())
    return '%d/%d' % (f.numerator, f.denominator)


def unq(s):
    n, d = s.split('/')
    return Fraction(int(n), int(d))


def close(x, y, scale, rel=1e-9):
    """real output x (float) matches model output y (Fraction)"""
    return abs(Fraction(x) - y) <= Fraction(rel) * Fraction(scale) + Fraction(1, 10 ** 300)


# ----------------------------------------------------------------------------- lake / lean
class LakeLock(object):
    def __enter__(self):
        self.f = open(os.path.join(SCRATCH, 'lake.lock'), 'w')
        fcntl.flock(self.f, fcntl.LOCK_EX)
        return self

    def __exit__(self, *a):
        fcntl.flock(self.f, fcntl.LOCK_UN)
        self.f.close()


def run(cmd, cwd=None, timeout=None, input=None, env=None):
    e = dict(os.environ)
    if env:
        e.update(env)
    p = subprocess.run(cmd, cwd=cwd, stdout=subprocess.PIPE, stderr=subprocess.STDOUT,
                       input=input, timeout=timeout, env=e, text=True)
    return p.returncode, p.stdout


def lake_build(targets, timeout=3000):
    """returns (ok, output)"""
    with LakeLock():
        rc, out = run(['lake', 'build'] + list(targets), cwd=LEAN, timeout=timeout)
    return rc == 0, out


def theorem_names(prop_file):
    """all `theorem` names declared in a Props file, fully qualified by its namespaces"""
    src = open(prop_file).read()
    src_nc = strip_comments(src)
    names = []
    ns = []
    for line in src_nc.splitlines():
        m = re.match(r'\s*namespace\s+(\S+)', line)
        if m:
            ns.append(m.group(1))
            continue
        m = re.match(r'\s*end\s+(\S+)\s*$', line)
        if m and ns and ns[-1] == m.group(1):
            ns.pop()
            continue
        m = re.match(r'\s*(?:@\[[^\]]*\]\s*)?(?:private\s+|protected\s+)?theorem\s+(\S+)', line)
        if m:
            names.append('.'.join(ns + [m.group(1)]))
    return names


def strip_comments(src):
    """remove Lean block comments (nested) and line comments"""
    out = []
    i = 0
    depth = 0
    n = len(src)
    while i < n:
        if src.startswith('/-', i):
            depth += 1
            i += 2
        elif depth and src.startswith('-/', i):
            depth -= 1
            i += 2
        elif depth:
            if src[i] == '\n':
                out.append('\n')
            i += 1
        elif src.startswith('--', i):
            while i < n and src[i] != '\n':
                i += 1
        else:
            out.append(src[i])
            i += 1
    return ''.join(out)


def audit(pid, modules=None):
    """#print axioms for every theorem of Props/<pid>.lean; forbidden-token grep over the project.
    returns dict(ok, theorems=[(name, axioms)], problems=[...])"""
    prop_file = os.path.join(LEAN, 'CompmechVerif', 'Props', pid + '.lean')
    names = theorem_names(prop_file)
    problems = []
    if not names:
        problems.append('no theorems found in ' + prop_file)
    audit_dir = os.path.join(LEAN, 'CompmechVerif', 'Audit')
    os.makedirs(audit_dir, exist_ok=True)
    audit_file = os.path.join(audit_dir, pid + '.lean')
    body = 'import CompmechVerif.Props.%s\n' % pid + ''.join('#print axioms %s\n' % n for n in names)
    write_if_changed(audit_file, body)
    with LakeLock():
        rc, out = run(['lake', 'env', 'lean', audit_file], cwd=LEAN, timeout=1800)
    thms = []
    if rc != 0:
        problems.append('audit file failed to elaborate: ' + out[-2000:])
    flat = re.sub(r'\s+', ' ', out)
    for n in names:
        m = re.search(r"'%s' depends on axioms: \[([^\]]*)\]" % re.escape(n), flat)
        if m:
            ax = [a.strip() for a in m.group(1).split(',') if a.strip()]
        elif re.search(r"'%s' does not depend on any axioms" % re.escape(n), flat):
            ax = []
        else:
            problems.append('no axiom report for ' + n)
            continue
        thms.append((n, ax))
        bad = [a for a in ax if a not in ALLOWED_AXIOMS]
        if bad:
            problems.append('%s depends on non-standard axioms %s' % (n, bad))
    # forbidden tokens anywhere in the library (outside comments)
    for root, _, files in os.walk(os.path.join(LEAN, 'CompmechVerif')):
        for fn in files:
            if fn.endswith('.lean'):
                p = os.path.join(root, fn)
                for k, line in enumerate(strip_comments(open(p).read()).splitlines(), 1):
                    if FORBIDDEN.search(line):
                        problems.append('forbidden token in %s:%d: %s' % (os.path.relpath(p, LEAN), k, line.strip()[:120]))
    return dict(ok=not problems, theorems=thms, problems=problems)


def write_if_changed(path, content):
    try:
        if open(path).read() == content:
            return False
    except IOError:
        pass
    os.makedirs(os.path.dirname(path), exist_ok=True)
    with open(path, 'w') as f:
        f.write(content)
    return True


def driver(lines, timeout=1800, pid=None):
    """pipe operation lines `<pid> <op> ...` to the Lean model driver of that property, return output lines"""
    pid = pid or lines[0].split()[0]
    lines = [l[len(pid) + 1:] if l.startswith(pid + ' ') else l for l in lines]
    with LakeLock():
        pass  # make sure no build is half-way; the driver itself only reads .olean files
    rc, out = run(['lake', 'env', 'lean', '--run', 'drivers/%s.lean' % pid], cwd=LEAN,
                  input='\n'.join(lines) + '\n', timeout=timeout)
    if rc != 0:
        raise RuntimeError('Lean driver failed: ' + out[-3000:])
    return out.splitlines()


# ----------------------------------------------------------------------------- known findings
def load_findings(pid):
    p = os.path.join(VERIF, 'known_findings.json')
    if not os.path.exists(p):
        return []
    return [f for f in json.load(open(p))['findings'] if f['property'] == pid]


# ----------------------------------------------------------------------------- context / result
class Ctx(object):
    def __init__(self, pid, tier, seed, replay=None):
        self.pid = pid
        self.tier = tier
        self.seed = seed
        self.replay = replay
        self.rng = random.Random(seed * 1000003 + sum(map(ord, pid)))
        self.t0 = time.time()
        self.violations = []       # list of dict(kind, what, replay=<dict>, found_input=bool)
        self.known_hits = []       # (finding id, text)
        self.cov = {}              # extra coverage keys
        self.samples = []
        self.notes = []
        self.evaluations = 0
        self.nontrivial = set()
        self.trusted = []
        self.assumptions = []
        self.n_replay = 0

    def thorough(self):
        return self.tier == 'thorough'

    def scale(self, quick, thorough):
        return thorough if self.thorough() else quick

    def log(self, *a):
        print('[%s %6.1fs]' % (self.pid, time.time() - self.t0), *a, flush=True)

    def sample(self, s, limit=6):
        if len(self.samples) < limit:
            self.samples.append(s)

    def violation(self, what, replay, found_input=True, identity=None):
        """record a violation unless `identity` is a listed known finding"""
        if identity is not None:
            for f in load_findings(self.pid):
                if f.get('status', 'known') == 'known' and f['id'] == identity:
                    if identity not in [k for k, _ in self.known_hits]:
                        self.known_hits.append((identity, f['what']))
                    return False
        self.n_replay += 1
        path = os.path.join(REPLAYS, '%s-%s-%d-%d.json' % (self.pid, self.tier, self.seed, self.n_replay))
        with open(path, 'w') as f:
            json.dump(dict(property=self.pid, what=what, found_input=found_input, replay=replay), f,
                      indent=1, default=str)
        self.violations.append(dict(what=what, path=path, found_input=found_input))
        return True


def finish(ctx, obligations, discharged, checker_cmd, rule, exhaustive=False):
    wall = time.time() - ctx.t0
    cov = dict(obligations=obligations, discharged=discharged, checker_cmd=checker_cmd,
               trusted_base=ctx.trusted, evaluations=ctx.evaluations,
               distinct_nontrivial=len(ctx.nontrivial), rule=rule, samples=ctx.samples,
               exhaustive=exhaustive)
    cov.update(ctx.cov)
    ev = dict(property_id=ctx.pid, tier=ctx.tier, seed=ctx.seed, level='proof', coverage=cov,
              assumptions=ctx.assumptions, wall_s=round(wall, 2), violations=len(ctx.violations),
              known_findings=[k for k, _ in ctx.known_hits], notes=ctx.notes)
    with open(os.path.join(EVIDENCE, ctx.pid + '.json'), 'w') as f:
        json.dump(ev, f, indent=1, default=str)
    for k, text in ctx.known_hits:
        print('KNOWN-FINDING: property=%s %s [%s]' % (ctx.pid, text, k))
    # violations with a failing input first: the first VIOLATION line is the one a reader (and the replay) starts from
    for v in sorted(ctx.violations, key=lambda v_: not v_['found_input']):
        tail = '' if v['found_input'] else ' no-failing-input-found'
        print('VIOLATION property=%s replay=%s%s' % (ctx.pid, v['path'], tail))
        print('   ', v['what'])
    ctx.log('done: obligations %d/%d, evaluations %d, violations %d, known %d'
            % (discharged, obligations, ctx.evaluations, len(ctx.violations), len(ctx.known_hits)))
    return 1 if ctx.violations else 0
