"""Whole-matrix machinery shared by the panel-kernel properties (C02, C03, C04, C13, C14, C19):

* `interp_kernel`  - interpret the translator's IR of one analytic kernel (loop nest, dof map, section
                     geometry, atoms, entries) on a concrete panel -> dense matrix as the COO data the
                     kernel would produce (validation V of the translator against the running binary);
* `oracle_matrix`  - independent matrix from the operator tables of tools/spec_ops.py and the exact
                     Bardell polynomials of tools/bardell.py (the property's own predicate; implementation
                     arm of the failing-input search);
* `entry_vs_spec`  - model arm: translated entry expressions against the operator-table form at random
                     rational points (names the failing entry when a theorem no longer checks).
"""
import ast
import math
import random
from fractions import Fraction as Fr

import numpy as np

from tools import bardell, spec_ops
from tools.translate import pyx

FLDS = 'uvw'


def panel_flags(panel, fld, d):
    return tuple(float(getattr(panel, '%s%s%s' % (fld, e, d))) for e in ('1t', '1r', '2t', '2r'))


# --------------------------------------------------------------------------------------------- IR interpreter
def interp_kernel(K, consts, panel, params, size, row0, col0, objs=None):
    """dense (size x size) accumulation of the COO triplets the kernel source would produce.
    `objs`: {parameter name: object} for kernels reading several objects (p1, p2)."""
    num = consts.get('num', 3)
    out = np.zeros((size, size))
    base = {}

    def obj_of(nm):
        if objs is None:
            return panel
        return objs[K.objs[nm]]
    for nm, attr in K.attrs.items():
        if attr == 'ABD':
            continue
        if attr == 'h':
            base[nm] = float(sum(panel.plyts))
        else:
            base[nm] = getattr(obj_of(nm), attr)
    for nm in K.params:
        if nm in params:
            base[nm] = params[nm]
    F = np.asarray(panel.lam.ABD if getattr(panel, 'lam', None) is not None else np.zeros((6, 6)))
    for nm, (p, q) in K.lam.items():
        base[nm] = F[p, q]
    base['s'] = consts.get('s')
    base['num'] = num
    base['row0'], base['col0'] = row0, col0

    def call(f, args):
        if f == 'sin':
            return math.sin(args[0])
        if f == 'cos':
            return math.cos(args[0])
        if f == 'float':
            return float(args[0])
        raise pyx.TranslateError('call %s' % f)
    base['__call__'] = call
    loops = K.loops
    jcache = {}

    def jval(at, env):
        i1, i2 = int(env[at.idx1]), int(env[at.idx2])
        f1 = tuple(float(base[n]) if n in base else float('nan') for n in at.names1)
        f2 = tuple(float(base[n]) if n in base else float('nan') for n in at.names2)
        if at.bounds is None:
            x1, x2 = -1., 1.
        else:
            x1, x2 = float(env[at.bounds[0]]), float(env[at.bounds[1]])
        key = (at.d1, i1, f1, at.d2, i2, f2, x1, x2)
        if key not in jcache:
            jcache[key] = bardell.J(at.d1, i1, f1, at.d2, i2, f2, x1, x2)
        return jcache[key]

    # evaluation order: locals are (re)computed when all the names they need are available
    def eval_locals(env):
        for nm in K.local_order:
            e = K.locals[nm]
            need = pyx.names_in(e) - {'sin', 'cos', 'float'}
            if all(n in env for n in need):
                env[nm] = pyx.evaluate(e, env)

    def rec(depth, env):
        if depth == len(loops):
            eval_locals(env)
            row = int(pyx.evaluate(K.row, env))
            col = int(pyx.evaluate(K.col, env))
            if K.skip == 'row > col' and row > col:
                return
            for nm, at in K.atoms.items():
                env[nm] = jval(at, env)
            for nm, pa in K.patoms.items():
                fl = tuple(float(base[n]) if n in base else float('nan') for n in pa.names)
                env[nm] = bardell.phi(pa.d, int(env[pa.idx]), fl, float(env[pa.point]))
            for e in K.entries:
                out[row + e.ro, col + e.co] += pyx.evaluate(e.expr, env)
            return
        var, rng_src = loops[depth]
        nrep = int(pyx.evaluate(ast.parse(rng_src, mode='eval').body, env))
        for v in range(nrep):
            env2 = dict(env)
            env2[var] = v
            eval_locals(env2)
            rec(depth + 1, env2)
    env0 = dict(base)
    eval_locals(env0)
    rec(0, env0)
    return out


def finalize_sym(M):
    """sparse.make_symmetric on a dense accumulation: upper triangle mirrored"""
    U = np.triu(M)
    return U + np.triu(M, 1).T


# --------------------------------------------------------------------------------------------- oracle
def sections_of(model, panel, nsec=41):
    """[(xi1, xi2, r, b)] integration sections as the property describes them"""
    if 'kpanel' not in model:
        return [(-1., 1., getattr(panel, 'r', None) or 0., panel.b)]
    a, rbot, bbot = panel.a, panel.r, panel.b
    sina = math.sin(panel.alpharad)
    out = []
    for s in range(nsec):
        x1, x2 = a * s / nsec, a * (s + 1) / nsec
        r = rbot - sina * (x1 + x2) / 2.
        out.append((2 * x1 / a - 1, 2 * x2 / a - 1, r, r * bbot / rbot))
    return out


def ops_for(model):
    if 'kpanel' in model:
        return spec_ops.kpanel_ops
    if 'cpanel' in model:
        return spec_ops.cpanel_ops
    return spec_ops.plate_ops


def oracle_matrix(model, panel, kind, params, size, row0, col0, y12=None, F=None):
    """kind in {'k0','kG0','kM'}: dense symmetric matrix from the energy definition"""
    num = 1 if model.endswith('_w') else 3
    flds = ['w'] if num == 1 else list(FLDS)
    m, n = panel.m, panel.n
    out = np.zeros((size, size))
    if y12 is None:
        e1, e2 = -1., 1.
    else:
        e1, e2 = 2 * y12[0] / panel.b - 1., 2 * y12[1] / panel.b - 1.
    F = (np.asarray(F) if F is not None else np.asarray(panel.lam.ABD)) if kind == 'k0' else None
    for (xi1, xi2, r, b) in sections_of(model, panel):
        P = dict(a=panel.a, b=b, r=r, sina=math.sin(getattr(panel, 'alpharad', 0.) or 0.),
                 cosa=math.cos(getattr(panel, 'alpharad', 0.) or 0.))
        if kind == 'k0':
            ops, W = ops_for(model)(P), F
        elif kind == 'kG0':
            ops = spec_ops.grad_ops(P)
            W = [[params['Nxx'], params['Nxy']], [params['Nxy'], params['Nyy']]]
        elif kind == 'kM':
            mu, h, dl = panel.mu, float(sum(panel.plyts)), params['delta']
            ops = {'u': {0: [(1, 0, 0)]}, 'v': {1: [(1, 0, 0)]},
                   'w': {2: [(1, 0, 0)], 3: [(2 / P['a'], 1, 0)], 4: [(2 / P['b'], 0, 1)]}}
            W = [[0.] * 5 for _ in range(5)]
            W[0][0] = W[1][1] = W[2][2] = mu * h
            W[0][3] = W[3][0] = W[1][4] = W[4][1] = -mu * h * dl
            W[3][3] = W[4][4] = mu * h * (dl * dl + h * h / 12.)
        else:
            raise ValueError(kind)
        jx, jy = {}, {}
        for fa_i, fa in enumerate(flds):
            for fb_i, fb in enumerate(flds):
                flax, flbx = panel_flags(panel, fa, 'x'), panel_flags(panel, fb, 'x')
                flay, flby = panel_flags(panel, fa, 'y'), panel_flags(panel, fb, 'y')
                for i in range(m):
                    for k in range(m):
                        Jx = lambda dA, dB: bardell.J(dA, i, flax, dB, k, flbx, xi1, xi2)
                        for j in range(n):
                            for l in range(n):
                                Jy = lambda dA, dB: bardell.J(dA, j, flay, dB, l, flby, e1, e2)

                                def J(d, dA, fA, dB, fB):
                                    return Jx(dA, dB) if d == 'x' else Jy(dA, dB)
                                v = spec_ops.hessian(P, ops, W, fa, fb, J)
                                row = row0 + num * (j * m + i) + fa_i
                                col = col0 + num * (l * m + k) + fb_i
                                out[row, col] += v
    return out


# --------------------------------------------------------------------------------------------- model arm
def entry_vs_spec(K, consts, model, kind, rng, trials=3):
    """translated entries vs operator-table form at random rational points.
    returns list of (ro, co, point) on which they differ (empty = agree)"""
    roles = pyx.index_roles(K)
    num = consts.get('num', 3)
    flds = ['w'] if num == 1 else list(FLDS)
    bad = []
    for t in range(trials):
        Jv = {}

        def J(d, dA, fA, dB, fB, dom='ok'):
            k = (d, dA, fA, dB, fB, dom)
            if k not in Jv:
                Jv[k] = Fr(rng.randint(-9, 9), rng.randint(1, 7))
            return Jv[k]
        P = dict(a=Fr(rng.randint(1, 9), rng.randint(1, 5)), b=Fr(rng.randint(1, 9), rng.randint(1, 5)),
                 r=Fr(rng.randint(1, 9), rng.randint(1, 5)), sina=Fr(3, 5), cosa=Fr(4, 5))
        scal = dict(Nxx=Fr(rng.randint(-9, 9), 3), Nyy=Fr(rng.randint(-9, 9), 4), Nxy=Fr(rng.randint(-9, 9), 5),
                    d=Fr(rng.randint(-9, 9), 7), h=Fr(rng.randint(1, 9), 11), mu=Fr(rng.randint(1, 9), 2),
                    beta=Fr(rng.randint(1, 9), 2), gamma=Fr(rng.randint(1, 9), 3), aeromu=Fr(rng.randint(1, 9), 5))
        F = [[0] * 6 for _ in range(6)]
        A = [[Fr(rng.randint(-9, 9), rng.randint(1, 5)) for _ in range(3)] for _ in range(3)]
        B = [[Fr(rng.randint(-9, 9), rng.randint(1, 5)) for _ in range(3)] for _ in range(3)]
        D = [[Fr(rng.randint(-9, 9), rng.randint(1, 5)) for _ in range(3)] for _ in range(3)]
        for p in range(3):
            for q_ in range(3):
                F[p][q_] = A[min(p, q_)][max(p, q_)]
                F[p][q_ + 3] = F[q_ + 3][p] = B[min(p, q_)][max(p, q_)]
                F[p + 3][q_ + 3] = D[min(p, q_)][max(p, q_)]

        def atomval(at):
            (s1, d1), (s2, d2) = roles[at.idx1], roles[at.idx2]
            dom = 'ok'
            if at.bounds is not None and at.bounds != pyx.SUB_BOUNDS[d1]:
                dom = 'bad'
            f1 = (at.d1, at.fl1[0] if at.fl1[1] == d1 else 'other1')
            f2 = (at.d2, at.fl2[0] if at.fl2[1] == d1 else 'other2')
            if s1 == s2:
                dom = 'same-index'
            if s1 == 'B':
                f1, f2 = f2, f1
            return J(d1, f1[0], f1[1], f2[0], f2[1], dom)
        env = {'__exact__': True}
        for nm, at in K.atoms.items():
            env[nm] = atomval(at)
        for nm, (p, q_) in K.lam.items():
            env[nm] = F[p][q_]
        for nm, attr in K.attrs.items():
            if attr in P:
                env[nm] = P[attr]
            elif attr in scal:
                env[nm] = scal[attr]
        for nm in K.params:
            if nm in scal:
                env[nm] = scal[nm]
        env.update({k: v for k, v in P.items() if k in ('sina', 'cosa')})
        if 'r' in K.locals:
            env['r'] = P['r']
        if 'b' in K.locals:
            env['b'] = P['b']
        if kind == 'k0':
            ops, W = ops_for(model)(P), F
        elif kind == 'kG0':
            ops, W = spec_ops.grad_ops(P), [[scal['Nxx'], scal['Nxy']], [scal['Nxy'], scal['Nyy']]]
        elif kind == 'kM':
            dl = -scal['d']
            mu, h = scal['mu'], scal['h']
            ops = {'u': {0: [(1, 0, 0)]}, 'v': {1: [(1, 0, 0)]},
                   'w': {2: [(1, 0, 0)], 3: [(2 / P['a'], 1, 0)], 4: [(2 / P['b'], 0, 1)]}}
            W = [[0] * 5 for _ in range(5)]
            W[0][0] = W[1][1] = W[2][2] = mu * h
            W[0][3] = W[3][0] = W[1][4] = W[4][1] = -mu * h * dl
            W[3][3] = W[4][4] = mu * h * (dl * dl + h * h / 12)
        else:
            return []
        got = {}
        for e in K.entries:
            got[(e.ro, e.co)] = got.get((e.ro, e.co), 0) + pyx.evaluate(e.expr, env)
        for ro in range(num):
            for co in range(num):
                want = spec_ops.hessian(P, ops, W, flds[ro], flds[co], lambda d, dA, fA, dB, fB: J(d, dA, fA, dB, fB))
                g = got.get((ro, co), 0)
                # long decimal literals (0.0833333333333333 for 1/12) differ at 1e-15 relative
                if g != want and abs(g - want) > Fr(1, 10 ** 12) * max(abs(want), 1):
                    bad.append((ro, co, dict(value_in_source=float(g), value_of_energy_form=float(want))))
        if bad:
            break
    return bad
