"""python -m tools.mutation.table  -> rewrites the seeded-changes table of DESIGN.md from seeded/*/meta.json"""
import glob, json, os, re
V = os.path.dirname(os.path.dirname(os.path.dirname(os.path.abspath(__file__))))
rows = []
init = json.load(open(os.path.join(V, 'seeded', 'initial_results.json'))) if os.path.exists(os.path.join(V, 'seeded', 'initial_results.json')) else {}
for d in sorted(glob.glob(os.path.join(V, 'seeded', '*'))):
    mp = os.path.join(d, 'meta.json')
    if not os.path.exists(mp):
        continue
    m = json.load(open(mp))
    name = os.path.basename(d)
    files = ', '.join(os.path.basename(f) for f in (m.get('files') or []))
    needs = (m.get('summary') or m.get('needs_to_manifest') or '').strip().split('\n')[0][:150]
    det = []
    for c, r in sorted((m.get('checks') or {}).items()):
        if r.get('detected'):
            det.append(c + (' (input)' if r.get('with_failing_input') else ' (no-failing-input-found)'))
        else:
            det.append(c + ' MISSED')
    rows.append('| %s | %s | %s | %s | %s | %s |' % (name, m.get('property'), files, needs.replace('|', '/'), init.get(name, '-'),
                                                '; '.join(det) or '-'))
tab = ['| change | breaks | file(s) | what it needs to manifest | first run | quick checks now |', '|---|---|---|---|---|---|'] + rows
p = os.path.join(V, 'DESIGN.md')
s = open(p).read()
s = re.sub(r'<!-- SEEDED-TABLE-BEGIN -->.*<!-- SEEDED-TABLE-END -->',
           lambda _: '<!-- SEEDED-TABLE-BEGIN -->\n' + '\n'.join(tab) + '\n<!-- SEEDED-TABLE-END -->', s, flags=re.S)
open(p, 'w').write(s)
print('%d seeded changes' % len(rows))
