#!/bin/sh
# usage: confirm.sh <ID> <n>   confirm a seeded change in its scratch worktree /tmp/mut/<ID>:
#   demo passes on the clean tree, fails with the patch, the unedited test-suite still passes with the patch.
ID=$1; N=$2; W=/tmp/mut/$ID; O=/tmp/mut/${ID}_out; LOG=$O/confirm$N.log
cd $W || exit 2
git checkout -q -- . ; git clean -fdq -e '*.so' -e version.py >/dev/null 2>&1
{
echo "== clean demo"; /venv/bin/python $O/demo$N.py > $O/confirm$N.clean.out 2>&1; echo "rc_clean=$?"
git apply $O/patch$N.diff || { echo "APPLY FAILED"; exit 3; }
echo "== patched demo"; /venv/bin/python $O/demo$N.py > $O/confirm$N.patched.out 2>&1; echo "rc_patched=$?"
echo "== test suite with patch"
/venv/bin/python -m pytest -q -p no:cacheprovider --timeout=900 --continue-on-collection-errors 2>&1 | tail -3
git checkout -q -- .
} > $LOG 2>&1
grep -h "rc_clean\|rc_patched\|passed\|failed" $LOG | tr '\n' ' '; echo " [$ID $N]"
