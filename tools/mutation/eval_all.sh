#!/bin/sh
# usage: eval_all.sh <worktree name> <check id> <n...>   confirm + run the property's check for each seeded change
W=$1; C=$2; shift 2
for n in "$@"; do
  /venv/bin/python -m tools.mutation.evaluate confirm $W $n
  /venv/bin/python -m tools.mutation.evaluate check $W $n $C
done
