"""Evaluate the seeded changes produced by independent sub-agents (tools/mutation/new_worktree.sh, /tmp/mut/<ID>_out).

  python -m tools.mutation.evaluate confirm  <ID> <n>     demo passes clean / fails patched / suite passes patched (scratch worktree)
  python -m tools.mutation.evaluate check    <ID> <n> [<check id> ...]
        .py patches : the check runs against the PATCHED SCRATCH WORKTREE (COMPMECH_REPO=/tmp/mut/<ID>), so several can run at once
        source patches (.pyx / .c): applied to /repo itself (git -C /repo apply), check, undo (git -C /repo checkout -- .) - one at a time
  python -m tools.mutation.evaluate keep     <ID> <n>     copy patch, demo, notes and meta.json to /verif/seeded/<ID>-<n>/
"""
import json
import os
import re
import shutil
import subprocess
import sys
import time

VERIF = os.path.dirname(os.path.dirname(os.path.dirname(os.path.abspath(__file__))))
MUT = '/tmp/mut'


def sh(cmd, cwd=None, env=None, timeout=None):
    e = dict(os.environ)
    if env:
        e.update(env)
    p = subprocess.run(cmd, shell=True, cwd=cwd, env=e, stdout=subprocess.PIPE, stderr=subprocess.STDOUT, text=True, timeout=timeout)
    return p.returncode, p.stdout


def patch_kind(ID, n):
    txt = open('%s/%s_out/patch%s.diff' % (MUT, ID, n)).read()
    files = re.findall(r'^\+\+\+ b/(\S+)', txt, re.M)
    return ('py' if all(f.endswith('.py') for f in files) else 'src'), files


def confirm(ID, n):
    W, O = '%s/%s' % (MUT, ID), '%s/%s_out' % (MUT, ID)
    kind, files = patch_kind(ID, n)
    sh('git checkout -q -- .', cwd=W)
    res = dict(kind=kind, files=files)
    rc, out = sh('/venv/bin/python %s/demo%s.py' % (O, n), cwd=W, env=dict(PYTHONPATH=W), timeout=3000)
    res['demo_clean_rc'] = rc
    rc, out = sh('git apply %s/patch%s.diff' % (O, n), cwd=W)
    if rc != 0:
        res['apply_failed'] = out[-300:]
        return res
    rc, out = sh('/venv/bin/python %s/demo%s.py' % (O, n), cwd=W, env=dict(PYTHONPATH=W), timeout=3000)
    res['demo_patched_rc'] = rc
    res['demo_patched_tail'] = out[-400:]
    if kind == 'py':
        rc, out = sh('/venv/bin/python -m pytest -q -p no:cacheprovider --timeout=900 --continue-on-collection-errors 2>&1 | tail -3', cwd=W, env=dict(PYTHONPATH=W), timeout=3000)
        res['suite'] = out.strip().split('\n')[-1]
    else:
        rc, out = sh('/venv/bin/python -c "import compmech.panel, compmech.conecyl"', cwd=W, env=dict(PYTHONPATH=W))
        res['suite'] = 'source-only change: the pre-built binaries (hence the 34 tests) are unaffected; package imports rc=%d' % rc
    sh('git checkout -q -- .', cwd=W)
    json.dump(res, open('%s/confirm%s.json' % (O, n), 'w'), indent=1)
    return res


def check(ID, n, checks):
    W, O = '%s/%s' % (MUT, ID), '%s/%s_out' % (MUT, ID)
    kind, files = patch_kind(ID, n)
    results = {}
    if kind == 'py':
        sh('git checkout -q -- .', cwd=W)
        rc, out = sh('git apply %s/patch%s.diff' % (O, n), cwd=W)
        assert rc == 0, out
        env = dict(COMPMECH_REPO=W)
        undo = lambda: sh('git checkout -q -- .', cwd=W)
    else:
        rc, out = sh('git -C /repo status --porcelain')
        assert out.strip() == '', '/repo not clean: ' + out
        rc, out = sh('git -C /repo apply %s/patch%s.diff' % (O, n))
        assert rc == 0, out
        env = dict(VERIF_MUTANT='1')
        def undo():
            sh('git -C /repo checkout -- .')
            # the translators wrote the MUTATED source into lean/CompmechVerif/Gen (tracked files): regenerate from the clean tree
            sh('/venv/bin/python -m tools.translate.gen_all', cwd=VERIF)
    try:
        for c in checks:
            t0 = time.time()
            rc, out = sh('./check %s --tier quick' % c, cwd=VERIF, env=env, timeout=6000)
            vio = [l for l in out.split('\n') if l.startswith('VIOLATION')]
            what = ''
            for k, l in enumerate(out.split('\n')):
                if l.startswith('VIOLATION') and k + 1 < len(out.split('\n')):
                    what = out.split('\n')[k + 1].strip()[:400]
                    break
            results[c] = dict(rc=rc, violation_lines=vio[:3], what=what, wall_s=round(time.time() - t0, 1),
                              with_input=bool(vio) and not vio[0].rstrip().endswith('no-failing-input-found'))
            open('%s/check%s_%s.log' % (O, n, c), 'w').write(out)
    finally:
        undo()
    path = '%s/checks%s.json' % (O, n)
    merged = json.load(open(path)) if os.path.exists(path) else {}
    merged.update(results)          # results of several check ids (and of re-runs after strengthening) accumulate
    json.dump(merged, open(path, 'w'), indent=1)
    return results


def keep(ID, n):
    O = '%s/%s_out' % (MUT, ID)
    pid = re.search(r'C\d\d', ID).group(0)
    num = int(n) + (3 if ID.startswith(('r4', 'r6')) else 0)          # rounds 4 and 6 re-visited properties that already had three: numbered 4..6
    D = os.path.join(VERIF, 'seeded', '%s-%s' % (pid, num))
    os.makedirs(D, exist_ok=True)
    shutil.copy('%s/patch%s.diff' % (O, n), D + '/patch.diff')
    shutil.copy('%s/demo%s.py' % (O, n), D + '/demo.py')
    if os.path.exists('%s/notes%s.md' % (O, n)):
        shutil.copy('%s/notes%s.md' % (O, n), D + '/notes.md')
    conf = json.load(open('%s/confirm%s.json' % (O, n)))
    chk = json.load(open('%s/checks%s.json' % (O, n))) if os.path.exists('%s/checks%s.json' % (O, n)) else {}
    notes = open('%s/notes%s.md' % (O, n)).read() if os.path.exists('%s/notes%s.md' % (O, n)) else ''
    lines_ = [l.strip(' -*#') for l in notes.split('\n') if l.strip(' -*#')]
    need_ = [l for l in lines_ if re.search(r'need|manifest|requires|only when|trigger', l, re.I)]
    summary = (need_[0] if need_ else (lines_[1] if len(lines_) > 1 else (lines_[0] if lines_ else '')))[:300]
    meta = dict(property=pid, worktree=ID, files=conf.get('files'), kind=conf.get('kind'), summary=summary,
                needs_to_manifest=notes[:1500],
                confirmed=dict(demo_on_unmodified_tree_rc=conf.get('demo_clean_rc'), demo_with_change_rc=conf.get('demo_patched_rc'),
                               test_suite_with_change=conf.get('suite'),
                               how='scratch worktree of /repo under /tmp/mut (tools/mutation/evaluate.py confirm): demo on the clean worktree, '
                                   'git apply, demo again, full pytest suite (for .py changes), git checkout'),
                checks={c: dict(detected=(r['rc'] == 1 and bool(r['violation_lines'])), with_failing_input=r['with_input'], what=r['what'],
                                wall_s=r['wall_s']) for c, r in chk.items()},
                ran='./check <id> --tier quick with the change applied (COMPMECH_REPO=<patched scratch worktree> for .py changes; '
                    'git -C /repo apply / checkout for kernel-source changes)')
    json.dump(meta, open(D + '/meta.json', 'w'), indent=1)
    return meta


if __name__ == '__main__':
    cmd, ID, n = sys.argv[1], sys.argv[2], sys.argv[3]
    if cmd == 'confirm':
        print(ID, n, json.dumps(confirm(ID, n))[:600])
    elif cmd == 'check':
        r = check(ID, n, sys.argv[4:] or [re.search(r'C\d\d', ID).group(0)])
        print(ID, n, json.dumps({c: (v['rc'], v['with_input'], v['what'][:160]) for c, v in r.items()}))
    elif cmd == 'keep':
        print(json.dumps(keep(ID, n))[:300])
