"""python -m tools.mutation.mkprompt <PID> [<worktree name> [N [extra-text-file]]] -> prompt text on stdout"""
import json, os, sys
V = os.path.dirname(os.path.dirname(os.path.dirname(os.path.abspath(__file__))))
pid = sys.argv[1]
name = sys.argv[2] if len(sys.argv) > 2 else pid
n = sys.argv[3] if len(sys.argv) > 3 else '3'
extra = open(sys.argv[4]).read() if len(sys.argv) > 4 else ''
for l in open(os.path.join(V, 'properties.jsonl')):
    d = json.loads(l)
    if d['id'] == pid:
        break
t = open(os.path.join(V, 'tools/mutation/agent_prompt.txt')).read()
print(t.format(W='/tmp/mut/' + name, O='/tmp/mut/%s_out' % name, PID=pid, TITLE=d['title'], STATEMENT=d['statement'], N=n, EXTRA=extra))
