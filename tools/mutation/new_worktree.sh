#!/bin/sh
# usage: new_worktree.sh <name>   -> /tmp/mut/<name>: scratch git worktree of /repo HEAD with the pre-built extensions copied in
set -e
d=/tmp/mut/$1
mkdir -p /tmp/mut
git -C /repo worktree add -q --detach "$d" HEAD
rsync -a --include='*/' --include='*.so' --include='version.py' --exclude='*' /repo/compmech/ "$d/compmech/"
echo "$d"
