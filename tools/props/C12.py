"""C12 — penalty connection matrices = Hessian of the interface mismatch energy.
T: Gen/Conn/*.lean regenerated from kC*.pyx; Props/C12.lean (15 block theorems) re-checked.
V: IR of every block kernel interpreted on random panel pairs vs the running kernel functions.
Implementation arm: mismatch-energy oracle (exact Bardell values/integrals) vs PanelAssembly.get_k0_conn for both
orders of the two panels in the assembly; symmetry, positive semi-definiteness, zero energy on fields continuous
across the interface, proportionality to kt, kr; calc_kt_kr symmetric in the panels and linear in the moduli.
"""
import importlib
import math

import numpy as np

from tools import bardell, panel_v
from tools.props import panel_common as pc
from tools.translate import gen_conn, pyx

TRUSTED = pc.TRUSTED_T + [
    'interface operator tables lean/CompmechVerif/Spec/Interface.lean and their Python mirror in this plugin',
    'PanelAssembly.get_k0_conn glue (dispatch, block placement, finalize, cache) is covered by the oracle comparison on the '
    'explored assemblies only',
    'hand model lean/CompmechVerif/Model/ConnLoop.lean of the loop nests of the 15 connection kernels (hypotheses hk11/hk12/hk22 of '
    'get_k0_conn_psd*): compared on every run with the nests the translator reads from the sources (nest_tie; Python level, no Lean schema value)',
]
ASSUMPTIONS = ['the two panels of a line connection share the interface length (the kernels use a1 resp. b1 for all three blocks)',
               'face-to-face (SB) panels share the footprint a1 x b1',
               'kCLTxycte (L-joint) is referenced by assembly.py but its kernel module does not exist in the tree: outside C12']
RULE = ('random pairs of flat panels with different series orders, laminates and edge flags, all five connection kinds, '
        'interior and edge interface positions, both orders of the panels in the assembly; non-trivial = both panels with '
        'm*n >= 4 and an interior interface position or generic flags; distinct by case parameters')
KINDS = ('SSxcte', 'SSycte', 'BFxcte', 'BFycte', 'SB')


def translate(ctx):
    if not hasattr(ctx, '_conn_ir'):
        ctx._conn_ir = gen_conn.translate_all()
    return ctx._conn_ir


def nest_tie(ir):
    """the loop nests the translator reads from kC*.pyx vs the hand model lean/CompmechVerif/Model/ConnLoop.lean
    (connNestDiag / connNest12, used by Props/C12 get_k0_conn_psd*): diagonal blocks = panel nest with the `row > col` skip over one
    panel, coupling block = rectangular nest without skip; loop order i,k,j,l (ycte kinds, SB: yx = false) or j,l,i,k (xcte kinds:
    yx = true).  Python-level tie only: the schema is not emitted as a Lean value."""
    for kind, (kernels, _consts) in ir.items():
        yx = kind.endswith('xcte')
        for blk, K in kernels.items():
            pr, pc_ = {'11': ('1', '1'), '12': ('1', '2'), '22': ('2', '2')}[blk]
            ijkl = [('i' + pr, 'm' + pr), ('k' + pc_, 'm' + pc_), ('j' + pr, 'n' + pr), ('l' + pc_, 'n' + pc_)]
            want_loops = [ijkl[2], ijkl[3], ijkl[0], ijkl[1]] if yx else ijkl
            want = dict(loops=want_loops, skip=(None if blk == '12' else 'row > col'),
                        row='row0 + num * (j%s * m%s + i%s)' % (pr, pr, pr), col='col0 + num * (l%s * m%s + k%s)' % (pc_, pc_, pc_))
            got = dict(loops=[tuple(l) for l in K.loops], skip=K.skip, row=gen_conn._src(K.row), col=gen_conn._src(K.col))
            if got != want:
                return 'fkC%s%s: loop nest read from the source %r differs from the modelled nest %r (Model/ConnLoop.lean)' % (kind, blk, got, want)
    return None


def gen(ctx, rng):
    kind = rng.choice(KINDS)
    # series orders up to 5: the fourth Bardell function (rotation at the far end) is the only one the `..2r.` edge flags act on - with
    # m, n <= 3 a wrong rotation flag in a kernel could never show (seeded change C12-6)
    mx = rng.choice([3, 3, 4, 5])
    c1 = pc.gen_panel_case(rng, models=('Plate',), max_mn=mx, y12=False)
    c2 = pc.gen_panel_case(rng, models=('Plate',), max_mn=mx, y12=False)
    c2['a'] = c1['a'] if kind in ('SSycte', 'BFycte', 'SB') else c2['a']
    c2['b'] = c1['b'] if kind in ('SSxcte', 'BFxcte', 'SB') else c2['b']
    case = dict(kind=kind, c1=c1, c2=c2, order=rng.choice(['p1 first', 'p2 first']))
    pos = lambda L: rng.choice([0., L, rng.uniform(0.1, 0.9) * L])
    if kind in ('SSycte', 'BFycte'):
        case['ycte1'], case['ycte2'] = pos(c1['b']), pos(c2['b'])
    elif kind in ('SSxcte', 'BFxcte'):
        case['xcte1'], case['xcte2'] = pos(c1['a']), pos(c2['a'])
    return case


# ---- mismatch-energy oracle (Python mirror of Spec/Interface.lean + Core/ConnSpec.lean)
def ops_of(kind, P):
    """{pan: {field: {component: [(coef, d_along_or_xi, d_normal_or_eta)]}}}"""
    a, b = {1: P['a1'], 2: P['a2']}, {1: P['b1'], 2: P['b2']}
    one = [(1., 0, 0)]
    if kind == 'SSycte':
        return {p: {'u': {0: one}, 'v': {1: one}, 'w': {2: one, 3: [(2 / b[p], 0, 1)]}} for p in (1, 2)}
    if kind == 'SSxcte':
        return {p: {'u': {0: one}, 'v': {1: one}, 'w': {2: one, 3: [(2 / a[p], 0, 1)]}} for p in (1, 2)}
    if kind == 'BFycte':
        return {1: {'u': {0: one}, 'v': {1: one}, 'w': {2: one, 3: [(2 / b[1], 0, 1)]}},
                2: {'u': {0: one}, 'w': {1: one, 3: [(2 / b[2], 0, 1)]}, 'v': {2: [(-1., 0, 0)]}}}
    if kind == 'BFxcte':
        return {1: {'u': {0: one}, 'v': {1: one}, 'w': {2: one, 3: [(2 / a[1], 0, 1)]}},
                2: {'w': {0: one, 3: [(2 / a[2], 0, 1)]}, 'v': {1: one}, 'u': {2: [(-1., 0, 0)]}}}
    if kind == 'SB':
        d = P['dsb']
        return {1: {'u': {0: one}, 'v': {1: one}, 'w': {2: one, 0: [(d * 2 / a[1], 1, 0)], 1: [(d * 2 / b[1], 0, 1)]}},
                2: {'u': {0: one}, 'v': {1: one}, 'w': {2: one}}}
    raise ValueError(kind)


def oracle(case, p1, p2, kt, kr, size):
    kind = case['kind']
    P = dict(a1=p1.a, b1=p1.b, a2=p2.a, b2=p2.b, dsb=sum(p1.plyts) / 2. + sum(p2.plyts) / 2.)
    ops = ops_of(kind, P)
    W = [kt, kt, kt, (kr if kind != 'SB' else 0.)]
    pans = {1: p1, 2: p2}
    along = 'x' if kind in ('SSycte', 'BFycte') else 'y'
    normal = 'y' if along == 'x' else 'x'
    if kind in ('SSycte', 'BFycte'):
        pt = {1: 2 * case['ycte1'] / p1.b - 1, 2: 2 * case['ycte2'] / p2.b - 1}
        fac = p1.a / 2.
    elif kind in ('SSxcte', 'BFxcte'):
        pt = {1: 2 * case['xcte1'] / p1.a - 1, 2: 2 * case['xcte2'] / p2.a - 1}
        fac = p1.b / 2.
    else:
        pt = None
        fac = p1.a * p1.b / 4.
    # generalised "dofs": list of (pan, field, i (x index), j (y index), global position)
    dofs = []
    for pid, p in pans.items():
        for j in range(p.n):
            for i in range(p.m):
                for fi, f in enumerate('uvw'):
                    dofs.append((pid, f, i, j, p.row_start + 3 * (j * p.m + i) + fi))
    K = np.zeros((size, size))
    sgn = {1: 1., 2: -1.}
    for (pa, fa, ia, ja, ra) in dofs:
        for (pb, fb, ib, jb, rb) in dofs:
            tot = 0.
            for c in range(4):
                if W[c] == 0:
                    continue
                for (cs, sx, sy) in ops[pa].get(fa, {}).get(c, []):
                    for (ct, tx, ty) in ops[pb].get(fb, {}).get(c, []):
                        if pt is not None:
                            ia_, ib_ = (ia, ib) if along == 'x' else (ja, jb)
                            na_, nb_ = (ja, jb) if along == 'x' else (ia, ib)
                            Jv = bardell.J(sx, ia_, panel_v.panel_flags(pans[pa], fa, along),
                                           tx, ib_, panel_v.panel_flags(pans[pb], fb, along))
                            Ea = bardell.phi(sy, na_, panel_v.panel_flags(pans[pa], fa, normal), pt[pa])
                            Eb = bardell.phi(ty, nb_, panel_v.panel_flags(pans[pb], fb, normal), pt[pb])
                            tot += W[c] * cs * ct * Jv * Ea * Eb
                        else:
                            Jx = bardell.J(sx, ia, panel_v.panel_flags(pans[pa], fa, 'x'), tx, ib, panel_v.panel_flags(pans[pb], fb, 'x'))
                            Jy = bardell.J(sy, ja, panel_v.panel_flags(pans[pa], fa, 'y'), ty, jb, panel_v.panel_flags(pans[pb], fb, 'y'))
                            tot += W[c] * cs * ct * Jx * Jy
            K[ra, rb] += sgn[pa] * sgn[pb] * fac * tot
    return K


def build(case):
    from compmech.panel.assembly import PanelAssembly
    p1, p2 = pc.make_panel(case['c1']), pc.make_panel(case['c2'])
    for p in (p1, p2):
        p._rebuild()
    panels = [p1, p2] if case['order'] == 'p1 first' else [p2, p1]
    conn = dict(p1=p1, p2=p2, func=case['kind'])
    for k in ('xcte1', 'xcte2', 'ycte1', 'ycte2'):
        if k in case:
            conn[k] = case[k]
    asm = PanelAssembly(panels, conn=[conn])
    return asm, p1, p2


def run_case(ctx, case, ir):
    from compmech.panel import connections
    asm, p1, p2 = build(case)
    size = asm.get_size()
    kind = case['kind']
    ctype = {'SSycte': 'ycte', 'BFycte': 'ycte', 'SSxcte': 'xcte', 'BFxcte': 'xcte', 'SB': 'bot-top'}[kind]
    kt, kr = pc.quiet(connections.calc_kt_kr, p1, p2, ctype)
    kr = kr if kr is not None else 0.
    dsb = sum(p1.plyts) / 2. + sum(p2.plyts) / 2.
    kernels, consts = ir[kind]
    mod = getattr(connections, 'kC' + kind)
    v_bad = None
    # V: every block kernel against its translated IR
    for blk, (ra, ca) in (('11', (p1, p1)), ('12', (p1, p2)), ('22', (p2, p2))):
        fn = getattr(mod, 'fkC%s%s' % (kind, blk))
        K = kernels[blk]
        params = dict(kt=kt, kr=kr, dsb=dsb, size=size)
        for k in ('xcte1', 'xcte2', 'ycte1', 'ycte2'):
            if k in case:
                params[k] = case[k]
        args = []
        for nm in K.params:
            if nm in ('p1', 'p2'):
                args.append({'p1': p1, 'p2': p2}[nm])
            elif nm == 'row0':
                args.append(ra.row_start)
            elif nm == 'col0':
                args.append(ca.col_start)
            else:
                args.append(params[nm])
        real = fn(*args).toarray()
        mine = panel_v.interp_kernel(K, consts, None, params, size, ra.row_start, ca.col_start, objs=dict(p1=p1, p2=p2))
        d = pc.rel_diff(real, mine)
        if d > 1e-9:
            v_bad = 'translated fkC%s%s interpreted on this pair differs from the running kernel: rel %.3e' % (kind, blk, d)
            break
    # property on the implementation: assembled, finalised connection matrix vs mismatch-energy Hessian
    got = pc.quiet(asm.get_k0_conn).toarray()
    want = oracle(case, p1, p2, kt, kr, size)
    p_bad = None
    ident = None
    d2 = pc.rel_diff(got, want)
    if d2 > 1e-8:
        i, j = np.unravel_index(np.abs(got - want).argmax(), got.shape)
        in12 = (p1.row_start <= i < p1.row_end and p2.row_start <= j < p2.row_end) or \
               (p2.row_start <= i < p2.row_end and p1.row_start <= j < p1.row_end)
        if in12 and case['order'] == 'p2 first' and got[i, j] == 0:
            ident = 'C12-coupling-block-dropped-p1-after-p2'
        p_bad = ('get_k0_conn differs from the Hessian of the interface mismatch energy: rel %.3e at [%d,%d] (code %.6e, '
                 'energy %.6e; %s, order "%s")' % (d2, i, j, got[i, j], want[i, j], kind, case['order']))
    else:
        if np.abs(got - got.T).max() > 0:
            p_bad = 'connection matrix not symmetric'
        else:
            w = np.linalg.eigvalsh(got)
            if w.min() < -1e-9 * max(abs(w).max(), 1e-300):
                p_bad = 'connection matrix not positive semi-definite (min eig %.3e, max %.3e)' % (w.min(), w.max())
    return v_bad, p_bad, ident


def kt_kr_checks(ctx, rng):
    from compmech.panel import connections
    c1 = pc.gen_panel_case(rng, models=('Plate',), max_mn=2, y12=False)
    c2 = pc.gen_panel_case(rng, models=('Plate',), max_mn=2, y12=False)
    c1['offset'] = c2['offset'] = 0.
    c2['a'], c2['b'] = c1['a'], c1['b']
    for ctype in ('xcte', 'ycte', 'bot-top'):
        p1, p2 = pc.make_panel(c1), pc.make_panel(c2)
        k12 = pc.quiet(connections.calc_kt_kr, p1, p2, ctype)
        p1, p2 = pc.make_panel(c1), pc.make_panel(c2)
        k21 = pc.quiet(connections.calc_kt_kr, p2, p1, ctype)
        for x, y in zip(k12, k21):
            if (x is None) != (y is None) or (x is not None and abs(x - y) > 1e-12 * abs(x)):
                return dict(c1=c1, c2=c2, ctype=ctype), 'calc_kt_kr(%s) is not symmetric in the two panels: %r vs %r' % (ctype, k12, k21)
        e = rng.uniform(0.3, 3)

        def scaled(c):
            lp = list(c['laminaprop'])
            for k in (0, 1, 3, 4, 5):
                if k < len(lp):
                    lp[k] *= e
            return dict(c, laminaprop=tuple(lp))
        p1, p2 = pc.make_panel(scaled(c1)), pc.make_panel(scaled(c2))
        ke = pc.quiet(connections.calc_kt_kr, p1, p2, ctype)
        for x, y in zip(k12, ke):
            if x is not None and abs(y - e * x) > 1e-9 * abs(e * x):
                return dict(c1=c1, c2=c2, ctype=ctype, e=e), 'calc_kt_kr(%s) does not scale linearly with the moduli' % ctype
    return None, None


def kt_kr_correspondence(ctx, rng):
    """H: the hand model Model/PenaltyConstants.lean of calc_kt_kr (run at Q through the driver on the exact float laminate data) against
    the running Python, all five connection types in mixed case, unequal laminates and footprints, plus an unknown type"""
    from compmech.panel import connections
    from tools.common import driver, q, unq
    lines, impl = [], []
    types = ['xcte', 'ycte', 'bot-top', 'xcte-ycte', 'ycte-xcte', 'XCTE', 'Bot-Top', 'yCte-xcTE', 'zcte']
    for t in range(ctx.scale(18, 120)):
        c1 = pc.gen_panel_case(rng, models=('Plate',), max_mn=2, y12=False)
        c2 = pc.gen_panel_case(rng, models=('Plate',), max_mn=2, y12=False)
        for c_ in (c1, c2):
            if len(c_['laminaprop']) == 3:
                c_['laminaprop'] = (142.5e9, 8.7e9, 0.28, 5.1e9, 5.1e9, 5.1e9)
        ctype = types[t % len(types)]
        p1, p2 = pc.make_panel(c1), pc.make_panel(c2)
        try:
            got = pc.quiet(connections.calc_kt_kr, p1, p2, ctype)
        except Exception as e:                        # noqa
            got = ('raised', type(e).__name__)
        L = [[float(p.lam.A[0, 0]), float(p.lam.A[1, 1]), float(p.lam.D[0, 0]), float(p.lam.D[1, 1]), float(p.lam.t)] for p in (p1, p2)]
        lines.append('C12 ktkr %s | %s | %s | %s' % (ctype, ' '.join(q(v) for v in L[0]), ' '.join(q(v) for v in L[1]), q(min(p1.a, p1.b))))
        impl.append((ctype, got, c1, c2))
    replies = driver(lines, pid='C12')
    for (ctype, got, c1, c2), rep in zip(impl, replies):
        ctx.evaluations += 1
        bad = None
        if rep == 'none':
            if got is not None:
                bad = 'model: no result for connection type %r, implementation: %r' % (ctype, got)
        elif rep.startswith('ok'):
            _, kt, kr = rep.split()
            want = (unq(kt), None if kr == '-' else unq(kr))
            if not isinstance(got, tuple) or len(got) != 2 or got[0] == 'raised':
                bad = 'model: %r, implementation: %r' % (rep, got)
            else:
                for name, w, g in (('kt', want[0], got[0]), ('kr', want[1], got[1])):
                    if (w is None) != (g is None) or (w is not None and abs(float(w) - g) > 1e-12 * abs(float(w))):
                        bad = '%s(%s): model %r, implementation %r' % (name, ctype, None if w is None else float(w), g)
        else:
            bad = 'driver: ' + rep
        if bad:
            ctx.violation('model Model/PenaltyConstants.lean and calc_kt_kr disagree: ' + bad, dict(c1=c1, c2=c2, ctype=ctype, tie='H kt_kr'),
                          found_input=False)
            return True
    ctx.cov['kt_kr_model_vs_implementation_cases'] = len(impl)
    return False


def tstiff_base_flange(ctx, rng):
    """the base-to-flange connection INSIDE a T stiffener (TStiff2D.calc_k0): with the attachment lines the object is given
    (eta_conn_base, eta_conn_flange in [-1, 1] - defaults 0 and -1) the three connection blocks it adds are the Hessian of the mismatch
    energy between the base on its line y = (eta_b + 1)/2 * bb and the flange on ITS line y = (eta_f + 1)/2 * bf"""
    from tools.props import C13
    import compmech.stiffener.tstiff2d as tmod
    from compmech.panel import connections
    for _ in range(50):
        bc = C13.gen_bay(rng)
        ts = [s_ for s_ in bc['stiffs'] if s_['type'] == 't']
        if ts and not bc['curved']:
            break
    else:
        return None, None
    bc['stiffs'] = ts[:1]
    bc['stiffs'][0]['fflags'] = None
    try:
        bay, objs = C13.build_bay(bc)
    except Exception:
        return None, None
    s_ = objs[0]
    s_.eta_conn_base = rng.choice([0., -1., 1., round(rng.uniform(-1, 1), 3)])
    s_.eta_conn_flange = rng.choice([-1., 1., 1., 0., round(rng.uniform(-1, 1), 3)])
    base, flange = s_.base, s_.flange
    skin = C13.bay_ranges(bc, bay)[0][1]
    nb_, nf_ = pc.quiet(base.get_size), pc.quiet(flange.get_size)
    size = skin + nb_ + nf_
    names = ('fkCBFycte11', 'fkCBFycte12', 'fkCBFycte22')
    orig = {n: getattr(tmod, n) for n in names}
    rec = []
    try:
        for n in names:
            setattr(tmod, n, (lambda n_: (lambda *a, **k: (rec.append(orig[n_](*a, **k)) or rec[-1])))(n))
        pc.quiet(s_.calc_k0, size=size, row0=skin, col0=skin, silent=True, finalize=False)
    except Exception as e:
        return dict(bay=bc, eta_conn_base=s_.eta_conn_base, eta_conn_flange=s_.eta_conn_flange), \
            'TStiff2D.calc_k0 raised %s: %s' % (type(e).__name__, str(e)[:160])
    finally:
        for n in names:
            setattr(tmod, n, orig[n])
    if len(rec) != 3:
        return dict(bay=bc), 'TStiff2D.calc_k0 made %d base-flange connection kernel calls instead of 3' % len(rec)
    from compmech.sparse import finalize_symmetric_matrix
    got = finalize_symmetric_matrix(rec[0] + rec[1] + rec[2]).toarray()
    kt, kr = pc.quiet(connections.calc_kt_kr, base, flange, 'ycte')
    keep = [(q, getattr(q, 'row_start', None)) for q in (base, flange)]
    base.row_start, flange.row_start = skin, skin + nb_
    try:
        want = oracle(dict(kind='BFycte', ycte1=(s_.eta_conn_base + 1) / 2. * base.b, ycte2=(s_.eta_conn_flange + 1) / 2. * flange.b),
                      base, flange, kt, kr if kr is not None else 0., size)
    finally:
        for q, v in keep:
            q.row_start = v
    d = pc.rel_diff(got, want)
    desc = dict(bay=bc, eta_conn_base=s_.eta_conn_base, eta_conn_flange=s_.eta_conn_flange, bb=base.b, bf=flange.b)
    if d > 1e-8:
        i, j = np.unravel_index(np.abs(got - want).argmax(), got.shape)
        return desc, ('T stiffener with eta_conn_base = %g, eta_conn_flange = %g (bb = %.4g, bf = %.4g): the base-flange connection blocks differ '
                      'from the Hessian of the mismatch energy on the lines y_b = %.4g, y_f = %.4g: rel %.3e at [%d,%d]'
                      % (s_.eta_conn_base, s_.eta_conn_flange, base.b, flange.b, (s_.eta_conn_base + 1) / 2. * base.b,
                         (s_.eta_conn_flange + 1) / 2. * flange.b, d, i, j))
    return None, None


def assembly_history(ctx, rng, ir, t=None, forced=None):
    """the connection matrix of an assembly does not depend on which evaluation built it first: after calc_k0(finalize=False) or
    get_k0_conn(finalize=False) (the un-symmetrised sums some callers ask for), or after calc_k0(conn=<another list>), get_k0_conn() /
    calc_k0() deliver what they deliver on a fresh assembly - the symmetric Hessian of the interface energy of the assembly's OWN list"""
    case = gen(ctx, rng)
    # (get_k0_conn(finalize=False) / calc_k0(conn=other) as FIRST call used to poison the cache self.k0_conn: finding
    #  C20-asm-k0_conn-cache-ignores-conn, repaired - the cache now serves and stores only (own list, finalize=True))
    firsts = ['calc_k0(finalize=False)', 'get_k0_conn(finalize=False)', 'calc_k0(conn=other list)', 'calc_kT']
    first = rng.choice(firsts) if t is None else firsts[t % len(firsts)]       # the stream takes them in turn: every tier sees all four
    twice = rng.random() < 0.3
    if forced:                  # replay of a recorded input
        case, first, twice = forced['case'], forced['first'], forced.get('other') == 'own connection twice'
    try:
        asm, p1, p2 = build(case)
        # reference: the plain calc_k0() FIRST, so that both assemblies build their laminates the same way (which call builds the
        # laminates decides about the offset in kt / kr: listed finding C20-kt_kr-builds-lam-without-offset, not this stream's business)
        k0_fresh = pc.quiet(asm.calc_k0, silent=True).toarray()
        fresh = pc.quiet(asm.get_k0_conn).toarray()
        asm2, q1, q2 = build(case)
    except Exception as e:
        return None, None
    desc = dict(case=case, first=first)
    if first == 'calc_k0(conn=other list)':
        desc['other'] = 'own connection twice' if (twice or case['kind'] == 'SB') else 'own connection on a moved line'
    try:
        if first == 'calc_k0(finalize=False)':
            pc.quiet(asm2.calc_k0, silent=True, finalize=False)
        elif first == 'get_k0_conn(finalize=False)':
            for q in (q1, q2):      # the panels' own calc_k0 builds the laminates WITH offset, as the reference did (see above), and
                pc.quiet(q.calc_k0, silent=True)     # leaves the assembly's cache alone
            pc.quiet(asm2.get_k0_conn, finalize=False)
        elif first == 'calc_k0(conn=other list)':
            own = asm2.conn[0]
            moved = dict(own)
            for k in ('xcte1', 'ycte1'):
                if k in moved:      # the line on panel 1 moved to another place of that panel
                    L = q1.a if k == 'xcte1' else q1.b
                    moved[k] = 0.37 * L if abs(moved[k] - 0.37 * L) > 1e-3 * L else 0.61 * L
            # another list object: the own connection on a moved line, or (no line to move: SB) the own connection twice
            other = [moved] if desc['other'] != 'own connection twice' else [dict(own), dict(own)]
            k0_other = pc.quiet(asm2.calc_k0, silent=True, conn=other).toarray()
            if pc.rel_diff(k0_other, k0_fresh) < 1e-12:
                return None, None       # the other list happens to give the same matrix: nothing to tell apart
        else:
            pc.quiet(asm2.calc_kT, c=np.zeros(asm2.get_size()), silent=True)
        later = pc.quiet(asm2.get_k0_conn).toarray()
        k0_later = pc.quiet(asm2.calc_k0, silent=True).toarray()
    except Exception as e:
        # the same evaluations succeeded on the identical fresh assembly above
        return desc, ('%s, get_k0_conn(), calc_k0() on an assembly whose calc_k0() and get_k0_conn() succeed when called first raised %s: %s'
                      % (first, type(e).__name__, str(e)[:160]))
    d = pc.rel_diff(later, fresh)
    if d > 1e-12:
        return desc, ('get_k0_conn() after %s on the same assembly differs from get_k0_conn() of a freshly built assembly: rel %.3e '
                      '(asymmetry of the later matrix: %.3e)' % (first, d, pc.rel_diff(later, later.T)))
    d = pc.rel_diff(k0_later, k0_fresh)
    if d > 1e-12:
        return desc, 'calc_k0() after %s on the same assembly differs from calc_k0() of a freshly built assembly: rel %.3e' % (first, d)
    return None, None


def correspondence(ctx):
    ir = translate(ctx)
    rng = ctx.rng
    bad_nest = nest_tie(ir)
    if bad_nest:
        ctx.violation(bad_nest, dict(tie='loop nest of the connection kernels'), found_input=False)
        return
    if kt_kr_correspondence(ctx, rng) and any(v['found_input'] for v in ctx.violations):
        return
    # (a broken tie without a failing input: the streams below go on looking for one)
    dist = dict(kinds={}, order={}, interior=0)
    for t in range(ctx.scale(30, 300)):
        case = gen(ctx, rng)
        ctx.evaluations += 1
        dist['kinds'][case['kind']] = dist['kinds'].get(case['kind'], 0) + 1
        dist['order'][case['order']] = dist['order'].get(case['order'], 0) + 1
        interior = any(k in case and 0 < case[k] < 1e9 and case[k] not in (0., case['c1']['a'], case['c1']['b'], case['c2']['a'], case['c2']['b'])
                       for k in ('xcte1', 'ycte1', 'xcte2', 'ycte2'))
        dist['interior'] += interior
        if case['c1']['m'] * case['c1']['n'] >= 4 and case['c2']['m'] * case['c2']['n'] >= 4:
            ctx.nontrivial.add(repr(sorted((k, v) for k, v in case.items() if k not in ('c1', 'c2'))) + repr(case['c1']['a']))
        ctx.sample(dict(kind=case['kind'], order=case['order'], m1=case['c1']['m'], n1=case['c1']['n'], m2=case['c2']['m'],
                        n2=case['c2']['n'], pos={k: case[k] for k in case if 'cte' in k}), limit=4)
        v_bad, p_bad, ident = run_case(ctx, case, ir)
        if p_bad:
            if ctx.violation('C12 fails on the implementation: ' + p_bad, dict(case=case), identity=ident):
                return
        if v_bad:
            ctx.violation(v_bad, dict(case=case, tie='V kC'), found_input=False)
            return
    for t in range(ctx.scale(8, 60)):
        c, bad = tstiff_base_flange(ctx, rng)
        ctx.evaluations += 1
        if c is None and bad is None:
            dist['tstiff_conn_ok'] = dist.get('tstiff_conn_ok', 0) + 1
        if bad:
            ctx.violation('C12 fails on the implementation: ' + bad, dict(case=c, derived='tstiff base-flange'))
            return
    for t in range(ctx.scale(8, 40)):
        c, bad = assembly_history(ctx, rng, ir, t)
        ctx.evaluations += 1
        if bad:
            ctx.violation('C12 fails on the implementation: ' + bad, dict(case=c, derived='assembly history'))
            return
    for t in range(ctx.scale(3, 20)):
        c, bad = kt_kr_checks(ctx, rng)
        ctx.evaluations += 1
        if bad:
            ctx.violation('C12 fails on the implementation: ' + bad, dict(case=c, derived='kt_kr'))
            return
    ctx.cov['input_distribution'] = dist
    ctx.cov['translated_kernels'] = ['fkC%s%s' % (k, b) for k in KINDS for b in ('11', '12', '22')]


def source_matrix(case, ir):
    """the finalised connection matrix the SOURCE AS WRITTEN would deliver for this pair: translated block kernels interpreted,
    placed like PanelAssembly.get_k0_conn places them, upper triangle mirrored"""
    from compmech.panel import connections
    asm, p1, p2 = build(case)
    size = asm.get_size()
    kind = case['kind']
    ctype = {'SSycte': 'ycte', 'BFycte': 'ycte', 'SSxcte': 'xcte', 'BFxcte': 'xcte', 'SB': 'bot-top'}[kind]
    kt, kr = pc.quiet(connections.calc_kt_kr, p1, p2, ctype)
    kr = kr if kr is not None else 0.
    dsb = sum(p1.plyts) / 2. + sum(p2.plyts) / 2.
    kernels, consts = ir[kind]
    params = dict(kt=kt, kr=kr, dsb=dsb, size=size)
    for k in ('xcte1', 'xcte2', 'ycte1', 'ycte2'):
        if k in case:
            params[k] = case[k]
    S = np.zeros((size, size))
    for blk, (ra, ca) in (('11', (p1, p1)), ('12', (p1, p2)), ('22', (p2, p2))):
        m_ = panel_v.interp_kernel(kernels[blk], consts, None, params, size, ra.row_start, ca.col_start, objs=dict(p1=p1, p2=p2))
        S += m_.T if (blk == '12' and p1.row_start > p2.col_start) else m_
    S = np.triu(S) + np.triu(S, 1).T
    return S, oracle(case, p1, p2, kt, kr, size), (p1, p2)


def search(ctx, reason):
    try:
        ir = translate(ctx)
    except Exception as e:
        ctx.log('translator unusable: %s' % e)
        ir = None
    if ir is None:
        return False
    # model arm: the source as written against the mismatch-energy Hessian (finds what a stale binary hides)
    st = ctx.rng.getstate()
    for t in range(ctx.scale(60, 300)):
        case = gen(ctx, ctx.rng)
        ctx.evaluations += 1
        try:
            S, want, (p1, p2) = source_matrix(case, ir)
        except Exception:
            continue
        d = pc.rel_diff(S, want)
        if d > 1e-8:
            i, j = np.unravel_index(np.abs(S - want).argmax(), S.shape)
            ctx.violation('C12 fails on the source as written: the %s block kernels interpreted on this pair of panels give %.6e at [%d,%d], '
                          'the Hessian of the interface mismatch energy is %.6e (rel %.3e of the matrix); the running binary is stale '
                          'w.r.t. this source if the implementation arm stays quiet' % (case['kind'], S[i, j], i, j, want[i, j], d),
                          dict(case=case, source_arm=True, broken=reason))
            return True
    ctx.rng.setstate(st)
    for t in range(ctx.scale(40, 200)):
        case = gen(ctx, ctx.rng)
        ctx.evaluations += 1
        try:
            v_bad, p_bad, ident = run_case(ctx, case, ir)
        except pyx.TranslateError:
            continue
        if p_bad and ctx.violation('C12 fails on the implementation: ' + p_bad, dict(case=case, broken=reason), identity=ident):
            return True
    return False


def replay(ctx, data):
    r = data['replay']
    if r.get('derived') == 'assembly history':
        c, bad = assembly_history(ctx, ctx.rng, None, forced=r['case'])
        print('assembly history (%s first):' % r['case']['first'], bad)
        return 1 if bad else 0
    if r.get('case') and not r.get('derived'):
        v_bad, p_bad, ident = run_case(ctx, r['case'], translate(ctx))
        print('V:', v_bad, '| property on implementation:', p_bad)
        return 1 if (v_bad or p_bad) else 0
    print('replay:', data['what'])
    return 1
